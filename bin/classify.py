"""Keys that identify a defect by call-site class + minimal witness shape (DESIGN.md §5):
a violating case matches a known finding iff it has the same key."""


def violation_key(pid, c):
    f = globals().get("key_" + c.engine)
    if f:
        k = f(pid, c)
        if k:
            return k
    return "%s:%s" % (c.engine, c.payload)

"""Keys that identify a defect by call-site class + minimal witness shape (DESIGN.md §5):
a violating case matches a known finding iff it has the same key."""


def violation_key(pid, c):
    if c.go.startswith("CRASH "):
        return "crash:" + c.go[6:60]
    f = globals().get("key_" + c.engine)
    if f:
        k = f(pid, c)
        if k:
            return k
    return "%s:%s" % (c.engine, c.payload)


def _panic_key(pid, c):
    import re
    m = re.search(r"PANIC (\S+)", c.go)
    if m:
        return "panic:" + m.group(1)
    if c.go.startswith("HANG"):
        return "hang"
    return None


key_read = _panic_key
key_rwp = _panic_key
key_scan = _panic_key


def _strings_in(payload):
    out = []
    for tok in payload.split():
        if tok.startswith("S") and len(tok) > 1:
            try:
                out.append(bytes.fromhex(tok[1:]).decode("utf-8", "replace"))
            except ValueError:
                pass
    return out


def key_preamble(pid, c):
    """D12: a placeholder value containing a string that the printer renders in raw form
    ({"…} text) with a real newline in it: the preamble is line oriented."""
    k = _panic_key(pid, c)
    if k:
        return k
    parts = c.payload.split("\t")[0].split(" | ")
    if len(parts) == 2:
        for s in _strings_in(parts[1]):
            if s.startswith('{"') and s.endswith("}") and "\n" in s and not s.startswith("\u029e"):
                return "preamble.rawstring.newline"
    return None


def key_call(pid, c):
    """C20, lib/call. Two root causes on the unchanged tree:
    * `_args_ctx` compares with min-1 / max-1 whatever the origin of the bounds, so for a variadic function
      with a context parameter the *declared* bounds (and the default maximum 1000) are off by one;
    * `CallOverrideFN` with a named function whose package path has no dot: `packageName[:-1]` at registration.
    payload: <loc> <kind> <shape> <entry> <decl> <beh> | ( L args ) | value [\\t extra]"""
    head = c.payload.split("\t")[0].split(" | ")
    h = head[0].split(" ")
    if len(h) != 6 or len(head) != 3:
        return None
    loc, kind, shape, entry, decl, beh = h
    go = c.go.split("\t!")[0]
    if "\t!" in c.go:
        return None
    if go.startswith("REGPANIC slice"):
        if entry.startswith("ov:") and kind == "named" and loc == "dotless":
            return "call.override.dotless-package-regpanic"
        return None
    sp = (shape.split(":")[0]).split("_")
    if len(sp) != 4:
        return None
    ctx, variadic = sp[0] == "c", sp[2] != "0"
    if ctx and variadic and go != (c.spec or ""):
        # entered on one side only, or rejected for the count on one side and for a type on the other, at
        # the two argument counts where the code's bounds and the contract's differ
        # number of lisp arguments: top-level items of the list
        depth, n = 0, 0
        for tok in head[1].split()[2:-1]:
            if tok == ")":
                depth -= 1
                continue
            if depth == 0:
                n += 1
            if tok == "(":
                depth += 1
        ds = decl.split(",") if decl != "-" else []
        if len(ds) in (1, 2):
            try:
                lo = int(ds[0])
                hi = int(ds[1]) if len(ds) == 2 else 1000
            except ValueError:
                return None
            if n in (lo - 1, hi):
                return "call.ctx.declared-bounds-off-by-one"
        elif n == 1000:
            return "call.ctx.unlimited-bound-off-by-one"
    return None


def key_pos(pid, c):
    """D16b: the failing form is a list rebuilt by macro expansion (no cursor of its own) inside a function that is
    reached through a callback-taking builtin from another top-level form."""
    k = _panic_key(pid, c)
    if k:
        return k
    try:
        text = bytes.fromhex([f for f in c.payload.split() if f.startswith("x")][0][1:]).decode("utf-8", "replace")
    except Exception:
        return None
    via_callback = any(c in text for c in ("(map g", "(apply g", "(swap! a g)", "(update [1 2] 0 g)", "(g y)"))
    if "(-> [1 2] (nth 7))" in text and "(def g" in text and via_callback:
        return "pos.macro-rebuilt.via-callback"
    return None


def key_conc(pid, c):
    """C09/C10, lib/concurrent: the defect class of a violating `conc` case (witness name, history shape, race pair)."""
    import re
    f = c.payload.split("\t")[0].split()
    why = c.go.split("\t!", 1)[1] if "\t!" in c.go else ""
    if f[:1] == ["wit"] and len(f) > 1:
        return {"swap-self-deref": "swap.self-deref", "swap-crossed": "swap.crossed",
                "swap-fail-usable": "swap.failed-update",
                "future-done-after-deref": "future.done-window",
                "future-cancel-after-delivery": "future.cancel-after-delivery",
                "future-cancel-running": "future.cancel-running",
                "future-derefs-agree": "future.outcome"}.get(f[1], "conc.wit." + f[1])
    if f[:1] == ["race"]:
        if "wit future-done-after-deref" in why:
            return "future.done-window"
        if "wit future-cancel-after-delivery" in why:
            return "future.cancel-after-delivery"
        if "LispPrint" in why:
            return "atom.print-race"
        if "Future" in why or "future" in why:
            return "future.flag-race"
        return "conc.race." + (f[1] if len(f) > 1 else "?")
    if f[:2] == ["hist", "a"]:
        if c.go.startswith("BLOCKED"):
            if re.search(r"s(\d+)@\1\b", c.payload):
                return "swap.self-deref"
            return "swap.crossed"
        return "atom.history-not-linearizable"
    if f[:2] == ["hist", "f"]:
        if c.go.startswith("BLOCKED"):
            return "future.blocked"
        toks = c.payload.split()
        if any(t.startswith("C") for t in toks):
            return "future.cancel-after-delivery"
        return "future.done-window"
    return None


key_conc_atom = key_conc
key_conc_future = key_conc


def key_envconc(pid, c):
    """C11: simultaneous evaluations on one environment: data race (pair of accesses), blocked, or a program
    whose result / trace / own definitions differ from its solo run."""
    why = c.go.split("\t!", 1)[1] if "\t!" in c.go else ""
    if c.go.startswith("race"):
        if "env.(*Env)" in why:
            return "env.data-race"
        if "Stepper" in why or "lisp.EVAL" in why or "lisp.do" in why:
            return "eval.global-race"
        return "envconc.race:" + why[:80]
    if c.go.startswith("BLOCKED"):
        return "envconc.blocked"
    if c.go.startswith("differs") or c.go.startswith("violation"):
        return "envconc.interference"
    return None


def key_reread(pid, c):
    """Two representation-level findings of the second clause of C06 (text accepted by READ, printed, read again):
    a BOM that is not at the very start of the text is a one-character symbol which prints as a leading BOM (skipped
    by the scanner), and a string literal whose first character is U+029E *is* a keyword in this implementation."""
    k = _panic_key(pid, c)
    if k:
        return k
    try:
        raw = bytes.fromhex(c.payload.split("\t")[0].strip())
    except ValueError:
        return None
    if b"\xef\xbb\xbf" in raw[1:]:
        return "reread.bom-symbol"
    if b'"\xca\x9e' in raw or b"\xc2\xac\xca\x9e" in raw:
        return "reread.marker-leading-string"
    return None

"""Keys that identify a defect by call-site class + minimal witness shape (DESIGN.md §5):
a violating case matches a known finding iff it has the same key."""


def violation_key(pid, c):
    f = globals().get("key_" + c.engine)
    if f:
        k = f(pid, c)
        if k:
            return k
    return "%s:%s" % (c.engine, c.payload)


def _panic_key(pid, c):
    import re
    m = re.search(r"PANIC (\S+)", c.go)
    if m:
        return "panic:" + m.group(1)
    if c.go.startswith("HANG"):
        return "hang"
    return None


key_read = _panic_key
key_rwp = _panic_key
key_scan = _panic_key


def _strings_in(payload):
    out = []
    for tok in payload.split():
        if tok.startswith("S") and len(tok) > 1:
            try:
                out.append(bytes.fromhex(tok[1:]).decode("utf-8", "replace"))
            except ValueError:
                pass
    return out


def key_preamble(pid, c):
    """D12: a placeholder value containing a string that the printer renders in raw form
    ({"…} text) with a real newline in it: the preamble is line oriented."""
    k = _panic_key(pid, c)
    if k:
        return k
    parts = c.payload.split("\t")[0].split(" | ")
    if len(parts) == 2:
        for s in _strings_in(parts[1]):
            if s.startswith('{"') and s.endswith("}") and "\n" in s and not s.startswith("\u029e"):
                return "preamble.rawstring.newline"
    return None

"""Property table: which Lean module carries the theorems, which correspondence engines run,
how many cases per tier, what is assumed.  (DESIGN.md §6)"""

PROPS = {
    "C14": {
        "lean_module": "LispModel.Props.C14",
        "engines": [{"name": "eq", "quick": 20000, "thorough": 400000}],
        "technique": "Lean 4 theorem (equalQ = structural equality, equivalence) + differential correspondence with types.Equal_Q",
        "level_text": "Kernel-checked theorems: the Lean mirror of Equal_Q coincides with structural equality SEq on all data values of "
                      "any nesting and SEq is an equivalence; the mirror is tied to the Go code by running `=` in the real interpreter "
                      "on generated pairs and diffing with the model and the spec oracle on every run.",
        "level_note": "Trusted: Lean kernel; the hand-written mirror of Equal_Q (checked by correspondence, not assumed); harness generators. "
                      "Functions/atoms are outside the data domain.",
        "assumptions": [
            "data values only (functions are not comparable in Go: `=` on them is an error, outside the property)",
            "Go map iteration order is irrelevant to Equal_Q's result (model iterates the association list)",
        ],
        "explanation": "equalQ (Lean mirror of types.Equal_Q) proved equal to structural equality SEq on Data values; "
                       "SEq proved an equivalence; tie: `=` evaluated by the real interpreter on generated pairs "
                       "(rebuilt / mutated / independent) compared with the model and with the spec oracle",
    },
}

# properties not claimed at this commit, with the reason
NOT_CLAIMED = {}

"""Property table: which Lean module carries the theorems, which correspondence engines run,
how many cases per tier, what is assumed.  (DESIGN.md §6)"""

PROPS = {
    "C14": {
        "lean_module": "LispModel.Props.C14",
        "tie_modules": ["LispModel.Tie.SyntaxEqual"],
        "engines": [{"name": "eq", "quick": 20000, "thorough": 400000},
                    {"name": "eqexpr", "quick": 1, "thorough": 1, "deterministic": True}],
        "technique": "Lean 4 theorem (equalQ = structural equality, equivalence) + differential correspondence with types.Equal_Q",
        "level_text": "Kernel-checked theorems: the Lean mirror of Equal_Q coincides with structural equality SEq on all data values of "
                      "any nesting and SEq is an equivalence; the mirror is tied to the Go code by running `=` in the real interpreter "
                      "on generated pairs and diffing with the model and the spec oracle on every run.",
        "level_note": "Trusted: Lean kernel; the hand-written mirror of Equal_Q (checked by correspondence, not assumed); harness generators. "
                      "Functions/atoms are outside the data domain.",
        "assumptions": [
            "data values only (functions are not comparable in Go: `=` on them is an error, outside the property)",
            "Go map iteration order is irrelevant to Equal_Q's result (model iterates the association list)",
        ],
        "explanation": "equalQ (Lean mirror of types.Equal_Q) proved equal to structural equality SEq on Data values; "
                       "SEq proved an equivalence; tie: `=` evaluated by the real interpreter on generated pairs "
                       "(rebuilt / mutated / independent) compared with the model and with the spec oracle",
    },
}

PROPS["C05"] = {
    "lean_module": "LispModel.Props.C05",
    "tie_modules": ["LispModel.Tie.SyntaxReader"],
    "engines": [{"name": "scan", "quick": 20000, "thorough": 300000},
                {"name": "read", "quick": 20000, "thorough": 300000},
                {"name": "rwp", "quick": 15000, "thorough": 200000},
                {"name": "readconc", "quick": 1, "thorough": 1, "deterministic": True}],
    "violation_if": {"read": r"^(PANIC|HANG)", "rwp": r"^(PANIC|HANG)", "scan": r"^(PANIC|HANG)"},
    "technique": "Lean 4 totality + panic-freedom theorems about the scanner/reader model + differential correspondence on byte strings",
    "level_text": "The scanner, reader and preamble reader are total Lean functions (termination checked by the kernel = no hang in the model); "
                  "theorems show that no partial Go operation mirrored in the model (slices, type assertions, nil table, position carriers) is "
                  "reachable for any byte string; the model is tied to reader.Read_str / READWithPreamble / Tokenize by diffing token streams, "
                  "ASTs and error classes on exhaustive short strings over a hostile alphabet and grammar-mutated texts on every run.",
    "level_note": "Trusted: Lean kernel; hand-written mirror of jig/scanner v1.2.0 and reader.go (checked by correspondence incl. token positions); "
                  "the scanner's 1 KiB buffer refill is abstracted (exercised by padded inputs); unicode tables are dumped from Go on every run.",
    "assumptions": ["jig/scanner's buffer refill logic is not modelled (the model scans an unbounded list); inputs padded to offsets 1015..1026 exercise it",
                    "Go-constructor brackets call into the environment: only the constructors registered by core.Load are modelled"],
}
PROPS["C06"] = {
    "lean_module": "LispModel.Props.C06",
    "tie_modules": ["LispModel.Tie.SyntaxPrint"],
    "engines": [{"name": "print", "quick": 20000, "thorough": 400000},
                {"name": "reread", "quick": 15000, "thorough": 300000},
                {"name": "printdeep", "quick": 1, "thorough": 1, "deterministic": True}],
    "technique": "Lean 4 round-trip theorems (escape/unescape, printed tokens) + differential correspondence of PRINT/READ",
    "level_text": "Kernel-checked round-trip lemmas about the printer and reader models for all strings and all nestings; the models are tied to "
                  "printer.Pr_str and reader.Read_str by printing generated values (hostile string pool) with the real PRINT, matching the text "
                  "against the model up to map order, re-reading it with the real READ and with the model.",
    "level_note": "Trusted: Lean kernel; hand-written printer/reader/scanner mirrors (checked by correspondence). Floats and Go-constructor values are outside the property.",
    "assumptions": ["symbols/keywords are 'readable' as defined by the scanner model (Spec/Readable.lean)", "strings contain no NUL (known finding D11)"],
}
PROPS["C15"] = {
    "lean_module": "LispModel.Props.C15",
    "tie_modules": ["LispModel.Tie.SyntaxPrint"],
    "engines": [{"name": "preamble", "quick": 15000, "thorough": 300000}],
    "technique": "Lean 4 theorems about the preamble line format and placeholder substitution + differential correspondence of AddPreamble/READWithPreamble",
    "level_text": "Theorems about the Lean mirror of AddPreamble/READWithPreamble/read_placeholder; tie: READWithPreamble(AddPreamble(src, m)) versus "
                  "Read_str(src, m) on generated sources and hostile value maps, both against the model and against each other.",
    "level_note": "Trusted: Lean kernel; mirrors of mal.go's preamble functions incl. the regexp as a hand-written matcher (checked by correspondence).",
    "assumptions": ["placeholder names range over [A-Za-z0-9_-]", "values are readable data (Spec/Readable.lean)"],
}
PROPS["C16"] = {
    "lean_module": "LispModel.Props.C16",
    "tie_modules": ["LispModel.Tie.SyntaxReader"],
    "engines": [{"name": "cut", "quick": 2500, "thorough": 40000},
                {"name": "replloop", "quick": 1200, "thorough": 20000},
                {"name": "cutbig", "quick": 1, "thorough": 1, "deterministic": True}],
    "technique": "Lean 4 theorems about the reader on token prefixes + differential correspondence on cut/extended expressions incl. the REPL's multiLine verdict",
    "level_text": "Theorems over token sequences (incomplete prefix reports the innermost closer; complete expressions are never reported incomplete; surplus "
                  "closers and second expressions are rejected with a different class); tie: every well-formed generated expression cut after every token and "
                  "extended by every closer, expectation computed by an independent grammar checker, compared with reader.Read_str, repl.multiLine and the model.",
    "level_note": "Trusted: Lean kernel; reader mirror (checked by correspondence); the independent grammar checker in the harness.",
    "assumptions": ["cuts that end in a reader-macro token or leave an odd map are outside the property's premise (cannot be completed by closers alone)"],
}

_EVAL_NOTE = ("Trusted: Lean kernel; the hand-written mirror of EVAL/eval_ast/do/macroexpand/quasiquote/Apply/bind and of the builtins "
              "(lean/LispModel/Eval.lean, Core.lean), whose faithfulness is checked (not assumed) on every run by evaluating generated programs with "
              "the real interpreter in a freshly loaded environment and diffing value / thrown value / ordered trace! effects / final definitions / "
              "poll count / EVAL-frame depth marks with the model; Go integer wrap-around and float arithmetic are not modelled.")
PROPS["C01"] = {
    "model_is_spec": ['eval', 'enum'],
    "lean_module": "LispModel.Props.C01",
    "engines": [{"name": "eval", "quick": 6000, "thorough": 120000},
                {"name": "enum", "quick": 60000, "thorough": 400000, "deterministic": True},
                {"name": "envalg", "quick": 3000, "thorough": 60000}],
    "ignore_spec": {},
    "technique": "Lean 4 theorems (evaluation laws of the implementation-shaped evaluator model) + differential correspondence on typed random programs",
    "level_text": "Kernel-checked evaluation laws (one per clause of the language definition: scoping, sequential let, def, closures, truthiness, "
                  "selected branch only, body order / last value, arguments once and left to right, & rest, arity errors) proved about the Lean mirror of EVAL "
                  "for all programs, stores and fuel; mirror tied to the real evaluator by typed random programs with trace! effects.",
    "level_note": _EVAL_NOTE,
    "assumptions": ["programs over the modelled builtin vocabulary", "hash-map literals with effectful values are evaluated in Go map order (outside the property's program class)"],
}
PROPS["C03"] = {
    "model_is_spec": ['try', 'goerr'],
    "lean_module": "LispModel.Props.C03",
    "engines": [{"name": "try", "quick": 5000, "thorough": 100000},
                {"name": "goerr", "quick": 2000, "thorough": 40000},
                {"name": "lerr", "quick": 3000, "thorough": 60000},
                {"name": "errbi", "quick": 1, "thorough": 1, "deterministic": True},
                {"name": "tryfin", "quick": 1, "thorough": 1, "deterministic": True}],
    "technique": "Lean 4 theorems about the try/catch/finally arm of the evaluator model + differential correspondence on nested try programs",
    "level_text": "Theorems: value of try = body value or handler value (returned, not re-evaluated), catch variable scoped to the handler, finally runs exactly "
                  "once on every path without changing the outcome, thrown payload unchanged through calls / builtin callbacks / nested tries; tie: generated "
                  "programs nesting try/catch/finally with throws from body, callee, builtin, handler, finally.",
    "level_note": _EVAL_NOTE,
    "assumptions": ["Go error objects are compared by class (payload kind); errors.Is reachability of a planted sentinel is checked by the "
                    "goerr engine's harness-side oracle (the model has no Unwrap chains)"],
}
PROPS["C04"] = {
    "lean_module": "LispModel.Props.C04",
    "tie_modules": ["LispModel.Tie.Recovers"],
    "engines": [{"name": "malformed", "quick": 400, "thorough": 20000},
                {"name": "nopanic", "quick": 2000, "thorough": 100000}],
    "violation_if": {"malformed": r"^(PANIC|HANG)", "nopanic": r"^(PANIC|HANG)"},
    "technique": "Lean 4 theorems (total evaluator model without panic outcome; every error is catchable) + exhaustive malformed-form enumeration against the real EVAL",
    "level_text": "The evaluator model is a total function whose only outcomes are value / error / out-of-fuel, and every error outcome is caught by "
                  "(try … (catch e …)); that the real EVAL has no further outcome (a Go panic) is checked by enumerating every special-form head and builtin "
                  "with 0–2 operands of 35 kinds (and sampled 3–4 operands, nested in wrappers), each also wrapped in try/catch, and diffing with the model; "
                  "engine nopanic applies every builtin of the three libraries (also those outside the model: metadata, JSON, base64, errors, time) to 0–2 arguments "
                  "of 18 kinds (3 sampled), directly and under try/catch, observing only value / error / escaped panic.",
    "level_note": _EVAL_NOTE,
    "assumptions": ["acyclic values; recursion that terminates within the host stack"],
}
PROPS["C07"] = {
    "violation_if": {"cancel": r"^HANG"},
    "lean_module": "LispModel.Props.C07",
    "engines": [{"name": "cancel", "quick": 2500, "thorough": 40000},
                {"name": "cancelwall", "quick": 114, "thorough": 760}],
    "technique": "Lean 4 theorems about the poll structure of the evaluator model (every loop iteration polls first) + poll-counting context correspondence + regenerated facts about every blocking operation (Tie.Waits) + wall-clock programs under real contexts (harness oracle)",
    "level_text": "PARTIAL: the logic is proved in poll ticks (after the cancelling poll every evaluation step returns the timeout error at once, no effect "
                  "is appended, the number of further polls is bounded by the try nesting); the tie runs real EVAL under a context whose Done() closes at the "
                  "n-th poll and compares outcome, trace and poll count with the model. Wall-clock latency of the Go scheduler is not exhibited by the model.",
    "level_note": _EVAL_NOTE,
    "assumptions": ["single builtin calls are short (small data)", "goroutine wake-up latency, time.After and context propagation are runtime behaviour outside the model"],
}
PROPS["C08"] = {
    "lean_module": "LispModel.Props.C08",
    "engines": [{"name": "tail", "quick": 1200, "thorough": 5000},
                {"name": "tailconc", "quick": 1, "thorough": 1, "deterministic": True},
                {"name": "afterdebug", "quick": 1, "thorough": 1, "deterministic": True},
                {"name": "taillong", "quick": 1, "thorough": 1, "deterministic": True}],
    "technique": "Lean 4 theorems about the EVAL-frame depth carried by the evaluator model + depth! marks compared with runtime.Callers frame counts + long loops (harness oracle)",
    "level_text": "PARTIAL: 'no additional host stack' is proved as 'no additional EVAL activation': every tail-position construct continues the loop at the same "
                  "depth; the tie demands equality of the model's depth with the number of lisp.EVAL frames counted on the real stack at every depth! mark.",
    "level_note": _EVAL_NOTE,
    "assumptions": ["bytes of Go stack per frame and Go's own stack growth are not modelled"],
}
PROPS["C12"] = {
    "model_is_spec": ['qq', 'macro'],
    "lean_module": "LispModel.Props.C12",
    "engines": [{"name": "qq", "quick": 4000, "thorough": 80000}, {"name": "macro", "quick": 1500, "thorough": 30000},
                {"name": "macrolong", "quick": 1, "thorough": 1, "deterministic": True}],
    "technique": "Lean 4 theorems (quasiquote = template substitution; macro call = evaluation of its expansion) + differential correspondence",
    "level_text": "Theorems about the mirror of quasiquote/qq_loop/macroexpand for templates of any nesting; tie: generated templates (unquote / splice at any "
                  "position, vectors, maps, symbols) and macros built from them (recursive, expanding to library macros), call route vs macroexpand route.",
    "level_note": _EVAL_NOTE,
    "assumptions": ["cons, concat and vec resolve to the core builtins in the scope of the template (the code looks them up by name)"],
}
PROPS["C13"] = {
    "model_is_spec": ['coll'],
    "lean_module": "LispModel.Props.C13",
    "engines": [{"name": "coll", "quick": 8000, "thorough": 200000},
                {"name": "tyctor", "quick": 3000, "thorough": 60000},
                {"name": "arith", "quick": 3000, "thorough": 60000},
                {"name": "seqstr", "quick": 1, "thorough": 1, "deterministic": True}],
    "technique": "Lean 4 algebraic laws of the pure builtin model (sequence / map / set model) + differential correspondence on generated calls and compositions",
    "level_text": "The builtins are modelled as pure functions on immutable values (Core.lean) and shown to satisfy the sequence/map/set laws; the model is "
                  "compared with the real builtins (through the reflective binder) on generated argument tuples incl. nil, empty, negative and out-of-range indices.",
    "level_note": _EVAL_NOTE,
    "assumptions": ["where README and step files are silent the spec follows the code (table in DESIGN.md)", "results that expose Go map iteration order are compared on ≤1-entry collections only"],
}
PROPS["C18"] = {
    "lean_module": "LispModel.Props.C18",
    "engines": [{"name": "step", "quick": 4000, "thorough": 60000},
                {"name": "steplong", "quick": 1, "thorough": 1, "deterministic": True},
                {"name": "stepdbg", "quick": 1, "thorough": 1, "deterministic": True}],
    "technique": "Lean 4 simulation theorem (evaluator with scripted Stepper vs without) + differential correspondence incl. the exact sequence of forms shown to the callback",
    "level_text": "Theorem: for every command script the evaluator model with a Stepper returns the same result, trace and store as without; tie: programs "
                  "with special forms, closures, macros, try/catch/finally under random scripts, compared with the run without Stepper and with the model "
                  "(which predicts which forms the callback sees).",
    "level_note": _EVAL_NOTE,
    "assumptions": ["the four documented commands (no-op, next, in, out); bounded recursion depth"],
}

PROPS["C20"] = {
    "lean_module": "LispModel.Props.C20",
    # the code before the repairs 2f9941a / e281c62, frozen, with the two findings proved against it: rebuilt on every run
    "tie_modules": ["LispModel.Proofs.CallBaseline"],
    "engines": [{"name": "call", "quick": 20000, "thorough": 300000},
                {"name": "callsib", "quick": 600, "thorough": 20000},
                {"name": "callnil", "quick": 1, "thorough": 1, "deterministic": True}],
    "technique": "Lean 4 theorems about the model of lib/call (name derivation, bound selection, _args/_args_ctx, reflect.Call's checks, "
                 "adapters, _recover) against the binder contract + differential correspondence of call.Call/CallOverrideFN",
    "level_text": "Kernel-checked, full strength: entered <-> admissible (binder_contract), the class of the error otherwise, arguments verbatim, "
                  "result mapping, panic wrapping, name derivation, registration totality for all signature shapes, valid declarations, both entry "
                  "points, import paths with or without a dot and all argument lists of the model; the model is tied to lib/call/call.go by "
                  "registering generated Go functions (named functions and closures of every shape ctx x 0-3 fixed x variadic x 0-2 results x "
                  "int/string/interface parameters, in two packages: one import path with and one without a dot) through both entry points in a "
                  "fresh environment and calling them with 0...max+2 arguments of every kind incl. nil (and 998...1002 arguments around the default "
                  "maximum); entered?/arguments seen/result or error class, registration panics, error texts, the registered symbol and the "
                  "_PACKAGES_ key are diffed with the model and with the contract on every run, the former violation witnesses "
                  "(corpus/call.txt) first.",
    "level_note": "History: the contract was violated on the original tree in two classes, repaired by e281c62 (bounds of context-taking "
                  "functions count lisp arguments; keys call.ctx.declared-bounds-off-by-one, call.ctx.unlimited-bound-off-by-one) and 2f9941a "
                  "(CallOverrideFN with a named function of a dot-less package; key call.override.dotless-package-regpanic); the old code, the "
                  "counterexamples and the falsity of the statements for it stay machine-checked in Proofs/CallBaseline.lean; a regression is "
                  "reported under the same keys. "
                  "Trusted: Lean kernel; the hand-written mirror of call.go and the oracle of reflect.Value.Call's arity/assignability checks "
                  "(both checked by correspondence, not assumed); harness generators and recorder.",
    "assumptions": [
        "parameter types: interfaces without methods (types.MalType) or concrete types (int, string exercised); results follow the convention "
        "(none | error | (T, error))",
        "the callee does not panic(nil) (its meaning depends on the go line of the main module); the context handed to Func.Fn is not nil",
        "'unlimited' is the binder's constant 1000 (unlimitedArgments): a variadic function without a declared maximum accepts at most 1000 "
        "lisp arguments by contract, with or without a context parameter; longer lists (e.g. apply on >1000 elements) are rejected with a count error",
        "function and package names are ASCII (strings.ToLower modelled on ASCII) and every runtime function name contains a dot "
        "(<import path>.<identifier>); _PACKAGES_ is unbound or a hash-map at registration",
    ],
    "explanation": "invoke/register (Lean mirror of lib/call) proved to enter the Go function iff the call is admissible (count within the "
                   "declared-else-derived bounds in lisp arguments, every argument assignable), with verbatim arguments, conventional result "
                   "mapping, wrapping of callee panics, the hyphenated lower-case name and panic-free registration of every valid declaration; "
                   "tie: engine call",
}

_CONC_NOTE = ("Trusted: Lean kernel; the hand-written micro-op programs of lib/concurrent (lean/LispModel/Conc.lean, ConcFut.lean), whose shape is "
              "re-derived from the Go source on every run by the go/ast fact extractor (harness/facts_sync*.go -> Generated/Sync.lean, tie lemmas "
              "Tie/Sync.lean by decide); the interleaving semantics of sync.RWMutex / sync.Mutex / capacity-1 channels; the harness (witness programs, "
              "history recorder with a global logical clock, race-detector child); the executable linearizability checker runs inside the Lean driver.")
_CONC_ASSUME = ["sequential consistency of the micro-op interleaving stands in for the Go memory model (justified for data-race-free executions: "
                "every shared-field access is lock-guarded, checked from the regenerated `accesses` fact and by the race detector)",
                "fairness of sync.RWMutex / sync.Mutex for waiting threads (progress theorems show that some thread can always move)"]
PROPS["C09"] = {
    "lean_module": "LispModel.Props.C09",
    "tie_modules": ["LispModel.Tie.Sync"],
    "engines": [{"name": "conc_atom", "quick": 120, "thorough": 3000}],
    "trivial_len": 3,
    "technique": "Lean 4 theorems about an interleaving micro-op model of swap!/reset!/deref/print (lock discipline, linearization points, progress) "
                 "+ facts regenerated from the source + witness programs, recorded concurrent histories checked for linearizability in Lean, race detector",
    "level_text": "PARTIAL (memory model, fairness assumed): for any number of threads and any interleaving of the micro-op model of the repaired programs: "
                  "lock-discipline invariant, every installed value is f(current value) at the linearization point, no lost update, a failing update function "
                  "leaves the atom unchanged, no lock is held across the update function so some thread can always move; counterexamples (by evaluation) for the "
                  "programs of the unchanged source. Tie: micro-op sequences and locksets regenerated from concurrent.go must equal the model's programs; "
                  "real builtins driven from 2-8 goroutines, histories decided by linCheck in the Lean driver; the same under -race.",
    "level_note": _CONC_NOTE,
    "assumptions": _CONC_ASSUME + ["update functions that update the very atom being swapped are excluded (as in the property)",
                                   "values are abstracted to naturals in the model; update functions are pure, failing, atom-reading or other-atom-updating"],
}
PROPS["C10"] = {
    "lean_module": "LispModel.Props.C10",
    "tie_modules": ["LispModel.Tie.Sync"],
    "engines": [{"name": "conc_future", "quick": 120, "thorough": 3000}],
    "trivial_len": 3,
    "technique": "Lean 4 theorems about an interleaving micro-op model of NewFuture's goroutine / Future.Deref / Future.Cancel / the flag predicates "
                 "+ facts regenerated from the source + witness programs, recorded histories checked against the sequential future object in Lean, race detector",
    "level_text": "PARTIAL (memory model, context propagation assumed): for any number of client threads and any interleaving of the micro-op model of the "
                  "repaired programs: the body is applied once, single-outcome invariant (all derefs agree, the re-deposit never blocks), flags monotone, "
                  "done after any deref, cancel after completion is a no-op, cancel of a running future sets cancelled, flag accesses guarded by mu; "
                  "counterexamples (by evaluation) for the programs of the unchanged source. Tie as for C09.",
    "level_note": _CONC_NOTE,
    "assumptions": _CONC_ASSUME + ["context.WithCancel propagation is assumed correct (cancelling = the micro-op cancelCtx, seen by a body that honours it)",
                                   "the system is observed from the moment the `future` call returned (NewFuture spawns exactly one goroutine: regenerated fact)"],
}

PROPS["C02"] = {
    "model_is_spec": ["hist", "pkgreg"],
    "lean_module": "LispModel.Props.C02",
    "tie_modules": ["LispModel.Tie.Appends", "LispModel.Tie.ApplyArgs"],
    "engines": [{"name": "hist", "quick": 4000, "thorough": 100000},
                {"name": "pkgreg", "quick": 1500, "thorough": 40000},
                {"name": "meta", "quick": 3000, "thorough": 60000},
                {"name": "keptargs", "quick": 1, "thorough": 1, "deterministic": True},
                {"name": "heldargs", "quick": 2000, "thorough": 60000}],
    "technique": "Lean 4 frame theorem over a Go slice/array heap model + regenerated append-site and Apply-argument facts + differential correspondence on operation histories + harness-oracle sweep of every library builtin over held values (heldargs)",
    "level_text": "Kernel-checked: every collection builtin, modelled at the level of Go slices (backing array, offset, length, capacity, append in place "
                  "when capacity allows), refines its pure meaning and leaves every live value reading back unchanged (step_frame), hence histories of any "
                  "length and fan-out are immutable; the slice-level model is tied to the source by facts regenerated on every run (every append site in the "
                  "value-producing functions is fresh, subvec uses a 3-index slice) and to the behaviour by histories in which every earlier binding is "
                  "re-read after every step and compared with the pure model; "
                  "registration-time updates of the _PACKAGES_ registry are a second heap model with its own frame theorem over all histories (engine pkgreg).",
    "level_note": _EVAL_NOTE + " The heap model (Heap.lean/CoreHeap.lean) mirrors which array each builtin writes; Go's append/growslice policy is a parameter.",
    "assumptions": ["the _PACKAGES_ registry is modelled on its own heap of map/set objects (PkgReg.lean, engine pkgreg): registrations interleaved with program bindings",
                    "with-meta / meta are modelled at slice level only (the evaluator model has no metadata)"],
}

PROPS["C17"] = {
    "lean_module": "LispModel.Props.C17",
    "engines": [{"name": "pos", "quick": 4000, "thorough": 80000},
                {"name": "posalg", "quick": 4000, "thorough": 80000}],
    "technique": "Lean 4 theorems about reader cursors and the flow of positions through the evaluator model + differential correspondence of error positions on programs with one planted fault",
    "level_text": "PARTIAL (rows only; finding D16b known): reader theorems (cursors name the module, list rows span opening to closing token, children within "
                  "parents, rows = newline counts, unshifted by comments/blank lines/raw strings) and the invariant that every position in a returned error is a "
                  "cursor of the program or store (never invented, first position wins); the tie reads generated multi-line programs with a planted fault under "
                  "a module name, compares the real error position (all four coordinates) with the model's and checks the property's containment statement on it.",
    "level_note": _EVAL_NOTE + " Columns are compared with the model but not claimed by the property.",
    "assumptions": ["errors raised in other goroutines are excluded by the property", "columns are not claimed"],
}
PROPS["C19"] = {
    "lean_module": "LispModel.Props.C19",
    "engines": [{"name": "routes", "quick": 2500, "thorough": 40000},
                {"name": "lnot", "quick": 3000, "thorough": 60000},
                {"name": "reload", "quick": 1, "thorough": 1, "deterministic": True},
                {"name": "routesdeep", "quick": 1, "thorough": 1, "deterministic": True}],
    "technique": "Lean 4 theorems (evaluation commutes with every cursor map, layout gaps are invisible to the scanner, do creates no scope, load-file wrapper) + differential run of one program over seven delivery routes and random layouts",
    "level_text": "Theorems: the whole evaluator block commutes with erasing (or changing) source positions — values, payloads, effects and store are equal, only "
                  "error positions differ; whitespace and comments between tokens do not change the token sequence; `do` evaluates its forms in the same scope; "
                  "the repaired load-file wrapper tokenizes as (do <src> nil) even after a trailing comment. Tie: each generated program is delivered as text "
                  "with/without module, as AST without cursors, re-read from its printed form, form by form through REPL, and through load-file, under random "
                  "layouts (comments, blank lines, CRLF, trailing comment without newline); all routes must agree and the first is compared with the model.",
    "level_note": _EVAL_NOTE,
    "assumptions": ["programs of the C01/C12 class without deliberate errors", "files are written under the check's scratch directory"],
}

PROPS["C11"] = {
    "lean_module": "LispModel.Props.C11",
    "tie_modules": ["LispModel.Tie.EnvSync"],
    "engines": [{"name": "envconc", "quick": 500, "thorough": 6000}],
    "trivial_len": 3,
    "technique": "Lean 4 theorems about an interleaving micro-op model of env.go (per-scope RWMutex, the climb to outer through the locked entry "
                 "point, unlocked writes only on the scope not yet returned) with evaluations as adaptive sequences of env operations "
                 "+ facts regenerated from env.go / mal.go + simultaneous evaluations on one environment compared with solo runs, race detector",
    "level_text": "PARTIAL (memory model, fairness assumed; values abstract; publication of scopes through closures stored in globals/atoms/futures is "
                  "outside the noninterference theorem): for any number of threads and any interleaving: lock discipline of every scope, every data "
                  "access under that scope's lock or on a scope still private to its creating call, no torn global (a Get returns an initial or a "
                  "fully Set value), fresh scopes are touched by their creator only, noninterference (a thread confined to its own root keys and its "
                  "own scopes obtains exactly its solo results, by simulation), the interpreter's package-level variables are untouched without a "
                  "Stepper. Tie: micro-op sequences, locksets, *NT call sites and guarded global assignments regenerated from the source; 2-16 "
                  "generated programs run simultaneously on one preloaded environment against their solo runs; the same under -race.",
    "level_note": _CONC_NOTE,
    "assumptions": _CONC_ASSUME + ["Env.Symbols (REPL completion) is covered by the static lockset facts only; Env.Update is modelled on a scope without outer "
                                   "(its only use: registration on the root namespace)",
                                   "programs write global names of their own and read shared globals nobody writes (the property's premise); closures "
                                   "published through globals, atoms or futures are exercised by the harness, not by the noninterference theorem"],
}

# properties not claimed at this commit, with the reason
NOT_CLAIMED = {}


# regenerated table facts (harness facts → Generated/Registry.lean, Generated/EvalArms.lean) tied to the model by decide
for _pid in ("C13", "C20"):
    PROPS[_pid].setdefault("tie_modules", []).append("LispModel.Tie.Registry")
for _pid in ("C01", "C03", "C07", "C08"):
    PROPS[_pid].setdefault("tie_modules", []).append("LispModel.Tie.EvalArms")
for _pid in ("C07", "C10"):
    PROPS[_pid].setdefault("tie_modules", []).append("LispModel.Tie.Waits")
for _pid in ("C08", "C18"):
    PROPS[_pid].setdefault("tie_modules", []).append("LispModel.Tie.Reentries")
for _pid in ("C08", "C12", "C18"):
    PROPS[_pid].setdefault("tie_modules", []).append("LispModel.Tie.LimitsEval")
for _pid in ("C05", "C06", "C16", "C19"):
    PROPS[_pid].setdefault("tie_modules", []).append("LispModel.Tie.LimitsText")
for _pid in ("C07", "C09"):
    PROPS[_pid].setdefault("tie_modules", []).append("LispModel.Tie.LimitsConc")

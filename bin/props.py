"""Property table: which Lean module carries the theorems, which correspondence engines run,
how many cases per tier, what is assumed.  (DESIGN.md §6)"""

PROPS = {
    "C14": {
        "lean_module": "LispModel.Props.C14",
        "engines": [{"name": "eq", "quick": 20000, "thorough": 400000}],
        "technique": "Lean 4 theorem (equalQ = structural equality, equivalence) + differential correspondence with types.Equal_Q",
        "level_text": "Kernel-checked theorems: the Lean mirror of Equal_Q coincides with structural equality SEq on all data values of "
                      "any nesting and SEq is an equivalence; the mirror is tied to the Go code by running `=` in the real interpreter "
                      "on generated pairs and diffing with the model and the spec oracle on every run.",
        "level_note": "Trusted: Lean kernel; the hand-written mirror of Equal_Q (checked by correspondence, not assumed); harness generators. "
                      "Functions/atoms are outside the data domain.",
        "assumptions": [
            "data values only (functions are not comparable in Go: `=` on them is an error, outside the property)",
            "Go map iteration order is irrelevant to Equal_Q's result (model iterates the association list)",
        ],
        "explanation": "equalQ (Lean mirror of types.Equal_Q) proved equal to structural equality SEq on Data values; "
                       "SEq proved an equivalence; tie: `=` evaluated by the real interpreter on generated pairs "
                       "(rebuilt / mutated / independent) compared with the model and with the spec oracle",
    },
}

PROPS["C05"] = {
    "lean_module": "LispModel.Props.C05",
    "engines": [{"name": "scan", "quick": 20000, "thorough": 300000},
                {"name": "read", "quick": 20000, "thorough": 300000},
                {"name": "rwp", "quick": 15000, "thorough": 200000}],
    "violation_if": {"read": r"^(PANIC|HANG)", "rwp": r"^(PANIC|HANG)", "scan": r"^(PANIC|HANG)"},
    "technique": "Lean 4 totality + panic-freedom theorems about the scanner/reader model + differential correspondence on byte strings",
    "level_text": "The scanner, reader and preamble reader are total Lean functions (termination checked by the kernel = no hang in the model); "
                  "theorems show that no partial Go operation mirrored in the model (slices, type assertions, nil table, position carriers) is "
                  "reachable for any byte string; the model is tied to reader.Read_str / READWithPreamble / Tokenize by diffing token streams, "
                  "ASTs and error classes on exhaustive short strings over a hostile alphabet and grammar-mutated texts on every run.",
    "level_note": "Trusted: Lean kernel; hand-written mirror of jig/scanner v1.2.0 and reader.go (checked by correspondence incl. token positions); "
                  "the scanner's 1 KiB buffer refill is abstracted (exercised by padded inputs); unicode tables are dumped from Go on every run.",
    "assumptions": ["jig/scanner's buffer refill logic is not modelled (the model scans an unbounded list); inputs padded to offsets 1015..1026 exercise it",
                    "Go-constructor brackets call into the environment: only the constructors registered by core.Load are modelled"],
}
PROPS["C06"] = {
    "lean_module": "LispModel.Props.C06",
    "engines": [{"name": "print", "quick": 20000, "thorough": 400000},
                {"name": "reread", "quick": 15000, "thorough": 300000}],
    "technique": "Lean 4 round-trip theorems (escape/unescape, printed tokens) + differential correspondence of PRINT/READ",
    "level_text": "Kernel-checked round-trip lemmas about the printer and reader models for all strings and all nestings; the models are tied to "
                  "printer.Pr_str and reader.Read_str by printing generated values (hostile string pool) with the real PRINT, matching the text "
                  "against the model up to map order, re-reading it with the real READ and with the model.",
    "level_note": "Trusted: Lean kernel; hand-written printer/reader/scanner mirrors (checked by correspondence). Floats and Go-constructor values are outside the property.",
    "assumptions": ["symbols/keywords are 'readable' as defined by the scanner model (Spec/Readable.lean)", "strings contain no NUL (known finding D11)"],
}
PROPS["C15"] = {
    "lean_module": "LispModel.Props.C15",
    "engines": [{"name": "preamble", "quick": 15000, "thorough": 300000}],
    "technique": "Lean 4 theorems about the preamble line format and placeholder substitution + differential correspondence of AddPreamble/READWithPreamble",
    "level_text": "Theorems about the Lean mirror of AddPreamble/READWithPreamble/read_placeholder; tie: READWithPreamble(AddPreamble(src, m)) versus "
                  "Read_str(src, m) on generated sources and hostile value maps, both against the model and against each other.",
    "level_note": "Trusted: Lean kernel; mirrors of mal.go's preamble functions incl. the regexp as a hand-written matcher (checked by correspondence).",
    "assumptions": ["placeholder names range over [A-Za-z0-9_-]", "values are readable data (Spec/Readable.lean)"],
}
PROPS["C16"] = {
    "lean_module": "LispModel.Props.C16",
    "engines": [{"name": "cut", "quick": 2500, "thorough": 40000}],
    "technique": "Lean 4 theorems about the reader on token prefixes + differential correspondence on cut/extended expressions incl. the REPL's multiLine verdict",
    "level_text": "Theorems over token sequences (incomplete prefix reports the innermost closer; complete expressions are never reported incomplete; surplus "
                  "closers and second expressions are rejected with a different class); tie: every well-formed generated expression cut after every token and "
                  "extended by every closer, expectation computed by an independent grammar checker, compared with reader.Read_str, repl.multiLine and the model.",
    "level_note": "Trusted: Lean kernel; reader mirror (checked by correspondence); the independent grammar checker in the harness.",
    "assumptions": ["cuts that end in a reader-macro token or leave an odd map are outside the property's premise (cannot be completed by closers alone)"],
}

# properties not claimed at this commit, with the reason
NOT_CLAIMED = {}

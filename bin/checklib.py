"""Orchestrator shared by all property checks (see bin/check and DESIGN.md §5)."""
import sys, os, json, subprocess, time, fcntl, hashlib, re, shutil, argparse

VERIF = os.path.dirname(os.path.dirname(os.path.abspath(__file__)))
REPO = os.environ.get("VERIF_REPO", "/repo")
LEAN = os.path.join(VERIF, "lean")
HARNESS = os.path.join(VERIF, "harness")
BUILD = os.path.join(VERIF, ".build")
ALLOWED_AXIOMS = {"propext", "Classical.choice", "Quot.sound"}
GOENV = dict(os.environ, GOFLAGS="-mod=mod", GOPROXY="off", GOSUMDB="off", GOTOOLCHAIN="local",
             CGO_ENABLED=os.environ.get("CGO_ENABLED", "0"))

TRUSTED_BASE = [
    "Lean 4.33.0 kernel (theorems re-checked by `lake build`; thorough tier also runs leanchecker)",
    "axioms allowed in property theorems: propext, Classical.choice, Quot.sound (audited on every run by #audit_ns)",
    "statements in lean/LispModel/Props/*.lean and specs in lean/LispModel/Spec/*.lean, read against properties.jsonl",
    "hand-written implementation model lean/LispModel/*.lean: faithfulness checked (not assumed) by the differential "
    "correspondence harness (harness/, linking /repo's working tree) and by facts regenerated from the source",
    "the Go harness (generators, canonicaliser, recover/watchdog), the go/ast fact extractor, the line protocol parser",
]

from props import PROPS  # noqa: E402  (property table: engines, sizes, assumptions)
import classify  # noqa: E402


def sh(cmd, cwd=None, env=None, timeout=None, input=None):
    p = subprocess.run(cmd, cwd=cwd, env=env, timeout=timeout, input=input,
                       stdout=subprocess.PIPE, stderr=subprocess.STDOUT, text=True)
    return p.returncode, p.stdout


class Ctx:
    def __init__(self, pid, tier, seed):
        self.pid, self.tier, self.seed = pid, tier, seed
        self.dir = os.path.join(BUILD, pid + os.environ.get("VERIF_TAG", ""))
        os.makedirs(self.dir, exist_ok=True)
        self.log = []
        self.build_failures = []   # (what, output)
        self.audit = {}            # theorem -> [axioms]
        self.t0 = time.time()

    def note(self, s):
        self.log.append(s)
        print(s, flush=True)


# ------------------------------------------------------------------ step 1: build

def write_if_changed(path, content):
    try:
        if open(path).read() == content:
            return False
    except FileNotFoundError:
        pass
    os.makedirs(os.path.dirname(path), exist_ok=True)
    with open(path, "w") as f:
        f.write(content)
    return True


def build(ctx):
    """Rebuild harness, facts and Lean targets from /repo's current tree (exclusive lock)."""
    os.makedirs(BUILD, exist_ok=True)
    prop = PROPS[ctx.pid]
    with open(os.path.join(BUILD, ".lock"), "w") as lk:
        fcntl.flock(lk, fcntl.LOCK_EX)
        # the repository itself must compile
        rc, out = sh(["go", "build", "./..."], cwd=REPO, env=GOENV, timeout=600)
        if rc != 0:
            print("ERROR: /repo does not compile:\n" + out)
            return False
        hsrc = HARNESS
        wipf = os.path.join(HARNESS, ".wip")   # development only (untracked): engine files still being written
        wip = open(wipf).read().split() if os.path.exists(wipf) else []
        if os.path.realpath(REPO) != "/repo" or wip:
            # checking another tree (e.g. a scratch worktree carrying a seeded change): build a copy of
            # the harness module whose `replace` points there
            hsrc = os.path.join(ctx.dir, "harness-src")
            shutil.rmtree(hsrc, ignore_errors=True)
            shutil.copytree(HARNESS, hsrc)
            for w in wip:
                if os.path.exists(os.path.join(hsrc, w)):
                    os.remove(os.path.join(hsrc, w))
            gm = open(os.path.join(hsrc, "go.mod")).read().replace("=> /repo", "=> " + os.path.realpath(REPO))
            open(os.path.join(hsrc, "go.mod"), "w").write(gm)
        shutil.copyfile(os.path.join(REPO, "go.sum"), os.path.join(hsrc, "go.sum"))
        hbin = os.path.join(ctx.dir, "harness")
        rc, out = sh(["go", "build", "-tags", "verif", "-o", hbin, "."], cwd=hsrc, env=GOENV, timeout=600)
        if rc != 0:
            ctx.build_failures.append(("harness build against /repo (tie cannot be run)", out))
            return True
        ctx.hbin = hbin
        # regenerated facts
        gen_dir = os.path.join(ctx.dir, "gen")
        shutil.rmtree(gen_dir, ignore_errors=True)
        os.makedirs(gen_dir)
        rc, out = sh([hbin, "facts", "-repo", REPO, "-out", gen_dir], timeout=300)
        if rc != 0:
            ctx.build_failures.append(("fact extractor on /repo", out))
        else:
            for fn in sorted(os.listdir(gen_dir)):
                if fn.endswith(".lean"):
                    write_if_changed(os.path.join(LEAN, "LispModel", "Generated", fn),
                                     open(os.path.join(gen_dir, fn)).read())
        # Lean: driver executable, then the property's theorem module (+ audit helper)
        rc, out = sh(["lake", "build", "lispmodel"], cwd=LEAN, timeout=3000)
        if rc != 0:
            ctx.build_failures.append(("lake build lispmodel (model driver)", out))
        else:
            mbin = os.path.join(ctx.dir, "lispmodel")
            shutil.copyfile(os.path.join(LEAN, ".lake/build/bin/lispmodel"), mbin)
            os.chmod(mbin, 0o755)
            ctx.mbin = mbin
        mods = [prop["lean_module"]] + prop.get("tie_modules", [])
        rc, out = sh(["lake", "build", "LispModel.Audit"] + mods, cwd=LEAN, timeout=3000)
        ctx.lean_build_out = out
        if rc != 0:
            ctx.build_failures.append(("lake build " + " ".join(mods) + " (proof obligations / tie lemmas)", out))
        else:
            audit(ctx)
            if ctx.tier == "thorough":
                rc, out = sh(["lake", "env", "leanchecker"] + mods, cwd=LEAN, timeout=3000)
                ctx.leanchecker = (rc, out[-2000:])
                if rc != 0:
                    ctx.build_failures.append(("leanchecker " + " ".join(mods), out))
    return True


def audit(ctx):
    prop = PROPS[ctx.pid]
    ns = prop["lean_module"]
    src = "import LispModel.Audit\nimport %s\n" % ns
    for m in prop.get("tie_modules", []):
        src += "import %s\n" % m
    src += "#audit_ns %s\n" % ns
    for m in prop.get("tie_modules", []):
        src += "#audit_ns %s\n" % m
    path = os.path.join(ctx.dir, "Audit.lean")
    with open(path, "w") as f:
        f.write(src)
    rc, out = sh(["lake", "env", "lean", path], cwd=LEAN, timeout=1200)
    for line in out.splitlines():
        m = re.search(r"AUDIT (\S+) ::(.*)$", line)
        if m:
            ctx.audit[m.group(1)] = m.group(2).split()
    if rc != 0:
        ctx.build_failures.append(("axiom audit", out))
    bad = {n: a for n, a in ctx.audit.items() if not set(a) <= ALLOWED_AXIOMS}
    if bad:
        ctx.build_failures.append(("axiom audit: disallowed axioms", json.dumps(bad, indent=1)))
    # required theorems (obligations.json): a deleted or renamed theorem is a lost obligation
    req = json.load(open(os.path.join(VERIF, "obligations.json"))).get(ctx.pid, [])
    have = {n.split(".")[-1] for n in ctx.audit} | set(ctx.audit)
    missing = [r for r in req if r not in have]
    if missing:
        ctx.build_failures.append(("required theorems missing", "\n".join(missing)))
    # source-level ban (sorry/native_decide/... outside comments)
    banned = grep_banned([prop["lean_module"]] + prop.get("tie_modules", []))
    if banned:
        ctx.build_failures.append(("banned constructs in Lean sources", "\n".join(banned)))


def lean_closure(mods):
    """source files of the given modules and everything of LispModel they import, transitively"""
    seen, todo = set(), list(mods)
    while todo:
        m = todo.pop()
        if m in seen or not m.startswith("LispModel"):
            continue
        path = os.path.join(LEAN, *m.split(".")) + ".lean"
        if not os.path.exists(path):
            continue
        seen.add(m)
        for line in open(path):
            mm = re.match(r"\s*import\s+(\S+)", line)
            if mm:
                todo.append(mm.group(1))
    return sorted(os.path.join(LEAN, *m.split(".")) + ".lean" for m in seen)


def grep_banned(mods):
    hits = []
    pat = re.compile(r"\b(sorry|admit|native_decide|bv_decide|implemented_by|unsafe)\b|^axiom\s|maxHeartbeats 0")
    if True:
        for p in lean_closure(mods):
            if p.endswith("Audit.lean"):
                continue
            text = open(p).read()
            # strip block comments and line comments
            text = re.sub(r"/-.*?-/", lambda m: "\n" * m.group(0).count("\n"), text, flags=re.S)
            for i, line in enumerate(text.splitlines(), 1):
                line = line.split("--")[0]
                if pat.search(line):
                    hits.append("%s:%d: %s" % (os.path.relpath(p, VERIF), i, line.strip()))
    return hits


# ------------------------------------------------------------------ step 2: correspondence

class Case:
    __slots__ = ("engine", "payload", "go", "model", "spec", "origin")

    def __init__(self, engine, payload, go, model, spec, origin):
        self.engine, self.payload, self.go, self.model, self.spec, self.origin = engine, payload, go, model, spec, origin

    def as_dict(self):
        return {"engine": self.engine, "payload": self.payload, "readable": pretty(self.payload)[:1000], "go": self.go,
                "model": self.model, "spec": self.spec, "origin": self.origin}


def run_cases(ctx, engine, n=0, seed=1, cases_file=None, origin="generated", tag="g", extra=None):
    """Runs the Go harness and the Lean driver on the same request lines."""
    req = os.path.join(ctx.dir, "%s.%s.req" % (engine, tag))
    obs = os.path.join(ctx.dir, "%s.%s.obs" % (engine, tag))
    out = os.path.join(ctx.dir, "%s.%s.lean" % (engine, tag))
    cmd = [ctx.hbin, "run", engine, "-seed", str(seed), "-n", str(n), "-req", req, "-obs", obs, "-tier", ctx.tier]
    if cases_file:
        cmd += ["-cases", cases_file]
    if extra:
        cmd += extra
    scratch = os.path.join(ctx.dir, "scratch")
    os.makedirs(scratch, exist_ok=True)
    env = dict(os.environ, GOMEMLIMIT="6GiB", VERIF_SCRATCH=scratch)
    p = subprocess.run(cmd, stdout=subprocess.PIPE, stderr=subprocess.PIPE, text=True, env=env, timeout=7200)
    stats = {}
    if p.returncode != 0:
        # the Go process died (a Go `fatal error` such as "concurrent map read and map write" cannot be recovered):
        # the harness leaves the payload it was running in <obs>.cur — re-run that case alone to confirm, and report
        # it as a concrete failing input
        cur = obs + ".cur"
        tail = (p.stdout + p.stderr)
        if os.path.exists(cur) and tag != "crash":
            payload = open(cur).read()
            one = os.path.join(ctx.dir, "%s.crash.cases" % engine)
            with open(one, "w") as f:
                f.write(payload + "\n")
            for attempt in range(25):
                cmd2 = [ctx.hbin, "run", engine, "-seed", str(seed), "-n", "0", "-req", req + ".crash", "-obs",
                        obs + ".crash", "-tier", ctx.tier, "-cases", one]
                p2 = subprocess.run(cmd2, stdout=subprocess.PIPE, stderr=subprocess.PIPE, text=True, env=env, timeout=600)
                if p2.returncode != 0:
                    m = re.search(r"^(fatal error: .*|panic: .*|SIGSEGV.*)$", p2.stdout + p2.stderr, re.M)
                    why = m.group(1) if m else "process exited with rc=%d" % p2.returncode
                    return [Case(engine, payload, "CRASH " + why[:200], "-", "-", "crash")], stats
            tail = "case running when the process died (did not crash again in 25 runs alone): %s\n%s" % (payload[:500], tail)
        ctx.build_failures.append(("harness run %s crashed (rc=%d)" % (engine, p.returncode), tail[-4000:]))
        return [], stats
    try:
        stats = json.loads(p.stdout.strip().splitlines()[-1])
    except Exception:
        pass
    run_model(ctx, engine, req, out)
    reqs = open(req).read().split("\n")
    gos = open(obs).read().split("\n")
    leans = open(out).read().split("\n")
    res = []
    for i, r in enumerate(reqs):
        if not r or r.startswith("init\t"):
            continue
        payload = r.split("\t", 1)[1] if "\t" in r else r
        go = gos[i] if i < len(gos) else "<missing>"
        ln = leans[i] if i < len(leans) else "<missing>"
        if "\t" in ln:
            model, spec = ln.split("\t", 1)
        else:
            model, spec = ln, "-"
        res.append(Case(engine, payload, go, model, spec, origin))
    return res, stats


def pretty(payload):
    """human-readable rendering of the protocol terms in a payload (for evidence samples and replays)"""
    def tok(t):
        try:
            if t == "N":
                return "nil"
            if t == "T":
                return "true"
            if t == "F":
                return "false"
            if re.fullmatch(r"I-?\d+", t):
                return t[1:]
            if re.fullmatch(r"S[0-9a-f]*", t):
                s = bytes.fromhex(t[1:]).decode("utf-8", "replace")
                return (":" + s[1:]) if s.startswith("\u029e") else json.dumps(s, ensure_ascii=False)
            if re.fullmatch(r"Y[0-9a-f]+", t):
                return bytes.fromhex(t[1:]).decode("utf-8", "replace")
        except Exception:
            pass
        return t
    out, toks, i = [], payload.split(" "), 0
    closers = []
    while i < len(toks):
        t = toks[i]
        if t == "(" and i + 1 < len(toks) and toks[i + 1] in ("L", "V", "M", "H"):
            o, c = {"L": ("(", ")"), "V": ("[", "]"), "M": ("{", "}"), "H": ("#{", "}")}[toks[i + 1]]
            out.append(o)
            closers.append(c)
            i += 2
            continue
        if t == ")" and closers:
            out.append(closers.pop())
        else:
            out.append(tok(t))
        i += 1
    s = " ".join(out)
    for a, b in (("( ", "("), (" )", ")"), ("[ ", "["), (" ]", "]"), ("{ ", "{"), (" }", "}")):
        s = s.replace(a, b)
    return s


def _prop_fields(obs):
    """result, trace and definitions of an evaluator observation (poll counts, depth marks and the
    debugger's call log are tie-only fields)"""
    obs = re.sub(r" (marks|calls)=\[[^\]]*\]", "", obs)
    obs = re.sub(r" ticks=\S+", "", obs)
    return obs


def run_model(ctx, engine, req_path, out_path, per_line_timeout=20.0):
    """Feeds the request lines to the Lean driver with a per-line watchdog: a request on which the model does
    not answer in time (fuel bounds the depth of the model's recursion, not its total work) is answered
    MODEL-TIMEOUT, the driver is restarted (with the `init` line, if any) and the run continues."""
    import threading, queue
    lines = [l for l in open(req_path).read().split("\n")]
    if lines and lines[-1] == "":
        lines.pop()
    init = lines[0] if lines and lines[0].startswith("init\t") else None
    answers = [None] * len(lines)

    def start():
        p = subprocess.Popen([ctx.mbin], stdin=subprocess.PIPE, stdout=subprocess.PIPE, stderr=subprocess.DEVNULL,
                             text=True, bufsize=1)
        q = queue.Queue()

        def reader():
            for l in p.stdout:
                q.put(l.rstrip("\n"))
            q.put(None)
        threading.Thread(target=reader, daemon=True).start()
        return p, q

    i = 0
    crashed = 0
    while i < len(lines):
        p, q = start()
        if init is not None and i > 0:
            p.stdin.write(init + "\n")
            p.stdin.flush()
            try:
                q.get(timeout=120)
            except queue.Empty:
                pass
        window = 256
        sent = i
        ok = True
        while i < len(lines) and ok:
            try:
                while sent < len(lines) and sent - i < window:
                    p.stdin.write(lines[sent] + "\n")
                    sent += 1
                p.stdin.flush()
            except (BrokenPipeError, OSError):
                pass
            try:
                a = q.get(timeout=per_line_timeout if i > 0 or init is None else 180)
            except queue.Empty:
                a = "MODEL-TIMEOUT"
                ok = False
            if a is None:   # driver died
                a = "MODEL-CRASH"
                ok = False
                crashed += 1
            answers[i] = a
            i += 1
        try:
            p.kill()
        except Exception:
            pass
        if crashed > 20:
            ctx.build_failures.append(("lean driver keeps crashing on engine %s" % engine, "line %d" % i))
            break
    with open(out_path, "w") as f:
        f.write("\n".join(a if a is not None else "<missing>" for a in answers) + "\n")


def go_core(obs):
    """observation without the harness-side oracle verdict (`\t!…`)"""
    return obs.split("\t!")[0]


INCONCLUSIVE = ("race-child-timeout",)   # the -race child was merely slow (loaded machine): no verdict, counted


def prop_violation(c, prop=None):
    """A concrete input on which the Go code contradicts the property."""
    if c.go.startswith(INCONCLUSIVE):
        return None
    if c.go.startswith("CRASH "):
        return "the Go process running the real code died on this input: " + c.go[6:]
    rule = (prop or {}).get("violation_if", {}).get(c.engine)
    if rule and re.search(rule, c.go):
        return "go observation matches /%s/: %s" % (rule, c.go[:200])
    if (prop or {}).get("ignore_spec", {}).get(c.engine):
        return None
    if c.engine in (prop or {}).get("model_is_spec", []) and c.model not in ("-", "<missing>") \
            and not c.model.startswith("MODEL-TIMEOUT"):
        # the evaluator model is the definition of the language for this property: a difference in
        # result, thrown value, ordered effects or final definitions is a violation on this input
        g, m = _prop_fields(go_core(c.go)), _prop_fields(c.model)
        if g != m and not c.model.startswith("OOF") and not c.go.startswith("HANG"):
            return "go=%s definition=%s" % (g[:300], m[:300])
        if c.go.startswith("HANG") and c.model.startswith(("ok", "err")):
            # the definition says this program TERMINATES (with a value or an error); the real evaluator was still
            # running it when the case watchdog (seconds, for a program that takes milliseconds) gave up
            return "go did not terminate (watchdog) definition=%s" % m[:300]
    if "\t!" in c.go:
        return c.go.split("\t!", 1)[1]
    if c.spec != "-" and go_core(c.go) != c.spec:
        return "go=%s spec=%s" % (go_core(c.go)[:200], c.spec[:200])
    return None


def corr_mismatch(c):
    if c.model == "-" or c.go.startswith(INCONCLUSIVE):
        return None
    if c.model.startswith("MODEL-TIMEOUT") and not c.go.startswith(("HANG", "PANIC", "CRASH")):
        return None   # the model gave no answer in time (counted in the evidence as model_timeouts): no comparison
    if c.go.startswith("HANG") and (c.model.startswith("OOF") or c.model.startswith("MODEL-TIMEOUT")):
        return None   # both diverge: outside every property's quantifier (terminating programs)
    g, m = go_core(c.go), c.model
    if " ticks=- " in g + " ":
        # the run was made under a context with a deadline (payload d=1): contexts derived from it poll it too, the
        # count is not comparable — everything else is
        g, m = re.sub(r" ticks=\S+", "", g), re.sub(r" ticks=\S+", "", m)
    if g != m:
        return "go=%s model=%s" % (go_core(c.go)[:300], c.model[:300])
    return None


# ------------------------------------------------------------------ shrinking of a violating case

def _subterms(toks):
    """(start, end) index pairs of every balanced protocol sub-term in a token list"""
    out, stack = [], []
    i = 0
    while i < len(toks):
        t = toks[i]
        if t == "(":
            stack.append(i)
        elif t == ")":
            if stack:
                out.append((stack.pop(), i + 1))
        elif i > 0 and toks[i - 1] == "(":
            pass  # the tag
        else:
            out.append((i, i + 1))
        i += 1
    return out


def _ast_candidates(payload):
    if " | " in payload:
        head, ast = payload.rsplit(" | ", 1)
        head += " | "
    else:
        head, ast = "", payload
    toks = ast.split(" ")
    if not toks or toks.count("(") != toks.count(")"):
        return []
    cands = set()
    subs = _subterms(toks)
    for a, b in subs:
        if b - a == len(toks):
            continue
        cands.add(" ".join(toks[:a] + toks[b:]))            # delete
        if b - a > 1:
            cands.add(" ".join(toks[:a] + ["N"] + toks[b:]))  # replace by nil
            # replace a collection by each of its children
            for c, d in subs:
                if a < c and d < b and (d - c) < (b - a) - 2:
                    cands.add(" ".join(toks[:a] + toks[c:d] + toks[b:]))
    return [head + c for c in cands if c.strip()]


def _hex_candidates(payload):
    fields = payload.split(" ")
    idx = None
    for i, f in enumerate(fields):
        body = f[1:] if f.startswith("x") else f
        if len(body) >= 4 and len(body) % 2 == 0 and all(ch in "0123456789abcdef" for ch in body):
            idx = i
            break
    if idx is None:
        return []
    f = fields[idx]
    pre, body = ("x", f[1:]) if f.startswith("x") else ("", f)
    n = len(body) // 2
    cands = set()
    step = max(1, n // 64)
    for k in (n // 2, n // 4, 8, 4, 2, 1):
        if k < 1 or k >= n:
            continue
        for a in range(0, n - k + 1, max(step, k if k > 4 else 1)):
            cands.add(body[:2 * a] + body[2 * (a + k):])
    return [" ".join(fields[:idx] + [pre + c] + fields[idx + 1:]) for c in cands]


def shrink(ctx, prop, case, key, rounds=10, budget=400):
    """Greedy delta debugging: smaller payloads that still violate the property with the same key."""
    best = case
    for rnd in range(rounds):
        cands = _ast_candidates(best.payload) or _hex_candidates(best.payload)
        cands = [c for c in cands if len(c) < len(best.payload)]
        if not cands:
            break
        cands = sorted(set(cands), key=len)[:budget]
        f = os.path.join(ctx.dir, "shrink.%s.cases" % best.engine)
        with open(f, "w") as fh:
            fh.write("\n".join(cands) + "\n")
        try:
            cs, _ = run_cases(ctx, best.engine, cases_file=f, origin="shrunk", tag="s")
        except Exception:
            break
        good = [c for c in cs if prop_violation(c, prop) and classify.violation_key(ctx.pid, c) == key]
        if not good:
            break
        good.sort(key=lambda c: len(c.payload))
        if len(good[0].payload) >= len(best.payload):
            break
        best = good[0]
    return best


# ------------------------------------------------------------------ steps 3/4: decision, evidence

def load_known():
    p = os.path.join(VERIF, "known_findings.json")
    try:
        return json.load(open(p))
    except FileNotFoundError:
        return []


def write_replay(ctx, kind, body):
    d = os.path.join(VERIF, "replays", ctx.pid)
    os.makedirs(d, exist_ok=True)
    js = json.dumps(body, indent=1, ensure_ascii=False, sort_keys=True)
    h = hashlib.sha1(js.encode()).hexdigest()[:12]
    path = os.path.join(d, "%s-%s.json" % (kind, h))
    with open(path, "w") as f:
        f.write(js + "\n")
    return path


def main(argv):
    ap = argparse.ArgumentParser()
    ap.add_argument("pid")
    ap.add_argument("--tier", default=os.environ.get("VERIF_TIER", "quick"))
    ap.add_argument("--replay")
    a = ap.parse_args(argv)
    if a.pid not in PROPS:
        print("unknown property", a.pid)
        return 2
    seed = int(os.environ.get("VERIF_SEED", "1"))
    ctx = Ctx(a.pid, a.tier, seed)
    prop = PROPS[a.pid]
    if not build(ctx):
        return 2
    if a.replay:
        return replay(ctx, a.replay)

    all_cases, stats_all = [], []
    if hasattr(ctx, "hbin") and hasattr(ctx, "mbin"):
        for eng in prop["engines"]:
            name = eng["name"]
            corpus = os.path.join(VERIF, "corpus", name + ".txt")
            if os.path.exists(corpus):
                cs, st = run_cases(ctx, name, cases_file=corpus, origin="corpus", tag="c")
                all_cases += cs
            n = eng.get(ctx.tier, eng.get("quick", 1000))
            seeds = [seed] if (ctx.tier == "quick" or eng.get("deterministic")) else [seed, seed + 1, seed + 2]
            for s in seeds:
                cs, st = run_cases(ctx, name, n=n, seed=s, tag="g%d" % s, extra=eng.get("extra"))
                all_cases += cs
                stats_all.append(st)

    known = [k for k in load_known() if k.get("property") == a.pid and k.get("status") == "known"]
    violations, corr = [], []
    known_hit = {}
    for c in all_cases:
        pv = prop_violation(c, prop)
        if pv:
            key = classify.violation_key(a.pid, c)
            k = next((k for k in known if k["key"] == key), None)
            if k:
                known_hit.setdefault(k["key"], (k, c))
            else:
                violations.append((key, pv, c))
        else:
            cm = corr_mismatch(c)
            if cm:
                corr.append((cm, c))

    rc = 0
    for key, (k, c) in sorted(known_hit.items()):
        print("KNOWN-FINDING: property=%s %s [key=%s]" % (a.pid, k["what"], key))
    if violations:
        # smallest payload first: that is the replay
        violations.sort(key=lambda v: len(v[2].payload))
        distinct = {}
        for key, pv, c in violations:
            distinct.setdefault(key, (pv, c))
        # shrink the representative of each distinct key (at most 5 keys)
        for key in list(distinct)[:5]:
            pv, c = distinct[key]
            try:
                small = shrink(ctx, prop, c, key)
            except Exception as ex:  # shrinking is best effort
                small = c
            if small is not c:
                distinct[key] = (prop_violation(small, prop) or pv, small)
        violations = [(k, pv, c) for k, (pv, c) in distinct.items()] + violations
        violations.sort(key=lambda v: len(v[2].payload))
        body = {"property": a.pid, "kind": "property-violated-on-concrete-input",
                "first": dict(distinct[violations[0][0]][1].as_dict(), why=violations[0][1], key=violations[0][0]),
                "distinct_keys": [dict(c.as_dict(), why=pv, key=k) for k, (pv, c) in list(distinct.items())[:20]],
                "count": len(violations), "seed": seed, "tier": a.tier,
                "replay_cmd": "bin/check %s --replay <this file>" % a.pid}
        path = write_replay(ctx, "violation", body)
        print("VIOLATION property=%s replay=%s" % (a.pid, path))
        rc = 1
    elif corr or ctx.build_failures:
        body = {"property": a.pid, "kind": "property-no-longer-shown-to-hold",
                "broken_obligations": [{"what": w, "output": o[-6000:]} for w, o in ctx.build_failures],
                "correspondence_disagreements": [dict(c.as_dict(), why=cm) for cm, c in corr[:20]],
                "correspondence_disagreement_count": len(corr),
                "search": "corpus + %d generated cases of engines %s compared with the spec oracle: no failing input found"
                          % (len(all_cases), [e["name"] for e in prop["engines"]]),
                "seed": seed, "tier": a.tier}
        path = write_replay(ctx, "broken", body)
        for w, o in ctx.build_failures:
            print("BROKEN: " + w)
            print("\n".join("    " + l for l in o.strip().splitlines()[-25:]))
        for cm, c in corr[:5]:
            print("CORRESPONDENCE-DISAGREEMENT engine=%s %s payload=%s" % (c.engine, cm, c.payload[:300]))
        print("VIOLATION property=%s replay=%s no-failing-input-found" % (a.pid, path))
        rc = 1

    write_evidence(ctx, all_cases, stats_all, violations, corr, known_hit)
    print("%s %s: %d cases, %d theorems audited, %d violations, %d correspondence disagreements, %.1fs"
          % (a.pid, a.tier, len(all_cases), len(ctx.audit), len(violations), len(corr), time.time() - ctx.t0))
    return rc


def write_evidence(ctx, cases, stats_all, violations, corr, known_hit):
    prop = PROPS[ctx.pid]
    req = json.load(open(os.path.join(VERIF, "obligations.json"))).get(ctx.pid, [])
    audited = sorted(ctx.audit)
    have = {n.split(".")[-1] for n in ctx.audit}
    obligations = sorted(set(req) | have)
    broken = len(ctx.build_failures) > 0
    discharged = 0 if broken else len([o for o in obligations if o in have])
    distinct = {}
    classes = {}
    for c in cases:
        distinct[(c.engine, c.payload)] = 1
    for st in stats_all:
        for k, v in (st.get("classes") or {}).items():
            classes[k] = classes.get(k, 0) + v
    nontrivial = len({(c.engine, c.payload) for c in cases if len(c.payload) > prop.get("trivial_len", 8)})
    samples = []
    step = max(1, len(cases) // 6)
    for c in cases[::step][:6]:
        samples.append({"engine": c.engine, "case": c.payload[:400], "readable": pretty(c.payload)[:400],
                        "go": pretty(c.go)[:200], "model": pretty(c.model)[:200], "spec": c.spec[:200]})
    for n in audited[:40]:
        samples.append({"theorem": n, "axioms": ctx.audit[n]})
    top = sorted(classes.items(), key=lambda kv: -kv[1])[:60]
    ev = {
        "property_id": ctx.pid, "tier": ctx.tier, "seed": ctx.seed, "level": "proof",
        "coverage": {
            "obligations": max(1, len(obligations)), "discharged": discharged,
            "checker_cmd": "cd lean && lake build %s && lake env lean <audit of %s> (driven by bin/check %s)"
                           % (prop["lean_module"], prop["lean_module"], ctx.pid),
            "trusted_base": TRUSTED_BASE + prop.get("trusted", []),
            "theorems": {n: ctx.audit[n] for n in audited},
            "required_theorems": req,
            "programs": len(cases), "disagreements_checked": len(corr) + len(violations),
            "evaluations": len(cases), "distinct_nontrivial": nontrivial,
            "rule": prop.get("rule", "corpus first, then cases generated from one SplitMix64 state seeded by VERIF_SEED; "
                                     "distinct = different request line; non-trivial = request longer than %d characters"
                                     % prop.get("trivial_len", 8)),
            "samples": samples, "distribution": dict(top),
            "engines": [e["name"] for e in prop["engines"]],
            "known_findings_hit": sorted(known_hit),
            "model_timeouts": sum(1 for c in cases if c.model.startswith("MODEL-TIMEOUT")),
            "inconclusive_race_children": sum(1 for c in cases if c.go.startswith(INCONCLUSIVE)),
            "exhaustive": False,
            "explanation": prop.get("explanation", ""),
        },
        "assumptions": prop.get("assumptions", []),
        "wall_s": round(time.time() - ctx.t0, 2),
        "violations": len(violations) + (1 if (corr or ctx.build_failures) and not violations else 0),
    }
    # evidence/ holds runs against /repo itself only: a run against another tree (VERIF_REPO / VERIF_TAG, used for
    # seeded changes) leaves its evidence in its own scratch build directory
    evdir = os.path.join(VERIF, "evidence")
    if REPO != "/repo" or os.environ.get("VERIF_TAG"):
        evdir = ctx.dir
    os.makedirs(evdir, exist_ok=True)
    with open(os.path.join(evdir, ctx.pid + ".json"), "w") as f:
        json.dump(ev, f, indent=1, ensure_ascii=False, sort_keys=True)
        f.write("\n")


def replay(ctx, path):
    body = json.load(open(path))
    cases = []
    if "first" in body:
        cases.append(body["first"])
    cases += body.get("distinct_keys", [])[:10]
    cases += body.get("correspondence_disagreements", [])[:10]
    if body.get("broken_obligations"):
        print("broken obligations recorded in the replay file:")
        for b in body["broken_obligations"]:
            print("  - " + b["what"])
        print("current state: " + ("all obligations build and audit" if not ctx.build_failures else
                                   "; ".join(w for w, _ in ctx.build_failures)))
    bad = 1 if ctx.build_failures else 0
    by_engine = {}
    for c in cases:
        by_engine.setdefault(c["engine"], []).append(c["payload"])
    for eng, payloads in by_engine.items():
        f = os.path.join(ctx.dir, "replay.%s.cases" % eng)
        with open(f, "w") as fh:
            fh.write("\n".join(dict.fromkeys(payloads)) + "\n")
        cs, _ = run_cases(ctx, eng, cases_file=f, origin="replay", tag="r")
        for c in cs:
            pv, cm = prop_violation(c, PROPS[ctx.pid]), corr_mismatch(c)
            print("REPLAY engine=%s\n  case : %s\n  go   : %s\n  model: %s\n  spec : %s\n  => %s"
                  % (c.engine, c.payload, c.go, c.model, c.spec,
                     ("PROPERTY VIOLATED: " + pv) if pv else ("correspondence disagreement: " + cm) if cm else "agrees"))
            if pv or cm:
                bad = 1
    return bad

/-
  Line-protocol driver of the Lean model (core-only, compiled to an executable).
  One request per input line, `<engine>\t<payload>`; one answer line per request.
-/
import LispModel
open LispModel

def splitBar (s : String) : List String := s.splitOn " | "

def tf (b : Bool) : String := if b then "T" else "F"

def handle (line : String) : String :=
  match line.splitOn "\t" with
  | ["eq", payload] =>
    match (splitBar payload).map Proto.parseLine with
    | [some a, some b] => s!"{tf (equalQ a b)}\t{tf (structEqB a b)}"
    | _ => "bad-op"
  | ["echo", payload] =>
    match Proto.parseLine payload with
    | some v => Proto.renderPlain v
    | none => "bad-op"
  | _ => "bad-op"

partial def loop (h : IO.FS.Stream) (out : IO.FS.Stream) : IO Unit := do
  let line ← h.getLine
  if line.isEmpty then return ()
  let l := if line.endsWith "\n" then (line.dropEnd 1).toString else line
  out.putStrLn (handle l)
  loop h out

def main : IO Unit := do
  let out ← IO.getStdout
  loop (← IO.getStdin) out
  out.flush

/-
  Line-protocol driver of the Lean model (core-only, compiled to an executable).
  One request per input line, `<engine>\t<payload>[\t<extra>]`; one answer line per request:
  `<model observation>[\t<spec observation>]`.
-/
import LispModel
import LispModel.CallDriver
import LispModel.ConcDriver
import LispModel.LispErrorDriver
import LispModel.PositionDriver
import LispModel.PkgRegDriver
import LispModel.MetaDriver
import LispModel.IntArithDriver
import LispModel.TyCtorDriver
import LispModel.LNotDriver
import LispModel.EnvAlgDriver
import LispModel.ReplLoopDriver
open LispModel

def splitBar (s : String) : List String := s.splitOn " | "

def tf (b : Bool) : String := if b then "T" else "F"

def hexBytes (s : String) : Option (List UInt8) := Proto.hexToBytes s.toList

def charsHex (cs : List Char) : String := Proto.hexEncode (String.ofList cs)

/-! ### scan -/

def kindStr : Scan.Kind → String
  | .ident => "Ident" | .int => "Int" | .float => "Float" | .string => "String"
  | .keyword => "Keyword" | .rawString => "RawString" | .char c => s!"C{c}"

def renderTokens (r : Scan.TokResult) : String :=
  match r with
  | .error _ _ => "err"
  | .ok toks => "ok" ++ String.join (toks.map fun t =>
      s!" {kindStr t.kind}:{Proto.hexEncode (Read.tokStr t)}:{t.line}:{t.column}:{t.offset}")

def hasFloat (bytes : List UInt8) : Bool :=
  match Scan.tokenize bytes with
  | .ok toks => toks.any (·.kind == .float)
  | _ => false

instance : BEq Scan.Kind := ⟨fun a b => decide (a = b)⟩

/-! ### read -/

def errClass : Read.RErr → String
  | .eof c => "eof:" ++ c
  | .unexpected c => "unexpected:" ++ c
  | .trailing => "trailing"
  | .empty => "empty"
  | .underflow => "underflow"
  | .badtoken => "badtoken"
  | .badint => "badint"
  | .oddmap => "oddmap"
  | .badkey => "badkey"
  | .badsetitem => "badsetitem"
  | .rawEof => "eof:¬"
  | .floaterr => "floaterr"
  | .extern _ => "extern"
  | .panic site => "PANIC " ++ site

def multiLine := Read.multiLine

def renderRead (r : Except Read.RErr Val) : String :=
  match r with
  | .ok v => "ok " ++ Proto.renderPlain v
  | .error (.panic site) => "PANIC " ++ site
  | .error e => "err " ++ errClass e ++ " ml=" ++ tf (multiLine e)

def parseCfg (flags : String) (phs : Option (List (String × Val))) : Read.Cfg :=
  let fs := flags.splitOn ","
  { hasEnv := fs.contains "e1", phs := if fs.contains "p1" then some (phs.getD []) else none,
    module := (fs.find? (·.startsWith "m=")).bind fun m => Proto.hexDecode ((m.drop 2).toString) }

/-! ### print matching up to map/set entry order (driver only) -/

def stripPrefix (p l : List Char) : Option (List Char) :=
  if p.isPrefixOf l then some (l.drop p.length) else none

mutual
partial def matchVal (v : Val) (text : List Char) : Option (List Char) :=
  match v with
  | .list xs _ => (stripPrefix ['('] text).bind fun t => (matchSeq xs t true).bind (stripPrefix [')'])
  | .vec xs _ => (stripPrefix ['['] text).bind fun t => (matchSeq xs t true).bind (stripPrefix [']'])
  | .map kvs => (stripPrefix ['{'] text).bind fun t => (matchMap kvs t true).bind (stripPrefix ['}'])
  | .set ks => (stripPrefix ['#', '{'] text).bind fun t => (matchSet ks t true).bind (stripPrefix ['}'])
  | v => stripPrefix (Print.print v) text
partial def matchSeq (xs : List Val) (text : List Char) (first : Bool) : Option (List Char) :=
  match xs with
  | [] => some text
  | x :: r =>
    let t := if first then some text else stripPrefix [' '] text
    t.bind fun t => (matchVal x t).bind fun t' => matchSeq r t' false
partial def matchMap (kvs : List (String × Val)) (text : List Char) (first : Bool) : Option (List Char) :=
  if kvs.isEmpty then some text else
  let t := if first then some text else stripPrefix [' '] text
  t.bind fun t =>
    -- the entry whose printed key comes next (keys are pairwise different)
    kvs.findSome? fun (k, v) =>
      (stripPrefix (Print.prString true k ++ [' ']) t).bind fun t1 =>
        (matchVal v t1).bind fun t2 => matchMap (aerase k kvs) t2 false
partial def matchSet (ks : List String) (text : List Char) (first : Bool) : Option (List Char) :=
  if ks.isEmpty then some text else
  let t := if first then some text else stripPrefix [' '] text
  t.bind fun t =>
    ks.findSome? fun k =>
      (stripPrefix (Print.prString true k) t).bind fun t1 =>
        match t1 with
        | ' ' :: _ => matchSet (ks.erase k) t1 false
        | '}' :: _ => matchSet (ks.erase k) t1 false
        | _ => none
end

def printMatches (v : Val) (text : List Char) : Bool := matchVal v text == some []

partial def hasOpaque : Val → Bool
  | .opaque _ => true
  | .goerr _ => true
  | .list xs _ => xs.any hasOpaque
  | .vec xs _ => xs.any hasOpaque
  | .map kvs => kvs.any fun kv => hasOpaque kv.2
  | _ => false

def roundTrip (v : Val) : String :=
  match Read.readStr {} (String.ofList (Print.print v)).toUTF8.toList with
  | .ok v' => if structEqB v v' then "rt=ok" else "rt=FAIL"
  | .error e => "rt=err:" ++ errClass e

/-! ### preamble -/

def renderP (r : Preamble.PRes) : String :=
  match r with
  | .ok v => "ok " ++ Proto.renderPlain v
  | .err (.panic s) => "PANIC " ++ s
  | .err e => "err " ++ errClass e
  | .badPreamble => "err badpreamble"

/-- Go's `AddPreamble` output = the model's, up to the iteration order of every Go map involved -/
partial def matchPreamble (phs : List (String × Val)) (text : List Char) (src : List Char) : Bool :=
  if phs.isEmpty then text == '\n' :: src
  else phs.any fun (k, v) =>
    match stripPrefix ((";; " ++ k ++ " ").toList) text with
    | some t =>
      (match matchVal v t with
       | some ('\n' :: rest) => matchPreamble (aerase k phs) rest src
       | _ => false)
    | none => false

def handle (line : String) : String :=
  match line.splitOn "\t" with
  | ["pkgreg", payload] => PkgReg.handlePkgReg payload
  | ["arith", payload] => IntArith.handleIntArith payload  -- C01/C13/C06 support, see LispModel/IntArithDriver.lean
  | ["tyctor", payload] => TyCtor.handleTyCtor payload  -- C13/C04/C14 support, see LispModel/TyCtorDriver.lean
  | ["lnot", payload] => LNot.handleLNot payload  -- C19/C06 support, see LispModel/LNotDriver.lean
  | ["envalg", payload] => EnvAlg.handleEnvAlg payload  -- C01/C04/C11 support, see LispModel/EnvAlgDriver.lean
  | ["meta", payload] => Meta.handleMeta payload  -- C02/C06/C13/C14 support, see LispModel/MetaDriver.lean
  | ["eq", payload] =>
    match (splitBar payload).map Proto.parseLine with
    | [some a, some b] => s!"{tf (equalQ a b)}\t{tf (structEqB a b)}"
    | _ => "bad-op"
  | ["echo", payload] =>
    match Proto.parseLine payload with
    | some v => Proto.renderPlain v
    | none => "bad-op"
  | ["scan", payload] =>
    match hexBytes payload with
    | some bs => renderTokens (Scan.tokenize bs)
    | none => "bad-op"
  | ["read", payload] =>
    -- payload: <flags> <hex> [| <placeholder map>]
    match splitBar payload with
    | head :: more =>
      match head.splitOn " " with
      | [flags, hx] =>
        match hexBytes (hx.drop 1).toString with
        | some bs =>
          let phs := match more with
            | [m] => match Proto.parseLine m with
              | some (.map kvs) => some kvs
              | _ => none
            | _ => none
          renderRead (Read.readStr (parseCfg flags phs) bs)
        | none => "bad-op"
      | _ => "bad-op"
    | _ => "bad-op"
  | ["print", payload, extra] =>
    -- payload: value; extra: hex of the text Go's PRINT produced
    match Proto.parseLine payload, hexBytes extra with
    | some v, some bs =>
      let text := (Scan.decodeAll bs).map (fun r => Char.ofNat r.ch)
      let pm := printMatches v text
      -- the round trip is taken on the text Go actually printed (its map order is arbitrary: on values
      -- with unreadable keys the *error* of the re-read depends on that order)
      let rt := match Read.readStr {} bs with
        | .ok v' => if structEqB v v' then "rt=ok" else "rt=FAIL"
        | .error e => "rt=err:" ++ errClass e
      s!"pm={tf pm} {rt}\t{if readableData v then "pm=T rt=ok" else "-"}"
    | _, _ => "bad-op"
  | ["reread", payload] =>
    match hexBytes payload with
    | some bs =>
      match Read.readStr { hasEnv := true } bs with
      | .ok v =>
        if hasOpaque v then "ok opaque" else
        let r := roundTrip v
        s!"ok {r}\tok rt=ok"
      | .error (.panic s) => "PANIC " ++ s
      | .error _ => "err"
    | none => "bad-op"
  | ["preamble", payload, extra] =>
    -- payload: <hex source> | <placeholder map>; extra: hex of Go's AddPreamble output
    match splitBar payload, hexBytes extra with
    | [hx, m], some goText =>
      match hexBytes hx, Proto.parseLine m with
      | some src, some (.map phs) =>
        let viaPreamble := Preamble.readWithPreamble { hasEnv := true } goText
        let direct := Read.readStr { hasEnv := true, phs := some phs } src
        let chars (bs : List UInt8) := (Scan.decodeAll bs).map (fun r => Char.ofNat r.ch)
        let sameText := matchPreamble phs (chars goText) (chars src)
        let d := renderRead direct
        let claimed := phs.all fun kv => readableData kv.2
        let via := match viaPreamble with
          | .ok v => renderRead (.ok v)
          | .err e => renderRead (.error e)
          | .badPreamble => "err badpreamble ml=F"
        s!"text={tf sameText} {via} || {d}\t{if claimed then s!"text=T {d} || {d}" else "-"}"
      | _, _ => "bad-op"
    | _, _ => "bad-op"
  | ["rwp", payload] =>
    -- READWithPreamble on arbitrary bytes (C05)
    match hexBytes payload with
    | some bs => renderP (Preamble.readWithPreamble { hasEnv := true } bs)
    | none => "bad-op"
  | ["call", payload, extra] => CallDriver.handleCall payload extra  -- C20, see LispModel/CallDriver.lean
  | ["conc", payload, extra] => ConcDriver.handleConc payload extra  -- C09/C10, see LispModel/ConcDriver.lean
  | ["lerr", payload] => LispErrorDriver.handleLispError payload  -- C03/C04/C17/C19 support, see LispModel/LispErrorDriver.lean
  | ["posalg", payload] => handlePosition payload  -- C17/C19 support, see LispModel/PositionDriver.lean
  | _ => "bad-op"

/-! ### eval -/

def evalFuel : Nat := 200000

def renderErr (st : State) (e : Err) : String :=
  match e with
  | .lisp p _ => "err lisp " ++ Proto.render (fun id => st.atoms[id]?) p
  | .plain _ => "err plain"

def parseScript (s : String) : Option (List Cmd) :=
  if s == "-" then none else
  some (s.toList.map fun c => if c == 'x' then Cmd.next else if c == 'i' then Cmd.stepIn else if c == 'o' then Cmd.stepOut else Cmd.noop)

def joinSemi (l : List String) : String := " ; ".intercalate l

def renderNats (l : List Nat) : String := "[" ++ " ".intercalate (l.map toString) ++ "]"

def runEval (base : State) (payload : String) : String :=
  match payload.splitOn " | " with
  | [flags, prog] =>
    match Proto.parseLine prog with
    | none => "bad-op"
    | some ast =>
      let fs := flags.splitOn " "
      let get (p : String) : String := ((fs.find? (·.startsWith p)).map (fun f => (f.drop p.length).toString)).getD "-"
      let cancelAt := (get "c=").toNat?
      let script := parseScript (get "s=")
      let names := if get "n=" == "-" then [] else (get "n=").splitOn ","
      let st0 : State := { base with cancelAt := cancelAt, ticks := 0, trace := [], marks := [],
                                      stepper := script.map fun sc => { script := sc } }
      let (st0, env0) := if get "e=" == "child" then st0.newScope 0 [] else (st0, 0)
      let (r, st) := eval evalFuel st0 env0 ast 1
      let deref := fun id => st.atoms[id]?
      let res := match r with
        | .ok v => "ok " ++ Proto.render deref v
        | .err e => renderErr st e
        | .oof => "OOF"
      let defs := names.map fun n => match st.get env0 n with
        | some v => n ++ "=" ++ Proto.render deref v
        | none => n ++ "=?"
      let out := s!"{res} trace=[{joinSemi (st.trace.reverse.map (Proto.render deref))}] marks={renderNats st.marks.reverse} ticks={st.ticks} defs=[{joinSemi defs}]"
      match st.stepper with
      | some sp => out ++ s!" calls=[{joinSemi (sp.calls.reverse.map (Proto.render deref))}]"
      | none => out
  | _ => "bad-op"

def loadLib (st : State) (prog : String) : Except String State :=
  match Proto.parseLine prog with
  | none => .error "library AST does not parse"
  | some ast =>
    match eval evalFuel st 0 ast 1 with
    | (.ok _, st') => .ok st'
    | (.err e, st') => .error ("library does not evaluate: " ++ renderErr st' e)
    | (.oof, _) => .error "library: out of fuel"

def runInit (payload : String) : State × String :=
  let libs := payload.splitOn " | "
  let rec go (st : State) : List String → State × String
    | [] => (st, "-")
    | l :: r => match loadLib st l with
      | .ok st' => go st' r
      | .error m => (st, "init-failed: " ++ m)
  go initState libs

/-- engine `hist` (C02): steps evaluated one after the other on one store; after every step every
    binding made so far is rendered again -/
def runHist (base : State) (payload : String) : String :=
  let steps := payload.splitOn " || "
  let vname (i : Nat) : String := "v" ++ String.singleton (Char.ofNat (97 + i % 26)) ++ String.singleton (Char.ofNat (48 + i / 26))
  let rec go (st : State) (j : Nat) : List String → List String
    | [] => []
    | s :: rest =>
      match Proto.parseLine s with
      | none => ["bad-op"]
      | some ast =>
        let (r, st') := eval evalFuel st 0 ast 1
        let tag := match r with | .ok _ => "k" | _ => "E"
        let deref := fun id => st'.atoms[id]?
        let vals := (List.range (j + 1)).map fun i => match st'.get 0 (vname i) with
          | some v => Proto.render deref v
          | none => "?"
        (tag ++ String.join (vals.map (" " ++ ·))) :: go st' (j + 1) rest
  let out := " | ".intercalate (go base 0 steps)
  out ++ "\t" ++ out

/-- engine `pos` (C17): program text read under a module name, evaluated; the position of the error -/
def runPos (base : State) (payload : String) : String :=
  let fs := payload.splitOn " "
  let get (p : String) : Option String := (fs.find? (·.startsWith p)).map (fun f => (f.drop p.length).toString)
  match (get "m=").bind Proto.hexDecode, (get "x").bind hexBytes with
  | some module, some bs =>
    -- h=1: the caller's cursor names no module; the `;; $MODULE name` first line of the text does (m= is that name)
    let cfgModule := if get "h=" == some "1" then none else some module
    match Read.readStr { module := cfgModule, hasEnv := true } bs with
    | .error e => "read-error " ++ errClass e
    | .ok ast =>
      match (eval evalFuel base 0 ast 1).1 with
      | .ok _ => "ok"
      | .oof => "OOF"
      | .err (.plain _) => "err nopos"
      | .err (.lisp _ none) => "err nopos"
      | .err (.lisp _ (some p)) =>
        let m := match p.module with | some m => Proto.hexEncode m | none => "-"
        s!"err pos={m},{p.beginRow},{p.row},{p.beginCol},{p.col}"
  | _, _ => "bad-op"

/-- engine `routes` (C19): the program text (one `do` expression with the generated layout) read under
    a module name by the model reader and evaluated by the model evaluator -/
def runRoutes (base : State) (payload : String) : String :=
  match payload.splitOn " " with
  | namesS :: endingH :: betweenH :: formsH =>
    let dec (h : String) : String := (Proto.hexDecode h).getD ""
    let between := dec betweenH
    let text := "(do" ++ between ++ between.intercalate (formsH.map dec) ++ between ++ "nil)" ++ dec endingH
    let names := namesS.splitOn ","
    match Read.readStr { module := some "prog.lisp", hasEnv := true } text.toUTF8.toList with
    | .error e => "err " ++ errClass e ++ " trace=[] defs=[" ++ joinSemi (names.map (· ++ "=?")) ++ "]"
    | .ok ast =>
      let (r, st) := eval evalFuel base 0 ast 1
      let deref := fun id => st.atoms[id]?
      let res := match r with
        | .ok _ => "ok"
        | .err (.lisp _ _) => "err other"
        | .err (.plain _) => "err plain:other"
        | .oof => "OOF"
      let defs := names.map fun n => match st.get 0 n with
        | some v => n ++ "=" ++ Proto.render deref v
        | none => n ++ "=?"
      s!"{res} trace=[{joinSemi (st.trace.reverse.map (Proto.render deref))}] defs=[{joinSemi defs}]"
  | _ => "bad-op"

def handleS (base : State) (line : String) : State × String :=
  match line.splitOn "\t" with
  | ["init", payload] => runInit payload
  | ["eval", payload] => (base, runEval base payload)
  | ["nomodel", _] => (base, "-")   -- engines whose oracle is harness-side only (wall-clock behaviour)
  | ["hist", payload] => (base, runHist base payload)
  | ["pos", payload] => (base, runPos base payload)
  | ["routes", payload] => (base, runRoutes base payload)
  | ["replloop", payload] => (base, ReplLoop.handleReplLoop base payload)  -- C16/C19 support, see LispModel/ReplLoopDriver.lean
  | _ => (base, handle line)

partial def loop (h : IO.FS.Stream) (out : IO.FS.Stream) (base : State) : IO Unit := do
  let line ← h.getLine
  if line.isEmpty then return ()
  let l := if line.endsWith "\n" then (line.dropEnd 1).toString else line
  let (base', ans) := handleS base l
  out.putStrLn ans
  out.flush
  loop h out base'

def main : IO Unit := do
  let out ← IO.getStdout
  loop (← IO.getStdin) out initState
  out.flush

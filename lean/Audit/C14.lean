import LispModel.Audit
import LispModel.Props.C14
#audit_ns LispModel.Props.C14

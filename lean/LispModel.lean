import LispModel.Val
import LispModel.Proto
import LispModel.Equal
import LispModel.Spec.StructEq

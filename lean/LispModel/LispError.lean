/-
  The error object algebra of `lisperror/lisperror.go` (every function except `MarshalHashMap`), Go's
  `errors.Is` / `errors.Unwrap` walk, `fmt.Errorf("%s: %w", …)` and the `throw` builtin of `lib/core/core.go`.

  Mirrors the Go code as it is written.  Pointers carry an address (identity) next to their pointee because
  Go's `==` on `*Position`, `*errors.errorString` and `*fmt.wrapError` is pointer identity.  `==` between two
  interface values of the same uncomparable dynamic type is a run-time panic: outcome `panic`.
  Core Lean only (linked into the driver executable).
-/
import LispModel.Val
namespace LispModel.LispError
open LispModel

/-- result of a Go operation that may panic -/
inductive Outcome (α : Type) where
  | ok (a : α)
  | panic
deriving DecidableEq, Repr

namespace Outcome
def bind {α β} (o : Outcome α) (f : α → Outcome β) : Outcome β :=
  match o with
  | .ok a => f a
  | .panic => .panic
instance : Monad Outcome where
  pure := .ok
  bind := bind
end Outcome

/-- a non-nil `*types.Position`: address (identity under `==`) and pointee -/
structure PosPtr where
  addr : Nat
  pos : Pos
deriving DecidableEq, Repr

/-- a `*types.Position` field or result; `none` = nil pointer -/
abbrev Cursor := Option PosPtr

/-- `p == q` on two `*Position` -/
def ptrEq : Cursor → Cursor → Bool
  | none, none => true
  | some p, some q => p.addr == q.addr
  | _, _ => false

/-! ### lisp values that can be thrown (the dynamic types of a `MalType` payload) -/

/-- A lisp value as a Go interface value.  Keywords are `str` (Go `string` starting with U+029E), exactly as in
Go.  `Symbol`, `List`, `Vector`, `HashMap`, `Set` carry their `Cursor` field; `Meta` is nil throughout. -/
inductive V where
  | nil
  | bool (b : Bool)
  | int (i : Int)
  | str (s : String)
  | sym (s : String) (cur : Cursor)
  | list (xs : List V) (cur : Cursor)
  | vec (xs : List V) (cur : Cursor)
  | map (kvs : List (String × V)) (cur : Cursor)
  | set (ks : List String) (cur : Cursor)
deriving Repr

/-- the dynamic Go type of a lisp value -/
inductive Kind where
  | nil | bool | int | str | sym | list | vec | map | set
deriving DecidableEq, Repr

def V.kind : V → Kind
  | .nil => .nil | .bool _ => .bool | .int _ => .int | .str _ => .str | .sym _ _ => .sym
  | .list _ _ => .list | .vec _ _ => .vec | .map _ _ => .map | .set _ _ => .set

/-- `reflect.Type.Comparable()`: `List`/`Vector` hold a slice, `HashMap`/`Set` a map -/
def Kind.comparable : Kind → Bool
  | .list | .vec | .map | .set => false
  | _ => true

/-- `a == b` on two `MalType` interface values holding lisp values: different dynamic types are unequal, the
same uncomparable dynamic type panics (`runtime error: comparing uncomparable type types.List`), a `Symbol`
is equal when name and cursor POINTER are. -/
def goEqV : V → V → Outcome Bool
  | .nil, .nil => .ok true
  | .bool a, .bool b => .ok (a == b)
  | .int a, .int b => .ok (a == b)
  | .str a, .str b => .ok (a == b)
  | .sym a c, .sym b d => .ok (a == b && ptrEq c d)
  | .list _ _, .list _ _ => .panic
  | .vec _ _, .vec _ _ => .panic
  | .map _ _, .map _ _ => .panic
  | .set _ _, .set _ _ => .panic
  | _, _ => .ok false

/-! ### texts: `Position.String()` and the `fmt` verbs `%v` / `%s` on lisp values -/

/-- `(cursor *Position) String()` for a non-nil cursor (types/positiontype.go): `StringModule() + "§" +
StringPosition()`, the latter empty when `Row < 0` -/
def posString (p : Pos) : String :=
  p.module.getD "" ++ "§" ++
    (if p.row < 0 then "" else
      toString p.beginRow ++ "…" ++ toString p.row ++ "," ++ toString p.beginCol ++ "…" ++ toString p.col)

/-- `String()` on a possibly nil `*Position` (the method guards `cursor == nil`); this is also what `fmt`
prints for a `Cursor` field, through the `Stringer` interface, under both verbs -/
def cursorString : Cursor → String
  | none => ""
  | some p => posString p.pos

/-- insertion into a key-sorted association list (`fmt` prints Go maps sorted by key, internal/fmtsort) -/
def insertSorted {α} (k : String) (x : α) : List (String × α) → List (String × α)
  | [] => [(k, x)]
  | (k', y) :: r => if k < k' then (k, x) :: (k', y) :: r else (k', y) :: insertSorted k x r

def sortByKey {α} (l : List (String × α)) : List (String × α) :=
  l.foldr (fun kv acc => insertSorted kv.1 kv.2 acc) []

def joinSp (l : List String) : String := " ".intercalate l

mutual
/-- `fmt` on a lisp value; `s = true` is the verb `%s`, `s = false` the verb `%v` (`fmt.Sprint`).  `top` tells
whether this is the operand itself (a nil operand under `%s` is a bad verb) or a nested interface value
(nil prints `<nil>` under every verb). -/
def fmtVal (s : Bool) (top : Bool) : V → String
  | .nil => if s && top then "%!s(<nil>)" else "<nil>"
  | .bool b => if s then "%!s(bool=" ++ toString b ++ ")" else toString b
  | .int i => if s then "%!s(int=" ++ toString i ++ ")" else toString i
  | .str x => x
  | .sym x c => "{" ++ x ++ " " ++ cursorString c ++ "}"
  | .list xs c => "{[" ++ joinSp (fmtVals s xs) ++ "] <nil> " ++ cursorString c ++ "}"
  | .vec xs c => "{[" ++ joinSp (fmtVals s xs) ++ "] <nil> " ++ cursorString c ++ "}"
  | .map kvs c => "{map[" ++ joinSp ((sortByKey (fmtKVs s kvs)).map fun kv => kv.1 ++ ":" ++ kv.2)
      ++ "] <nil> " ++ cursorString c ++ "}"
  | .set ks c => "{map[" ++ joinSp ((sortByKey (ks.map fun k => (k, "{}"))).map fun kv => kv.1 ++ ":" ++ kv.2)
      ++ "] <nil> " ++ cursorString c ++ "}"
def fmtVals (s : Bool) : List V → List String
  | [] => []
  | x :: r => fmtVal s false x :: fmtVals s r
def fmtKVs (s : Bool) : List (String × V) → List (String × String)
  | [] => []
  | (k, x) :: r => (k, fmtVal s false x) :: fmtKVs s r
end

/-! ### Go values that can sit in an error slot -/

/-- What a `MalType` / `error` slot can hold in this slice of the program.
* `val v` — a lisp value (`val .nil` is the nil interface);
* `sentinel id msg` — a `*errors.errorString` made by a package-level `errors.New` (address `id`);
* `strErr id msg` — a `*errors.errorString` made by `fmt.Errorf` without `%w` (its own address space:
  a fresh allocation is never a package-level sentinel);
* `wrap id pfx inner` — the `*fmt.wrapError` made by `fmt.Errorf("%s: %w", pfx, inner)` (address `id`);
* `lisp err cursor` — a `lisperror.LispError` struct VALUE. -/
inductive E where
  | val (v : V)
  | sentinel (id : Nat) (msg : String)
  | strErr (id : Nat) (msg : String)
  | wrap (id : Nat) (pfx : String) (inner : E)
  | lisp (err : E) (cursor : Cursor)
deriving Repr

/-- `x == nil` on an interface value -/
def isNil : E → Bool
  | .val .nil => true
  | _ => false

/-- `_, ok := e.err.(error)`: the type test of `Unwrap` and of the `switch` in `Error` -/
def isErrorValue : E → Bool
  | .val _ => false
  | _ => true

/-- `a == b` on two interface values.  Different dynamic types: false.  Pointers: identity.  Two `LispError`
structs: field by field in source order (`err` first — it is the one that can panic — then `cursor`). -/
def goEq : E → E → Outcome Bool
  | .val a, .val b => goEqV a b
  | .sentinel i _, .sentinel j _ => .ok (i == j)
  | .strErr i _, .strErr j _ => .ok (i == j)
  | .wrap i _ _, .wrap j _ _ => .ok (i == j)
  | .lisp e1 c1, .lisp e2 c2 =>
    match goEq e1 e2 with
    | .ok b => .ok (b && ptrEq c1 c2)
    | .panic => .panic
  | _, _ => .ok false

/-- `(e LispError) Unwrap() error`, on the `err` field -/
def unwrap (err : E) : Option E :=
  if isErrorValue err then some err else none

/-- `(e LispError) ErrorValue()`; on anything that is not a `LispError` the value itself (so that
`errorValue` is "the thrown object" of any error slot content) -/
def errorValue : E → E
  | .lisp err _ => err
  | e => e

/-- `(e LispError) Position()` -/
def position : E → Cursor
  | .lisp _ c => c
  | _ => none

/-- the last part of `LispError.Is`: `err2, ok := target.(LispError)`, then `e.ErrorValue() == err2.ErrorValue()` -/
def isTail (err target : E) : Outcome Bool :=
  match target with
  | .lisp terr _ => goEq err terr
  | _ => .ok false

/-- `(e LispError) Is(target error) bool`, on the `err` field of the receiver.
`target == nil`: `e.ErrorValue() == nil` (a comparison with nil never panics).  Otherwise the payload's own
`Is` method when it has one (in this universe only a `LispError` payload has), then — for a `LispError` target —
`e.ErrorValue() == err2.ErrorValue()`, the comparison that panics on two payloads of one uncomparable type. -/
def lispIs : (err : E) → (target : E) → Outcome Bool
  | .lisp err' c, target =>
    if isNil target then .ok false else
    match lispIs err' target with
    | .panic => .panic
    | .ok true => .ok true
    | .ok false => isTail (.lisp err' c) target
  | err, target =>
    if isNil target then .ok (isNil err) else isTail err target

/-- The text `fmt` produces for an interface value: `s = true` under `%s`, `s = false` under `%v` /
`fmt.Sprint`.  An `error` prints its `Error()` under both verbs:
* `*errors.errorString`: its message;
* `*fmt.wrapError` of `fmt.Errorf("%s: %w", pfx, inner)`: `pfx + ": " + inner.Error()`;
* `LispError.Error()`: `Sprintf("%s: %s", cursor, err)` with a cursor, `Sprint(err)` without (both arms of the
  type switch in `Error` are the same code). -/
def textOf (s : Bool) : E → String
  | .val v => fmtVal s true v
  | .sentinel _ msg => msg
  | .strErr _ msg => msg
  | .wrap _ pfx inner => pfx ++ ": " ++ textOf false inner
  | .lisp err c =>
    match c with
    | some p => posString p.pos ++ ": " ++ textOf true err
    | none => textOf false err

/-- `(e LispError) Error()` (and `Error()` of the other error kinds) -/
def errorString (e : E) : String := textOf false e

/-- `NewGoError(fFullName, err)`: `id` is the address of the new `*fmt.wrapError`, `id + 1` the address of the
`*errors.errorString` that `fmt.Errorf("%v", err)` allocates in the non-error arm -/
def newGoError (id : Nat) (name : String) (err : E) : E :=
  if isErrorValue err then .lisp (.wrap id name err) none
  else .lisp (.wrap id name (.strErr (id + 1) (textOf false err))) none

/-! ### positions of carriers -/

/-- the `ast` argument of `NewLispError` / `GetPosition`, by the arm of the type switch it takes -/
inductive Carrier where
  | list (c : Cursor)
  | symbol (c : Cursor)
  | vector (c : Cursor)
  | hashMap (c : Cursor)
  | set (c : Cursor)
  /-- a `types.Token` value: `GetPosition()` returns the address `res` of the copy's `Cursor` field -/
  | token (res : PosPtr)
  /-- a `*types.Token`: the method set of the pointer type contains the value method, so the
  `interface{ GetPosition() *Position }` arm matches — and calling it through a nil pointer panics -/
  | tokenPtr (res : Option PosPtr)
  /-- a `*types.Position`, possibly the nil pointer -/
  | posPtr (p : Cursor)
  /-- the nil interface (`throw`, `assert`) -/
  | nil
  /-- any other dynamic type (int, string, `LispError`, …) -/
  | other
deriving DecidableEq, Repr

/-- `GetPosition(ast)` -/
def getPosition : Carrier → Outcome Cursor
  | .list c | .symbol c | .vector c | .hashMap c | .set c => .ok c
  | .token res => .ok (some res)
  | .tokenPtr (some res) => .ok (some res)
  | .tokenPtr none => .panic
  | .posPtr p => .ok p
  | .nil => .ok none
  | .other => .ok none

/-- `NewLispError(err, ast)`: a `LispError` keeps its payload and — when it has one — its cursor (then
`GetPosition` is not even called); anything else becomes the payload of a new `LispError` -/
def newLispError (err : E) (ast : Carrier) : Outcome E :=
  match err with
  | .lisp e (some p) => .ok (.lisp e (some p))
  | .lisp e none =>
    match getPosition ast with
    | .ok c => .ok (.lisp e c)
    | .panic => .panic
  | e =>
    match getPosition ast with
    | .ok c => .ok (.lisp e c)
    | .panic => .panic

/-- `(e LispError) LispPrint(Pr_str)`: `printed` is `Pr_str(e.err, true)` -/
def lispPrint (printed : String) : String := "«error " ++ printed ++ "»"

/-- `throw` of lib/core/core.go: an `error` argument is returned as it is, anything else is wrapped -/
def throw (a : E) : Outcome E :=
  if isErrorValue a then .ok a else newLispError a .nil

/-! ### `errors.Is` -/

/-- the loop of `errors.is` (every target type of this universe is comparable): `err == target`, then the
link's own `Is` method (`LispError` only), then `Unwrap()` (`LispError`, `*fmt.wrapError`); other links end
the walk.  Structural recursion on the chain. -/
def isLoop : (err : E) → (target : E) → Outcome Bool
  | .lisp e c, target =>
    match goEq (.lisp e c) target with
    | .panic => .panic
    | .ok true => .ok true
    | .ok false =>
      match lispIs e target with
      | .panic => .panic
      | .ok true => .ok true
      | .ok false => if isErrorValue e then isLoop e target else .ok false
  | .wrap id pfx inner, target =>
    match goEq (.wrap id pfx inner) target with
    | .panic => .panic
    | .ok true => .ok true
    | .ok false => if isErrorValue inner then isLoop inner target else .ok false
  | err, target =>
    match goEq err target with
    | .panic => .panic
    | .ok b => .ok b

/-- `errors.Is(err, target)` -/
def errorsIs (err target : E) : Outcome Bool :=
  if isNil err || isNil target then .ok (isNil err && isNil target) else isLoop err target

/-- `errors.Unwrap(err)`: the `Unwrap() error` method when there is one, else nil (`none`) -/
def errorsUnwrap : E → Option E
  | .lisp e _ => unwrap e
  | .wrap _ _ inner => if isErrorValue inner then some inner else none
  | _ => none

end LispModel.LispError

/-
  The reader: `reader.Read_str` / `read_form` / `read_list` / `read_atom` / placeholders /
  Go-constructor brackets, over the token stream of Scan.lean — as the Go code is written,
  including its partial operations (which surface as `RErr.panic site`).
  Core Lean only.
-/
import LispModel.Val
import LispModel.Scan
namespace LispModel.Read
open LispModel LispModel.Scan

/-- error classes of the reader (messages are compared only where a property is about them) -/
inductive RErr where
  | eof (closer : String)        -- "expected '<closer>', got EOF"
  | unexpected (closer : String) -- "unexpected '<closer>'"
  | trailing                     -- "not all tokens where parsed"
  | empty                        -- "<empty line>"
  | underflow                    -- "read_form underflow" (reader macro at the end of the input)
  | badtoken                     -- "invalid token …" (scanner error)
  | badint                       -- "integer parse error"
  | oddmap | badkey | badsetitem
  | rawEof                       -- "expected '¬', got EOF"
  | floaterr                     -- "float parse error"
  | extern (cls : String)        -- Go-constructor bracket: lookup / call failures
  | panic (site : String)        -- a Go run-time panic that escapes the reader
deriving Repr, DecidableEq, Inhabited

/-- the message of the Go error (only the messages the REPL classifies by are modelled literally) -/
def errMessage : RErr → String
  | .eof c => "expected '" ++ c ++ "', got EOF"
  | .unexpected c => "unexpected '" ++ c ++ "'"
  | .trailing => "not all tokens where parsed"
  | .empty => "<empty line>"
  | .underflow => "read_form underflow"
  | .badtoken => "invalid token"
  | .badint => "integer parse error"
  | .oddmap => "odd number of arguments to NewHashMap"
  | .badkey => "expected hash-map key string"
  | .badsetitem => "set items must be strings or keywords"
  | .rawEof => "expected '¬', got EOF"
  | .floaterr => "float parse error"
  | .extern c => "extern: " ++ c
  | .panic s => "panic: " ++ s

/-- `repl.multiLine`: the REPL keeps reading lines exactly on these five messages -/
def multiLine (e : RErr) : Bool :=
  let m := errMessage e
  m == "expected ')', got EOF" || m == "expected ']', got EOF" || m == "expected '}', got EOF" ||
  m == "expected '»', got EOF" || m == "expected '¬', got EOF"

structure Cfg where
  module : Option String := none
  /-- the placeholder table (`*HashMap`); `none` = nil pointer -/
  phs : Option (List (String × Val)) := none
  /-- an environment was passed (needed by `«…»`) -/
  hasEnv : Bool := false
deriving Inhabited

def strOf (cps : List Nat) : String := String.ofList (cps.map Char.ofNat)

def tokStr (t : Token) : String := strOf t.text

/-- token cursor: `Position{Module, BeginRow: line, BeginCol: column, Row: line, Col: column+offset}` -/
def tokPos (cfg : Cfg) (t : Token) : Pos :=
  { module := cfg.module, beginRow := t.line, beginCol := t.column, row := t.line, col := t.column + t.offset }

/-- `cursor.Close(here)` -/
def closePos (c here : Pos) : Pos := { c with row := here.row, col := here.col }

/-- `strings.Replace(s, pat, rep, -1)` for a non-empty pattern, left to right, non-overlapping;
    `skip` = characters of the current match still to be dropped (keeps the recursion structural) -/
def replaceAux (pat rep : List Char) : Nat → List Char → List Char
  | _, [] => []
  | skip + 1, _ :: cs => replaceAux pat rep skip cs
  | 0, c :: cs =>
    if pat.isPrefixOf (c :: cs) ∧ pat ≠ [] then rep ++ replaceAux pat rep (pat.length - 1) cs
    else c :: replaceAux pat rep 0 cs

def replaceAll (pat rep : List Char) (s : List Char) : List Char := replaceAux pat rep 0 s

/-- `unescape` of reader.go (since the repair of D10): one left-to-right pass undoing `\\\\`, `\\"`
    and `\\n`; every other backslash sequence is kept.  (The four chained `strings.Replace` of the
    unrepaired code are kept in Proofs/BaselineDefects.lean.) -/
def unescape : List Char → List Char
  | '\\' :: '\\' :: r => '\\' :: unescape r
  | '\\' :: '"' :: r => '"' :: unescape r
  | '\\' :: 'n' :: r => '\n' :: unescape r
  | c :: r => c :: unescape r
  | [] => []

/-- `strconv.ParseInt(tok, 0, 0)` on a scanner Int token: value, or `none` on range error -/
def digitOf (c : Char) : Nat :=
  if '0' ≤ c ∧ c ≤ '9' then c.toNat - 48
  else if 'a' ≤ c ∧ c ≤ 'f' then c.toNat - 87
  else if 'A' ≤ c ∧ c ≤ 'F' then c.toNat - 55
  else 0

def parseInt (s : List Char) : Option Int :=
  let (neg, s) := match s with
    | '-' :: r => (true, r)
    | '+' :: r => (false, r)
    | _ => (false, s)
  let (base, s) := match s with
    | '0' :: c :: r =>
      if c = 'x' ∨ c = 'X' then (16, r)
      else if c = 'b' ∨ c = 'B' then (2, r)
      else if c = 'o' ∨ c = 'O' then (8, r)
      else (8, c :: r)
    | _ => (10, s)
  let ds := s.filter (· ≠ '_')
  let n := ds.foldl (fun acc c => acc * base + digitOf c) 0
  if neg then (if n ≤ 9223372036854775808 then some (-(Int.ofNat n)) else none)
  else (if n ≤ 9223372036854775807 then some (Int.ofNat n) else none)

/-- Does `strconv.ParseFloat(tok, 32)` report a range error on a scanner Float token?  The result is
    correctly rounded, so it overflows iff the exact value is ≥ 2^128 − 2^103 (half-way between
    MaxFloat32 and 2^128 rounds to even, i.e. up). The float *value* itself is not modelled. -/
def floatOverflows (s : List Char) : Bool :=
  let s := match s with
    | '-' :: r => r
    | '+' :: r => r
    | _ => s
  let (hex, s) := match s with
    | '0' :: c :: r => if c = 'x' ∨ c = 'X' then (true, r) else (false, '0' :: c :: r)
    | _ => (false, s)
  let isExpCh (c : Char) : Bool := if hex then c = 'p' || c = 'P' else c = 'e' || c = 'E'
  let mantPart := s.takeWhile (fun c => !isExpCh c)
  let expPart := (s.dropWhile (fun c => !isExpCh c)).drop 1
  let intDigits := (mantPart.takeWhile (· ≠ '.')).filter (· ≠ '_')
  let fracDigits := ((mantPart.dropWhile (· ≠ '.')).drop 1).filter (· ≠ '_')
  let base := if hex then 16 else 10
  let mant := (intDigits ++ fracDigits).foldl (fun acc c => acc * base + digitOf c) 0
  let (eneg, eds) := match expPart with
    | '-' :: r => (true, r)
    | '+' :: r => (false, r)
    | r => (false, r)
  let e := (eds.filter (· ≠ '_')).foldl (fun acc c => acc * 10 + digitOf c) 0
  -- value = mant * B^(exp) / base^(fracDigits) with B = 2 (hex) or 10
  let fracScale : Int := (if hex then 4 else 1) * (fracDigits.length : Int)
  let exp : Int := (if eneg then -(e : Int) else (e : Int)) - fracScale
  let B := if hex then 2 else 10
  let T : Nat := 2 ^ 128 - 2 ^ 103
  if mant = 0 then false
  else if exp ≥ 200 then true
  else if exp ≥ 0 then mant * B ^ exp.toNat ≥ T
  else if exp ≤ -20000 then false
  else mant ≥ T * B ^ (-exp).toNat

/-- `read_atom` -/
def readAtom (cfg : Cfg) (t : Token) : Except RErr Val :=
  let txt := t.text.map Char.ofNat
  match t.kind with
  | .int =>
    match parseInt txt with
    | some i => .ok (.int i)
    | none => .error .badint
  | .string =>
    -- `(*token)[1 : len-1]`; a String token always carries both quotes (scanner invariant)
    if txt.length < 2 then .error (.panic "reader.read_atom")
    else .ok (.str (String.ofList (unescape ((txt.drop 1).dropLast))))
  | .rawString =>
    if txt = ['¬'] then .error .rawEof
    else if txt.length < 2 then .error (.panic "reader.read_atom")
    else .ok (.str (String.ofList (replaceAll ['¬', '¬'] ['¬'] ((txt.drop 1).dropLast))))
  | .keyword => .ok (.str (String.ofList (kwMarker :: txt.drop 1)))
  | .float => if floatOverflows txt then .error .floaterr else .ok (.opaque "float32")
  | .ident =>
    let s := String.ofList txt
    if s = "nil" then .ok .nil
    else if s = "true" then .ok (.bool true)
    else if s = "false" then .ok (.bool false)
    else .ok (.sym s (some (tokPos cfg t)))
  | .char _ => .ok (.sym (String.ofList txt) (some (tokPos cfg t)))

/-- the loop of `NewHashMap(List)` -/
def newHashMapLoop : List Val → List (String × Val) → Except RErr (List (String × Val))
  | [], m => .ok m
  | .str k :: v :: r, m => newHashMapLoop r (ainsert k v m)
  | _ :: _ :: _, _ => .error .badkey
  | [_], _ => .error .oddmap

/-- `NewHashMap(List)`: the length test comes first -/
def newHashMap (xs : List Val) (m : List (String × Val)) : Except RErr (List (String × Val)) :=
  if xs.length % 2 = 1 then .error .oddmap else newHashMapLoop xs m

/-- `NewSet(List)` -/
def newSet : List Val → List String → Except RErr (List String)
  | [], s => .ok s
  | .str k :: r, s => newSet r (sinsert k s)
  | _ :: _, _ => .error .badsetitem

def readerMacros : List (String × String) :=
  [("'", "quote"), ("`", "quasiquote"), ("~", "unquote"), ("~@", "splice-unquote"), ("@", "deref")]

/-- the constructors the harness environment offers to `«name …»` (core.Load registers
    `new-error` and `new-go-error`); everything else is "symbol not found" -/
def externCall (name : String) (args : List Val) : Except RErr Val :=
  if name = "error" then
    -- `new_error(err MalType, cursor ...*Position)`: a second argument would have to be a *Position
    (if args.length = 1 then .ok (.opaque "lisperror.LispError") else .error (.extern "call"))
  else if name = "go-error" then
    (match args with
     | [.str s] => if Val.isKwStr s then .ok (.goerr s) else .ok (.goerr s)
     | _ => .error (.extern "call"))
  else .error (.extern "notfound")

mutual
/-- `read_form` (fuel: every call consumes at least one token) -/
def readForm : Nat → Cfg → List Token → Except RErr (Val × List Token)
  | 0, _, _ => .error (.panic "fuel")
  | _ + 1, _, [] =>
    -- `NewLispError(errors.New("read_form underflow"), &tokenStruct)`: the `**Token` carrier has no
    -- position (`GetPosition` returns nil for unknown carriers since the repair of D2)
    .error .underflow
  | fuel + 1, cfg, t :: rest =>
    let s := tokStr t
    let pos := tokPos cfg t
    match readerMacros.lookup s with
    | some name =>
      match readForm fuel cfg rest with
      | .error e => .error e
      | .ok (form, rest') => .ok (.list [.sym name (some pos), form] (some (closePos pos pos)), rest')
    | none =>
    if s = "^" then
      match readForm fuel cfg rest with
      | .error e => .error e
      | .ok (metaV, rest') =>
        match readForm fuel cfg rest' with
        | .error e => .error e
        | .ok (form, rest'') =>
          .ok (.list [.sym "with-meta" (some pos), form, metaV] (some (closePos pos pos)), rest'')
    else if s = ")" then .error (.unexpected ")")
    else if s = "]" then .error (.unexpected "]")
    else if s = "}" then .error (.unexpected "}")
    else if s = "(" then
      match readList fuel cfg ")" rest [] with
      | .error e => .error e
      | .ok (xs, close, rest') => .ok (.list xs (some (closePos pos (tokPos cfg close))), rest')
    else if s = "[" then
      match readList fuel cfg "]" rest [] with
      | .error e => .error e
      | .ok (xs, close, rest') => .ok (.vec xs (some (closePos pos (tokPos cfg close))), rest')
    else if s = "{" then
      match readList fuel cfg "}" rest [] with
      | .error e => .error e
      | .ok (xs, _, rest') =>
        match newHashMap xs [] with
        | .error e => .error e
        | .ok m => .ok (.map m, rest')
    else if s = "#{" then
      match readList fuel cfg "}" rest [] with
      | .error e => .error e
      | .ok (xs, _, rest') =>
        match newSet xs [] with
        | .error e => .error e
        | .ok m => .ok (.set m, rest')
    else if s = "«" then
      match readList fuel cfg "»" rest [] with
      | .error e => .error e
      | .ok (xs, _, rest') =>
        match xs with
        | [] => .error (.extern "typename")            -- "«» requires a type name" (repair of D4)
        | .sym name _ :: args =>
          if !cfg.hasEnv then .error (.extern "noenv")  -- "«» requires an environment"
          else match externCall name args with
            | .error e => .error e
            | .ok v => .ok (v, rest')
        | _ :: _ => .error (.extern "typename")
    else if t.text.head? = some 36 then
      -- `read_placeholder`: `placeholderValues.Val[token]`; without a table the token is an
      -- ordinary symbol (repair of D4)
      match cfg.phs with
      | none => .ok (.sym s (some pos), rest)
      | some m => .ok ((alookup s m).getD .nil, rest)
    else
      match readAtom cfg t with
      | .error e => .error e
      | .ok v => .ok (v, rest)
/-- the loop of `read_list` after the opening token: elements so far (reversed), returns the
    elements, the closing token and the unread tokens -/
def readList : Nat → Cfg → String → List Token → List Val → Except RErr (List Val × Token × List Token)
  | 0, _, _, _, _ => .error (.panic "fuel")
  | _ + 1, _, closer, [], _ => .error (.eof closer)
  | fuel + 1, cfg, closer, t :: rest, acc =>
    if tokStr t = closer then .ok (acc.reverse, t, rest)
    else
      match readForm fuel cfg (t :: rest) with
      | .error e => .error e
      | .ok (v, rest') => readList fuel cfg closer rest' (v :: acc)
end

/-- `moduleNamePrefixRE = ^;; [$]MODULE (.+)` on the source bytes -/
def modulePrefix (bytes : List UInt8) : Option String :=
  let pre := ";; $MODULE ".toUTF8.toList
  if pre.isPrefixOf bytes then
    let line := (bytes.drop pre.length).takeWhile (· ≠ 10)
    if line.isEmpty then none else some (strOf ((decodeAll line).map (·.ch)))
  else none

/-- `reader.Read_str(str, cursor, placeholderValues, ns)` -/
def readStr (cfg : Cfg) (bytes : List UInt8) : Except RErr Val :=
  let cfg := if cfg.module.isNone then { cfg with module := modulePrefix bytes } else cfg
  match tokenize bytes with
  | .error _ _ => .error .badtoken
  | .ok [] => .error .empty
  | .ok toks =>
    match readForm (2 * toks.length + 2) cfg toks with
    | .error e => .error e
    | .ok (v, []) => .ok v
    | .ok (_, _ :: _) => .error .trailing

end LispModel.Read

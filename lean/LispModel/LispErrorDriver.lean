/-
  Driver of the engine `lerr` (harness/eng_lerr.go): parses the register program of one request line, runs the
  model of `LispModel/LispError.lean` and prints the canonical observation line.  Core Lean only.
-/
import LispModel.LispError
import LispModel.Proto
namespace LispModel.LispErrorDriver
open LispModel LispModel.LispError

/-- the fixed position pool of the engine (`lerrPool`); the address of entry `i` is `i` -/
def pool : List Pos := [
  { beginRow := 1, beginCol := 1, row := 1, col := 1 },
  { beginRow := 1, beginCol := 1, row := 1, col := 1 },
  { module := some "m", beginRow := 2, beginCol := 3, row := 4, col := 5 },
  { module := some "lib/x.lisp", beginRow := 7, beginCol := 1, row := 7, col := 20 },
  { beginRow := 3, beginCol := 1, row := -1, col := 0 },
  { module := some "m", beginRow := 2, beginCol := 3, row := 4, col := 5 }]

/-- decimal token exactly as `strconv.Itoa` prints it (no sign `+`, no leading zeros, no `-0`), int64 range -/
def parseInt (s : String) : Option Int :=
  match s.toInt? with
  | some i => if toString i == s && -9223372036854775808 ≤ i && i ≤ 9223372036854775807 then some i else none
  | none => none

def parseNat (s : String) : Option Nat :=
  match parseInt s with
  | some (.ofNat n) => some n
  | _ => none

/-- `-` or `p<i>`; outer `none` = malformed -/
def parseCur (tok : String) : Option Cursor :=
  if tok == "-" then some none else
  match tok.toList with
  | 'p' :: r =>
    match parseNat (String.ofList r) with
    | some i => (pool[i]?).map fun p => some { addr := i, pos := p }
    | none => none
  | _ => none

def curName : Cursor → String
  | none => "-"
  | some p => if p.addr < 1000 then "p" ++ toString p.addr else "t"

/-- `m[k] = v` on an association list: the last write wins -/
def putKey {α} (k : String) (v : α) (l : List (String × α)) : List (String × α) :=
  (l.filter fun kv => kv.1 != k) ++ [(k, v)]

/-- `S<hex>` items of a set / keys of a map -/
def asKey : V → Option String
  | .str s => some s
  | _ => none

def buildMap : List V → List (String × V) → Option (List (String × V))
  | [], acc => some acc
  | k :: v :: r, acc => (asKey k).bind fun ks => buildMap r (putKey ks v acc)
  | _, _ => none

def buildSet : List V → List String → Option (List String)
  | [], acc => some acc
  | k :: r, acc => (asKey k).bind fun ks => buildSet r ((acc.filter (· != ks)) ++ [ks])

def splitAt1 (t : String) : Option (Char × String) :=
  match t.toList with
  | c :: r => some (c, String.ofList r)
  | [] => none

mutual
/-- one value of the payload syntax (fuel = number of tokens) -/
def parseVal : Nat → List String → Option (V × List String)
  | 0, _ => none
  | _, [] => none
  | fuel + 1, t :: rest =>
    if t == "N" then some (.nil, rest)
    else if t == "T" then some (.bool true, rest)
    else if t == "F" then some (.bool false, rest)
    else if t == "(" then
      match rest with
      | hd :: rest' =>
        match hd.toList with
        | tag :: '@' :: c =>
          if c.isEmpty then none else
          match parseCur (String.ofList c) with
          | none => none
          | some cur =>
            match parseItems fuel rest' [] with
            | none => none
            | some (items, rest'') =>
              if tag == 'L' then some (.list items cur, rest'')
              else if tag == 'V' then some (.vec items cur, rest'')
              else if tag == 'M' then (buildMap items []).map fun kvs => (.map kvs cur, rest'')
              else if tag == 'H' then (buildSet items []).map fun ks => (.set ks cur, rest'')
              else none
        | _ => none
      | [] => none
    else
      match splitAt1 t with
      | some ('I', d) => (parseInt d).map fun i => (.int i, rest)
      | some ('S', h) => (Proto.hexDecode h).map fun s => (.str s, rest)
      | some ('Y', b) =>
        match b.splitOn "@" with
        | h :: c :: more =>
          -- Go cuts at the FIRST '@'
          (Proto.hexDecode h).bind fun s => (parseCur ("@".intercalate (c :: more))).map fun cur => (.sym s cur, rest)
        | _ => none
      | _ => none
def parseItems : Nat → List String → List V → Option (List V × List String)
  | 0, _, _ => none
  | _, [], _ => none
  | fuel + 1, t :: rest, acc =>
    if t == ")" then some (acc.reverse, rest) else
    match parseVal fuel (t :: rest) with
    | some (v, rest') => parseItems fuel rest' (v :: acc)
    | none => none
end

/-- the carrier token; `i` = index of the operation (address of a `Token` copy's cursor = `1000 + i`) -/
def parseCarrier (i : Nat) (tok : String) : Option Carrier :=
  if tok == "nil" then some .nil
  else if tok == "int" || tok == "str" || tok == "lerr" then some .other
  else
    match tok.splitOn "@" with
    | kind :: c :: more =>
      match parseCur ("@".intercalate (c :: more)) with
      | none => none
      | some cur =>
        let copy : Option PosPtr := cur.map fun p => { addr := 1000 + i, pos := p.pos }
        if kind == "list" then some (.list cur)
        else if kind == "sym" then some (.symbol cur)
        else if kind == "vec" then some (.vector cur)
        else if kind == "map" then some (.hashMap cur)
        else if kind == "set" then some (.set cur)
        else if kind == "pos" then some (.posPtr cur)
        else if kind == "tok" then copy.map .token
        else if kind == "tokptr" then some (.tokenPtr copy)
        else none
    | _ => none

def sentinels : List E := [.sentinel 0 "sentinel zero", .sentinel 1 "sentinel one", .sentinel 2 "sentinel one"]

inductive Step where
  | ok (e : Outcome E)
  | badOp
  | badReg

/-- one operation; `i` = its index, `regs` = the registers so far -/
def step (i : Nat) (regs : Array E) (op : String) : Step :=
  let toks := (op.splitOn " ").filter (· != "")
  match toks with
  | [] => .badOp
  | name :: args =>
    if name == "VAL" then
      match parseVal (2 * args.length + 4) args with
      | some (v, []) => .ok (.ok (.val v))
      | _ => .badOp
    else if name == "SENT" then
      match args with
      | [k] => match (parseNat k).bind (sentinels[·]?) with
        | some s => .ok (.ok s)
        | none => .badOp
      | _ => .badOp
    else
      match args with
      | [] => .badOp
      | r :: more =>
        match parseNat r with
        | none => if (parseInt r).isSome then .badReg else .badOp
        | some n =>
          match regs[n]? with
          | none => .badReg
          | some a =>
            if name == "THROW" && more.isEmpty then .ok (throw a)
            else if name == "UNW" && more.isEmpty then
              .ok (.ok (if isErrorValue a then (errorsUnwrap a).getD (.val .nil) else .val .nil))
            else match more with
              | [x] =>
                if name == "REPOS" then
                  match parseCarrier i x with
                  | some c => .ok (newLispError a c)
                  | none => .badOp
                else if name == "GOERR" then
                  match (if x.startsWith "x" then Proto.hexDecode (x.drop 1).toString else none) with
                  | some nm => .ok (.ok (newGoError (2 * i) nm a))
                  | none => .badOp
                else .badOp
              | _ => .badOp

/-! ### observation -/

def renderSeq (f : V → String) (xs : List V) : String := String.join (xs.map fun x => " " ++ f x)

mutual
def renderV : V → String
  | .nil => "N"
  | .bool true => "T"
  | .bool false => "F"
  | .int i => "I" ++ toString i
  | .str s => "S" ++ Proto.hexEncode s
  | .sym s c => "Y" ++ Proto.hexEncode s ++ "@" ++ curName c
  | .list xs c => "( L@" ++ curName c ++ String.join (renderVs xs) ++ " )"
  | .vec xs c => "( V@" ++ curName c ++ String.join (renderVs xs) ++ " )"
  | .map kvs c => "( M@" ++ curName c ++
      String.join ((sortByKey (renderKVs kvs)).map fun kv => " S" ++ Proto.hexEncode kv.1 ++ " " ++ kv.2) ++ " )"
  | .set ks c => "( H@" ++ curName c ++
      String.join ((sortByKey (ks.map fun k => (k, ()))).map fun kv => " S" ++ Proto.hexEncode kv.1) ++ " )"
def renderVs : List V → List String
  | [] => []
  | x :: r => (" " ++ renderV x) :: renderVs r
def renderKVs : List (String × V) → List (String × String)
  | [] => []
  | (k, x) :: r => (k, renderV x) :: renderKVs r
end

def renderE : E → String
  | .val v => renderV v
  | .lisp _ _ => "( LE )"
  | _ => "( GE )"

def obsB : Outcome Bool → String
  | .ok true => "T"
  | .ok false => "F"
  | .panic => "P"

def posObs : Cursor → String
  | none => "-"
  | some p =>
    (match p.pos.module with | some m => Proto.hexEncode m | none => "-") ++ "," ++ toString p.pos.beginRow ++ "," ++
      toString p.pos.beginCol ++ "," ++ toString p.pos.row ++ "," ++ toString p.pos.col ++ "#" ++ curName (some p)

def uwObs (e : E) : String :=
  match errorsUnwrap e with
  | some u => Proto.hexEncode (errorString u)
  | none => "nil"

def isRow (regs : List E) (e : E) : String :=
  " is=" ++ String.join (regs.map fun w => if isErrorValue w || isNil w then obsB (errorsIs e w) else "-") ++ "|" ++
    String.join (sentinels.map fun s => obsB (errorsIs e s)) ++ obsB (errorsIs e (.val .nil))

def observeReg (regs : List E) (e : E) : String :=
  (match e with
   | .lisp err c =>
     "L ev=" ++ renderE err ++ " pos=" ++ posObs c ++ " err=" ++ Proto.hexEncode (errorString e) ++ " uw=" ++ uwObs e ++
       " lp=" ++ Proto.hexEncode (lispPrint ("<" ++ renderE err ++ ">T")) ++ " isnil=" ++ obsB (lispIs err (.val .nil))
   | .val v => "V " ++ renderV v
   | _ => "G err=" ++ Proto.hexEncode (errorString e) ++ " uw=" ++ uwObs e) ++
  (if isErrorValue e || isNil e then isRow regs e else "")

def runOps : Nat → List String → Array E → String → String
  | _, [], regs, status => " | ".intercalate (status :: regs.toList.map (observeReg regs.toList))
  | i, op :: rest, regs, status =>
    match step i regs op with
    | .badOp => "bad-op"
    | .badReg => "bad-reg"
    | .ok (.ok e) => runOps (i + 1) rest (regs.push e) (status ++ ".")
    | .ok .panic => runOps (i + 1) rest (regs.push (.val .nil)) (status ++ "P")

def handleLispError (payload : String) : String :=
  if payload.trimAscii.isEmpty then "bad-op" else runOps 0 (payload.splitOn " ; ") #[] ""

end LispModel.LispErrorDriver

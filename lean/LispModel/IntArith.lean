/-
  Go's 64-bit `int` arithmetic as the lisp builtins use it (supports C01, C13, C06).

  Mirrors
    * /repo/lib/core/core.go `Load`: `+ - * / < <= > >=` are `func(a, b int)` closures — two's-complement wrap of
      `+ - *`, `/` truncating toward zero, `x / 0` a run-time panic (the binder's `_recover` turns it into an error),
      `MinInt64 / -1 = MinInt64` (Go spec: no panic), exact comparisons; `rAnge` (`for i := from; i < to; i++`);
    * /repo/reader/reader.go `read_atom`, case `scanner.Int`: `strconv.ParseInt(tok, 0, 0)` (Go 1.23
      `strconv/atoi.go`: `ParseInt`, `ParseUint`, `underscoreOK`, `lower`), every error = "integer parse error";
    * /repo/printer/printer.go default case: `fmt.Sprintf("%v", obj)` of an `int` = `strconv.FormatInt(i, 10)`.

  The evaluator model (`LispModel/Core.lean`) computes on unbounded `Int`; `Proofs/IntArithLaws.lean` proves where
  that abstraction is exact and what happens outside.  Core Lean only; every definition total and executable.
-/
namespace LispModel.IntArith

/-! ### the representable range and the wrap -/

def minInt64 : Int := -9223372036854775808
def maxInt64 : Int := 9223372036854775807
def two63 : Int := 9223372036854775808
def two64 : Int := 18446744073709551616
def maxUint64 : Nat := 18446744073709551615

/-- the values of Go's `int` (64 bit) -/
def inRange (x : Int) : Prop := -9223372036854775808 ≤ x ∧ x ≤ 9223372036854775807

instance (x : Int) : Decidable (inRange x) := by unfold inRange; exact inferInstance

/-- the representative of `x` modulo 2^64 in [-2^63, 2^63): what a two's-complement register keeps -/
def wrap64 (x : Int) : Int :=
  (x + 9223372036854775808) % 18446744073709551616 - 9223372036854775808

/-! ### the operators (`func(a, b int)` closures of `core.Load`), on in-range operands -/

def goAdd (a b : Int) : Int := wrap64 (a + b)
def goSub (a b : Int) : Int := wrap64 (a - b)
def goMul (a b : Int) : Int := wrap64 (a * b)
def goNeg (a : Int) : Int := wrap64 (-a)

inductive ArithErr
  | divByZero      -- "runtime error: integer divide by zero" (a panic; `_recover` makes it the call's error)
deriving DecidableEq, Repr

/-- `a / b`: truncated division; the one overflowing quotient `MinInt64 / -1` wraps to `MinInt64` -/
def goDiv (a b : Int) : Except ArithErr Int :=
  if b = 0 then .error .divByZero else .ok (wrap64 (Int.tdiv a b))

def goLt (a b : Int) : Bool := decide (a < b)
def goLe (a b : Int) : Bool := decide (a ≤ b)
def goGt (a b : Int) : Bool := decide (a > b)
def goGe (a b : Int) : Bool := decide (a ≥ b)

/-- `rAnge(from, to)`: `for i := from; i < to; i++ { append i }` — the loop test as written, `i++` is a
    `goAdd i 1`; the fuel `to - from` is the number of iterations (the loop variable cannot pass `to`) -/
def goRangeAux (to : Int) : Nat → Int → List Int
  | 0, _ => []
  | k + 1, i => if i < to then i :: goRangeAux to k (goAdd i 1) else []

def goRange (from_ to : Int) : List Int := goRangeAux to (to - from_).toNat from_

/-- what evaluating `(op a b)` on two `int`s gives: the binder calls the closure; a panic inside it becomes the
    call's error -/
inductive Obs
  | int (i : Int)
  | bool (b : Bool)
  | err
deriving DecidableEq, Repr

def goOp (op : String) (a b : Int) : Option Obs :=
  if op = "+" then some (.int (goAdd a b))
  else if op = "-" then some (.int (goSub a b))
  else if op = "*" then some (.int (goMul a b))
  else if op = "/" then some (match goDiv a b with | .ok q => .int q | .error _ => .err)
  else if op = "<" then some (.bool (goLt a b))
  else if op = "<=" then some (.bool (goLe a b))
  else if op = ">" then some (.bool (goGt a b))
  else if op = ">=" then some (.bool (goGe a b))
  else none


/-! ### `strconv.ParseInt(s, 0, 0)` (strconv/atoi.go), byte by byte -/

inductive PErr
  | syntax    -- `ErrSyntax`
  | range     -- `ErrRange`
deriving DecidableEq, Repr

/-- `lower(c) = c | ('x' - 'X')` -/
def lower (b : Nat) : Nat := b ||| 32

/-- the digit value the `ParseUint` loop assigns to a byte: `'0'..'9'`, or a letter (`lower(c) - 'a' + 10`) -/
def digitVal (c : Char) : Option Nat :=
  let b := c.toNat
  if 48 ≤ b ∧ b ≤ 57 then some (b - 48)
  else if 97 ≤ lower b ∧ lower b ≤ 122 then some (lower b - 87)
  else none

/-- `cutoff = maxUint64/base + 1`: the smallest number such that `cutoff*base > maxUint64` -/
def cutoff (base : Nat) : Nat := maxUint64 / base + 1

/-- the digit loop of `ParseUint` (base argument 0, so `_` is skipped and remembered; `bitSize` 64, so
    `maxVal = maxUint64`): state `n` and the `underscores` flag.  A range error ends the loop at once — the
    bytes after it are never looked at. -/
def uloop (base : Nat) : List Char → Nat → Bool → Except PErr (Nat × Bool)
  | [], n, us => .ok (n, us)
  | c :: cs, n, us =>
    if c = '_' then uloop base cs n true
    else match digitVal c with
      | none => .error .syntax
      | some d =>
        if d ≥ base then .error .syntax
        else if n ≥ cutoff base then .error .range          -- n*base overflows
        else if n * base + d > maxUint64 then .error .range  -- n+d overflows
        else uloop base cs (n * base + d) us

/-- the base prefix switch of `ParseUint` (`base == 0`): the base and the bytes left for the digit loop -/
def splitBase : List Char → Nat × List Char
  | '0' :: c :: d :: r =>
    if lower c.toNat = 98 then (2, d :: r)
    else if lower c.toNat = 111 then (8, d :: r)
    else if lower c.toNat = 120 then (16, d :: r)
    else (8, c :: d :: r)
  | '0' :: r => (8, r)
  | s => (10, s)

/-- `underscoreOK` main loop; `saw`: 0 = `'^'`, 1 = `'0'`, 2 = `'_'`, 3 = `'!'` -/
def usLoop (hex : Bool) : List Char → Nat → Bool
  | [], saw => saw != 2
  | c :: cs, saw =>
    let b := c.toNat
    if (48 ≤ b ∧ b ≤ 57) ∨ (hex = true ∧ 97 ≤ lower b ∧ lower b ≤ 102) then usLoop hex cs 1
    else if c = '_' then (if saw != 1 then false else usLoop hex cs 2)
    else if saw = 2 then false
    else usLoop hex cs 3

/-- `underscoreOK(s)` -/
def underscoreOK (s : List Char) : Bool :=
  let s := match s with
    | '-' :: r => r
    | '+' :: r => r
    | s => s
  match s with
  | '0' :: c :: r =>
    let l := lower c.toNat
    if l = 98 ∨ l = 111 ∨ l = 120 then usLoop (l = 120) r 1 else usLoop false s 0
  | s => usLoop false s 0

/-- `ParseUint(s, 0, 0)` -/
def parseUint (s : List Char) : Except PErr Nat :=
  if s = [] then .error .syntax else
  let (base, ds) := splitBase s
  match uloop base ds 0 false with
  | .error e => .error e
  | .ok (n, us) => if us && !underscoreOK s then .error .syntax else .ok n

/-- the tail of `ParseInt` after `ParseUint` returned: a syntax error is passed on; a range error left
    `un = maxVal`, which fails the cutoff test whatever the sign; otherwise the cutoff tests, `int64(un)`, `n = -n` -/
def signed (neg : Bool) : Except PErr Nat → Except PErr Int
  | .error .syntax => .error .syntax
  | .error .range => .error .range
  | .ok un =>
    if !neg && un ≥ 9223372036854775808 then .error .range
    else if neg && un > 9223372036854775808 then .error .range
    else
      let n := wrap64 (un : Int)                -- `int64(un)`
      .ok (if neg then wrap64 (-n) else n)      -- `n = -n`

/-- `ParseInt(s, 0, 0)` -/
def parseIntChars (s : List Char) : Except PErr Int :=
  match s with
  | [] => .error .syntax
  | c :: r =>
    if c = '+' then signed false (parseUint r)
    else if c = '-' then signed true (parseUint r)
    else signed false (parseUint s)

/-- `read_atom`, case `scanner.Int`: the literal's value, any `ParseInt` error is "integer parse error" -/
def parseIntLit (s : String) : Except PErr Int := parseIntChars s.toList

/-! ### `fmt.Sprintf("%v", i)` = `strconv.FormatInt(i, 10)` -/

def digitChar (d : Nat) : Char := Char.ofNat (48 + d)

def natDigitsAux : Nat → Nat → List Char
  | 0, _ => []
  | fuel + 1, n => if n < 10 then [digitChar n] else natDigitsAux fuel (n / 10) ++ [digitChar (n % 10)]

def natDigits (n : Nat) : List Char := natDigitsAux (n + 1) n

def printIntChars : Int → List Char
  | .ofNat n => natDigits n
  | .negSucc n => '-' :: natDigits (n + 1)

def printInt (i : Int) : String := String.ofList (printIntChars i)

end LispModel.IntArith

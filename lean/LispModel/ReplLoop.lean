/-
  The REPL's line loop: `repl.Execute` (repl/repl.go) — the `for` loop around `Readline`,
  `strings.TrimSpace`, `lines = append(lines, line)`, `strings.Join(lines, "\n")`, `lisp.REPL`, and the
  classification of its error (`err.Error() == "<empty line>"`, `multiLine(err)`, anything else) —
  and `lisp.REPL` (mal.go) = READ, EVAL, PRINT instantiated with the reader, evaluator and printer models.

  The input boundary is what `Readline` RETURNS (one string per line, no line terminator): the line
  editor in front of it (chzyer/readline interprets TAB, CR, ^K, ^L … even on a pipe) is not modelled.
  `ErrInterrupt` (⇒ `continue`) cannot arrive on a pipe and is not modelled; `io.EOF` ends the fold.
  Core Lean only.
-/
import LispModel.Val
import LispModel.Read
import LispModel.Print
import LispModel.Eval
import LispModel.Proto
namespace LispModel.ReplLoop
open LispModel

/-! ### `strings.TrimSpace`, `strings.Join` -/

/-- `unicode.IsSpace`: the Latin-1 set `\t \n \v \f \r space U+0085 U+00A0` and the other code points
    with the White_Space property (U+1680, U+2000–U+200A, U+2028, U+2029, U+202F, U+205F, U+3000) -/
def isSpace (c : Char) : Bool :=
  let n := c.toNat
  (9 ≤ n && n ≤ 13) || n == 32 || n == 0x85 || n == 0xA0 || n == 0x1680 ||
  (0x2000 ≤ n && n ≤ 0x200A) || n == 0x2028 || n == 0x2029 || n == 0x202F || n == 0x205F || n == 0x3000

def trimLeft (cs : List Char) : List Char := cs.dropWhile isSpace

def trimRight (cs : List Char) : List Char := (cs.reverse.dropWhile isSpace).reverse

/-- `strings.TrimSpace` (lines come from `Readline`, which builds them from runes: valid UTF-8) -/
def trimSpace (s : String) : String := String.ofList (trimRight (trimLeft s.toList))

/-- `strings.Join(lines, "\n")` -/
def joinLines : List String → String
  | [] => ""
  | [a] => a
  | a :: b :: r => a ++ "\n" ++ joinLines (b :: r)

/-! ### what `lisp.REPL` returns, and how the loop classifies its error -/

/-- the `error` of `lisp.REPL(ctx, env, text, cursor)` -/
inductive LErr where
  /-- `READ` failed (`EVAL` was not called) -/
  | read (e : Read.RErr)
  /-- `EVAL` failed -/
  | eval (e : Err)
  /-- model artefact: the evaluator model ran out of fuel -/
  | oof
deriving Inhabited

/-- the five messages of `repl.multiLine` -/
def mlMessage (m : String) : Bool :=
  m == "expected ')', got EOF" || m == "expected ']', got EOF" || m == "expected '}', got EOF" ||
  m == "expected '»', got EOF" || m == "expected '¬', got EOF"

theorem read_multiLine_eq (e : Read.RErr) : Read.multiLine e = mlMessage (Read.errMessage e) := rfl

/-- `err.Error() == "<empty line>"`.  The reader's own `errors.New("<empty line>")` is the plain error
    `RErr.empty`; every other reader error is a `LispError` whose text is a different message.  An
    evaluation error says `<empty line>` only when it carries no position (`LispError.Error()` =
    `fmt.Sprint(payload)`; with a position the text starts with the position) and its payload is that very
    string or a Go error with that message, or when it is a plain Go error with that message. -/
def LErr.isEmptyLine : LErr → Bool
  | .read e => decide (e = .empty)
  | .eval (.plain m) => m == "<empty line>"
  | .eval (.lisp (.str s) none) => s == "<empty line>"
  | .eval (.lisp (.goerr m) none) => m == "<empty line>"
  | _ => false

/-- `repl.multiLine(err)`: a `LispError` whose `ErrorValue()` is a Go `error` with one of the five messages —
    whoever produced it (the reader, or an evaluation that threw / returned such an error) -/
def LErr.multiLine : LErr → Bool
  | .read e => Read.multiLine e
  | .eval (.lisp (.goerr m) _) => mlMessage m
  | _ => false

/-- does the loop `continue` WITHOUT resetting `lines`? -/
def LErr.keeps (e : LErr) : Bool := e.isEmptyLine || e.multiLine

/-- what one iteration prints -/
inductive Out where
  /-- `fmt.Printf("%v\n", out)` -/
  | value (text : String)
  /-- `Lisp Error: …` / `Error: …` -/
  | error (e : LErr)
  /-- nothing (the loop `continue`s silently) -/
  | none
deriving Inhabited

/-- the loop's variables: the accumulated `lines` and the environment `repl_env` (a pointer in Go: what an
    evaluation did to it persists) -/
structure RState (σ : Type) where
  lines : List String := []
  env : σ
deriving Inhabited

/-- `lisp.REPL` with the environment threaded: result and the environment afterwards -/
abbrev ReadEval (σ : Type) := σ → String → Except LErr String × σ

/-- the part of the loop body after `lisp.REPL` returned: the three error outcomes and the success outcome -/
def finish {σ : Type} (lines : List String) (r : Except LErr String × σ) : RState σ × Out :=
  match r with
  | (.ok out, env') => ({ lines := [], env := env' }, .value out)
  | (.error e, env') =>
    if e.isEmptyLine then ({ lines := lines, env := env' }, .none)        -- `continue` (lines kept)
    else if e.multiLine then ({ lines := lines, env := env' }, .none)     -- `continue` (keep accumulating)
    else ({ lines := [], env := env' }, .error e)                         -- report, reset

/-- one iteration of the `for` loop for the line `Readline` returned -/
def replStep {σ : Type} (readEval : ReadEval σ) (st : RState σ) (line : String) : RState σ × Out :=
  let line := trimSpace line
  let lines := st.lines ++ [line]
  let completeLine := joinLines lines
  finish lines (readEval st.env completeLine)

/-- the loop over the lines of the input, until `io.EOF`: final state and one `Out` per line -/
def replRun {σ : Type} (readEval : ReadEval σ) : RState σ → List String → RState σ × List Out
  | st, [] => (st, [])
  | st, l :: ls =>
    let (st', o) := replStep readEval st l
    let (st'', os) := replRun readEval st' ls
    (st'', o :: os)

/-- `lisp.REPL` = READ, then EVAL + PRINT: `READ` does not touch the environment -/
def readEvalOf {σ α : Type} (read : String → Except Read.RErr α)
    (evalPrint : σ → α → Except LErr String × σ) : ReadEval σ :=
  fun env text =>
    match read text with
    | .error e => (.error (.read e), env)
    | .ok ast => evalPrint env ast

/-! ### the instance: reader, evaluator and printer models -/

/-- `types.NewCursorFile("REPL")`; `READ` passes the environment on (for `«…»`), no placeholder table -/
def replCfg : Read.Cfg := { module := some "REPL", hasEnv := true }

/-- `READ(sourceCode, cursor, env)` on the bytes of the joined text -/
def replRead (text : String) : Except Read.RErr Val := Read.readStr replCfg text.toUTF8.toList

def evalFuel : Nat := 200000

/-- `EVAL(ctx, ast, env)` in the root scope with `context.Background()` (never cancelled), then `PRINT` -/
def replEvalPrint (st : State) (ast : Val) : Except LErr String × State :=
  match eval evalFuel { st with cancelAt := none, stepper := none } 0 ast 1 with
  | (.ok v, st') => (.ok (String.ofList (Print.print v)), st')
  | (.err e, st') => (.error (.eval e), st')
  | (.oof, st') => (.error .oof, st')

/-- `lisp.REPL(ctx, repl_env, text, NewCursorFile("REPL"))` -/
def lispREPL : ReadEval State := readEvalOf replRead replEvalPrint

/-- the real loop on the model components -/
def run (st : State) (lines : List String) : RState State × List Out :=
  replRun lispREPL { lines := [], env := st } lines

/-- the outputs that print something -/
def printed : List Out → List Out
  | [] => []
  | .none :: r => printed r
  | o :: r => o :: printed r

/-! ### the canonical observation (shared with the `replloop` engine of the harness) -/

/-- the class of a reader error (as `errClass` of the harness / Main.lean; `extern` folded into `other`) -/
def readErrClass : Read.RErr → String
  | .eof c => "eof:" ++ c
  | .unexpected c => "unexpected:" ++ c
  | .trailing => "trailing"
  | .empty => "empty"
  | .underflow => "underflow"
  | .badtoken => "badtoken"
  | .badint => "badint"
  | .oddmap => "oddmap"
  | .badkey => "badkey"
  | .badsetitem => "badsetitem"
  | .rawEof => "eof:¬"
  | .floaterr => "floaterr"
  | .extern _ => "other"
  | .panic site => "PANIC " ++ site

/-- the harness classifies what the REPL PRINTED (`Lisp Error: «go-error "msg"»`) by the message: an evaluation
    error carrying a Go error with a reader message gets the reader's class -/
def msgClass (m : String) : String :=
  let cs := m.toList
  let pre (p : String) : Bool := p.toList.isPrefixOf cs
  let suf (p : String) : Bool := p.toList.isSuffixOf cs
  if pre "expected '" && suf "', got EOF" then
    "eof:" ++ String.ofList ((cs.drop 10).take (cs.length - 10 - 10))
  else if pre "unexpected '" then
    let r := cs.drop 12
    "unexpected:" ++ String.ofList (if r.getLast? = some '\'' then r.dropLast else r)
  else if m = "not all tokens where parsed" then "trailing"
  else if m = "<empty line>" then "empty"
  else if suf "underflow" then "underflow"
  else if pre "invalid token" then "badtoken"
  else if m = "integer parse error" then "badint"
  else if m = "float parse error" then "floaterr"
  else if pre "odd number of arguments to NewHashMap" then "oddmap"
  else if pre "expected hash-map key string" then "badkey"
  else if pre "set items must be" then "badsetitem"
  else "other"

def errObs : LErr → String
  | .read e => readErrClass e
  | .eval (.lisp (.goerr m) _) => msgClass m
  | .eval (.plain m) => msgClass m
  | .eval _ => "other"
  | .oof => "OOF"

/-- a builtin prints as `«function <name of the Go function>»` in Go, `«function <lisp name>»` in the printer
    model: the name is dropped on both sides (state: inside such a name; characters of the matched prefix still to skip) -/
def canonFn : Bool → Nat → List Char → List Char
  | _, _, [] => []
  | inName, n + 1, _ :: r => canonFn inName n r
  | true, 0, c :: r => if c = '»' then c :: canonFn false 0 r else canonFn true 0 r
  | false, 0, c :: r =>
    if "«function ".toList.isPrefixOf (c :: r) then "«function".toList ++ canonFn true 9 r
    else c :: canonFn false 0 r

def obs : Out → Option String
  | .value t => some ("V" ++ Proto.hexEncode (String.ofList (canonFn false 0 t.toList)))
  | .error e => some ("E" ++ errObs e)
  | .none => none

/-- one item per printed result, blank separated (`-` when nothing was printed) -/
def observation (outs : List Out) : String :=
  match outs.filterMap obs with
  | [] => "-"
  | items => " ".intercalate items

end LispModel.ReplLoop

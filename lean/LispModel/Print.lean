/-
  The printer: `printer.Pr_str` (printer/printer.go) on the modelled value kinds.
  Hash-maps and sets are printed in the order of the association list; Go iterates its maps in
  an arbitrary order, so every theorem about printed text quantifies over permutations of the
  entries, and the correspondence check accepts any entry order (`Main.lean: matchPrint`).
  Core Lean only.
-/
import LispModel.Val
import LispModel.Read
namespace LispModel.Print
open LispModel

def intercalate (sep : List Char) : List (List Char) → List Char
  | [] => []
  | [x] => x
  | x :: y :: r => x ++ sep ++ intercalate sep (y :: r)

/-- decimal rendering of an `int` (`%v`) -/
def natDigits : Nat → Nat → List Char
  | 0, _ => []
  | fuel + 1, n => if n < 10 then [Char.ofNat (48 + n)] else natDigits fuel (n / 10) ++ [Char.ofNat (48 + n % 10)]

def intStr (i : Int) : List Char :=
  match i with
  | .ofNat n => natDigits (n + 1) n
  | .negSucc n => '-' :: natDigits (n + 2) (n + 1)

/-- the string case of `Pr_str` -/
def prString (readably : Bool) (s : String) : List Char :=
  let cs := s.toList
  match cs with
  | c :: rest =>
    if c = kwMarker then ':' :: rest
    else if readably then
      if ['{', '"'].isPrefixOf cs ∧ cs.getLast? = some '}' then
        '¬' :: Read.replaceAll ['¬'] ['¬', '¬'] cs ++ ['¬']
      else
        '"' :: Read.replaceAll ['\n'] ['\\', 'n']
                (Read.replaceAll ['"'] ['\\', '"']
                  (Read.replaceAll ['\\'] ['\\', '\\'] cs)) ++ ['"']
    else cs
  | [] => if readably then ['"', '"'] else []

mutual
def prStr (readably : Bool) : Val → List Char
  | .nil => "nil".toList
  | .bool true => "true".toList
  | .bool false => "false".toList
  | .int i => intStr i
  | .str s => prString readably s
  | .sym s _ => s.toList
  | .list xs _ => '(' :: intercalate [' '] (prList readably xs) ++ [')']
  | .vec xs _ => '[' :: intercalate [' '] (prList readably xs) ++ [']']
  | .map kvs => '{' :: intercalate [' '] (prMap readably kvs) ++ ['}']
  | .set ks => '#' :: '{' :: intercalate [' '] (ks.map (prString readably)) ++ ['}']
  | .fn params body _ _ _ => "(fn ".toList ++ prStr true params ++ [' '] ++ prStr true body ++ [')']
  | .builtin n => "«function ".toList ++ n.toList ++ ['»']
  | .atom _ => "«atom»".toList
  | .future _ => "«futur-call»".toList
  | .goerr m => "«go-error ".toList ++ prString true m ++ ['»']
  | .opaque t => t.toList
def prList (readably : Bool) : List Val → List (List Char)
  | [] => []
  | x :: xs => prStr readably x :: prList readably xs
def prMap (readably : Bool) : List (String × Val) → List (List Char)
  | [] => []
  | (k, v) :: r => prString readably k :: prStr readably v :: prMap readably r
end

/-- `lisp.PRINT` -/
def print (v : Val) : List Char := prStr true v

end LispModel.Print

/-
  L-notation: `lnotation/lnotation.go` (`S L LS V HM SET`) — programs and data built from Go
  without any source position — against the reader's constructions of the same forms.

  * `LTerm` is the Go expression the embedder writes; `build` is what the six functions return
    (every cursor `nil`, i.e. `none`);
  * `toText` writes the same term as lisp source; `Read.readStr` of that text is the other
    delivery route of C19;
  * `stripPos` erases every cursor of a value.
  Quirks kept: `HM` converts a nested `map[string]interface{}` only when it is directly an entry
  value of the map being converted (`switch v := v.(type) { case map[string]interface{}: … }`);
  the same Go map anywhere else (inside a `V`/`L` slice, inside a vector that is an entry value)
  stays a raw Go map, which is not a lisp value (`Val.opaque`).
  Core Lean only.
-/
import LispModel.Val
import LispModel.Read
import LispModel.Print
import LispModel.Spec.Readable
namespace LispModel.LNot
open LispModel

/-- an L-notation expression as written in Go -/
inductive LTerm where
  /-- `S("name")` -/
  | S (name : String)
  /-- `L(args...)` -/
  | L (args : List LTerm)
  /-- `LS("name", args...)` -/
  | LS (name : String) (args : List LTerm)
  /-- `V([]T{args...})` -/
  | V (args : List LTerm)
  /-- `HM(map[string]interface{}{k: v, …})`, entries in assignment order -/
  | HM (entries : List (String × LTerm))
  /-- a bare `map[string]interface{}{…}` literal (no `HM` around it) -/
  | rawMap (entries : List (String × LTerm))
  /-- `SET([]string{…})` -/
  | SET (members : List String)
  | int (i : Int)
  /-- a Go string; a keyword is the string `"ʞname"` -/
  | str (s : String)
  | nil
  | bool (b : Bool)
deriving Repr, Inhabited

/-- `%T` of a bare Go map -/
def rawMapTag : String := "map[string]interface {}"

mutual
/-- the value the Go expression evaluates to -/
def build : LTerm → Val
  | .S n => .sym n none                                  -- `Symbol{Val: arg}`
  | .L args => .list (buildList args) none               -- `List{Val: args}`
  | .LS n args => .list (.sym n none :: buildList args) none  -- `append([]MalType{Symbol{Val: symbol}}, args...)`
  | .V args => .vec (buildList args) none                -- the copying loop of `V`
  | .HM es => .map (buildHM es [])
  | .rawMap _ => .opaque rawMapTag
  | .SET ms => .set (ms.foldl (fun s k => sinsert k s) [])  -- `result[k] = struct{}{}`
  | .int i => .int i
  | .str s => .str s
  | .nil => .nil
  | .bool b => .bool b
def buildList : List LTerm → List Val
  | [] => []
  | t :: r => build t :: buildList r
/-- the loop of `HM`: `case map[string]interface{}: result[k] = HM(v)`, `default: result[k] = v` -/
def buildHM : List (String × LTerm) → List (String × Val) → List (String × Val)
  | [], m => m
  | (k, .rawMap es) :: r, m => buildHM r (ainsert k (.map (buildHM es [])) m)
  | (k, t) :: r, m => buildHM r (ainsert k (build t) m)
end

mutual
/-- the term written as lisp source (a bare Go map is written as the map it was meant to be) -/
def toText : LTerm → List Char
  | .S n => n.toList
  | .L args => '(' :: Print.intercalate [' '] (textList args) ++ [')']
  | .LS n args => '(' :: Print.intercalate [' '] (n.toList :: textList args) ++ [')']
  | .V args => '[' :: Print.intercalate [' '] (textList args) ++ [']']
  | .HM es => '{' :: Print.intercalate [' '] (textMap es) ++ ['}']
  | .rawMap es => '{' :: Print.intercalate [' '] (textMap es) ++ ['}']
  | .SET ms => '#' :: '{' :: Print.intercalate [' '] (ms.map (Print.prString true)) ++ ['}']
  | .int i => Print.intStr i
  | .str s => Print.prString true s
  | .nil => "nil".toList
  | .bool true => "true".toList
  | .bool false => "false".toList
def textList : List LTerm → List (List Char)
  | [] => []
  | t :: r => toText t :: textList r
def textMap : List (String × LTerm) → List (List Char)
  | [] => []
  | (k, t) :: r => Print.prString true k :: toText t :: textMap r
end

mutual
/-- erase every cursor -/
def stripPos : Val → Val
  | .sym s _ => .sym s none
  | .list xs _ => .list (stripList xs) none
  | .vec xs _ => .vec (stripList xs) none
  | .map kvs => .map (stripMap kvs)
  | .fn p b e m _ => .fn (stripPos p) (stripPos b) e m none
  | v => v
def stripList : List Val → List Val
  | [] => []
  | x :: r => stripPos x :: stripList r
def stripMap : List (String × Val) → List (String × Val)
  | [] => []
  | (k, v) :: r => (k, stripPos v) :: stripMap r
end

mutual
/-- every cursor of the value is `none` -/
def noPos : Val → Bool
  | .sym _ p => p.isNone
  | .list xs p => p.isNone && noPosList xs
  | .vec xs p => p.isNone && noPosList xs
  | .map kvs => noPosMap kvs
  | .fn p b _ _ c => c.isNone && noPos p && noPos b
  | _ => true
def noPosList : List Val → Bool
  | [] => true
  | x :: r => noPos x && noPosList r
def noPosMap : List (String × Val) → Bool
  | [] => true
  | (_, v) :: r => noPos v && noPosMap r
end

/-- `L(args...)` returns `List{Val: args}`: the caller's slice itself (`LS` appends to a fresh slice,
    `V` copies element by element) -/
def sharesArgs : LTerm → Bool
  | .L (_ :: _) => true
  | _ => false

/-- `HM`'s treatment of one entry value -/
def buildEntry : LTerm → Val
  | .rawMap es => .map (buildHM es [])
  | t => build t

def int64 (i : Int) : Bool := decide (-9223372036854775808 ≤ i ∧ i ≤ 9223372036854775807)

def nodupB : List String → Bool
  | [] => true
  | k :: r => !r.contains k && nodupB r

mutual
/-- well-formed terms: what an embedder can also write as source text — symbol names the scanner reads
    as one identifier, keys / members readable strings or keywords without duplicates, integers in the
    range of Go's `int`, a bare Go map only directly as an entry value of `HM` -/
def wf : LTerm → Bool
  | .S n => readableSym n
  | .L args => wfList args
  | .LS n args => readableSym n && wfList args
  | .V args => wfList args
  | .HM es => nodupB (keysOf es) && wfMap es
  | .rawMap _ => false
  | .SET ms => nodupB ms && ms.all readableStr
  | .int i => int64 i
  | .str s => readableStr s
  | .nil => true
  | .bool _ => true
def wfList : List LTerm → Bool
  | [] => true
  | t :: r => wf t && wfList r
def wfMap : List (String × LTerm) → Bool
  | [] => true
  | (k, .rawMap es) :: r => readableStr k && (nodupB (keysOf es) && wfMap es) && wfMap r
  | (k, t) :: r => readableStr k && wf t && wfMap r
def keysOf : List (String × LTerm) → List String
  | [] => []
  | (k, _) :: r => k :: keysOf r
end

mutual
/-- exact equality of two values as a Boolean (cursors included; entries in the order given) -/
def exactB : Val → Val → Bool
  | .nil, .nil => true
  | .bool a, .bool b => a == b
  | .int a, .int b => a == b
  | .str a, .str b => a == b
  | .sym a p, .sym b q => a == b && decide (p = q)
  | .list xs p, .list ys q => decide (p = q) && exactBList xs ys
  | .vec xs p, .vec ys q => decide (p = q) && exactBList xs ys
  | .map m1, .map m2 => exactBMap m1 m2
  | .set s1, .set s2 => s1 == s2
  | .fn p1 b1 e1 m1 c1, .fn p2 b2 e2 m2 c2 =>
    exactB p1 p2 && exactB b1 b2 && e1 == e2 && m1 == m2 && decide (c1 = c2)
  | .builtin a, .builtin b => a == b
  | .atom a, .atom b => a == b
  | .future a, .future b => a == b
  | .goerr a, .goerr b => a == b
  | .opaque a, .opaque b => a == b
  | _, _ => false
def exactBList : List Val → List Val → Bool
  | [], [] => true
  | x :: xs, y :: ys => exactB x y && exactBList xs ys
  | _, _ => false
def exactBMap : List (String × Val) → List (String × Val) → Bool
  | [], [] => true
  | (k, v) :: r, (k', v') :: r' => k == k' && exactB v v' && exactBMap r r'
  | _, _ => false
end

/-- the UTF-8 bytes of a character list -/
def utf8 (cs : List Char) : List UInt8 := cs.flatMap String.utf8EncodeChar

/-- the other delivery route: the reader on the written text -/
def readText (cfg : Read.Cfg) (t : LTerm) : Except Read.RErr Val := Read.readStr cfg (utf8 (toText t))

/-- do both deliveries give the same value, cursors aside? -/
def sameB (cfg : Read.Cfg) (t : LTerm) : Bool :=
  match readText cfg t with
  | .ok v => exactB (stripPos v) (build t)
  | .error _ => false

end LispModel.LNot


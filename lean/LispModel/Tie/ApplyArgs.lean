/-
  Tie lemmas about the argument slices handed to `types.Apply` (Generated/ApplyArgs.lean, by
  harness/facts_applyargs.go).  A lisp function's rest parameter is a WINDOW on the slice it is applied to
  (env/env.go binds `List{Val: exprs[i:]}`; model: EnvAlg.bindSeq / Eval.bindParams take the arguments as an immutable
  list), so every slice passed to `Apply` becomes part of a lisp value.  The evaluator model — and the immutability
  theorems of C02, the `map / apply / swap!` laws of C13 and C01 — assume that such a slice is never written again:
  not by the caller's next loop iteration, not by a retry, not element-wise.  These lemmas check that assumption on the
  source as it is now; the engines (`hist`, `keptargs`, `coll`, `eval`) exhibit the concrete failing programs when it breaks.
-/
import LispModel.Generated.ApplyArgs
namespace LispModel.Tie.ApplyArgs
open LispModel.Generated.ApplyArgs

/-- the call sites, exactly: `update` (2), `apply`, `map`, `swap!`, the future body, `macroexpand` -/
theorem apply_sites :
    sites.map (fun s => (s.fn, s.arg)) =
      [("_update", "literal"), ("_update", "literal"), ("apply", "ident:args"), ("mAp", "literal"),
       ("swap_BANG", "ident:args"), ("NewFuture", "nil"), ("macroexpand", "slice")] := by decide

/-- inside a loop (`map`'s elements, `swap!`'s retries) the slice is built afresh for every iteration; the one window
    (`macroexpand` applies the macro to `form[1:]`) is a window on the CODE being expanded, which nobody writes -/
theorem loop_sites_fresh_per_iteration :
    (sites.filter (·.inLoop)).all (fun s => s.freshPerIteration || (s.fn == "macroexpand" && s.arg == "slice")) = true := by
  decide

/-- outside loops: a literal, nil, or a slice built from a literal in that function -/
theorem straight_sites_fresh : (sites.filter (fun s => !s.inLoop)).all (·.freshPerIteration) = true := by decide

/-- no function writes single elements into a slice it passes to `Apply` -/
theorem no_element_writes : sites.all (·.elementWrites == 0) = true := by decide

end LispModel.Tie.ApplyArgs

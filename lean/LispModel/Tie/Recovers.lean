/-
  Tie lemmas about where the Go code catches panics (Generated/Recovers.lean, by harness/facts_recovers.go).
  `recover()` stops a panic only when the DEFERRED function itself calls it.  The evaluator model (and C03 / C04 / C20)
  assume: every function bound through lib/call runs under `defer _recover(name, &err)` — deferred directly, all six result /
  context shapes —, a `try` body runs under `defer malRecover(&err)`, and no deferred CLOSURE wraps one of those helpers
  (inside a closure the helper's recover() returns nil and the panic goes on into the host).  The engines (`malformed`,
  `nopanic` with embedder functions of every shape, `call`) exhibit the escaping panic when this breaks.
-/
import LispModel.Generated.Recovers
namespace LispModel.Tie.Recovers
open LispModel.Generated.Recovers

/-- the two helpers, each calling recover() in its own body -/
theorem recovering_helpers :
    recoveringFunctions = [("lib/call/call.go", "_recover"), ("mal.go", "malRecover")] := by decide

/-- all six adapters of the binder (context or not × 0, 1, 2 results) defer `_recover` DIRECTLY -/
theorem binder_adapters_defer_recover_directly :
    (defers.filter (fun d => d.file == "lib/call/call.go")).map (·.what) =
      ["call:_recover", "call:_recover", "call:_recover", "call:_recover", "call:_recover", "call:_recover"] := by decide

/-- the body of `try` runs under a directly deferred `malRecover` -/
theorem try_body_defers_malRecover :
    (defers.filter (fun d => d.file == "mal.go" && d.what == "call:malRecover")).length = 1 := by decide

/-- no deferred closure calls a recovering helper (it would recover nothing) and none calls recover() itself -/
theorem no_helper_inside_a_deferred_closure :
    defers.all (fun d => d.what != "closure" || (d.helpersCalledInside.isEmpty && !d.closureRecoversDirectly)) = true := by
  decide

end LispModel.Tie.Recovers

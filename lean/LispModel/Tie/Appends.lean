/-
  Tie lemmas for property C02: the syntactic facts extracted from the Go sources
  (Generated/Appends.lean, by harness/facts_appends.go) that the slice-level model (CoreHeap.lean)
  relies on.  All by `decide` on generated data; they FAIL on the unrepaired code (there `conj` and
  `concat` append onto `seq.Val` / the result of `GetSlice`, and `subvec` is a 2-index slice) —
  that is the regression signal.

  What the model assumes and these lemmas check:
  * every `append` in a value-producing function writes a slice that is syntactically FRESH in that
    function (literal, `make`, nil, or an `append` onto one of those) — the invariant of `step_frame`
    ("every write goes to an array allocated in that step");
  * every index assignment `x[i] = …` there writes a fresh container or the result of one of the
    copy helpers (`copy_vector`, `copy_hash_map`, `copy_set`), whose own writes are fresh;
  * `subvec` answers a 3-index slice (capacity cut), and the slice expressions / append counts of the
    modelled functions are exactly the ones CoreHeap.lean mirrors (a new one forces a review).
-/
import LispModel.Generated.Appends
namespace LispModel.Tie.Appends
open LispModel.Generated.Appends

/-- the functions that build or hand out lisp values (lib/core/core.go, mal.go, types/types.go,
    lnotation/lnotation.go) -/
def valueFuncs : List String :=
  ["subvec", "take", "take_last", "drop", "drop_last", "assoc", "dissoc", "copy_vector", "copy_hash_map",
   "copy_set", "cons", "concat", "vec", "nth", "first", "rest", "conj", "seq", "with_meta", "mAp", "apply",
   "rAnge", "mErge", "rename_keys", "_assocIn", "_update", "_updateIn", "_getIn", "keys", "vals", "hash_map",
   "split", "array2vector", "array2list", "map2hashmap",
   "eval_ast", "EVAL", "do", "macroexpand", "qq_loop", "quasiquote",
   "ConvertFrom", "ConvertTo", "NewHashMap", "NewSet", "NewList", "Apply",
   "L", "LS", "V", "HM", "SET"]

def copyHelpers : List String := ["call:copy_vector", "call:copy_hash_map", "call:copy_set"]

/-- every `append` in a value-producing function writes a fresh slice -/
theorem value_appends_fresh :
    (appendSites.filter (fun s => valueFuncs.contains s.func)).all (·.fresh) = true := by decide

/-- the extracted list is not empty and covers the functions the repair touched -/
theorem value_appends_cover :
    (appendSites.filter (·.func = "conj")).length = 4 ∧ (appendSites.filter (·.func = "concat")).length = 2 ∧
    (appendSites.filter (·.func = "copy_vector")).length = 1 ∧ (appendSites.filter (·.func = "cons")).length = 1 ∧
    (appendSites.filter (·.func = "apply")).length = 2 ∧ (appendSites.filter (·.func = "mAp")).length = 1 ∧
    (appendSites.filter (·.func = "eval_ast")).length = 2 ∧ (appendSites.filter (·.func = "rAnge")).length = 1 ∧
    (appendSites.filter (·.func = "take")).length = 2 ∧ (appendSites.filter (·.func = "take_last")).length = 2 ∧
    (appendSites.filter (·.func = "drop")).length = 2 ∧ (appendSites.filter (·.func = "drop_last")).length = 2 ∧
    (appendSites.filter (·.func = "seq")).length = 2 := by decide

/-- `conj` (vector arm) and `concat` copy first: their appends go onto `append([]MalType{}, …)` -/
theorem conj_concat_copy_first :
    appendSites.contains ⟨"lib/core/core.go", "conj", 2, "append([]MalType{}, seq.Val...)", "append", true⟩ = true ∧
    appendSites.contains ⟨"lib/core/core.go", "conj", 3, "[]MalType{}", "literal", true⟩ = true ∧
    appendSites.contains ⟨"lib/core/core.go", "concat", 0, "[]MalType{}", "literal", true⟩ = true ∧
    appendSites.contains ⟨"lib/core/core.go", "concat", 1, "slc1", "append", true⟩ = true := by decide

/-- index assignments in value-producing functions write a fresh container or a copy made by a copy helper -/
theorem value_index_assigns_fresh :
    (indexAssigns.filter (fun s => valueFuncs.contains s.func)).all
      (fun s => s.fresh || copyHelpers.contains s.origin) = true := by decide

/-- `subvec` has exactly one slice expression and it is a 3-index slice -/
theorem subvec_three_index :
    sliceSites.filter (·.func = "subvec") = [⟨"lib/core/core.go", "subvec", 0, "v.Val[from:to:to]", true⟩] := by
  decide

/-- the slice expressions of the builtins are exactly the ones the model mirrors: `rest` answers `slc[1:]`
    (capacity kept — harmless because nothing appends onto a non-fresh slice), the others slice the
    argument vector of the call or a path -/
theorem core_slice_sites :
    (sliceSites.filter (·.file = "lib/core/core.go")).map (fun s => (s.func, s.expr, s.threeIndex)) =
      [("subvec", "v.Val[from:to:to]", true), ("assoc", "a[1:]", false), ("dissoc", "a[1:]", false),
       ("_getIn", "posVector.Val[1:]", false), ("_updateIn", "posVector.Val[1:]", false),
       ("_assocIn", "posVector.Val[1:]", false), ("rest", "slc[1:]", false),
       ("apply", "a[1:len(a) - 1]", false), ("conj", "a[1:]", false), ("conj", "a[1:]", false)] := by decide

/-- EVERY `append` of the seven files (core, evaluator, types, L-notation, lisperror, concurrent, binder) — whatever the
    function is called — grows a slice made in that function -/
theorem all_appends_fresh : appendSites.all (·.fresh) = true := by decide

/-- EVERY write into a slice or map of those files — an index assignment, `delete`, `copy`, `clear`, an in-place sort —
    goes into a container made in the same function or into the result of a copy helper; the one exception is the
    placeholder table `READWithPreamble` builds for itself behind a pointer.  (A helper that blanks bytes of its
    argument, a marshaller that adds keys to the map it was handed: both would be rows with origin `param` / `field`.) -/
theorem all_container_writes_fresh :
    indexAssigns.all (fun s => s.fresh || copyHelpers.contains s.origin ||
      (s.file == "mal.go" && s.func == "READWithPreamble" && s.target == "placeholderMap.Val")) = true := by decide

/-- the error marshaller and the binder's registry write only into maps they made themselves -/
theorem marshaller_and_registry_write_own_maps :
    (indexAssigns.filter (fun s => s.file == "lisperror/lisperror.go" || s.file == "lib/call/call.go")).all (·.fresh) = true ∧
    (indexAssigns.filter (fun s => s.func == "LispError.MarshalHashMap")).length = 3 := by decide

end LispModel.Tie.Appends

/-
  Equal_Q's structural arms (C14).
  (split of the Syntax tie by consumer; see Tie/SyntaxReader.lean for the overview)
-/
import LispModel.Generated.Syntax
namespace LispModel.Tie.SyntaxEqual
open LispModel.Generated.Syntax

/-- `Equal_Q` compares symbols, lists, vectors, hash-maps and sets structurally, everything else with `==` -/
theorem equal_arms : equalArms = ["Symbol", "List", "Vector", "HashMap", "Set", "default"] := by decide

end LispModel.Tie.SyntaxEqual

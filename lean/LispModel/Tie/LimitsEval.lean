/-
  Tie lemma about the numbers built into the interpreter (Generated/Limits.lean, by harness/facts_limits.go).
  The properties quantify over inputs of every size and the models have no bounds; the current source has none either:
  the only integer literals ≥ 5 (there is no shift expression at all) in the evaluator, reader, printer, types, env,
  lisperror, core, concurrent, binder and L-notation files are the 80 % share of `try` (`/ 10 * 8`), the bit size of
  `strconv.ParseFloat`, and the binder's "unlimited" argument count 1000 (documented in the level text of C20).  A cap on the
  length of a text, on retries, expansions, nesting or running futures adds a row: the lemma of the file group breaks, and
  the threshold engines look for the input beyond the cap.
-/
import LispModel.Generated.Limits
namespace LispModel.Tie.LimitsEval
open LispModel.Generated.Limits

theorem no_built_in_bounds :
    numbers.filter (fun r => ["mal.go", "types/types.go", "env/env.go"].contains r.1) = [("mal.go", "func EVAL", "10"), ("mal.go", "func EVAL", "8")] := by decide

end LispModel.Tie.LimitsEval

/-
  Tie lemmas between the builtin registrations regenerated from the Go source
  (Generated/Registry.lean, by harness/facts_registry.go) and the signatures the model assumes
  (Core.sigOf for the pure builtins, the argument patterns of Eval.callBuiltin for the
  evaluator-bound ones).  All by `decide` on generated data: a source change that alters the
  parameter types, the variadic bounds, the context flag or the set of registered names breaks an
  obligation here even if no generated test input exercises it.
-/
import LispModel.Core
import LispModel.Eval
import LispModel.Generated.Registry
namespace LispModel.Tie.Registry
open LispModel.Generated.Registry
open LispModel.Core (PK Sig)

/-- Go parameter kind ↦ the binder kind of the model (none: a Go type the model has no kind for) -/
def pk? : Kind → Option PK
  | .any => some .any
  | .int => some .int
  | .str => some .str
  | .vec => some .vec
  | .map => some .map
  | .sym => some .sym
  | .other _ => none

def sigEq : Sig → Sig → Bool
  | .fixed a, .fixed b => a == b
  | .variadic m x, .variadic n y => m == n && x == y
  | _, _ => false

/-- the signature *in lisp arguments* that the repaired lib/call/call.go derives for a registration:
    not variadic ⇒ the declared parameters without the context (explicit bounds would panic at load);
    variadic over `...MalType` ⇒ the declared bounds, else 0 and unlimited.  `none` for shapes the
    model's `Sig` cannot express (typed leading parameters of a variadic function, foreign types). -/
def denote (r : Reg) : Option Sig :=
  if !r.resolved then none
  else if !r.variadic then
    match r.bounds with
    | [] => (r.params.mapM pk?).map Sig.fixed
    | _ => none
  else
    match r.params, r.bounds with
    | [.any], [] => some (.variadic 0 none)
    | [.any], [mn] => some (.variadic mn none)
    | [.any], [mn, mx] => some (.variadic mn (some mx))
    | _, _ => none

def regsOf (n : String) : List Reg := registrations.filter (·.name = n)

/-- a pure builtin of the model: registered exactly once, without context, answering (value, error),
    and denoting the signature `Core.sigOf` gives it -/
def sigMatches (n : String) : Bool :=
  match Core.sigOf n, regsOf n with
  | some s, [r] =>
    !r.ctx && r.results == 2 &&
    (match denote r with
     | some s' => sigEq s' s
     | none => false)
  | _, _ => false

/-- every registration was resolved syntactically (literal name, declaration found, literal bounds) -/
theorem all_resolved : registrations.all (·.resolved) = true := by decide

/-- (a) every pure builtin the model knows is registered with the signature the model assumes -/
theorem core_signatures_match : ∀ n ∈ Core.pureNames, sigMatches n = true := by decide

/-- the model gives a signature to exactly its pure names -/
theorem core_names_have_sig : Core.pureNames.all (fun n => (Core.sigOf n).isSome) = true := by decide

/-! ### (b) the evaluator-bound builtins (Eval.callBuiltin) -/

/-- (name, context?, parameter kinds, variadic?, bounds) the patterns of `Eval.callBuiltin` assume -/
def evalBound : List (String × Bool × List Kind × Bool × List Nat) :=
  [("apply", true, [.any], true, [2]),
   ("map", true, [.any, .any], false, []),
   ("atom", false, [.any], false, []),
   ("deref", true, [.other "Dereferable"], false, []),
   ("reset!", false, [.any, .any], false, []),
   ("swap!", true, [.any], true, []),
   ("update", true, [.any, .any, .any], false, []),
   ("update-in", true, [.any, .vec, .any], false, [])]

def evalBoundMatches (e : String × Bool × List Kind × Bool × List Nat) : Bool :=
  match regsOf e.1 with
  | [r] => r.resolved && r.results == 2 && r.ctx == e.2.1 && r.params == e.2.2.1 &&
           r.variadic == e.2.2.2.1 && r.bounds == e.2.2.2.2
  | _ => false

theorem eval_bound_match : evalBound.all evalBoundMatches = true := by decide

/-- `eval` is bound directly (nscore.go) in both loaders: takes the context and the raw argument
    slice, and starts with the `len(a) != 1` guard -/
theorem eval_direct :
    directBindings =
      [⟨"lib/core/nscore/nscore.go", "Load", "eval", true, [.other "[]MalType"], false, 2, some 1⟩,
       ⟨"lib/core/nscore/nscore.go", "LoadInput", "eval", true, [.other "[]MalType"], false, 2, some 1⟩] := by
  decide

/-- the harness environment of the model binds the pure names, the evaluator-bound names, `eval`,
    and the two probes `trace!` / `depth!` that exist only in the harness -/
theorem model_builtins_covered :
    LispModel.builtinNames.all (fun n =>
      Core.pureNames.contains n || (evalBound.map (·.1)).contains n || n == "eval" ||
      n == "trace!" || n == "depth!") = true := by decide

/-! ### (c) what is registered but not modelled -/

def modelled (n : String) : Bool :=
  Core.pureNames.contains n || (evalBound.map (·.1)).contains n || n == "eval"

/-- registered names the model does not know, in registration order -/
def unmodelled : List String :=
  ((registrations.map (·.name)) ++ (directBindings.map (·.name))).eraseDups.filter (fun n => !modelled n)

example : unmodelled =
    ["with-meta", "hash-map-decode", "json-decode", "split", "spew", "read-string", "meta", "base64",
     "unbase64", "str2binary", "binary2str", "json-encode", "sleep", "time-ms", "time-ns", "uuid", "prn",
     "println", "go-error", "panic", "unwrap-error", "error-string", "new-error", "new-go-error", "version",
     "slurp", "readline", "new-atom", "future-call", "future-cancel", "future-cancelled?", "future-done?",
     "future?", "new-future-call"] := by decide

/-- no lisp name is registered twice through `call` (a later one would silently replace the earlier) -/
theorem names_distinct :
    (registrations.map (·.name)).eraseDups.length = registrations.length := by decide

end LispModel.Tie.Registry

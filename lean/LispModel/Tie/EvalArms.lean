/-
  Tie lemmas between the special-form dispatch of /repo/mal.go `EVAL`, regenerated from the source
  (Generated/EvalArms.lean, by harness/facts_evalarms.go), and the evaluator model (Eval.lean).
  All by `decide` on generated data.

  What the model assumes and these lemmas check:
  * the special forms are exactly the case strings of `switch a0sym`, in this order
    (`LispModel.specialForms`: a symbol in head position that is not one of them is an application);
  * `let`, `quasiquote`, `do`, `if` and the application arm continue the `for` loop with a new
    `ast`/`env` (the tail positions of C08: no Go stack growth, `Eval.eval` recurses with the same
    depth), while `def quote quasiquoteexpand defmacro macroexpand try fn` answer by `return` on
    every path (C03: what a `try` arm computes — handler value included — IS the value of the form,
    nothing after the switch runs; C08: these are not tail positions);
  * the evaluation context is polled exactly once per iteration of that loop, before anything else
    (C07: a cancelled context stops every loop iteration, i.e. every tail call; C01: the poll is
    non-blocking and guarded by `ctx != nil`, so a nil/background context changes nothing).
-/
import LispModel.Eval
import LispModel.Generated.EvalArms
namespace LispModel.Tie.EvalArms
open LispModel.Generated.EvalArms

/-- EVAL has one `switch a0sym`, directly in the body of its `for {}` loop -/
theorem one_dispatch : dispatchCount = 1 := by decide

theorem special_forms_match : evalArmNames = LispModel.specialForms := by decide

/-- the two generated lists describe the same arms -/
theorem arm_names_consistent : evalArms.map (·.name) = evalArmNames := by decide

def armsOf (c : ArmClass) : List String := (evalArms.filter (·.cls = c)).map (·.name)

/-- exactly `let quasiquote do if` and the application (default) arm iterate the loop;
    exactly `def quote quasiquoteexpand defmacro macroexpand try fn` return on every path -/
theorem tail_arms_loop :
    armsOf .loops = ["let", "quasiquote", "do", "if"] ∧ evalDefaultArm = some .loops ∧
    armsOf .returns = ["def", "quote", "quasiquoteexpand", "defmacro", "macroexpand", "try", "fn"] := by
  decide

/-- exactly one poll site in `EVAL` (and none elsewhere in mal.go): the first statement of the `for`
    body, under the `ctx != nil` guard, with a `default:` clause (it never blocks) -/
theorem one_poll_per_iteration :
    pollSites = [⟨"EVAL", 0, true, "ctx != nil", true⟩] := by decide

end LispModel.Tie.EvalArms

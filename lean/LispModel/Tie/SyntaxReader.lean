/-
  Tie lemmas between the literal tables of the reader, the printer, the REPL's continuation test and `Equal_Q`,
  regenerated from the source on every run (Generated/Syntax.lean, by harness/facts_syntax.go), and what the
  models assume (Read.lean, Print.lean, Equal.lean).  All by `decide` on generated data.

  These are the places where two sites have to agree with each other and no test input says so:
  * `repl.multiLine` recognises incomplete input by the exact TEXT of the reader's error: the messages it knows
    must be exactly the "…, got EOF" messages the reader can build (C16);
  * the printer's escapes and the reader's `unescape` must be inverse tables (C06, C15);
  * the raw-form guard and the raw-quote doubling of the printer against the reader's un-doubling (C06, C15);
  * the reader-macro table (C05 C12 C16), the closers `read_form` rejects and the closer each opener waits for (C16);
  * the kinds `Equal_Q` compares structurally — everything else falls to Go's `==` (C14).
-/
import LispModel.Read
import LispModel.Generated.Syntax
namespace LispModel.Tie.SyntaxReader
open LispModel.Generated.Syntax

/-- one token dispatch in read_form -/
theorem one_dispatch : readFormSwitches = 1 := by decide

/-- the reader macros: token ↦ (symbol, forms read after it) -/
def macros : List (String × String × Nat) :=
  readFormArms.filterMap fun (t, a) => match a with | .macro s n => some (t, s, n) | _ => none

theorem reader_macro_table :
    macros = [("'", "quote", 1), ("`", "quasiquote", 1), ("~", "unquote", 1), ("~@", "splice-unquote", 1),
              ("^", "with-meta", 2), ("@", "deref", 1)] := by decide

/-- the closers read_form rejects when they stand where a form is expected, with the model's message -/
def rejected : List (String × String) :=
  readFormArms.filterMap fun (t, a) => match a with | .unexpected m => some (t, m) | _ => none

theorem stray_closers_rejected :
    rejected = [")", "]", "}"].map (fun c => (c, Read.errMessage (.unexpected c))) := by decide

/-- which reader function each opening token enters -/
def openers : List (String × String) :=
  readFormArms.filterMap fun (t, a) => match a with | .opener f => some (t, f) | _ => none

theorem opener_table :
    openers = [("(", "read_list"), ("[", "read_vector"), ("{", "read_hash_map"), ("#{", "read_set"),
               ("«", "read_external")] := by decide

/-- no arm of the dispatch is of a shape the extractor does not know -/
theorem no_other_arms : readFormArms.all (fun (_, a) => a != Arm.other) = true := by decide

/-- every opener waits for the closer the model assumes -/
theorem closer_of_each_opener :
    listCalls = [("read_external", "«", "»"), ("read_vector", "[", "]"), ("read_hash_map", "{", "}"),
                 ("read_set", "#{", "}"), ("read_form", "(", ")")] := by decide

/-- the "got EOF" messages the reader can build are exactly the model's `eof` / `rawEof` messages … -/
theorem eof_messages_are_the_models :
    eofMessages = ([")", "]", "}"].map (fun c => Read.errMessage (.eof c))) ++
                  [Read.errMessage .rawEof, Read.errMessage (.eof "»")] := by decide

/-- … and exactly the messages on which the REPL keeps reading lines (same set; the REPL lists them in another order) -/
theorem repl_continuation_matches_reader :
    multiLineMessages.length = eofMessages.length ∧
    multiLineMessages.all (eofMessages.contains ·) = true ∧ eofMessages.all (multiLineMessages.contains ·) = true := by
  decide

/-- the model's `multiLine` answers true on exactly those messages -/
theorem model_multiLine_matches :
    multiLineMessages = [")", "]", "}", "»"].map (fun c => Read.errMessage (.eof c)) ++ [Read.errMessage .rawEof] ∧
    ([Read.RErr.eof ")", .eof "]", .eof "}", .eof "»", .rawEof].all Read.multiLine) = true ∧
    ([Read.RErr.unexpected ")", .trailing, .empty, .underflow, .badtoken, .oddmap].any Read.multiLine) = false := by
  decide

end LispModel.Tie.SyntaxReader

/-
  Tie lemmas for C09/C10: the synchronisation skeleton regenerated from
  /repo/lib/concurrent/concurrent.go (Generated/Sync.lean) IS the one the theorems are about
  (`Conc.prog`, the programs after docs/candidate-fixes.patch), every shared-field access is guarded
  and no lock is held across a call-out to `Apply`.
  On a tree whose source still has the baseline shape these lemmas do not compile: that is the
  broken proof obligation reported by bin/check C09 / C10.
-/
import LispModel.Conc
import LispModel.Generated.Sync
namespace LispModel.Tie.Sync
open LispModel.Conc

theorem program_tie : ∀ n, Generated.Sync.program n = prog n := by
  intro n; cases n <;> decide

theorem accesses_guarded : ∀ a ∈ Generated.Sync.accesses, a.guarded = true := by decide

theorem no_lock_across_callout : ∀ c ∈ Generated.Sync.callouts, c.2 = [] := by decide

end LispModel.Tie.Sync

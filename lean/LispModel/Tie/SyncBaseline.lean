/-
  The same facts compared with the BASELINE programs of Conc.lean: checks that the extractor and the
  baseline programs (about which the counterexamples of Proofs/ConcBaseline.lean are proved) describe
  the source as it stands.  Registered instead of Tie/Sync.lean only while the repair is not applied.
-/
import LispModel.Conc
import LispModel.Generated.Sync
namespace LispModel.Tie.SyncBaseline
open LispModel.Conc

theorem program_tie_baseline : ∀ n, Generated.Sync.program n = progBaseline n := by
  intro n; cases n <;> decide

/-- the unguarded accesses of the source as it stands: D14 (`LispPrint`) and D15 (all flag accesses) -/
theorem unguarded_accesses_baseline :
    (Generated.Sync.accesses.filter fun a => !a.guarded).map (fun a => (a.fn, a.loc, a.isWrite)) =
      [(.print, .val, false), (.body, .done, true), (.cancel, .done, false), (.cancel, .cancelled, true),
       (.cancel, .done, true), (.cancel, .cancelled, false), (.isDone, .done, false),
       (.isCancelled, .cancelled, false)] := by decide

/-- D13: `swap!` calls the update function with the atom's write lock held -/
theorem callout_under_write_lock_baseline :
    Generated.Sync.callouts = [(.swap, [.w .atomRW]), (.body, [])] := by decide

end LispModel.Tie.SyncBaseline

/-
  Tie lemmas about where the Go code can block (Generated/Waits.lean, by harness/facts_waits.go).
  The cancellation theorems of C07 / C10 are about POLLS: after the poll that sees the context ended, every step returns the
  timeout error.  They transfer to the Go code only if nothing on an evaluation's path waits WITHOUT watching that
  context.  Checked here, syntactically, on the current source: every channel operation / sleep / Wait() of the
  evaluator, core, concurrent, binder, types, env and reader files is either a clause of a `select` that also has a
  `<-ctx.Done()` clause, the re-put of the value just taken inside such a clause (one-slot channels), or belongs to the
  goroutine of a future's own body; and no function of these files makes up a context (`context.Background()`) in place
  of the caller's, except the reader's typed-value constructor call (`«type …»`, which runs a constructor, not a program).
  Engine `cancelwall` exhibits the late return when this breaks (a wait stuck behind foreign futures, a deref that
  ignores the deadline).
-/
import LispModel.Generated.Waits
namespace LispModel.Tie.Waits
open LispModel.Generated.Waits

/-- no wait that nothing can interrupt, and no select without a Done() clause -/
theorem every_wait_watches_a_context :
    waits.all (fun w => w.place != "bare" && w.place != "commNoCtx") = true := by decide

/-- the only operations after a taken clause are the two re-puts of `Future.Deref` (sends into the one-slot channel it has
    just emptied: they cannot block) -/
theorem re_puts_only_in_deref :
    (waits.filter (fun w => w.place == "afterComm")).map (fun w => (w.fn, w.op)) = [("Deref", "send"), ("Deref", "send")] := by
  decide

/-- the future's goroutine only SENDS its outcome (into one-slot channels nobody else fills): it never waits for a slot,
    a permit or another goroutine -/
theorem future_goroutine_only_delivers :
    (waits.filter (fun w => w.place == "go")).map (fun w => (w.fn, w.op)) = [("NewFuture", "send"), ("NewFuture", "send")] := by
  decide

/-- the waits an evaluation can sit in: `sleep` and `Future.Deref`, each next to `<-ctx.Done()` -/
theorem interruptible_waits :
    (waits.filter (fun w => w.place == "comm")).map (fun w => (w.fn, w.op)) =
      [("sleep", "recv"), ("Deref", "recv"), ("Deref", "recv")] := by decide

/-- nobody replaces the caller's context by a made-up one (but the reader's constructor call) -/
theorem no_made_up_context : madeUpContexts = [("reader/reader.go", "read_external")] := by decide

end LispModel.Tie.Waits

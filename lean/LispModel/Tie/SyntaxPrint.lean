/-
  Printer / reader escape tables (C06, C15): regenerated literals of printer.Pr_str `case string` and reader.unescape.
  (split of the Syntax tie by consumer; see Tie/SyntaxReader.lean for the overview)
-/
import LispModel.Generated.Syntax
namespace LispModel.Tie.SyntaxPrint
open LispModel.Generated.Syntax

/-- the printer: raw form doubles the raw quote; quoted form escapes backslash, then quote, then newline -/
theorem printer_replacements :
    printerReplaceChains = [[("¬", "¬¬")], [("\\", "\\\\"), ("\"", "\\\""), ("\n", "\\n")]] := by decide

/-- keyword marker test, then the raw-form guard `{"` … `}` -/
theorem printer_guards :
    printerGuards = [("HasPrefix", "ʞ"), ("HasPrefix", "{\""), ("HasSuffix", "}")] := by decide

/-- the reader undoes exactly what the printer's quoted form does: every escape `x ↦ \y` of the printer has the
    entry `y ↦ x` in `unescape`, and `unescape` has no further entries -/
theorem printer_reader_escapes_inverse :
    unescapePairs = [("\\", "\\"), ("\"", "\""), ("n", "\n")] ∧
    ((printerReplaceChains.getD 1 []).map (fun (x, y) => (y, x)) =
      unescapePairs.map (fun (a, b) => ("\\" ++ a, b))) = true := by decide

end LispModel.Tie.SyntaxPrint

/-
  Tie lemmas for C11: the synchronisation skeleton regenerated from /repo/env/env.go (and mal.go) IS
  the one the theorems of Props/C11.lean are about.
-/
import LispModel.ConcEnv
import LispModel.Generated.EnvSync
namespace LispModel.Tie.EnvSync
open LispModel.ConcEnv

theorem program_tie : ∀ n, Generated.EnvSync.program n = prog n := by
  intro n; cases n <;> decide

/-- every access to a scope's `data` map is under that scope's lock (writes under the write lock), or
    goes to the scope created in that very function and not yet returned to anybody -/
theorem accesses_guarded : ∀ a ∈ Generated.EnvSync.accesses, a.guarded = true := by decide

/-- the unlocked `*NT` helpers are called from inside env.go only (under the caller's lock) -/
theorem nt_helpers_internal : Generated.EnvSync.ntExternalCalls = [] := by decide

/-- every assignment to a package-level variable of mal.go sits under `if Stepper != nil` or under a
    flag that is only ever set there; and only `skip`, `outing1`, `outing2` are assigned at all -/
theorem global_assignments_guarded :
    ∀ a ∈ Generated.EnvSync.globalAssignments,
      a.2.any isStepperGuard = true ∧ (a.1 = "skip" ∨ a.1 = "outing1" ∨ a.1 = "outing2") := by decide

end LispModel.Tie.EnvSync

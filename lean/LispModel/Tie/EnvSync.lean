/-
  Tie lemmas for C11: the synchronisation skeleton regenerated from /repo/env/env.go (and mal.go) IS
  the one the theorems of Props/C11.lean are about.
-/
import LispModel.ConcEnv
import LispModel.Generated.EnvSync
import LispModel.Proofs.ConcEnvGlobals
namespace LispModel.Tie.EnvSync
open LispModel.ConcEnv

theorem program_tie : ∀ n, Generated.EnvSync.program n = prog n := by
  intro n; cases n <;> decide

/-- every access to a scope's `data` map is under that scope's lock (writes under the write lock), or
    goes to the scope created in that very function and not yet returned to anybody -/
theorem accesses_guarded : ∀ a ∈ Generated.EnvSync.accesses, a.guarded = true := by decide

/-- the unlocked `*NT` helpers are called from inside env.go only (under the caller's lock) -/
theorem nt_helpers_internal : Generated.EnvSync.ntExternalCalls = [] := by decide

/-- every assignment to a package-level variable of mal.go sits under `if Stepper != nil` or under a
    flag that is only ever set there; and only `skip`, `outing1`, `outing2` are assigned at all -/
theorem global_assignments_guarded :
    ∀ a ∈ Generated.EnvSync.globalAssignments,
      a.2.any isStepperGuard = true ∧ (a.1 = "skip" ∨ a.1 = "outing1" ∨ a.1 = "outing2") := by decide

/-- hence, in the source as it is: with no Stepper installed and the flags at their zero values, no
    sequence of visits to the assignment sites of mal.go changes `skip`, `outing1` or `outing2` -/
theorem stepper_globals_untouched_in_source (G : Globals)
    (h0 : G.stepper = false) (h1 : G.outing1 = false) (h2 : G.outing2 = false)
    (visits : List ((String × List String) × Bool × (String → Bool)))
    (hv : ∀ x ∈ visits, x.1 ∈ Generated.EnvSync.globalAssignments) :
    visits.foldl (fun G x => fire G x.1 x.2.1 x.2.2) G = G :=
  Proofs.ConcEnv.globals_untouched _ (fun a ha => (global_assignments_guarded a ha).1) G h0 h1 h2 visits hv

end LispModel.Tie.EnvSync

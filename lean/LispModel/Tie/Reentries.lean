/-
  Tie lemmas about where the evaluator calls itself (Generated/Reentries.lean, by harness/facts_reentries.go).
  The tail-call theorems of C08 are about a model in which a tail position CONTINUES the `for` loop of `EVAL`: only the value
  of `def` / `defmacro`, `let` initialisers and the non-last body forms (`do`), the test of `if`, operator and operands
  (`eval_ast`), macro functions (`macroexpand` → `Apply`), the bodies of `try` / `catch` / `finally` and the call of a Go
  builtin (`.Fn`) nest.  Checked here on the current source, call by call: the evaluator re-enters itself at exactly these
  22 places; the only `return EVAL(…)` — a tail position that nests — is the one under `if Stepper != nil` (TCO is off under
  a stepper, property C18 / C08 say so), the other returned calls are leaves (`eval_ast` of a non-list, `quasiquote` /
  `macroexpand` results, which are data) and the `try` arm, where nesting is the semantics; the application arm evaluates
  operator and operands and calls Go builtins, and never calls `EVAL` or `Apply` on the function body.
  A fast path, a guard or a wrapper that evaluates a body through a nested `EVAL` / `Apply` adds a row: the lemma breaks and
  the engines (`tail`, `tailconc`, `taillong`, `afterdebug`) look for the loop that grows.
-/
import LispModel.Generated.Reentries
namespace LispModel.Tie.Reentries
open LispModel.Generated.Reentries

/-- the whole table -/
theorem reentries_are_exactly :
    reentries = [
      ⟨"EVAL", "default", "eval_ast", true, false, ""⟩,
      ⟨"EVAL", "-", "macroexpand", false, false, ""⟩,
      ⟨"EVAL", "-", "eval_ast", true, false, "!Q[List](ast)"⟩,
      ⟨"EVAL", "def", "EVAL", false, false, ""⟩,
      ⟨"EVAL", "let", "EVAL", false, false, ""⟩,
      ⟨"EVAL", "let", "do", false, false, ""⟩,
      ⟨"EVAL", "quasiquoteexpand", "quasiquote", true, false, ""⟩,
      ⟨"EVAL", "quasiquote", "quasiquote", false, false, ""⟩,
      ⟨"EVAL", "defmacro", "EVAL", false, false, ""⟩,
      ⟨"EVAL", "macroexpand", "macroexpand", true, false, ""⟩,
      ⟨"EVAL", "try", "do", true, true, "ok"⟩,
      ⟨"EVAL", "try", "do", true, true, ""⟩,
      ⟨"EVAL", "try", "do", false, true, ""⟩,
      ⟨"EVAL", "try", "do", true, false, "catchDo != nil"⟩,
      ⟨"EVAL", "do", "do", false, false, ""⟩,
      ⟨"EVAL", "if", "EVAL", false, false, ""⟩,
      ⟨"EVAL", "default", "eval_ast", false, false, ""⟩,
      ⟨"EVAL", "default", ".Fn", false, false, ""⟩,
      ⟨"EVAL", "-", "EVAL", true, false, "Stepper != nil"⟩,
      ⟨"Apply", "-", ".Eval", true, false, ""⟩,
      ⟨"Apply", "-", ".Fn", true, false, ""⟩] := by decide

/-- the only tail position of EVAL that nests a host frame is the stepper's -/
theorem only_the_stepper_returns_EVAL :
    (reentries.filter (fun r => r.fn == "EVAL" && r.returned && (r.callee == "EVAL" || r.callee == "Apply" || r.callee == ".Eval"))).map (·.guard) =
      ["Stepper != nil"] := by decide

/-- the application arm (and the tail arms `let`, `do`, `if`) never evaluate a function body or a branch by a nested call:
    `let` nests its initialisers and non-last forms, `if` its test, `do` its non-last forms, the application arm operator and
    operands and Go builtins -/
theorem tail_arms_nest_only_their_operands :
    (reentries.filter (fun r => r.arm == "default" && r.fn == "EVAL")).map (·.callee) = ["eval_ast", "eval_ast", ".Fn"] ∧
    (reentries.filter (fun r => r.arm == "let")).map (·.callee) = ["EVAL", "do"] ∧
    (reentries.filter (fun r => r.arm == "if")).map (·.callee) = ["EVAL"] ∧
    (reentries.filter (fun r => r.arm == "do")).map (·.callee) = ["do"] ∧
    (reentries.filter (fun r => r.arm == "let" || r.arm == "if" || r.arm == "do")).all (fun r => !r.returned) = true := by decide

/-- EVAL never calls `Apply` itself (macro functions are applied by `macroexpand`, builtins call back through `Apply`) -/
theorem eval_never_applies : (reentries.filter (fun r => r.fn == "EVAL" && r.callee == "Apply")).length = 0 := by decide

end LispModel.Tie.Reentries

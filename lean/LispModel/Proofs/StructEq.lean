/-
  Helper lemmas of C14 (Props/C14.lean): `equalQ` / `structEqB` decide the structural equality
  `SEq` on data values, and `SEq` is an equivalence relation.

  Core Lean only.  `Val` and `SEq` are nested inductives; the statements about `SEq` alone
  (symmetry, transitivity) go by strong induction on `sizeOf` of the left value, the statements
  with a `Data` hypothesis by induction on the `Data` derivation.
-/
import LispModel.Equal
import LispModel.Spec.StructEq
namespace LispModel.Proofs
open LispModel

/-! ### `Forall2` and `OptRel`, relative to the members of the left argument -/

theorem Forall2_refl {α : Type} {R : α → α → Prop} (xs : List α) (h : ∀ x ∈ xs, R x x) :
    Forall2 R xs xs := by
  induction xs with
  | nil => exact .nil
  | cons x xs ih =>
    exact .cons (h x (List.mem_cons_self ..)) (ih (fun y hy => h y (List.mem_cons_of_mem _ hy)))

theorem Forall2_symm_mem {α : Type} {R S : α → α → Prop} {xs ys : List α} (h : Forall2 R xs ys)
    (f : ∀ x ∈ xs, ∀ y, R x y → S y x) : Forall2 S ys xs := by
  induction h with
  | nil => exact .nil
  | cons hab _ ih =>
    exact .cons (f _ (List.mem_cons_self ..) _ hab)
      (ih (fun x hx y hxy => f x (List.mem_cons_of_mem _ hx) y hxy))

theorem Forall2_trans_mem {α : Type} {R R' S : α → α → Prop} {xs ys zs : List α}
    (h1 : Forall2 R xs ys) (h2 : Forall2 R' ys zs)
    (f : ∀ x ∈ xs, ∀ y z, R x y → R' y z → S x z) : Forall2 S xs zs := by
  induction h1 generalizing zs with
  | nil => cases h2; exact .nil
  | cons hab _ ih =>
    cases h2 with
    | cons hbc hr =>
      exact .cons (f _ (List.mem_cons_self ..) _ _ hab hbc)
        (ih hr (fun x hx y z hxy hyz => f x (List.mem_cons_of_mem _ hx) y z hxy hyz))

theorem OptRel_some_left {α : Type} {R : α → α → Prop} {a : α} {o : Option α} :
    OptRel R (some a) o ↔ ∃ b, o = some b ∧ R a b := by
  constructor
  · intro h; cases h with | some h => exact ⟨_, rfl, h⟩
  · rintro ⟨b, rfl, h⟩; exact .some h

theorem OptRel_none_left {α : Type} {R : α → α → Prop} {o : Option α} :
    OptRel R none o ↔ o = none := by
  constructor
  · intro h; cases h; rfl
  · rintro rfl; exact .none

theorem OptRel_some_right {α : Type} {R : α → α → Prop} {b : α} {o : Option α} :
    OptRel R o (some b) ↔ ∃ a, o = some a ∧ R a b := by
  constructor
  · intro h; cases h with | some h => exact ⟨_, rfl, h⟩
  · rintro ⟨a, rfl, h⟩; exact .some h

theorem OptRel_isSome {α : Type} {R : α → α → Prop} {o1 o2 : Option α} (h : OptRel R o1 o2) :
    o1.isSome = o2.isSome := by
  cases h <;> rfl

theorem OptRel_symm_mem {α : Type} {R S : α → α → Prop} {o1 o2 : Option α} (h : OptRel R o1 o2)
    (f : ∀ a, o1 = some a → ∀ b, R a b → S b a) : OptRel S o2 o1 := by
  cases h with
  | none => exact .none
  | some h => exact .some (f _ rfl _ h)

theorem OptRel_trans_mem {α : Type} {R R' S : α → α → Prop} {o1 o2 o3 : Option α}
    (h1 : OptRel R o1 o2) (h2 : OptRel R' o2 o3)
    (f : ∀ a, o1 = some a → ∀ b c, R a b → R' b c → S a c) : OptRel S o1 o3 := by
  cases h1 with
  | none => cases h2; exact .none
  | some h => cases h2 with | some h' => exact .some (f _ rfl _ _ h h')

/-! ### association lists -/

theorem alookup_mem {α} {k : String} {v : α} {m : List (String × α)} (h : alookup k m = some v) :
    (k, v) ∈ m := by
  induction m with
  | nil => simp [alookup] at h
  | cons kv r ih =>
    obtain ⟨k', v'⟩ := kv
    simp only [alookup] at h
    split at h
    · next hk => cases h; subst hk; exact List.mem_cons_self ..
    · exact List.mem_cons_of_mem _ (ih h)

theorem alookup_isSome_iff {α} {k : String} {m : List (String × α)} :
    (alookup k m).isSome = true ↔ k ∈ akeys m := by
  induction m with
  | nil => simp [alookup, akeys]
  | cons kv r ih =>
    obtain ⟨k', v'⟩ := kv
    simp only [alookup, akeys, List.map_cons, List.mem_cons]
    simp only [akeys] at ih
    split
    · next hk => simp [hk]
    · next hk =>
      rw [ih]
      constructor
      · exact Or.inr
      · rintro (h | h)
        · exact absurd h.symm hk
        · exact h

theorem alookup_eq_none_iff {α} {k : String} {m : List (String × α)} :
    alookup k m = none ↔ k ∉ akeys m := by
  rw [← alookup_isSome_iff]
  cases alookup k m <;> simp

theorem mem_akeys_of_mem {α} {k : String} {v : α} {m : List (String × α)} (h : (k, v) ∈ m) :
    k ∈ akeys m := List.mem_map.2 ⟨(k, v), h, rfl⟩

theorem alookup_of_mem {α} {k : String} {v : α} {m : List (String × α)} (hn : (akeys m).Nodup)
    (h : (k, v) ∈ m) : alookup k m = some v := by
  induction m with
  | nil => cases h
  | cons kv r ih =>
    obtain ⟨k', v'⟩ := kv
    simp only [akeys, List.map_cons, List.nodup_cons] at hn
    simp only [alookup]
    rcases List.mem_cons.1 h with h | h
    · cases h; simp
    · have hne : k' ≠ k := by
        intro e; subst e; exact hn.1 (mem_akeys_of_mem h)
      simp only [hne, if_false]
      exact ih hn.2 h

/-- pigeonhole: a duplicate-free list included in a list of the same length covers it -/
theorem subset_of_nodup_length_eq {α} [BEq α] [LawfulBEq α] {l₁ l₂ : List α} (h₁ : l₁.Nodup)
    (hsub : l₁ ⊆ l₂) (hlen : l₁.length = l₂.length) : l₂ ⊆ l₁ := by
  induction l₁ generalizing l₂ with
  | nil =>
    have : l₂ = [] := List.length_eq_zero_iff.1 hlen.symm
    subst this; exact fun _ h => h
  | cons a t ih =>
    rw [List.nodup_cons] at h₁
    have ha : a ∈ l₂ := hsub (List.mem_cons_self ..)
    have htsub : t ⊆ l₂.erase a := by
      intro x hx
      have hxa : x ≠ a := fun h => h₁.1 (h ▸ hx)
      exact (List.mem_erase_of_ne hxa).2 (hsub (List.mem_cons_of_mem _ hx))
    have hlen' : t.length = (l₂.erase a).length := by
      rw [List.length_erase]; simp only [ha, if_true]
      simp only [List.length_cons] at hlen; omega
    have hih := ih h₁.2 htsub hlen'
    intro x hx
    by_cases hxa : x = a
    · subst hxa; exact List.mem_cons_self ..
    · exact List.mem_cons_of_mem _ (hih ((List.mem_erase_of_ne hxa).2 hx))

/-! ### sizes -/

theorem sizeOf_seqOf {a : Val} {xs : List Val} (h : a.seqOf? = some xs) : sizeOf xs < sizeOf a := by
  cases a <;> simp [Val.seqOf?] at h
  all_goals (subst h; simp only [Val.list.sizeOf_spec, Val.vec.sizeOf_spec]; omega)

theorem sizeOf_alookup {k : String} {v : Val} {m : List (String × Val)} (h : alookup k m = some v) :
    sizeOf v < sizeOf (Val.map m) := by
  have h1 := List.sizeOf_lt_of_mem (alookup_mem h)
  simp only [Prod.mk.sizeOf_spec] at h1
  simp only [Val.map.sizeOf_spec]
  omega

/-! ### inversion of `SEq` by the shape of the left value -/

theorem SEq_nil_left {b : Val} : SEq .nil b ↔ b = .nil := by
  constructor
  · intro h
    cases h with
    | nil => rfl
    | seq h1 _ _ => simp [Val.seqOf?] at h1
  · rintro rfl; exact .nil

theorem SEq_bool_left {x : Bool} {b : Val} : SEq (.bool x) b ↔ b = .bool x := by
  constructor
  · intro h
    cases h with
    | bool => rfl
    | seq h1 _ _ => simp [Val.seqOf?] at h1
  · rintro rfl; exact .bool x

theorem SEq_int_left {x : Int} {b : Val} : SEq (.int x) b ↔ b = .int x := by
  constructor
  · intro h
    cases h with
    | int => rfl
    | seq h1 _ _ => simp [Val.seqOf?] at h1
  · rintro rfl; exact .int x

theorem SEq_str_left {x : String} {b : Val} : SEq (.str x) b ↔ b = .str x := by
  constructor
  · intro h
    cases h with
    | str => rfl
    | seq h1 _ _ => simp [Val.seqOf?] at h1
  · rintro rfl; exact .str x

theorem SEq_sym_left {x : String} {p : Option Pos} {b : Val} :
    SEq (.sym x p) b ↔ ∃ q, b = .sym x q := by
  constructor
  · intro h
    cases h with
    | sym _ _ q => exact ⟨q, rfl⟩
    | seq h1 _ _ => simp [Val.seqOf?] at h1
  · rintro ⟨q, rfl⟩; exact .sym x p q

theorem SEq_seq_left {a b : Val} {xs : List Val} (ha : a.seqOf? = some xs) :
    SEq a b ↔ ∃ ys, b.seqOf? = some ys ∧ Forall2 SEq xs ys := by
  constructor
  · intro h
    cases h with
    | seq h1 h2 h3 =>
      rw [ha] at h1; cases h1
      exact ⟨_, h2, h3⟩
    | _ => simp [Val.seqOf?] at ha
  · rintro ⟨ys, hb, h⟩; exact .seq ha hb h

theorem SEq_map_left {m1 : List (String × Val)} {b : Val} :
    SEq (.map m1) b ↔ ∃ m2, b = .map m2 ∧ ∀ k, OptRel SEq (alookup k m1) (alookup k m2) := by
  constructor
  · intro h
    cases h with
    | map h => exact ⟨_, rfl, h⟩
    | seq h1 _ _ => simp [Val.seqOf?] at h1
  · rintro ⟨m2, rfl, h⟩; exact .map h

theorem SEq_set_left {s1 : List String} {b : Val} :
    SEq (.set s1) b ↔ ∃ s2, b = .set s2 ∧ ∀ k, k ∈ s1 ↔ k ∈ s2 := by
  constructor
  · intro h
    cases h with
    | set h => exact ⟨_, rfl, h⟩
    | seq h1 _ _ => simp [Val.seqOf?] at h1
  · rintro ⟨s2, rfl, h⟩; exact .set h

/-! ### `SEq` is an equivalence relation -/

theorem SEq_refl (a : Val) (ha : Data a) : SEq a a := by
  induction ha with
  | nil => exact .nil
  | bool b => exact .bool b
  | int i => exact .int i
  | str s => exact .str s
  | sym s p => exact .sym s p p
  | list _ ih => exact .seq rfl rfl (Forall2_refl _ ih)
  | vec _ ih => exact .seq rfl rfl (Forall2_refl _ ih)
  | @map m hn _ ih =>
    refine .map (fun k => ?_)
    cases hk : alookup k m with
    | none => exact .none
    | some v => exact .some (ih (k, v) (alookup_mem hk))
  | set _ => exact .set (fun _ => Iff.rfl)

theorem SEq_symm_aux : ∀ (n : Nat) (a b : Val), sizeOf a < n → SEq a b → SEq b a := by
  intro n
  induction n with
  | zero => intro a b h; omega
  | succ n ih =>
    intro a b hsz h
    cases h with
    | nil => exact .nil
    | bool b => exact .bool b
    | int i => exact .int i
    | str s => exact .str s
    | sym s p q => exact .sym s q p
    | seq h1 h2 h3 =>
      refine .seq h2 h1 (Forall2_symm_mem h3 (fun x hx y hxy => ih x y ?_ hxy))
      have := List.sizeOf_lt_of_mem hx
      have := sizeOf_seqOf h1
      omega
    | map h =>
      refine .map (fun k => OptRel_symm_mem (h k) (fun v hv w hvw => ih v w ?_ hvw))
      have := sizeOf_alookup hv
      omega
    | set h => exact .set (fun k => (h k).symm)

theorem SEq_symm {a b : Val} (h : SEq a b) : SEq b a :=
  SEq_symm_aux (sizeOf a + 1) a b (Nat.lt_succ_self _) h

theorem SEq_trans_aux :
    ∀ (n : Nat) (a b c : Val), sizeOf a < n → SEq a b → SEq b c → SEq a c := by
  intro n
  induction n with
  | zero => intro a b c h; omega
  | succ n ih =>
    intro a b c hsz h h'
    cases h with
    | nil => exact h'
    | bool b => exact h'
    | int i => exact h'
    | str s => exact h'
    | sym s p q =>
      obtain ⟨r, rfl⟩ := SEq_sym_left.1 h'
      exact .sym s p r
    | seq h1 h2 h3 =>
      obtain ⟨zs, hc, h4⟩ := (SEq_seq_left h2).1 h'
      refine .seq h1 hc (Forall2_trans_mem h3 h4 (fun x hx y z hxy hyz => ih x y z ?_ hxy hyz))
      have := List.sizeOf_lt_of_mem hx
      have := sizeOf_seqOf h1
      omega
    | map h =>
      obtain ⟨m3, rfl, h4⟩ := SEq_map_left.1 h'
      refine .map (fun k => OptRel_trans_mem (h k) (h4 k)
        (fun v hv w u hvw hwu => ih v w u ?_ hvw hwu))
      have := sizeOf_alookup hv
      omega
    | set h =>
      obtain ⟨s3, rfl, h4⟩ := SEq_set_left.1 h'
      exact .set (fun k => (h k).trans (h4 k))

theorem SEq_trans {a b c : Val} (h1 : SEq a b) (h2 : SEq b c) : SEq a c :=
  SEq_trans_aux (sizeOf a + 1) a b c (Nat.lt_succ_self _) h1 h2

/-! ### inversion of `equalQ` by the shape of the left value -/

theorem equalQ_nil_left {b : Val} : equalQ .nil b = true ↔ b = .nil := by
  cases b <;> simp [equalQ]

theorem equalQ_bool_left {x : Bool} {b : Val} : equalQ (.bool x) b = true ↔ b = .bool x := by
  cases b <;> simp [equalQ] <;> exact eq_comm

theorem equalQ_int_left {x : Int} {b : Val} : equalQ (.int x) b = true ↔ b = .int x := by
  cases b <;> simp [equalQ] <;> exact eq_comm

theorem equalQ_str_left {x : String} {b : Val} : equalQ (.str x) b = true ↔ b = .str x := by
  cases b <;> simp [equalQ] <;> exact eq_comm

theorem equalQ_sym_left {x : String} {p : Option Pos} {b : Val} :
    equalQ (.sym x p) b = true ↔ ∃ q, b = .sym x q := by
  cases b <;> simp [equalQ] <;> exact eq_comm

theorem equalQ_seq_left {a b : Val} {xs : List Val} (ha : a.seqOf? = some xs) :
    equalQ a b = true ↔ ∃ ys, b.seqOf? = some ys ∧ equalQList xs ys = true := by
  cases a <;> simp [Val.seqOf?] at ha <;> subst ha <;> cases b <;> simp [equalQ, Val.seqOf?]

theorem equalQ_map_left {m1 : List (String × Val)} {b : Val} :
    equalQ (.map m1) b = true ↔
      ∃ m2, b = .map m2 ∧ m1.length = m2.length ∧ equalQMap m1 m2 = true := by
  cases b <;> simp [equalQ]

theorem equalQ_set_left {s1 : List String} {b : Val} :
    equalQ (.set s1) b = true ↔
      ∃ s2, b = .set s2 ∧ s1.length = s2.length ∧ ∀ k ∈ s1, k ∈ s2 := by
  cases b <;> simp [equalQ]

theorem equalQList_iff {xs ys : List Val}
    (ih : ∀ x ∈ xs, ∀ y ∈ ys, (equalQ x y = true ↔ SEq x y)) :
    equalQList xs ys = true ↔ Forall2 SEq xs ys := by
  induction xs generalizing ys with
  | nil =>
    cases ys with
    | nil => simp [equalQList]; exact .nil
    | cons y ys => simp [equalQList]; intro h; cases h
  | cons x xs ihx =>
    cases ys with
    | nil => simp [equalQList]; intro h; cases h
    | cons y ys =>
      simp only [equalQList, Bool.and_eq_true]
      rw [ih x (List.mem_cons_self ..) y (List.mem_cons_self ..),
        ihx (fun x' hx y' hy => ih x' (List.mem_cons_of_mem _ hx) y' (List.mem_cons_of_mem _ hy))]
      constructor
      · rintro ⟨h1, h2⟩; exact .cons h1 h2
      · intro h; cases h with | cons h1 h2 => exact ⟨h1, h2⟩

theorem equalQMap_iff {m1 m2 : List (String × Val)}
    (ih : ∀ kv ∈ m1, ∀ w, (∃ k, (k, w) ∈ m2) → (equalQ kv.2 w = true ↔ SEq kv.2 w)) :
    equalQMap m1 m2 = true ↔ ∀ kv ∈ m1, ∃ w, alookup kv.1 m2 = some w ∧ SEq kv.2 w := by
  induction m1 with
  | nil => simp [equalQMap]
  | cons kv r ihr =>
    obtain ⟨k, v⟩ := kv
    simp only [equalQMap, Bool.and_eq_true, List.forall_mem_cons]
    rw [ihr (fun kv hkv => ih kv (List.mem_cons_of_mem _ hkv))]
    refine and_congr ?_ Iff.rfl
    cases hk : alookup k m2 with
    | none => simp
    | some w =>
      simp only [Option.some.injEq, exists_eq_left']
      exact ih (k, v) (List.mem_cons_self ..) w ⟨k, alookup_mem hk⟩

/-- the map case: same length and the left entries found on the right, against equal lookups -/
theorem map_core {m1 m2 : List (String × Val)} (hn1 : (akeys m1).Nodup) (hn2 : (akeys m2).Nodup) :
    (m1.length = m2.length ∧ ∀ kv ∈ m1, ∃ w, alookup kv.1 m2 = some w ∧ SEq kv.2 w) ↔
      ∀ k, OptRel SEq (alookup k m1) (alookup k m2) := by
  constructor
  · rintro ⟨hlen, h⟩ k
    have hsub : akeys m1 ⊆ akeys m2 := by
      intro k hk
      obtain ⟨kv, hkv, rfl⟩ := List.mem_map.1 hk
      obtain ⟨w, hw, _⟩ := h kv hkv
      exact mem_akeys_of_mem (alookup_mem hw)
    have hsub' : akeys m2 ⊆ akeys m1 :=
      subset_of_nodup_length_eq hn1 hsub (by simp [akeys, hlen])
    cases hk : alookup k m1 with
    | some v =>
      obtain ⟨w, hw, hvw⟩ := h (k, v) (alookup_mem hk)
      exact OptRel_some_left.2 ⟨w, hw, hvw⟩
    | none =>
      refine OptRel_none_left.2 (alookup_eq_none_iff.2 (fun hk2 => ?_))
      exact alookup_eq_none_iff.1 hk (hsub' hk2)
  · intro h
    constructor
    · have hp : (akeys m1).Perm (akeys m2) := by
        refine (List.perm_ext_iff_of_nodup hn1 hn2).2 (fun k => ?_)
        rw [← alookup_isSome_iff, ← alookup_isSome_iff, OptRel_isSome (h k)]
      simpa [akeys] using hp.length_eq
    · rintro ⟨k, v⟩ hkv
      have := h k
      rw [alookup_of_mem hn1 hkv] at this
      exact OptRel_some_left.1 this

theorem set_core {s1 s2 : List String} (h1 : s1.Nodup) (h2 : s2.Nodup) :
    (s1.length = s2.length ∧ ∀ k ∈ s1, k ∈ s2) ↔ ∀ k, k ∈ s1 ↔ k ∈ s2 := by
  constructor
  · rintro ⟨hlen, h⟩ k
    exact ⟨h k, fun hk => subset_of_nodup_length_eq h1 h hlen hk⟩
  · intro h
    exact ⟨((List.perm_ext_iff_of_nodup h1 h2).2 h).length_eq, fun k hk => (h k).1 hk⟩

/-! ### `equalQ` decides `SEq` on data -/

theorem Data_of_seqOf {b : Val} {ys : List Val} (hb : Data b) (h : b.seqOf? = some ys) :
    ∀ y ∈ ys, Data y := by
  cases hb <;> simp [Val.seqOf?] at h <;> subst h <;> assumption

theorem equalQ_seq_aux {a b : Val} {xs : List Val} (ha : a.seqOf? = some xs) (hb : Data b)
    (ih : ∀ x ∈ xs, ∀ (b : Val), Data b → (equalQ x b = true ↔ SEq x b)) :
    equalQ a b = true ↔ SEq a b := by
  rw [equalQ_seq_left ha, SEq_seq_left ha]
  constructor
  · rintro ⟨ys, hys, h⟩
    exact ⟨ys, hys, (equalQList_iff (fun x hx y hy => ih x hx y (Data_of_seqOf hb hys y hy))).1 h⟩
  · rintro ⟨ys, hys, h⟩
    exact ⟨ys, hys, (equalQList_iff (fun x hx y hy => ih x hx y (Data_of_seqOf hb hys y hy))).2 h⟩

theorem equalQ_iff_SEq (a b : Val) (ha : Data a) (hb : Data b) : equalQ a b = true ↔ SEq a b := by
  induction ha generalizing b with
  | nil => rw [equalQ_nil_left, SEq_nil_left]
  | bool x => rw [equalQ_bool_left, SEq_bool_left]
  | int x => rw [equalQ_int_left, SEq_int_left]
  | str x => rw [equalQ_str_left, SEq_str_left]
  | sym x p => rw [equalQ_sym_left, SEq_sym_left]
  | list _ ih => exact equalQ_seq_aux rfl hb ih
  | vec _ ih => exact equalQ_seq_aux rfl hb ih
  | @map m1 hn1 _ ih =>
    rw [equalQ_map_left, SEq_map_left]
    refine exists_congr (fun m2 => and_congr_right (fun hm2 => ?_))
    subst hm2
    cases hb with
    | map hn2 hd2 =>
      rw [← map_core hn1 hn2]
      refine and_congr_right (fun _ => ?_)
      exact equalQMap_iff (fun kv hkv w hw => by
        obtain ⟨k, hk⟩ := hw
        exact ih kv hkv w (hd2 (k, w) hk))
  | @set s1 hn1 =>
    rw [equalQ_set_left, SEq_set_left]
    refine exists_congr (fun s2 => and_congr_right (fun hs2 => ?_))
    subst hs2
    cases hb with
    | set hn2 => exact set_core hn1 hn2

/-! ### the oracle `structEqB` is `equalQ` on data -/

theorem structEqBList_eq {xs ys : List Val} (ih : ∀ x ∈ xs, ∀ y, structEqB x y = equalQ x y) :
    structEqBList xs ys = equalQList xs ys := by
  induction xs generalizing ys with
  | nil => cases ys <;> simp [structEqBList, equalQList]
  | cons x xs ihx =>
    cases ys with
    | nil => simp [structEqBList, equalQList]
    | cons y ys =>
      simp only [structEqBList, equalQList]
      rw [ih x (List.mem_cons_self ..), ihx (fun x' hx => ih x' (List.mem_cons_of_mem _ hx))]

theorem structEqBMap_eq {m1 m2 : List (String × Val)}
    (ih : ∀ kv ∈ m1, ∀ w, structEqB kv.2 w = equalQ kv.2 w) :
    structEqBMap m1 m2 = equalQMap m1 m2 := by
  induction m1 with
  | nil => simp [structEqBMap, equalQMap]
  | cons kv r ihr =>
    obtain ⟨k, v⟩ := kv
    simp only [structEqBMap, equalQMap]
    rw [ihr (fun kv hkv => ih kv (List.mem_cons_of_mem _ hkv))]
    cases alookup k m2 with
    | none => rfl
    | some w => simp only; rw [ih (k, v) (List.mem_cons_self ..)]

theorem structEqB_eq_equalQ (a b : Val) (ha : Data a) : structEqB a b = equalQ a b := by
  induction ha generalizing b with
  | nil => cases b <;> simp [structEqB, equalQ]
  | bool x => cases b <;> simp [structEqB, equalQ]
  | int x => cases b <;> simp [structEqB, equalQ]
  | str x => cases b <;> simp [structEqB, equalQ]
  | sym x p => cases b <;> simp [structEqB, equalQ]
  | list _ ih =>
    cases b <;> simp only [structEqB, equalQ] <;> exact structEqBList_eq ih
  | vec _ ih =>
    cases b <;> simp only [structEqB, equalQ] <;> exact structEqBList_eq ih
  | map _ _ ih =>
    cases b <;> simp only [structEqB, equalQ]
    rw [structEqBMap_eq ih]
  | set _ => cases b <;> simp [structEqB, equalQ]

theorem structEqB_iff_SEq (a b : Val) (ha : Data a) (hb : Data b) :
    structEqB a b = true ↔ SEq a b := by
  rw [structEqB_eq_equalQ a b ha]; exact equalQ_iff_SEq a b ha hb

/-! ### maps and sets -/

theorem maps_equal_iff (m1 m2 : List (String × Val)) (h1 : Data (.map m1)) (h2 : Data (.map m2)) :
    equalQ (.map m1) (.map m2) = true ↔
      (∀ k, (alookup k m1).isSome = (alookup k m2).isSome) ∧
      (∀ k v w, alookup k m1 = some v → alookup k m2 = some w → SEq v w) := by
  rw [equalQ_iff_SEq _ _ h1 h2, SEq_map_left]
  constructor
  · rintro ⟨m2', hm, h⟩
    cases hm
    refine ⟨fun k => OptRel_isSome (h k), fun k v w hv hw => ?_⟩
    have := h k
    rw [hv, hw] at this
    cases this with | some h => exact h
  · rintro ⟨hs, hv⟩
    refine ⟨m2, rfl, fun k => ?_⟩
    have hsk := hs k
    cases hk1 : alookup k m1 with
    | none =>
      rw [hk1] at hsk
      cases hk2 : alookup k m2 with
      | none => exact .none
      | some w => rw [hk2] at hsk; cases hsk
    | some v =>
      rw [hk1] at hsk
      cases hk2 : alookup k m2 with
      | none => rw [hk2] at hsk; cases hsk
      | some w => exact .some (hv k v w hk1 hk2)

theorem alookup_perm {α} {m1 m2 : List (String × α)} (hn : (akeys m1).Nodup) (hp : m1.Perm m2)
    (k : String) : alookup k m1 = alookup k m2 := by
  have hpk : (akeys m1).Perm (akeys m2) := hp.map _
  have hn2 : (akeys m2).Nodup := hpk.nodup hn
  cases hk : alookup k m1 with
  | some v => exact (alookup_of_mem hn2 (hp.mem_iff.1 (alookup_mem hk))).symm
  | none =>
    symm
    rw [alookup_eq_none_iff] at hk ⊢
    exact fun h => hk (hpk.mem_iff.2 h)

theorem map_perm_equal (m1 m2 : List (String × Val)) (h1 : Data (.map m1)) (hp : m1.Perm m2) :
    equalQ (.map m1) (.map m2) = true := by
  cases h1 with
  | map hn hd =>
    have hpk : (akeys m1).Perm (akeys m2) := hp.map _
    have h2 : Data (.map m2) := .map (hpk.nodup hn) (fun kv hkv => hd kv (hp.mem_iff.2 hkv))
    rw [equalQ_iff_SEq _ _ (.map hn hd) h2]
    refine .map (fun k => ?_)
    rw [← alookup_perm hn hp k]
    cases hk : alookup k m1 with
    | none => exact .none
    | some v => exact .some (SEq_refl v (hd (k, v) (alookup_mem hk)))

theorem sets_equal_iff (s1 s2 : List String) (h1 : s1.Nodup) (h2 : s2.Nodup) :
    equalQ (.set s1) (.set s2) = true ↔ ∀ k, k ∈ s1 ↔ k ∈ s2 := by
  rw [equalQ_set_left, ← set_core h1 h2]
  constructor
  · rintro ⟨s, hs, h⟩; cases hs; exact h
  · intro h; exact ⟨s2, rfl, h⟩

end LispModel.Proofs

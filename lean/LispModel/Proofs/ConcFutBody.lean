/-
  C10 proofs, part 6: steps of the body goroutine preserve the outcome invariant.
-/
import LispModel.Proofs.ConcFutOut
namespace LispModel.Proofs.ConcFut
open LispModel.Conc LispModel.Conc.Fut

/-- a step that replaces the state of future `f` only (no thread changes) -/
theorem OutInv.bodyUpdate {s : FState} {f : Nat} {Fn : FutS} (h : OutInv s)
    (h1 : Fn.runs = if Fn.res.isSome then 1 else 0)
    (h2 : ∀ b, Fn.body = some b →
      ((b.pc = 0 ∧ b.returning = false) ↔ Fn.res = none) ∧ (Fn.res ≠ none → b.got = Fn.res))
    (h3 : pastDone Fn → Fn.done = true)
    (h4 : ¬ sent Fn → Fn.valCh = none ∧ Fn.errCh = none ∧ ∀ t, ¬ inflight s t f)
    (h5 : ∀ v, Fn.valCh = some v → Fn.res = some (false, v) ∧ Fn.errCh = none ∧ ∀ t, ¬ inflight s t f)
    (h6 : ∀ e, Fn.errCh = some e → Fn.res = some (true, e) ∧ Fn.valCh = none ∧ ∀ t, ¬ inflight s t f)
    (h7 : ∀ t, inflight s t f → Fn.valCh = none ∧ Fn.errCh = none)
    (h8 : (s.futs f).res ≠ none → Fn.res = (s.futs f).res)
    (h9 : sent (s.futs f) → sent Fn) :
    OutInv { s with futs := upd s.futs f Fn } := by
  have hI : ∀ t g, inflight { s with futs := upd s.futs f Fn } t g ↔ inflight s t g := fun t g => Iff.rfl
  constructor
  · intro g; by_cases hg : g = f
    · subst hg; simpa [upd] using h1
    · simpa [upd, hg] using h.runs g
  · intro g b hb; by_cases hg : g = f
    · subst hg; simp only [upd, if_true] at hb ⊢; exact h2 b hb
    · simp only [upd, hg, if_false] at hb ⊢; exact h.fresh g b hb
  · intro g hp; by_cases hg : g = f
    · subst hg; simp only [upd, if_true] at hp ⊢; exact h3 hp
    · simp only [upd, hg, if_false] at hp ⊢; exact h.done g hp
  · intro g hp; by_cases hg : g = f
    · subst hg; simp only [upd, if_true] at hp ⊢; exact h4 hp
    · simp only [upd, hg, if_false] at hp ⊢; exact h.unsent g hp
  · intro g v hv; by_cases hg : g = f
    · subst hg; simp only [upd, if_true] at hv ⊢; exact h5 v hv
    · simp only [upd, hg, if_false] at hv ⊢; exact h.inVal g v hv
  · intro g e he; by_cases hg : g = f
    · subst hg; simp only [upd, if_true] at he ⊢; exact h6 e he
    · simp only [upd, hg, if_false] at he ⊢; exact h.inErr g e he
  · intro t g ht; by_cases hg : g = f
    · subst hg
      simp only [upd, if_true]
      obtain ⟨a, b⟩ := h7 t ht
      exact ⟨a, b, (h.inHand t g ht).2.2⟩
    · simp only [upd, hg, if_false]; exact h.inHand t g ht
  · exact h.handGot
  · intro t fr o hc hn hgot
    obtain ⟨a, b⟩ := h.got t fr o hc hn hgot
    by_cases hg : fr.fut = f
    · simp only [upd, hg, if_true]
      rw [hg] at a b
      exact ⟨by rw [h8 (by rw [a]; simp)]; exact a, h9 b⟩
    · simp only [upd, hg, if_false]; exact ⟨a, b⟩
  · intro t n g o hm
    obtain ⟨a, b⟩ := h.outs t n g o hm
    by_cases hg : g = f
    · subst hg
      simp only [upd, if_true]
      exact ⟨by rw [h8 (by rw [a]; simp)]; exact a, h9 b⟩
    · simp only [upd, hg, if_false]; exact ⟨a, b⟩

/-- a body step that only moves the body's control point (and possibly `mu` / `Done`) -/
theorem OutInv.bodyQuiet {s : FState} {f : Nat} {Fn : FutS} {fr fr' : FFrame} (h : OutInv s)
    (hb : (s.futs f).body = some fr) (hbn : Fn.body = some fr')
    (hv : Fn.valCh = (s.futs f).valCh) (he : Fn.errCh = (s.futs f).errCh) (hr : Fn.res = (s.futs f).res)
    (hru : Fn.runs = (s.futs f).runs) (hgot : fr'.got = fr.got)
    (hpc : ¬ (fr.pc = 0 ∧ fr.returning = false)) (hpc' : ¬ (fr'.pc = 0 ∧ fr'.returning = false))
    (hsent : sent Fn ↔ sent (s.futs f)) (hdone : pastDone Fn → Fn.done = true) :
    OutInv { s with futs := upd s.futs f Fn } := by
  have hfresh := h.fresh f fr hb
  have hres : (s.futs f).res ≠ none := fun hn => hpc (hfresh.1.mpr hn)
  apply h.bodyUpdate
  · rw [hru, hr]; exact h.runs f
  · intro b hb'
    rw [hbn] at hb'; cases hb'
    rw [hr]
    exact ⟨⟨fun hh => absurd hh hpc', fun hh => absurd hh hres⟩, fun _ => by rw [hgot]; exact hfresh.2 hres⟩
  · exact hdone
  · intro hns
    obtain ⟨a, b, c⟩ := h.unsent f (fun hs => hns (hsent.mpr hs))
    exact ⟨by rw [hv]; exact a, by rw [he]; exact b, c⟩
  · intro v hvv; rw [hv] at hvv; rw [hr, he]; exact h.inVal f v hvv
  · intro e hee; rw [he] at hee; rw [hr, hv]; exact h.inErr f e hee
  · intro t ht; rw [hv, he]; exact ⟨(h.inHand t f ht).1, (h.inHand t f ht).2.1⟩
  · intro _; exact hr
  · exact hsent.mpr

theorem putBack_chan {o : Outcome} {F F' : FutS} (h : putBack o F = some F') :
    (o.1 = true → F.errCh = none ∧ F'.errCh = some o.2 ∧ F'.valCh = F.valCh) ∧
    (o.1 = false → F.valCh = none ∧ F'.valCh = some o.2 ∧ F'.errCh = F.errCh) := by
  obtain ⟨e, v⟩ := o
  cases e <;> simp [putBack] at h <;> obtain ⟨h1, h2⟩ := h <;> subst h2 <;> simp [h1]

theorem putBack_enabled {o : Outcome} {F : FutS} (hv : F.valCh = none) (he : F.errCh = none) :
    (putBack o F).isSome = true := by
  obtain ⟨e, v⟩ := o
  cases e <;> simp [putBack, hv, he]

end LispModel.Proofs.ConcFut

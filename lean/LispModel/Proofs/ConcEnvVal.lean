/-
  C11 proofs, part 5: no torn or invented value.  Whatever a scope's map holds, and whatever an
  operation returns, is an initial value of the root or exactly the value of some executed write
  (`Set`, `Update`, a bind of a scope creation).
-/
import LispModel.Proofs.ConcEnvPriv
namespace LispModel.Proofs.ConcEnv
open LispModel.ConcEnv
open LispModel.Conc (upd)

theorem exec_data {t m fr A fr' A'} (h : exec t m fr A = some (fr', A')) :
    (m = .writeData → A'.data = (fun k => if k = fr.key then some fr.val else A.data k) ∧ fr'.res = .val fr.val) ∧
    (m = .deleteData → A'.data = (fun k => if k = fr.key then none else A.data k)) ∧
    (m ≠ .writeData → m ≠ .deleteData → A'.data = A.data) ∧
    (m ≠ .writeData → fr'.res = fr.res ∨
      ∃ v, A.data fr.key = some v ∧ (fr'.res = .val v ∨ fr'.res = .scope fr.cur)) ∧
    (m = .bindLoop → fr'.fresh = applyBinds fr.binds fr.fresh) ∧ (m ≠ .bindLoop → fr'.fresh = fr.fresh) := by
  cases m with
  | rlock => simp [exec] at h; obtain ⟨-, h2, h3⟩ := h; subst h2; subst h3; simp
  | lock => simp [exec] at h; obtain ⟨-, h2, h3⟩ := h; subst h2; subst h3; simp
  | readHit =>
    simp only [exec] at h
    split at h
    · rename_i v hv
      simp at h; obtain ⟨h2, h3⟩ := h; subst h2; subst h3
      refine ⟨by simp, by simp, by simp, fun _ => Or.inr ⟨v, hv, ?_⟩, by simp, by simp⟩
      by_cases hf : fr.m = .find <;> simp [hf]
    · simp at h; obtain ⟨h2, h3⟩ := h; subst h2; subst h3; simp
  | readMiss => simp only [exec] at h; split at h <;> (simp at h; obtain ⟨h2, h3⟩ := h; subst h2; subst h3; simp)
  | callOuter n => simp only [exec] at h; split at h <;> (simp at h; obtain ⟨h2, h3⟩ := h; subst h2; subst h3; simp)
  | deferRUnlock | deferUnlock | readVal | callback | writeData | deleteData | setOuter | bindLoop | ret =>
    simp [exec] at h; obtain ⟨h2, h3⟩ := h; subst h2; subst h3; simp
  | _ => simp [exec] at h

theorem applyBinds_mem (bs : List (Nat × Nat)) (d : Nat → Option Nat) (k v : Nat)
    (h : applyBinds bs d k = some v) : d k = some v ∨ (k, v) ∈ bs := by
  unfold applyBinds at h
  induction bs generalizing d with
  | nil => exact Or.inl h
  | cons b bs ih =>
    simp only [List.foldl_cons] at h
    rcases ih _ h with h1 | h1
    · by_cases hk : k = b.1
      · simp only [hk, if_true] at h1
        cases h1
        exact Or.inr (by simp [hk])
      · simp only [hk, if_false] at h1; exact Or.inl h1
    · exact Or.inr (List.mem_cons_of_mem _ h1)

/-- `v` is an initial value of the root or the value of an executed write -/
def Known (vals : Nat → Option Nat) (s : EState) (v : Nat) : Prop :=
  (∃ k, vals k = some v) ∨ ∃ sc k, (sc, k, v) ∈ s.writes

structure ValInv (vals : Nat → Option Nat) (s : EState) : Prop where
  data : ∀ sc k v, (s.scopes sc).data k = some v → (sc = none ∧ vals k = some v) ∨ (sc, k, v) ∈ s.writes
  fresh : ∀ t fr, (s.threads t).cur = some fr → ∀ k v, fr.fresh k = some v → (k, v) ∈ fr.binds
  res : ∀ t fr v, (s.threads t).cur = some fr → fr.res = .val v → Known vals s v
  results : ∀ t v, ERes.val v ∈ (s.threads t).results → Known vals s v

theorem Known.mono {vals s s' v} (hm : ∀ x ∈ s.writes, x ∈ s'.writes) (h : Known vals s v) : Known vals s' v := by
  rcases h with h | ⟨sc, k, h⟩
  · exact Or.inl h
  · exact Or.inr ⟨sc, k, hm _ h⟩

/-- generic step: thread `t` gets a new frame / result list, the scopes and the write log change -/
theorem ValInv.gen {vals : Nat → Option Nat} {s s' : EState} {t : Nat} (h : ValInv vals s)
    (hth : ∀ u, u ≠ t → s'.threads u = s.threads u)
    (hm : ∀ x ∈ s.writes, x ∈ s'.writes)
    (hdata : ∀ sc k v, (s'.scopes sc).data k = some v → (sc = none ∧ vals k = some v) ∨ (sc, k, v) ∈ s'.writes)
    (hfresh : ∀ fr, (s'.threads t).cur = some fr → ∀ k v, fr.fresh k = some v → (k, v) ∈ fr.binds)
    (hres : ∀ fr v, (s'.threads t).cur = some fr → fr.res = .val v → Known vals s' v)
    (hresults : ∀ v, ERes.val v ∈ (s'.threads t).results → Known vals s' v) : ValInv vals s' := by
  constructor
  · exact hdata
  · intro u fr hc
    by_cases hu : u = t
    · subst hu; exact hfresh fr hc
    · rw [hth u hu] at hc; exact h.fresh u fr hc
  · intro u fr v hc hv
    by_cases hu : u = t
    · subst hu; exact hres fr v hc hv
    · rw [hth u hu] at hc; exact (h.res u fr v hc hv).mono hm
  · intro u v hv
    by_cases hu : u = t
    · subst hu; exact hresults v hv
    · rw [hth u hu] at hv; exact (h.results u v hv).mono hm

theorem ValInv.step {vals : Nat → Option Nat} {s s' : EState} {t : Nat} (h : ValInv vals s)
    (hs : step s t = some s') : ValInv vals s' := by
  have hk := step_kind hs
  have hth : ∀ u, u ≠ t → s'.threads u = s.threads u := fun u hu => step_other_thread hs hu
  cases hk with
  | start op hc hsr hl =>
    apply h.gen hth (fun x hx => hx) h.data
    · intro fr hfr k v hk; simp [upd] at hfr; subst hfr; cases op <;> simp [EOp.frame] at hk
    · intro fr v hfr hv; simp [upd] at hfr; subst hfr; cases op <;> simp [EOp.frame] at hv
    · intro v hv; simp [upd] at hv; exact h.results t v hv
  | finish fr hc hr hd hm =>
    apply h.gen hth (fun x hx => hx) h.data
    · intro fr' hfr; simp [upd] at hfr
    · intro fr' v hfr; simp [upd] at hfr
    · intro v hv
      simp only [upd, if_true, List.mem_append, List.mem_singleton] at hv
      rcases hv with hv | hv
      · exact h.results t v hv
      · exact h.res t fr v hc hv.symm
  | defer fr d sc0 ds hc hr hd =>
    apply h.gen hth (fun x hx => hx)
    · intro sc k v hv
      by_cases hsc : sc = sc0
      · subst hsc; simp only [updS_same, (execDefer_outer t d _).2.1] at hv; exact h.data _ k v hv
      · simp only [updS_other _ _ hsc] at hv; exact h.data sc k v hv
    · intro fr' hfr k v hk; simp [upd] at hfr; subst hfr; exact h.fresh t fr hc k v hk
    · intro fr' v hfr hv; simp [upd] at hfr; subst hfr; exact h.res t fr v hc hv
    · intro v hv; simp [upd] at hv; exact h.results t v hv
  | alloc fr hc hnr hm =>
    apply h.gen hth (fun x hx => hx) h.data
    · intro fr' hfr k v hk; simp [upd] at hfr; subst hfr; exact h.fresh t fr hc k v hk
    · intro fr' v hfr hv; simp [upd] at hfr; subst hfr; simp at hv
    · intro v hv; simp [upd] at hv; exact h.results t v hv
  | install fr hc hr hd hm =>
    have hmono : ∀ x ∈ s.writes, x ∈ s.writes ++ fr.binds.map fun kv => (fr.newId, kv.1, kv.2) :=
      fun x hx => List.mem_append_left _ hx
    apply h.gen hth hmono
    · intro sc k v hv
      by_cases hsc : sc = fr.newId
      · subst hsc
        simp only [updS_same] at hv
        right
        apply List.mem_append_right
        exact List.mem_map.mpr ⟨(k, v), h.fresh t fr hc k v hv, rfl⟩
      · simp only [updS_other _ _ hsc] at hv
        exact (h.data sc k v hv).imp id (hmono _)
    · intro fr' hfr; simp [upd] at hfr
    · intro fr' v hfr; simp [upd] at hfr
    · intro v hv
      simp only [upd, if_true, List.mem_append, List.mem_singleton] at hv
      rcases hv with hv | hv
      · exact (h.results t v hv).mono hmono
      · exact (h.res t fr v hc hv.symm).mono hmono
  | mop fr m fr' A' hc hnr hm hna hex =>
    obtain ⟨d1, d2, d3, d4, d5, d6⟩ := exec_data hex
    obtain ⟨-, -, -, kb⟩ := exec_keeps hex
    have hmono : ∀ x ∈ s.writes, x ∈ (if m = .writeData then s.writes ++ [(fr.cur, fr.key, fr.val)] else s.writes) := by
      intro x hx; split
      · exact List.mem_append_left _ hx
      · exact hx
    have hknown : ∀ sc k v, (s.scopes sc).data k = some v → Known vals s v := by
      intro sc k v hv
      rcases h.data sc k v hv with ⟨-, h1⟩ | h1
      · exact Or.inl ⟨k, h1⟩
      · exact Or.inr ⟨sc, k, h1⟩
    apply h.gen hth hmono
    · intro sc k v hv
      by_cases hsc : sc = fr.cur
      · subst hsc
        simp only [updS_same] at hv
        by_cases hw : m = .writeData
        · subst hw
          rw [(d1 rfl).1] at hv
          by_cases hk : k = fr.key
          · subst hk; simp at hv; subst hv; right; simp
          · simp only [hk, if_false] at hv; exact (h.data _ k v hv).imp id (hmono _)
        · by_cases hd : m = .deleteData
          · subst hd
            rw [d2 rfl] at hv
            by_cases hk : k = fr.key
            · simp [hk] at hv
            · simp only [hk, if_false] at hv; exact (h.data _ k v hv).imp id (hmono _)
          · rw [d3 hw hd] at hv; exact (h.data _ k v hv).imp id (hmono _)
      · simp only [updS_other _ _ hsc] at hv; exact (h.data sc k v hv).imp id (hmono _)
    · intro fr2 hfr k v hk
      simp [upd] at hfr; subst hfr
      rw [kb]
      by_cases hb : m = .bindLoop
      · rw [d5 hb] at hk
        rcases applyBinds_mem _ _ k v hk with h1 | h1
        · exact h.fresh t fr hc k v h1
        · exact h1
      · rw [d6 hb] at hk; exact h.fresh t fr hc k v hk
    · intro fr2 v hfr hv
      simp [upd] at hfr; subst hfr
      by_cases hw : m = .writeData
      · subst hw
        rw [(d1 rfl).2] at hv; cases hv
        exact Or.inr ⟨fr.cur, fr.key, by simp⟩
      · rcases d4 hw with h1 | ⟨v0, h1, h2 | h2⟩
        · rw [h1] at hv; exact (h.res t fr v hc hv).mono hmono
        · rw [h2] at hv; cases hv; exact (hknown _ _ _ h1).mono hmono
        · rw [h2] at hv; cases hv
    · intro v hv; simp [upd] at hv; exact (h.results t v hv).mono hmono

theorem ValInv.init (strats : List (List ERes → Option EOp)) (vals : Nat → Option Nat) :
    ValInv vals (init strats vals) := by
  constructor
  · intro sc k v hv
    simp only [ConcEnv.init] at hv
    split at hv
    · rename_i hsc; exact Or.inl ⟨hsc, hv⟩
    · simp at hv
  · intro t fr hc; simp [ConcEnv.init] at hc
  · intro t fr v hc; simp [ConcEnv.init] at hc
  · intro t v hv; simp [ConcEnv.init] at hv

theorem ValInv.run {vals} {sched : List Nat} {s s' : EState} (h : ValInv vals s) (hr : run sched s = some s') :
    ValInv vals s' := by
  induction sched generalizing s with
  | nil => simp [ConcEnv.run] at hr; subst hr; exact h
  | cons t ts ih =>
    simp only [ConcEnv.run, Option.bind_eq_some_iff] at hr
    obtain ⟨s1, h1, h2⟩ := hr
    exact ih (h.step h1) h2

/-- every global definition is seen entirely or not at all: whatever the root holds under a key, and
    whatever value any operation returned, is an initial value or exactly the value of some executed
    write; and the map write itself happens with the write lock held, no reader inside and nobody else
    about to touch that scope's map -/
theorem global_set_atomic {strats vals s} (hr : Reachable strats vals s) :
    (∀ k v, (s.scopes none).data k = some v → vals k = some v ∨ (none, k, v) ∈ s.writes) ∧
    (∀ t v, ERes.val v ∈ (s.threads t).results → Known vals s v) ∧
    (∀ t sc, nextDataAccess s t = some (sc, true) →
      (s.scopes sc).w = some t ∧ (s.scopes sc).r = [] ∧
      ∀ u x, u ≠ t → nextDataAccess s u ≠ some (sc, x)) := by
  have hL := lock_discipline hr
  obtain ⟨sched, hrun⟩ := hr
  have hV := (ValInv.init strats vals).run hrun
  refine ⟨?_, hV.results, ?_⟩
  · intro k v hv
    rcases hV.data none k v hv with ⟨-, h1⟩ | h1
    · exact Or.inl h1
    · exact Or.inr h1
  · intro t sc hacc
    have hw := (hL.access_guarded hacc).1 rfl
    refine ⟨hw, hL.excl sc (by rw [hw]; simp), ?_⟩
    intro u x hu hacc'
    exact hL.no_race (fun hh => hu hh.symm) hacc hacc' (Or.inl rfl)

end LispModel.Proofs.ConcEnv

/-
  Proofs for C08 (tail calls use no host stack).  `d` is the number of live `EVAL` activations: a
  `continue` of the TCO loop is `evalLoop … d` with the same `d`, a recursive `EVAL` call is `eval … (d+1)`.
  §1 the tail laws: for every tail construct the continuation is `evalLoop … d` at the SAME depth;
  §2 scope-store lemmas; §3 a tail-recursive loop observed through `depth!` marks, for every length.
-/
import LispModel.Proofs.EvalTry
namespace LispModel.Proofs.EvalTail
open LispModel LispModel.Core LispModel.Proofs.EvalCancel LispModel.Proofs.EvalTry

/-! ## §1 tail laws (no stepper: with a stepper installed the Go code deliberately recurses) -/

/-- `(do f₁ … fₙ last)`: `f₁ … fₙ` are evaluated by recursive `EVAL`s (depth `d+1`, inside `evalList`), then
    the loop continues with `last` at the same depth `d` -/
theorem tail_do {st : State} (hl : Live st) {env : Nat} (hm : NotMacro st env "do") (F p ops pos d)
    (vs : List Val) (s1 : State) (hs1 : s1.stepper = none) (hne : ops ≠ [])
    (h : evalList F (tick st) env ops.dropLast d = (.ok vs, s1)) (hst : st.stepper = none) :
    evalLoop (F + 2) st env (.list (.sym "do" p :: ops) pos) d =
      evalLoop (F + 1) s1 env (ops.getLast?.getD .nil) d := by
  rw [evalLoop_dispatch hl hm, dispatch_do]
  have hlast : (Val.sym "do" p :: ops).getLast? = ops.getLast? := by
    cases ops with
    | nil => exact absurd rfl hne
    | cons a as => rfl
  have hd : doForms (F + 1) (tick st) env (.sym "do" p :: ops) 1 true d = (.ok (ops.getLast?.getD .nil), s1) := by
    rw [doForms_noStepper (by exact hst)]
    have : ¬ (Val.sym "do" p :: ops).length ≤ 1 := by
      cases ops with
      | nil => exact absurd rfl hne
      | cons a as => simp
    simp only [this, ↓reduceIte, List.drop_one, List.tail_cons, h, hlast]
  simp only [doArm, hd]
  exact continueWith_noStepper hs1 _ _ _ _

/-- `(if c a b)`, condition true: `c` by a recursive `EVAL` (depth `d+1`), then the loop continues with `a`
    at depth `d` -/
theorem tail_if_then {st : State} (hl : Live st) {env : Nat} (hm : NotMacro st env "if") (F p c a rest pos d)
    (v : Val) (s1 : State) (hs1 : s1.stepper = none)
    (h : eval (F + 1) (tick st) env c (d + 1) = (.ok v, s1)) (hv : truthy v = true) :
    evalLoop (F + 2) st env (.list (.sym "if" p :: c :: a :: rest) pos) d = evalLoop (F + 1) s1 env a d := by
  rw [evalLoop_dispatch hl hm, dispatch_if]
  simp only [ifArm, List.getD_cons_zero, List.getD_cons_succ, h, hv, ↓reduceIte]
  exact continueWith_noStepper hs1 _ _ _ _

/-- `(if c a b)`, condition false: the loop continues with `b` at depth `d` -/
theorem tail_if_else {st : State} (hl : Live st) {env : Nat} (hm : NotMacro st env "if") (F p c a b rest pos d)
    (v : Val) (s1 : State) (hs1 : s1.stepper = none)
    (h : eval (F + 1) (tick st) env c (d + 1) = (.ok v, s1)) (hv : truthy v = false) :
    evalLoop (F + 2) st env (.list (.sym "if" p :: c :: a :: b :: rest) pos) d = evalLoop (F + 1) s1 env b d := by
  rw [evalLoop_dispatch hl hm, dispatch_if]
  simp only [ifArm, List.getD_cons_zero, List.getD_cons_succ, h, hv]
  simp
  exact continueWith_noStepper hs1 _ _ _ _

/-- `(quasiquote x)`: the loop continues with the expansion at depth `d` -/
theorem tail_quasiquote {st : State} (hl : Live st) {env : Nat} (hm : NotMacro st env "quasiquote")
    (hst : st.stepper = none) (F p x rest pos d) :
    evalLoop (F + 2) st env (.list (.sym "quasiquote" p :: x :: rest) pos) d =
      evalLoop (F + 1) (tick st) env (quasiquote x) d := by
  rw [evalLoop_dispatch hl hm, dispatch_quasiquote]
  exact continueWith_noStepper (by exact hst) _ _ _ _

/-- a macro call: `macroexpand` runs the macro body by recursive `EVAL`s (depth `d+1`), then the SAME loop
    iteration goes on with the expansion at depth `d` -/
theorem tail_macro_expansion {st : State} (hl : Live st) (F env xs pos d) (ast' : Val) (s1 : State)
    (h : macroexpand F (tick st) env (.list xs pos) d = (.ok ast', s1)) :
    evalLoop (F + 1) st env (.list xs pos) d = afterExpand F s1 env ast' d := by
  rw [evalLoop_live hl]
  simp only [liveBody, h]

/-- application of a closure: operator and operands by recursive `EVAL`s (depth `d+1`), then the loop
    continues with the body of the closure, in the new scope, at depth `d` -/
theorem tail_closure_call {st : State} (hl : Live st) {env : Nat} {s : String} (hm : NotMacro st env s)
    (hsf : s ∉ specialForms) (F p ops pos d)
    (params body : Val) (fenv : Nat) (m : Bool) (fp : Option Pos) (args : List Val) (s1 : State)
    (hs1 : s1.stepper = none)
    (h : evalList (F + 1) (tick st) env (.sym s p :: ops) d = (.ok (.fn params body fenv m fp :: args), s1))
    (data : List (String × Val)) (hb : bindParams params args = .ok data) :
    evalLoop (F + 2) st env (.list (.sym s p :: ops) pos) d =
      evalLoop (F + 1) (s1.newScope fenv data).1 (s1.newScope fenv data).2 body d := by
  rw [evalLoop_dispatch hl hm, dispatch_app _ _ _ _ _ _ _ _ _ hsf]
  simp only [appArm, h]
  exact callArm_closure hs1 hb

/-- `(let (b₁ x₁ …) f₁ … fₙ last)`: the init forms and `f₁ … fₙ` by recursive `EVAL`s (depth `d+1`), then the
    loop continues with `last` in the let scope at depth `d` -/
theorem tail_let {st : State} (hl : Live st) {env : Nat} (hm : NotMacro st env "let") (hst : st.stepper = none)
    (F p a1 body pos d) (arr : List Val) (ha : seqOf? a1 = some arr) (heven : arr.length % 2 = 0)
    (hne : body ≠ []) (u : Val) (s1 : State) (vs : List Val) (s2 : State) (hs2 : s2.stepper = none)
    (hb : letBinds (F + 1) ((tick st).newScope env []).1 ((tick st).newScope env []).2 arr a1 d = (.ok u, s1))
    (hf : evalList F s1 ((tick st).newScope env []).2 body.dropLast d = (.ok vs, s2)) :
    evalLoop (F + 2) st env (.list (.sym "let" p :: a1 :: body) pos) d =
      evalLoop (F + 1) s2 ((tick st).newScope env []).2 (body.getLast?.getD .nil) d := by
  have hs1 : s1.stepper = none := ((frame _).letBinds hb).1 (by exact hst)
  rw [evalLoop_dispatch hl hm, dispatch_let]
  obtain ⟨b0, bs, rfl⟩ : ∃ b0 bs, body = b0 :: bs := by
    cases body with
    | nil => exact absurd rfl hne
    | cons a as => exact ⟨a, as, rfl⟩
  have hd : doForms (F + 1) s1 ((tick st).newScope env []).2 (.sym "let" p :: a1 :: b0 :: bs) 2 true d =
      (.ok ((b0 :: bs).getLast?.getD .nil), s2) := by
    rw [doForms_noStepper hs1]
    have : ¬ (Val.sym "let" p :: a1 :: b0 :: bs).length ≤ 2 := by simp
    simp only [this, ↓reduceIte, List.drop_succ_cons, List.drop_zero, hf]
    rfl
  simp only [letArm, List.getD_cons_zero, ha, heven, hb, hd]
  simp only [ne_eq, not_true_eq_false, ↓reduceIte]
  exact continueWith_noStepper hs2 _ _ _ _

/-! ## §2 the scope store -/

/-- every `outer` pointer refers to an older scope (true of `initState`, kept by `NewSubordinateEnv`) -/
def ScopesWF (st : State) : Prop :=
  ∀ (i : Nat) (sc : Scope), st.scopes[i]? = some sc → ∀ o, sc.outer = some o → o < i

/-- with well-formed scopes the lookup does not depend on its fuel once the fuel exceeds the scope id -/
theorem getAux_fuel {st : State} (hw : ScopesWF st) (k : String) :
    ∀ (f f' id : Nat), id < f → id < f' → st.getAux f id k = st.getAux f' id k := by
  intro f
  induction f with
  | zero => intro f' id h; exact absurd h (Nat.not_lt_zero _)
  | succ f ih =>
    intro f' id h h'
    cases f' with
    | zero => exact absurd h' (Nat.not_lt_zero _)
    | succ f' =>
      simp only [State.getAux]
      cases hsc : st.scope? id with
      | none => rfl
      | some sc =>
        simp only []
        cases alookup k sc.data with
        | some v => rfl
        | none =>
          simp only []
          cases ho : sc.outer with
          | none => rfl
          | some o =>
            have := hw id sc hsc o ho
            exact ih f' o (by omega) (by omega)

/-- scopes that agree below `n` give the same lookups from ids below `n` (well-formed store) -/
theorem getAux_agree {st st' : State} (hw : ScopesWF st) (n : Nat)
    (hag : ∀ i, i < n → st'.scopes[i]? = st.scopes[i]?) (k : String) :
    ∀ (f id : Nat), id < n → st'.getAux f id k = st.getAux f id k := by
  intro f
  induction f with
  | zero => intro id _; rfl
  | succ f ih =>
    intro id hid
    simp only [State.getAux, State.scope?, hag id hid]
    cases hsc : st.scopes[id]? with
    | none => rfl
    | some sc =>
      simp only []
      cases alookup k sc.data with
      | some v => rfl
      | none =>
        simp only []
        cases ho : sc.outer with
        | none => rfl
        | some o =>
          have := hw id sc hsc o ho
          exact ih o (by omega)

theorem ScopesWF.congr {st st' : State} (h : st'.scopes = st.scopes) (hw : ScopesWF st) : ScopesWF st' := by
  intro i sc hi o ho; rw [h] at hi; exact hw i sc hi o ho

theorem push_agree (st : State) (sc : Scope) (i : Nat) (hi : i < st.scopes.size) :
    (st.scopes.push sc)[i]? = st.scopes[i]? := by
  simp [Array.getElem?_push, Nat.ne_of_lt hi]

/-- `NewSubordinateEnv` keeps the store well formed -/
theorem ScopesWF.newScope {st : State} (hw : ScopesWF st) {o : Nat} (ho : o < st.scopes.size) (data) :
    ScopesWF (st.newScope o data).1 := by
  intro i sc hi o' ho'
  simp only [State.newScope, Array.getElem?_push] at hi
  split at hi
  · cases hi; cases ho'; omega
  · exact hw i sc hi o' ho'

/-- a new scope does not change what the existing scopes see -/
theorem get_newScope_old {st : State} (hw : ScopesWF st) {id : Nat} (hid : id < st.scopes.size) (o data k) :
    (st.newScope o data).1.get id k = st.get id k := by
  simp only [State.get, State.newScope, Array.size_push]
  rw [getAux_agree hw st.scopes.size (fun i hi => push_agree st _ i hi) k _ id hid]
  exact getAux_fuel hw k _ _ id (by omega) (by omega)

/-- lookup from the new scope: its own bindings first, then the outer scope -/
theorem get_newScope_new {st : State} (hw : ScopesWF st) {o : Nat} (ho : o < st.scopes.size) (data k) :
    (st.newScope o data).1.get st.scopes.size k =
      match alookup k data with
      | some v => some v
      | none => st.get o k := by
  simp only [State.get, State.newScope, Array.size_push]
  rw [State.getAux]
  simp only [State.scope?, Array.getElem?_push, ↓reduceIte]
  cases alookup k data with
  | some v => rfl
  | none =>
    simp only []
    rw [getAux_agree hw st.scopes.size (fun i hi => push_agree st _ i hi) k _ o ho]

/-! ## §3 a tail-recursive loop, observed through `depth!` -/

/-- the side conditions every step needs: no debugger, no deadline -/
structure Plain (st : State) : Prop where
  stepper : st.stepper = none
  cancelAt : st.cancelAt = none

theorem Plain.tick {st : State} (h : Plain st) : Plain (EvalCancel.tick st) := ⟨h.1, h.2⟩
theorem Plain.live {st : State} (h : Plain st) : Live st := live_of_none h.2

theorem eval_sym_le {st : State} (hp : Plain st) {F : Nat} (hF : 3 ≤ F) (env s p d v)
    (hv : st.get env s = some v) : eval F st env (.sym s p) d = (.ok v, tick st) := by
  obtain ⟨F', rfl⟩ := Nat.exists_eq_add_of_le' hF
  exact eval_sym hp.1 hp.live F' env s p d v hv

theorem eval_self_le {st : State} (hp : Plain st) {F : Nat} (hF : 3 ≤ F) (env v d) (hv : SelfEval v) :
    eval F st env v d = (.ok v, tick st) := by
  obtain ⟨F', rfl⟩ := Nat.exists_eq_add_of_le' hF
  exact eval_selfEval hp.1 hp.live F' env v d hv

theorem evalList_nil_le {F : Nat} (hF : 1 ≤ F) (st env d) : evalList F st env [] d = (.ok [], st) := by
  obtain ⟨F', rfl⟩ := Nat.exists_eq_add_of_le' hF
  rw [evalList]

/-- `(depth!)`: two polls (the form, the symbol) and one mark: the depth of the `EVAL` activation that
    evaluates the form -/
theorem eval_depthMark {st : State} (hp : Plain st) {F : Nat} (hF : 8 ≤ F) (env p pos d)
    (hb : st.get env "depth!" = some (.builtin "depth!")) :
    eval F st env (.list [.sym "depth!" p] pos) d =
      (.ok .nil, { tick (tick st) with marks := d :: st.marks }) := by
  obtain ⟨F', rfl⟩ := Nat.exists_eq_add_of_le' hF
  have hm : NotMacro st env "depth!" := by intro a b c e h; rw [hb] at h; cases h
  rw [eval_noStepper hp.1, show F' + 7 = (F' + 5) + 2 by omega,
    evalLoop_dispatch hp.live hm, dispatch_app _ _ _ _ _ _ _ _ _ (by decide)]
  have h1 : eval (F' + 5) (tick st) env (.sym "depth!" p) (d + 1) = (.ok (.builtin "depth!"), tick (tick st)) :=
    eval_sym_le hp.tick (by omega) env _ p _ _ (by rw [tick_get]; exact hb)
  have h2 : evalList (F' + 6) (tick st) env [.sym "depth!" p] d = (.ok [.builtin "depth!"], tick (tick st)) := by
    rw [evalList_cons_ok h1, evalList_nil_le (by omega)]
  simp only [appArm, h2, callArm]
  rw [callBuiltin.eq_def]
  simp

theorem sig_lt : sigOf "<" = some (.fixed [.int, .int]) := rfl
theorem sig_sub : sigOf "-" = some (.fixed [.int, .int]) := rfl
theorem body_lt (x y : Int) : body "<" [.int x, .int y] = .ok (.bool (decide (x < y))) := rfl
theorem body_sub (x y : Int) : body "-" [.int x, .int y] = .ok (.int (x - y)) := rfl
theorem checkSig_ii (x y : Int) : checkSig (.fixed [.int, .int]) [.int x, .int y] = none := rfl
theorem call_lt (x y : Int) : Core.call "<" [.int x, .int y] = some (.ok (.bool (decide (x < y)))) := by
  simp only [Core.call, sig_lt, checkSig_ii, body_lt]
theorem call_sub (x y : Int) : Core.call "-" [.int x, .int y] = some (.ok (.int (x - y))) := by
  simp only [Core.call, sig_sub, checkSig_ii, body_sub]

theorem callBuiltin_lt (F st) (x y : Int) (d) :
    callBuiltin (F + 1) st "<" [.int x, .int y] d = (.ok (.bool (decide (x < y))), st) := by
  rw [callBuiltin.eq_def]; simp [call_lt]

theorem callBuiltin_sub (F st) (x y : Int) (d) :
    callBuiltin (F + 1) st "-" [.int x, .int y] d = (.ok (.int (x - y)), st) := by
  rw [callBuiltin.eq_def]; simp [call_sub]

/-- `(op n c)` for a builtin `op`, a bound symbol `n` and a literal `c`: four polls, then the builtin -/
theorem eval_binop {st : State} (hp : Plain st) {F : Nat} (hF : 9 ≤ F) (env : Nat) (op : String) (hop : op ∉ specialForms)
    (po pn pos : Option Pos) (n : String) (c a : Val) (d : Nat)
    (hb : st.get env op = some (.builtin op)) (hn : st.get env n = some a) (hc : SelfEval c) :
    eval F st env (.list [.sym op po, .sym n pn, c] pos) d =
      match callBuiltin (F - 2) (tick (tick (tick (tick st)))) op [a, c] d with
      | (.ok v, s) => (.ok v, s)
      | (.err e, s) => (.err (newLispError e (.list [.sym op po, .sym n pn, c] pos)), s)
      | (.oof, s) => (.oof, s) := by
  obtain ⟨F', rfl⟩ := Nat.exists_eq_add_of_le' hF
  have hm : NotMacro st env op := by intro a b c e h; rw [hb] at h; cases h
  rw [eval_noStepper hp.1, show F' + 8 = (F' + 6) + 2 by omega,
    evalLoop_dispatch hp.live hm, dispatch_app _ _ _ _ _ _ _ _ _ hop]
  have h1 : eval (F' + 6) (tick st) env (.sym op po) (d + 1) = (.ok (.builtin op), tick (tick st)) :=
    eval_sym_le hp.tick (by omega) env _ po _ _ (by rw [tick_get]; exact hb)
  have h2 : eval (F' + 5) (tick (tick st)) env (.sym n pn) (d + 1) = (.ok a, tick (tick (tick st))) :=
    eval_sym_le hp.tick.tick (by omega) env _ pn _ _ (by rw [tick_get, tick_get]; exact hn)
  have h3 : eval (F' + 4) (tick (tick (tick st))) env c (d + 1) = (.ok c, tick (tick (tick (tick st)))) :=
    eval_self_le hp.tick.tick.tick (by omega) env _ _ hc
  have h4 : evalList (F' + 7) (tick st) env [.sym op po, .sym n pn, c] d =
      (.ok [.builtin op, a, c], tick (tick (tick (tick st)))) := by
    rw [evalList_cons_ok h1, evalList_cons_ok h2, evalList_cons_ok h3, evalList_nil_le (by omega)]
  simp only [appArm, h4, callArm]
  rfl

/-! ### tail-recursive families: `countdown`, and the mutual pair `ping` / `pong`

  A family is a set of (at most two) functions indexed by `Bool`:
  `f_b := (fn (n) (do (depth!) (if (< n 1) :done (f_{callee b} (- n 1)))))`.
  `countdown` is the family with one name and `callee = id`; `ping`/`pong` the one with `callee = not`. -/

private def sy (s : String) : Val := .sym s none
private def ls (xs : List Val) : Val := .list xs none

/-- `(if (< n 1) :done (g (- n 1)))` -/
def cdIf (g : String) : Val :=
  ls [sy "if", ls [sy "<", sy "n", .int 1], Val.kw "done", ls [sy g, ls [sy "-", sy "n", .int 1]]]
/-- `(do (depth!) (if (< n 1) :done (g (- n 1))))` -/
def cdInner (g : String) : Val := ls [sy "do", ls [sy "depth!"], cdIf g]
/-- the body `fn` stores for `(fn (n) (do (depth!) …))`: its forms wrapped in a `do` -/
def cdBody (g : String) : Val := ls [sy "do", cdInner g]
/-- the closure `(fn (n) (do (depth!) (if (< n 1) :done (g (- n 1)))))` created in scope `fenv` -/
def cdFn (g : String) (fenv : Nat) : Val := .fn (ls [sy "n"]) (cdBody g) fenv false none

/-- names and call graph of a family -/
structure Fam where
  nm : Bool → String
  callee : Bool → Bool
  notN : ∀ b, nm b ≠ "n"
  notSpecial : ∀ b, nm b ∉ specialForms

/-- the body of function `b` of the family: it tail-calls function `callee b` -/
def Fam.body (fam : Fam) (b : Bool) : Val := cdBody (fam.nm (fam.callee b))

/-- states that differ only in what the loop touches besides scopes: ticks and marks -/
def SameStore (st st' : State) : Prop :=
  st'.scopes = st.scopes ∧ st'.stepper = st.stepper ∧ st'.cancelAt = st.cancelAt

theorem SameStore.plain {st st' : State} (h : SameStore st st') (hp : Plain st) : Plain st' :=
  ⟨h.2.1.trans hp.1, h.2.2.trans hp.2⟩

/-- what the loop needs to see from a scope `env` (the defining scope, or a call scope under it) -/
structure CdSees (fam : Fam) (st : State) (env fenv : Nat) : Prop where
  fns : ∀ b, st.get env (fam.nm b) = some (cdFn (fam.nm (fam.callee b)) fenv)
  depth : st.get env "depth!" = some (.builtin "depth!")
  lt : st.get env "<" = some (.builtin "<")
  sub : st.get env "-" = some (.builtin "-")
  notDo : NotMacro st env "do"
  notIf : NotMacro st env "if"

theorem CdSees.congr {fam : Fam} {st st' : State} {env fenv : Nat} (h : st'.scopes = st.scopes)
    (hs : CdSees fam st env fenv) : CdSees fam st' env fenv where
  fns b := by rw [get_congr h]; exact hs.fns b
  depth := by rw [get_congr h]; exact hs.depth
  lt := by rw [get_congr h]; exact hs.lt
  sub := by rw [get_congr h]; exact hs.sub
  notDo := by intro a b c e; rw [get_congr h]; exact hs.notDo a b c e
  notIf := by intro a b c e; rw [get_congr h]; exact hs.notIf a b c e

/-- the family is defined in scope `fenv` of a well-formed store, with the builtins it uses visible there
    and `do` / `if` not shadowed by macros -/
structure CdEnv (fam : Fam) (st : State) (fenv : Nat) : Prop where
  wf : ScopesWF st
  inStore : fenv < st.scopes.size
  sees : CdSees fam st fenv fenv

theorem CdEnv.congr {fam : Fam} {st st' : State} {fenv : Nat} (h : st'.scopes = st.scopes)
    (he : CdEnv fam st fenv) : CdEnv fam st' fenv :=
  ⟨he.wf.congr h, by rw [h]; exact he.inStore, he.sees.congr h⟩

/-- a call scope `n ↦ v` under `fenv` sees everything `fenv` sees (none of the names is `n`) -/
theorem CdEnv.call {fam : Fam} {st : State} {fenv : Nat} (he : CdEnv fam st fenv) (v : Val) :
    CdEnv fam (st.newScope fenv [("n", v)]).1 fenv ∧
    CdSees fam (st.newScope fenv [("n", v)]).1 st.scopes.size fenv ∧
    (st.newScope fenv [("n", v)]).1.get st.scopes.size "n" = some v := by
  have hold : ∀ k, (st.newScope fenv [("n", v)]).1.get fenv k = st.get fenv k :=
    fun k => get_newScope_old he.wf he.inStore fenv _ k
  have hnew : ∀ k, k ≠ "n" → (st.newScope fenv [("n", v)]).1.get st.scopes.size k = st.get fenv k := by
    intro k hk
    rw [get_newScope_new he.wf he.inStore]
    simp [alookup, Ne.symm hk]
  refine ⟨⟨he.wf.newScope he.inStore _, ?_, ?_⟩, ?_, ?_⟩
  · simp only [State.newScope, Array.size_push]; exact Nat.lt_succ_of_lt he.inStore
  · exact ⟨fun b => by rw [hold]; exact he.sees.fns b, by rw [hold]; exact he.sees.depth,
      by rw [hold]; exact he.sees.lt, by rw [hold]; exact he.sees.sub,
      by intro a b c e; rw [hold]; exact he.sees.notDo a b c e,
      by intro a b c e; rw [hold]; exact he.sees.notIf a b c e⟩
  · exact ⟨fun b => by rw [hnew _ (fam.notN b)]; exact he.sees.fns b,
      by rw [hnew _ (by decide)]; exact he.sees.depth,
      by rw [hnew _ (by decide)]; exact he.sees.lt, by rw [hnew _ (by decide)]; exact he.sees.sub,
      by intro a b c e; rw [hnew _ (by decide)]; exact he.sees.notDo a b c e,
      by intro a b c e; rw [hnew _ (by decide)]; exact he.sees.notIf a b c e⟩
  · rw [get_newScope_new he.wf he.inStore]; simp [alookup]

theorem SameStore.sees {fam : Fam} {st st' : State} {env fenv : Nat} (h : SameStore st st')
    (hs : CdSees fam st env fenv) : CdSees fam st' env fenv := hs.congr h.1
theorem SameStore.env {fam : Fam} {st st' : State} {fenv : Nat} (h : SameStore st st')
    (he : CdEnv fam st fenv) : CdEnv fam st' fenv := he.congr h.1
theorem SameStore.get {st st' : State} (h : SameStore st st') (env : Nat) (k : String) :
    st'.get env k = st.get env k := get_congr h.1 env k

/-- the state after steps 1–2 of an iteration: four polls and the mark -/
def afterMark (st : State) (d : Nat) : State :=
  { tick (tick (tick (tick st))) with marks := (d + 1) :: st.marks }

@[simp] theorem afterMark_scopes (st d) : (afterMark st d).scopes = st.scopes := by simp [afterMark]
@[simp] theorem afterMark_stepper (st d) : (afterMark st d).stepper = st.stepper := by simp [afterMark]
@[simp] theorem afterMark_cancelAt (st d) : (afterMark st d).cancelAt = st.cancelAt := by simp [afterMark]
@[simp] theorem afterMark_marks (st d) : (afterMark st d).marks = (d + 1) :: st.marks := by simp [afterMark]

/-- steps 1–2 of an iteration: the two `do`s and the `(depth!)` mark; the loop is then at the `if`, same depth -/
theorem cd_prefix {fam : Fam} {st : State} (hp : Plain st) {ce fenv : Nat} (hs : CdSees fam st ce fenv) {F : Nat}
    (hF : 12 ≤ F) (g : String) (d : Nat) :
    evalLoop F st ce (cdBody g) d = evalLoop (F - 2) (afterMark st d) ce (cdIf g) d := by
  obtain ⟨G, rfl⟩ := Nat.exists_eq_add_of_le' hF
  have e1 : cdBody g = .list (.sym "do" none :: [cdInner g]) none := rfl
  have e2 : cdInner g = .list (.sym "do" none :: [.list [.sym "depth!" none] none, cdIf g]) none := rfl
  rw [e1, show G + 12 = (G + 10) + 2 by omega,
    tail_do hp.live hs.notDo (G + 10) none [cdInner g] none d [] (tick st) hp.tick.1 (by simp)
      (evalList_nil_le (by omega) _ _ _) hp.1]
  have hdm : eval (G + 8) (tick (tick st)) ce (.list [.sym "depth!" none] none) (d + 1) =
      (.ok .nil, { tick (tick (tick (tick st))) with marks := (d + 1) :: st.marks }) :=
    eval_depthMark hp.tick.tick (by omega) ce none none (d + 1) (by rw [tick_get, tick_get]; exact hs.depth)
  have hl : evalList (G + 9) (tick (tick st)) ce [.list [.sym "depth!" none] none] d =
      (.ok [.nil], { tick (tick (tick (tick st))) with marks := (d + 1) :: st.marks }) := by
    rw [evalList_cons_ok hdm, evalList_nil_le (by omega)]
  show evalLoop (G + 10 + 1) (tick st) ce (cdInner g) d = _
  rw [e2, show G + 10 + 1 = (G + 9) + 2 by omega,
    tail_do hp.tick.live hs.notDo.tick (G + 9) none [.list [.sym "depth!" none] none, cdIf g] none d [.nil]
      { tick (tick (tick (tick st))) with marks := (d + 1) :: st.marks } hp.1 (by simp) hl hp.1]
  rfl

/-- step 3: the condition `(< n 1)`, evaluated one `EVAL` deeper; five polls -/
theorem cd_test {fam : Fam} {st : State} (hp : Plain st) {ce fenv : Nat} (hs : CdSees fam st ce fenv) {G : Nat}
    (hG : 9 ≤ G) (k : Int) (hn : st.get ce "n" = some (.int k)) (d : Nat) :
    eval (G + 1) (tick st) ce (.list [.sym "<" none, .sym "n" none, .int 1] none) (d + 1) =
      (.ok (.bool (decide (k < 1))), tick (tick (tick (tick (tick st))))) := by
  obtain ⟨H, rfl⟩ := Nat.exists_eq_add_of_le' hG
  rw [eval_binop hp.tick (by omega) ce "<" (by decide) none none none "n" (.int 1) (.int k) (d + 1)
      (by rw [tick_get]; exact hs.lt) (by rw [tick_get]; exact hn) trivial,
    show H + 9 + 1 - 2 = (H + 7) + 1 by omega, callBuiltin_lt]

/-- the argument `(- n 1)` of the tail call, evaluated one `EVAL` deeper; four polls -/
theorem cd_arg {fam : Fam} {st : State} (hp : Plain st) {ce fenv : Nat} (hs : CdSees fam st ce fenv) {F : Nat}
    (hF : 10 ≤ F) (k : Int) (hn : st.get ce "n" = some (.int k)) (d : Nat) :
    eval F st ce (.list [.sym "-" none, .sym "n" none, .int 1] none) d =
      (.ok (.int (k - 1)), tick (tick (tick (tick st)))) := by
  obtain ⟨G, rfl⟩ := Nat.exists_eq_add_of_le' hF
  rw [eval_binop hp (by omega) ce "-" (by decide) none none none "n" (.int 1) (.int k) d hs.sub hn trivial,
    show G + 10 - 2 = (G + 7) + 1 by omega, callBuiltin_sub]

theorem cdIf_eq (g : String) : cdIf g = .list (.sym "if" none :: .list [.sym "<" none, .sym "n" none, .int 1] none ::
    Val.kw "done" :: [.list [.sym g none, .list [.sym "-" none, .sym "n" none, .int 1] none] none])
    none := rfl

theorem evalLoop_self_le {st : State} (hp : Plain st) {F : Nat} (hF : 2 ≤ F) (env v d) (hv : SelfEval v) :
    evalLoop F st env v d = (.ok v, tick st) := by
  obtain ⟨G, rfl⟩ := Nat.exists_eq_add_of_le' hF
  rw [← eval_noStepper hp.1]; exact eval_selfEval hp.1 hp.live G env v d hv

/-- Every iteration of a family's loop marks the same depth `d + 1` (the `(depth!)` call is one `EVAL` below
    the loop that runs the bodies at depth `d`), and the loop ends with `:done` — for every `k`, with fuel
    linear in `k`, whichever function of the family the loop starts in. -/
theorem fam_iter (fam : Fam) (fenv d : Nat) : ∀ (k : Nat) (b : Bool) (F : Nat) (st : State) (ce : Nat),
    4 * k + 30 ≤ F → Plain st → CdEnv fam st fenv → CdSees fam st ce fenv → st.get ce "n" = some (.int k) →
    ∃ st', evalLoop F st ce (fam.body b) d = (.ok (Val.kw "done"), st') ∧
      st'.marks = List.replicate (k + 1) (d + 1) ++ st.marks := by
  intro k
  induction k with
  | zero =>
    intro b F st ce hF hp he hs hn
    obtain ⟨G, rfl⟩ := Nat.exists_eq_add_of_le' hF
    unfold Fam.body
    rw [cd_prefix hp hs (by omega) _ d]
    have hqA : SameStore st (afterMark st d) := ⟨by simp, by simp, by simp⟩
    have hmA := afterMark_marks st d
    have hnA := (hqA.get ce "n").trans hn
    have hpA := hqA.plain hp
    have hsA := hqA.sees hs
    generalize afterMark st d = sA at *
    have hc := cd_test hpA hsA (G := G + 26) (by omega) _ hnA d
    have hqB : SameStore sA (tick (tick (tick (tick (tick sA))))) := ⟨by simp, by simp, by simp⟩
    have hmB : (tick (tick (tick (tick (tick sA))))).marks = sA.marks := by simp
    have hpB := hqB.plain hpA
    generalize tick (tick (tick (tick (tick sA)))) = sB at *
    rw [cdIf_eq, show G + (4 * 0 + 30) - 2 = (G + 26) + 2 by omega,
      tail_if_then hpA.live hsA.notIf (G + 26) none _ _ _ none d _ sB hpB.1 hc (by decide),
      evalLoop_self_le hpB (by omega) ce _ d (selfEval_kw _)]
    refine ⟨_, rfl, ?_⟩
    simp [hmB, hmA]
  | succ k ih =>
    intro b F st ce hF hp he hs hn
    obtain ⟨G, rfl⟩ := Nat.exists_eq_add_of_le' hF
    unfold Fam.body
    rw [cd_prefix hp hs (by omega) _ d]
    have hqA : SameStore st (afterMark st d) := ⟨by simp, by simp, by simp⟩
    have hmA := afterMark_marks st d
    have hnA := (hqA.get ce "n").trans hn
    have hpA := hqA.plain hp
    have hsA := hqA.sees hs
    have heA := hqA.env he
    generalize afterMark st d = sA at *
    have hc := cd_test hpA hsA (G := G + 4 * k + 30) (by omega) _ hnA d
    have hqB : SameStore sA (tick (tick (tick (tick (tick sA))))) := ⟨by simp, by simp, by simp⟩
    have hmB : (tick (tick (tick (tick (tick sA))))).marks = sA.marks := by simp
    have hpB := hqB.plain hpA
    have hsB := hqB.sees hsA
    have heB := hqB.env heA
    have hnB := (hqB.get ce "n").trans hnA
    generalize tick (tick (tick (tick (tick sA)))) = sB at *
    have hfalse : truthy (.bool (decide (((k + 1 : Nat) : Int) < 1))) = false := by
      have : decide (((k + 1 : Nat) : Int) < 1) = false := decide_eq_false (by omega)
      rw [this]; rfl
    rw [cdIf_eq, show G + (4 * (k + 1) + 30) - 2 = (G + 4 * k + 30) + 2 by omega,
      tail_if_else hpA.live hsA.notIf (G + 4 * k + 30) none _ _ _ [] none d _ sB hpB.1 hc hfalse]
    -- the tail call `(g (- n 1))`, `g` the name of function `callee b`
    have hg := hsB.fns (fam.callee b)
    have hm : NotMacro sB ce (fam.nm (fam.callee b)) := by
      intro a b' c e h; rw [hg] at h; cases h
    have h1 : eval (G + 4 * k + 29) (tick sB) ce (.sym (fam.nm (fam.callee b)) none) (d + 1) =
        (.ok (cdFn (fam.nm (fam.callee (fam.callee b))) fenv), tick (tick sB)) :=
      eval_sym_le hpB.tick (by omega) ce _ none _ _ (by rw [tick_get]; exact hg)
    have hqB2 : SameStore sB (tick (tick sB)) := ⟨by simp, by simp, by simp⟩
    have h2 := cd_arg (F := G + 4 * k + 28) (hqB2.plain hpB) (hqB2.sees hsB) (by omega) _
      ((hqB2.get ce "n").trans hnB) (d + 1)
    have hqC : SameStore sB (tick (tick (tick (tick (tick (tick sB)))))) := ⟨by simp, by simp, by simp⟩
    have hmC : (tick (tick (tick (tick (tick (tick sB)))))).marks = sB.marks := by simp
    have hpC := hqC.plain hpB
    have heC := hqC.env heB
    have hl : evalList (G + 4 * k + 29 + 1) (tick sB) ce
        [.sym (fam.nm (fam.callee b)) none, .list [.sym "-" none, .sym "n" none, .int 1] none] d =
        (.ok [cdFn (fam.nm (fam.callee (fam.callee b))) fenv, .int (((k + 1 : Nat) : Int) - 1)],
          tick (tick (tick (tick (tick (tick sB)))))) := by
      rw [evalList_cons_ok h1, show G + 4 * k + 29 = (G + 4 * k + 28) + 1 by omega, evalList_cons_ok h2,
        evalList_nil_le (by omega)]
    generalize tick (tick (tick (tick (tick (tick sB))))) = sC at *
    have hk : (((k + 1 : Nat) : Int) - 1) = (k : Int) := by omega
    rw [hk] at hl
    rw [show G + 4 * k + 30 + 1 = (G + 4 * k + 29) + 2 by omega,
      tail_closure_call hpB.live hm (fam.notSpecial _) (G + 4 * k + 29) none _ none d _ _ fenv false none _ sC
        hpC.1 hl [("n", .int k)] (bindParams_one (by decide) none _)]
    obtain ⟨heD, hsD, hnD⟩ := heC.call (.int k)
    have hpD : Plain (sC.newScope fenv [("n", .int k)]).1 := ⟨hpC.1, hpC.2⟩
    obtain ⟨st', hr, hm'⟩ := ih (fam.callee b) (G + 4 * k + 29 + 1) _ _ (by omega) hpD heD hsD hnD
    refine ⟨st', hr, ?_⟩
    rw [hm']
    have : (sC.newScope fenv [("n", Val.int k)]).1.marks = sC.marks := rfl
    rw [this, hmC, hmB, hmA, List.replicate_succ' (n := k + 1), List.append_assoc]
    rfl

/-- **Loop theorem.**  In a state where the family is defined in scope `fenv`, the call `(f_b k)` evaluated
    by a loop at depth `d` records exactly `k + 1` marks, all equal to `d + 1`, and returns `:done` — for EVERY
    `k` (fuel `4·k + 40`): the host stack depth observed at the n-th iteration is the same for every n. -/
theorem fam_loop (fam : Fam) {st : State} (hp : Plain st) {fenv : Nat} (he : CdEnv fam st fenv) (b : Bool)
    (k : Nat) {F : Nat} (hF : 4 * k + 40 ≤ F) (d : Nat) :
    ∃ st', evalLoop F st fenv (.list [.sym (fam.nm b) none, .int k] none) d = (.ok (Val.kw "done"), st') ∧
      st'.marks = List.replicate (k + 1) (d + 1) ++ st.marks := by
  obtain ⟨G, rfl⟩ := Nat.exists_eq_add_of_le' hF
  have hg := he.sees.fns b
  have hm : NotMacro st fenv (fam.nm b) := by intro a b' c e h; rw [hg] at h; cases h
  have h1 : eval (G + 4 * k + 38) (tick st) fenv (.sym (fam.nm b) none) (d + 1) =
      (.ok (cdFn (fam.nm (fam.callee b)) fenv), tick (tick st)) :=
    eval_sym_le hp.tick (by omega) fenv _ none _ _ (by rw [tick_get]; exact hg)
  have h2 : eval (G + 4 * k + 37) (tick (tick st)) fenv (.int k) (d + 1) = (.ok (.int k), tick (tick (tick st))) :=
    eval_self_le hp.tick.tick (by omega) fenv _ _ trivial
  have hl : evalList (G + 4 * k + 38 + 1) (tick st) fenv [.sym (fam.nm b) none, .int k] d =
      (.ok [cdFn (fam.nm (fam.callee b)) fenv, .int k], tick (tick (tick st))) := by
    rw [evalList_cons_ok h1, show G + 4 * k + 38 = (G + 4 * k + 37) + 1 by omega, evalList_cons_ok h2,
      evalList_nil_le (by omega)]
  have hqC : SameStore st (tick (tick (tick st))) := ⟨by simp, by simp, by simp⟩
  have hmC : (tick (tick (tick st))).marks = st.marks := by simp
  have hpC := hqC.plain hp
  have heC := hqC.env he
  generalize tick (tick (tick st)) = sC at *
  rw [show G + (4 * k + 40) = (G + 4 * k + 38) + 2 by omega,
    tail_closure_call hp.live hm (fam.notSpecial _) (G + 4 * k + 38) none _ none d _ _ fenv false none _ sC
      hpC.1 hl [("n", .int k)] (bindParams_one (by decide) none _)]
  obtain ⟨heD, hsD, hnD⟩ := heC.call (.int k)
  have hpD : Plain (sC.newScope fenv [("n", .int k)]).1 := ⟨hpC.1, hpC.2⟩
  obtain ⟨st', hr, hm'⟩ := fam_iter fam fenv d k b (G + 4 * k + 38 + 1) _ _ (by omega) hpD heD hsD hnD
  refine ⟨st', hr, ?_⟩
  rw [hm']
  have : (sC.newScope fenv [("n", Val.int k)]).1.marks = sC.marks := rfl
  rw [this, hmC]

/-- `countdown := (fn (n) (do (depth!) (if (< n 1) :done (countdown (- n 1)))))` -/
def countdownFam : Fam where
  nm _ := "countdown"
  callee b := b
  notN _ := by decide
  notSpecial _ := by decide

/-- `ping := (fn (n) (do (depth!) (if (< n 1) :done (pong (- n 1)))))` and
    `pong := (fn (n) (do (depth!) (if (< n 1) :done (ping (- n 1)))))`: mutual tail recursion -/
def pingPongFam : Fam where
  nm b := if b then "ping" else "pong"
  callee b := !b
  notN b := by cases b <;> decide
  notSpecial b := by cases b <;> decide

/-! ### the hypotheses are satisfiable: the families defined in the root scope of `initState` -/

/-- `initState` after `(def countdown (fn (n) …))` (scope store only) -/
def countdownState : State := initState.set 0 "countdown" (cdFn "countdown" 0)

/-- `initState` after the two `def`s of `ping` and `pong` -/
def pingPongState : State :=
  (initState.set 0 "ping" (cdFn "pong" 0)).set 0 "pong" (cdFn "ping" 0)

theorem wf_one_root (st : State) (data : List (String × Val)) (h : st.scopes = #[⟨data, none⟩]) : ScopesWF st := by
  intro i sc hi o ho
  rw [h] at hi
  cases i with
  | zero => simp at hi; subst hi; cases ho
  | succ i => simp at hi

theorem countdown_env : CdEnv countdownFam countdownState 0 where
  wf := wf_one_root _ _ rfl
  inStore := by decide
  sees := {
    fns := fun _ => by rfl
    depth := by rfl
    lt := by rfl
    sub := by rfl
    notDo := by intro a b c e h; have : countdownState.get 0 "do" = none := by rfl
                rw [this] at h; cases h
    notIf := by intro a b c e h; have : countdownState.get 0 "if" = none := by rfl
                rw [this] at h; cases h }

theorem pingPong_env : CdEnv pingPongFam pingPongState 0 where
  wf := wf_one_root _ _ rfl
  inStore := by decide
  sees := {
    fns := fun b => by cases b <;> rfl
    depth := by rfl
    lt := by rfl
    sub := by rfl
    notDo := by intro a b c e h; have : pingPongState.get 0 "do" = none := by rfl
                rw [this] at h; cases h
    notIf := by intro a b c e h; have : pingPongState.get 0 "if" = none := by rfl
                rw [this] at h; cases h }

theorem countdownState_plain : Plain countdownState := ⟨rfl, rfl⟩
theorem pingPongState_plain : Plain pingPongState := ⟨rfl, rfl⟩

/-- `depth!` records the depth it is called at -/
theorem callBuiltin_depth (F : Nat) (st : State) (d : Nat) :
    callBuiltin (F + 1) st "depth!" [] d = (.ok .nil, { st with marks := d :: st.marks }) := by
  rw [callBuiltin.eq_def]; simp

/-! ## §4 chains of tail steps -/

/-- a configuration of the `EVAL` loop: remaining fuel, state, scope, form -/
structure Cfg where
  fuel : Nat
  st : State
  env : Nat
  ast : Val

/-- one tail step of a loop running at depth `d`: the loop replaces its configuration and `continue`s.
    One constructor per tail construct; the premises are those of the tail laws of §1 (the non-tail
    sub-evaluations they mention run at depth `d + 1`). -/
inductive TailStep (d : Nat) : Cfg → Cfg → Prop
  | doLast {st env F p ops pos vs s1} (hl : Live st) (hst : st.stepper = none) (hm : NotMacro st env "do")
      (hs1 : s1.stepper = none) (hne : ops ≠ [])
      (h : evalList F (tick st) env ops.dropLast d = (.ok vs, s1)) :
      TailStep d ⟨F + 2, st, env, .list (.sym "do" p :: ops) pos⟩ ⟨F + 1, s1, env, ops.getLast?.getD .nil⟩
  | letLast {st env F p a1 body pos arr u s1 vs s2} (hl : Live st) (hst : st.stepper = none)
      (hm : NotMacro st env "let") (ha : seqOf? a1 = some arr) (heven : arr.length % 2 = 0) (hne : body ≠ [])
      (hs2 : s2.stepper = none)
      (hb : letBinds (F + 1) ((tick st).newScope env []).1 ((tick st).newScope env []).2 arr a1 d = (.ok u, s1))
      (hf : evalList F s1 ((tick st).newScope env []).2 body.dropLast d = (.ok vs, s2)) :
      TailStep d ⟨F + 2, st, env, .list (.sym "let" p :: a1 :: body) pos⟩
        ⟨F + 1, s2, ((tick st).newScope env []).2, body.getLast?.getD .nil⟩
  | ifThen {st env F p c a rest pos v s1} (hl : Live st) (hm : NotMacro st env "if") (hs1 : s1.stepper = none)
      (h : eval (F + 1) (tick st) env c (d + 1) = (.ok v, s1)) (hv : truthy v = true) :
      TailStep d ⟨F + 2, st, env, .list (.sym "if" p :: c :: a :: rest) pos⟩ ⟨F + 1, s1, env, a⟩
  | ifElse {st env F p c a b rest pos v s1} (hl : Live st) (hm : NotMacro st env "if") (hs1 : s1.stepper = none)
      (h : eval (F + 1) (tick st) env c (d + 1) = (.ok v, s1)) (hv : truthy v = false) :
      TailStep d ⟨F + 2, st, env, .list (.sym "if" p :: c :: a :: b :: rest) pos⟩ ⟨F + 1, s1, env, b⟩
  | call {st env s F p ops pos params body fenv m fp args s1 data} (hl : Live st) (hm : NotMacro st env s)
      (hsf : s ∉ specialForms) (hs1 : s1.stepper = none)
      (h : evalList (F + 1) (tick st) env (.sym s p :: ops) d = (.ok (.fn params body fenv m fp :: args), s1))
      (hb : bindParams params args = .ok data) :
      TailStep d ⟨F + 2, st, env, .list (.sym s p :: ops) pos⟩
        ⟨F + 1, (s1.newScope fenv data).1, (s1.newScope fenv data).2, body⟩
  | quasi {st env F p x rest pos} (hl : Live st) (hst : st.stepper = none) (hm : NotMacro st env "quasiquote") :
      TailStep d ⟨F + 2, st, env, .list (.sym "quasiquote" p :: x :: rest) pos⟩ ⟨F + 1, tick st, env, quasiquote x⟩

/-- a chain of tail steps of any length -/
inductive TailChain (d : Nat) : Cfg → Cfg → Prop
  | refl (c : Cfg) : TailChain d c c
  | step {a b c : Cfg} : TailStep d a b → TailChain d b c → TailChain d a c

theorem TailStep.sameDepth {d : Nat} {a b : Cfg} (h : TailStep d a b) :
    evalLoop a.fuel a.st a.env a.ast d = evalLoop b.fuel b.st b.env b.ast d := by
  cases h with
  | doLast hl hst hm hs1 hne h => exact tail_do hl hm _ _ _ _ d _ _ hs1 hne h hst
  | letLast hl hst hm ha heven hne hs2 hb hf => exact tail_let hl hm hst _ _ _ _ _ d _ ha heven hne _ _ _ _ hs2 hb hf
  | ifThen hl hm hs1 h hv => exact tail_if_then hl hm _ _ _ _ _ _ d _ _ hs1 h hv
  | ifElse hl hm hs1 h hv => exact tail_if_else hl hm _ _ _ _ _ _ _ d _ _ hs1 h hv
  | call hl hm hsf hs1 h hb => exact tail_closure_call hl hm hsf _ _ _ _ d _ _ _ _ _ _ _ hs1 h _ hb
  | quasi hl hst hm => exact tail_quasiquote hl hm hst _ _ _ _ _ d

/-- **No additional host stack, at any length**: along any chain of tail steps — last forms of `do` / `let` /
    fn bodies, selected `if` branches, closure calls (self or mutual), `quasiquote` — the activation of the
    loop that started the chain is the one that finishes it: same depth `d`, same result. -/
theorem TailChain.sameDepth {d : Nat} {a b : Cfg} (h : TailChain d a b) :
    evalLoop a.fuel a.st a.env a.ast d = evalLoop b.fuel b.st b.env b.ast d := by
  induction h with
  | refl c => rfl
  | step h1 _ ih => exact h1.sameDepth.trans ih

end LispModel.Proofs.EvalTail

/-
  Laws of the error object algebra (`LispModel/LispError.lean`, mirroring lisperror/lisperror.go, `errors.Is`,
  `fmt.Errorf("%s: %w")` and the `throw` builtin).  General statements; `decide` only in the examples.
-/
import LispModel.LispError
namespace LispModel.LispError
open LispModel

/-! ### 5. `GetPosition` is total — except through a nil `*Token` (C04, C05) -/

/-- the position a carrier yields (what `GetPosition` returns when it returns) -/
def posOf : Carrier → Cursor
  | .list c | .symbol c | .vector c | .hashMap c | .set c => c
  | .token res => some res
  | .tokenPtr res => res
  | .posPtr p => p
  | .nil => none
  | .other => none

/-- `GetPosition` panics for exactly one kind of carrier: a nil pointer to a `GetPosition()` implementor with a
value receiver (`(*types.Token)(nil)`) -/
theorem getPosition_panic_iff (c : Carrier) : getPosition c = .panic ↔ c = .tokenPtr none := by
  cases c with
  | tokenPtr res => cases res <;> simp [getPosition]
  | _ => simp [getPosition]

/-- every arm of the type switch of lisperror.go itself returns: lists, symbols, vectors, hash-maps, sets with or
without cursor, `Token` values, `*Position` including the typed nil pointer, nil, and any other dynamic type -/
theorem getPosition_total (c : Carrier) (h : c ≠ .tokenPtr none) : getPosition c = .ok (posOf c) := by
  cases c with
  | tokenPtr res => cases res <;> simp_all [getPosition, posOf]
  | _ => simp [getPosition, posOf]

/-- `NewLispError` panics exactly when it has to ask such a carrier, i.e. when the error has no cursor yet -/
theorem newLispError_panic_iff (e : E) (c : Carrier) :
    newLispError e c = .panic ↔ (c = .tokenPtr none ∧ position e = none) := by
  by_cases hc : c = .tokenPtr none
  · subst hc
    cases e with
    | lisp x p => cases p <;> simp [newLispError, getPosition, position]
    | _ => simp [newLispError, getPosition, position]
  · have := getPosition_total c hc
    cases e with
    | lisp x p => cases p <;> simp [newLispError, this, position, hc]
    | _ => simp [newLispError, this, position, hc]

example : getPosition (.posPtr none) = .ok none := by decide
example : getPosition (.list none) = .ok none := by decide
example : getPosition .other = .ok none := by decide
example : getPosition (.tokenPtr none) = .panic := by decide
example : newLispError (.val (.int 1)) (.tokenPtr none) = .panic := rfl

/-! ### 1. / 2. re-positioning keeps the thrown object and the first position (C03, C17) -/

/-- the pure effect of `NewLispError(e, ast)` once `GetPosition(ast) = p` -/
def reposition (e : E) (p : Cursor) : E :=
  match e with
  | .lisp x (some q) => .lisp x (some q)
  | .lisp x none => .lisp x p
  | x => .lisp x p

theorem newLispError_eq {e : E} {c : Carrier} {r : E} (h : newLispError e c = .ok r) :
    r = reposition e (posOf c) := by
  by_cases hc : c = .tokenPtr none
  · subst hc
    cases e with
    | lisp x p => cases p <;> simp_all [newLispError, getPosition, reposition]
    | _ => simp [newLispError, getPosition] at h
  · have hg := getPosition_total c hc
    cases e with
    | lisp x p => cases p <;> simp_all [newLispError, reposition]
    | _ => simp_all [newLispError, reposition]

theorem errorValue_reposition (e : E) (p : Cursor) : errorValue (reposition e p) = errorValue e := by
  cases e with
  | lisp x q => cases q <;> rfl
  | _ => rfl

theorem position_reposition (e : E) (p : Cursor) : position (reposition e p) = (position e <|> p) := by
  cases e with
  | lisp x q => cases q <;> rfl
  | _ => rfl

/-- 1. `NewLispError` never changes the thrown object: the payload of the result is the payload of `e` when `e`
is a `LispError`, and `e` itself otherwise -/
theorem newLispError_keeps_object {e : E} {c : Carrier} {r : E} (h : newLispError e c = .ok r) :
    errorValue r = errorValue e := by
  rw [newLispError_eq h, errorValue_reposition]

/-- `throw` delivers its argument unchanged: an error as it is, anything else as the payload -/
theorem throw_keeps_object {a r : E} (h : throw a = .ok r) : errorValue r = errorValue a := by
  unfold throw at h
  split at h
  · cases h; rfl
  · exact newLispError_keeps_object h

/-- the cursor after `NewLispError`: the own one if there is one, else the carrier's -/
theorem newLispError_position {e : E} {c : Carrier} {r : E} (h : newLispError e c = .ok r) :
    position r = (position e <|> posOf c) := by
  rw [newLispError_eq h, position_reposition]

/-- `NewLispError` along a list of carriers, innermost first (what happens to an error on its way up through
the evaluator frames) -/
def reposAll (e : E) : List Carrier → Outcome E
  | [] => .ok e
  | c :: cs =>
    match newLispError e c with
    | .ok e' => reposAll e' cs
    | .panic => .panic

/-- the first non-nil pointer -/
def firstSome : List Cursor → Cursor
  | [] => none
  | some p :: _ => some p
  | none :: r => firstSome r

theorem firstSome_orElse (a b : Cursor) (l : List Cursor) :
    firstSome ((a <|> b) :: l) = firstSome (a :: b :: l) := by
  cases a <;> cases b <;> rfl

/-- 1. (any depth) the thrown object arrives unchanged however often the error is re-positioned -/
theorem reposAll_keeps_object {cs : List Carrier} {e r : E} (h : reposAll e cs = .ok r) :
    errorValue r = errorValue e := by
  induction cs generalizing e with
  | nil => simp [reposAll] at h; rw [h]
  | cons c cs ih =>
    unfold reposAll at h
    split at h
    · next e' h1 => rw [ih h, newLispError_keeps_object h1]
    · cases h

/-- 2. the final cursor is the first non-nil one among the error's own cursor and the positions of the carriers
in order: the position of the innermost form is kept -/
theorem newLispError_first_position_wins {cs : List Carrier} {e r : E} (h : reposAll e cs = .ok r) :
    position r = firstSome (position e :: cs.map posOf) := by
  induction cs generalizing e with
  | nil =>
    simp [reposAll] at h; rw [h]
    cases position r <;> rfl
  | cons c cs ih =>
    unfold reposAll at h
    split at h
    · next e' h1 =>
      rw [ih h, newLispError_position h1, firstSome_orElse]; rfl
    · cases h

/-- corollary: an error that has a position never changes it -/
theorem positioned_is_fixed {cs : List Carrier} {x r : E} {p : PosPtr}
    (h : reposAll (.lisp x (some p)) cs = .ok r) : r = .lisp x (some p) := by
  induction cs generalizing r with
  | nil => simp [reposAll] at h; exact h.symm
  | cons c cs ih => simp only [reposAll, newLispError] at h; exact ih h

/-- corollary (idempotence): re-positioning twice with the same carrier is re-positioning once -/
theorem newLispError_idempotent {e r : E} {c : Carrier} (h : newLispError e c = .ok r) :
    newLispError r c = .ok r := by
  have hr := newLispError_eq h
  by_cases hc : c = .tokenPtr none
  · subst hc
    cases e with
    | lisp x p => cases p <;> simp_all [newLispError, getPosition, reposition]
    | _ => simp [newLispError, getPosition] at h
  · have hg := getPosition_total c hc
    subst hr
    cases e with
    | lisp x p =>
      cases p with
      | some q => simp [reposition, newLispError]
      | none => cases hp : posOf c <;> simp [reposition, newLispError, hg, hp]
    | _ => cases hp : posOf c <;> simp [reposition, newLispError, hg, hp]

end LispModel.LispError

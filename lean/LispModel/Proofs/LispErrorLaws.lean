/-
  Laws of the error object algebra (`LispModel/LispError.lean`, mirroring lisperror/lisperror.go, `errors.Is`,
  `fmt.Errorf("%s: %w")` and the `throw` builtin).  General statements; `decide` only in the examples.
-/
import LispModel.LispError
namespace LispModel.LispError
open LispModel

/-! ### 5. `GetPosition` is total — except through a nil `*Token` (C04, C05) -/

/-- the position a carrier yields (what `GetPosition` returns when it returns) -/
def posOf : Carrier → Cursor
  | .list c | .symbol c | .vector c | .hashMap c | .set c => c
  | .token res => some res
  | .tokenPtr res => res
  | .posPtr p => p
  | .nil => none
  | .other => none

/-- `GetPosition` panics for exactly one kind of carrier: a nil pointer to a `GetPosition()` implementor with a
value receiver (`(*types.Token)(nil)`) -/
theorem getPosition_panic_iff (c : Carrier) : getPosition c = .panic ↔ c = .tokenPtr none := by
  cases c with
  | tokenPtr res => cases res <;> simp [getPosition]
  | _ => simp [getPosition]

/-- every arm of the type switch of lisperror.go itself returns: lists, symbols, vectors, hash-maps, sets with or
without cursor, `Token` values, `*Position` including the typed nil pointer, nil, and any other dynamic type -/
theorem getPosition_total (c : Carrier) (h : c ≠ .tokenPtr none) : getPosition c = .ok (posOf c) := by
  cases c with
  | tokenPtr res => cases res <;> simp_all [getPosition, posOf]
  | _ => simp [getPosition, posOf]

/-- `NewLispError` panics exactly when it has to ask such a carrier, i.e. when the error has no cursor yet -/
theorem newLispError_panic_iff (e : E) (c : Carrier) :
    newLispError e c = .panic ↔ (c = .tokenPtr none ∧ position e = none) := by
  by_cases hc : c = .tokenPtr none
  · subst hc
    cases e with
    | lisp x p => cases p <;> simp [newLispError, getPosition, position]
    | _ => simp [newLispError, getPosition, position]
  · have := getPosition_total c hc
    cases e with
    | lisp x p => cases p <;> simp [newLispError, this, position, hc]
    | _ => simp [newLispError, this, position, hc]

example : getPosition (.posPtr none) = .ok none := by decide
example : getPosition (.list none) = .ok none := by decide
example : getPosition .other = .ok none := by decide
example : getPosition (.tokenPtr none) = .panic := by decide
example : newLispError (.val (.int 1)) (.tokenPtr none) = .panic := rfl

/-! ### 1. / 2. re-positioning keeps the thrown object and the first position (C03, C17) -/

/-- the pure effect of `NewLispError(e, ast)` once `GetPosition(ast) = p` -/
def reposition (e : E) (p : Cursor) : E :=
  match e with
  | .lisp x (some q) => .lisp x (some q)
  | .lisp x none => .lisp x p
  | x => .lisp x p

theorem newLispError_eq {e : E} {c : Carrier} {r : E} (h : newLispError e c = .ok r) :
    r = reposition e (posOf c) := by
  by_cases hc : c = .tokenPtr none
  · subst hc
    cases e with
    | lisp x p => cases p <;> simp_all [newLispError, getPosition, reposition]
    | _ => simp [newLispError, getPosition] at h
  · have hg := getPosition_total c hc
    cases e with
    | lisp x p => cases p <;> simp_all [newLispError, reposition]
    | _ => simp_all [newLispError, reposition]

theorem errorValue_reposition (e : E) (p : Cursor) : errorValue (reposition e p) = errorValue e := by
  cases e with
  | lisp x q => cases q <;> rfl
  | _ => rfl

theorem position_reposition (e : E) (p : Cursor) : position (reposition e p) = (position e <|> p) := by
  cases e with
  | lisp x q => cases q <;> rfl
  | _ => rfl

/-- 1. `NewLispError` never changes the thrown object: the payload of the result is the payload of `e` when `e`
is a `LispError`, and `e` itself otherwise -/
theorem newLispError_keeps_object {e : E} {c : Carrier} {r : E} (h : newLispError e c = .ok r) :
    errorValue r = errorValue e := by
  rw [newLispError_eq h, errorValue_reposition]

/-- `throw` delivers its argument unchanged: an error as it is, anything else as the payload -/
theorem throw_keeps_object {a r : E} (h : throw a = .ok r) : errorValue r = errorValue a := by
  unfold throw at h
  split at h
  · cases h; rfl
  · exact newLispError_keeps_object h

/-- the cursor after `NewLispError`: the own one if there is one, else the carrier's -/
theorem newLispError_position {e : E} {c : Carrier} {r : E} (h : newLispError e c = .ok r) :
    position r = (position e <|> posOf c) := by
  rw [newLispError_eq h, position_reposition]

/-- `NewLispError` along a list of carriers, innermost first (what happens to an error on its way up through
the evaluator frames) -/
def reposAll (e : E) : List Carrier → Outcome E
  | [] => .ok e
  | c :: cs =>
    match newLispError e c with
    | .ok e' => reposAll e' cs
    | .panic => .panic

/-- the first non-nil pointer -/
def firstSome : List Cursor → Cursor
  | [] => none
  | some p :: _ => some p
  | none :: r => firstSome r

theorem firstSome_orElse (a b : Cursor) (l : List Cursor) :
    firstSome ((a <|> b) :: l) = firstSome (a :: b :: l) := by
  cases a <;> cases b <;> rfl

/-- 1. (any depth) the thrown object arrives unchanged however often the error is re-positioned -/
theorem reposAll_keeps_object {cs : List Carrier} {e r : E} (h : reposAll e cs = .ok r) :
    errorValue r = errorValue e := by
  induction cs generalizing e with
  | nil => simp [reposAll] at h; rw [h]
  | cons c cs ih =>
    unfold reposAll at h
    split at h
    · next e' h1 => rw [ih h, newLispError_keeps_object h1]
    · cases h

/-- 2. the final cursor is the first non-nil one among the error's own cursor and the positions of the carriers
in order: the position of the innermost form is kept -/
theorem newLispError_first_position_wins {cs : List Carrier} {e r : E} (h : reposAll e cs = .ok r) :
    position r = firstSome (position e :: cs.map posOf) := by
  induction cs generalizing e with
  | nil =>
    simp [reposAll] at h; rw [h]
    cases position r <;> rfl
  | cons c cs ih =>
    unfold reposAll at h
    split at h
    · next e' h1 =>
      rw [ih h, newLispError_position h1, firstSome_orElse]; rfl
    · cases h

/-- corollary: an error that has a position never changes it -/
theorem positioned_is_fixed {cs : List Carrier} {x r : E} {p : PosPtr}
    (h : reposAll (.lisp x (some p)) cs = .ok r) : r = .lisp x (some p) := by
  induction cs generalizing r with
  | nil => simp [reposAll] at h; exact h.symm
  | cons c cs ih => simp only [reposAll, newLispError] at h; exact ih h

/-- corollary (idempotence): re-positioning twice with the same carrier is re-positioning once -/
theorem newLispError_idempotent {e r : E} {c : Carrier} (h : newLispError e c = .ok r) :
    newLispError r c = .ok r := by
  have hr := newLispError_eq h
  by_cases hc : c = .tokenPtr none
  · subst hc
    cases e with
    | lisp x p => cases p <;> simp_all [newLispError, getPosition, reposition]
    | _ => simp [newLispError, getPosition] at h
  · have hg := getPosition_total c hc
    subst hr
    cases e with
    | lisp x p =>
      cases p with
      | some q => simp [reposition, newLispError]
      | none => cases hp : posOf c <;> simp [reposition, newLispError, hg, hp]
    | _ => cases hp : posOf c <;> simp [reposition, newLispError, hg, hp]

example : reposAll (.val (.int 5)) [.nil, .posPtr none, .list (some ⟨2, {}⟩), .symbol (some ⟨3, {}⟩)]
    = .ok (.lisp (.val (.int 5)) (some ⟨2, {}⟩)) := rfl
example : firstSome [none, none, some ⟨2, {}⟩, some ⟨3, {}⟩] = some ⟨2, {}⟩ := by decide

/-! ### 3. re-positioning and `NewGoError` never lose reachability under `errors.Is` (C03) -/

/-- a `LispError` struct (as opposed to its payload) -/
def isLisp : E → Bool | .lisp _ _ => true | _ => false

theorem goEq_plain_left {e : E} (he : isErrorValue e = true) (hl : isLisp e = false) (y : E) :
    ∃ b, goEq e y = .ok b := by
  cases e <;> cases y <;> simp_all [goEq, isErrorValue, isLisp]

theorem lispIs_plain {x t : E} (hx : isLisp x = false) (ht : isNil t = false) :
    lispIs x t = isTail x t := by
  cases x <;> simp_all [isLisp, lispIs]

theorem isLoop_wrap_step {e t : E} (id : Nat) (n : String) (he : isErrorValue e = true)
    (h : isLoop e t = .ok true) : isLoop (.wrap id n e) t = .ok true := by
  obtain ⟨b, hb⟩ := goEq_plain_left (e := .wrap id n e) rfl rfl t
  cases b <;> simp [isLoop, hb, he, h]

theorem isLoop_lisp_step {e t : E} (p : Cursor) (he : isErrorValue e = true) (hl : isLisp e = false)
    (ht : isNil t = false) (h : isLoop e t = .ok true) : isLoop (.lisp e p) t = .ok true := by
  rw [isLoop, lispIs_plain hl ht]
  cases t with
  | lisp y q =>
    obtain ⟨b, hb⟩ := goEq_plain_left he hl y
    cases b <;> cases hq : ptrEq p q <;> simp [goEq, isTail, hb, hq, he, h]
  | _ => simp [goEq, isTail, he, h]

theorem isLoop_lisp_cursor {x t : E} (p p' : Cursor) (hl : isLisp x = false)
    (ht : isNil t = false) (h : isLoop (.lisp x p) t = .ok true) : isLoop (.lisp x p') t = .ok true := by
  rw [isLoop, lispIs_plain hl ht] at h ⊢
  cases t with
  | lisp y q =>
    cases hb : goEq x y with
    | panic => simp [goEq, hb] at h
    | ok b =>
      cases b
      · simpa [goEq, isTail, hb] using h
      · cases hq : ptrEq p' q <;> simp [goEq, isTail, hb, hq]
  | _ => simpa [goEq] using h

/-- No `LispError` sits directly in the `err` field of a `LispError` (it may sit deeper, under a
`*fmt.wrapError`).  Every object the package's constructors build is of this shape (`flat_newLispError`,
`flat_newGoError`): `NewLispError` never nests, `NewGoError` puts a `*fmt.wrapError` in between. -/
def Flat : E → Bool
  | .wrap _ _ inner => Flat inner
  | .lisp x _ => !isLisp x && Flat x
  | _ => true

/-- one step of an error's way up: a Go builtin's error wrapped by `NewGoError(name, ·)` (lib/call), or the
evaluator adding a position with `NewLispError(·, carrier)` -/
inductive Frame where
  | goErr (id : Nat) (name : String)
  | repos (c : Carrier)

def applyFrame : Frame → E → Outcome E
  | .goErr id name, e => .ok (newGoError id name e)
  | .repos c, e => newLispError e c

/-- a context: frames applied innermost first -/
def applyFrames : List Frame → E → Outcome E
  | [], e => .ok e
  | f :: fs, e =>
    match applyFrame f e with
    | .ok e' => applyFrames fs e'
    | .panic => .panic

theorem flat_reposition {e : E} (p : Cursor) (he : Flat e = true) : Flat (reposition e p) = true := by
  cases e with
  | lisp x q => cases q <;> simpa [reposition, Flat] using he
  | _ => simp_all [reposition, Flat, isLisp]

theorem flat_newLispError {e r : E} {c : Carrier} (he : Flat e = true) (h : newLispError e c = .ok r) :
    Flat r = true := by
  rw [newLispError_eq h]; exact flat_reposition _ he

theorem flat_newGoError {e : E} (id : Nat) (n : String) (he : Flat e = true) : Flat (newGoError id n e) = true := by
  unfold newGoError; split <;> simp [Flat, isLisp, he]

theorem isErrorValue_reposition (e : E) (p : Cursor) : isErrorValue (reposition e p) = true := by
  cases e with
  | lisp x q => cases q <;> rfl
  | _ => rfl

theorem isErrorValue_newGoError (id : Nat) (n : String) (e : E) : isErrorValue (newGoError id n e) = true := by
  unfold newGoError; split <;> rfl

theorem isLoop_reposition {e t : E} (p : Cursor) (he : isErrorValue e = true) (hf : Flat e = true)
    (ht : isNil t = false) (h : isLoop e t = .ok true) : isLoop (reposition e p) t = .ok true := by
  cases e with
  | val v => simp [isErrorValue] at he
  | lisp x q =>
    cases q with
    | some q => exact h
    | none =>
      have hl : isLisp x = false := by simp [Flat] at hf; exact hf.1
      exact isLoop_lisp_cursor none p hl ht h
  | sentinel i m => exact isLoop_lisp_step p he rfl ht h
  | strErr i m => exact isLoop_lisp_step p he rfl ht h
  | wrap i n x => exact isLoop_lisp_step p he rfl ht h

theorem isLoop_newGoError {e t : E} (id : Nat) (n : String) (he : isErrorValue e = true)
    (ht : isNil t = false) (h : isLoop e t = .ok true) : isLoop (newGoError id n e) t = .ok true := by
  simp only [newGoError, he, if_true]
  exact isLoop_lisp_step none rfl rfl ht (isLoop_wrap_step id n he h)

theorem applyFrame_preserves {f : Frame} {e e' t : E} (he : isErrorValue e = true) (hf : Flat e = true)
    (ht : isNil t = false) (h : isLoop e t = .ok true) (ha : applyFrame f e = .ok e') :
    isErrorValue e' = true ∧ Flat e' = true ∧ isLoop e' t = .ok true := by
  cases f with
  | goErr id n =>
    simp [applyFrame] at ha; subst ha
    exact ⟨isErrorValue_newGoError id n e, flat_newGoError id n hf, isLoop_newGoError id n he ht h⟩
  | repos c =>
    simp only [applyFrame] at ha
    have hr := newLispError_eq ha
    subst hr
    exact ⟨isErrorValue_reposition e _, flat_reposition _ hf, isLoop_reposition _ he hf ht h⟩

theorem errorsIs_of_error {e t : E} (he : isErrorValue e = true) (ht : isNil t = false) :
    errorsIs e t = isLoop e t := by
  have : isNil e = false := by cases e <;> simp_all [isErrorValue, isNil]
  simp [errorsIs, this, ht]

theorem isNil_false_of_is {e t : E} (he : isErrorValue e = true) (h : errorsIs e t = .ok true) : isNil t = false := by
  have : isNil e = false := by cases e <;> simp_all [isErrorValue, isNil]
  cases hn : isNil t
  · rfl
  · simp [errorsIs, this, hn] at h

/-- 3. Whatever `errors.Is` finds in an error it still finds after the error went through any context built from
`NewGoError(name, ·)` and `NewLispError(·, carrier)`: Go errors stay reachable through any depth. -/
theorem reposition_preserves_is {fs : List Frame} {e r t : E} (he : isErrorValue e = true) (hf : Flat e = true)
    (h : errorsIs e t = .ok true) (hr : applyFrames fs e = .ok r) : errorsIs r t = .ok true := by
  have ht := isNil_false_of_is he h
  rw [errorsIs_of_error he ht] at h
  suffices isErrorValue r = true ∧ isLoop r t = .ok true by rw [errorsIs_of_error this.1 ht]; exact this.2
  induction fs generalizing e with
  | nil => simp [applyFrames] at hr; subst hr; exact ⟨he, h⟩
  | cons f fs ih =>
    unfold applyFrames at hr
    split at hr
    · next e' ha =>
      obtain ⟨he', hf', h'⟩ := applyFrame_preserves he hf ht h ha
      exact ih he' hf' h' hr
    · cases hr

example : (applyFrames [.goErr 10 "core[f]", .repos (.list (some ⟨2, {}⟩)), .goErr 12 "g", .repos .nil]
    (.sentinel 1 "x")).bind (fun r => errorsIs r (.sentinel 1 "x")) = .ok true := by decide
/-- a different sentinel with the same message is not found: reachability is identity, not text -/
example : (applyFrames [.goErr 10 "core[f]", .repos .nil] (.sentinel 1 "x")).bind
    (fun r => errorsIs r (.sentinel 2 "x")) = .ok false := by decide

/-! ### 4. `NewGoError` wraps the original (C03) -/

/-- 4a. the Go error a builtin returned is found by `errors.Is` in what `NewGoError` makes of it -/
theorem newGoError_wraps_original (id k : Nat) (n m : String) :
    errorsIs (newGoError id n (.sentinel k m)) (.sentinel k m) = .ok true := by
  simp [newGoError, isErrorValue, errorsIs, isNil, isLoop, goEq, lispIs, isTail]

/-- 4a (general): everything `errors.Is` finds in an error it finds in its `NewGoError` wrapping -/
theorem newGoError_keeps_is {e t : E} (id : Nat) (n : String) (he : isErrorValue e = true)
    (h : errorsIs e t = .ok true) : errorsIs (newGoError id n e) t = .ok true := by
  have ht := isNil_false_of_is he h
  rw [errorsIs_of_error he ht] at h
  rw [errorsIs_of_error (isErrorValue_newGoError id n e) ht]
  exact isLoop_newGoError id n he ht h

/-- 4b. a panic value that is no error: the `Unwrap` chain is `LispError → *fmt.wrapError → *errors.errorString`
and ends in the `%v` text of the value; the whole message is `name: <%v text>` -/
theorem newGoError_of_value {e : E} (id : Nat) (n : String) (hv : isErrorValue e = false) :
    newGoError id n e = .lisp (.wrap id n (.strErr (id + 1) (textOf false e))) none
    ∧ errorsUnwrap (newGoError id n e) = some (.wrap id n (.strErr (id + 1) (textOf false e)))
    ∧ errorsUnwrap (.wrap id n (.strErr (id + 1) (textOf false e))) = some (.strErr (id + 1) (textOf false e))
    ∧ errorsUnwrap (.strErr (id + 1) (textOf false e)) = none
    ∧ errorString (newGoError id n e) = n ++ ": " ++ textOf false e := by
  have h1 : newGoError id n e = .lisp (.wrap id n (.strErr (id + 1) (textOf false e))) none := by
    simp [newGoError, hv]
  rw [h1]
  simp [errorsUnwrap, unwrap, isErrorValue, errorString, textOf]

example : errorString (newGoError 0 "core[f]" (.val (.int 5))) = "core[f]: 5" := by decide
example : errorString (newGoError 0 "core[f]" (.val .nil)) = "core[f]: <nil>" := by decide
example : errorsIs (newGoError 0 "f" (.sentinel 1 "boom")) (.sentinel 1 "boom") = .ok true := by decide

/-! ### 6. the shape of `Error()` (C17, C19) -/

/-- 6a. with a cursor: `<Position.String()>: <payload under %s>` -/
theorem errorString_positioned (err : E) (p : PosPtr) :
    errorString (.lisp err (some p)) = posString p.pos ++ ": " ++ textOf true err := by
  simp [errorString, textOf]

/-- 6b. without a cursor: the payload under `%v` (`fmt.Sprint`) -/
theorem errorString_bare (err : E) : errorString (.lisp err none) = textOf false err := by
  simp [errorString, textOf]

/-- payloads that print the same under `%s` and `%v`: every `error`, strings / keywords, symbols.  NOT
nil, booleans and integers (`%!s(int=5)` against `5`), and not the collections that contain such values. -/
def verbAgnostic : E → Bool
  | .val (.str _) => true
  | .val (.sym _ _) => true
  | .val _ => false
  | _ => true

theorem textOf_verbAgnostic {err : E} (h : verbAgnostic err = true) : textOf true err = textOf false err := by
  cases err with
  | val v => cases v <;> simp_all [verbAgnostic, textOf, fmtVal]
  | lisp x c => cases c <;> simp [textOf]
  | _ => simp [textOf]

/-- 6. for error, string, keyword and symbol payloads the position prefix is the ONLY difference between the
text of a positioned and of a position-less delivery of the same object -/
theorem errorString_shape {err : E} (p : PosPtr) (h : verbAgnostic err = true) :
    errorString (.lisp err (some p)) = posString p.pos ++ ": " ++ errorString (.lisp err none) := by
  rw [errorString_positioned, errorString_bare, textOf_verbAgnostic h]

/-- the text after `NewLispError` gave a cursor-less error the position of a carrier -/
theorem errorString_newLispError {err r : E} {c : Carrier} (h : newLispError (.lisp err none) c = .ok r) :
    errorString r = match posOf c with
      | some p => posString p.pos ++ ": " ++ textOf true err
      | none => textOf false err := by
  rw [newLispError_eq h]
  cases hp : posOf c <;> simp [reposition, errorString, textOf]

example : errorString (.lisp (.val (.str "boom")) (some ⟨0, { module := some "m", beginRow := 2, beginCol := 3, row := 4, col := 5 }⟩))
    = "m§2…4,3…5: boom" := by decide
example : errorString (.lisp (.val (.str "boom")) none) = "boom" := by decide
/-- and the other payloads DO differ beyond the prefix: `(throw 5)` reads `5` without and `%!s(int=5)` with a position -/
example : errorString (.lisp (.val (.int 5)) none) = "5"
    ∧ errorString (.lisp (.val (.int 5)) (some ⟨0, { beginRow := 1, beginCol := 1, row := 1, col := 1 }⟩))
      = "§1…1,1…1: %!s(int=5)" := by decide
example : errorString (.lisp (.val .nil) (some ⟨0, { row := -1 }⟩)) = "§: %!s(<nil>)" := by decide

/-! ### 7. exactly when `LispError.Is` / `errors.Is` panic -/

/-- two lisp values of the same uncomparable dynamic type -/
def Clash (a b : V) : Prop := a.kind = b.kind ∧ a.kind.comparable = false

/-- 7a. `==` on two lisp values panics exactly for two values of the same uncomparable type -/
theorem goEqV_panic_iff (a b : V) : goEqV a b = .panic ↔ Clash a b := by
  cases a <;> cases b <;> simp [goEqV, Clash, V.kind, Kind.comparable]

/-- the lisp value under the `LispError` structs of `e` (no `Unwrap` step) -/
def directValue : E → Option V
  | .val v => some v
  | .lisp x _ => directValue x
  | _ => none

/-- the lisp value at the end of the `Unwrap` chain: the thrown lisp object, if the chain ends in one -/
def rootValue : E → Option V
  | .val v => some v
  | .lisp x _ => rootValue x
  | .wrap _ _ inner => if isErrorValue inner then rootValue inner else none
  | _ => none

def ClashO (oa ob : Option V) : Prop := ∃ a b, oa = some a ∧ ob = some b ∧ Clash a b

theorem goEq_panic {x y : E} (h : goEq x y = .panic) : ClashO (directValue x) (directValue y) := by
  induction x generalizing y with
  | val a =>
    cases y with
    | val b => exact ⟨a, b, rfl, rfl, (goEqV_panic_iff a b).1 (by simpa [goEq] using h)⟩
    | _ => simp [goEq] at h
  | lisp x1 c1 ih =>
    cases y with
    | lisp y1 c2 =>
      simp only [goEq] at h
      cases h1 : goEq x1 y1 with
      | panic => simpa [directValue] using ih h1
      | ok b => simp [h1] at h
    | _ => simp [goEq] at h
  | sentinel i m => cases y <;> simp [goEq] at h
  | strErr i m => cases y <;> simp [goEq] at h
  | wrap i n z _ => cases y <;> simp [goEq] at h

theorem isTail_panic {x t : E} (h : isTail x t = .panic) : ClashO (directValue x) (directValue t) := by
  cases t with
  | lisp y q => simpa [directValue] using goEq_panic (by simpa [isTail] using h)
  | _ => simp [isTail] at h

theorem lispIs_panic {x t : E} (h : lispIs x t = .panic) : ClashO (directValue x) (directValue t) := by
  induction x with
  | lisp x1 c ih =>
    rw [lispIs] at h
    split at h
    · cases h
    · cases h1 : lispIs x1 t with
      | panic => simpa [directValue] using ih h1
      | ok b =>
        cases b
        · simp only [h1] at h; exact isTail_panic h
        · simp [h1] at h
  | val v => simp only [lispIs] at h; split at h; cases h; exact isTail_panic h
  | sentinel i m => simp only [lispIs] at h; split at h; cases h; exact isTail_panic h
  | strErr i m => simp only [lispIs] at h; split at h; cases h; exact isTail_panic h
  | wrap i n z _ => simp only [lispIs] at h; split at h; cases h; exact isTail_panic h

theorem rootValue_of_directValue {x : E} {a : V} (h : directValue x = some a) : rootValue x = some a := by
  induction x with
  | val v => simpa [directValue, rootValue] using h
  | lisp x1 c ih => exact ih (by simpa [directValue] using h)
  | _ => simp [directValue] at h

theorem ClashO.root {x : E} {ob : Option V} (h : ClashO (directValue x) ob) : ClashO (rootValue x) ob := by
  obtain ⟨a, b, ha, hb, hc⟩ := h
  exact ⟨a, b, rootValue_of_directValue ha, hb, hc⟩

theorem isLoop_panic {e t : E} (h : isLoop e t = .panic) : ClashO (rootValue e) (directValue t) := by
  induction e with
  | lisp x c ih =>
    rw [isLoop] at h
    cases h0 : goEq (.lisp x c) t with
    | panic => exact (goEq_panic h0).root
    | ok b0 =>
      cases b0
      · simp only [h0] at h
        cases h1 : lispIs x t with
        | panic => have := (lispIs_panic h1).root; simpa [rootValue] using this
        | ok b1 =>
          cases b1
          · simp only [h1] at h
            split at h
            · simpa [rootValue] using ih h
            · cases h
          · simp [h1] at h
      · simp [h0] at h
  | wrap i n z ih =>
    rw [isLoop] at h
    cases h0 : goEq (.wrap i n z) t with
    | panic => exact (goEq_panic h0).root
    | ok b0 =>
      cases b0
      · simp only [h0] at h
        split at h
        · next hz => simpa [rootValue, hz] using ih h
        · cases h
      · simp [h0] at h
  | val v =>
    simp only [isLoop] at h
    cases h0 : goEq (.val v) t with
    | panic => exact (goEq_panic h0).root
    | ok b0 => simp [h0] at h
  | sentinel i m =>
    simp only [isLoop] at h
    cases h0 : goEq (.sentinel i m) t with
    | panic => exact (goEq_panic h0).root
    | ok b0 => simp [h0] at h
  | strErr i m =>
    simp only [isLoop] at h
    cases h0 : goEq (.strErr i m) t with
    | panic => exact (goEq_panic h0).root
    | ok b0 => simp [h0] at h

/-- 7b. `errors.Is(e, t)` can only panic when the `Unwrap` chain of `e` ends in a lisp value and the target is a
`LispError` of a lisp value of the same uncomparable dynamic type (list, vector, hash-map, set) -/
theorem errorsIs_panic {e t : E} (h : errorsIs e t = .panic) : ClashO (rootValue e) (directValue t) := by
  unfold errorsIs at h
  split at h
  · cases h
  · exact isLoop_panic h

/-- 7c. it cannot panic otherwise -/
theorem errorsIs_no_panic_of_comparable {e t : E}
    (h : ∀ a b, rootValue e = some a → rootValue t = some b → a.kind = b.kind → a.kind.comparable = true) :
    errorsIs e t ≠ .panic := by
  intro hp
  obtain ⟨a, b, ha, hb, hk, hc⟩ := errorsIs_panic hp
  have := h a b ha (rootValue_of_directValue hb) hk
  simp [this] at hc

/-- in particular an error whose thrown object is nil, a boolean, a number, a string, a keyword, a symbol or a Go
error can be tested against ANY target -/
theorem errorsIs_no_panic_of_comparable_payload {e : E}
    (h : ∀ a, rootValue e = some a → a.kind.comparable = true) (t : E) : errorsIs e t ≠ .panic :=
  errorsIs_no_panic_of_comparable fun a _ ha _ _ => h a ha

theorem lispIs_nil {x t : E} (hx : isLisp x = false) (ht : isNil t = true) : lispIs x t = .ok (isNil x) := by
  cases x <;> simp_all [isLisp, lispIs]

/-- 7d. `LispError.Is` (receiver payload `err`, not itself a `LispError`): panics exactly when both payloads are
lisp values of one uncomparable type -/
theorem lispIs_panic_iff {err t : E} (hl : isLisp err = false) :
    lispIs err t = .panic ↔ ∃ a b c, err = .val a ∧ t = .lisp (.val b) c ∧ Clash a b := by
  constructor
  · intro h
    cases ht : isNil t
    · rw [lispIs_plain hl ht] at h
      cases t with
      | lisp y q =>
        simp only [isTail] at h
        cases err with
        | val a =>
          cases y with
          | val b => exact ⟨a, b, q, rfl, rfl, (goEqV_panic_iff a b).1 (by simpa [goEq] using h)⟩
          | _ => simp [goEq] at h
        | lisp x c => simp [isLisp] at hl
        | _ => cases y <;> simp [goEq] at h
      | _ => simp [isTail] at h
    · rw [lispIs_nil hl ht] at h; cases h
  · rintro ⟨a, b, c, rfl, rfl, hc⟩
    simp [lispIs, isNil, isTail, goEq, (goEqV_panic_iff a b).2 hc]

theorem isLoop_clash {e : E} {a b : V} (c : Cursor) (he : isErrorValue e = true) (hf : Flat e = true)
    (hr : rootValue e = some a) (hc : Clash a b) : isLoop e (.lisp (.val b) c) = .panic := by
  induction e with
  | val v => simp [isErrorValue] at he
  | sentinel i m => simp [rootValue] at hr
  | strErr i m => simp [rootValue] at hr
  | wrap i n z ih =>
    cases hz : isErrorValue z
    · simp [rootValue, hz] at hr
    · simp only [rootValue, hz, if_true] at hr
      simp only [Flat] at hf
      simp [isLoop, goEq, hz, ih hz hf hr]
  | lisp x p ih =>
    simp only [Flat, Bool.and_eq_true, Bool.not_eq_true'] at hf
    simp only [rootValue] at hr
    cases x with
    | val a' =>
      simp only [rootValue, Option.some.injEq] at hr; subst hr
      simp [isLoop, goEq, (goEqV_panic_iff a' b).2 hc]
    | sentinel i m => simp [rootValue] at hr
    | strErr i m => simp [rootValue] at hr
    | lisp y q => simp [isLisp] at hf
    | wrap i n z =>
      have := ih rfl hf.2 hr
      simp [isLoop, goEq, lispIs, isNil, isTail, isErrorValue] at this ⊢
      exact this

/-- 7e. (exact, for the objects the package builds) `errors.Is(e, LispError{b})` panics exactly when the thrown object
of `e` and `b` are lisp values of one uncomparable type — `errors.Is(err, err)` included -/
theorem errorsIs_panic_iff {e : E} (b : V) (c : Cursor) (he : isErrorValue e = true) (hf : Flat e = true) :
    errorsIs e (.lisp (.val b) c) = .panic ↔ ∃ a, rootValue e = some a ∧ Clash a b := by
  constructor
  · intro h
    obtain ⟨a, b', ha, hb, hc⟩ := errorsIs_panic h
    simp only [directValue, Option.some.injEq] at hb; subst hb
    exact ⟨a, ha, hc⟩
  · rintro ⟨a, ha, hc⟩
    rw [errorsIs_of_error he rfl]
    exact isLoop_clash c he hf ha hc

/-- the minimal panicking instance: an empty list thrown, asked whether it is itself -/
example : errorsIs (.lisp (.val (.list [] none)) none) (.lisp (.val (.list [] none)) none) = .panic := by decide
example : lispIs (.val (.list [] none)) (.lisp (.val (.list [] none)) none) = .panic := by decide
example : errorsIs (newGoError 0 "f" (.lisp (.val (.map [] none)) none)) (.lisp (.val (.map [] none)) none) = .panic := by
  decide
/-- different uncomparable types do not panic, nor does anything comparable -/
example : errorsIs (.lisp (.val (.list [] none)) none) (.lisp (.val (.vec [] none)) none) = .ok false := by decide
example : errorsIs (.lisp (.val (.str "ʞa")) none) (.lisp (.val (.str "ʞa")) (some ⟨1, {}⟩)) = .ok true := by decide
/-- symbols are equal only with the same cursor POINTER: the same `(throw 'a)` read at two places differs -/
example : errorsIs (.lisp (.val (.sym "a" (some ⟨0, {}⟩))) none) (.lisp (.val (.sym "a" (some ⟨1, {}⟩))) none) = .ok false := by
  decide
example : errorsIs (.lisp (.val (.sym "a" (some ⟨0, {}⟩))) none) (.lisp (.val (.sym "a" (some ⟨0, {}⟩))) none) = .ok true := by
  decide

/-! ### the objects the package builds are `Flat` -/

theorem flat_val (v : V) : Flat (.val v) = true := rfl
theorem flat_sentinel (i : Nat) (m : String) : Flat (.sentinel i m) = true := rfl

theorem flat_throw {a r : E} (ha : Flat a = true) (h : throw a = .ok r) : Flat r = true := by
  unfold throw at h
  split at h
  · cases h; exact ha
  · exact flat_newLispError ha h

theorem flat_applyFrames {fs : List Frame} {e r : E} (he : Flat e = true) (h : applyFrames fs e = .ok r) :
    Flat r = true := by
  induction fs generalizing e with
  | nil => simp [applyFrames] at h; subst h; exact he
  | cons f fs ih =>
    unfold applyFrames at h
    split at h
    · next e' ha =>
      cases f with
      | goErr id n => simp [applyFrame] at ha; subst ha; exact ih (flat_newGoError id n he) h
      | repos c => exact ih (flat_newLispError he ha) h
    · cases h

theorem flat_errorsUnwrap {e u : E} (he : Flat e = true) (h : errorsUnwrap e = some u) : Flat u = true := by
  cases e with
  | lisp x c =>
    simp only [errorsUnwrap, unwrap] at h
    split at h
    · cases h; simp [Flat] at he; exact he.2
    · cases h
  | wrap i n z =>
    simp only [errorsUnwrap] at h
    split at h
    · cases h; simpa [Flat] using he
    · cases h
  | _ => simp [errorsUnwrap] at h

end LispModel.LispError

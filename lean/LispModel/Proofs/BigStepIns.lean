/-
  Helper for `Proofs/BigStepRefine.lean` (property C01): when the debugger is off and the context is not
  cancelled, evaluation depends neither on the poll counter `ticks`, nor on the `depth!` marks, nor on
  the EVAL-frame depth `d`.  Two runs of any of the 13 functions of the `mutual` block of
  `LispModel/Eval.lean` with the same fuel from stores that agree up to `ticks`/`marks` (`Eqv`), at any
  two depths, give the same result and stores that again agree up to `ticks`/`marks`.
  Proved by fuel induction over a 13-fold conjunction (`Ins`), using the arm equations of
  `Proofs/EvalBasic.lean`.  Core Lean only.
-/
import LispModel.Proofs.EvalBasic
import LispModel.Proofs.EvalLaws
namespace LispModel.Proofs.BigStepIns
open LispModel LispModel.Core LispModel.Proofs.EvalBasic LispModel.Proofs.EvalLaws

/-- the same store up to `ticks` and `marks`; both live (not cancelled) and without debugger -/
structure Eqv (a b : State) : Prop where
  scopes : a.scopes = b.scopes
  atoms : a.atoms = b.atoms
  trace : a.trace = b.trace
  ca : a.cancelAt = none
  cb : b.cancelAt = none
  sa : a.stepper = none
  sb : b.stepper = none

namespace Eqv
variable {a b c : State}

theorem refl' (hc : a.cancelAt = none) (hs : a.stepper = none) : Eqv a a := ⟨rfl, rfl, rfl, hc, hc, hs, hs⟩
theorem symm (h : Eqv a b) : Eqv b a := ⟨h.1.symm, h.2.symm, h.3.symm, h.cb, h.ca, h.sb, h.sa⟩
theorem trans (h : Eqv a b) (h' : Eqv b c) : Eqv a c :=
  ⟨h.1.trans h'.1, h.2.trans h'.2, h.3.trans h'.3, h.ca, h'.cb, h.sa, h'.sb⟩
theorem tickL (h : Eqv a b) : Eqv (tick a) b := ⟨h.1, h.2, h.3, h.ca, h.cb, h.sa, h.sb⟩
theorem tickR (h : Eqv a b) : Eqv a (tick b) := ⟨h.1, h.2, h.3, h.ca, h.cb, h.sa, h.sb⟩
theorem tick (h : Eqv a b) : Eqv (tick a) (tick b) := h.tickL.tickR
theorem get (h : Eqv a b) (env k) : a.get env k = b.get env k := get_scopes_congr h.1 env k
theorem pollL (h : Eqv a b) : a.poll = (false, LispModel.tick a) := poll_of_not_cancelled h.ca
theorem pollR (h : Eqv a b) : b.poll = (false, LispModel.tick b) := poll_of_not_cancelled h.cb

theorem set (h : Eqv a b) (env k v) : Eqv (a.set env k v) (b.set env k v) := by
  refine ⟨?_, ?_, ?_, ?_, ?_, ?_, ?_⟩
  · unfold State.set State.scope?; rw [h.1]; split <;> simp [h.1]
  · rw [set_atoms, set_atoms]; exact h.2
  · rw [set_trace, set_trace]; exact h.3
  · rw [set_cancelAt]; exact h.ca
  · rw [set_cancelAt]; exact h.cb
  · rw [set_stepper]; exact h.sa
  · rw [set_stepper]; exact h.sb

theorem newScope (h : Eqv a b) (o data) : Eqv (a.newScope o data).1 (b.newScope o data).1 :=
  ⟨by simp [State.newScope, h.1], h.2, h.3, h.ca, h.cb, h.sa, h.sb⟩
theorem newScope_id (h : Eqv a b) (o data) : (a.newScope o data).2 = (b.newScope o data).2 := by
  simp [State.newScope, h.1]
theorem marks (h : Eqv a b) (m m') : Eqv { a with marks := m } { b with marks := m' } :=
  ⟨h.1, h.2, h.3, h.ca, h.cb, h.sa, h.sb⟩
theorem traceCons (h : Eqv a b) (v) : Eqv { a with trace := v :: a.trace } { b with trace := v :: b.trace } :=
  ⟨h.1, h.2, by simp [h.3], h.ca, h.cb, h.sa, h.sb⟩
theorem atomsSet (h : Eqv a b) (f : Array Val → Array Val) :
    Eqv { a with atoms := f a.atoms } { b with atoms := f b.atoms } :=
  ⟨h.1, by simp [h.2], h.3, h.ca, h.cb, h.sa, h.sb⟩

theorem pushAtom (h : Eqv a b) (v) : Eqv { a with atoms := a.atoms.push v } { b with atoms := b.atoms.push v } :=
  ⟨h.1, by simp [h.2], h.3, h.ca, h.cb, h.sa, h.sb⟩
theorem setAtom (h : Eqv a b) (i v) :
    Eqv { a with atoms := a.atoms.setIfInBounds i v } { b with atoms := b.atoms.setIfInBounds i v } :=
  ⟨h.1, by simp [h.2], h.3, h.ca, h.cb, h.sa, h.sb⟩

end Eqv

/-- the induction predicate -/
structure Ins (F : Nat) : Prop where
  eval : ∀ {a b env ast d r s}, Eqv a b → eval F a env ast d = (r, s) → ∀ d', ∃ s', eval F b env ast d' = (r, s') ∧ Eqv s s'
  evalLoop : ∀ {a b env ast d r s}, Eqv a b → evalLoop F a env ast d = (r, s) → ∀ d', ∃ s', evalLoop F b env ast d' = (r, s') ∧ Eqv s s'
  evalAst : ∀ {a b env ast d r s}, Eqv a b → evalAst F a env ast d = (r, s) → ∀ d', ∃ s', evalAst F b env ast d' = (r, s') ∧ Eqv s s'
  evalList : ∀ {a b env xs d r s}, Eqv a b → evalList F a env xs d = (r, s) → ∀ d', ∃ s', evalList F b env xs d' = (r, s') ∧ Eqv s s'
  evalMap : ∀ {a b env xs d r s}, Eqv a b → evalMap F a env xs d = (r, s) → ∀ d', ∃ s', evalMap F b env xs d' = (r, s') ∧ Eqv s s'
  doForms : ∀ {a b env lst fr kl d r s}, Eqv a b → doForms F a env lst fr kl d = (r, s) → ∀ d', ∃ s', doForms F b env lst fr kl d' = (r, s') ∧ Eqv s s'
  letBinds : ∀ {a b env bs a1 d r s}, Eqv a b → letBinds F a env bs a1 d = (r, s) → ∀ d', ∃ s', letBinds F b env bs a1 d' = (r, s') ∧ Eqv s s'
  macroexpand : ∀ {a b env ast d r s}, Eqv a b → macroexpand F a env ast d = (r, s) → ∀ d', ∃ s', macroexpand F b env ast d' = (r, s') ∧ Eqv s s'
  apply : ∀ {a b f args d r s}, Eqv a b → apply F a f args d = (r, s) → ∀ d', ∃ s', apply F b f args d' = (r, s') ∧ Eqv s s'
  mapLoop : ∀ {a b f xs d r s}, Eqv a b → mapLoop F a f xs d = (r, s) → ∀ d', ∃ s', mapLoop F b f xs d' = (r, s') ∧ Eqv s s'
  updateIn : ∀ {a b v p f d r s}, Eqv a b → updateIn F a v p f d = (r, s) → ∀ d', ∃ s', updateIn F b v p f d' = (r, s') ∧ Eqv s s'
  update1 : ∀ {a b v i f d r s}, Eqv a b → update1 F a v i f d = (r, s) → ∀ d', ∃ s', update1 F b v i f d' = (r, s') ∧ Eqv s s'
  callBuiltin : ∀ {a b n args d r s}, Eqv a b → callBuiltin F a n args d = (r, s) → ∀ d', ∃ s', callBuiltin F b n args d' = (r, s') ∧ Eqv s s'

/-! ### the step lemmas -/

/-- run the a-side call `t`, transport it to the b-side with `lem` (at depth `dd`), rewrite both sides -/
local macro "ins_step " h:ident ", " t:term ", " lem:term ", " dd:term " with " r1:ident s1:ident s1':ident he1:ident : tactic =>
  `(tactic| (rcases h1 : $t with ⟨$r1:ident, $s1:ident⟩
             obtain ⟨$s1':ident, hb1, $he1:ident⟩ := $lem h1 $dd
             rw [h1] at $h:ident; rw [hb1]; clear h1 hb1
             try dsimp only at $h:ident ⊢))

/-- close a leaf: both sides returned; the states are related by one of the primitive steps -/
local macro "ins_close " h:ident : tactic =>
  `(tactic| (cases $h:ident
             first
             | exact ⟨_, rfl, by assumption⟩
             | exact ⟨_, rfl, Eqv.set (by assumption) _ _ _⟩
             | exact ⟨_, rfl, Eqv.newScope (by assumption) _ _⟩))

section steps
variable {F : Nat} (ih : Ins F)
include ih

theorem evalList_ins {a b env xs d r s} (hab : Eqv a b) (h : evalList (F+1) a env xs d = (r, s)) (d' : Nat) :
    ∃ s', evalList (F+1) b env xs d' = (r, s') ∧ Eqv s s' := by
  cases xs with
  | nil => rw [evalList.eq_2] at h ⊢; ins_close h
  | cons x xs =>
    rw [evalList.eq_3] at h ⊢
    ins_step h, eval F a env x (d+1), ih.eval hab, (d'+1) with r1 s1 s1' he1
    cases r1 with
    | ok v =>
      dsimp only at h ⊢
      ins_step h, evalList F s1 env xs d, ih.evalList he1, d' with r2 s2 s2' he2
      cases r2 <;> ins_close h
    | err e => ins_close h
    | oof => ins_close h

theorem evalMap_ins {a b env xs d r s} (hab : Eqv a b) (h : evalMap (F+1) a env xs d = (r, s)) (d' : Nat) :
    ∃ s', evalMap (F+1) b env xs d' = (r, s') ∧ Eqv s s' := by
  cases xs with
  | nil => rw [evalMap.eq_2] at h ⊢; ins_close h
  | cons x xs =>
    obtain ⟨k, x⟩ := x
    rw [evalMap.eq_3] at h ⊢
    ins_step h, eval F a env x (d+1), ih.eval hab, (d'+1) with r1 s1 s1' he1
    cases r1 with
    | ok v =>
      dsimp only at h ⊢
      ins_step h, evalMap F s1 env xs d, ih.evalMap he1, d' with r2 s2 s2' he2
      cases r2 <;> ins_close h
    | err e => ins_close h
    | oof => ins_close h

theorem mapLoop_ins {a b f xs d r s} (hab : Eqv a b) (h : mapLoop (F+1) a f xs d = (r, s)) (d' : Nat) :
    ∃ s', mapLoop (F+1) b f xs d' = (r, s') ∧ Eqv s s' := by
  cases xs with
  | nil => rw [mapLoop.eq_2] at h ⊢; ins_close h
  | cons x xs =>
    rw [mapLoop.eq_3] at h ⊢
    ins_step h, apply F a f [x] d, ih.apply hab, d' with r1 s1 s1' he1
    cases r1 with
    | ok v =>
      dsimp only at h ⊢
      ins_step h, mapLoop F s1 f xs d, ih.mapLoop he1, d' with r2 s2 s2' he2
      cases r2 <;> ins_close h
    | err e => ins_close h
    | oof => ins_close h

theorem evalAst_ins {a b env ast d r s} (hab : Eqv a b) (h : evalAst (F+1) a env ast d = (r, s)) (d' : Nat) :
    ∃ s', evalAst (F+1) b env ast d' = (r, s') ∧ Eqv s s' := by
  cases ast <;> simp only [evalAst] at h ⊢
  case sym n p =>
    rw [← hab.get env n]
    rcases hg : a.get env n with _ | v <;> rw [hg] at h <;> dsimp only at h ⊢ <;> ins_close h
  case list xs p =>
    ins_step h, evalList F a env xs d, ih.evalList hab, d' with r1 s1 s1' he1
    cases r1 <;> ins_close h
  case vec xs p =>
    ins_step h, evalList F a env xs d, ih.evalList hab, d' with r1 s1 s1' he1
    cases r1 <;> ins_close h
  case map kvs =>
    ins_step h, evalMap F a env kvs d, ih.evalMap hab, d' with r1 s1 s1' he1
    cases r1 <;> ins_close h
  all_goals ins_close h

theorem letBinds_ins {a b env bs a1 d r s} (hab : Eqv a b) (h : letBinds (F+1) a env bs a1 d = (r, s)) (d' : Nat) :
    ∃ s', letBinds (F+1) b env bs a1 d' = (r, s') ∧ Eqv s s' := by
  match bs with
  | [] => rw [letBinds.eq_2] at h ⊢; ins_close h
  | [_] => rw [letBinds.eq_3] at h ⊢; ins_close h
  | bb :: x :: rest =>
    unfold letBinds at h ⊢
    cases bb
    case sym n p =>
      dsimp only at h ⊢
      ins_step h, eval F a env x (d+1), ih.eval hab, (d'+1) with r1 s1 s1' he1
      cases r1 with
      | ok v => exact ih.letBinds (he1.set env n v) h d'
      | err e => ins_close h
      | oof => ins_close h
    all_goals (dsimp only at h ⊢; ins_close h)

omit ih in
theorem macroexpand_macro {st : State} {env : Nat} {n : String} {p args pos d params body fenv fp}
    (hg : st.get env n = some (.fn params body fenv true fp)) :
    macroexpand (F+1) st env (.list (.sym n p :: args) pos) d =
      match bindParams params args with
      | .error e => (.err e, st)
      | .ok data =>
        match eval F (st.newScope fenv data).1 (st.newScope fenv data).2 body (d+1) with
        | (.ok ast', st) => macroexpand F st env ast' d
        | r => r := by
  rw [macroexpand.eq_2]; simp only [hg]; rfl

/-- the head of the form is a symbol bound to a macro -/
def IsMacroCall (st : State) (env : Nat) (ast : Val) : Prop :=
  ∃ n p args pos params body fenv fp, ast = .list (.sym n p :: args) pos ∧
    st.get env n = some (.fn params body fenv true fp)

omit ih in
theorem macroexpand_nonmacro {st : State} {env : Nat} {ast : Val} {d : Nat} (hm : ¬ IsMacroCall st env ast) :
    macroexpand (F+1) st env ast d = (.ok ast, st) := by
  unfold macroexpand
  split
  · split
    · rename_i heq; exact absurd ⟨_, _, _, _, _, _, _, _, rfl, heq⟩ hm
    · rfl
  · rfl

theorem macroexpand_ins {a b env ast d r s} (hab : Eqv a b) (h : macroexpand (F+1) a env ast d = (r, s)) (d' : Nat) :
    ∃ s', macroexpand (F+1) b env ast d' = (r, s') ∧ Eqv s s' := by
  by_cases hm : IsMacroCall a env ast
  · obtain ⟨n, p, args, pos, params, body, fenv, fp, rfl, hg⟩ := hm
    rw [macroexpand_macro hg] at h
    rw [macroexpand_macro (by rw [← hab.get]; exact hg)]
    cases hb : bindParams params args with
    | error e => rw [hb] at h; ins_close h
    | ok data =>
      rw [hb] at h; dsimp only at h ⊢
      rw [← hab.newScope_id fenv data]
      ins_step h, eval F (a.newScope fenv data).1 (a.newScope fenv data).2 body (d+1), ih.eval (hab.newScope fenv data), (d'+1) with r1 s1 s1' he1
      cases r1 with
      | ok v => exact ih.macroexpand he1 h d'
      | err e => ins_close h
      | oof => ins_close h
  · have hm' : ¬ IsMacroCall b env ast := by
      rintro ⟨n, p, args, pos, params, body, fenv, fp, rfl, hg⟩
      exact hm ⟨n, p, args, pos, params, body, fenv, fp, rfl, by rw [hab.get]; exact hg⟩
    rw [macroexpand_nonmacro hm] at h; rw [macroexpand_nonmacro hm']; ins_close h

theorem apply_ins {a b f args d r s} (hab : Eqv a b) (h : apply (F+1) a f args d = (r, s)) (d' : Nat) :
    ∃ s', apply (F+1) b f args d' = (r, s') ∧ Eqv s s' := by
  unfold apply at h ⊢
  cases f
  case fn params body fenv m fp =>
    dsimp only at h ⊢
    cases hb : bindParams params args with
    | error e => rw [hb] at h; ins_close h
    | ok data =>
      rw [hb] at h; dsimp only at h ⊢
      have hid : (b.newScope fenv data).2 = (a.newScope fenv data).2 := (hab.newScope_id fenv data).symm
      exact hid ▸ ih.eval (hab.newScope fenv data) h (d'+1)
  case builtin n => exact ih.callBuiltin hab h d'
  all_goals (dsimp only at h ⊢; ins_close h)

/-- leaf of a fully split run with at most one recursive call `t` (already transported) -/
local macro "ins_leaf " t:term : tactic => `(tactic|
  first
  | exact ⟨_, rfl, by assumption⟩
  | (obtain ⟨s', hb, he⟩ := $t
     rw [hb]
     first
     | exact ⟨_, rfl, he⟩
     | (simp only [*]; exact ⟨_, rfl, he⟩)
     | (cases ‹Res Val› <;> first | exact ⟨_, rfl, he⟩ | (exfalso; simp_all; done)))
  | contradiction
  | (exfalso; simp_all; done))

theorem update1_ins {a b v i f d r s} (hab : Eqv a b) (h : update1 (F+1) a v i f d = (r, s)) (d' : Nat) :
    ∃ s', update1 (F+1) b v i f d' = (r, s') ∧ Eqv s s' := by
  unfold update1 at h ⊢; dsimp only at h ⊢
  (repeat' split at h) <;> (try cases h) <;> ins_leaf (ih.apply hab ‹apply _ _ _ _ _ = _› d')

theorem updateIn_ins {a b v p f d r s} (hab : Eqv a b) (h : updateIn (F+1) a v p f d = (r, s)) (d' : Nat) :
    ∃ s', updateIn (F+1) b v p f d' = (r, s') ∧ Eqv s s' := by
  match p with
  | [] => rw [updateIn.eq_2] at h ⊢; ins_close h
  | [i] => rw [updateIn.eq_3] at h ⊢; exact ih.update1 hab h d'
  | i :: j :: rest =>
    unfold updateIn at h ⊢; dsimp only at h ⊢
    (repeat' split at h) <;> (try cases h) <;> ins_leaf (ih.updateIn hab ‹updateIn _ _ _ _ _ _ = _› d')

theorem doForms_ins {a b env lst fr kl d r s} (hab : Eqv a b) (h : doForms (F+1) a env lst fr kl d = (r, s)) (d' : Nat) :
    ∃ s', doForms (F+1) b env lst fr kl d' = (r, s') ∧ Eqv s s' := by
  unfold doForms at h ⊢
  simp only [hab.sa, hab.sb, Bool.false_eq_true, ↓reduceIte] at h ⊢
  by_cases hl : lst.length ≤ fr
  · simp only [hl, ↓reduceIte] at h ⊢; ins_close h
  simp only [hl, ↓reduceIte] at h ⊢
  ins_step h, evalList F a env (if kl = true then (List.drop fr lst).dropLast else List.drop fr lst) d, ih.evalList hab, d' with r1 s1 s1' he1
  cases r1 <;> dsimp only at h ⊢
  · cases kl <;> simp only [Bool.false_eq_true, ↓reduceIte] at h ⊢ <;> ins_close h
  · ins_close h
  · ins_close h

theorem eval_ins {a b env ast d r s} (hab : Eqv a b) (h : eval (F+1) a env ast d = (r, s)) (d' : Nat) :
    ∃ s', eval (F+1) b env ast d' = (r, s') ∧ Eqv s s' := by
  rw [eval_stepper_none hab.sa] at h; rw [eval_stepper_none hab.sb]; exact ih.evalLoop hab h d'

/-- leaf of a builtin arm: at most one callback `t`; the final state is a primitive step away -/
local macro "ins_fin " he:term : tactic => `(tactic|
  first
  | exact ⟨_, rfl, $he⟩
  | (refine ⟨_, rfl, ⟨?_, ?_, ?_, (Eqv.ca $he :), (Eqv.cb $he :), (Eqv.sa $he :), (Eqv.sb $he :)⟩⟩ <;>
      (simp [Eqv.scopes $he, Eqv.atoms $he, Eqv.trace $he]; done)))

local macro "ins_bleaf " hab:ident t:term : tactic => `(tactic|
  first
  | ins_fin $hab
  | (obtain ⟨s', hb, he⟩ := $t
     rw [hb]
     first
     | ins_fin he
     | (simp only [*]; ins_fin he)
     | (cases ‹Res Val› <;> first | ins_fin he | (exfalso; simp_all; done)))
  | contradiction
  | (exfalso; simp_all; done))

theorem callBuiltin_ins {a b n args d r s} (hab : Eqv a b) (h : callBuiltin (F+1) a n args d = (r, s)) (d' : Nat) :
    ∃ s', callBuiltin (F+1) b n args d' = (r, s') ∧ Eqv s s' := by
  unfold callBuiltin at h ⊢; dsimp only [State.newAtom] at h ⊢
  rw [← hab.atoms]
  by_cases hn : n = "trace!"
  · rw [if_pos hn] at h ⊢; (repeat' split at h) <;> cases h <;> ins_fin hab
  rw [if_neg hn] at h ⊢; clear hn
  by_cases hn : n = "depth!"
  · rw [if_pos hn] at h ⊢; (repeat' split at h) <;> cases h <;> ins_fin hab
  rw [if_neg hn] at h ⊢; clear hn
  by_cases hn : n = "eval"
  · rw [if_pos hn] at h ⊢
    split at h
    · exact ih.eval hab h (d'+1)
    · ins_close h
  rw [if_neg hn] at h ⊢; clear hn
  by_cases hn : n = "apply"
  · rw [if_pos hn] at h ⊢
    (repeat' split at h) <;> (try cases h) <;> ins_bleaf hab (ih.apply hab ‹apply _ _ _ _ _ = _› d')
  rw [if_neg hn] at h ⊢; clear hn
  by_cases hn : n = "map"
  · rw [if_pos hn] at h ⊢
    (repeat' split at h) <;> (try cases h) <;> ins_bleaf hab (ih.mapLoop hab ‹mapLoop _ _ _ _ _ = _› d')
  rw [if_neg hn] at h ⊢; clear hn
  by_cases hn : n = "atom"
  · rw [if_pos hn] at h ⊢; (repeat' split at h) <;> cases h <;> ins_fin hab
  rw [if_neg hn] at h ⊢; clear hn
  by_cases hn : n = "deref"
  · rw [if_pos hn] at h ⊢; (repeat' split at h) <;> cases h <;> ins_fin hab
  rw [if_neg hn] at h ⊢; clear hn
  by_cases hn : n = "reset!"
  · rw [if_pos hn] at h ⊢; (repeat' split at h) <;> cases h <;> ins_fin hab
  rw [if_neg hn] at h ⊢; clear hn
  by_cases hn : n = "swap!"
  · rw [if_pos hn] at h ⊢
    (repeat' split at h) <;> (try cases h) <;> ins_bleaf hab (ih.apply hab ‹apply _ _ _ _ _ = _› d')
  rw [if_neg hn] at h ⊢; clear hn
  by_cases hn : n = "update"
  · rw [if_pos hn] at h ⊢
    (repeat' split at h) <;> (try cases h) <;> ins_bleaf hab (ih.update1 hab ‹update1 _ _ _ _ _ _ = _› d')
  rw [if_neg hn] at h ⊢; clear hn
  by_cases hn : n = "update-in"
  · rw [if_pos hn] at h ⊢
    (repeat' split at h) <;> (try cases h) <;> ins_bleaf hab (ih.updateIn hab ‹updateIn _ _ _ _ _ _ = _› d')
  rw [if_neg hn] at h ⊢; clear hn
  (repeat' split at h) <;> cases h <;> ins_fin hab

omit ih in
theorem outing1Defer_none {st : State} (hs : st.stepper = none) : outing1Defer st = st := by
  unfold outing1Defer; simp only [hs]

theorem tryCatch_ins {parts env d rb} {a b : State} {r s} (hab : Eqv a b)
    (h : tryCatch F parts env d rb a = (r, s)) (d' : Nat) :
    ∃ s', tryCatch F parts env d' rb b = (r, s') ∧ Eqv s s' := by
  unfold tryCatch at h ⊢
  cases rb with
  | ok v => ins_close h
  | oof => ins_close h
  | err e =>
    dsimp only at h ⊢
    have hid : ∀ o data, (b.newScope o data).2 = (a.newScope o data).2 := fun o data => (hab.newScope_id o data).symm
    simp only [hid]
    (repeat' split at h) <;> (try cases h) <;>
      first
      | exact ⟨_, rfl, hab⟩
      | exact ih.doForms (hab.newScope _ _) h d'

theorem tryFinally_ins {parts env d rb} {a b : State} {r s} (hab : Eqv a b)
    (h : tryFinally F parts env d rb a = (r, s)) (d' : Nat) :
    ∃ s', tryFinally F parts env d' rb b = (r, s') ∧ Eqv s s' := by
  unfold tryFinally at h ⊢
  rw [outing1Defer_none hab.sa] at h; rw [outing1Defer_none hab.sb]
  cases rb with
  | oof => ins_close h
  | ok v =>
    dsimp only at h ⊢
    (repeat' split at h) <;> (try cases h) <;> ins_leaf (ih.doForms hab ‹doForms _ _ _ _ _ _ _ = _› d')
  | err e =>
    dsimp only at h ⊢
    (repeat' split at h) <;> (try cases h) <;> ins_leaf (ih.doForms hab ‹doForms _ _ _ _ _ _ _ = _› d')

omit ih in
theorem cw {F st env ast d} (hs : st.stepper = none) : continueWith F st env ast d = evalLoop F st env ast d :=
  continueWith_of_stepper_none hs

theorem evalLoop_ins {a b env ast d r s} (hab : Eqv a b) (h : evalLoop (F+1) a env ast d = (r, s)) (d' : Nat) :
    ∃ s', evalLoop (F+1) b env ast d' = (r, s') ∧ Eqv s s' := by
  have hpa := hab.pollL
  have hpb := hab.pollR
  have h0 : Eqv (tick a) (tick b) := hab.tick
  by_cases hl : ∃ xs p, ast = .list xs p
  case neg =>
    rw [evalLoop_nonlist hpa (fun xs p hc => hl ⟨xs, p, hc⟩)] at h
    rw [evalLoop_nonlist hpb (fun xs p hc => hl ⟨xs, p, hc⟩)]
    exact ih.evalAst h0 h d'
  obtain ⟨xs, p, rfl⟩ := hl
  rcases hm : macroexpand F (tick a) env (.list xs p) d with ⟨rm, s1⟩
  obtain ⟨s1', hm', he1⟩ := ih.macroexpand h0 hm d'
  cases rm with
  | err e => rw [evalLoop_mac_err hpa hm] at h; rw [evalLoop_mac_err hpb hm']; ins_close h
  | oof => rw [evalLoop_mac_oof hpa hm] at h; rw [evalLoop_mac_oof hpb hm']; ins_close h
  | ok ast' =>
    by_cases hl' : ∃ xs p, ast' = .list xs p
    case neg =>
      rw [evalLoop_mac_nonlist hpa hm (fun xs p hc => hl' ⟨xs, p, hc⟩)] at h
      rw [evalLoop_mac_nonlist hpb hm' (fun xs p hc => hl' ⟨xs, p, hc⟩)]
      exact ih.evalAst he1 h d'
    obtain ⟨ys, p', rfl⟩ := hl'
    cases ys with
    | nil => rw [evalLoop_mac_empty hpa hm] at h; rw [evalLoop_mac_empty hpb hm']; ins_close h
    | cons a0 ops =>
      have hid : ∀ o data, (s1'.newScope o data).2 = (s1.newScope o data).2 :=
        fun o data => (he1.newScope_id o data).symm
      by_cases h_def : a0sym a0 = "def"
      · rw [evalLoop_def hpa hm h_def] at h; rw [evalLoop_def hpb hm' h_def]
        ins_step h, eval F s1 env (ops.getD 1 .nil) (d+1), ih.eval he1, (d'+1) with r2 s2 s2' he2
        cases r2 <;> dsimp only at h ⊢
        · split at h <;> ins_close h
        · ins_close h
        · ins_close h
      by_cases h_let : a0sym a0 = "let"
      · rw [evalLoop_let hpa hm h_let] at h; rw [evalLoop_let hpb hm' h_let]
        simp only [hid]
        have he1n := he1.newScope env []
        cases hsq : seqOf? (ops.getD 0 .nil) with
        | none => rw [hsq] at h; dsimp only at h ⊢; ins_close h
        | some arr1 =>
          rw [hsq] at h; dsimp only at h ⊢
          by_cases hodd : arr1.length % 2 ≠ 0
          · rw [if_pos hodd] at h ⊢; ins_close h
          rw [if_neg hodd] at h ⊢
          ins_step h, letBinds F (s1.newScope env []).1 (s1.newScope env []).2 arr1 (ops.getD 0 .nil) d, ih.letBinds he1n, d' with r2 s2 s2' he2
          cases r2 with
          | ok v =>
            dsimp only at h ⊢
            ins_step h, doForms F s2 (s1.newScope env []).2 (a0 :: ops) 2 true d, ih.doForms he2, d' with r3 s3 s3' he3
            cases r3 with
            | ok nx =>
              dsimp only at h ⊢
              rw [cw he3.sa] at h; rw [cw he3.sb]; exact ih.evalLoop he3 h d'
            | err e => ins_close h
            | oof => ins_close h
          | err e => ins_close h
          | oof => ins_close h
      by_cases h_quote : a0sym a0 = "quote"
      · rw [evalLoop_quote hpa hm h_quote] at h; rw [evalLoop_quote hpb hm' h_quote]; ins_close h
      by_cases h_quasiquoteexpand : a0sym a0 = "quasiquoteexpand"
      · rw [evalLoop_quasiquoteexpand hpa hm h_quasiquoteexpand] at h
        rw [evalLoop_quasiquoteexpand hpb hm' h_quasiquoteexpand]; ins_close h
      by_cases h_quasiquote : a0sym a0 = "quasiquote"
      · rw [evalLoop_quasiquote hpa hm h_quasiquote, cw he1.sa] at h
        rw [evalLoop_quasiquote hpb hm' h_quasiquote, cw he1.sb]; exact ih.evalLoop he1 h d'
      by_cases h_defmacro : a0sym a0 = "defmacro"
      · rw [evalLoop_defmacro hpa hm h_defmacro] at h; rw [evalLoop_defmacro hpb hm' h_defmacro]
        ins_step h, eval F s1 env (ops.getD 1 .nil) (d+1), ih.eval he1, (d'+1) with r2 s2 s2' he2
        cases r2 <;> dsimp only at h ⊢
        · (repeat' split at h) <;> ins_close h
        · ins_close h
        · ins_close h
      by_cases h_macroexpand : a0sym a0 = "macroexpand"
      · rw [evalLoop_macroexpand hpa hm h_macroexpand] at h; rw [evalLoop_macroexpand hpb hm' h_macroexpand]
        exact ih.macroexpand he1 h d'
      by_cases h_try : a0sym a0 = "try"
      · rw [evalLoop_try hpa hm h_try] at h; rw [evalLoop_try hpb hm' h_try]
        by_cases hemp : ops.isEmpty = true
        · rw [if_pos hemp] at h ⊢; ins_close h
        rw [if_neg hemp] at h ⊢
        cases hsp : splitTry (a0 :: ops) with
        | error msg => rw [hsp] at h; dsimp only at h ⊢; ins_close h
        | ok parts =>
          rw [hsp] at h; dsimp only at h ⊢
          rcases hb : doForms F s1 env parts.body 0 false d with ⟨rb, sb⟩
          obtain ⟨sb', hb', heb⟩ := ih.doForms he1 hb d'
          rw [hb] at h; rw [hb']; dsimp only at h ⊢
          rcases hc : tryCatch F parts env d rb sb with ⟨rc, sc⟩
          obtain ⟨sc', hc', hec⟩ := tryCatch_ins ih heb hc d'
          rw [hc] at h; rw [hc']; dsimp only at h ⊢
          exact tryFinally_ins ih hec h d'
      by_cases h_do : a0sym a0 = "do"
      · rw [evalLoop_do hpa hm h_do] at h; rw [evalLoop_do hpb hm' h_do]
        ins_step h, doForms F s1 env (a0 :: ops) 1 true d, ih.doForms he1, d' with r3 s3 s3' he3
        cases r3 with
        | ok nx =>
          dsimp only at h ⊢
          rw [cw he3.sa] at h; rw [cw he3.sb]; exact ih.evalLoop he3 h d'
        | err e => ins_close h
        | oof => ins_close h
      by_cases h_if : a0sym a0 = "if"
      · rw [evalLoop_if hpa hm h_if] at h; rw [evalLoop_if hpb hm' h_if]
        ins_step h, eval F s1 env (ops.getD 0 .nil) (d+1), ih.eval he1, (d'+1) with r2 s2 s2' he2
        cases r2 with
        | ok c =>
          dsimp only at h ⊢
          rw [cw he2.sa, cw he2.sa] at h; rw [cw he2.sb, cw he2.sb]
          by_cases ht : truthy c = true
          · rw [if_pos ht] at h ⊢; exact ih.evalLoop he2 h d'
          rw [if_neg ht] at h ⊢
          by_cases h4 : (a0 :: ops).length ≥ 4
          · rw [if_pos h4] at h ⊢; exact ih.evalLoop he2 h d'
          rw [if_neg h4] at h ⊢; ins_close h
        | err e => ins_close h
        | oof => ins_close h
      by_cases h_fn : a0sym a0 = "fn"
      · rw [evalLoop_fn hpa hm h_fn] at h; rw [evalLoop_fn hpb hm' h_fn]
        by_cases h2 : (a0 :: ops).length < 2
        · rw [if_pos h2] at h ⊢; ins_close h
        rw [if_neg h2] at h ⊢; ins_close h
      have ha : a0sym a0 ∉ specialForms := by
        simp only [specialForms, List.mem_cons, List.not_mem_nil, or_false, not_or]
        exact ⟨h_def, h_let, h_quote, h_quasiquoteexpand, h_quasiquote, h_defmacro, h_macroexpand, h_try, h_do, h_if, h_fn⟩
      rw [evalLoop_app hpa hm ha] at h; rw [evalLoop_app hpb hm' ha]
      ins_step h, evalList F s1 env (a0 :: ops) d, ih.evalList he1, d' with r2 s2 s2' he2
      cases r2 with
      | ok el =>
        dsimp only at h ⊢
        cases el with
        | nil => ins_close h
        | cons f args =>
          dsimp only at h ⊢
          cases f
          case fn params body fenv m fp =>
            dsimp only at h ⊢
            cases hbp : bindParams params args with
            | error e => rw [hbp] at h; dsimp only at h ⊢; split at h <;> ins_close h
            | ok data =>
              rw [hbp] at h; dsimp only at h ⊢
              rw [cw (he2.newScope fenv data).sa] at h; rw [cw (he2.newScope fenv data).sb]
              rw [← he2.newScope_id fenv data]
              exact ih.evalLoop (he2.newScope fenv data) h d'
          case builtin n =>
            dsimp only at h ⊢
            ins_step h, callBuiltin F s2 n args d, ih.callBuiltin he2, d' with r3 s3 s3' he3
            cases r3 <;> ins_close h
          all_goals (dsimp only at h ⊢; ins_close h)
      | err e => ins_close h
      | oof => ins_close h

end steps

/-- evaluation does not depend on `ticks`, `marks` nor the depth (debugger off, not cancelled) -/
theorem ins : ∀ F, Ins F := by
  intro F
  induction F with
  | zero =>
    constructor <;> intros <;> rename_i hab h d'
    · rw [eval.eq_1] at h ⊢; ins_close h
    · rw [evalLoop.eq_1] at h ⊢; ins_close h
    · unfold evalAst at h ⊢; ins_close h
    · rw [evalList.eq_1] at h ⊢; ins_close h
    · rw [evalMap.eq_1] at h ⊢; ins_close h
    · rw [doForms.eq_1] at h ⊢; ins_close h
    · unfold letBinds at h ⊢; ins_close h
    · unfold macroexpand at h ⊢; ins_close h
    · unfold apply at h ⊢; ins_close h
    · rw [mapLoop.eq_1] at h ⊢; ins_close h
    · unfold updateIn at h ⊢; ins_close h
    · unfold update1 at h ⊢; ins_close h
    · unfold callBuiltin at h ⊢; ins_close h
  | succ F ih =>
    exact ⟨eval_ins ih, evalLoop_ins ih, evalAst_ins ih, evalList_ins ih, evalMap_ins ih, doForms_ins ih,
      letBinds_ins ih, macroexpand_ins ih, apply_ins ih, mapLoop_ins ih, updateIn_ins ih, update1_ins ih,
      callBuiltin_ins ih⟩

end LispModel.Proofs.BigStepIns

/-
  C06, byte level: decoding the UTF-8 encoding of a list of (valid) characters gives the characters
  back, one well-encoded rune each (`decodeAll_utf8`).  Core Lean only.
-/
import LispModel.Scan
namespace LispModel.Proofs.PrintRead
open LispModel LispModel.Scan

/-- the UTF-8 bytes of a character list (what `String.toUTF8` is, in a kernel-evaluable form) -/
def utf8 (cs : List Char) : List UInt8 := cs.flatMap String.utf8EncodeChar

/-- the decoded form of one character -/
def runeOf (c : Char) : Rune := ⟨c.toNat, c.utf8Size, false⟩

/-- the decoded form of well-encoded text -/
def runesOf (cs : List Char) : List Rune := cs.map runeOf

theorem ofNat_toNat (n : Nat) (h : n < 256) : (UInt8.ofNat n).toNat = n := by
  simp [UInt8.toNat_ofNat']; omega

theorem utf8Size_nat (c : Char) : c.utf8Size =
    if c.val.toNat ≤ 127 then 1 else if c.val.toNat ≤ 2047 then 2
    else if c.val.toNat ≤ 65535 then 3 else 4 := by
  unfold Char.utf8Size
  simp only [UInt32.le_iff_toNat_le, UInt32.toNat_ofNatLT]

theorem decodeRune_utf8 (c : Char) (bs : List UInt8) :
    decodeRune (String.utf8EncodeChar c ++ bs) = some (runeOf c, bs) := by
  have hv : c.val.toNat < 55296 ∨ 57343 < c.val.toNat ∧ c.val.toNat < 1114112 := c.valid
  unfold runeOf Char.toNat
  rw [utf8Size_nat]
  unfold String.utf8EncodeChar
  generalize c.val.toNat = n at hv
  simp only []
  by_cases h1 : n ≤ 127
  · rw [if_pos h1, if_pos h1]
    have e0 := ofNat_toNat n (by omega)
    simp only [List.cons_append, List.nil_append, decodeRune, e0]
    rw [if_pos (by omega)]
  · rw [if_neg h1, if_neg h1]
    by_cases h2 : n ≤ 2047
    · rw [if_pos h2, if_pos h2]
      have e0 := ofNat_toNat (n / 64 % 32 + 192) (by omega)
      have e1 := ofNat_toNat (n % 64 + 128) (by omega)
      simp only [List.cons_append, List.nil_append, decodeRune, e0, e1]
      rw [if_neg (by omega), if_neg (by omega), if_pos (by omega)]
      have hc : (decide (128 ≤ n % 64 + 128) && decide (n % 64 + 128 ≤ 191)) = true := by
        simp only [Bool.and_eq_true, decide_eq_true_eq]; omega
      rw [if_pos hc]
      have : (n / 64 % 32 + 192) % 32 * 64 + (n % 64 + 128) % 64 = n := by omega
      rw [this]
    · rw [if_neg h2, if_neg h2]
      by_cases h3 : n ≤ 65535
      · rw [if_pos h3, if_pos h3]
        have e0 := ofNat_toNat (n / 4096 % 16 + 224) (by omega)
        have e1 := ofNat_toNat (n / 64 % 64 + 128) (by omega)
        have e2 := ofNat_toNat (n % 64 + 128) (by omega)
        simp only [List.cons_append, List.nil_append, decodeRune, e0, e1, e2]
        rw [if_neg (by omega), if_neg (by omega), if_neg (by omega), if_pos (by omega)]
        have hc : (decide ((if n / 4096 % 16 + 224 = 224 then 160 else 128) ≤ n / 64 % 64 + 128) &&
            decide (n / 64 % 64 + 128 ≤ if n / 4096 % 16 + 224 = 237 then 159 else 191) &&
            (decide (128 ≤ n % 64 + 128) && decide (n % 64 + 128 ≤ 191))) = true := by
          simp only [Bool.and_eq_true, decide_eq_true_eq]
          refine ⟨⟨?_, ?_⟩, ?_, ?_⟩
          · split <;> omega
          · split <;> omega
          · omega
          · omega
        rw [if_pos hc]
        have : (n / 4096 % 16 + 224) % 16 * 4096 + (n / 64 % 64 + 128) % 64 * 64 + (n % 64 + 128) % 64 = n := by
          omega
        rw [this]
      · rw [if_neg h3, if_neg h3]
        have e0 := ofNat_toNat (n / 262144 % 8 + 240) (by omega)
        have e1 := ofNat_toNat (n / 4096 % 64 + 128) (by omega)
        have e2 := ofNat_toNat (n / 64 % 64 + 128) (by omega)
        have e3 := ofNat_toNat (n % 64 + 128) (by omega)
        simp only [List.cons_append, List.nil_append, decodeRune, e0, e1, e2, e3]
        rw [if_neg (by omega), if_neg (by omega), if_neg (by omega), if_neg (by omega), if_pos (by omega)]
        have hc : (decide ((if n / 262144 % 8 + 240 = 240 then 144 else 128) ≤ n / 4096 % 64 + 128) &&
            decide (n / 4096 % 64 + 128 ≤ if n / 262144 % 8 + 240 = 244 then 143 else 191) &&
            (decide (128 ≤ n / 64 % 64 + 128) && decide (n / 64 % 64 + 128 ≤ 191)) &&
            (decide (128 ≤ n % 64 + 128) && decide (n % 64 + 128 ≤ 191))) = true := by
          simp only [Bool.and_eq_true, decide_eq_true_eq]
          refine ⟨⟨⟨?_, ?_⟩, ?_, ?_⟩, ?_, ?_⟩
          · split <;> omega
          · split <;> omega
          · omega
          · omega
          · omega
          · omega
        rw [if_pos hc]
        have : (n / 262144 % 8 + 240) % 8 * 262144 + (n / 4096 % 64 + 128) % 64 * 4096 +
            (n / 64 % 64 + 128) % 64 * 64 + (n % 64 + 128) % 64 = n := by
          omega
        rw [this]

theorem utf8_cons (c : Char) (cs : List Char) : utf8 (c :: cs) = String.utf8EncodeChar c ++ utf8 cs := by
  simp [utf8]

theorem utf8_length_ge (cs : List Char) : cs.length ≤ (utf8 cs).length := by
  induction cs with
  | nil => simp [utf8]
  | cons c cs ih =>
    rw [utf8_cons, List.length_append, String.length_utf8EncodeChar, utf8Size_nat]
    simp only [List.length_cons]
    split
    · omega
    · split
      · omega
      · split <;> omega

theorem decodeAllAux_utf8 (cs : List Char) : ∀ fuel, cs.length ≤ fuel →
    decodeAllAux fuel (utf8 cs) = runesOf cs := by
  induction cs with
  | nil => intro fuel _; cases fuel <;> simp [decodeAllAux, utf8, runesOf, decodeRune]
  | cons c cs ih =>
    intro fuel hf
    obtain ⟨f, rfl⟩ : ∃ f, fuel = f + 1 := ⟨fuel - 1, by simp at hf; omega⟩
    rw [utf8_cons, decodeAllAux, decodeRune_utf8]
    simp only [runesOf, List.map_cons]
    rw [← runesOf, ih f (by simp at hf; omega)]

/-- decoding the UTF-8 encoding of a character list gives the characters back, none `bad` -/
theorem decodeAll_utf8 (cs : List Char) : decodeAll (utf8 cs) = runesOf cs :=
  decodeAllAux_utf8 cs _ (utf8_length_ge cs)

end LispModel.Proofs.PrintRead

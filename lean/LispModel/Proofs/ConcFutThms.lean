/-
  C10 proofs, part 11: the property-level corollaries of the `mu` discipline and the outcome invariant.
-/
import LispModel.Proofs.ConcFutOutInv
import LispModel.Proofs.ConcFutRace
namespace LispModel.Proofs.ConcFut
open LispModel.Conc LispModel.Conc.Fut

theorem sent_pastDone {F : FutS} (h : sent F) : pastDone F := by
  unfold sent at h; unfold pastDone
  split at h
  · rcases h with h | h
    · exact Or.inl (by omega)
    · exact Or.inr h
  · exact h

/-- the body function is applied at most once, and exactly once by the time its frame is past `Apply` -/
theorem body_runs_once {s : FState} (h : OutInv s) (f : Nat) :
    (s.futs f).runs ≤ 1 ∧
    ((s.futs f).res ≠ none → (s.futs f).runs = 1) ∧
    (∀ b, (s.futs f).body = some b → ¬ (b.pc = 0 ∧ b.returning = false) → (s.futs f).runs = 1) := by
  have hr := h.runs f
  refine ⟨?_, ?_, ?_⟩
  · rw [hr]; split <;> omega
  · intro hne
    rw [hr]
    cases hres : (s.futs f).res with
    | none => exact absurd hres hne
    | some o => simp
  · intro b hb hnot
    have := (h.fresh f b hb).1
    have hne : (s.futs f).res ≠ none := fun hn => hnot (this.mpr hn)
    rw [hr]
    cases hres : (s.futs f).res with
    | none => exact absurd hres hne
    | some o => simp

/-- every deref that returned an outcome returned THE outcome of the body -/
theorem deref_returns_result {s : FState} (h : OutInv s) {t : Nat} {n : OpName} {f : Nat} {o : Outcome}
    (hm : (n, f, Resp.out o) ∈ (s.threads t).out) : (s.futs f).res = some o :=
  (h.outs t n f o hm).1

theorem all_derefs_agree {s : FState} (h : OutInv s) {t t' : Nat} {n n' : OpName} {f : Nat} {o o' : Outcome}
    (hm : (n, f, Resp.out o) ∈ (s.threads t).out) (hm' : (n', f, Resp.out o') ∈ (s.threads t').out) :
    o = o' := by
  have h1 := deref_returns_result h hm
  have h2 := deref_returns_result h hm'
  rw [h1] at h2; cases h2; rfl

/-- `future-done?` is true as soon as any deref of that future has returned an outcome -/
theorem done_after_any_deref {s : FState} (h : OutInv s) {t : Nat} {n : OpName} {f : Nat} {o : Outcome}
    (hm : (n, f, Resp.out o) ∈ (s.threads t).out) : (s.futs f).done = true :=
  h.done f (sent_pastDone (h.outs t n f o hm).2)

/-- a reader that has taken the outcome out of a channel can always put it back: the channel is
    empty because nobody else holds or deposits an outcome item meanwhile -/
theorem deref_never_blocks_on_redeposit {s : FState} (h : OutInv s) {t arm : Nat} {fr : FFrame}
    (hc : (s.threads t).cur = some fr) (hn : fr.name = .derefF) (hpc : fr.pc = 1)
    (hnr : fr.returning = false) : (fstep prog s (.thr t arm)).isSome = true := by
  have hin : inflight s t fr.fut := ⟨fr, hc, hn, rfl, hpc, hnr⟩
  obtain ⟨j1, j2, -⟩ := h.inHand t fr.fut hin
  obtain ⟨oc, hoc⟩ := Option.ne_none_iff_exists'.mp (h.handGot t fr hc hn hpc hnr)
  have hpb := putBack_enabled (o := oc) j1 j2
  obtain ⟨F1, hF1⟩ := Option.isSome_iff_exists.mp hpb
  simp [fstep, hc, stepFrame, hnr, hn, hpc, prog, progFixed, derefFFixed, derefFBaseline, execF, hoc, hF1]

/-- the body's own delivery never blocks either -/
theorem body_send_never_blocks {s : FState} (h : OutInv s) (hM : MuInv s) {f : Nat} {b : FFrame}
    (hb : (s.futs f).body = some b) (hpc : b.pc = 4) (hnr : b.returning = false) :
    (fstep prog s (.body f)).isSome = true := by
  obtain ⟨hn, -, -, -⟩ := body_frame_facts hM hb
  have hfresh := h.fresh f b hb
  have hres : (s.futs f).res ≠ none := fun hnn => by have := hfresh.1.mpr hnn; omega
  obtain ⟨oc, hoc⟩ := Option.ne_none_iff_exists'.mp hres
  have hgot := hfresh.2 hres
  rw [hoc] at hgot
  have hns : ¬ sent (s.futs f) := by simp [sent, hb, hpc, hnr]
  obtain ⟨u1, u2, -⟩ := h.unsent f hns
  obtain ⟨F1, hF1⟩ := Option.isSome_iff_exists.mp (putBack_enabled (o := oc) u1 u2)
  simp [fstep, hb, stepFrame, hnr, hn, hpc, prog, progFixed, bodyFixed, execF, hgot, hF1]

end LispModel.Proofs.ConcFut

/-
  Laws of the 64-bit integer model (`LispModel/IntArith.lean`): where the evaluator model's unbounded `Int`
  arithmetic (`LispModel/Core.lean`) IS Go's arithmetic, and what Go does outside that domain.  Core Lean only.
-/
import LispModel.IntArith
import LispModel.Core
namespace LispModel.IntArith

/-- equality of results is decidable (for the concrete `decide` examples) -/
instance instDecEqExcept {ε α : Type} [DecidableEq ε] [DecidableEq α] : DecidableEq (Except ε α)
  | .ok a, .ok b => if h : a = b then isTrue (h ▸ rfl) else isFalse (fun e => h (Except.ok.inj e))
  | .error a, .error b => if h : a = b then isTrue (h ▸ rfl) else isFalse (fun e => h (Except.error.inj e))
  | .ok _, .error _ => isFalse (fun e => nomatch e)
  | .error _, .ok _ => isFalse (fun e => nomatch e)

/-! ### 1. the wrap -/

theorem wrap64_inRange (x : Int) : inRange (wrap64 x) := by
  unfold inRange wrap64; omega

theorem wrap64_id_of_inRange {x : Int} (h : inRange x) : wrap64 x = x := by
  unfold inRange at h; unfold wrap64; omega

theorem wrap64_eq_self_iff (x : Int) : wrap64 x = x ↔ inRange x :=
  ⟨fun h => h ▸ wrap64_inRange x, wrap64_id_of_inRange⟩

theorem wrap64_idem (x : Int) : wrap64 (wrap64 x) = wrap64 x :=
  wrap64_id_of_inRange (wrap64_inRange x)

/-- the wrap only ever removes a multiple of 2^64 -/
theorem wrap64_congruent (x : Int) : ∃ k : Int, x = wrap64 x + 18446744073709551616 * k :=
  ⟨(x + 9223372036854775808) / 18446744073709551616, by unfold wrap64; omega⟩

theorem wrap64_periodic (x k : Int) : wrap64 (x + 18446744073709551616 * k) = wrap64 x := by
  unfold wrap64
  have : x + 18446744073709551616 * k + 9223372036854775808
       = x + 9223372036854775808 + 18446744073709551616 * k := by omega
  rw [this, Int.add_mul_emod_self_left]

/-- two integers have the same 64-bit representative iff they differ by a multiple of 2^64 -/
theorem wrap64_eq_iff (x y : Int) : wrap64 x = wrap64 y ↔ ∃ k : Int, x = y + 18446744073709551616 * k := by
  constructor
  · intro h
    obtain ⟨k1, h1⟩ := wrap64_congruent x
    obtain ⟨k2, h2⟩ := wrap64_congruent y
    exact ⟨k1 - k2, by omega⟩
  · rintro ⟨k, rfl⟩
    exact wrap64_periodic y k

/-- outside the range the wrap changes the value, by a non-zero multiple of 2^64 -/
theorem wrap64_ne_of_not_inRange {x : Int} (h : ¬ inRange x) :
    wrap64 x ≠ x ∧ ∃ k : Int, k ≠ 0 ∧ x = wrap64 x + 18446744073709551616 * k := by
  have hne : wrap64 x ≠ x := fun e => h ((wrap64_eq_self_iff x).1 e)
  obtain ⟨k, hk⟩ := wrap64_congruent x
  exact ⟨hne, k, by intro h0; subst h0; omega, hk⟩

/-! ### 2. `+ - *`: exact on the representable results, off by a multiple of 2^64 otherwise -/

theorem goAdd_exact_of_no_overflow {a b : Int} (h : inRange (a + b)) : goAdd a b = a + b :=
  wrap64_id_of_inRange h
theorem goSub_exact_of_no_overflow {a b : Int} (h : inRange (a - b)) : goSub a b = a - b :=
  wrap64_id_of_inRange h
theorem goMul_exact_of_no_overflow {a b : Int} (h : inRange (a * b)) : goMul a b = a * b :=
  wrap64_id_of_inRange h
theorem goNeg_exact_of_no_overflow {a : Int} (h : inRange (-a)) : goNeg a = -a :=
  wrap64_id_of_inRange h

theorem goAdd_exact_iff (a b : Int) : goAdd a b = a + b ↔ inRange (a + b) := wrap64_eq_self_iff _
theorem goSub_exact_iff (a b : Int) : goSub a b = a - b ↔ inRange (a - b) := wrap64_eq_self_iff _
theorem goMul_exact_iff (a b : Int) : goMul a b = a * b ↔ inRange (a * b) := wrap64_eq_self_iff _

theorem goAdd_ne_of_overflow {a b : Int} (h : ¬ inRange (a + b)) :
    goAdd a b ≠ a + b ∧ ∃ k : Int, k ≠ 0 ∧ a + b = goAdd a b + 18446744073709551616 * k :=
  wrap64_ne_of_not_inRange h
theorem goSub_ne_of_overflow {a b : Int} (h : ¬ inRange (a - b)) :
    goSub a b ≠ a - b ∧ ∃ k : Int, k ≠ 0 ∧ a - b = goSub a b + 18446744073709551616 * k :=
  wrap64_ne_of_not_inRange h
theorem goMul_ne_of_overflow {a b : Int} (h : ¬ inRange (a * b)) :
    goMul a b ≠ a * b ∧ ∃ k : Int, k ≠ 0 ∧ a * b = goMul a b + 18446744073709551616 * k :=
  wrap64_ne_of_not_inRange h

/-- for in-range operands a sum is off by exactly one 2^64, in the direction opposite to the operands' sign -/
theorem goAdd_overflow_value {a b : Int} (ha : inRange a) (hb : inRange b) (h : ¬ inRange (a + b)) :
    goAdd a b = if a + b > 9223372036854775807 then a + b - 18446744073709551616 else a + b + 18446744073709551616 := by
  unfold inRange at *; unfold goAdd wrap64; split <;> omega
theorem goSub_overflow_value {a b : Int} (ha : inRange a) (hb : inRange b) (h : ¬ inRange (a - b)) :
    goSub a b = if a - b > 9223372036854775807 then a - b - 18446744073709551616 else a - b + 18446744073709551616 := by
  unfold inRange at *; unfold goSub wrap64; split <;> omega

theorem goAdd_inRange (a b : Int) : inRange (goAdd a b) := wrap64_inRange _
theorem goSub_inRange (a b : Int) : inRange (goSub a b) := wrap64_inRange _
theorem goMul_inRange (a b : Int) : inRange (goMul a b) := wrap64_inRange _
theorem goNeg_inRange (a : Int) : inRange (goNeg a) := wrap64_inRange _

/-! ### the wrap is a ring homomorphism onto Z/2^64: Go's operators are the integer operators, wrapped once -/

theorem wrap64_add_left (x y : Int) : wrap64 (wrap64 x + y) = wrap64 (x + y) := by
  unfold wrap64; omega
theorem wrap64_add_right (x y : Int) : wrap64 (x + wrap64 y) = wrap64 (x + y) := by
  unfold wrap64; omega
theorem wrap64_sub_left (x y : Int) : wrap64 (wrap64 x - y) = wrap64 (x - y) := by
  unfold wrap64; omega
theorem wrap64_sub_right (x y : Int) : wrap64 (x - wrap64 y) = wrap64 (x - y) := by
  unfold wrap64; omega
theorem wrap64_neg (x : Int) : wrap64 (-wrap64 x) = wrap64 (-x) := by
  unfold wrap64; omega

theorem wrap64_mul_left (x y : Int) : wrap64 (wrap64 x * y) = wrap64 (x * y) := by
  obtain ⟨k, hk⟩ := wrap64_congruent x
  refine (wrap64_eq_iff _ _).2 ⟨-(k * y), ?_⟩
  have h1 : wrap64 x = x - 18446744073709551616 * k := by omega
  rw [h1, Int.sub_mul, Int.mul_assoc, Int.mul_neg]; omega
theorem wrap64_mul_right (x y : Int) : wrap64 (x * wrap64 y) = wrap64 (x * y) := by
  rw [Int.mul_comm, wrap64_mul_left, Int.mul_comm]

theorem goAdd_comm (a b : Int) : goAdd a b = goAdd b a := by unfold goAdd; rw [Int.add_comm]
theorem goMul_comm (a b : Int) : goMul a b = goMul b a := by unfold goMul; rw [Int.mul_comm]

theorem goAdd_assoc (a b c : Int) : goAdd (goAdd a b) c = goAdd a (goAdd b c) := by
  unfold goAdd; rw [wrap64_add_left, wrap64_add_right, Int.add_assoc]
theorem goMul_assoc (a b c : Int) : goMul (goMul a b) c = goMul a (goMul b c) := by
  unfold goMul; rw [wrap64_mul_left, wrap64_mul_right, Int.mul_assoc]
theorem goMul_goAdd (a b c : Int) : goMul a (goAdd b c) = goAdd (goMul a b) (goMul a c) := by
  unfold goMul goAdd; rw [wrap64_mul_right, wrap64_add_left, wrap64_add_right, Int.mul_add]
theorem goSub_eq_goAdd_goNeg (a b : Int) : goSub a b = goAdd a (goNeg b) := by
  unfold goSub goAdd goNeg; rw [wrap64_add_right, Int.sub_eq_add_neg]
theorem goAdd_goSub_cancel (a b : Int) (ha : inRange a) : goSub (goAdd a b) b = a := by
  unfold goSub goAdd; rw [wrap64_sub_left]
  have : a + b - b = a := by omega
  rw [this, wrap64_id_of_inRange ha]
theorem goAdd_zero (a : Int) (ha : inRange a) : goAdd a 0 = a := by
  unfold goAdd; rw [Int.add_zero, wrap64_id_of_inRange ha]
theorem goMul_one (a : Int) (ha : inRange a) : goMul a 1 = a := by
  unfold goMul; rw [Int.mul_one, wrap64_id_of_inRange ha]
theorem goMul_zero (a : Int) : goMul a 0 = 0 := by
  unfold goMul; rw [Int.mul_zero]; rfl

/-- any expression evaluated with Go's operators = the unbounded evaluation, wrapped once at the end
    (instance for a sum of products: the shape of `(+ (* a b) (* c d))`) -/
theorem go_sum_of_products (a b c d : Int) :
    goAdd (goMul a b) (goMul c d) = wrap64 (a * b + c * d) := by
  unfold goAdd goMul; rw [wrap64_add_left, wrap64_add_right]

/-- the only fixed points of negation: `-x` overflows exactly at `MinInt64`, where it returns `MinInt64` -/
theorem goNeg_minInt64 : goNeg minInt64 = minInt64 := by decide
theorem goNeg_exact_iff {a : Int} (ha : inRange a) : goNeg a = -a ↔ a ≠ minInt64 := by
  unfold inRange at ha; unfold goNeg wrap64 minInt64; omega

/-! ### 3. `/`: truncated division, exact except `MinInt64 / -1`; `x / 0` is the error -/

theorem goDiv_by_zero (a : Int) : goDiv a 0 = .error .divByZero := rfl

theorem goDiv_ok_of_ne_zero (a : Int) {b : Int} (hb : b ≠ 0) : goDiv a b = .ok (wrap64 (Int.tdiv a b)) := by
  unfold goDiv; rw [if_neg hb]

theorem goDiv_error_iff (a b : Int) : goDiv a b = .error .divByZero ↔ b = 0 := by
  constructor
  · intro h
    by_cases hb : b = 0
    · exact hb
    · rw [goDiv_ok_of_ne_zero a hb] at h; cases h
  · rintro rfl; rfl

/-- truncation never increases the magnitude -/
theorem natAbs_tdiv_le (a b : Int) : (Int.tdiv a b).natAbs ≤ a.natAbs := by
  rw [Int.natAbs_tdiv]; exact Nat.div_le_self _ _

/-- with a divisor of magnitude ≥ 2 the quotient's magnitude is at most half the dividend's -/
theorem natAbs_tdiv_two_mul_le (a b : Int) (hb : 2 ≤ b.natAbs) : 2 * (Int.tdiv a b).natAbs ≤ a.natAbs := by
  rw [Int.natAbs_tdiv]
  have h1 : a.natAbs / b.natAbs * b.natAbs ≤ a.natAbs := Nat.div_mul_le_self _ _
  have h2 : a.natAbs / b.natAbs * 2 ≤ a.natAbs / b.natAbs * b.natAbs := Nat.mul_le_mul_left _ hb
  show 2 * (a.natAbs / b.natAbs) ≤ a.natAbs
  omega

/-- the quotient of two `int`s is an `int`, except for the one pair `(MinInt64, -1)` -/
theorem tdiv_inRange {a b : Int} (ha : inRange a) (h : ¬ (a = minInt64 ∧ b = -1)) :
    inRange (Int.tdiv a b) := by
  unfold inRange minInt64 at *
  by_cases h1 : b = 1
  · subst h1; rw [Int.tdiv_one]; exact ha
  by_cases h2 : b = -1
  · subst h2
    have : Int.tdiv a (-1) = -a := by rw [Int.tdiv_neg, Int.tdiv_one]
    rw [this]; omega
  by_cases h0 : b = 0
  · subst h0; rw [Int.tdiv_zero]; omega
  have hb : 2 ≤ b.natAbs := by omega
  have := natAbs_tdiv_two_mul_le a b hb
  omega

theorem goDiv_exact {a b : Int} (ha : inRange a) (hb : b ≠ 0) (h : ¬ (a = minInt64 ∧ b = -1)) :
    goDiv a b = .ok (Int.tdiv a b) := by
  rw [goDiv_ok_of_ne_zero a hb, wrap64_id_of_inRange (tdiv_inRange ha h)]

theorem goDiv_minInt64_neg_one : goDiv minInt64 (-1) = .ok minInt64 := by
  rw [goDiv_ok_of_ne_zero _ (by decide)]; exact congrArg _ (by decide)

/-- the unbounded quotient of that pair is 2^63: not an `int`, so here (and only here) Go and the unbounded
    evaluator model differ on `/` -/
theorem tdiv_minInt64_neg_one : Int.tdiv minInt64 (-1) = 9223372036854775808 := by decide

theorem goDiv_exact_iff {a b : Int} (ha : inRange a) (hb : b ≠ 0) :
    goDiv a b = .ok (Int.tdiv a b) ↔ ¬ (a = minInt64 ∧ b = -1) := by
  constructor
  · rintro h ⟨rfl, rfl⟩
    rw [goDiv_minInt64_neg_one, tdiv_minInt64_neg_one] at h
    exact absurd (Except.ok.inj h) (by decide)
  · exact goDiv_exact ha hb

theorem goDiv_inRange {a b q : Int} (h : goDiv a b = .ok q) : inRange q := by
  unfold goDiv at h
  split at h
  · cases h
  · cases h; exact wrap64_inRange _

/-! sign laws of the truncated quotient (on the exact domain) -/

theorem goDiv_neg_left {a b : Int} (ha : inRange a) (ha' : a ≠ minInt64) (hb : b ≠ 0) :
    goDiv (-a) b = .ok (-(Int.tdiv a b)) := by
  have hna : inRange (-a) := by unfold inRange minInt64 at *; omega
  rw [goDiv_exact hna hb (by unfold inRange minInt64 at *; omega), Int.neg_tdiv]

theorem goDiv_neg_right {a b : Int} (ha : inRange a) (ha' : a ≠ minInt64) (hb : b ≠ 0) :
    goDiv a (-b) = .ok (-(Int.tdiv a b)) := by
  rw [goDiv_exact ha (by omega) (fun h => ha' h.1), Int.tdiv_neg]

theorem goDiv_neg_neg {a b : Int} (ha : inRange a) (ha' : a ≠ minInt64) (hb : b ≠ 0) :
    goDiv (-a) (-b) = .ok (Int.tdiv a b) := by
  have hna : inRange (-a) := by unfold inRange minInt64 at *; omega
  rw [goDiv_exact hna (by omega) (by unfold inRange minInt64 at *; omega), Int.neg_tdiv, Int.tdiv_neg, Int.neg_neg]

/-- truncation toward zero: the quotient of non-negative operands is the floor, and it is non-negative -/
theorem goDiv_nonneg {a b : Int} (ha : inRange a) (h0 : 0 ≤ a) (hb : 0 < b) :
    goDiv a b = .ok (a / b) ∧ 0 ≤ a / b := by
  have hx : goDiv a b = .ok (Int.tdiv a b) :=
    goDiv_exact ha (by omega) (by unfold minInt64; omega)
  rw [hx, Int.tdiv_eq_ediv_of_nonneg h0]
  exact ⟨rfl, Int.ediv_nonneg h0 (by omega)⟩

/-- `a = b*q + r` with `|r| < |b|` and `r` carrying the sign of `a` (Go's `%`) -/
theorem goDiv_spec {a b q : Int} (ha : inRange a) (hb : b ≠ 0) (h : ¬ (a = minInt64 ∧ b = -1))
    (hq : goDiv a b = .ok q) :
    a = b * q + Int.tmod a b ∧ (Int.tmod a b).natAbs < b.natAbs ∧ (0 ≤ a → 0 ≤ Int.tmod a b) ∧ (a ≤ 0 → Int.tmod a b ≤ 0) := by
  rw [goDiv_exact ha hb h] at hq
  cases hq
  refine ⟨(Int.mul_tdiv_add_tmod a b).symm, ?_, fun h0 => Int.tmod_nonneg b h0, fun h0 => ?_⟩
  · rw [Int.natAbs_tmod]; exact Nat.mod_lt _ (by omega)
  · have : 0 ≤ Int.tmod (-a) b := Int.tmod_nonneg b (by omega)
    rw [Int.neg_tmod] at this; omega

/-! comparisons are exact: no wrap is involved -/

theorem goLt_iff (a b : Int) : goLt a b = true ↔ a < b := by unfold goLt; exact decide_eq_true_iff
theorem goLe_iff (a b : Int) : goLe a b = true ↔ a ≤ b := by unfold goLe; exact decide_eq_true_iff
theorem goGt_iff (a b : Int) : goGt a b = true ↔ a > b := by unfold goGt; exact decide_eq_true_iff
theorem goGe_iff (a b : Int) : goGe a b = true ↔ a ≥ b := by unfold goGe; exact decide_eq_true_iff
theorem goLt_trichotomy (a b : Int) : goLt a b = true ∨ a = b ∨ goGt a b = true := by
  rw [goLt_iff, goGt_iff]; omega
theorem goLe_eq_not_goGt (a b : Int) : goLe a b = !goGt a b := by
  unfold goLe goGt
  by_cases h : a ≤ b
  · have h' : ¬ a > b := by omega
    simp [h, h']
  · have h' : a > b := by omega
    simp [h, h']

/-- the trap the wrap sets for comparison by subtraction: `a < b` is NOT `a - b < 0` in Go -/
theorem goSub_sign_trap : goLt minInt64 1 = true ∧ goLt (goSub minInt64 1) 0 = false := by decide

/-! ### the evaluator model's unbounded builtins (`Core.body`) ARE Go's on the exact domain -/

open LispModel in
/-- the observation as a result of the evaluator model's builtin -/
def Obs.toBRes : Obs → Core.BRes
  | .int i => .ok (.int i)
  | .bool b => Core.bool b
  | .err => .goerr "runtime error: integer divide by zero"

theorem core_add_eq_go {a b : Int} (h : inRange (a + b)) :
    Core.body "+" [.int a, .int b] = (Obs.int (goAdd a b)).toBRes := by
  rw [goAdd_exact_of_no_overflow h]; rfl
theorem core_sub_eq_go {a b : Int} (h : inRange (a - b)) :
    Core.body "-" [.int a, .int b] = (Obs.int (goSub a b)).toBRes := by
  rw [goSub_exact_of_no_overflow h]; rfl
theorem core_mul_eq_go {a b : Int} (h : inRange (a * b)) :
    Core.body "*" [.int a, .int b] = (Obs.int (goMul a b)).toBRes := by
  rw [goMul_exact_of_no_overflow h]; rfl

theorem core_div_zero (a : Int) :
    Core.body "/" [.int a, .int 0] = Obs.err.toBRes := rfl

theorem core_div_eq_go {a b : Int} (ha : inRange a) (hb : b ≠ 0) (h : ¬ (a = minInt64 ∧ b = -1)) :
    ∃ q, goDiv a b = .ok q ∧ Core.body "/" [.int a, .int b] = (Obs.int q).toBRes := by
  refine ⟨Int.tdiv a b, goDiv_exact ha hb h, ?_⟩
  show (if b = 0 then _ else _) = _
  rw [if_neg hb]; rfl

/-- … and the one pair on which they differ -/
theorem core_div_ne_go_minInt64 :
    Core.body "/" [.int minInt64, .int (-1)] = .ok (.int 9223372036854775808) ∧
    goDiv minInt64 (-1) = .ok (-9223372036854775808) :=
  ⟨rfl, goDiv_minInt64_neg_one⟩

theorem core_lt_eq_go (a b : Int) : Core.body "<" [.int a, .int b] = (Obs.bool (goLt a b)).toBRes := rfl
theorem core_le_eq_go (a b : Int) : Core.body "<=" [.int a, .int b] = (Obs.bool (goLe a b)).toBRes := rfl
theorem core_gt_eq_go (a b : Int) : Core.body ">" [.int a, .int b] = (Obs.bool (goGt a b)).toBRes := rfl
theorem core_ge_eq_go (a b : Int) : Core.body ">=" [.int a, .int b] = (Obs.bool (goGe a b)).toBRes := rfl

/-- the domain theorem in one statement: whenever the unbounded result of `+ - *` is an `int`, and for `/`
    away from `(MinInt64, -1)`, and for every comparison, the evaluator model's builtin is Go's -/
theorem core_eq_goOp {op : String} {a b : Int} {o : Obs} (ha : inRange a) (ho : goOp op a b = some o)
    (hdom : (op = "+" → inRange (a + b)) ∧ (op = "-" → inRange (a - b)) ∧ (op = "*" → inRange (a * b)) ∧
            (op = "/" → ¬ (a = minInt64 ∧ b = -1))) :
    Core.body op [.int a, .int b] = o.toBRes := by
  obtain ⟨h1, h2, h3, h4⟩ := hdom
  unfold goOp at ho
  split at ho
  · next e => subst e; cases ho; exact core_add_eq_go (h1 rfl)
  split at ho
  · next e => subst e; cases ho; exact core_sub_eq_go (h2 rfl)
  split at ho
  · next e => subst e; cases ho; exact core_mul_eq_go (h3 rfl)
  split at ho
  · next e =>
    subst e; cases ho
    by_cases hb : b = 0
    · subst hb; rfl
    · obtain ⟨q, hq, hc⟩ := core_div_eq_go ha hb (h4 rfl)
      rw [hq]; exact hc
  split at ho
  · next e => subst e; cases ho; rfl
  split at ho
  · next e => subst e; cases ho; rfl
  split at ho
  · next e => subst e; cases ho; rfl
  split at ho
  · next e => subst e; cases ho; rfl
  · cases ho

/-! ### 4. `ParseInt` after `FormatInt`: the printer / reader pair on integers (C06) -/

theorem digitVal_digitChar : ∀ d, d < 10 → digitVal (digitChar d) = some d := by decide
theorem digitChar_ne_underscore : ∀ d, d < 10 → digitChar d ≠ '_' := by decide
theorem digitChar_ne_zero : ∀ d, d < 10 → d ≠ 0 → digitChar d ≠ '0' := by decide
theorem digitChar_ne_sign : ∀ d, d < 10 → digitChar d ≠ '+' ∧ digitChar d ≠ '-' := by decide

theorem splitBase_of_head_ne {c : Char} (h : c ≠ '0') (r : List Char) : splitBase (c :: r) = (10, c :: r) := by
  unfold splitBase
  split
  · next heq => cases heq; exact absurd rfl h
  · next heq => cases heq; exact absurd rfl h
  · rfl

theorem uloop_append (base : Nat) : ∀ (xs ys : List Char) (n : Nat) (us : Bool),
    uloop base (xs ++ ys) n us =
      match uloop base xs n us with
      | .ok (n', us') => uloop base ys n' us'
      | .error e => .error e := by
  intro xs
  induction xs with
  | nil => intro ys n us; rfl
  | cons c cs ih =>
    intro ys n us
    simp only [List.cons_append, uloop]
    split
    · exact ih ys n true
    · split
      · rfl
      · split
        · rfl
        · split
          · rfl
          · split
            · rfl
            · exact ih ys _ us

/-- one decimal digit through the `ParseUint` loop -/
theorem uloop_digit {d : Nat} (hd : d < 10) (n : Nat) (us : Bool) :
    uloop 10 [digitChar d] n us =
      if n * 10 + d ≤ 18446744073709551615 then .ok (n * 10 + d, us) else .error .range := by
  have h1 : ¬ digitChar d = '_' := digitChar_ne_underscore d hd
  simp only [uloop, if_neg h1, digitVal_digitChar d hd]
  have h2 : ¬ d ≥ 10 := by omega
  have hcut : cutoff 10 = 1844674407370955162 := by decide
  have hmax : maxUint64 = 18446744073709551615 := rfl
  rw [if_neg h2, hcut, hmax]
  by_cases hc : n ≥ 1844674407370955162
  · rw [if_pos hc, if_neg (by omega)]
  · rw [if_neg hc]
    by_cases hm : n * 10 + d > 18446744073709551615
    · rw [if_pos hm, if_neg (by omega)]
    · rw [if_neg hm, if_pos (by omega)]

/-- the decimal digits of `n` through the loop: `n` itself while it fits 64 bits, the range error beyond -/
theorem uloop_natDigitsAux : ∀ (fuel n : Nat), n < fuel →
    uloop 10 (natDigitsAux fuel n) 0 false =
      if n ≤ 18446744073709551615 then .ok (n, false) else .error .range := by
  intro fuel
  induction fuel with
  | zero => intro n h; omega
  | succ k ih =>
    intro n hn
    unfold natDigitsAux
    by_cases h10 : n < 10
    · rw [if_pos h10, uloop_digit h10, if_pos (by omega), if_pos (by omega), Nat.zero_mul, Nat.zero_add]
    · rw [if_neg h10, uloop_append, ih (n / 10) (by omega)]
      by_cases hle : n / 10 ≤ 18446744073709551615
      · rw [if_pos hle]
        simp only []
        rw [uloop_digit (Nat.mod_lt _ (by omega))]
        have : n / 10 * 10 + n % 10 = n := by omega
        rw [this]
      · rw [if_neg hle, if_neg (by omega)]

/-- `FormatInt` never prints a leading zero (or a sign) in front of a positive number -/
theorem natDigitsAux_head : ∀ (fuel n : Nat), n < fuel → 1 ≤ n →
    ∃ d r, natDigitsAux fuel n = digitChar d :: r ∧ 1 ≤ d ∧ d < 10 := by
  intro fuel
  induction fuel with
  | zero => intro n h; omega
  | succ k ih =>
    intro n hn h1
    unfold natDigitsAux
    by_cases h10 : n < 10
    · rw [if_pos h10]; exact ⟨n, [], rfl, h1, h10⟩
    · rw [if_neg h10]
      obtain ⟨d, r, hr, hd1, hd2⟩ := ih (n / 10) (by omega) (by omega)
      exact ⟨d, r ++ [digitChar (n % 10)], by rw [hr]; rfl, hd1, hd2⟩

theorem parseUint_natDigits (n : Nat) :
    parseUint (natDigits n) = if n ≤ 18446744073709551615 then .ok n else .error .range := by
  by_cases h0 : n = 0
  · subst h0; decide
  · obtain ⟨d, r, hr, hd1, hd2⟩ := natDigitsAux_head (n + 1) n (by omega) (by omega)
    have hloop := uloop_natDigitsAux (n + 1) n (by omega)
    unfold natDigits at *
    unfold parseUint
    rw [hr] at hloop ⊢
    rw [if_neg (by simp), splitBase_of_head_ne (digitChar_ne_zero d hd2 (by omega))]
    simp only []
    rw [hloop]
    by_cases hle : n ≤ 18446744073709551615
    · rw [if_pos hle, if_pos hle]; rfl
    · rw [if_neg hle, if_neg hle]

theorem natDigits_head (n : Nat) : ∃ d r, natDigits n = digitChar d :: r ∧ d < 10 := by
  by_cases h0 : n = 0
  · subst h0; exact ⟨0, [], rfl, by omega⟩
  · obtain ⟨d, r, hr, _, hd2⟩ := natDigitsAux_head (n + 1) n (by omega) (by omega)
    exact ⟨d, r, hr, hd2⟩

/-- the sign / cutoff tail of `ParseInt` on a successfully parsed magnitude -/
theorem signed_false_ok (un : Nat) :
    signed false (.ok un) = if un < 9223372036854775808 then .ok (un : Int) else .error .range := by
  unfold signed
  simp only []
  by_cases h : un < 9223372036854775808
  · have h1 : ¬ ((!false && decide (un ≥ 9223372036854775808)) = true) := by simp; omega
    have h2 : ¬ ((false && decide (un > 9223372036854775808)) = true) := by simp
    rw [if_neg h1, if_neg h2, if_pos h]
    simp only [Bool.false_eq_true, if_false]
    rw [wrap64_id_of_inRange (by unfold inRange; omega)]
  · have h1 : (!false && decide (un ≥ 9223372036854775808)) = true := by simp; omega
    rw [if_pos h1, if_neg h]

theorem signed_true_ok (un : Nat) :
    signed true (.ok un) = if un ≤ 9223372036854775808 then .ok (-(un : Int)) else .error .range := by
  unfold signed
  simp only []
  have h1 : ¬ ((!true && decide (un ≥ 9223372036854775808)) = true) := by simp
  rw [if_neg h1]
  by_cases h : un ≤ 9223372036854775808
  · have h2 : ¬ ((true && decide (un > 9223372036854775808)) = true) := by simp; omega
    rw [if_neg h2, if_pos h]
    simp only [if_true]
    rw [wrap64_neg, wrap64_id_of_inRange (by unfold inRange; omega)]
  · have h2 : (true && decide (un > 9223372036854775808)) = true := by simp; omega
    rw [if_pos h2, if_neg h]

/-- a decimal literal without sign: accepted iff below 2^63 -/
theorem parseIntChars_natDigits (n : Nat) :
    parseIntChars (natDigits n) = if n < 9223372036854775808 then .ok (n : Int) else .error .range := by
  obtain ⟨d, r, hr, hd⟩ := natDigits_head n
  have hp := parseUint_natDigits n
  rw [hr] at hp
  unfold parseIntChars
  rw [hr]
  simp only []
  rw [if_neg (digitChar_ne_sign d hd).1, if_neg (digitChar_ne_sign d hd).2, hp]
  by_cases hle : n ≤ 18446744073709551615
  · rw [if_pos hle, signed_false_ok]
  · rw [if_neg hle, if_neg (by omega)]; rfl

/-- a decimal literal with a minus sign: accepted iff the magnitude is at most 2^63 -/
theorem parseIntChars_neg_natDigits (n : Nat) :
    parseIntChars ('-' :: natDigits n) =
      if n ≤ 9223372036854775808 then .ok (-(n : Int)) else .error .range := by
  have hp := parseUint_natDigits n
  unfold parseIntChars
  simp only []
  rw [if_neg (show ¬ '-' = '+' by decide), if_pos trivial, hp]
  by_cases hle : n ≤ 18446744073709551615
  · rw [if_pos hle, signed_true_ok]
  · rw [if_neg hle, if_neg (by omega)]; rfl

/-- C06 on integers: what the printer writes for an `int`, `ParseInt(·, 0, 0)` reads back as that `int` —
    `MinInt64` included (its magnitude 2^63 is accepted only behind the minus sign), `0` included (which goes
    through the OCTAL arm of the prefix switch: `"0"` is the prefix `0` followed by no digit) -/
theorem parse_print_roundtrip_chars {i : Int} (h : inRange i) : parseIntChars (printIntChars i) = .ok i := by
  unfold inRange at h
  cases i with
  | ofNat n =>
    show parseIntChars (natDigits n) = _
    rw [parseIntChars_natDigits, if_pos (by simp only [Int.ofNat_eq_natCast] at h; omega)]; rfl
  | negSucc n =>
    show parseIntChars ('-' :: natDigits (n + 1)) = _
    rw [parseIntChars_neg_natDigits, if_pos (by omega)]
    rfl

theorem parse_print_roundtrip {i : Int} (h : inRange i) : parseIntLit (printInt i) = .ok i := by
  unfold parseIntLit printInt
  rw [String.toList_ofList]
  exact parse_print_roundtrip_chars h

/-- … and outside the range the printed text of the unbounded model's integer is REJECTED by the reader
    (so an out-of-range `Int` of the evaluator model has no counterpart on the Go side at all) -/
theorem parse_print_reject {i : Int} (h : ¬ inRange i) : parseIntLit (printInt i) = .error .range := by
  unfold parseIntLit printInt
  rw [String.toList_ofList]
  unfold inRange at h
  cases i with
  | ofNat n =>
    show parseIntChars (natDigits n) = _
    rw [parseIntChars_natDigits, if_neg (by simp only [Int.ofNat_eq_natCast] at h; omega)]
  | negSucc n =>
    show parseIntChars ('-' :: natDigits (n + 1)) = _
    rw [parseIntChars_neg_natDigits, if_neg (by omega)]

/-! `parseIntLit_range`: a literal the reader accepts denotes an `int`; magnitudes ≥ 2^63 are errors, except -2^63 -/

theorem signed_ok_iff (neg : Bool) (r : Except PErr Nat) (i : Int) :
    signed neg r = .ok i ↔
      ∃ un, r = .ok un ∧ (if neg = true then un ≤ 9223372036854775808 ∧ i = -(un : Int)
                          else un < 9223372036854775808 ∧ i = (un : Int)) := by
  cases r with
  | error e =>
    constructor
    · intro h; cases e <;> cases h
    · rintro ⟨un, h, _⟩; cases h
  | ok un =>
    cases neg
    · rw [signed_false_ok]
      constructor
      · intro h
        by_cases hlt : un < 9223372036854775808
        · rw [if_pos hlt] at h; cases h; exact ⟨un, rfl, by simp [hlt]⟩
        · rw [if_neg hlt] at h; cases h
      · rintro ⟨un', h, h2⟩
        cases h
        simp only [Bool.false_eq_true, if_false] at h2
        rw [if_pos h2.1, h2.2]
    · rw [signed_true_ok]
      constructor
      · intro h
        by_cases hle : un ≤ 9223372036854775808
        · rw [if_pos hle] at h; cases h; exact ⟨un, rfl, by simp [hle]⟩
        · rw [if_neg hle] at h; cases h
      · rintro ⟨un', h, h2⟩
        cases h
        simp only [if_true] at h2
        rw [if_pos h2.1, h2.2]

theorem signed_inRange {neg : Bool} {r : Except PErr Nat} {i : Int} (h : signed neg r = .ok i) : inRange i := by
  obtain ⟨un, _, h2⟩ := (signed_ok_iff neg r i).1 h
  unfold inRange
  cases neg
  · simp only [Bool.false_eq_true, if_false] at h2; omega
  · simp only [if_true] at h2; omega

/-- a magnitude of 2^63 or more is a range error — except 2^63 itself behind a minus sign -/
theorem signed_range_error (neg : Bool) (un : Nat)
    (h : (neg = false ∧ un ≥ 9223372036854775808) ∨ (neg = true ∧ un > 9223372036854775808)) :
    signed neg (.ok un) = .error .range := by
  rcases h with ⟨rfl, h⟩ | ⟨rfl, h⟩
  · rw [signed_false_ok, if_neg (by omega)]
  · rw [signed_true_ok, if_neg (by omega)]

theorem parseIntChars_range {s : List Char} {i : Int} (h : parseIntChars s = .ok i) : inRange i := by
  unfold parseIntChars at h
  split at h
  · cases h
  · split at h
    · exact signed_inRange h
    · split at h
      · exact signed_inRange h
      · exact signed_inRange h

theorem parseIntLit_range {s : String} {i : Int} (h : parseIntLit s = .ok i) : inRange i :=
  parseIntChars_range h

/-! the digit loop against the literal's mathematical (unbounded) value, in every base -/

/-- the unbounded value of a digit string continued from `n` (underscores skipped; stops at a non-digit) -/
def digitsValue (base : Nat) : List Char → Nat → Nat
  | [], n => n
  | c :: cs, n =>
    if c = '_' then digitsValue base cs n
    else match digitVal c with
      | some d => if d ≥ base then n else digitsValue base cs (n * base + d)
      | none => n

theorem digitsValue_ge (base : Nat) (hb : 1 ≤ base) : ∀ (cs : List Char) (n : Nat), n ≤ digitsValue base cs n := by
  intro cs
  induction cs with
  | nil => intro n; exact Nat.le_refl n
  | cons c cs ih =>
    intro n
    unfold digitsValue
    split
    · exact ih n
    · split
      · next d _ =>
        split
        · exact Nat.le_refl n
        · have h1 := ih (n * base + d)
          have h2 : n * 1 ≤ n * base := Nat.mul_le_mul_left n hb
          omega
      · exact Nat.le_refl n

/-- success: the loop computed the literal's mathematical value, and that value fits 64 bits -/
theorem uloop_ok_value (base : Nat) : ∀ (cs : List Char) (n : Nat) (us : Bool) (m : Nat) (u : Bool),
    n ≤ 18446744073709551615 → uloop base cs n us = .ok (m, u) →
    m = digitsValue base cs n ∧ m ≤ 18446744073709551615 := by
  intro cs
  induction cs with
  | nil =>
    intro n us m u hn h
    cases h; exact ⟨rfl, hn⟩
  | cons c cs ih =>
    intro n us m u hn h
    unfold uloop at h
    unfold digitsValue
    split at h
    · next hc => rw [if_pos hc]; exact ih n true m u hn h
    · next hc =>
      rw [if_neg hc]
      split at h
      · cases h
      · next d hd =>
        rw [hd]
        simp only []
        split at h
        · cases h
        · next hdb =>
          rw [if_neg hdb]
          split at h
          · cases h
          · split at h
            · cases h
            · next hm =>
              have hmax : maxUint64 = 18446744073709551615 := rfl
              exact ih (n * base + d) us m u (by omega) h

/-- a range error is raised only when the literal's mathematical value does not fit 64 bits -/
theorem uloop_range_value (base : Nat) (hb : 1 ≤ base) : ∀ (cs : List Char) (n : Nat) (us : Bool),
    uloop base cs n us = .error .range → digitsValue base cs n > 18446744073709551615 := by
  intro cs
  induction cs with
  | nil => intro n us h; cases h
  | cons c cs ih =>
    intro n us h
    unfold uloop at h
    unfold digitsValue
    have hmax : maxUint64 = 18446744073709551615 := rfl
    split at h
    · next hc => rw [if_pos hc]; exact ih n true h
    · next hc =>
      rw [if_neg hc]
      split at h
      · cases h
      · next d hd =>
        rw [hd]
        simp only []
        split at h
        · cases h
        · next hdb =>
          rw [if_neg hdb]
          have hge := digitsValue_ge base hb cs (n * base + d)
          split at h
          · next hcut =>
            unfold cutoff at hcut
            have : maxUint64 / base < n := by omega
            have := (Nat.div_lt_iff_lt_mul (by omega)).1 this
            omega
          · split at h
            · next hm => omega
            · exact ih (n * base + d) us h

/-- a string of digits of the base (and underscores): accepted by the loop iff its mathematical value fits
    64 bits, a range error otherwise — never a syntax error -/
theorem uloop_valid (base : Nat) (hb : 1 ≤ base) : ∀ (cs : List Char) (n : Nat) (us : Bool),
    (∀ c ∈ cs, c = '_' ∨ ∃ d, digitVal c = some d ∧ d < base) → n ≤ 18446744073709551615 →
    (digitsValue base cs n ≤ 18446744073709551615 → ∃ u, uloop base cs n us = .ok (digitsValue base cs n, u)) ∧
    (digitsValue base cs n > 18446744073709551615 → uloop base cs n us = .error .range) := by
  intro cs
  induction cs with
  | nil =>
    intro n us _ hn
    exact ⟨fun _ => ⟨us, rfl⟩, fun h => by unfold digitsValue at h; omega⟩
  | cons c cs ih =>
    intro n us hv hn
    have hvc := hv c (List.mem_cons_self ..)
    have hvr : ∀ c' ∈ cs, c' = '_' ∨ ∃ d, digitVal c' = some d ∧ d < base :=
      fun c' hc' => hv c' (List.mem_cons_of_mem _ hc')
    have hmax : maxUint64 = 18446744073709551615 := rfl
    unfold uloop digitsValue
    by_cases hc : c = '_'
    · rw [if_pos hc, if_pos hc]; exact ih n true hvr hn
    · rw [if_neg hc, if_neg hc]
      rcases hvc with hc' | ⟨d, hd, hdb⟩
      · exact absurd hc' hc
      · rw [hd]
        simp only []
        rw [if_neg (by omega), if_neg (by omega)]
        have hge := digitsValue_ge base hb cs (n * base + d)
        by_cases hcut : n ≥ cutoff base
        · rw [if_pos hcut]
          have h1 : maxUint64 / base < n := by unfold cutoff at hcut; omega
          have h2 := (Nat.div_lt_iff_lt_mul (by omega)).1 h1
          exact ⟨fun h => by omega, fun _ => rfl⟩
        · rw [if_neg hcut]
          by_cases hm : n * base + d > maxUint64
          · rw [if_pos hm]
            exact ⟨fun h => by omega, fun _ => rfl⟩
          · rw [if_neg hm]
            exact ih (n * base + d) us hvr (by omega)

/-! ### `range`, and the index arithmetic of `take-last` / `drop-last`: never near the wrap -/

/-- the unbounded count-up: `k` consecutive integers from `i` -/
def countUp : Nat → Int → List Int
  | 0, _ => []
  | k + 1, i => i :: countUp k (i + 1)

theorem goRangeAux_exact {to : Int} (hto : inRange to) : ∀ (k : Nat) (i : Int),
    i + (k : Int) = to → -9223372036854775808 ≤ i → goRangeAux to k i = countUp k i := by
  intro k
  induction k with
  | zero => intro i _ _; rfl
  | succ k ih =>
    intro i hik hi
    unfold inRange at hto
    unfold goRangeAux countUp
    rw [if_pos (by omega), goAdd_exact_of_no_overflow (by unfold inRange; omega), ih (i + 1) (by omega) (by omega)]

/-- `(range from to)` on `int`s is the unbounded count-up from `from` of length `to - from`: the loop's `i++`
    never wraps, because `i < to ≤ MaxInt64` when it is executed -/
theorem goRange_exact {from_ to : Int} (hf : inRange from_) (hto : inRange to) :
    goRange from_ to = countUp (to - from_).toNat from_ := by
  unfold goRange
  by_cases h : from_ ≤ to
  · exact goRangeAux_exact hto _ _ (by omega) (by unfold inRange at hf; omega)
  · have : (to - from_).toNat = 0 := by omega
    rw [this]; rfl

theorem countUp_length : ∀ (k : Nat) (i : Int), (countUp k i).length = k := by
  intro k; induction k with
  | zero => intro i; rfl
  | succ k ih => intro i; simp only [countUp, List.length_cons, ih]

theorem goRange_length {from_ to : Int} (hf : inRange from_) (hto : inRange to) :
    (goRange from_ to).length = (to - from_).toNat := by
  rw [goRange_exact hf hto, countUp_length]

/-- `len(arg.Val) - elems` (`take-last`, after `elems < 0 ⇒ 0`) and `len(arg.Val) - n` (`drop-last`): a length
    minus a non-negative `int` is exact -/
theorem index_sub_exact {len n : Int} (hl : inRange len) (h0 : 0 ≤ len) (hn : inRange n) (hn0 : 0 ≤ n) :
    goSub len n = len - n := by
  unfold inRange at hl hn
  exact goSub_exact_of_no_overflow (by unfold inRange; omega)

/-! ### 5. the edges, concretely (non-vacuity) -/

theorem ex_max_plus_one : goAdd 9223372036854775807 1 = -9223372036854775808 := by decide
theorem ex_min_minus_one : goSub (-9223372036854775808) 1 = 9223372036854775807 := by decide
theorem ex_min_div_neg_one : goDiv (-9223372036854775808) (-1) = .ok (-9223372036854775808) := by decide
theorem ex_div_zero : goDiv 5 0 = .error .divByZero := by decide
theorem ex_div_trunc : goDiv (-7) 2 = .ok (-3) ∧ goDiv 7 (-2) = .ok (-3) ∧ goDiv (-7) (-2) = .ok 3 := by decide
theorem ex_mul_wrap : goMul 4294967296 4294967296 = 0 ∧ goMul 3037000500 3037000500 = -9223372036709301616 := by decide
theorem ex_mul_min_neg_one : goMul (-9223372036854775808) (-1) = -9223372036854775808 := by decide
theorem ex_not_inRange : ¬ inRange (9223372036854775807 + 1) ∧ ¬ inRange (-9223372036854775808 - 1) := by decide

theorem ex_lit_min : parseIntLit "-9223372036854775808" = .ok (-9223372036854775808) := by decide
theorem ex_lit_max_plus_one : parseIntLit "9223372036854775808" = .error .range := by decide
theorem ex_lit_min_minus_one : parseIntLit "-9223372036854775809" = .error .range := by decide
theorem ex_lit_hex_max : parseIntLit "0x7fffffffffffffff" = .ok 9223372036854775807 := by decide
theorem ex_lit_hex_over : parseIntLit "0x8000000000000000" = .error .range := by decide
theorem ex_lit_hex_min : parseIntLit "-0x8000000000000000" = .ok (-9223372036854775808) := by decide
theorem ex_lit_underscore : parseIntLit "1_000" = .ok 1000 := by decide
theorem ex_lit_bin : parseIntLit "0b101" = .ok 5 := by decide
theorem ex_lit_oct : parseIntLit "0o17" = .ok 15 := by decide
theorem ex_lit_oct_old : parseIntLit "017" = .ok 15 := by decide
theorem ex_lit_zero : parseIntLit "0" = .ok 0 ∧ parseIntLit "-0" = .ok 0 := by decide
theorem ex_lit_bad_underscore :
    parseIntLit "1__0" = .error .syntax ∧ parseIntLit "1_" = .error .syntax ∧ parseIntLit "_1" = .error .syntax ∧
    parseIntLit "0_x1" = .error .syntax ∧ parseIntLit "0x_1" = .ok 1 ∧ parseIntLit "0_7" = .ok 7 := by decide
theorem ex_lit_bad_digit : parseIntLit "09" = .error .syntax ∧ parseIntLit "0b2" = .error .syntax ∧
    parseIntLit "0x" = .error .syntax ∧ parseIntLit "" = .error .syntax ∧ parseIntLit "-" = .error .syntax := by decide
/-- the range error ends the loop at once: the bad byte behind it is never seen -/
theorem ex_lit_range_before_syntax : parseIntLit "99999999999999999999z" = .error .range := by decide

theorem ex_print : printInt (-9223372036854775808) = "-9223372036854775808" ∧ printInt 0 = "0" ∧
    printInt 9223372036854775807 = "9223372036854775807" := by decide
theorem ex_range_top : goRange 9223372036854775805 9223372036854775807 = [9223372036854775805, 9223372036854775806] := by
  decide

end LispModel.IntArith

/-
  Laws of the `_PACKAGES_` registry model (LispModel/PkgReg.lean): a registration never changes the
  value of a binding a program already made from the registry (frame), over any sequence of
  registrations and bindings; what it installs is the old registry with the name added; the pinned
  (in-place) behaviour violates the frame property (machine-checked counterexample).
-/
import LispModel.PkgReg
namespace LispModel.PkgReg

/-! ### well-formed states: every object id that is held anywhere exists -/

def snapOK (h : Heap) : Snap → Prop
  | .map id => id < h.maps.length ∧ ∀ e ∈ h.maps.getD id [], e.2 < h.sets.length
  | .set id => id < h.sets.length
  | .nil => True

structure WF (st : St) : Prop where
  maps : ∀ m ∈ st.heap.maps, ∀ e ∈ m, e.2 < st.heap.sets.length
  pkgs : ∀ m, st.pkgs = some m → m < st.heap.maps.length
  snaps : ∀ s ∈ st.snaps, snapOK st.heap s

theorem getD_append_left {α} (l : List α) (x d : α) (i : Nat) (h : i < l.length) :
    (l ++ [x]).getD i d = l.getD i d := by
  simp [List.getD, List.getElem?_append_left h]

theorem getD_mem {α} (l : List α) (d : α) (i : Nat) (h : i < l.length) : l.getD i d ∈ l := by
  simp [List.getD, List.getElem?_eq_getElem h]

theorem oldMap_mem (st : St) (w : WF st) : ∀ e ∈ oldMap st, e.2 < st.heap.sets.length := by
  unfold oldMap
  cases hp : st.pkgs with
  | none => simp
  | some m =>
    have := w.pkgs m hp
    exact w.maps _ (getD_mem _ _ _ this)

theorem mem_ainsert {α} (k : String) (v : α) (m : List (String × α)) (e : String × α)
    (h : e ∈ ainsert k v m) : e = (k, v) ∨ e ∈ m := by
  induction m with
  | nil => simp [ainsert] at h; exact Or.inl h
  | cons a r ih =>
    unfold ainsert at h
    split at h
    · rcases List.mem_cons.1 h with h | h
      · exact Or.inl h
      · exact Or.inr (List.mem_cons_of_mem _ h)
    · rcases List.mem_cons.1 h with h | h
      · exact Or.inr (h ▸ List.mem_cons_self)
      · rcases ih h with h | h
        · exact Or.inl h
        · exact Or.inr (List.mem_cons_of_mem _ h)

/-! ### frame: the repaired registration leaves every existing object as it was -/

theorem setVal_fixed (st : St) (p f : String) (id : Nat) (h : id < st.heap.sets.length) :
    setVal (registerFixed st p f).heap id = setVal st.heap id := by
  simp [setVal, registerFixed, List.getElem?_append_left h]

theorem map_congr_mem {α β} (l : List α) (f g : α → β) (h : ∀ a ∈ l, f a = g a) : l.map f = l.map g :=
  List.map_congr_left h

theorem mapVal_fixed (st : St) (p f : String) (id : Nat) (h : id < st.heap.maps.length)
    (hs : ∀ e ∈ st.heap.maps.getD id [], e.2 < st.heap.sets.length) :
    mapVal (registerFixed st p f).heap id = mapVal st.heap id := by
  have e1 : (registerFixed st p f).heap.maps.getD id [] = st.heap.maps.getD id [] := by
    simp [registerFixed, List.getElem?_append_left h]
  unfold mapVal
  rw [e1]
  apply map_congr_mem
  intro e he
  have := setVal_fixed st p f e.2 (hs e he)
  cases e; simp_all

theorem snapVal_fixed (st : St) (p f : String) (s : Snap) (h : snapOK st.heap s) :
    snapVal (registerFixed st p f).heap s = snapVal st.heap s := by
  cases s with
  | map id => simp [snapVal, mapVal_fixed st p f id h.1 h.2]
  | set id => simp [snapVal, setVal_fixed st p f id h]
  | nil => rfl

/-- **Frame.** A registration changes the value of no binding the program has already made. -/
theorem registerFixed_frame (st : St) (w : WF st) (p f : String) :
    observe (registerFixed st p f) = observe st := by
  unfold observe
  have : (registerFixed st p f).snaps = st.snaps := rfl
  rw [this]
  exact map_congr_mem _ _ _ (fun s hs => snapVal_fixed st p f s (w.snaps s hs))


/-! ### well-formedness is an invariant -/

theorem snapOK_fixed (st : St) (p f : String) (s : Snap) (h : snapOK st.heap s) :
    snapOK (registerFixed st p f).heap s := by
  cases s with
  | map id =>
    refine ⟨by simp [registerFixed]; exact Nat.lt_succ_of_lt h.1, ?_⟩
    have e1 : (registerFixed st p f).heap.maps.getD id [] = st.heap.maps.getD id [] := by
      simp [registerFixed, List.getElem?_append_left h.1]
    rw [e1]
    intro e he
    have := h.2 e he
    simp [registerFixed]; omega
  | set id => simp [snapOK, registerFixed] at *; omega
  | nil => trivial

theorem registerFixed_wf (st : St) (w : WF st) (p f : String) : WF (registerFixed st p f) := by
  refine ⟨?_, ?_, ?_⟩
  · intro m hm e he
    simp [registerFixed] at hm ⊢
    rcases hm with hm | hm
    · have := w.maps m hm e he; omega
    · subst hm
      rcases mem_ainsert _ _ _ _ he with h | h
      · subst h; simp
      · have := oldMap_mem st w e h; omega
  · intro m hm
    simp [registerFixed] at hm ⊢
    omega
  · intro s hs
    exact snapOK_fixed st p f s (w.snaps s hs)

theorem snapMap_wf (st : St) (w : WF st) : WF (snapMap st) := by
  refine ⟨w.maps, w.pkgs, ?_⟩
  intro s hs
  simp [snapMap] at hs
  rcases hs with hs | hs
  · exact w.snaps s hs
  · subst hs
    cases hp : st.pkgs with
    | none => trivial
    | some m =>
      have hm := w.pkgs m hp
      exact ⟨hm, fun e he => w.maps _ (getD_mem _ _ _ hm) e he⟩

theorem alookup_mem {α} (k : String) (m : List (String × α)) (v : α) (h : alookup k m = some v) :
    (k, v) ∈ m := by
  induction m with
  | nil => simp [alookup] at h
  | cons a r ih =>
    unfold alookup at h
    split at h
    · rename_i hk
      cases a; simp at h hk; subst h; subst hk; exact List.mem_cons_self
    · exact List.mem_cons_of_mem _ (ih h)

theorem snapSet_wf (st : St) (w : WF st) (p : String) : WF (snapSet st p) := by
  refine ⟨w.maps, w.pkgs, ?_⟩
  intro s hs
  simp [snapSet] at hs
  rcases hs with hs | hs
  · exact w.snaps s hs
  · subst hs
    cases hl : alookup p (oldMap st) with
    | none => trivial
    | some sid => exact oldMap_mem st w _ (alookup_mem _ _ _ hl)

theorem step_wf (st : St) (w : WF st) (op : Op) : WF (step registerFixed st op) := by
  cases op with
  | reg p f => exact registerFixed_wf st w p f
  | snapMap => exact snapMap_wf st w
  | snapSet p => exact snapSet_wf st w p

theorem init_wf : WF {} := ⟨by simp, by simp, by simp⟩

/-! ### every reachable state: a binding, once made, keeps its value for ever -/

theorem observe_step_prefix (st : St) (w : WF st) (op : Op) :
    (observe (step registerFixed st op)).take st.snaps.length = observe st := by
  cases op with
  | reg p f =>
    simp only [step]
    rw [registerFixed_frame st w p f]
    exact List.take_of_length_le (by simp [observe])
  | snapMap => simp [step, snapMap, observe]
  | snapSet p => simp [step, snapSet, observe]

theorem snaps_length_mono (st : St) (op : Op) : st.snaps.length ≤ (step registerFixed st op).snaps.length := by
  cases op <;> simp [step, registerFixed, snapMap, snapSet]

theorem snaps_length_run (st : St) (ops : List Op) : st.snaps.length ≤ (run registerFixed st ops).snaps.length := by
  induction ops generalizing st with
  | nil => exact Nat.le_refl _
  | cons o r ih => exact Nat.le_trans (snaps_length_mono st o) (ih _)

/-- **Immutability over whole histories.** After any further sequence of registrations and bindings,
    the bindings that existed before have exactly the values they had. -/
theorem run_frame (st : St) (w : WF st) (ops : List Op) :
    (observe (run registerFixed st ops)).take st.snaps.length = observe st := by
  induction ops generalizing st with
  | nil => exact List.take_of_length_le (by simp [run, observe])
  | cons o r ih =>
    have w' := step_wf st w o
    have h1 := ih (step registerFixed st o) w'
    have h2 := observe_step_prefix st w o
    have hle := snaps_length_mono st o
    show (observe (run registerFixed (step registerFixed st o) r)).take st.snaps.length = observe st
    rw [← h2, ← h1, List.take_take, Nat.min_eq_left hle]

/-- from the empty environment: every state reached by a program is covered -/
theorem reachable_frame (ops₁ ops₂ : List Op) :
    let st := run registerFixed {} ops₁
    (observe (run registerFixed st ops₂)).take st.snaps.length = observe st := by
  intro st
  have w : WF st := by
    show WF (run registerFixed {} ops₁)
    have : ∀ (s : St), WF s → WF (run registerFixed s ops₁) := by
      induction ops₁ with
      | nil => intro s h; exact h
      | cons o r ih => intro s h; exact ih _ (step_wf s h o)
    exact this _ init_wf
  exact run_frame st w ops₂

/-! ### what a registration installs -/

theorem map_ainsert {α β} (k : String) (v : α) (m : List (String × α)) (g : α → β) :
    (ainsert k v m).map (fun e => (e.1, g e.2)) = ainsert k (g v) (m.map (fun e => (e.1, g e.2))) := by
  induction m with
  | nil => simp [ainsert]
  | cons a r ih =>
    unfold ainsert
    by_cases h : a.1 = k
    · simp [h]
    · simp [h, ih]

/-- the new `_PACKAGES_` is the old one with `fn` added to the set of `pkg` (a new entry when the
    package was absent) — the registry content the pinned code computed, too. -/
theorem registerFixed_installs (st : St) (w : WF st) (p f : String) :
    curVal (registerFixed st p f) =
      .map (ainsert p (sinsert f (oldSet st p)) ((oldMap st).map fun e => (e.1, setVal st.heap e.2))) := by
  have hm : (registerFixed st p f).heap.maps.getD st.heap.maps.length [] =
      ainsert p st.heap.sets.length (oldMap st) := by
    simp [registerFixed]
  simp only [curVal, registerFixed, mapVal] at *
  simp only [List.getD_eq_getElem?_getD, List.getElem?_concat_length, Option.getD_some]
  have := map_ainsert p st.heap.sets.length (oldMap st)
    (fun s => setVal { sets := st.heap.sets ++ [sinsert f (oldSet st p)],
                       maps := st.heap.maps ++ [ainsert p st.heap.sets.length (oldMap st)] } s)
  rw [this]
  congr 1
  have e0 : setVal { sets := st.heap.sets ++ [sinsert f (oldSet st p)],
                     maps := st.heap.maps ++ [ainsert p st.heap.sets.length (oldMap st)] } st.heap.sets.length
            = sinsert f (oldSet st p) := by simp [setVal]
  rw [e0]
  congr 1
  apply map_congr_mem
  intro e he
  have hlt := oldMap_mem st w e he
  have := setVal_fixed st p f e.2 hlt
  simp only [registerFixed] at this
  rw [this]

/-! ### the pinned behaviour violated the frame property (machine-checked witness) -/

/-- `(def s _PACKAGES_)`, then the host registers one more function of the same package: with the
    in-place update the program's binding `s` has changed. -/
theorem baseline_changes_a_bound_value :
    let st := run registerBaseline {} [.reg "main" "f", .snapMap]
    observe (step registerBaseline st (.reg "main" "g")) ≠ observe st := by decide

/-- … and so has a binding of the package's set, and a new package shows up in the bound map. -/
theorem baseline_changes_a_bound_set :
    let st := run registerBaseline {} [.reg "main" "f", .snapSet "main", .snapMap]
    observe (step registerBaseline st (.reg "main" "g")) ≠ observe st ∧
    observe (step registerBaseline st (.reg "other" "h")) ≠ observe st := by decide

/-- non-vacuity: the same histories under the repaired registration -/
example :
    let st := run registerFixed {} [.reg "main" "f", .snapSet "main", .snapMap]
    observe (step registerFixed st (.reg "main" "g")) = observe st ∧
    observe st = [.set ["f"], .map [("main", ["f"])]] ∧
    curVal (step registerFixed st (.reg "main" "g")) = .map [("main", ["f", "g"])] ∧
    curVal (step registerFixed st (.reg "other" "h")) = .map [("main", ["f"]), ("other", ["h"])] := by decide

end LispModel.PkgReg

/-
  C09 proofs, part 4: progress.  In every state satisfying the lock discipline in which some thread
  has something to do, some thread has an enabled step: a lock holder's next micro-op never blocks
  (no lock is held across `callback`), and when nothing is locked every pending thread can move.
-/
import LispModel.Proofs.ConcAtomInv
namespace LispModel.Proofs.ConcAtom
open LispModel.Conc

/-- micro-ops that can always be executed -/
def nonBlocking : MOp → Bool
  | .unlock .atomRW | .runlock .atomRW | .deferUnlock _ | .deferRUnlock _
  | .read .val | .read .ver | .write .val | .write .ver | .brNe .ver _ | .jmp _ | .ctxCheck | .ret => true
  | _ => false

theorem nonBlocking_exec {m : MOp} (h : nonBlocking m = true) (t : Nat) (fr : Frame) (A : AtomS) :
    (execM t m fr A).isSome = true := by
  cases m with
  | unlock mu => cases mu <;> simp [nonBlocking] at h <;> simp [execM]
  | runlock mu => cases mu <;> simp [nonBlocking] at h <;> simp [execM]
  | read l => cases l <;> simp [nonBlocking] at h <;> simp [execM]
  | write l => cases l <;> simp [nonBlocking] at h <;> simp [execM]
  | brNe l k => cases l <;> simp [nonBlocking] at h <;> simp [execM]
  | deferUnlock mu => simp [execM]
  | deferRUnlock mu => simp [execM]
  | jmp k => simp [execM]
  | ctxCheck => simp [execM]
  | ret => simp [execM]
  | _ => simp [nonBlocking] at h

/-- table: while a lock is held the next micro-op is non-blocking; every micro-op of the atom
    programs is non-blocking, a lock acquisition or the callback -/
def progressTable : Bool :=
  atomNames.all fun n => (List.range (prog n).length).all fun pc =>
    match (prog n)[pc]? with
    | none => false
    | some m =>
      ((holdsWAt n pc || holdsRAt n pc) → nonBlocking m) &&
      (nonBlocking m || m == .lock .atomRW || m == .rlock .atomRW || m == .callback)

theorem progressTable_true : progressTable = true := by decide

theorem progress_entry {n : OpName} {pc : Nat} (hn : n ∈ atomNames) (hpc : pc < (prog n).length) :
    ∃ m, (prog n)[pc]? = some m ∧ ((holdsWAt n pc || holdsRAt n pc) = true → nonBlocking m = true) ∧
      (nonBlocking m = true ∨ m = .lock .atomRW ∨ m = .rlock .atomRW ∨ m = .callback) := by
  have h := progressTable_true
  unfold progressTable at h
  rw [List.all_eq_true] at h
  have h1 := h n hn
  rw [List.all_eq_true] at h1
  have h2 := h1 pc (List.mem_range.mpr hpc)
  split at h2
  · cases h2
  · rename_i m hm
    refine ⟨m, hm, ?_, ?_⟩
    · intro hh; simp only [Bool.and_eq_true, decide_eq_true_eq] at h2; exact h2.1 hh
    · simp only [Bool.and_eq_true, Bool.or_eq_true, beq_iff_eq] at h2
      rcases h2.2 with ((h3 | h3) | h3) | h3
      · exact Or.inl h3
      · exact Or.inr (Or.inl h3)
      · exact Or.inr (Or.inr (Or.inl h3))
      · exact Or.inr (Or.inr (Or.inr h3))

theorem step_mop {s : State} {t : Nat} {fr : Frame} {rest : List Frame} {m : MOp}
    (hst : (s.threads t).stack = fr :: rest) (hnr : fr.returning = false)
    (hm : (prog fr.op.name)[fr.pc]? = some m) (hcb : m ≠ .callback) :
    step prog s t = (execM t m fr (s.atoms fr.op.atom)).map fun (fr', A') =>
      s.setTop t fr' rest A' (linOf t m fr (s.atoms fr.op.atom)) := by
  unfold Conc.step
  simp only [hst, hnr, hm, Bool.false_eq_true, ↓reduceIte]

theorem step_defer {s : State} {t : Nat} {fr : Frame} {rest : List Frame} {d : MOp} {ds : List MOp}
    (hst : (s.threads t).stack = fr :: rest) (hr : fr.returning = true) (hd : fr.defers = d :: ds) :
    step prog s t = (execM t d { fr with defers := ds } (s.atoms fr.op.atom)).map fun (fr', A') =>
      s.setTop t { fr' with pc := fr.pc } rest A' [] := by
  unfold Conc.step
  simp only [hst, hr, hd, ↓reduceIte]

/-- a thread that holds a lock can always move -/
theorem holder_enabled {s : State} {t : Nat} {fr : Frame} {rest : List Frame}
    (hst : (s.threads t).stack = fr :: rest) (hwf : FrameWF fr)
    (hh : holdsW fr = true ∨ holdsR fr = true) : enabled prog s t = true := by
  unfold enabled
  cases hr : fr.returning
  · have hwf0 := hwf
    unfold FrameWF at hwf0
    simp only [hr] at hwf0
    obtain ⟨m, hm, hnb, -⟩ := progress_entry (name_mem fr.op) hwf0.1
    have hnb : nonBlocking m = true := by
      apply hnb
      simp only [holdsW, holdsR, hr] at hh
      simpa using hh
    have hcb : m ≠ .callback := by intro hc; subst hc; simp [nonBlocking] at hnb
    rw [step_mop hst hr hm hcb, Option.isSome_map]
    exact nonBlocking_exec hnb _ _ _
  · cases hd : fr.defers with
    | nil => simp [holdsW, holdsR, hr, hd] at hh
    | cons d ds =>
      obtain ⟨-, hdd⟩ := returning_defers hwf hr hd
      rw [step_defer hst hr hd, Option.isSome_map]
      rcases hdd with hdd | hdd <;> subst hdd <;> simp [execM]

/-- when no lock is taken anywhere, every thread that has something to do can move -/
theorem free_enabled {s : State} {t : Nat} (h : LockInv s)
    (hfree : ∀ a, (s.atoms a).w = none ∧ (s.atoms a).r = []) (hp : pending s t = true) :
    enabled prog s t = true := by
  unfold enabled
  cases hst : (s.threads t).stack with
  | nil =>
    unfold Conc.step
    simp only [hst]
    cases htd : (s.threads t).todo with
    | nil => simp [pending, hst, htd] at hp
    | cons op more => simp
  | cons fr rest =>
    have hwfs := h.wf t
    rw [hst] at hwfs
    obtain ⟨hwf, hrest⟩ := hwfs
    cases hr : fr.returning
    · have hwf0 := hwf
      unfold FrameWF at hwf0
      simp only [hr] at hwf0
      obtain ⟨m, hm, -, hcls⟩ := progress_entry (name_mem fr.op) hwf0.1
      rcases hcls with hnb | hl | hl | hl
      · have hcb : m ≠ .callback := by intro hc; subst hc; simp [nonBlocking] at hnb
        rw [step_mop hst hr hm hcb, Option.isSome_map]
        exact nonBlocking_exec hnb _ _ _
      · subst hl
        rw [step_mop hst hr hm (by simp), Option.isSome_map]
        simp [execM, (hfree fr.op.atom).1, (hfree fr.op.atom).2]
      · subst hl
        rw [step_mop hst hr hm (by simp), Option.isSome_map]
        simp [execM, (hfree fr.op.atom).1]
      · subst hl
        obtain ⟨hn, -⟩ := callback_pc (name_mem fr.op) hm
        unfold Conc.step
        simp only [hst, hr, hm, Bool.false_eq_true, ↓reduceIte]
        cases hop : fr.op with
        | swap a f => cases f <;> simp
        | deref a => simp [hop, AOp.name] at hn
        | reset a v => simp [hop, AOp.name] at hn
        | print a => simp [hop, AOp.name] at hn
    · cases hd : fr.defers with
      | cons d ds =>
        obtain ⟨-, hdd⟩ := returning_defers hwf hr hd
        rw [step_defer hst hr hd, Option.isSome_map]
        rcases hdd with hdd | hdd <;> subst hdd <;> simp [execM]
      | nil =>
        unfold Conc.step
        simp only [hst, hr, hd, ↓reduceIte]
        cases rest with
        | nil => simp
        | cons par rest' => cases fr.retval <;> simp

/-- progress: if some thread has something to do, some thread has an enabled step -/
theorem LockInv.progress {s : State} (h : LockInv s) {t : Nat} (hp : pending s t = true) :
    ∃ u, enabled prog s u = true := by
  by_cases hw : ∃ a u, (s.atoms a).w = some u
  · obtain ⟨a, u, hwu⟩ := hw
    obtain ⟨top, rest, hst, -, hh⟩ := (h.w_iff a u).mp hwu
    have hwf := h.wf u
    rw [hst] at hwf
    exact ⟨u, holder_enabled hst hwf.1 (Or.inl hh)⟩
  · by_cases hr : ∃ a u, u ∈ (s.atoms a).r
    · obtain ⟨a, u, hru⟩ := hr
      obtain ⟨top, rest, hst, -, hh⟩ := (h.r_iff a u).mp hru
      have hwf := h.wf u
      rw [hst] at hwf
      exact ⟨u, holder_enabled hst hwf.1 (Or.inr hh)⟩
    · refine ⟨t, free_enabled h ?_ hp⟩
      intro a
      constructor
      · cases hwa : (s.atoms a).w with
        | none => rfl
        | some u => exact absurd ⟨a, u, hwa⟩ hw
      · cases hra : (s.atoms a).r with
        | nil => rfl
        | cons u l => exact absurd ⟨a, u, by rw [hra]; simp⟩ hr

/-- no lock is held across the update function: a thread whose `swap!` is at its `callback`
    (about to run, or running, the update function) holds no lock at all -/
theorem LockInv.callback_holds_nothing {s : State} (h : LockInv s) {t : Nat} {fr : Frame}
    (hfr : fr ∈ (s.threads t).stack) (hcb : (prog fr.op.name)[fr.pc]? = some .callback)
    (hnr : fr.returning = false) (a : Nat) :
    ((s.atoms a).w = some t → ∃ top rest, (s.threads t).stack = top :: rest ∧ top ≠ fr) ∧
    (holdsW fr = false ∧ holdsR fr = false) := by
  obtain ⟨hn, hpc⟩ := callback_pc (name_mem fr.op) hcb
  have hW : holdsW fr = false := by simp [holdsW, hnr, hn, hpc, holdsWAt]
  have hR : holdsR fr = false := by simp [holdsR, hnr, hn, hpc, holdsRAt]
  refine ⟨?_, hW, hR⟩
  intro hw
  obtain ⟨top, rest, hst, -, hh⟩ := (h.w_iff a t).mp hw
  refine ⟨top, rest, hst, ?_⟩
  intro he; subst he; rw [hW] at hh; cases hh

end LispModel.Proofs.ConcAtom

/-
  C11 proofs, part 9: without a Stepper the interpreter's package-level variables are never written.
-/
import LispModel.ConcEnv
namespace LispModel.Proofs.ConcEnv
open LispModel.ConcEnv

theorem stepperGuard_false {G : Globals} (h0 : G.stepper = false) (h1 : G.outing1 = false) (h2 : G.outing2 = false)
    (oracle : String → Bool) {g : String} (hg : isStepperGuard g = true) : guardHolds G oracle g = false := by
  simp only [isStepperGuard, Bool.or_eq_true, beq_iff_eq] at hg
  unfold guardHolds
  rcases hg with (hg | hg) | hg <;> subst hg <;> simp [h0, h1, h2]

theorem fire_noop {G : Globals} (h0 : G.stepper = false) (h1 : G.outing1 = false) (h2 : G.outing2 = false)
    {site : String × List String} (hs : site.2.any isStepperGuard = true) (b : Bool) (oracle : String → Bool) :
    fire G site b oracle = G := by
  unfold fire
  have : site.2.all (guardHolds G oracle) = false := by
    rw [List.any_eq_true] at hs
    obtain ⟨g, hg, hgs⟩ := hs
    rw [Bool.eq_false_iff]
    intro hall
    rw [List.all_eq_true] at hall
    have := hall g hg
    rw [stepperGuard_false h0 h1 h2 oracle hgs] at this
    cases this
  simp [this]

/-- any sequence of visits to assignment sites that all sit under a Stepper guard leaves the globals as
    they are, as long as no Stepper is installed and the two flags start cleared (Go zero values) -/
theorem globals_untouched (sites : List (String × List String))
    (hs : ∀ a ∈ sites, a.2.any isStepperGuard = true) (G : Globals)
    (h0 : G.stepper = false) (h1 : G.outing1 = false) (h2 : G.outing2 = false)
    (visits : List ((String × List String) × Bool × (String → Bool))) (hv : ∀ x ∈ visits, x.1 ∈ sites) :
    visits.foldl (fun G x => fire G x.1 x.2.1 x.2.2) G = G := by
  induction visits with
  | nil => rfl
  | cons x xs ih =>
    simp only [List.foldl_cons]
    rw [fire_noop h0 h1 h2 (hs x.1 (hv x (by simp)))]
    exact ih (fun y hy => hv y (by simp [hy]))

end LispModel.Proofs.ConcEnv

/-
  Parser lemmas for `readForm` / `readList` (Read.lean): a five-way classification of the first
  token (`shape`), locality, fuel monotonicity, fuel adequacy, panic origin, and the
  "runs out of tokens" lemma behind C16.  Core Lean only.
-/
import LispModel.Read
namespace LispModel.Proofs.Reader
open LispModel LispModel.Read LispModel.Scan

inductive Shape where
  | rmacro (name : String)
  | wmeta
  | closer (s : String)
  | opn (closer : String) (k : List Val → Token → Except RErr Val)
  | leaf (r : Except RErr Val)

def shape (cfg : Cfg) (t : Token) : Shape :=
  let s := tokStr t
  let pos := tokPos cfg t
  match readerMacros.lookup s with
  | some name => .rmacro name
  | none =>
    if s = "^" then .wmeta
    else if s = ")" then .closer ")"
    else if s = "]" then .closer "]"
    else if s = "}" then .closer "}"
    else if s = "(" then .opn ")" (fun xs close => .ok (.list xs (some (closePos pos (tokPos cfg close)))))
    else if s = "[" then .opn "]" (fun xs close => .ok (.vec xs (some (closePos pos (tokPos cfg close)))))
    else if s = "{" then .opn "}" (fun xs _ =>
        match newHashMap xs [] with
        | .error e => .error e
        | .ok m => .ok (.map m))
    else if s = "#{" then .opn "}" (fun xs _ =>
        match newSet xs [] with
        | .error e => .error e
        | .ok m => .ok (.set m))
    else if s = "«" then .opn "»" (fun xs _ =>
        match xs with
        | [] => .error (.extern "typename")
        | .sym name _ :: args =>
          if !cfg.hasEnv then .error (.extern "noenv")
          else match externCall name args with
            | .error e => .error e
            | .ok v => .ok v
        | _ :: _ => .error (.extern "typename"))
    else if t.text.head? = some 36 then
      .leaf (match cfg.phs with
        | none => .ok (.sym s (some pos))
        | some m => .ok ((alookup s m).getD .nil))
    else .leaf (readAtom cfg t)

def mkMacro (cfg : Cfg) (t : Token) (name : String) (form : Val) : Val :=
  .list [.sym name (some (tokPos cfg t)), form] (some (closePos (tokPos cfg t) (tokPos cfg t)))
def mkMeta (cfg : Cfg) (t : Token) (form metaV : Val) : Val :=
  .list [.sym "with-meta" (some (tokPos cfg t)), form, metaV] (some (closePos (tokPos cfg t) (tokPos cfg t)))

theorem readForm_cons (f : Nat) (cfg : Cfg) (t : Token) (rest : List Token) :
    readForm (f+1) cfg (t :: rest) =
    match shape cfg t with
    | .rmacro name =>
      (match readForm f cfg rest with
       | .error e => .error e
       | .ok (form, rest') => .ok (mkMacro cfg t name form, rest'))
    | .wmeta =>
      (match readForm f cfg rest with
       | .error e => .error e
       | .ok (m, rest') =>
         match readForm f cfg rest' with
         | .error e => .error e
         | .ok (form, rest'') => .ok (mkMeta cfg t form m, rest''))
    | .closer s => .error (.unexpected s)
    | .opn closer k =>
      (match readList f cfg closer rest [] with
       | .error e => .error e
       | .ok (xs, close, rest') =>
         match k xs close with
         | .error e => .error e
         | .ok v => .ok (v, rest'))
    | .leaf r => (match r with | .error e => .error e | .ok v => .ok (v, rest)) := by
  rw [readForm]
  simp only [shape, mkMacro, mkMeta]
  cases hL : List.lookup (tokStr t) readerMacros with
  | some name => rfl
  | none =>
    simp only []
    by_cases h1 : tokStr t = "^"
    · rw [if_pos h1, if_pos h1]; rfl
    rw [if_neg h1, if_neg h1]
    by_cases h2 : tokStr t = ")"
    · rw [if_pos h2, if_pos h2]
    rw [if_neg h2, if_neg h2]
    by_cases h3 : tokStr t = "]"
    · rw [if_pos h3, if_pos h3]
    rw [if_neg h3, if_neg h3]
    by_cases h4 : tokStr t = "}"
    · rw [if_pos h4, if_pos h4]
    rw [if_neg h4, if_neg h4]
    by_cases h5 : tokStr t = "("
    · rw [if_pos h5, if_pos h5]; rfl
    rw [if_neg h5, if_neg h5]
    by_cases h6 : tokStr t = "["
    · rw [if_pos h6, if_pos h6]; rfl
    rw [if_neg h6, if_neg h6]
    by_cases h7 : tokStr t = "{"
    · rw [if_pos h7, if_pos h7]
      simp only []
      cases readList f cfg "}" rest [] with
      | error e => rfl
      | ok r =>
        obtain ⟨xs, close, rest'⟩ := r
        simp only []
        cases newHashMap xs [] <;> rfl
    rw [if_neg h7, if_neg h7]
    by_cases h8 : tokStr t = "#{"
    · rw [if_pos h8, if_pos h8]
      simp only []
      cases readList f cfg "}" rest [] with
      | error e => rfl
      | ok r =>
        obtain ⟨xs, close, rest'⟩ := r
        simp only []
        cases newSet xs [] <;> rfl
    rw [if_neg h8, if_neg h8]
    by_cases h9 : tokStr t = "«"
    · rw [if_pos h9, if_pos h9]
      simp only []
      cases readList f cfg "»" rest [] with
      | error e => rfl
      | ok r =>
        obtain ⟨xs, close, rest'⟩ := r
        simp only []
        cases xs with
        | nil => rfl
        | cons x xs' =>
          cases x <;> try rfl
          rename_i name pos
          simp only []
          cases cfg.hasEnv
          · rfl
          · simp only [Bool.not_true, Bool.false_eq_true, if_false]
            cases externCall name xs' <;> rfl
    rw [if_neg h9, if_neg h9]
    by_cases h10 : t.text.head? = some 36
    · rw [if_pos h10, if_pos h10]
      simp only []
      cases cfg.phs <;> rfl
    rw [if_neg h10, if_neg h10]
    rfl

theorem readForm_zero (cfg : Cfg) (ts : List Token) : readForm 0 cfg ts = .error (.panic "fuel") := by
  rw [readForm]
theorem readForm_nil (f : Nat) (cfg : Cfg) : readForm (f+1) cfg [] = .error .underflow := by
  rw [readForm]
theorem readList_zero (cfg : Cfg) (closer : String) (ts : List Token) (acc : List Val) :
    readList 0 cfg closer ts acc = .error (.panic "fuel") := by
  rw [readList]
theorem readList_nil (f : Nat) (cfg : Cfg) (closer : String) (acc : List Val) :
    readList (f+1) cfg closer [] acc = .error (.eof closer) := by
  rw [readList]
theorem readList_cons (f : Nat) (cfg : Cfg) (closer : String) (t : Token) (rest : List Token) (acc : List Val) :
    readList (f+1) cfg closer (t :: rest) acc =
      if tokStr t = closer then .ok (acc.reverse, t, rest)
      else match readForm f cfg (t :: rest) with
        | .error e => .error e
        | .ok (v, rest') => readList f cfg closer rest' (v :: acc) := by
  rw [readList]
  split <;> rfl

/-! ### locality -/

theorem locality (cfg : Cfg) : ∀ f,
    (∀ ts v rest, readForm f cfg ts = .ok (v, rest) →
      ∃ pre, pre ≠ [] ∧ ts = pre ++ rest ∧ ∀ extra, readForm f cfg (pre ++ extra) = .ok (v, extra)) ∧
    (∀ closer ts acc xs close rest, readList f cfg closer ts acc = .ok (xs, close, rest) →
      ∃ pre, ts = pre ++ close :: rest ∧
        ∀ extra, readList f cfg closer (pre ++ close :: extra) acc = .ok (xs, close, extra)) := by
  intro f
  induction f with
  | zero =>
    constructor
    · intro ts v rest h; rw [readForm_zero] at h; cases h
    · intro closer ts acc xs close rest h; rw [readList_zero] at h; cases h
  | succ f ih =>
    obtain ⟨ihF, ihL⟩ := ih
    constructor
    · intro ts v rest h
      cases ts with
      | nil => rw [readForm_nil] at h; cases h
      | cons t ts' =>
        rw [readForm_cons] at h
        cases hs : shape cfg t with
        | rmacro name =>
          simp only [hs] at h
          cases hr : readForm f cfg ts' with
          | error e => simp [hr] at h
          | ok r =>
            obtain ⟨form, rest'⟩ := r
            simp only [hr, Except.ok.injEq, Prod.mk.injEq] at h
            obtain ⟨rfl, rfl⟩ := h
            obtain ⟨pre, _, rfl, hx⟩ := ihF _ _ _ hr
            refine ⟨t :: pre, by simp, by simp, fun extra => ?_⟩
            rw [List.cons_append, readForm_cons]
            simp only [hs, hx extra]
        | wmeta =>
          simp only [hs] at h
          cases hr : readForm f cfg ts' with
          | error e => simp [hr] at h
          | ok r =>
            obtain ⟨m, rest'⟩ := r
            simp only [hr] at h
            cases hr2 : readForm f cfg rest' with
            | error e => simp [hr2] at h
            | ok r2 =>
              obtain ⟨form, rest''⟩ := r2
              simp only [hr2, Except.ok.injEq, Prod.mk.injEq] at h
              obtain ⟨rfl, rfl⟩ := h
              obtain ⟨pre, _, rfl, hx⟩ := ihF _ _ _ hr
              obtain ⟨pre2, _, rfl, hx2⟩ := ihF _ _ _ hr2
              refine ⟨t :: (pre ++ pre2), by simp, by simp, fun extra => ?_⟩
              rw [List.cons_append, readForm_cons]
              simp only [hs, List.append_assoc, hx (pre2 ++ extra), hx2 extra]
        | closer s => simp [hs] at h
        | opn closer k =>
          simp only [hs] at h
          cases hr : readList f cfg closer ts' [] with
          | error e => simp [hr] at h
          | ok r =>
            obtain ⟨xs, close, rest'⟩ := r
            simp only [hr] at h
            cases hk : k xs close with
            | error e => simp [hk] at h
            | ok v' =>
              simp only [hk, Except.ok.injEq, Prod.mk.injEq] at h
              obtain ⟨rfl, rfl⟩ := h
              obtain ⟨pre, rfl, hx⟩ := ihL _ _ _ _ _ _ hr
              refine ⟨t :: (pre ++ [close]), by simp, by simp, fun extra => ?_⟩
              rw [List.cons_append, readForm_cons]
              simp only [hs, List.append_assoc, List.singleton_append, hx extra, hk]
        | leaf r =>
          simp only [hs] at h
          cases r with
          | error e => simp at h
          | ok v' =>
            simp only [Except.ok.injEq, Prod.mk.injEq] at h
            obtain ⟨rfl, rfl⟩ := h
            refine ⟨[t], by simp, by simp, fun extra => ?_⟩
            rw [List.singleton_append, readForm_cons]
            simp only [hs]
    · intro closer ts acc xs close rest h
      cases ts with
      | nil => rw [readList_nil] at h; cases h
      | cons t ts' =>
        rw [readList_cons] at h
        by_cases hc : tokStr t = closer
        · rw [if_pos hc] at h
          simp only [Except.ok.injEq, Prod.mk.injEq] at h
          obtain ⟨rfl, rfl, rfl⟩ := h
          refine ⟨[], by simp, fun extra => ?_⟩
          rw [List.nil_append, readList_cons, if_pos hc]
        · rw [if_neg hc] at h
          cases hr : readForm f cfg (t :: ts') with
          | error e => simp [hr] at h
          | ok r =>
            obtain ⟨v, rest'⟩ := r
            simp only [hr] at h
            obtain ⟨pre, hne, hts, hx⟩ := ihF _ _ _ hr
            obtain ⟨pre2, rfl, hx2⟩ := ihL _ _ _ _ _ _ h
            refine ⟨pre ++ pre2, by simp [hts], fun extra => ?_⟩
            cases pre with
            | nil => exact absurd rfl hne
            | cons p pre' =>
              have hp : p = t := by simp at hts; exact hts.1.symm
              subst hp
              rw [List.cons_append, List.cons_append, readList_cons, if_neg hc]
              have := hx (pre2 ++ close :: extra)
              rw [List.cons_append] at this
              simp only [List.append_assoc, this, hx2 extra]

theorem readForm_local {f : Nat} {cfg : Cfg} {ts : List Token} {v : Val} {rest : List Token}
    (h : readForm f cfg ts = .ok (v, rest)) :
    ∃ pre, pre ≠ [] ∧ ts = pre ++ rest ∧ ∀ extra, readForm f cfg (pre ++ extra) = .ok (v, extra) :=
  (locality cfg f).1 ts v rest h

theorem readList_local {f : Nat} {cfg : Cfg} {closer : String} {ts : List Token} {acc xs : List Val}
    {close : Token} {rest : List Token}
    (h : readList f cfg closer ts acc = .ok (xs, close, rest)) :
    ∃ pre, ts = pre ++ close :: rest ∧
      ∀ extra, readList f cfg closer (pre ++ close :: extra) acc = .ok (xs, close, extra) :=
  (locality cfg f).2 closer ts acc xs close rest h

/-! ### fuel monotonicity -/

abbrev fuelPanic {α} : Except RErr α := .error (.panic "fuel")

theorem mono (cfg : Cfg) : ∀ f,
    (∀ ts, readForm f cfg ts ≠ fuelPanic → ∀ f', f ≤ f' → readForm f' cfg ts = readForm f cfg ts) ∧
    (∀ closer ts acc, readList f cfg closer ts acc ≠ fuelPanic →
      ∀ f', f ≤ f' → readList f' cfg closer ts acc = readList f cfg closer ts acc) := by
  intro f
  induction f with
  | zero =>
    constructor
    · intro ts h; rw [readForm_zero] at h; exact absurd rfl h
    · intro closer ts acc h; rw [readList_zero] at h; exact absurd rfl h
  | succ f ih =>
    obtain ⟨ihF, ihL⟩ := ih
    constructor
    · intro ts h f' hf
      obtain ⟨f', rfl⟩ : ∃ g, f' = g + 1 := ⟨f' - 1, by omega⟩
      have hf : f ≤ f' := by omega
      cases ts with
      | nil => rw [readForm_nil, readForm_nil]
      | cons t ts' =>
        rw [readForm_cons] at h ⊢
        rw [readForm_cons]
        cases hs : shape cfg t with
        | rmacro name =>
          simp only [hs] at h ⊢
          have h1 : readForm f cfg ts' ≠ fuelPanic := by
            intro heq; apply h; rw [heq]
          rw [ihF _ h1 _ hf]
        | wmeta =>
          simp only [hs] at h ⊢
          have h1 : readForm f cfg ts' ≠ fuelPanic := by
            intro heq; apply h; rw [heq]
          rw [ihF _ h1 _ hf]
          cases hr : readForm f cfg ts' with
          | error e => rfl
          | ok r =>
            obtain ⟨m, rest'⟩ := r
            simp only [hr] at h ⊢
            have h2 : readForm f cfg rest' ≠ fuelPanic := by
              intro heq; apply h; rw [heq]
            rw [ihF _ h2 _ hf]
        | closer s => rfl
        | opn closer k =>
          simp only [hs] at h ⊢
          have h1 : readList f cfg closer ts' [] ≠ fuelPanic := by
            intro heq; apply h; rw [heq]
          rw [ihL _ _ _ h1 _ hf]
        | leaf r => rfl
    · intro closer ts acc h f' hf
      obtain ⟨f', rfl⟩ : ∃ g, f' = g + 1 := ⟨f' - 1, by omega⟩
      have hf : f ≤ f' := by omega
      cases ts with
      | nil => rw [readList_nil, readList_nil]
      | cons t ts' =>
        rw [readList_cons] at h ⊢
        rw [readList_cons]
        by_cases hc : tokStr t = closer
        · rw [if_pos hc, if_pos hc]
        · rw [if_neg hc] at h ⊢
          rw [if_neg hc]
          have h1 : readForm f cfg (t :: ts') ≠ fuelPanic := by
            intro heq; apply h; rw [heq]
          rw [ihF _ h1 _ hf]
          cases hr : readForm f cfg (t :: ts') with
          | error e => rfl
          | ok r =>
            obtain ⟨v, rest'⟩ := r
            simp only [hr] at h ⊢
            exact ihL _ _ _ h _ hf

theorem readForm_mono {f f' : Nat} {cfg : Cfg} {ts : List Token}
    (h : readForm f cfg ts ≠ .error (.panic "fuel")) (hf : f ≤ f') :
    readForm f' cfg ts = readForm f cfg ts := (mono cfg f).1 ts h f' hf

/-! ### properties of `shape` -/

theorem newHashMapLoop_no_panic (xs : List Val) (m : List (String × Val)) (s : String) :
    newHashMapLoop xs m ≠ .error (.panic s) := by
  fun_induction newHashMapLoop xs m <;> simp_all

theorem newHashMap_no_panic (xs : List Val) (m : List (String × Val)) (s : String) :
    newHashMap xs m ≠ .error (.panic s) := by
  unfold newHashMap; split
  · simp
  · exact newHashMapLoop_no_panic _ _ _

theorem newSet_no_panic (xs : List Val) (m : List String) (s : String) :
    newSet xs m ≠ .error (.panic s) := by
  fun_induction newSet xs m <;> simp_all

theorem externCall_no_panic (name : String) (args : List Val) (s : String) :
    externCall name args ≠ .error (.panic s) := by
  unfold externCall
  repeat' split
  all_goals simp

theorem shape_opn_no_panic {cfg : Cfg} {t : Token} {closer : String} {k : List Val → Token → Except RErr Val}
    (h : shape cfg t = .opn closer k) (xs : List Val) (close : Token) (s : String) :
    k xs close ≠ .error (.panic s) := by
  unfold shape at h
  simp only [] at h
  cases hL : List.lookup (tokStr t) readerMacros with
  | some n => rw [hL] at h; cases h
  | none =>
    rw [hL] at h
    simp only [] at h
    by_cases h1 : tokStr t = "^"
    · rw [if_pos h1] at h; cases h
    rw [if_neg h1] at h
    split at h
    · cases h
    split at h
    · cases h
    split at h
    · cases h
    split at h
    · cases h; simp
    split at h
    · cases h; simp
    split at h
    · cases h
      have := newHashMap_no_panic xs [] s
      cases hh : newHashMap xs [] <;> simp_all
    split at h
    · cases h
      have := newSet_no_panic xs [] s
      cases hh : newSet xs [] <;> simp_all
    split at h
    · cases h
      simp only []
      split
      · simp
      · split
        · simp
        · rename_i name _ args _
          have := externCall_no_panic name args s
          cases hh : externCall name args <;> simp_all
      · simp
    split at h <;> cases h

theorem shape_leaf_panic {cfg : Cfg} {t : Token} {s : String}
    (h : shape cfg t = .leaf (.error (.panic s))) : readAtom cfg t = .error (.panic s) := by
  unfold shape at h
  simp only [] at h
  cases hL : List.lookup (tokStr t) readerMacros with
  | some n => rw [hL] at h; cases h
  | none =>
    rw [hL] at h
    simp only [] at h
    by_cases h1 : tokStr t = "^"
    · rw [if_pos h1] at h; cases h
    rw [if_neg h1] at h
    iterate 8 (split at h; · cases h)
    split at h
    · split at h <;> cases h
    · injection h

theorem shape_of_closer {cfg : Cfg} {t : Token}
    (h : tokStr t = ")" ∨ tokStr t = "]" ∨ tokStr t = "}") : shape cfg t = .closer (tokStr t) := by
  unfold shape
  have e1 : List.lookup ")" readerMacros = none := by decide
  have e2 : List.lookup "]" readerMacros = none := by decide
  have e3 : List.lookup "}" readerMacros = none := by decide
  rcases h with h | h | h <;> rw [h] <;> simp [e1, e2, e3]

/-! ### fuel adequacy and the origin of panics -/

theorem adequacy (cfg : Cfg) : ∀ f,
    (∀ ts s, 2 * ts.length + 1 ≤ f → readForm f cfg ts = .error (.panic s) →
      ∃ t ∈ ts, readAtom cfg t = .error (.panic s)) ∧
    (∀ closer ts acc s, 2 * ts.length + 2 ≤ f → readList f cfg closer ts acc = .error (.panic s) →
      ∃ t ∈ ts, readAtom cfg t = .error (.panic s)) := by
  intro f
  induction f with
  | zero =>
    constructor
    · intro ts s h; omega
    · intro closer ts acc s h; omega
  | succ f ih =>
    obtain ⟨ihF, ihL⟩ := ih
    constructor
    · intro ts s hlen h
      cases ts with
      | nil => rw [readForm_nil] at h; cases h
      | cons t ts' =>
        simp only [List.length_cons] at hlen
        rw [readForm_cons] at h
        cases hs : shape cfg t with
        | rmacro name =>
          simp only [hs] at h
          cases hr : readForm f cfg ts' with
          | error e =>
            simp only [hr, Except.error.injEq] at h
            subst h
            obtain ⟨t', ht', h'⟩ := ihF _ _ (by omega) hr
            exact ⟨t', List.mem_cons_of_mem _ ht', h'⟩
          | ok r => simp [hr] at h
        | wmeta =>
          simp only [hs] at h
          cases hr : readForm f cfg ts' with
          | error e =>
            simp only [hr, Except.error.injEq] at h
            subst h
            obtain ⟨t', ht', h'⟩ := ihF _ _ (by omega) hr
            exact ⟨t', List.mem_cons_of_mem _ ht', h'⟩
          | ok r =>
            obtain ⟨m, rest'⟩ := r
            simp only [hr] at h
            obtain ⟨pre, _, rfl, _⟩ := readForm_local hr
            cases hr2 : readForm f cfg rest' with
            | error e =>
              simp only [hr2, Except.error.injEq] at h
              subst h
              simp only [List.length_append] at hlen
              obtain ⟨t', ht', h'⟩ := ihF _ _ (by omega) hr2
              exact ⟨t', List.mem_cons_of_mem _ (List.mem_append_right _ ht'), h'⟩
            | ok r2 => simp [hr2] at h
        | closer s' => simp [hs] at h
        | opn closer k =>
          simp only [hs] at h
          cases hr : readList f cfg closer ts' [] with
          | error e =>
            simp only [hr, Except.error.injEq] at h
            subst h
            obtain ⟨t', ht', h'⟩ := ihL _ _ _ _ (by omega) hr
            exact ⟨t', List.mem_cons_of_mem _ ht', h'⟩
          | ok r =>
            obtain ⟨xs, close, rest'⟩ := r
            simp only [hr] at h
            cases hk : k xs close with
            | error e =>
              simp only [hk, Except.error.injEq] at h
              subst h
              exact absurd hk (shape_opn_no_panic hs xs close s)
            | ok v => simp [hk] at h
        | leaf r =>
          simp only [hs] at h
          cases r with
          | error e =>
            simp only [Except.error.injEq] at h
            subst h
            exact ⟨t, List.mem_cons_self, shape_leaf_panic hs⟩
          | ok v => simp at h
    · intro closer ts acc s hlen h
      cases ts with
      | nil => rw [readList_nil] at h; cases h
      | cons t ts' =>
        simp only [List.length_cons] at hlen
        rw [readList_cons] at h
        by_cases hc : tokStr t = closer
        · rw [if_pos hc] at h; cases h
        · rw [if_neg hc] at h
          cases hr : readForm f cfg (t :: ts') with
          | error e =>
            simp only [hr, Except.error.injEq] at h
            subst h
            exact ihF _ _ (by simp only [List.length_cons]; omega) hr
          | ok r =>
            obtain ⟨v, rest'⟩ := r
            simp only [hr] at h
            obtain ⟨pre, hne, hts, _⟩ := readForm_local hr
            have hl : (t :: ts').length = pre.length + rest'.length := by rw [hts, List.length_append]
            have hp : 0 < pre.length := List.length_pos_iff.mpr hne
            simp only [List.length_cons] at hl
            obtain ⟨t', ht', h'⟩ := ihL _ _ _ _ (by omega) h
            exact ⟨t', by rw [hts]; exact List.mem_append_right _ ht', h'⟩

theorem readAtom_panic_site {cfg : Cfg} {t : Token} {s : String}
    (h : readAtom cfg t = .error (.panic s)) :
    s = "reader.read_atom" ∧ t.text.length < 2 ∧
      (t.kind = .string ∨ (t.kind = .rawString ∧ t.text.map Char.ofNat ≠ ['¬'])) := by
  unfold readAtom at h
  simp only [] at h
  split at h
  · split at h <;> cases h
  · split at h
    · injection h with h; injection h with h
      rename_i hk hl
      simp only [List.length_map] at hl
      exact ⟨h.symm, hl, Or.inl hk⟩
    · cases h
  · split at h
    · cases h
    · split at h
      · injection h with h; injection h with h
        rename_i hk hne hl
        simp only [List.length_map] at hl
        exact ⟨h.symm, hl, Or.inr ⟨hk, hne⟩⟩
      · cases h
  · cases h
  · split at h <;> cases h
  · repeat' split at h
    all_goals cases h
  · cases h

theorem readForm_no_fuel_panic (cfg : Cfg) (ts : List Token) (f : Nat) (hf : 2 * ts.length + 1 ≤ f) :
    readForm f cfg ts ≠ .error (.panic "fuel") := by
  intro h
  obtain ⟨t, _, ht⟩ := (adequacy cfg f).1 ts "fuel" hf h
  have := (readAtom_panic_site ht).1
  revert this; decide

/-! ### running out of tokens -/

def IsCloser (t : Token) : Bool :=
  tokStr t == ")" || tokStr t == "]" || tokStr t == "}"

theorem isCloser_iff {t : Token} :
    IsCloser t = true ↔ (tokStr t = ")" ∨ tokStr t = "]" ∨ tokStr t = "}") := by
  simp [IsCloser, Bool.or_eq_true, beq_iff_eq, or_assoc]

theorem readForm_closer (f : Nat) (cfg : Cfg) (c : Token) (rest : List Token)
    (hc : tokStr c = ")" ∨ tokStr c = "]" ∨ tokStr c = "}") :
    readForm (f+1) cfg (c :: rest) = .error (.unexpected (tokStr c)) := by
  rw [readForm_cons, shape_of_closer hc]

theorem split_suffix {α} {toks : List α} {c : α} {cs pre rest : List α}
    (h : toks ++ c :: cs = pre ++ rest) :
    rest.length ≤ cs.length ∨ ∃ toks', rest = toks' ++ c :: cs ∧ toks = pre ++ toks' := by
  rcases List.append_eq_append_iff.mp h with ⟨a', h1, h2⟩ | ⟨c', h1, h2⟩
  · cases a' with
    | nil => right; exact ⟨[], by simpa using h2.symm, by simpa using h1.symm⟩
    | cons a a'' =>
      left
      simp only [List.cons_append, List.cons.injEq] at h2
      rw [h2.2, List.length_append]; omega
  · right; exact ⟨c', h2, h1⟩

theorem incomplete (cfg : Cfg) : ∀ f,
    (∀ toks c cs v rest, IsCloser c = true →
      readForm f cfg (toks ++ c :: cs) = .ok (v, rest) → rest.length ≤ cs.length →
      readForm f cfg toks = .error (.eof (tokStr c))) ∧
    (∀ closer toks c cs acc xs close rest, IsCloser c = true →
      readList f cfg closer (toks ++ c :: cs) acc = .ok (xs, close, rest) → rest.length ≤ cs.length →
      readList f cfg closer toks acc = .error (.eof (tokStr c))) := by
  intro f
  induction f with
  | zero =>
    constructor
    · intro toks c cs v rest _ h; rw [readForm_zero] at h; cases h
    · intro closer toks c cs acc xs close rest _ h; rw [readList_zero] at h; cases h
  | succ f ih =>
    obtain ⟨ihF, ihL⟩ := ih
    constructor
    · intro toks c cs v rest hc h hlen
      cases toks with
      | nil =>
        rw [List.nil_append, readForm_closer _ _ _ _ (isCloser_iff.mp hc)] at h; cases h
      | cons t toks' =>
        rw [List.cons_append, readForm_cons] at h
        rw [readForm_cons]
        cases hs : shape cfg t with
        | rmacro name =>
          simp only [hs] at h ⊢
          cases hr : readForm f cfg (toks' ++ c :: cs) with
          | error e => simp [hr] at h
          | ok r =>
            obtain ⟨form, rest'⟩ := r
            simp only [hr, Except.ok.injEq, Prod.mk.injEq] at h
            obtain ⟨_, rfl⟩ := h
            rw [ihF _ _ _ _ _ hc hr hlen]
        | wmeta =>
          simp only [hs] at h ⊢
          cases hr : readForm f cfg (toks' ++ c :: cs) with
          | error e => simp [hr] at h
          | ok r =>
            obtain ⟨m, rest'⟩ := r
            simp only [hr] at h
            cases hr2 : readForm f cfg rest' with
            | error e => simp [hr2] at h
            | ok r2 =>
              obtain ⟨form, rest''⟩ := r2
              simp only [hr2, Except.ok.injEq, Prod.mk.injEq] at h
              obtain ⟨_, rfl⟩ := h
              obtain ⟨pre, _, hts, hx⟩ := readForm_local hr
              rcases split_suffix hts with hle | ⟨toks'', rfl, rfl⟩
              · rw [ihF _ _ _ _ _ hc hr hle]
              · rw [hx toks'']
                simp only []
                rw [ihF _ _ _ _ _ hc hr2 hlen]
        | closer s => simp [hs] at h
        | opn closer k =>
          simp only [hs] at h ⊢
          cases hr : readList f cfg closer (toks' ++ c :: cs) [] with
          | error e => simp [hr] at h
          | ok r =>
            obtain ⟨xs, close, rest'⟩ := r
            simp only [hr] at h
            cases hk : k xs close with
            | error e => simp [hk] at h
            | ok v' =>
              simp only [hk, Except.ok.injEq, Prod.mk.injEq] at h
              obtain ⟨_, rfl⟩ := h
              rw [ihL _ _ _ _ _ _ _ _ hc hr hlen]
        | leaf r =>
          simp only [hs] at h
          cases r with
          | error e => simp at h
          | ok v' =>
            simp only [Except.ok.injEq, Prod.mk.injEq] at h
            obtain ⟨_, rfl⟩ := h
            simp only [List.length_append, List.length_cons] at hlen
            omega
    · intro closer toks c cs acc xs close rest hc h hlen
      cases toks with
      | nil =>
        rw [List.nil_append, readList_cons] at h
        by_cases hcl : tokStr c = closer
        · rw [readList_nil, hcl]
        · rw [if_neg hcl] at h
          cases f with
          | zero => rw [readForm_zero] at h; cases h
          | succ f' =>
            rw [readForm_closer _ _ _ _ (isCloser_iff.mp hc)] at h; cases h
      | cons t toks' =>
        rw [List.cons_append, readList_cons] at h
        rw [readList_cons]
        by_cases hcl : tokStr t = closer
        · rw [if_pos hcl] at h
          simp only [Except.ok.injEq, Prod.mk.injEq] at h
          obtain ⟨_, _, rfl⟩ := h
          simp only [List.length_append, List.length_cons] at hlen
          omega
        · rw [if_neg hcl] at h ⊢
          cases hr : readForm f cfg (t :: (toks' ++ c :: cs)) with
          | error e => simp [hr] at h
          | ok r =>
            obtain ⟨v, rest'⟩ := r
            simp only [hr] at h
            replace hr : readForm f cfg ((t :: toks') ++ c :: cs) = .ok (v, rest') := hr
            obtain ⟨pre, _, hts, hx⟩ := readForm_local hr
            rcases split_suffix hts with hle | ⟨toks'', rfl, hpre⟩
            · rw [ihF _ _ _ _ _ hc hr hle]
            · rw [hpre, hx toks'']
              simp only []
              exact ihL _ _ _ _ _ _ _ _ hc h hlen

end LispModel.Proofs.Reader

/-
  Store well-formedness as an invariant of the WHOLE evaluator block (task D1).

  `ValWF n v`   : every closure inside `v` (through lists / vectors / maps and through the closure's own
                  parameter form and body) has a scope id `< n`;
  `StateWF st`  : the store has a root scope, every `outer` link points to an OLDER scope, and every
                  value stored in a scope, an atom or the trace is `ValWF st.scopes.size`.
  Main theorem `inv : ∀ F, Inv F`: all 13 functions of the `mutual` block of `LispModel/Eval.lean`
  preserve `StateWF` and return `ValWF` values / error payloads (no side condition on debugger,
  cancellation or macros).  Consequences: the C01 scoping laws with `StateWF` of the START state as the
  only hypothesis.
  Core Lean only.
-/
import LispModel.Proofs.EvalBasic
import LispModel.Proofs.EvalLaws
import LispModel.Proofs.EvalErase
namespace LispModel
open LispModel.Core

/-! ### well-formed values -/

mutual
/-- every closure inside the value has a scope id `< n` -/
def ValWF (n : Nat) : Val → Prop
  | .list xs _ => ValsWF n xs
  | .vec xs _ => ValsWF n xs
  | .map kvs => KVsWF n kvs
  | .fn ps b e _ _ => ValWF n ps ∧ ValWF n b ∧ e < n
  | _ => True
def ValsWF (n : Nat) : List Val → Prop
  | [] => True
  | x :: xs => ValWF n x ∧ ValsWF n xs
def KVsWF (n : Nat) : List (String × Val) → Prop
  | [] => True
  | (_, v) :: r => ValWF n v ∧ KVsWF n r
end

/-- the payload of an error is well-formed -/
def ErrWF (n : Nat) : Err → Prop
  | .lisp p _ => ValWF n p
  | .plain _ => True

/-- a result (value or error payload) is well-formed -/
def ResWF (n : Nat) : Res Val → Prop
  | .ok v => ValWF n v
  | .err e => ErrWF n e
  | .oof => True

def ResLWF (n : Nat) : Res (List Val) → Prop
  | .ok v => ValsWF n v
  | .err e => ErrWF n e
  | .oof => True

def ResMWF (n : Nat) : Res (List (String × Val)) → Prop
  | .ok v => KVsWF n v
  | .err e => ErrWF n e
  | .oof => True

/-- store well-formedness: a root scope exists; `outer` links point to older scopes; every stored value
    only mentions existing scopes -/
structure StateWF (st : State) : Prop where
  root : 0 < st.scopes.size
  outer : ∀ (i : Nat) (sc : Scope), st.scopes[i]? = some sc → ∀ o, sc.outer = some o → o < i
  data : ∀ (i : Nat) (sc : Scope), st.scopes[i]? = some sc → KVsWF st.scopes.size sc.data
  atoms : ∀ (i : Nat) (v : Val), st.atoms[i]? = some v → ValWF st.scopes.size v
  trace : ValsWF st.scopes.size st.trace

namespace Proofs.EvalStoreWF
open Proofs.EvalBasic

section vals
variable {n m : Nat}

@[simp] theorem valWF_nil : ValWF n .nil := by simp [ValWF]
@[simp] theorem valWF_bool (b) : ValWF n (.bool b) := by simp [ValWF]
@[simp] theorem valWF_int (i) : ValWF n (.int i) := by simp [ValWF]
@[simp] theorem valWF_str (s) : ValWF n (.str s) := by simp [ValWF]
@[simp] theorem valWF_sym (s p) : ValWF n (.sym s p) := by simp [ValWF]
@[simp] theorem valWF_set (s) : ValWF n (.set s) := by simp [ValWF]
@[simp] theorem valWF_builtin (s) : ValWF n (.builtin s) := by simp [ValWF]
@[simp] theorem valWF_atom (s) : ValWF n (.atom s) := by simp [ValWF]
@[simp] theorem valWF_future (s) : ValWF n (.future s) := by simp [ValWF]
@[simp] theorem valWF_goerr (s) : ValWF n (.goerr s) := by simp [ValWF]
@[simp] theorem valWF_opaque (s) : ValWF n (.opaque s) := by simp [ValWF]
@[simp] theorem valWF_list (xs p) : ValWF n (.list xs p) ↔ ValsWF n xs := by simp [ValWF]
@[simp] theorem valWF_vec (xs p) : ValWF n (.vec xs p) ↔ ValsWF n xs := by simp [ValWF]
@[simp] theorem valWF_map (kvs) : ValWF n (.map kvs) ↔ KVsWF n kvs := by simp [ValWF]
@[simp] theorem valWF_fn (ps b e mc p) : ValWF n (.fn ps b e mc p) ↔ ValWF n ps ∧ ValWF n b ∧ e < n := by
  simp [ValWF]
@[simp] theorem valsWF_nil : ValsWF n [] := by simp [ValsWF]
@[simp] theorem valsWF_cons (x xs) : ValsWF n (x :: xs) ↔ ValWF n x ∧ ValsWF n xs := by simp [ValsWF]
@[simp] theorem kvsWF_nil : KVsWF n [] := by simp [KVsWF]
@[simp] theorem kvsWF_cons (k v r) : KVsWF n ((k, v) :: r) ↔ ValWF n v ∧ KVsWF n r := by simp [KVsWF]

theorem valsWF_iff (xs : List Val) : ValsWF n xs ↔ ∀ x ∈ xs, ValWF n x := by
  induction xs with
  | nil => simp
  | cons x xs ih => simp [ih]

theorem kvsWF_iff (m : List (String × Val)) : KVsWF n m ↔ ∀ kv ∈ m, ValWF n kv.2 := by
  induction m with
  | nil => simp
  | cons x xs ih => obtain ⟨k, v⟩ := x; simp [ih]

mutual
theorem valWF_mono (h : n ≤ m) : ∀ v : Val, ValWF n v → ValWF m v
  | .list xs _, hv => by simp only [valWF_list] at hv ⊢; exact valsWF_mono h xs hv
  | .vec xs _, hv => by simp only [valWF_vec] at hv ⊢; exact valsWF_mono h xs hv
  | .map kvs, hv => by simp only [valWF_map] at hv ⊢; exact kvsWF_mono h kvs hv
  | .fn ps b e _ _, hv => by
    simp only [valWF_fn] at hv ⊢
    exact ⟨valWF_mono h ps hv.1, valWF_mono h b hv.2.1, Nat.lt_of_lt_of_le hv.2.2 h⟩
  | .nil, _ | .bool _, _ | .int _, _ | .str _, _ | .sym _ _, _ | .set _, _ | .builtin _, _ | .atom _, _
  | .future _, _ | .goerr _, _ | .opaque _, _ => by simp
theorem valsWF_mono (h : n ≤ m) : ∀ xs : List Val, ValsWF n xs → ValsWF m xs
  | [], _ => by simp
  | x :: xs, hv => by
    simp only [valsWF_cons] at hv ⊢; exact ⟨valWF_mono h x hv.1, valsWF_mono h xs hv.2⟩
theorem kvsWF_mono (h : n ≤ m) : ∀ kvs : List (String × Val), KVsWF n kvs → KVsWF m kvs
  | [], _ => by simp
  | (k, v) :: r, hv => by
    simp only [kvsWF_cons] at hv ⊢; exact ⟨valWF_mono h v hv.1, kvsWF_mono h r hv.2⟩
end

theorem errWF_mono (h : n ≤ m) {e : Err} (he : ErrWF n e) : ErrWF m e := by
  cases e with
  | lisp p _ => exact valWF_mono h p he
  | plain _ => trivial

theorem resWF_mono (h : n ≤ m) {r : Res Val} (hr : ResWF n r) : ResWF m r := by
  cases r with
  | ok v => exact valWF_mono h v hr
  | err e => exact errWF_mono h hr
  | oof => trivial

/-! list / map operations keep well-formedness -/

theorem valsWF_append {xs ys : List Val} : ValsWF n (xs ++ ys) ↔ ValsWF n xs ∧ ValsWF n ys := by
  simp only [valsWF_iff, List.mem_append]
  exact ⟨fun h => ⟨fun x hx => h x (Or.inl hx), fun x hx => h x (Or.inr hx)⟩,
    fun h x hx => hx.elim (h.1 x) (h.2 x)⟩

theorem valsWF_sub {xs ys : List Val} (hs : ∀ x ∈ ys, x ∈ xs) (h : ValsWF n xs) : ValsWF n ys := by
  rw [valsWF_iff] at h ⊢; exact fun x hx => h x (hs x hx)

theorem valsWF_take {xs : List Val} (k) (h : ValsWF n xs) : ValsWF n (xs.take k) :=
  valsWF_sub (fun _ hx => List.mem_of_mem_take hx) h
theorem valsWF_drop {xs : List Val} (k) (h : ValsWF n xs) : ValsWF n (xs.drop k) :=
  valsWF_sub (fun _ hx => List.mem_of_mem_drop hx) h
theorem valsWF_dropLast {xs : List Val} (h : ValsWF n xs) : ValsWF n xs.dropLast :=
  valsWF_sub (fun _ hx => List.dropLast_subset _ hx) h
theorem valsWF_tail {xs : List Val} (h : ValsWF n xs) : ValsWF n xs.tail :=
  valsWF_sub (fun _ hx => List.mem_of_mem_tail hx) h
theorem valsWF_reverse {xs : List Val} (h : ValsWF n xs) : ValsWF n xs.reverse :=
  valsWF_sub (fun _ hx => List.mem_reverse.mp hx) h

theorem valsWF_getD {xs : List Val} (h : ValsWF n xs) (i : Nat) : ValWF n (xs.getD i .nil) := by
  rw [List.getD_eq_getElem?_getD]
  cases hx : xs[i]? with
  | none => simp
  | some x => exact (valsWF_iff xs).mp h x (List.mem_of_getElem? hx)

theorem valsWF_headD {xs : List Val} (h : ValsWF n xs) : ValWF n (xs.headD .nil) := by
  cases xs with
  | nil => simp
  | cons x xs => exact ((valsWF_cons x xs).mp h).1

theorem valsWF_getLastD {xs : List Val} (h : ValsWF n xs) : ValWF n (xs.getLast?.getD .nil) := by
  cases hx : xs.getLast? with
  | none => simp
  | some x => exact (valsWF_iff xs).mp h x (List.mem_of_getLast? hx)

theorem valsWF_set {xs : List Val} (h : ValsWF n xs) (i : Nat) {v : Val} (hv : ValWF n v) :
    ValsWF n (xs.set i v) := by
  rw [valsWF_iff] at h ⊢
  intro x hx
  rcases List.mem_or_eq_of_mem_set hx with hx | rfl
  · exact h x hx
  · exact hv

theorem kvsWF_alookup {kvs : List (String × Val)} (h : KVsWF n kvs) (k : String) :
    ValWF n ((alookup k kvs).getD .nil) := by
  induction kvs with
  | nil => simp [alookup]
  | cons hd tl ih =>
    obtain ⟨k', v⟩ := hd
    simp only [kvsWF_cons] at h
    unfold alookup
    split
    · exact h.1
    · exact ih h.2

theorem kvsWF_alookup_some {kvs : List (String × Val)} (h : KVsWF n kvs) {k : String} {v : Val}
    (hk : alookup k kvs = some v) : ValWF n v := by
  have := kvsWF_alookup h k; rw [hk] at this; exact this

theorem kvsWF_ainsert {kvs : List (String × Val)} (h : KVsWF n kvs) (k : String) {v : Val} (hv : ValWF n v) :
    KVsWF n (ainsert k v kvs) := by
  induction kvs with
  | nil => simp [ainsert, hv]
  | cons hd tl ih =>
    obtain ⟨k', v'⟩ := hd
    simp only [kvsWF_cons] at h
    unfold ainsert
    split
    · simp [hv, h.2]
    · simp [h.1, ih h.2]

theorem kvsWF_aerase {kvs : List (String × Val)} (h : KVsWF n kvs) (k : String) : KVsWF n (aerase k kvs) := by
  induction kvs with
  | nil => simp [aerase]
  | cons hd tl ih =>
    obtain ⟨k', v'⟩ := hd
    simp only [kvsWF_cons] at h
    unfold aerase
    split
    · exact h.2
    · simp [h.1, ih h.2]

/-! the pure helpers of the evaluator -/

theorem errWF_newLispError {e : Err} (he : ErrWF n e) (c : Val) : ErrWF n (newLispError e c) := by
  unfold newLispError
  split
  · exact he
  · exact he
  · simp [ErrWF]

theorem errWF_goerr (msg : String) (p) : ErrWF n (.lisp (.goerr msg) p) := by simp [ErrWF]
theorem errWF_plain (msg : String) : ErrWF n (.plain msg) := trivial

theorem errWF_timeout (ast : Val) : ErrWF n (timeoutErr ast) := by
  unfold timeoutErr; exact errWF_newLispError (e := .plain _) trivial _

theorem valWF_caughtValue {e : Err} (he : ErrWF n e) : ValWF n (caughtValue e) := by
  cases e with
  | lisp p _ => exact he
  | plain _ => simp [caughtValue]

theorem valsWF_seqOf {v : Val} {xs : List Val} (hv : ValWF n v) (h : seqOf? v = some xs) : ValsWF n xs := by
  cases v <;> simp only [seqOf?] at h <;> first | (cases h; simpa using hv) | cases h

/-- the outcome of the binder is well-formed -/
def BindWF (n : Nat) : Except Err (List (String × Val)) → Prop
  | .ok data => KVsWF n data
  | .error e => ErrWF n e

theorem bindLoop_wf (bs exprs : List Val) (nb ne : Nat) (acc : List (String × Val))
    (he : ValsWF n exprs) (ha : KVsWF n acc) : BindWF n (bindLoop bs exprs nb ne acc) := by
  fun_induction bindLoop bs exprs nb ne acc with
  | case1 => exact ha
  | case2 => simp [BindWF, ErrWF]
  | case3 => exact kvsWF_ainsert ha _ (by simpa using he)
  | case4 => simp [BindWF, ErrWF]
  | case5 => simp [BindWF, ErrWF]
  | case6 _ _ _ _ _ _ _ _ _ ih =>
    simp only [valsWF_cons] at he
    exact ih he.2 (kvsWF_ainsert ha _ he.1)
  | case7 => simp [BindWF, ErrWF]

theorem bindParams_wf (params : Val) {args : List Val} (ha : ValsWF n args) :
    BindWF n (bindParams params args) := by
  unfold bindParams
  split
  · simp [BindWF]
  · exact bindLoop_wf _ _ _ _ _ ha (by simp)
  · exact bindLoop_wf _ _ _ _ _ ha (by simp)
  · simp [BindWF, ErrWF]

theorem bindParams_ok {params : Val} {args : List Val} {data} (ha : ValsWF n args)
    (h : bindParams params args = .ok data) : KVsWF n data := by
  have := bindParams_wf (n := n) params ha; rw [h] at this; exact this

theorem bindParams_err {params : Val} {args : List Val} {e} (ha : ValsWF n args)
    (h : bindParams params args = .error e) : ErrWF n e := by
  have := bindParams_wf (n := n) params ha; rw [h] at this; exact this

mutual
theorem quasiquote_wf : ∀ v : Val, ValWF n v → ValWF n (quasiquote v)
  | .vec xs _, hv => by
    unfold quasiquote; simp only [valWF_list, valsWF_cons, valWF_sym, valsWF_nil, and_true, true_and]
    exact qqLoop_wf xs (by simpa using hv)
  | .map m, hv => by unfold quasiquote; simpa using hv
  | .sym s p, _ => by unfold quasiquote; simp
  | .list xs _, hv => by
    unfold quasiquote
    simp only [valWF_list] at hv
    split
    · exact qqLoop_wf _ hv
    · simp only [valsWF_cons] at hv; exact hv.2.1
    · exact qqLoop_wf _ hv
  | .nil, _ | .bool _, _ | .int _, _ | .str _, _ | .set _, _ | .builtin _, _ | .atom _, _
  | .future _, _ | .goerr _, _ | .opaque _, _ => by unfold quasiquote; simp
  | .fn .., hv => by unfold quasiquote; exact hv
theorem qqLoop_wf : ∀ xs : List Val, ValsWF n xs → ValWF n (qqLoop xs)
  | [], _ => by unfold qqLoop; simp
  | elt :: rest, hv => by
    simp only [valsWF_cons] at hv
    have ih := qqLoop_wf rest hv.2
    unfold qqLoop
    split
    · have h1 := hv.1
      simp only [valWF_list, valsWF_cons] at h1
      simp [h1.2.1, ih]
    · simp [quasiquote_wf elt hv.1, ih]
end

/-- the operands of a `try` form are sub-forms of it -/
structure PartsWF (n : Nat) (parts : TryParts) : Prop where
  body : ValsWF n parts.body
  bind : ∀ b, parts.catchBind = some b → ValWF n b
  handler : ∀ h, parts.catchDo = some h → ValsWF n h
  fin : ∀ f, parts.finallyDo = some f → ValsWF n f

theorem clause_wf {c b : Val} {d : List Val} (hc : ValWF n c)
    (h : (match c with
        | Val.list (_ :: b :: d) _ =>
          if d.isEmpty = true then (Except.error "catch must have 2 arguments at least" : Except String (Val × List Val)) else Except.ok (b, d)
        | _ => Except.error "catch must have 2 arguments at least") = .ok (b, d)) : ValWF n b ∧ ValsWF n d := by
  split at h
  · split at h
    · cases h
    · cases h; simp only [valWF_list, valsWF_cons] at hc; exact ⟨hc.2.1, hc.2.2⟩
  · cases h

theorem fin_wf {c : Val} (hc : ValWF n c) :
    ValsWF n (match (generalizing := false) c with | Val.list (_ :: f) _ => f | _ => []) := by
  split
  · simp only [valWF_list, valsWF_cons] at hc; exact hc.2
  · simp

theorem splitTry_wf {lst : List Val} {parts : TryParts} (h : ValsWF n lst) (hs : splitTry lst = .ok parts) :
    PartsWF n parts := by
  have hlast : ValWF n (lst.getLast?.getD .nil) := valsWF_getLastD h
  have hpre : ValWF n (if lst.length ≥ 3 then lst.getD (lst.length - 2) .nil else .nil) := by
    split
    · exact valsWF_getD h _
    · simp
  unfold splitTry at hs
  simp only [] at hs
  generalize lst.getLast?.getD .nil = last at hs hlast
  generalize (if lst.length ≥ 3 then lst.getD (lst.length - 2) .nil else .nil) = pre at hs hpre
  have hb (k) : ValsWF n (List.take k (List.drop 1 lst)) := valsWF_take _ (valsWF_drop _ h)
  split at hs
  · split at hs
    · cases hs
    · rename_i heq; cases hs
      obtain ⟨h1, h2⟩ := clause_wf hlast heq
      exact ⟨hb _, by rintro _ ⟨⟩; exact h1, by rintro _ ⟨⟩; exact h2, by rintro _ ⟨⟩⟩
  · split at hs
    · split at hs
      · split at hs
        · cases hs
        · rename_i heq; cases hs
          obtain ⟨h1, h2⟩ := clause_wf hpre heq
          exact ⟨hb _, by rintro _ ⟨⟩; exact h1, by rintro _ ⟨⟩; exact h2, by rintro _ ⟨⟩; exact fin_wf hlast⟩
      · cases hs
        exact ⟨hb _, by rintro _ ⟨⟩, by rintro _ ⟨⟩, by rintro _ ⟨⟩; exact fin_wf hlast⟩
    · cases hs
      exact ⟨valsWF_drop _ h, by rintro _ ⟨⟩, by rintro _ ⟨⟩, by rintro _ ⟨⟩⟩
end vals

/-! ### state operations keep `StateWF` -/
section state
variable {st : State}

theorem stateWF_congr {s s' : State} (h : StateWF s) (h1 : s'.scopes = s.scopes) (h2 : s'.atoms = s.atoms)
    (h3 : s'.trace = s.trace) : StateWF s' := by
  constructor
  · rw [h1]; exact h.root
  · rw [h1]; exact h.outer
  · rw [h1]; exact h.data
  · rw [h1, h2]; exact h.atoms
  · rw [h1, h3]; exact h.trace

theorem stateWF_poll (h : StateWF st) : StateWF st.poll.2 := stateWF_congr h rfl rfl rfl

theorem lt_of_getElem? {α} {a : Array α} {i : Nat} {x : α} (h : a[i]? = some x) : i < a.size := by
  rcases Nat.lt_or_ge i a.size with hlt | hge
  · exact hlt
  · rw [Array.getElem?_eq_none hge] at h; cases h

theorem set_size (s : State) (env k v) : (s.set env k v).scopes.size = s.scopes.size := by
  unfold State.set; split <;> simp

theorem set_getElem? {s : State} {env : Nat} {k : String} {v : Val} {i : Nat} {sc : Scope} (h : (s.set env k v).scopes[i]? = some sc) :
    ∃ sc0 : Scope, s.scopes[i]? = some sc0 ∧ sc.outer = sc0.outer ∧ (sc.data = sc0.data ∨ sc.data = ainsert k v sc0.data) := by
  unfold State.set State.scope? at h
  split at h
  · exact ⟨sc, h, rfl, Or.inl rfl⟩
  · rename_i sc0 hsc0
    simp only [Array.getElem?_setIfInBounds] at h
    split at h
    · split at h
      · cases h; rename_i he _; subst he; exact ⟨sc0, hsc0, rfl, Or.inr rfl⟩
      · cases h
    · exact ⟨sc, h, rfl, Or.inl rfl⟩

theorem stateWF_set (h : StateWF st) (env k) {v : Val} (hv : ValWF st.scopes.size v) :
    StateWF (st.set env k v) := by
  constructor
  · rw [set_size]; exact h.root
  · intro i sc hsc o ho
    obtain ⟨sc0, h0, h1, _⟩ := set_getElem? hsc
    exact h.outer i sc0 h0 o (h1 ▸ ho)
  · intro i sc hsc
    rw [set_size]
    obtain ⟨sc0, h0, _, h2 | h2⟩ := set_getElem? hsc
    · rw [h2]; exact h.data _ _ h0
    · rw [h2]; exact kvsWF_ainsert (h.data _ _ h0) _ hv
  · rw [set_size, Proofs.EvalBasic.set_atoms]; exact h.atoms
  · rw [set_size, Proofs.EvalBasic.set_trace]; exact h.trace

theorem stateWF_newScope (h : StateWF st) {o : Nat} (ho : o < st.scopes.size) {data : List (String × Val)}
    (hd : KVsWF st.scopes.size data) : StateWF (st.newScope o data).1 := by
  have hle : st.scopes.size ≤ st.scopes.size + 1 := Nat.le_succ _
  constructor
  · simp [State.newScope]
  · intro i sc hsc o' ho'
    simp only [State.newScope, Array.getElem?_push] at hsc
    split at hsc
    · cases hsc; cases ho'; omega
    · exact h.outer i sc hsc o' ho'
  · intro i sc hsc
    simp only [State.newScope, Array.getElem?_push, Array.size_push] at hsc ⊢
    split at hsc
    · cases hsc; exact kvsWF_mono hle _ hd
    · exact kvsWF_mono hle _ (h.data i sc hsc)
  · intro i v hv
    simp only [State.newScope, Array.size_push] at hv ⊢
    exact valWF_mono hle _ (h.atoms i v hv)
  · simp only [State.newScope, Array.size_push]
    exact valsWF_mono hle _ h.trace

theorem stateWF_newAtom (h : StateWF st) {v : Val} (hv : ValWF st.scopes.size v) : StateWF (st.newAtom v).1 := by
  constructor
  · exact h.root
  · exact h.outer
  · exact h.data
  · intro i w hw
    simp only [State.newAtom, Array.getElem?_push] at hw ⊢
    split at hw
    · cases hw; exact hv
    · exact h.atoms i w hw
  · exact h.trace

theorem stateWF_setAtom (h : StateWF st) (id : Nat) {v : Val} (hv : ValWF st.scopes.size v) :
    StateWF { st with atoms := st.atoms.setIfInBounds id v } := by
  constructor
  · exact h.root
  · exact h.outer
  · exact h.data
  · intro i w hw
    simp only [Array.getElem?_setIfInBounds] at hw ⊢
    split at hw
    · split at hw
      · cases hw; exact hv
      · cases hw
    · exact h.atoms i w hw
  · exact h.trace

theorem stateWF_trace (h : StateWF st) {v : Val} (hv : ValWF st.scopes.size v) :
    StateWF { st with trace := v :: st.trace } := by
  constructor
  · exact h.root
  · exact h.outer
  · exact h.data
  · exact h.atoms
  · exact (valsWF_cons _ _).mpr ⟨hv, h.trace⟩

theorem stateWF_getAux (h : StateWF st) (k : String) : ∀ (f env : Nat) (v : Val),
    st.getAux f env k = some v → ValWF st.scopes.size v := by
  intro f
  induction f with
  | zero => intro env v hv; cases hv
  | succ f ih =>
    intro env v hv
    unfold State.getAux State.scope? at hv
    split at hv
    · cases hv
    · rename_i sc hsc
      split at hv
      · rename_i w hw; cases hv; exact kvsWF_alookup_some (h.data _ _ hsc) hw
      · split at hv
        · exact ih _ _ hv
        · cases hv

theorem stateWF_get (h : StateWF st) {env : Nat} {k : String} {v : Val} (hg : st.get env k = some v) :
    ValWF st.scopes.size v := stateWF_getAux h k _ _ _ hg

theorem stateWF_atomGetD (h : StateWF st) (id : Nat) : ValWF st.scopes.size (st.atoms.getD id .nil) := by
  rw [Array.getD_eq_getD_getElem?]
  cases hx : st.atoms[id]? with
  | none => simp
  | some x => exact h.atoms _ _ hx

theorem stateWF_outing1Defer (h : StateWF st) : StateWF (outing1Defer st) := by
  unfold outing1Defer
  split
  · split
    · exact stateWF_congr h rfl rfl rfl
    · exact h
  · exact h

theorem outing1Defer_scopes (st : State) : (outing1Defer st).scopes = st.scopes := by
  unfold outing1Defer
  split
  · split <;> rfl
  · rfl

end state

/-! ### the pure builtins create no closure -/
section core
variable {n : Nat}

/-- the outcome of a pure builtin is well-formed -/
def BResWF (n : Nat) : BRes → Prop
  | .ok v => ValWF n v
  | .thrown v => ValWF n v
  | .goerr _ => True

@[simp] theorem bresWF_ok (v) : BResWF n (.ok v) ↔ ValWF n v := Iff.rfl
@[simp] theorem bresWF_thrown (v) : BResWF n (.thrown v) ↔ ValWF n v := Iff.rfl
@[simp] theorem bresWF_goerr (m) : BResWF n (.goerr m) := trivial
@[simp] theorem bresWF_bool (b) : BResWF n (Core.bool b) := by simp [Core.bool]

theorem newHashMapLoop_wf (xs : List Val) (m : List (String × Val)) (hx : ValsWF n xs) (hm : KVsWF n m) :
    BResWF n (newHashMapLoop xs m) := by
  fun_induction newHashMapLoop xs m with
  | case1 => simpa using hm
  | case2 _ _ _ _ ih => simp only [valsWF_cons] at hx; exact ih hx.2.2 (kvsWF_ainsert hm _ hx.2.1)
  | case3 => simp
  | case4 => simp

theorem newHashMap_wf (xs : List Val) (hx : ValsWF n xs) : BResWF n (newHashMap xs) := by
  unfold newHashMap; split
  · simp
  · exact newHashMapLoop_wf _ _ hx (by simp)

theorem newSet_wf (xs : List Val) (s : List String) : BResWF n (newSet xs s) := by
  fun_induction newSet xs s with
  | case1 => simp
  | case2 _ _ _ ih => exact ih
  | case3 => simp

theorem addKeys_wf (w : String) (xs : List Val) (s : List String) : BResWF n (addKeys w xs s) := by
  fun_induction addKeys w xs s with
  | case1 => simp
  | case2 _ _ _ ih => exact ih
  | case3 => simp

theorem assocMap_wf (xs : List Val) (m : List (String × Val)) (hx : ValsWF n xs) (hm : KVsWF n m) :
    BResWF n (assocMap xs m) := by
  fun_induction assocMap xs m with
  | case1 => simpa using hm
  | case2 _ _ _ _ ih => simp only [valsWF_cons] at hx; exact ih hx.2.2 (kvsWF_ainsert hm _ hx.2.1)
  | case3 => simp
  | case4 => simp

theorem conjMap_wf (xs : List Val) (m : List (String × Val)) (hx : ValsWF n xs) (hm : KVsWF n m) :
    BResWF n (conjMap xs m) := by
  fun_induction conjMap xs m with
  | case1 => simpa using hm
  | case2 _ _ _ _ ih => simp only [valsWF_cons] at hx; exact ih hx.2.2 (kvsWF_ainsert hm _ hx.2.1)
  | case3 => simp
  | case4 => simp

theorem assocVec_wf (r xs : List Val) (hr : ValsWF n r) (hx : ValsWF n xs) : BResWF n (assocVec r xs) := by
  fun_induction assocVec r xs with
  | case1 => simpa using hx
  | case2 _ _ _ _ _ ih => simp only [valsWF_cons] at hr; exact ih hr.2.2 (valsWF_set hx _ hr.2.1)
  | case3 => simp
  | case4 => simp
  | case5 => simp

theorem assoc_wf (a : List Val) (ha : ValsWF n a) : BResWF n (Core.assoc a) := by
  unfold Core.assoc
  split
  · simp
  · simp only [valsWF_cons, valWF_map] at ha
    split
    · simp
    · split
      · simp
      · exact assocMap_wf _ _ ha.2 ha.1
  · simp only [valsWF_cons, valWF_vec] at ha
    split
    · simp
    · exact assocVec_wf _ _ ha.2 ha.1
  · split
    · simp
    · exact addKeys_wf _ _ _
  · simp


theorem dissoc_wf (a : List Val) (ha : ValsWF n a) : BResWF n (Core.dissoc a) := by
  unfold Core.dissoc
  split
  · simp
  · split
    · simp only [valsWF_cons, valWF_map] at ha
      split
      · simp only [bresWF_ok, valWF_map]
        have : ∀ (r : List Val) (m : List (String × Val)), KVsWF n m →
            KVsWF n (r.foldl (fun m k => match k with | .str k => aerase k m | _ => m) m) := by
          intro r; induction r with
          | nil => intro m hm; exact hm
          | cons x r ih =>
            intro m hm; simp only [List.foldl_cons]; apply ih
            split
            · exact kvsWF_aerase hm _
            · exact hm
        exact this _ _ ha.1
      · simp
    · split <;> simp
    · simp

theorem get_wf {hm key : Val} (h : ValWF n hm) : BResWF n (Core.get hm key) := by
  unfold Core.get
  split
  · simp
  · split
    · split
      · simp only [valWF_map] at h; simpa using kvsWF_alookup h _
      · simp
      · simp
      · split <;> simp
      · simp
    · split
      · simp
      · simp only [valWF_vec] at h; split
        · simpa using valsWF_getD h _
        · simp
      · simp only [valWF_list] at h; split
        · simpa using valsWF_getD h _
        · simp
      · simp
      · simp
    · simp

theorem rangeList_wf (k : Nat) (f : Int) : ValsWF n (rangeList k f) := by
  induction k generalizing f with
  | zero => simp [rangeList]
  | succ k ih => simp [rangeList, ih]

theorem prList_wf (r : Bool) (sep : List Char) (a : List Val) : ValWF n (Core.prList r sep a) := by
  simp [Core.prList]

theorem valsWF_strs (ks : List String) : ValsWF n (ks.map Val.str) := by
  rw [valsWF_iff]; intro x hx; simp only [List.mem_map] at hx; obtain ⟨_, _, rfl⟩ := hx; simp

theorem mergeFold_wf (m acc : List (String × Val)) (hm : KVsWF n m) (ha : KVsWF n acc) :
    KVsWF n (m.foldl (fun acc kv => ainsert kv.1 kv.2 acc) acc) := by
  induction m generalizing acc with
  | nil => exact ha
  | cons x m ih =>
    obtain ⟨k, v⟩ := x
    simp only [kvsWF_cons] at hm
    simp only [List.foldl_cons]; exact ih _ hm.2 (kvsWF_ainsert ha _ hm.1)

theorem renameKeys_wf (data alt : List (String × Val)) (hd : KVsWF n data) : BResWF n (renameKeys data alt) := by
  unfold renameKeys
  simp only []
  have : ∀ (data : List (String × Val)) (acc : Option (List (String × Val))),
      KVsWF n data → (∀ o, acc = some o → KVsWF n o) →
      ∀ o, data.foldl (fun (acc : Option (List (String × Val))) (kv : String × Val) =>
          acc.bind fun out =>
            match alookup kv.1 alt with
            | some (.str nk) => some (ainsert nk kv.2 out)
            | some _ => none
            | none => some (ainsert kv.1 kv.2 out)) acc = some o → KVsWF n o := by
    intro data; induction data with
    | nil => intro acc _ ha o ho; exact ha o ho
    | cons x data ih =>
      obtain ⟨k, v⟩ := x
      intro acc hd ha o ho
      simp only [kvsWF_cons] at hd
      simp only [List.foldl_cons] at ho
      refine ih _ hd.2 ?_ o ho
      intro o' ho'
      cases acc with
      | none => cases ho'
      | some out =>
        simp only [Option.bind_some] at ho'
        split at ho'
        · cases ho'; exact kvsWF_ainsert (ha _ rfl) _ hd.1
        · cases ho'
        · cases ho'; exact kvsWF_ainsert (ha _ rfl) _ hd.1
  split
  · rename_i out heq
    simpa using this data (some []) hd (by rintro _ ⟨⟩; simp) out heq
  · simp


theorem nilOr_wf {v d : Val} (hv : ValWF n v) (hd : ValWF n d) :
    ValWF n (match (generalizing := false) v with | .nil => d | b => b) := by
  split
  · exact hd
  · exact hv

theorem getIn_wf (v : Val) (path : List Val) (hv : ValWF n v) : BResWF n (getIn v path) := by
  fun_induction getIn v path with
  | case1 => simpa using hv
  | case2 => exact get_wf hv
  | case3 => simp
  | case4 v i rest hne branch b hb ih =>
    apply ih
    subst branch
    split at hb
    · cases hb; simp only [valWF_map] at hv; exact nilOr_wf (kvsWF_alookup hv _) (by simp)
    · simp only [valWF_list] at hv
      split at hb
      · cases hb; exact nilOr_wf (valsWF_getD hv _) (by simp)
      · cases hb
    · simp only [valWF_vec] at hv
      split at hb
      · cases hb; exact nilOr_wf (valsWF_getD hv _) (by simp)
      · cases hb
    · cases hb
    · cases hb
    · cases hb
    · cases hb; simp

theorem assocBranch_wf {v i b : Val} (hv : ValWF n v)
    (hb : (match (generalizing := false) v, i with
      | .map m, .str k => some (match (alookup k m).getD .nil with | .nil => Val.map [] | b => b)
      | .vec xs _, .int n => if 0 ≤ n ∧ n.toNat < xs.length then some (match xs.getD n.toNat .nil with | .nil => Val.vec [] none | b => b) else none
      | .map _, _ => none
      | .vec _ _, _ => none
      | _, _ => some .nil) = some b) : ValWF n b := by
  split at hb
  · cases hb; simp only [valWF_map] at hv; exact nilOr_wf (kvsWF_alookup hv _) (by simp)
  · simp only [valWF_vec] at hv
    split at hb
    · cases hb; exact nilOr_wf (valsWF_getD hv _) (by simp)
    · cases hb
  · cases hb
  · cases hb
  · cases hb; simp

theorem assocIn_wf (v : Val) (path : List Val) (nv : Val) (hv : ValWF n v) (hp : ValsWF n path)
    (hn : ValWF n nv) : BResWF n (assocIn v path nv) := by
  fun_induction assocIn v path nv with
  | case1 => simpa using hv
  | case2 => simp only [valsWF_cons] at hp; exact assoc_wf _ (by simp [hv, hn, hp.1])
  | case3 => simp
  | case4 v i rest nv hne branch b hb inner hi ih =>
    simp only [valsWF_cons] at hp
    have := ih (assocBranch_wf hv hb) hp.2 hn
    rw [hi] at this
    exact assoc_wf _ (by simp [hv, hp.1]; exact this)
  | case5 v i rest nv hne branch b hb r ih =>
    simp only [valsWF_cons] at hp
    exact ih (assocBranch_wf hv hb) hp.2 hn


section bw
variable {args : List Val}

theorem shape_1s (h : checkSig (.fixed [.str]) args = none) : ∃ s, args = [.str s] := by
  obtain ⟨hl, hf⟩ := EvalErase.fixed_len h
  match args, hl, hf with
  | [a], _, hf =>
    simp at hf
    obtain ⟨s, rfl⟩ := EvalErase.fits_str hf
    exact ⟨s, rfl⟩

local macro "bw_fin" : tactic => `(tactic|
  first
  | (simp; done)
  | (simp_all [rangeList_wf, prList_wf, newSet_wf, addKeys_wf, valsWF_strs]; done)
  | ((repeat' split) <;> simp_all [rangeList_wf, prList_wf, newSet_wf, addKeys_wf, valsWF_strs, seqOf?,
       valsWF_take, valsWF_drop, valsWF_tail, valsWF_reverse, valsWF_getD, valsWF_headD, valsWF_append]; done))

theorem bw_add (h : checkSig (.fixed [.int, .int]) args = none) (ha : ValsWF n args) : BResWF n (body "+" args) := by
  obtain ⟨x, y, rfl⟩ := EvalErase.shape_ii h
  rw [EvalErase.bodyEq_add]; bw_fin
theorem bw_sub (h : checkSig (.fixed [.int, .int]) args = none) (ha : ValsWF n args) : BResWF n (body "-" args) := by
  obtain ⟨x, y, rfl⟩ := EvalErase.shape_ii h
  rw [EvalErase.bodyEq_sub]; bw_fin
theorem bw_mul (h : checkSig (.fixed [.int, .int]) args = none) (ha : ValsWF n args) : BResWF n (body "*" args) := by
  obtain ⟨x, y, rfl⟩ := EvalErase.shape_ii h
  rw [EvalErase.bodyEq_mul]; bw_fin
theorem bw_div (h : checkSig (.fixed [.int, .int]) args = none) (ha : ValsWF n args) : BResWF n (body "/" args) := by
  obtain ⟨x, y, rfl⟩ := EvalErase.shape_ii h
  rw [EvalErase.bodyEq_div]; bw_fin
theorem bw_lt (h : checkSig (.fixed [.int, .int]) args = none) (ha : ValsWF n args) : BResWF n (body "<" args) := by
  obtain ⟨x, y, rfl⟩ := EvalErase.shape_ii h
  rw [EvalErase.bodyEq_lt]; bw_fin
theorem bw_le (h : checkSig (.fixed [.int, .int]) args = none) (ha : ValsWF n args) : BResWF n (body "<=" args) := by
  obtain ⟨x, y, rfl⟩ := EvalErase.shape_ii h
  rw [EvalErase.bodyEq_le]; bw_fin
theorem bw_gt (h : checkSig (.fixed [.int, .int]) args = none) (ha : ValsWF n args) : BResWF n (body ">" args) := by
  obtain ⟨x, y, rfl⟩ := EvalErase.shape_ii h
  rw [EvalErase.bodyEq_gt]; bw_fin
theorem bw_ge (h : checkSig (.fixed [.int, .int]) args = none) (ha : ValsWF n args) : BResWF n (body ">=" args) := by
  obtain ⟨x, y, rfl⟩ := EvalErase.shape_ii h
  rw [EvalErase.bodyEq_ge]; bw_fin
theorem bw_eq (h : checkSig (.fixed [.any, .any]) args = none) (ha : ValsWF n args) : BResWF n (body "=" args) := by
  obtain ⟨a, b, rfl, -, -⟩ := EvalErase.shape_2 h
  simp only [valsWF_cons, valsWF_nil, and_true] at ha
  rw [EvalErase.bodyEq_eq]; bw_fin
theorem bw_throw (h : checkSig (.fixed [.any]) args = none) (ha : ValsWF n args) : BResWF n (body "throw" args) := by
  obtain ⟨a, rfl⟩ := EvalErase.shape_1 h
  simp only [valsWF_cons, valsWF_nil, and_true] at ha
  rw [EvalErase.bodyEq_throw]; cases a <;> bw_fin
theorem bw_list (ha : ValsWF n args) : BResWF n (body "list" args) := by
  rw [EvalErase.bodyEq_list]; bw_fin
theorem bw_vector (ha : ValsWF n args) : BResWF n (body "vector" args) := by
  rw [EvalErase.bodyEq_vector]; bw_fin
theorem bw_hash_map (ha : ValsWF n args) : BResWF n (body "hash-map" args) := by
  rw [EvalErase.bodyEq_hash_map]
  split
  · simp
  · simp
  · exact newHashMap_wf _ ha
theorem bw_hash_set (ha : ValsWF n args) : BResWF n (body "hash-set" args) := by
  rw [EvalErase.bodyEq_hash_set]; bw_fin
theorem bw_set (h : checkSig (.fixed [.any]) args = none) (ha : ValsWF n args) : BResWF n (body "set" args) := by
  obtain ⟨a, rfl⟩ := EvalErase.shape_1 h
  simp only [valsWF_cons, valsWF_nil, and_true] at ha
  rw [EvalErase.bodyEq_set]; cases a <;> bw_fin
theorem bw_assoc (ha : ValsWF n args) : BResWF n (body "assoc" args) := by
  rw [EvalErase.bodyEq_assoc]
  exact assoc_wf _ ha
theorem bw_dissoc (ha : ValsWF n args) : BResWF n (body "dissoc" args) := by
  rw [EvalErase.bodyEq_dissoc]
  exact dissoc_wf _ ha
theorem bw_get (h : checkSig (.fixed [.any, .any]) args = none) (ha : ValsWF n args) : BResWF n (body "get" args) := by
  obtain ⟨a, b, rfl, -, -⟩ := EvalErase.shape_2 h
  simp only [valsWF_cons, valsWF_nil, and_true] at ha
  rw [EvalErase.bodyEq_get]
  exact get_wf ha.1
theorem bw_get_in (h : checkSig (.fixed [.any, .any]) args = none) (ha : ValsWF n args) : BResWF n (body "get-in" args) := by
  obtain ⟨a, b, rfl, -, -⟩ := EvalErase.shape_2 h
  simp only [valsWF_cons, valsWF_nil, and_true] at ha
  rw [EvalErase.bodyEq_get_in]
  split
  · simp
  · split
    · exact getIn_wf _ _ ha.1
    · simp
theorem bw_assoc_in (h : checkSig (.fixed [.any, .vec, .any]) args = none) (ha : ValsWF n args) : BResWF n (body "assoc-in" args) := by
  obtain ⟨a, b, c, rfl, -, h2, -⟩ := EvalErase.shape_3 h
  obtain ⟨path, pp, rfl⟩ := EvalErase.fits_vec h2
  simp only [valsWF_cons, valsWF_nil, and_true] at ha
  rw [EvalErase.bodyEq_assoc_in]
  exact assocIn_wf _ _ _ ha.1 (by simpa using ha.2.1) ha.2.2
theorem bw_containsQ (h : checkSig (.fixed [.any, .str]) args = none) (ha : ValsWF n args) : BResWF n (body "contains?" args) := by
  obtain ⟨a, b, rfl, -, hb⟩ := EvalErase.shape_2 h
  obtain ⟨k, rfl⟩ := EvalErase.fits_str hb
  simp only [valsWF_cons, valsWF_nil, and_true] at ha
  rw [EvalErase.bodyEq_containsQ]; bw_fin
theorem bw_keys (h : checkSig (.fixed [.any]) args = none) (ha : ValsWF n args) : BResWF n (body "keys" args) := by
  obtain ⟨a, rfl⟩ := EvalErase.shape_1 h
  simp only [valsWF_cons, valsWF_nil, and_true] at ha
  rw [EvalErase.bodyEq_keys]
  split
  · simp only [bresWF_ok, valWF_list]; rw [valsWF_iff]; intro x hx
    simp only [List.mem_map] at hx; obtain ⟨_, _, rfl⟩ := hx; simp
  · simp
theorem bw_vals (h : checkSig (.fixed [.any]) args = none) (ha : ValsWF n args) : BResWF n (body "vals" args) := by
  obtain ⟨a, rfl⟩ := EvalErase.shape_1 h
  simp only [valsWF_cons, valsWF_nil, and_true] at ha
  rw [EvalErase.bodyEq_vals]
  split
  · simp only [bresWF_ok, valWF_list]; rw [valsWF_iff]; intro x hx
    simp only [List.mem_map] at hx; obtain ⟨kv, hkv, rfl⟩ := hx
    exact (kvsWF_iff _).mp (by simpa using ha) kv hkv
  · simp
theorem bw_merge (h : checkSig (.fixed [.any, .any]) args = none) (ha : ValsWF n args) : BResWF n (body "merge" args) := by
  obtain ⟨a, b, rfl, -, -⟩ := EvalErase.shape_2 h
  simp only [valsWF_cons, valsWF_nil, and_true] at ha
  rw [EvalErase.bodyEq_merge]
  split
  · simp
  · simp only [bresWF_ok, valWF_map]; exact mergeFold_wf _ _ (by simpa using ha.2) (by simp)
  · simp only [bresWF_ok, valWF_map]; exact mergeFold_wf _ _ (by simpa using ha.1) (by simp)
  · simp only [bresWF_ok, valWF_map]; exact mergeFold_wf _ _ (by simpa using ha.2) (by simpa using ha.1)
  · simp
theorem bw_rename_keys (h : checkSig (.fixed [.map, .map]) args = none) (ha : ValsWF n args) : BResWF n (body "rename-keys" args) := by
  obtain ⟨a, b, rfl, h1, h2⟩ := EvalErase.shape_2 h
  obtain ⟨m1, rfl⟩ := EvalErase.fits_map' h1
  obtain ⟨m2, rfl⟩ := EvalErase.fits_map' h2
  simp only [valsWF_cons, valsWF_nil, and_true] at ha
  rw [EvalErase.bodyEq_rename_keys]
  exact renameKeys_wf _ _ (by simpa using ha.1)
theorem bw_cons (h : checkSig (.fixed [.any, .any]) args = none) (ha : ValsWF n args) : BResWF n (body "cons" args) := by
  obtain ⟨a, b, rfl, -, -⟩ := EvalErase.shape_2 h
  simp only [valsWF_cons, valsWF_nil, and_true] at ha
  rw [EvalErase.bodyEq_cons]
  split
  · rename_i xs heq; simp only [bresWF_ok, valWF_list, valsWF_cons]; exact ⟨ha.1, valsWF_seqOf ha.2 heq⟩
  · simp
theorem bw_concat (ha : ValsWF n args) : BResWF n (body "concat" args) := by
  rw [EvalErase.bodyEq_concat]
  split
  · simp
  · split
    · simp only [bresWF_ok, valWF_list]; rw [valsWF_iff]; intro x hx
      simp only [List.mem_flatMap] at hx
      obtain ⟨a, ha', hx⟩ := hx
      have haw := (valsWF_iff _).mp ha a ha'
      cases hs : seqOf? a with
      | none => rw [hs] at hx; simp at hx
      | some ys => rw [hs] at hx; exact (valsWF_iff _).mp (valsWF_seqOf haw hs) x (by simpa using hx)
    · simp
theorem bw_vec (h : checkSig (.fixed [.any]) args = none) (ha : ValsWF n args) : BResWF n (body "vec" args) := by
  obtain ⟨a, rfl⟩ := EvalErase.shape_1 h
  simp only [valsWF_cons, valsWF_nil, and_true] at ha
  rw [EvalErase.bodyEq_vec]; cases a <;> bw_fin
theorem bw_nth (h : checkSig (.fixed [.any, .int]) args = none) (ha : ValsWF n args) : BResWF n (body "nth" args) := by
  obtain ⟨a, b, rfl, -, hb⟩ := EvalErase.shape_2 h
  obtain ⟨k, rfl⟩ := EvalErase.fits_int hb
  simp only [valsWF_cons, valsWF_nil, and_true] at ha
  rw [EvalErase.bodyEq_nth]
  split
  · simp
  · rename_i xs heq
    split
    · simp
    · split
      · simpa using valsWF_getD (valsWF_seqOf ha.1 heq) _
      · simp
theorem bw_first (h : checkSig (.fixed [.any]) args = none) (ha : ValsWF n args) : BResWF n (body "first" args) := by
  obtain ⟨a, rfl⟩ := EvalErase.shape_1 h
  simp only [valsWF_cons, valsWF_nil, and_true] at ha
  rw [EvalErase.bodyEq_first]
  split
  · simp
  · split
    · simp
    · rename_i xs heq; simpa using valsWF_headD (valsWF_seqOf ha heq)
theorem bw_rest (h : checkSig (.fixed [.any]) args = none) (ha : ValsWF n args) : BResWF n (body "rest" args) := by
  obtain ⟨a, rfl⟩ := EvalErase.shape_1 h
  simp only [valsWF_cons, valsWF_nil, and_true] at ha
  rw [EvalErase.bodyEq_rest]
  split
  · simp
  · split
    · simp
    · rename_i xs heq; simpa using valsWF_tail (valsWF_seqOf ha heq)
theorem bw_count (h : checkSig (.fixed [.any]) args = none) (ha : ValsWF n args) : BResWF n (body "count" args) := by
  obtain ⟨a, rfl⟩ := EvalErase.shape_1 h
  simp only [valsWF_cons, valsWF_nil, and_true] at ha
  rw [EvalErase.bodyEq_count]; cases a <;> bw_fin
theorem bw_emptyQ (h : checkSig (.fixed [.any]) args = none) (ha : ValsWF n args) : BResWF n (body "empty?" args) := by
  obtain ⟨a, rfl⟩ := EvalErase.shape_1 h
  simp only [valsWF_cons, valsWF_nil, and_true] at ha
  rw [EvalErase.bodyEq_emptyQ]; cases a <;> bw_fin
theorem variadic_min {mn : Nat} {mx : Option Nat} (h : checkSig (.variadic mn mx) args = none) :
    mn ≤ args.length := by
  simp only [checkSig] at h
  split at h
  · cases h
  · omega

theorem bw_conj (h : checkSig (.variadic 2 none) args = none) (ha : ValsWF n args) : BResWF n (body "conj" args) := by
  have hl := variadic_min h
  match args, hl with
  | a :: xs, _ =>
    simp only [valsWF_cons] at ha
    rw [EvalErase.bodyEq_conj]
    split
    · simp only [bresWF_ok, valWF_list, valsWF_append]; exact ⟨valsWF_reverse ha.2, by simpa using ha.1⟩
    · simp only [bresWF_ok, valWF_vec, valsWF_append]; exact ⟨by simpa using ha.1, ha.2⟩
    · split
      · simp
      · exact conjMap_wf _ _ ha.2 (by simpa using ha.1)
    · exact addKeys_wf _ _ _
    · simp
theorem bw_seq (h : checkSig (.fixed [.any]) args = none) (ha : ValsWF n args) : BResWF n (body "seq" args) := by
  obtain ⟨a, rfl⟩ := EvalErase.shape_1 h
  simp only [valsWF_cons, valsWF_nil, and_true] at ha
  rw [EvalErase.bodyEq_seq]
  split
  · simp
  · split
    · simp
    · simpa using ha
  · split
    · simp
    · simpa using ha
  · simpa using valsWF_strs _
  · split
    · simp
    · simp only [bresWF_ok, valWF_list]; rw [valsWF_iff]; intro x hx
      simp only [List.mem_map] at hx; obtain ⟨_, _, rfl⟩ := hx; simp
  · simp
theorem bw_take (h : checkSig (.fixed [.int, .any]) args = none) (ha : ValsWF n args) : BResWF n (body "take" args) := by
  obtain ⟨b, a, rfl, hb, -⟩ := EvalErase.shape_2 h
  obtain ⟨k, rfl⟩ := EvalErase.fits_int hb
  simp only [valsWF_cons, valsWF_nil, and_true] at ha
  rw [EvalErase.bodyEq_take]
  split
  · simp
  · split
    · rename_i xs heq; simpa using valsWF_take _ (valsWF_seqOf ha.2 heq)
    · simp
theorem bw_take_last (h : checkSig (.fixed [.int, .any]) args = none) (ha : ValsWF n args) : BResWF n (body "take-last" args) := by
  obtain ⟨b, a, rfl, hb, -⟩ := EvalErase.shape_2 h
  obtain ⟨k, rfl⟩ := EvalErase.fits_int hb
  simp only [valsWF_cons, valsWF_nil, and_true] at ha
  rw [EvalErase.bodyEq_take_last]
  split
  · simp
  · split
    · rename_i xs heq
      simp only []
      split
      · simp
      · simpa using valsWF_drop _ (valsWF_seqOf ha.2 heq)
    · simp
theorem bw_drop (h : checkSig (.fixed [.int, .any]) args = none) (ha : ValsWF n args) : BResWF n (body "drop" args) := by
  obtain ⟨b, a, rfl, hb, -⟩ := EvalErase.shape_2 h
  obtain ⟨k, rfl⟩ := EvalErase.fits_int hb
  simp only [valsWF_cons, valsWF_nil, and_true] at ha
  rw [EvalErase.bodyEq_drop]
  split
  · simp
  · split
    · rename_i xs heq; simpa using valsWF_drop _ (valsWF_seqOf ha.2 heq)
    · simp
theorem bw_drop_last (h : checkSig (.fixed [.int, .any]) args = none) (ha : ValsWF n args) : BResWF n (body "drop-last" args) := by
  obtain ⟨b, a, rfl, hb, -⟩ := EvalErase.shape_2 h
  obtain ⟨k, rfl⟩ := EvalErase.fits_int hb
  simp only [valsWF_cons, valsWF_nil, and_true] at ha
  rw [EvalErase.bodyEq_drop_last]
  split
  · simp
  · split
    · rename_i xs heq; simpa using valsWF_take _ (valsWF_seqOf ha.2 heq)
    · simp
theorem bw_subvec (h : checkSig (.variadic 2 (some 3)) args = none) (ha : ValsWF n args) :
    BResWF n (body "subvec" args) := by
  have hl := variadic_min h
  match args, hl with
  | a :: xs, _ =>
    simp only [valsWF_cons] at ha
    rw [EvalErase.bodyEq_subvec]
    split
    · have h1 := ha.1; simp only [valWF_vec] at h1
      split
      · split
        · simpa using valsWF_drop _ h1
        · simp
      · split
        · simpa using valsWF_drop _ (valsWF_take _ h1)
        · simp
      · simp
    · simp
theorem bw_range (h : checkSig (.fixed [.int, .int]) args = none) (ha : ValsWF n args) : BResWF n (body "range" args) := by
  obtain ⟨x, y, rfl⟩ := EvalErase.shape_ii h
  rw [EvalErase.bodyEq_range]; bw_fin
theorem bw_symbol (h : checkSig (.fixed [.str]) args = none) (ha : ValsWF n args) : BResWF n (body "symbol" args) := by
  obtain ⟨a, rfl⟩ := shape_1s h
  simp only [valsWF_cons, valsWF_nil, and_true] at ha
  rw [EvalErase.bodyEq_symbol]; bw_fin
theorem bw_keyword (h : checkSig (.fixed [.str]) args = none) (ha : ValsWF n args) : BResWF n (body "keyword" args) := by
  obtain ⟨a, rfl⟩ := shape_1s h
  simp only [valsWF_cons, valsWF_nil, and_true] at ha
  rw [EvalErase.bodyEq_keyword]; bw_fin
theorem bw_str (ha : ValsWF n args) : BResWF n (body "str" args) := by
  rw [EvalErase.bodyEq_str]; bw_fin
theorem bw_pr_str (ha : ValsWF n args) : BResWF n (body "pr-str" args) := by
  rw [EvalErase.bodyEq_pr_str]; bw_fin
theorem bw_typeQ (h : checkSig (.fixed [.any]) args = none) (ha : ValsWF n args) : BResWF n (body "type?" args) := by
  obtain ⟨a, rfl⟩ := EvalErase.shape_1 h
  simp only [valsWF_cons, valsWF_nil, and_true] at ha
  rw [EvalErase.bodyEq_typeQ]; cases a <;> bw_fin
theorem bw_nilQ (h : checkSig (.fixed [.any]) args = none) (ha : ValsWF n args) : BResWF n (body "nil?" args) := by
  obtain ⟨a, rfl⟩ := EvalErase.shape_1 h
  simp only [valsWF_cons, valsWF_nil, and_true] at ha
  rw [EvalErase.bodyEq_nilQ]; cases a <;> bw_fin
theorem bw_trueQ (h : checkSig (.fixed [.any]) args = none) (ha : ValsWF n args) : BResWF n (body "true?" args) := by
  obtain ⟨a, rfl⟩ := EvalErase.shape_1 h
  simp only [valsWF_cons, valsWF_nil, and_true] at ha
  rw [EvalErase.bodyEq_trueQ]; cases a <;> bw_fin
theorem bw_falseQ (h : checkSig (.fixed [.any]) args = none) (ha : ValsWF n args) : BResWF n (body "false?" args) := by
  obtain ⟨a, rfl⟩ := EvalErase.shape_1 h
  simp only [valsWF_cons, valsWF_nil, and_true] at ha
  rw [EvalErase.bodyEq_falseQ]; cases a <;> bw_fin
theorem bw_symbolQ (h : checkSig (.fixed [.any]) args = none) (ha : ValsWF n args) : BResWF n (body "symbol?" args) := by
  obtain ⟨a, rfl⟩ := EvalErase.shape_1 h
  simp only [valsWF_cons, valsWF_nil, and_true] at ha
  rw [EvalErase.bodyEq_symbolQ]; cases a <;> bw_fin
theorem bw_keywordQ (h : checkSig (.fixed [.any]) args = none) (ha : ValsWF n args) : BResWF n (body "keyword?" args) := by
  obtain ⟨a, rfl⟩ := EvalErase.shape_1 h
  simp only [valsWF_cons, valsWF_nil, and_true] at ha
  rw [EvalErase.bodyEq_keywordQ]; cases a <;> bw_fin
theorem bw_stringQ (h : checkSig (.fixed [.any]) args = none) (ha : ValsWF n args) : BResWF n (body "string?" args) := by
  obtain ⟨a, rfl⟩ := EvalErase.shape_1 h
  simp only [valsWF_cons, valsWF_nil, and_true] at ha
  rw [EvalErase.bodyEq_stringQ]; cases a <;> bw_fin
theorem bw_numberQ (h : checkSig (.fixed [.any]) args = none) (ha : ValsWF n args) : BResWF n (body "number?" args) := by
  obtain ⟨a, rfl⟩ := EvalErase.shape_1 h
  simp only [valsWF_cons, valsWF_nil, and_true] at ha
  rw [EvalErase.bodyEq_numberQ]; cases a <;> bw_fin
theorem bw_fnQ (h : checkSig (.fixed [.any]) args = none) (ha : ValsWF n args) : BResWF n (body "fn?" args) := by
  obtain ⟨a, rfl⟩ := EvalErase.shape_1 h
  simp only [valsWF_cons, valsWF_nil, and_true] at ha
  rw [EvalErase.bodyEq_fnQ]; cases a <;> bw_fin
theorem bw_macroQ (h : checkSig (.fixed [.any]) args = none) (ha : ValsWF n args) : BResWF n (body "macro?" args) := by
  obtain ⟨a, rfl⟩ := EvalErase.shape_1 h
  simp only [valsWF_cons, valsWF_nil, and_true] at ha
  rw [EvalErase.bodyEq_macroQ]; cases a <;> bw_fin
theorem bw_listQ (h : checkSig (.fixed [.any]) args = none) (ha : ValsWF n args) : BResWF n (body "list?" args) := by
  obtain ⟨a, rfl⟩ := EvalErase.shape_1 h
  simp only [valsWF_cons, valsWF_nil, and_true] at ha
  rw [EvalErase.bodyEq_listQ]; cases a <;> bw_fin
theorem bw_vectorQ (h : checkSig (.fixed [.any]) args = none) (ha : ValsWF n args) : BResWF n (body "vector?" args) := by
  obtain ⟨a, rfl⟩ := EvalErase.shape_1 h
  simp only [valsWF_cons, valsWF_nil, and_true] at ha
  rw [EvalErase.bodyEq_vectorQ]; cases a <;> bw_fin
theorem bw_mapQ (h : checkSig (.fixed [.any]) args = none) (ha : ValsWF n args) : BResWF n (body "map?" args) := by
  obtain ⟨a, rfl⟩ := EvalErase.shape_1 h
  simp only [valsWF_cons, valsWF_nil, and_true] at ha
  rw [EvalErase.bodyEq_mapQ]; cases a <;> bw_fin
theorem bw_setQ (h : checkSig (.fixed [.any]) args = none) (ha : ValsWF n args) : BResWF n (body "set?" args) := by
  obtain ⟨a, rfl⟩ := EvalErase.shape_1 h
  simp only [valsWF_cons, valsWF_nil, and_true] at ha
  rw [EvalErase.bodyEq_setQ]; cases a <;> bw_fin
theorem bw_atomQ (h : checkSig (.fixed [.any]) args = none) (ha : ValsWF n args) : BResWF n (body "atom?" args) := by
  obtain ⟨a, rfl⟩ := EvalErase.shape_1 h
  simp only [valsWF_cons, valsWF_nil, and_true] at ha
  rw [EvalErase.bodyEq_atomQ]; cases a <;> bw_fin
theorem bw_sequentialQ (h : checkSig (.fixed [.any]) args = none) (ha : ValsWF n args) : BResWF n (body "sequential?" args) := by
  obtain ⟨a, rfl⟩ := EvalErase.shape_1 h
  simp only [valsWF_cons, valsWF_nil, and_true] at ha
  rw [EvalErase.bodyEq_sequentialQ]; cases a <;> bw_fin
theorem bw_assert (h : checkSig (.variadic 1 (some 2)) args = none) (ha : ValsWF n args) :
    BResWF n (body "assert" args) := by
  have hl := variadic_min h
  match args, hl with
  | a :: xs, _ =>
    simp only [valsWF_cons] at ha
    rw [EvalErase.bodyEq_assert]
    have h2 := ha.2
    split
    · split
      · simp
      · simp
      · simp
      · simp only [valsWF_cons] at h2; simpa using h2.1
      · simp
    · split
      · simp
      · simp
      · simp
      · simp only [valsWF_cons] at h2; simpa using h2.1
      · simp
    · simp

theorem body_wf {name : String} {s : Sig} (hs : sigOf name = some s) (hc : checkSig s args = none)
    (ha : ValsWF n args) : BResWF n (body name args) := by
  have hm := EvalErase.sigOf_mem hs
  simp only [pureNames, List.mem_cons, List.not_mem_nil, or_false] at hm
  rcases hm with rfl | rfl | rfl | rfl | rfl | rfl | rfl | rfl | rfl | rfl | rfl | rfl | rfl | rfl | rfl | rfl | rfl | rfl | rfl | rfl | rfl | rfl | rfl | rfl | rfl | rfl | rfl | rfl | rfl | rfl | rfl | rfl | rfl | rfl | rfl | rfl | rfl | rfl | rfl | rfl | rfl | rfl | rfl | rfl | rfl | rfl | rfl | rfl | rfl | rfl | rfl | rfl | rfl | rfl | rfl | rfl | rfl | rfl | rfl | rfl | rfl | rfl
  · cases hs; exact bw_add hc ha
  · cases hs; exact bw_sub hc ha
  · cases hs; exact bw_mul hc ha
  · cases hs; exact bw_div hc ha
  · cases hs; exact bw_lt hc ha
  · cases hs; exact bw_le hc ha
  · cases hs; exact bw_gt hc ha
  · cases hs; exact bw_ge hc ha
  · cases hs; exact bw_eq hc ha
  · cases hs; exact bw_throw hc ha
  · exact bw_list ha
  · exact bw_vector ha
  · exact bw_hash_map ha
  · exact bw_hash_set ha
  · cases hs; exact bw_set hc ha
  · exact bw_assoc ha
  · exact bw_dissoc ha
  · cases hs; exact bw_get hc ha
  · cases hs; exact bw_get_in hc ha
  · cases hs; exact bw_assoc_in hc ha
  · cases hs; exact bw_containsQ hc ha
  · cases hs; exact bw_keys hc ha
  · cases hs; exact bw_vals hc ha
  · cases hs; exact bw_merge hc ha
  · cases hs; exact bw_rename_keys hc ha
  · cases hs; exact bw_cons hc ha
  · exact bw_concat ha
  · cases hs; exact bw_vec hc ha
  · cases hs; exact bw_nth hc ha
  · cases hs; exact bw_first hc ha
  · cases hs; exact bw_rest hc ha
  · cases hs; exact bw_count hc ha
  · cases hs; exact bw_emptyQ hc ha
  · cases hs; exact bw_conj hc ha
  · cases hs; exact bw_seq hc ha
  · cases hs; exact bw_take hc ha
  · cases hs; exact bw_take_last hc ha
  · cases hs; exact bw_drop hc ha
  · cases hs; exact bw_drop_last hc ha
  · cases hs; exact bw_subvec hc ha
  · cases hs; exact bw_range hc ha
  · cases hs; exact bw_symbol hc ha
  · cases hs; exact bw_keyword hc ha
  · exact bw_str ha
  · exact bw_pr_str ha
  · cases hs; exact bw_typeQ hc ha
  · cases hs; exact bw_nilQ hc ha
  · cases hs; exact bw_trueQ hc ha
  · cases hs; exact bw_falseQ hc ha
  · cases hs; exact bw_symbolQ hc ha
  · cases hs; exact bw_keywordQ hc ha
  · cases hs; exact bw_stringQ hc ha
  · cases hs; exact bw_numberQ hc ha
  · cases hs; exact bw_fnQ hc ha
  · cases hs; exact bw_macroQ hc ha
  · cases hs; exact bw_listQ hc ha
  · cases hs; exact bw_vectorQ hc ha
  · cases hs; exact bw_mapQ hc ha
  · cases hs; exact bw_setQ hc ha
  · cases hs; exact bw_atomQ hc ha
  · cases hs; exact bw_sequentialQ hc ha
  · cases hs; exact bw_assert hc ha

/-- a pure builtin only returns (or throws) values built from its arguments: it creates no closure -/
theorem call_wf {name : String} {r : BRes} (ha : ValsWF n args) (h : Core.call name args = some r) :
    BResWF n r := by
  unfold Core.call at h
  split at h
  · cases h
  · rename_i s hs
    split at h
    · split at h <;> cases h <;> simp
    · rename_i hc; cases h; exact body_wf hs hc ha
end bw
end core

end Proofs.EvalStoreWF
end LispModel

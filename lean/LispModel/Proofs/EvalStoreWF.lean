/-
  Store well-formedness as an invariant of the WHOLE evaluator block (task D1).

  `ValWF n v`   : every closure inside `v` (through lists / vectors / maps and through the closure's own
                  parameter form and body) has a scope id `< n`;
  `StateWF st`  : the store has a root scope, every `outer` link points to an OLDER scope, and every
                  value stored in a scope, an atom or the trace is `ValWF st.scopes.size`.
  Main theorem `inv : ∀ F, Inv F`: all 13 functions of the `mutual` block of `LispModel/Eval.lean`
  preserve `StateWF` and return `ValWF` values / error payloads (no side condition on debugger,
  cancellation or macros).  Consequences: the C01 scoping laws with `StateWF` of the START state as the
  only hypothesis.
  Core Lean only.
-/
import LispModel.Proofs.EvalBasic
import LispModel.Proofs.EvalLaws
import LispModel.Proofs.EvalErase
namespace LispModel
open LispModel.Core

/-! ### well-formed values -/

mutual
/-- every closure inside the value has a scope id `< n` -/
def ValWF (n : Nat) : Val → Prop
  | .list xs _ => ValsWF n xs
  | .vec xs _ => ValsWF n xs
  | .map kvs => KVsWF n kvs
  | .fn ps b e _ _ => ValWF n ps ∧ ValWF n b ∧ e < n
  | _ => True
def ValsWF (n : Nat) : List Val → Prop
  | [] => True
  | x :: xs => ValWF n x ∧ ValsWF n xs
def KVsWF (n : Nat) : List (String × Val) → Prop
  | [] => True
  | (_, v) :: r => ValWF n v ∧ KVsWF n r
end

/-- the payload of an error is well-formed -/
def ErrWF (n : Nat) : Err → Prop
  | .lisp p _ => ValWF n p
  | .plain _ => True

/-- a result (value or error payload) is well-formed -/
def ResWF (n : Nat) : Res Val → Prop
  | .ok v => ValWF n v
  | .err e => ErrWF n e
  | .oof => True

def ResLWF (n : Nat) : Res (List Val) → Prop
  | .ok v => ValsWF n v
  | .err e => ErrWF n e
  | .oof => True

def ResMWF (n : Nat) : Res (List (String × Val)) → Prop
  | .ok v => KVsWF n v
  | .err e => ErrWF n e
  | .oof => True

/-- store well-formedness: a root scope exists; `outer` links point to older scopes; every stored value
    only mentions existing scopes -/
structure StateWF (st : State) : Prop where
  root : 0 < st.scopes.size
  outer : ∀ (i : Nat) (sc : Scope), st.scopes[i]? = some sc → ∀ o, sc.outer = some o → o < i
  data : ∀ (i : Nat) (sc : Scope), st.scopes[i]? = some sc → KVsWF st.scopes.size sc.data
  atoms : ∀ (i : Nat) (v : Val), st.atoms[i]? = some v → ValWF st.scopes.size v
  trace : ValsWF st.scopes.size st.trace

namespace Proofs.EvalStoreWF
open Proofs.EvalBasic

section vals
variable {n m : Nat}

@[simp] theorem valWF_nil : ValWF n .nil := by simp [ValWF]
@[simp] theorem valWF_bool (b) : ValWF n (.bool b) := by simp [ValWF]
@[simp] theorem valWF_int (i) : ValWF n (.int i) := by simp [ValWF]
@[simp] theorem valWF_str (s) : ValWF n (.str s) := by simp [ValWF]
@[simp] theorem valWF_sym (s p) : ValWF n (.sym s p) := by simp [ValWF]
@[simp] theorem valWF_set (s) : ValWF n (.set s) := by simp [ValWF]
@[simp] theorem valWF_builtin (s) : ValWF n (.builtin s) := by simp [ValWF]
@[simp] theorem valWF_atom (s) : ValWF n (.atom s) := by simp [ValWF]
@[simp] theorem valWF_future (s) : ValWF n (.future s) := by simp [ValWF]
@[simp] theorem valWF_goerr (s) : ValWF n (.goerr s) := by simp [ValWF]
@[simp] theorem valWF_opaque (s) : ValWF n (.opaque s) := by simp [ValWF]
@[simp] theorem valWF_list (xs p) : ValWF n (.list xs p) ↔ ValsWF n xs := by simp [ValWF]
@[simp] theorem valWF_vec (xs p) : ValWF n (.vec xs p) ↔ ValsWF n xs := by simp [ValWF]
@[simp] theorem valWF_map (kvs) : ValWF n (.map kvs) ↔ KVsWF n kvs := by simp [ValWF]
@[simp] theorem valWF_fn (ps b e mc p) : ValWF n (.fn ps b e mc p) ↔ ValWF n ps ∧ ValWF n b ∧ e < n := by
  simp [ValWF]
@[simp] theorem valsWF_nil : ValsWF n [] := by simp [ValsWF]
@[simp] theorem valsWF_cons (x xs) : ValsWF n (x :: xs) ↔ ValWF n x ∧ ValsWF n xs := by simp [ValsWF]
@[simp] theorem kvsWF_nil : KVsWF n [] := by simp [KVsWF]
@[simp] theorem kvsWF_cons (k v r) : KVsWF n ((k, v) :: r) ↔ ValWF n v ∧ KVsWF n r := by simp [KVsWF]

theorem valsWF_iff (xs : List Val) : ValsWF n xs ↔ ∀ x ∈ xs, ValWF n x := by
  induction xs with
  | nil => simp
  | cons x xs ih => simp [ih]

theorem kvsWF_iff (m : List (String × Val)) : KVsWF n m ↔ ∀ kv ∈ m, ValWF n kv.2 := by
  induction m with
  | nil => simp
  | cons x xs ih => obtain ⟨k, v⟩ := x; simp [ih]

mutual
theorem valWF_mono (h : n ≤ m) : ∀ v : Val, ValWF n v → ValWF m v
  | .list xs _, hv => by simp only [valWF_list] at hv ⊢; exact valsWF_mono h xs hv
  | .vec xs _, hv => by simp only [valWF_vec] at hv ⊢; exact valsWF_mono h xs hv
  | .map kvs, hv => by simp only [valWF_map] at hv ⊢; exact kvsWF_mono h kvs hv
  | .fn ps b e _ _, hv => by
    simp only [valWF_fn] at hv ⊢
    exact ⟨valWF_mono h ps hv.1, valWF_mono h b hv.2.1, Nat.lt_of_lt_of_le hv.2.2 h⟩
  | .nil, _ | .bool _, _ | .int _, _ | .str _, _ | .sym _ _, _ | .set _, _ | .builtin _, _ | .atom _, _
  | .future _, _ | .goerr _, _ | .opaque _, _ => by simp
theorem valsWF_mono (h : n ≤ m) : ∀ xs : List Val, ValsWF n xs → ValsWF m xs
  | [], _ => by simp
  | x :: xs, hv => by
    simp only [valsWF_cons] at hv ⊢; exact ⟨valWF_mono h x hv.1, valsWF_mono h xs hv.2⟩
theorem kvsWF_mono (h : n ≤ m) : ∀ kvs : List (String × Val), KVsWF n kvs → KVsWF m kvs
  | [], _ => by simp
  | (k, v) :: r, hv => by
    simp only [kvsWF_cons] at hv ⊢; exact ⟨valWF_mono h v hv.1, kvsWF_mono h r hv.2⟩
end

theorem errWF_mono (h : n ≤ m) {e : Err} (he : ErrWF n e) : ErrWF m e := by
  cases e with
  | lisp p _ => exact valWF_mono h p he
  | plain _ => trivial

theorem resWF_mono (h : n ≤ m) {r : Res Val} (hr : ResWF n r) : ResWF m r := by
  cases r with
  | ok v => exact valWF_mono h v hr
  | err e => exact errWF_mono h hr
  | oof => trivial

/-! list / map operations keep well-formedness -/

theorem valsWF_append {xs ys : List Val} : ValsWF n (xs ++ ys) ↔ ValsWF n xs ∧ ValsWF n ys := by
  simp only [valsWF_iff, List.mem_append]
  exact ⟨fun h => ⟨fun x hx => h x (Or.inl hx), fun x hx => h x (Or.inr hx)⟩,
    fun h x hx => hx.elim (h.1 x) (h.2 x)⟩

theorem valsWF_sub {xs ys : List Val} (hs : ∀ x ∈ ys, x ∈ xs) (h : ValsWF n xs) : ValsWF n ys := by
  rw [valsWF_iff] at h ⊢; exact fun x hx => h x (hs x hx)

theorem valsWF_take {xs : List Val} (k) (h : ValsWF n xs) : ValsWF n (xs.take k) :=
  valsWF_sub (fun _ hx => List.mem_of_mem_take hx) h
theorem valsWF_drop {xs : List Val} (k) (h : ValsWF n xs) : ValsWF n (xs.drop k) :=
  valsWF_sub (fun _ hx => List.mem_of_mem_drop hx) h
theorem valsWF_dropLast {xs : List Val} (h : ValsWF n xs) : ValsWF n xs.dropLast :=
  valsWF_sub (fun _ hx => List.dropLast_subset _ hx) h
theorem valsWF_tail {xs : List Val} (h : ValsWF n xs) : ValsWF n xs.tail :=
  valsWF_sub (fun _ hx => List.mem_of_mem_tail hx) h
theorem valsWF_reverse {xs : List Val} (h : ValsWF n xs) : ValsWF n xs.reverse :=
  valsWF_sub (fun _ hx => List.mem_reverse.mp hx) h

theorem valsWF_getD {xs : List Val} (h : ValsWF n xs) (i : Nat) : ValWF n (xs.getD i .nil) := by
  rw [List.getD_eq_getElem?_getD]
  cases hx : xs[i]? with
  | none => simp
  | some x => exact (valsWF_iff xs).mp h x (List.mem_of_getElem? hx)

theorem valsWF_headD {xs : List Val} (h : ValsWF n xs) : ValWF n (xs.headD .nil) := by
  cases xs with
  | nil => simp
  | cons x xs => exact ((valsWF_cons x xs).mp h).1

theorem valsWF_getLastD {xs : List Val} (h : ValsWF n xs) : ValWF n (xs.getLast?.getD .nil) := by
  cases hx : xs.getLast? with
  | none => simp
  | some x => exact (valsWF_iff xs).mp h x (List.mem_of_getLast? hx)

theorem valsWF_set {xs : List Val} (h : ValsWF n xs) (i : Nat) {v : Val} (hv : ValWF n v) :
    ValsWF n (xs.set i v) := by
  rw [valsWF_iff] at h ⊢
  intro x hx
  rcases List.mem_or_eq_of_mem_set hx with hx | rfl
  · exact h x hx
  · exact hv

theorem kvsWF_alookup {kvs : List (String × Val)} (h : KVsWF n kvs) (k : String) :
    ValWF n ((alookup k kvs).getD .nil) := by
  induction kvs with
  | nil => simp [alookup]
  | cons hd tl ih =>
    obtain ⟨k', v⟩ := hd
    simp only [kvsWF_cons] at h
    unfold alookup
    split
    · exact h.1
    · exact ih h.2

theorem kvsWF_alookup_some {kvs : List (String × Val)} (h : KVsWF n kvs) {k : String} {v : Val}
    (hk : alookup k kvs = some v) : ValWF n v := by
  have := kvsWF_alookup h k; rw [hk] at this; exact this

theorem kvsWF_ainsert {kvs : List (String × Val)} (h : KVsWF n kvs) (k : String) {v : Val} (hv : ValWF n v) :
    KVsWF n (ainsert k v kvs) := by
  induction kvs with
  | nil => simp [ainsert, hv]
  | cons hd tl ih =>
    obtain ⟨k', v'⟩ := hd
    simp only [kvsWF_cons] at h
    unfold ainsert
    split
    · simp [hv, h.2]
    · simp [h.1, ih h.2]

theorem kvsWF_aerase {kvs : List (String × Val)} (h : KVsWF n kvs) (k : String) : KVsWF n (aerase k kvs) := by
  induction kvs with
  | nil => simp [aerase]
  | cons hd tl ih =>
    obtain ⟨k', v'⟩ := hd
    simp only [kvsWF_cons] at h
    unfold aerase
    split
    · exact h.2
    · simp [h.1, ih h.2]

/-! the pure helpers of the evaluator -/

theorem errWF_newLispError {e : Err} (he : ErrWF n e) (c : Val) : ErrWF n (newLispError e c) := by
  unfold newLispError
  split
  · exact he
  · exact he
  · simp [ErrWF]

theorem errWF_goerr (msg : String) (p) : ErrWF n (.lisp (.goerr msg) p) := by simp [ErrWF]
theorem errWF_plain (msg : String) : ErrWF n (.plain msg) := trivial

theorem errWF_timeout (ast : Val) : ErrWF n (timeoutErr ast) := by
  unfold timeoutErr; exact errWF_newLispError (e := .plain _) trivial _

theorem valWF_caughtValue {e : Err} (he : ErrWF n e) : ValWF n (caughtValue e) := by
  cases e with
  | lisp p _ => exact he
  | plain _ => simp [caughtValue]

theorem valsWF_seqOf {v : Val} {xs : List Val} (hv : ValWF n v) (h : seqOf? v = some xs) : ValsWF n xs := by
  cases v <;> simp only [seqOf?] at h <;> first | (cases h; simpa using hv) | cases h

/-- the outcome of the binder is well-formed -/
def BindWF (n : Nat) : Except Err (List (String × Val)) → Prop
  | .ok data => KVsWF n data
  | .error e => ErrWF n e

theorem bindLoop_wf (bs exprs : List Val) (nb ne : Nat) (acc : List (String × Val))
    (he : ValsWF n exprs) (ha : KVsWF n acc) : BindWF n (bindLoop bs exprs nb ne acc) := by
  fun_induction bindLoop bs exprs nb ne acc with
  | case1 => exact ha
  | case2 => simp [BindWF, ErrWF]
  | case3 => exact kvsWF_ainsert ha _ (by simpa using he)
  | case4 => simp [BindWF, ErrWF]
  | case5 => simp [BindWF, ErrWF]
  | case6 _ _ _ _ _ _ _ _ _ ih =>
    simp only [valsWF_cons] at he
    exact ih he.2 (kvsWF_ainsert ha _ he.1)
  | case7 => simp [BindWF, ErrWF]

theorem bindParams_wf (params : Val) {args : List Val} (ha : ValsWF n args) :
    BindWF n (bindParams params args) := by
  unfold bindParams
  split
  · simp [BindWF]
  · exact bindLoop_wf _ _ _ _ _ ha (by simp)
  · exact bindLoop_wf _ _ _ _ _ ha (by simp)
  · simp [BindWF, ErrWF]

theorem bindParams_ok {params : Val} {args : List Val} {data} (ha : ValsWF n args)
    (h : bindParams params args = .ok data) : KVsWF n data := by
  have := bindParams_wf (n := n) params ha; rw [h] at this; exact this

theorem bindParams_err {params : Val} {args : List Val} {e} (ha : ValsWF n args)
    (h : bindParams params args = .error e) : ErrWF n e := by
  have := bindParams_wf (n := n) params ha; rw [h] at this; exact this

mutual
theorem quasiquote_wf : ∀ v : Val, ValWF n v → ValWF n (quasiquote v)
  | .vec xs _, hv => by
    unfold quasiquote; simp only [valWF_list, valsWF_cons, valWF_sym, valsWF_nil, and_true, true_and]
    exact qqLoop_wf xs (by simpa using hv)
  | .map m, hv => by unfold quasiquote; simpa using hv
  | .sym s p, _ => by unfold quasiquote; simp
  | .list xs _, hv => by
    unfold quasiquote
    simp only [valWF_list] at hv
    split
    · exact qqLoop_wf _ hv
    · simp only [valsWF_cons] at hv; exact hv.2.1
    · exact qqLoop_wf _ hv
  | .nil, _ | .bool _, _ | .int _, _ | .str _, _ | .set _, _ | .builtin _, _ | .atom _, _
  | .future _, _ | .goerr _, _ | .opaque _, _ => by unfold quasiquote; simp
  | .fn .., hv => by unfold quasiquote; exact hv
theorem qqLoop_wf : ∀ xs : List Val, ValsWF n xs → ValWF n (qqLoop xs)
  | [], _ => by unfold qqLoop; simp
  | elt :: rest, hv => by
    simp only [valsWF_cons] at hv
    have ih := qqLoop_wf rest hv.2
    unfold qqLoop
    split
    · have h1 := hv.1
      simp only [valWF_list, valsWF_cons] at h1
      simp [h1.2.1, ih]
    · simp [quasiquote_wf elt hv.1, ih]
end

/-- the operands of a `try` form are sub-forms of it -/
structure PartsWF (n : Nat) (parts : TryParts) : Prop where
  body : ValsWF n parts.body
  bind : ∀ b, parts.catchBind = some b → ValWF n b
  handler : ∀ h, parts.catchDo = some h → ValsWF n h
  fin : ∀ f, parts.finallyDo = some f → ValsWF n f

theorem clause_wf {c b : Val} {d : List Val} (hc : ValWF n c)
    (h : (match c with
        | Val.list (_ :: b :: d) _ =>
          if d.isEmpty = true then (Except.error "catch must have 2 arguments at least" : Except String (Val × List Val)) else Except.ok (b, d)
        | _ => Except.error "catch must have 2 arguments at least") = .ok (b, d)) : ValWF n b ∧ ValsWF n d := by
  split at h
  · split at h
    · cases h
    · cases h; simp only [valWF_list, valsWF_cons] at hc; exact ⟨hc.2.1, hc.2.2⟩
  · cases h

theorem fin_wf {c : Val} (hc : ValWF n c) :
    ValsWF n (match (generalizing := false) c with | Val.list (_ :: f) _ => f | _ => []) := by
  split
  · simp only [valWF_list, valsWF_cons] at hc; exact hc.2
  · simp

theorem splitTry_wf {lst : List Val} {parts : TryParts} (h : ValsWF n lst) (hs : splitTry lst = .ok parts) :
    PartsWF n parts := by
  have hlast : ValWF n (lst.getLast?.getD .nil) := valsWF_getLastD h
  have hpre : ValWF n (if lst.length ≥ 3 then lst.getD (lst.length - 2) .nil else .nil) := by
    split
    · exact valsWF_getD h _
    · simp
  unfold splitTry at hs
  simp only [] at hs
  generalize lst.getLast?.getD .nil = last at hs hlast
  generalize (if lst.length ≥ 3 then lst.getD (lst.length - 2) .nil else .nil) = pre at hs hpre
  have hb (k) : ValsWF n (List.take k (List.drop 1 lst)) := valsWF_take _ (valsWF_drop _ h)
  split at hs
  · split at hs
    · cases hs
    · rename_i heq; cases hs
      obtain ⟨h1, h2⟩ := clause_wf hlast heq
      exact ⟨hb _, by rintro _ ⟨⟩; exact h1, by rintro _ ⟨⟩; exact h2, by rintro _ ⟨⟩⟩
  · split at hs
    · split at hs
      · split at hs
        · cases hs
        · rename_i heq; cases hs
          obtain ⟨h1, h2⟩ := clause_wf hpre heq
          exact ⟨hb _, by rintro _ ⟨⟩; exact h1, by rintro _ ⟨⟩; exact h2, by rintro _ ⟨⟩; exact fin_wf hlast⟩
      · cases hs
        exact ⟨hb _, by rintro _ ⟨⟩, by rintro _ ⟨⟩, by rintro _ ⟨⟩; exact fin_wf hlast⟩
    · cases hs
      exact ⟨valsWF_drop _ h, by rintro _ ⟨⟩, by rintro _ ⟨⟩, by rintro _ ⟨⟩⟩
end vals

/-! ### state operations keep `StateWF` -/
section state
variable {st : State}

theorem stateWF_congr {s s' : State} (h : StateWF s) (h1 : s'.scopes = s.scopes) (h2 : s'.atoms = s.atoms)
    (h3 : s'.trace = s.trace) : StateWF s' := by
  constructor
  · rw [h1]; exact h.root
  · rw [h1]; exact h.outer
  · rw [h1]; exact h.data
  · rw [h1, h2]; exact h.atoms
  · rw [h1, h3]; exact h.trace

theorem stateWF_poll (h : StateWF st) : StateWF st.poll.2 := stateWF_congr h rfl rfl rfl

theorem lt_of_getElem? {α} {a : Array α} {i : Nat} {x : α} (h : a[i]? = some x) : i < a.size := by
  rcases Nat.lt_or_ge i a.size with hlt | hge
  · exact hlt
  · rw [Array.getElem?_eq_none hge] at h; cases h

theorem set_size (s : State) (env k v) : (s.set env k v).scopes.size = s.scopes.size := by
  unfold State.set; split <;> simp

theorem set_getElem? {s : State} {env : Nat} {k : String} {v : Val} {i : Nat} {sc : Scope} (h : (s.set env k v).scopes[i]? = some sc) :
    ∃ sc0 : Scope, s.scopes[i]? = some sc0 ∧ sc.outer = sc0.outer ∧ (sc.data = sc0.data ∨ sc.data = ainsert k v sc0.data) := by
  unfold State.set State.scope? at h
  split at h
  · exact ⟨sc, h, rfl, Or.inl rfl⟩
  · rename_i sc0 hsc0
    simp only [Array.getElem?_setIfInBounds] at h
    split at h
    · split at h
      · cases h; rename_i he _; subst he; exact ⟨sc0, hsc0, rfl, Or.inr rfl⟩
      · cases h
    · exact ⟨sc, h, rfl, Or.inl rfl⟩

theorem stateWF_set (h : StateWF st) (env k) {v : Val} (hv : ValWF st.scopes.size v) :
    StateWF (st.set env k v) := by
  constructor
  · rw [set_size]; exact h.root
  · intro i sc hsc o ho
    obtain ⟨sc0, h0, h1, _⟩ := set_getElem? hsc
    exact h.outer i sc0 h0 o (h1 ▸ ho)
  · intro i sc hsc
    rw [set_size]
    obtain ⟨sc0, h0, _, h2 | h2⟩ := set_getElem? hsc
    · rw [h2]; exact h.data _ _ h0
    · rw [h2]; exact kvsWF_ainsert (h.data _ _ h0) _ hv
  · rw [set_size, Proofs.EvalBasic.set_atoms]; exact h.atoms
  · rw [set_size, Proofs.EvalBasic.set_trace]; exact h.trace

theorem stateWF_newScope (h : StateWF st) {o : Nat} (ho : o < st.scopes.size) {data : List (String × Val)}
    (hd : KVsWF st.scopes.size data) : StateWF (st.newScope o data).1 := by
  have hle : st.scopes.size ≤ st.scopes.size + 1 := Nat.le_succ _
  constructor
  · simp [State.newScope]
  · intro i sc hsc o' ho'
    simp only [State.newScope, Array.getElem?_push] at hsc
    split at hsc
    · cases hsc; cases ho'; omega
    · exact h.outer i sc hsc o' ho'
  · intro i sc hsc
    simp only [State.newScope, Array.getElem?_push, Array.size_push] at hsc ⊢
    split at hsc
    · cases hsc; exact kvsWF_mono hle _ hd
    · exact kvsWF_mono hle _ (h.data i sc hsc)
  · intro i v hv
    simp only [State.newScope, Array.size_push] at hv ⊢
    exact valWF_mono hle _ (h.atoms i v hv)
  · simp only [State.newScope, Array.size_push]
    exact valsWF_mono hle _ h.trace

theorem stateWF_newAtom (h : StateWF st) {v : Val} (hv : ValWF st.scopes.size v) : StateWF (st.newAtom v).1 := by
  constructor
  · exact h.root
  · exact h.outer
  · exact h.data
  · intro i w hw
    simp only [State.newAtom, Array.getElem?_push] at hw ⊢
    split at hw
    · cases hw; exact hv
    · exact h.atoms i w hw
  · exact h.trace

theorem stateWF_setAtom (h : StateWF st) (id : Nat) {v : Val} (hv : ValWF st.scopes.size v) :
    StateWF { st with atoms := st.atoms.setIfInBounds id v } := by
  constructor
  · exact h.root
  · exact h.outer
  · exact h.data
  · intro i w hw
    simp only [Array.getElem?_setIfInBounds] at hw ⊢
    split at hw
    · split at hw
      · cases hw; exact hv
      · cases hw
    · exact h.atoms i w hw
  · exact h.trace

theorem stateWF_trace (h : StateWF st) {v : Val} (hv : ValWF st.scopes.size v) :
    StateWF { st with trace := v :: st.trace } := by
  constructor
  · exact h.root
  · exact h.outer
  · exact h.data
  · exact h.atoms
  · exact (valsWF_cons _ _).mpr ⟨hv, h.trace⟩

theorem stateWF_getAux (h : StateWF st) (k : String) : ∀ (f env : Nat) (v : Val),
    st.getAux f env k = some v → ValWF st.scopes.size v := by
  intro f
  induction f with
  | zero => intro env v hv; cases hv
  | succ f ih =>
    intro env v hv
    unfold State.getAux State.scope? at hv
    split at hv
    · cases hv
    · rename_i sc hsc
      split at hv
      · rename_i w hw; cases hv; exact kvsWF_alookup_some (h.data _ _ hsc) hw
      · split at hv
        · exact ih _ _ hv
        · cases hv

theorem stateWF_get (h : StateWF st) {env : Nat} {k : String} {v : Val} (hg : st.get env k = some v) :
    ValWF st.scopes.size v := stateWF_getAux h k _ _ _ hg

theorem stateWF_atomGetD (h : StateWF st) (id : Nat) : ValWF st.scopes.size (st.atoms.getD id .nil) := by
  rw [Array.getD_eq_getD_getElem?]
  cases hx : st.atoms[id]? with
  | none => simp
  | some x => exact h.atoms _ _ hx

theorem stateWF_outing1Defer (h : StateWF st) : StateWF (outing1Defer st) := by
  unfold outing1Defer
  split
  · split
    · exact stateWF_congr h rfl rfl rfl
    · exact h
  · exact h

theorem outing1Defer_scopes (st : State) : (outing1Defer st).scopes = st.scopes := by
  unfold outing1Defer
  split
  · split <;> rfl
  · rfl

end state

/-! ### the pure builtins create no closure -/
section core
variable {n : Nat}

/-- the outcome of a pure builtin is well-formed -/
def BResWF (n : Nat) : BRes → Prop
  | .ok v => ValWF n v
  | .thrown v => ValWF n v
  | .goerr _ => True

@[simp] theorem bresWF_ok (v) : BResWF n (.ok v) ↔ ValWF n v := Iff.rfl
@[simp] theorem bresWF_thrown (v) : BResWF n (.thrown v) ↔ ValWF n v := Iff.rfl
@[simp] theorem bresWF_goerr (m) : BResWF n (.goerr m) := trivial
@[simp] theorem bresWF_bool (b) : BResWF n (Core.bool b) := by simp [Core.bool]

theorem newHashMapLoop_wf (xs : List Val) (m : List (String × Val)) (hx : ValsWF n xs) (hm : KVsWF n m) :
    BResWF n (newHashMapLoop xs m) := by
  fun_induction newHashMapLoop xs m with
  | case1 => simpa using hm
  | case2 _ _ _ _ ih => simp only [valsWF_cons] at hx; exact ih hx.2.2 (kvsWF_ainsert hm _ hx.2.1)
  | case3 => simp
  | case4 => simp

theorem newHashMap_wf (xs : List Val) (hx : ValsWF n xs) : BResWF n (newHashMap xs) := by
  unfold newHashMap; split
  · simp
  · exact newHashMapLoop_wf _ _ hx (by simp)

theorem newSet_wf (xs : List Val) (s : List String) : BResWF n (newSet xs s) := by
  fun_induction newSet xs s with
  | case1 => simp
  | case2 _ _ _ ih => exact ih
  | case3 => simp

theorem addKeys_wf (w : String) (xs : List Val) (s : List String) : BResWF n (addKeys w xs s) := by
  fun_induction addKeys w xs s with
  | case1 => simp
  | case2 _ _ _ ih => exact ih
  | case3 => simp

theorem assocMap_wf (xs : List Val) (m : List (String × Val)) (hx : ValsWF n xs) (hm : KVsWF n m) :
    BResWF n (assocMap xs m) := by
  fun_induction assocMap xs m with
  | case1 => simpa using hm
  | case2 _ _ _ _ ih => simp only [valsWF_cons] at hx; exact ih hx.2.2 (kvsWF_ainsert hm _ hx.2.1)
  | case3 => simp
  | case4 => simp

theorem conjMap_wf (xs : List Val) (m : List (String × Val)) (hx : ValsWF n xs) (hm : KVsWF n m) :
    BResWF n (conjMap xs m) := by
  fun_induction conjMap xs m with
  | case1 => simpa using hm
  | case2 _ _ _ _ ih => simp only [valsWF_cons] at hx; exact ih hx.2.2 (kvsWF_ainsert hm _ hx.2.1)
  | case3 => simp
  | case4 => simp

theorem assocVec_wf (r xs : List Val) (hr : ValsWF n r) (hx : ValsWF n xs) : BResWF n (assocVec r xs) := by
  fun_induction assocVec r xs with
  | case1 => simpa using hx
  | case2 _ _ _ _ _ ih => simp only [valsWF_cons] at hr; exact ih hr.2.2 (valsWF_set hx _ hr.2.1)
  | case3 => simp
  | case4 => simp
  | case5 => simp

theorem assoc_wf (a : List Val) (ha : ValsWF n a) : BResWF n (Core.assoc a) := by
  unfold Core.assoc
  split
  · simp
  · simp only [valsWF_cons, valWF_map] at ha
    split
    · simp
    · split
      · simp
      · exact assocMap_wf _ _ ha.2 ha.1
  · simp only [valsWF_cons, valWF_vec] at ha
    split
    · simp
    · exact assocVec_wf _ _ ha.2 ha.1
  · split
    · simp
    · exact addKeys_wf _ _ _
  · simp


theorem dissoc_wf (a : List Val) (ha : ValsWF n a) : BResWF n (Core.dissoc a) := by
  unfold Core.dissoc
  split
  · simp
  · split
    · simp only [valsWF_cons, valWF_map] at ha
      split
      · simp only [bresWF_ok, valWF_map]
        have : ∀ (r : List Val) (m : List (String × Val)), KVsWF n m →
            KVsWF n (r.foldl (fun m k => match k with | .str k => aerase k m | _ => m) m) := by
          intro r; induction r with
          | nil => intro m hm; exact hm
          | cons x r ih =>
            intro m hm; simp only [List.foldl_cons]; apply ih
            split
            · exact kvsWF_aerase hm _
            · exact hm
        exact this _ _ ha.1
      · simp
    · split <;> simp
    · simp

theorem get_wf {hm key : Val} (h : ValWF n hm) : BResWF n (Core.get hm key) := by
  unfold Core.get
  split
  · simp
  · split
    · split
      · simp only [valWF_map] at h; simpa using kvsWF_alookup h _
      · simp
      · simp
      · split <;> simp
      · simp
    · split
      · simp
      · simp only [valWF_vec] at h; split
        · simpa using valsWF_getD h _
        · simp
      · simp only [valWF_list] at h; split
        · simpa using valsWF_getD h _
        · simp
      · simp
      · simp
    · simp

theorem rangeList_wf (k : Nat) (f : Int) : ValsWF n (rangeList k f) := by
  induction k generalizing f with
  | zero => simp [rangeList]
  | succ k ih => simp [rangeList, ih]

theorem prList_wf (r : Bool) (sep : List Char) (a : List Val) : ValWF n (Core.prList r sep a) := by
  simp [Core.prList]

theorem valsWF_strs (ks : List String) : ValsWF n (ks.map Val.str) := by
  rw [valsWF_iff]; intro x hx; simp only [List.mem_map] at hx; obtain ⟨_, _, rfl⟩ := hx; simp

theorem mergeFold_wf (m acc : List (String × Val)) (hm : KVsWF n m) (ha : KVsWF n acc) :
    KVsWF n (m.foldl (fun acc kv => ainsert kv.1 kv.2 acc) acc) := by
  induction m generalizing acc with
  | nil => exact ha
  | cons x m ih =>
    obtain ⟨k, v⟩ := x
    simp only [kvsWF_cons] at hm
    simp only [List.foldl_cons]; exact ih _ hm.2 (kvsWF_ainsert ha _ hm.1)

theorem renameKeys_wf (data alt : List (String × Val)) (hd : KVsWF n data) : BResWF n (renameKeys data alt) := by
  unfold renameKeys
  simp only []
  have : ∀ (data : List (String × Val)) (acc : Option (List (String × Val))),
      KVsWF n data → (∀ o, acc = some o → KVsWF n o) →
      ∀ o, data.foldl (fun (acc : Option (List (String × Val))) (kv : String × Val) =>
          acc.bind fun out =>
            match alookup kv.1 alt with
            | some (.str nk) => some (ainsert nk kv.2 out)
            | some _ => none
            | none => some (ainsert kv.1 kv.2 out)) acc = some o → KVsWF n o := by
    intro data; induction data with
    | nil => intro acc _ ha o ho; exact ha o ho
    | cons x data ih =>
      obtain ⟨k, v⟩ := x
      intro acc hd ha o ho
      simp only [kvsWF_cons] at hd
      simp only [List.foldl_cons] at ho
      refine ih _ hd.2 ?_ o ho
      intro o' ho'
      cases acc with
      | none => cases ho'
      | some out =>
        simp only [Option.bind_some] at ho'
        split at ho'
        · cases ho'; exact kvsWF_ainsert (ha _ rfl) _ hd.1
        · cases ho'
        · cases ho'; exact kvsWF_ainsert (ha _ rfl) _ hd.1
  split
  · rename_i out heq
    simpa using this data (some []) hd (by rintro _ ⟨⟩; simp) out heq
  · simp


theorem nilOr_wf {v d : Val} (hv : ValWF n v) (hd : ValWF n d) :
    ValWF n (match (generalizing := false) v with | .nil => d | b => b) := by
  split
  · exact hd
  · exact hv

theorem getIn_wf (v : Val) (path : List Val) (hv : ValWF n v) : BResWF n (getIn v path) := by
  fun_induction getIn v path with
  | case1 => simpa using hv
  | case2 => exact get_wf hv
  | case3 => simp
  | case4 v i rest hne branch b hb ih =>
    apply ih
    subst branch
    split at hb
    · cases hb; simp only [valWF_map] at hv; exact nilOr_wf (kvsWF_alookup hv _) (by simp)
    · simp only [valWF_list] at hv
      split at hb
      · cases hb; exact nilOr_wf (valsWF_getD hv _) (by simp)
      · cases hb
    · simp only [valWF_vec] at hv
      split at hb
      · cases hb; exact nilOr_wf (valsWF_getD hv _) (by simp)
      · cases hb
    · cases hb
    · cases hb
    · cases hb
    · cases hb; simp

theorem assocBranch_wf {v i b : Val} (hv : ValWF n v)
    (hb : (match (generalizing := false) v, i with
      | .map m, .str k => some (match (alookup k m).getD .nil with | .nil => Val.map [] | b => b)
      | .vec xs _, .int n => if 0 ≤ n ∧ n.toNat < xs.length then some (match xs.getD n.toNat .nil with | .nil => Val.vec [] none | b => b) else none
      | .map _, _ => none
      | .vec _ _, _ => none
      | _, _ => some .nil) = some b) : ValWF n b := by
  split at hb
  · cases hb; simp only [valWF_map] at hv; exact nilOr_wf (kvsWF_alookup hv _) (by simp)
  · simp only [valWF_vec] at hv
    split at hb
    · cases hb; exact nilOr_wf (valsWF_getD hv _) (by simp)
    · cases hb
  · cases hb
  · cases hb
  · cases hb; simp

theorem assocIn_wf (v : Val) (path : List Val) (nv : Val) (hv : ValWF n v) (hp : ValsWF n path)
    (hn : ValWF n nv) : BResWF n (assocIn v path nv) := by
  fun_induction assocIn v path nv with
  | case1 => simpa using hv
  | case2 => simp only [valsWF_cons] at hp; exact assoc_wf _ (by simp [hv, hn, hp.1])
  | case3 => simp
  | case4 v i rest nv hne branch b hb inner hi ih =>
    simp only [valsWF_cons] at hp
    have := ih (assocBranch_wf hv hb) hp.2 hn
    rw [hi] at this
    exact assoc_wf _ (by simp [hv, hp.1]; exact this)
  | case5 v i rest nv hne branch b hb r ih =>
    simp only [valsWF_cons] at hp
    exact ih (assocBranch_wf hv hb) hp.2 hn


section bw
variable {args : List Val}

theorem shape_1s (h : checkSig (.fixed [.str]) args = none) : ∃ s, args = [.str s] := by
  obtain ⟨hl, hf⟩ := EvalErase.fixed_len h
  match args, hl, hf with
  | [a], _, hf =>
    simp at hf
    obtain ⟨s, rfl⟩ := EvalErase.fits_str hf
    exact ⟨s, rfl⟩

local macro "bw_fin" : tactic => `(tactic|
  first
  | (simp; done)
  | (simp_all [rangeList_wf, prList_wf, newSet_wf, addKeys_wf, valsWF_strs]; done)
  | ((repeat' split) <;> simp_all [rangeList_wf, prList_wf, newSet_wf, addKeys_wf, valsWF_strs, seqOf?,
       valsWF_take, valsWF_drop, valsWF_tail, valsWF_reverse, valsWF_getD, valsWF_headD, valsWF_append]; done))

theorem bw_add (h : checkSig (.fixed [.int, .int]) args = none) (ha : ValsWF n args) : BResWF n (body "+" args) := by
  obtain ⟨x, y, rfl⟩ := EvalErase.shape_ii h
  rw [EvalErase.bodyEq_add]; bw_fin
theorem bw_sub (h : checkSig (.fixed [.int, .int]) args = none) (ha : ValsWF n args) : BResWF n (body "-" args) := by
  obtain ⟨x, y, rfl⟩ := EvalErase.shape_ii h
  rw [EvalErase.bodyEq_sub]; bw_fin
theorem bw_mul (h : checkSig (.fixed [.int, .int]) args = none) (ha : ValsWF n args) : BResWF n (body "*" args) := by
  obtain ⟨x, y, rfl⟩ := EvalErase.shape_ii h
  rw [EvalErase.bodyEq_mul]; bw_fin
theorem bw_div (h : checkSig (.fixed [.int, .int]) args = none) (ha : ValsWF n args) : BResWF n (body "/" args) := by
  obtain ⟨x, y, rfl⟩ := EvalErase.shape_ii h
  rw [EvalErase.bodyEq_div]; bw_fin
theorem bw_lt (h : checkSig (.fixed [.int, .int]) args = none) (ha : ValsWF n args) : BResWF n (body "<" args) := by
  obtain ⟨x, y, rfl⟩ := EvalErase.shape_ii h
  rw [EvalErase.bodyEq_lt]; bw_fin
theorem bw_le (h : checkSig (.fixed [.int, .int]) args = none) (ha : ValsWF n args) : BResWF n (body "<=" args) := by
  obtain ⟨x, y, rfl⟩ := EvalErase.shape_ii h
  rw [EvalErase.bodyEq_le]; bw_fin
theorem bw_gt (h : checkSig (.fixed [.int, .int]) args = none) (ha : ValsWF n args) : BResWF n (body ">" args) := by
  obtain ⟨x, y, rfl⟩ := EvalErase.shape_ii h
  rw [EvalErase.bodyEq_gt]; bw_fin
theorem bw_ge (h : checkSig (.fixed [.int, .int]) args = none) (ha : ValsWF n args) : BResWF n (body ">=" args) := by
  obtain ⟨x, y, rfl⟩ := EvalErase.shape_ii h
  rw [EvalErase.bodyEq_ge]; bw_fin
theorem bw_eq (h : checkSig (.fixed [.any, .any]) args = none) (ha : ValsWF n args) : BResWF n (body "=" args) := by
  obtain ⟨a, b, rfl, -, -⟩ := EvalErase.shape_2 h
  simp only [valsWF_cons, valsWF_nil, and_true] at ha
  rw [EvalErase.bodyEq_eq]; bw_fin
theorem bw_throw (h : checkSig (.fixed [.any]) args = none) (ha : ValsWF n args) : BResWF n (body "throw" args) := by
  obtain ⟨a, rfl⟩ := EvalErase.shape_1 h
  simp only [valsWF_cons, valsWF_nil, and_true] at ha
  rw [EvalErase.bodyEq_throw]; cases a <;> bw_fin
theorem bw_list (ha : ValsWF n args) : BResWF n (body "list" args) := by
  rw [EvalErase.bodyEq_list]; bw_fin
theorem bw_vector (ha : ValsWF n args) : BResWF n (body "vector" args) := by
  rw [EvalErase.bodyEq_vector]; bw_fin
theorem bw_hash_map (ha : ValsWF n args) : BResWF n (body "hash-map" args) := by
  rw [EvalErase.bodyEq_hash_map]
  split
  · simp
  · simp
  · exact newHashMap_wf _ ha
theorem bw_hash_set (_ha : ValsWF n args) : BResWF n (body "hash-set" args) := by
  rw [EvalErase.bodyEq_hash_set]; bw_fin
theorem bw_set (h : checkSig (.fixed [.any]) args = none) (ha : ValsWF n args) : BResWF n (body "set" args) := by
  obtain ⟨a, rfl⟩ := EvalErase.shape_1 h
  simp only [valsWF_cons, valsWF_nil, and_true] at ha
  rw [EvalErase.bodyEq_set]; cases a <;> bw_fin
theorem bw_assoc (ha : ValsWF n args) : BResWF n (body "assoc" args) := by
  rw [EvalErase.bodyEq_assoc]
  exact assoc_wf _ ha
theorem bw_dissoc (ha : ValsWF n args) : BResWF n (body "dissoc" args) := by
  rw [EvalErase.bodyEq_dissoc]
  exact dissoc_wf _ ha
theorem bw_get (h : checkSig (.fixed [.any, .any]) args = none) (ha : ValsWF n args) : BResWF n (body "get" args) := by
  obtain ⟨a, b, rfl, -, -⟩ := EvalErase.shape_2 h
  simp only [valsWF_cons, valsWF_nil, and_true] at ha
  rw [EvalErase.bodyEq_get]
  exact get_wf ha.1
theorem bw_get_in (h : checkSig (.fixed [.any, .any]) args = none) (ha : ValsWF n args) : BResWF n (body "get-in" args) := by
  obtain ⟨a, b, rfl, -, -⟩ := EvalErase.shape_2 h
  simp only [valsWF_cons, valsWF_nil, and_true] at ha
  rw [EvalErase.bodyEq_get_in]
  split
  · simp
  · split
    · exact getIn_wf _ _ ha.1
    · simp
theorem bw_assoc_in (h : checkSig (.fixed [.any, .vec, .any]) args = none) (ha : ValsWF n args) : BResWF n (body "assoc-in" args) := by
  obtain ⟨a, b, c, rfl, -, h2, -⟩ := EvalErase.shape_3 h
  obtain ⟨path, pp, rfl⟩ := EvalErase.fits_vec h2
  simp only [valsWF_cons, valsWF_nil, and_true] at ha
  rw [EvalErase.bodyEq_assoc_in]
  exact assocIn_wf _ _ _ ha.1 (by simpa using ha.2.1) ha.2.2
theorem bw_containsQ (h : checkSig (.fixed [.any, .str]) args = none) (ha : ValsWF n args) : BResWF n (body "contains?" args) := by
  obtain ⟨a, b, rfl, -, hb⟩ := EvalErase.shape_2 h
  obtain ⟨k, rfl⟩ := EvalErase.fits_str hb
  simp only [valsWF_cons, valsWF_nil, and_true] at ha
  rw [EvalErase.bodyEq_containsQ]; bw_fin
theorem bw_keys (h : checkSig (.fixed [.any]) args = none) (ha : ValsWF n args) : BResWF n (body "keys" args) := by
  obtain ⟨a, rfl⟩ := EvalErase.shape_1 h
  simp only [valsWF_cons, valsWF_nil, and_true] at ha
  rw [EvalErase.bodyEq_keys]
  split
  · simp only [bresWF_ok, valWF_list]; rw [valsWF_iff]; intro x hx
    simp only [List.mem_map] at hx; obtain ⟨_, _, rfl⟩ := hx; simp
  · simp
theorem bw_vals (h : checkSig (.fixed [.any]) args = none) (ha : ValsWF n args) : BResWF n (body "vals" args) := by
  obtain ⟨a, rfl⟩ := EvalErase.shape_1 h
  simp only [valsWF_cons, valsWF_nil, and_true] at ha
  rw [EvalErase.bodyEq_vals]
  split
  · simp only [bresWF_ok, valWF_list]; rw [valsWF_iff]; intro x hx
    simp only [List.mem_map] at hx; obtain ⟨kv, hkv, rfl⟩ := hx
    exact (kvsWF_iff _).mp (by simpa using ha) kv hkv
  · simp
theorem bw_merge (h : checkSig (.fixed [.any, .any]) args = none) (ha : ValsWF n args) : BResWF n (body "merge" args) := by
  obtain ⟨a, b, rfl, -, -⟩ := EvalErase.shape_2 h
  simp only [valsWF_cons, valsWF_nil, and_true] at ha
  rw [EvalErase.bodyEq_merge]
  split
  · simp
  · simp only [bresWF_ok, valWF_map]; exact mergeFold_wf _ _ (by simpa using ha.2) (by simp)
  · simp only [bresWF_ok, valWF_map]; exact mergeFold_wf _ _ (by simpa using ha.1) (by simp)
  · simp only [bresWF_ok, valWF_map]; exact mergeFold_wf _ _ (by simpa using ha.2) (by simpa using ha.1)
  · simp
theorem bw_rename_keys (h : checkSig (.fixed [.map, .map]) args = none) (ha : ValsWF n args) : BResWF n (body "rename-keys" args) := by
  obtain ⟨a, b, rfl, h1, h2⟩ := EvalErase.shape_2 h
  obtain ⟨m1, rfl⟩ := EvalErase.fits_map' h1
  obtain ⟨m2, rfl⟩ := EvalErase.fits_map' h2
  simp only [valsWF_cons, valsWF_nil, and_true] at ha
  rw [EvalErase.bodyEq_rename_keys]
  exact renameKeys_wf _ _ (by simpa using ha.1)
theorem bw_cons (h : checkSig (.fixed [.any, .any]) args = none) (ha : ValsWF n args) : BResWF n (body "cons" args) := by
  obtain ⟨a, b, rfl, -, -⟩ := EvalErase.shape_2 h
  simp only [valsWF_cons, valsWF_nil, and_true] at ha
  rw [EvalErase.bodyEq_cons]
  split
  · rename_i xs heq; simp only [bresWF_ok, valWF_list, valsWF_cons]; exact ⟨ha.1, valsWF_seqOf ha.2 heq⟩
  · simp
theorem bw_concat (ha : ValsWF n args) : BResWF n (body "concat" args) := by
  rw [EvalErase.bodyEq_concat]
  split
  · simp
  · split
    · simp only [bresWF_ok, valWF_list]; rw [valsWF_iff]; intro x hx
      simp only [List.mem_flatMap] at hx
      obtain ⟨a, ha', hx⟩ := hx
      have haw := (valsWF_iff _).mp ha a ha'
      cases hs : seqOf? a with
      | none => rw [hs] at hx; simp at hx
      | some ys => rw [hs] at hx; exact (valsWF_iff _).mp (valsWF_seqOf haw hs) x (by simpa using hx)
    · simp
theorem bw_vec (h : checkSig (.fixed [.any]) args = none) (ha : ValsWF n args) : BResWF n (body "vec" args) := by
  obtain ⟨a, rfl⟩ := EvalErase.shape_1 h
  simp only [valsWF_cons, valsWF_nil, and_true] at ha
  rw [EvalErase.bodyEq_vec]; cases a <;> bw_fin
theorem bw_nth (h : checkSig (.fixed [.any, .int]) args = none) (ha : ValsWF n args) : BResWF n (body "nth" args) := by
  obtain ⟨a, b, rfl, -, hb⟩ := EvalErase.shape_2 h
  obtain ⟨k, rfl⟩ := EvalErase.fits_int hb
  simp only [valsWF_cons, valsWF_nil, and_true] at ha
  rw [EvalErase.bodyEq_nth]
  split
  · simp
  · rename_i xs heq
    split
    · simp
    · split
      · simpa using valsWF_getD (valsWF_seqOf ha.1 heq) _
      · simp
theorem bw_first (h : checkSig (.fixed [.any]) args = none) (ha : ValsWF n args) : BResWF n (body "first" args) := by
  obtain ⟨a, rfl⟩ := EvalErase.shape_1 h
  simp only [valsWF_cons, valsWF_nil, and_true] at ha
  rw [EvalErase.bodyEq_first]
  split
  · simp
  · split
    · simp
    · rename_i xs heq; simpa using valsWF_headD (valsWF_seqOf ha heq)
theorem bw_rest (h : checkSig (.fixed [.any]) args = none) (ha : ValsWF n args) : BResWF n (body "rest" args) := by
  obtain ⟨a, rfl⟩ := EvalErase.shape_1 h
  simp only [valsWF_cons, valsWF_nil, and_true] at ha
  rw [EvalErase.bodyEq_rest]
  split
  · simp
  · split
    · simp
    · rename_i xs heq; simpa using valsWF_tail (valsWF_seqOf ha heq)
theorem bw_count (h : checkSig (.fixed [.any]) args = none) (ha : ValsWF n args) : BResWF n (body "count" args) := by
  obtain ⟨a, rfl⟩ := EvalErase.shape_1 h
  simp only [valsWF_cons, valsWF_nil, and_true] at ha
  rw [EvalErase.bodyEq_count]; cases a <;> bw_fin
theorem bw_emptyQ (h : checkSig (.fixed [.any]) args = none) (ha : ValsWF n args) : BResWF n (body "empty?" args) := by
  obtain ⟨a, rfl⟩ := EvalErase.shape_1 h
  simp only [valsWF_cons, valsWF_nil, and_true] at ha
  rw [EvalErase.bodyEq_emptyQ]; cases a <;> bw_fin
theorem variadic_min {mn : Nat} {mx : Option Nat} (h : checkSig (.variadic mn mx) args = none) :
    mn ≤ args.length := by
  simp only [checkSig] at h
  split at h
  · cases h
  · omega

theorem bw_conj (h : checkSig (.variadic 2 none) args = none) (ha : ValsWF n args) : BResWF n (body "conj" args) := by
  have hl := variadic_min h
  match args, hl with
  | a :: xs, _ =>
    simp only [valsWF_cons] at ha
    rw [EvalErase.bodyEq_conj]
    split
    · simp only [bresWF_ok, valWF_list, valsWF_append]; exact ⟨valsWF_reverse ha.2, by simpa using ha.1⟩
    · simp only [bresWF_ok, valWF_vec, valsWF_append]; exact ⟨by simpa using ha.1, ha.2⟩
    · split
      · simp
      · exact conjMap_wf _ _ ha.2 (by simpa using ha.1)
    · exact addKeys_wf _ _ _
    · simp
theorem bw_seq (h : checkSig (.fixed [.any]) args = none) (ha : ValsWF n args) : BResWF n (body "seq" args) := by
  obtain ⟨a, rfl⟩ := EvalErase.shape_1 h
  simp only [valsWF_cons, valsWF_nil, and_true] at ha
  rw [EvalErase.bodyEq_seq]
  split
  · simp
  · split
    · simp
    · simpa using ha
  · split
    · simp
    · simpa using ha
  · simpa using valsWF_strs _
  · split
    · simp
    · simp only [bresWF_ok, valWF_list]; rw [valsWF_iff]; intro x hx
      simp only [List.mem_map] at hx; obtain ⟨_, _, rfl⟩ := hx; simp
  · simp
theorem bw_take (h : checkSig (.fixed [.int, .any]) args = none) (ha : ValsWF n args) : BResWF n (body "take" args) := by
  obtain ⟨b, a, rfl, hb, -⟩ := EvalErase.shape_2 h
  obtain ⟨k, rfl⟩ := EvalErase.fits_int hb
  simp only [valsWF_cons, valsWF_nil, and_true] at ha
  rw [EvalErase.bodyEq_take]
  split
  · simp
  · split
    · rename_i xs heq; simpa using valsWF_take _ (valsWF_seqOf ha.2 heq)
    · simp
theorem bw_take_last (h : checkSig (.fixed [.int, .any]) args = none) (ha : ValsWF n args) : BResWF n (body "take-last" args) := by
  obtain ⟨b, a, rfl, hb, -⟩ := EvalErase.shape_2 h
  obtain ⟨k, rfl⟩ := EvalErase.fits_int hb
  simp only [valsWF_cons, valsWF_nil, and_true] at ha
  rw [EvalErase.bodyEq_take_last]
  split
  · simp
  · split
    · rename_i xs heq
      simp only []
      split
      · simp
      · simpa using valsWF_drop _ (valsWF_seqOf ha.2 heq)
    · simp
theorem bw_drop (h : checkSig (.fixed [.int, .any]) args = none) (ha : ValsWF n args) : BResWF n (body "drop" args) := by
  obtain ⟨b, a, rfl, hb, -⟩ := EvalErase.shape_2 h
  obtain ⟨k, rfl⟩ := EvalErase.fits_int hb
  simp only [valsWF_cons, valsWF_nil, and_true] at ha
  rw [EvalErase.bodyEq_drop]
  split
  · simp
  · split
    · rename_i xs heq; simpa using valsWF_drop _ (valsWF_seqOf ha.2 heq)
    · simp
theorem bw_drop_last (h : checkSig (.fixed [.int, .any]) args = none) (ha : ValsWF n args) : BResWF n (body "drop-last" args) := by
  obtain ⟨b, a, rfl, hb, -⟩ := EvalErase.shape_2 h
  obtain ⟨k, rfl⟩ := EvalErase.fits_int hb
  simp only [valsWF_cons, valsWF_nil, and_true] at ha
  rw [EvalErase.bodyEq_drop_last]
  split
  · simp
  · split
    · rename_i xs heq; simpa using valsWF_take _ (valsWF_seqOf ha.2 heq)
    · simp
theorem bw_subvec (h : checkSig (.variadic 2 (some 3)) args = none) (ha : ValsWF n args) :
    BResWF n (body "subvec" args) := by
  have hl := variadic_min h
  match args, hl with
  | a :: xs, _ =>
    simp only [valsWF_cons] at ha
    rw [EvalErase.bodyEq_subvec]
    split
    · have h1 := ha.1; simp only [valWF_vec] at h1
      split
      · split
        · simpa using valsWF_drop _ h1
        · simp
      · split
        · simpa using valsWF_drop _ (valsWF_take _ h1)
        · simp
      · simp
    · simp
theorem bw_range (h : checkSig (.fixed [.int, .int]) args = none) (ha : ValsWF n args) : BResWF n (body "range" args) := by
  obtain ⟨x, y, rfl⟩ := EvalErase.shape_ii h
  rw [EvalErase.bodyEq_range]; bw_fin
theorem bw_symbol (h : checkSig (.fixed [.str]) args = none) (ha : ValsWF n args) : BResWF n (body "symbol" args) := by
  obtain ⟨a, rfl⟩ := shape_1s h
  simp only [valsWF_cons, valsWF_nil, and_true] at ha
  rw [EvalErase.bodyEq_symbol]; bw_fin
theorem bw_keyword (h : checkSig (.fixed [.str]) args = none) (ha : ValsWF n args) : BResWF n (body "keyword" args) := by
  obtain ⟨a, rfl⟩ := shape_1s h
  simp only [valsWF_cons, valsWF_nil, and_true] at ha
  rw [EvalErase.bodyEq_keyword]; bw_fin
theorem bw_str (_ha : ValsWF n args) : BResWF n (body "str" args) := by
  rw [EvalErase.bodyEq_str]; bw_fin
theorem bw_pr_str (_ha : ValsWF n args) : BResWF n (body "pr-str" args) := by
  rw [EvalErase.bodyEq_pr_str]; bw_fin
theorem bw_typeQ (h : checkSig (.fixed [.any]) args = none) (ha : ValsWF n args) : BResWF n (body "type?" args) := by
  obtain ⟨a, rfl⟩ := EvalErase.shape_1 h
  simp only [valsWF_cons, valsWF_nil, and_true] at ha
  rw [EvalErase.bodyEq_typeQ]; cases a <;> bw_fin
theorem bw_nilQ (h : checkSig (.fixed [.any]) args = none) (ha : ValsWF n args) : BResWF n (body "nil?" args) := by
  obtain ⟨a, rfl⟩ := EvalErase.shape_1 h
  simp only [valsWF_cons, valsWF_nil, and_true] at ha
  rw [EvalErase.bodyEq_nilQ]; cases a <;> bw_fin
theorem bw_trueQ (h : checkSig (.fixed [.any]) args = none) (ha : ValsWF n args) : BResWF n (body "true?" args) := by
  obtain ⟨a, rfl⟩ := EvalErase.shape_1 h
  simp only [valsWF_cons, valsWF_nil, and_true] at ha
  rw [EvalErase.bodyEq_trueQ]; cases a <;> bw_fin
theorem bw_falseQ (h : checkSig (.fixed [.any]) args = none) (ha : ValsWF n args) : BResWF n (body "false?" args) := by
  obtain ⟨a, rfl⟩ := EvalErase.shape_1 h
  simp only [valsWF_cons, valsWF_nil, and_true] at ha
  rw [EvalErase.bodyEq_falseQ]; cases a <;> bw_fin
theorem bw_symbolQ (h : checkSig (.fixed [.any]) args = none) (ha : ValsWF n args) : BResWF n (body "symbol?" args) := by
  obtain ⟨a, rfl⟩ := EvalErase.shape_1 h
  simp only [valsWF_cons, valsWF_nil, and_true] at ha
  rw [EvalErase.bodyEq_symbolQ]; cases a <;> bw_fin
theorem bw_keywordQ (h : checkSig (.fixed [.any]) args = none) (ha : ValsWF n args) : BResWF n (body "keyword?" args) := by
  obtain ⟨a, rfl⟩ := EvalErase.shape_1 h
  simp only [valsWF_cons, valsWF_nil, and_true] at ha
  rw [EvalErase.bodyEq_keywordQ]; cases a <;> bw_fin
theorem bw_stringQ (h : checkSig (.fixed [.any]) args = none) (ha : ValsWF n args) : BResWF n (body "string?" args) := by
  obtain ⟨a, rfl⟩ := EvalErase.shape_1 h
  simp only [valsWF_cons, valsWF_nil, and_true] at ha
  rw [EvalErase.bodyEq_stringQ]; cases a <;> bw_fin
theorem bw_numberQ (h : checkSig (.fixed [.any]) args = none) (ha : ValsWF n args) : BResWF n (body "number?" args) := by
  obtain ⟨a, rfl⟩ := EvalErase.shape_1 h
  simp only [valsWF_cons, valsWF_nil, and_true] at ha
  rw [EvalErase.bodyEq_numberQ]; cases a <;> bw_fin
theorem bw_fnQ (h : checkSig (.fixed [.any]) args = none) (ha : ValsWF n args) : BResWF n (body "fn?" args) := by
  obtain ⟨a, rfl⟩ := EvalErase.shape_1 h
  simp only [valsWF_cons, valsWF_nil, and_true] at ha
  rw [EvalErase.bodyEq_fnQ]; cases a <;> bw_fin
theorem bw_macroQ (h : checkSig (.fixed [.any]) args = none) (ha : ValsWF n args) : BResWF n (body "macro?" args) := by
  obtain ⟨a, rfl⟩ := EvalErase.shape_1 h
  simp only [valsWF_cons, valsWF_nil, and_true] at ha
  rw [EvalErase.bodyEq_macroQ]; cases a <;> bw_fin
theorem bw_listQ (h : checkSig (.fixed [.any]) args = none) (ha : ValsWF n args) : BResWF n (body "list?" args) := by
  obtain ⟨a, rfl⟩ := EvalErase.shape_1 h
  simp only [valsWF_cons, valsWF_nil, and_true] at ha
  rw [EvalErase.bodyEq_listQ]; cases a <;> bw_fin
theorem bw_vectorQ (h : checkSig (.fixed [.any]) args = none) (ha : ValsWF n args) : BResWF n (body "vector?" args) := by
  obtain ⟨a, rfl⟩ := EvalErase.shape_1 h
  simp only [valsWF_cons, valsWF_nil, and_true] at ha
  rw [EvalErase.bodyEq_vectorQ]; cases a <;> bw_fin
theorem bw_mapQ (h : checkSig (.fixed [.any]) args = none) (ha : ValsWF n args) : BResWF n (body "map?" args) := by
  obtain ⟨a, rfl⟩ := EvalErase.shape_1 h
  simp only [valsWF_cons, valsWF_nil, and_true] at ha
  rw [EvalErase.bodyEq_mapQ]; cases a <;> bw_fin
theorem bw_setQ (h : checkSig (.fixed [.any]) args = none) (ha : ValsWF n args) : BResWF n (body "set?" args) := by
  obtain ⟨a, rfl⟩ := EvalErase.shape_1 h
  simp only [valsWF_cons, valsWF_nil, and_true] at ha
  rw [EvalErase.bodyEq_setQ]; cases a <;> bw_fin
theorem bw_atomQ (h : checkSig (.fixed [.any]) args = none) (ha : ValsWF n args) : BResWF n (body "atom?" args) := by
  obtain ⟨a, rfl⟩ := EvalErase.shape_1 h
  simp only [valsWF_cons, valsWF_nil, and_true] at ha
  rw [EvalErase.bodyEq_atomQ]; cases a <;> bw_fin
theorem bw_sequentialQ (h : checkSig (.fixed [.any]) args = none) (ha : ValsWF n args) : BResWF n (body "sequential?" args) := by
  obtain ⟨a, rfl⟩ := EvalErase.shape_1 h
  simp only [valsWF_cons, valsWF_nil, and_true] at ha
  rw [EvalErase.bodyEq_sequentialQ]; cases a <;> bw_fin
theorem bw_assert (h : checkSig (.variadic 1 (some 2)) args = none) (ha : ValsWF n args) :
    BResWF n (body "assert" args) := by
  have hl := variadic_min h
  match args, hl with
  | a :: xs, _ =>
    simp only [valsWF_cons] at ha
    rw [EvalErase.bodyEq_assert]
    have h2 := ha.2
    split
    · split
      · simp
      · simp
      · simp
      · simp only [valsWF_cons] at h2; simpa using h2.1
      · simp
    · split
      · simp
      · simp
      · simp
      · simp only [valsWF_cons] at h2; simpa using h2.1
      · simp
    · simp

theorem body_wf {name : String} {s : Sig} (hs : sigOf name = some s) (hc : checkSig s args = none)
    (ha : ValsWF n args) : BResWF n (body name args) := by
  have hm := EvalErase.sigOf_mem hs
  simp only [pureNames, List.mem_cons, List.not_mem_nil, or_false] at hm
  rcases hm with rfl | rfl | rfl | rfl | rfl | rfl | rfl | rfl | rfl | rfl | rfl | rfl | rfl | rfl | rfl | rfl | rfl | rfl | rfl | rfl | rfl | rfl | rfl | rfl | rfl | rfl | rfl | rfl | rfl | rfl | rfl | rfl | rfl | rfl | rfl | rfl | rfl | rfl | rfl | rfl | rfl | rfl | rfl | rfl | rfl | rfl | rfl | rfl | rfl | rfl | rfl | rfl | rfl | rfl | rfl | rfl | rfl | rfl | rfl | rfl | rfl | rfl
  · cases hs; exact bw_add hc ha
  · cases hs; exact bw_sub hc ha
  · cases hs; exact bw_mul hc ha
  · cases hs; exact bw_div hc ha
  · cases hs; exact bw_lt hc ha
  · cases hs; exact bw_le hc ha
  · cases hs; exact bw_gt hc ha
  · cases hs; exact bw_ge hc ha
  · cases hs; exact bw_eq hc ha
  · cases hs; exact bw_throw hc ha
  · exact bw_list ha
  · exact bw_vector ha
  · exact bw_hash_map ha
  · exact bw_hash_set ha
  · cases hs; exact bw_set hc ha
  · exact bw_assoc ha
  · exact bw_dissoc ha
  · cases hs; exact bw_get hc ha
  · cases hs; exact bw_get_in hc ha
  · cases hs; exact bw_assoc_in hc ha
  · cases hs; exact bw_containsQ hc ha
  · cases hs; exact bw_keys hc ha
  · cases hs; exact bw_vals hc ha
  · cases hs; exact bw_merge hc ha
  · cases hs; exact bw_rename_keys hc ha
  · cases hs; exact bw_cons hc ha
  · exact bw_concat ha
  · cases hs; exact bw_vec hc ha
  · cases hs; exact bw_nth hc ha
  · cases hs; exact bw_first hc ha
  · cases hs; exact bw_rest hc ha
  · cases hs; exact bw_count hc ha
  · cases hs; exact bw_emptyQ hc ha
  · cases hs; exact bw_conj hc ha
  · cases hs; exact bw_seq hc ha
  · cases hs; exact bw_take hc ha
  · cases hs; exact bw_take_last hc ha
  · cases hs; exact bw_drop hc ha
  · cases hs; exact bw_drop_last hc ha
  · cases hs; exact bw_subvec hc ha
  · cases hs; exact bw_range hc ha
  · cases hs; exact bw_symbol hc ha
  · cases hs; exact bw_keyword hc ha
  · exact bw_str ha
  · exact bw_pr_str ha
  · cases hs; exact bw_typeQ hc ha
  · cases hs; exact bw_nilQ hc ha
  · cases hs; exact bw_trueQ hc ha
  · cases hs; exact bw_falseQ hc ha
  · cases hs; exact bw_symbolQ hc ha
  · cases hs; exact bw_keywordQ hc ha
  · cases hs; exact bw_stringQ hc ha
  · cases hs; exact bw_numberQ hc ha
  · cases hs; exact bw_fnQ hc ha
  · cases hs; exact bw_macroQ hc ha
  · cases hs; exact bw_listQ hc ha
  · cases hs; exact bw_vectorQ hc ha
  · cases hs; exact bw_mapQ hc ha
  · cases hs; exact bw_setQ hc ha
  · cases hs; exact bw_atomQ hc ha
  · cases hs; exact bw_sequentialQ hc ha
  · cases hs; exact bw_assert hc ha

/-- a pure builtin only returns (or throws) values built from its arguments: it creates no closure -/
theorem call_wf {name : String} {r : BRes} (ha : ValsWF n args) (h : Core.call name args = some r) :
    BResWF n r := by
  unfold Core.call at h
  split at h
  · cases h
  · rename_i s hs
    split at h
    · split at h <;> cases h <;> simp
    · rename_i hc; cases h; exact body_wf hs hc ha
end bw
end core

set_option linter.unnecessarySimpa false
/-! ### the invariant of the evaluator block -/

/-- postcondition of a run from `st` to `s` with result `r` -/
def Post (st : State) (r : Res Val) (s : State) : Prop :=
  StateWF s ∧ st.scopes.size ≤ s.scopes.size ∧ ResWF s.scopes.size r
def PostL (st : State) (r : Res (List Val)) (s : State) : Prop :=
  StateWF s ∧ st.scopes.size ≤ s.scopes.size ∧ ResLWF s.scopes.size r
def PostM (st : State) (r : Res (List (String × Val))) (s : State) : Prop :=
  StateWF s ∧ st.scopes.size ≤ s.scopes.size ∧ ResMWF s.scopes.size r

/-- the induction predicate: at fuel `F` all 13 functions keep the store well-formed -/
structure Inv (F : Nat) : Prop where
  eval : ∀ {st env ast d r s}, StateWF st → env < st.scopes.size → ValWF st.scopes.size ast →
    eval F st env ast d = (r, s) → Post st r s
  evalLoop : ∀ {st env ast d r s}, StateWF st → env < st.scopes.size → ValWF st.scopes.size ast →
    evalLoop F st env ast d = (r, s) → Post st r s
  evalAst : ∀ {st env ast d r s}, StateWF st → env < st.scopes.size → ValWF st.scopes.size ast →
    evalAst F st env ast d = (r, s) → Post st r s
  evalList : ∀ {st env xs d r s}, StateWF st → env < st.scopes.size → ValsWF st.scopes.size xs →
    evalList F st env xs d = (r, s) → PostL st r s
  evalMap : ∀ {st env xs d r s}, StateWF st → env < st.scopes.size → KVsWF st.scopes.size xs →
    evalMap F st env xs d = (r, s) → PostM st r s
  doForms : ∀ {st env lst fr kl d r s}, StateWF st → env < st.scopes.size → ValsWF st.scopes.size lst →
    doForms F st env lst fr kl d = (r, s) → Post st r s
  letBinds : ∀ {st env bs a1 d r s}, StateWF st → env < st.scopes.size → ValsWF st.scopes.size bs →
    letBinds F st env bs a1 d = (r, s) → Post st r s
  macroexpand : ∀ {st env ast d r s}, StateWF st → env < st.scopes.size → ValWF st.scopes.size ast →
    macroexpand F st env ast d = (r, s) → Post st r s
  apply : ∀ {st f args d r s}, StateWF st → ValWF st.scopes.size f → ValsWF st.scopes.size args →
    apply F st f args d = (r, s) → Post st r s
  mapLoop : ∀ {st f xs d r s}, StateWF st → ValWF st.scopes.size f → ValsWF st.scopes.size xs →
    mapLoop F st f xs d = (r, s) → PostL st r s
  updateIn : ∀ {st v p f d r s}, StateWF st → ValWF st.scopes.size v → ValsWF st.scopes.size p →
    ValWF st.scopes.size f → updateIn F st v p f d = (r, s) → Post st r s
  update1 : ∀ {st v i f d r s}, StateWF st → ValWF st.scopes.size v → ValWF st.scopes.size i →
    ValWF st.scopes.size f → update1 F st v i f d = (r, s) → Post st r s
  callBuiltin : ∀ {st n args d r s}, StateWF st → ValsWF st.scopes.size args →
    callBuiltin F st n args d = (r, s) → Post st r s

@[simp] theorem resWF_ok {n v} : ResWF n (.ok v) ↔ ValWF n v := Iff.rfl
@[simp] theorem resWF_err {n e} : ResWF n (.err e) ↔ ErrWF n e := Iff.rfl
@[simp] theorem resWF_oof {n} : ResWF n .oof := trivial
@[simp] theorem resLWF_ok {n v} : ResLWF n (.ok v) ↔ ValsWF n v := Iff.rfl
@[simp] theorem resLWF_err {n e} : ResLWF n (.err e) ↔ ErrWF n e := Iff.rfl
@[simp] theorem resLWF_oof {n} : ResLWF n .oof := trivial
@[simp] theorem resMWF_ok {n v} : ResMWF n (.ok v) ↔ KVsWF n v := Iff.rfl
@[simp] theorem resMWF_err {n e} : ResMWF n (.err e) ↔ ErrWF n e := Iff.rfl
@[simp] theorem resMWF_oof {n} : ResMWF n .oof := trivial
@[simp] theorem errWF_lisp {n p pos} : ErrWF n (.lisp p pos) ↔ ValWF n p := Iff.rfl
@[simp] theorem errWF_plain' {n m} : ErrWF n (.plain m) := trivial

theorem post_refl {st : State} {r : Res Val} (hw : StateWF st) (hr : ResWF st.scopes.size r) : Post st r st :=
  ⟨hw, Nat.le_refl _, hr⟩

section steps
variable {F : Nat} (ih : Inv F)
include ih

theorem evalList_step {st env xs d r s} (hw : StateWF st) (he : env < st.scopes.size)
    (hx : ValsWF st.scopes.size xs) (h : evalList (F+1) st env xs d = (r, s)) : PostL st r s := by
  cases xs with
  | nil => rw [evalList.eq_2] at h; cases h; exact ⟨hw, Nat.le_refl _, by simp [ResLWF]⟩
  | cons x xs =>
    rw [evalList.eq_3] at h
    simp only [valsWF_cons] at hx
    rcases h1 : LispModel.eval F st env x (d+1) with ⟨r1, s1⟩
    rw [h1] at h
    obtain ⟨w1, l1, v1⟩ := ih.eval hw he hx.1 h1
    cases r1 with
    | ok v =>
      dsimp only at h
      rcases h2 : LispModel.evalList F s1 env xs d with ⟨r2, s2⟩
      rw [h2] at h
      obtain ⟨w2, l2, v2⟩ := ih.evalList w1 (by omega) (valsWF_mono l1 _ hx.2) h2
      cases r2 <;> cases h <;> refine ⟨w2, by omega, ?_⟩
      · exact (valsWF_cons _ _).mpr ⟨valWF_mono l2 _ v1, v2⟩
      · exact v2
      · trivial
    | err e => cases h; exact ⟨w1, l1, v1⟩
    | oof => cases h; exact ⟨w1, l1, trivial⟩

theorem evalMap_step {st env xs d r s} (hw : StateWF st) (he : env < st.scopes.size)
    (hx : KVsWF st.scopes.size xs) (h : evalMap (F+1) st env xs d = (r, s)) : PostM st r s := by
  cases xs with
  | nil => rw [evalMap.eq_2] at h; cases h; exact ⟨hw, Nat.le_refl _, by simp [ResMWF]⟩
  | cons x xs =>
    obtain ⟨k, x⟩ := x
    rw [evalMap.eq_3] at h
    simp only [kvsWF_cons] at hx
    rcases h1 : LispModel.eval F st env x (d+1) with ⟨r1, s1⟩
    rw [h1] at h
    obtain ⟨w1, l1, v1⟩ := ih.eval hw he hx.1 h1
    cases r1 with
    | ok v =>
      dsimp only at h
      rcases h2 : LispModel.evalMap F s1 env xs d with ⟨r2, s2⟩
      rw [h2] at h
      obtain ⟨w2, l2, v2⟩ := ih.evalMap w1 (by omega) (kvsWF_mono l1 _ hx.2) h2
      cases r2 <;> cases h <;> refine ⟨w2, by omega, ?_⟩
      · exact kvsWF_ainsert v2 _ (valWF_mono l2 _ v1)
      · exact v2
      · trivial
    | err e => cases h; exact ⟨w1, l1, v1⟩
    | oof => cases h; exact ⟨w1, l1, trivial⟩

theorem evalAst_step {st env ast d r s} (hw : StateWF st) (he : env < st.scopes.size)
    (hx : ValWF st.scopes.size ast) (h : evalAst (F+1) st env ast d = (r, s)) : Post st r s := by
  cases ast <;> simp only [evalAst] at h
  case sym nm p =>
    split at h <;> cases h
    · exact post_refl hw (stateWF_get hw ‹_›)
    · exact post_refl hw (by simp)
  case list xs p =>
    rcases h1 : LispModel.evalList F st env xs d with ⟨r1, s1⟩
    rw [h1] at h
    obtain ⟨w1, l1, v1⟩ := ih.evalList hw he (by simpa using hx) h1
    cases r1 <;> cases h <;> exact ⟨w1, l1, by simpa using v1⟩
  case vec xs p =>
    rcases h1 : LispModel.evalList F st env xs d with ⟨r1, s1⟩
    rw [h1] at h
    obtain ⟨w1, l1, v1⟩ := ih.evalList hw he (by simpa using hx) h1
    cases r1 <;> cases h <;> exact ⟨w1, l1, by simpa using v1⟩
  case map xs =>
    rcases h1 : LispModel.evalMap F st env xs d with ⟨r1, s1⟩
    rw [h1] at h
    obtain ⟨w1, l1, v1⟩ := ih.evalMap hw he (by simpa using hx) h1
    cases r1 <;> cases h <;> exact ⟨w1, l1, by simpa using v1⟩
  all_goals (cases h; exact post_refl hw (by simpa using hx))

omit ih in
theorem doFin_post {st : State} (b : Bool) {r : R} (h : Post st r.1 r.2) :
    Post st (EvalErase.doFin b r).1 (EvalErase.doFin b r).2 := by
  unfold EvalErase.doFin
  split
  · split
    · exact ⟨stateWF_congr h.1 rfl rfl rfl, h.2.1, h.2.2⟩
    · exact h
  · exact h

theorem doForms_step {st env lst fr kl d r s} (hw : StateWF st) (he : env < st.scopes.size)
    (hx : ValsWF st.scopes.size lst) (h : doForms (F+1) st env lst fr kl d = (r, s)) : Post st r s := by
  rw [EvalErase.doForms_eq] at h
  have key : ∀ r0 : R, Post st r0.1 r0.2 → EvalErase.doFin (EvalErase.hadOuting1 st) r0 = (r, s) → Post st r s := by
    intro r0 hp he; have := doFin_post (EvalErase.hadOuting1 st) hp; rw [he] at this; exact this
  refine key _ ?_ h
  split
  · exact post_refl hw (by simp)
  · rcases h1 : LispModel.evalList F st env (if kl = true then (List.drop fr lst).dropLast else List.drop fr lst) d
      with ⟨r1, s1⟩
    have hx' : ValsWF st.scopes.size (if kl = true then (List.drop fr lst).dropLast else List.drop fr lst) := by
      split
      · exact valsWF_dropLast (valsWF_drop _ hx)
      · exact valsWF_drop _ hx
    obtain ⟨w1, l1, v1⟩ := ih.evalList hw he hx' h1
    cases r1 with
    | ok vs =>
      dsimp only
      split
      · exact ⟨w1, l1, by simpa using valsWF_getLastD (valsWF_mono l1 _ hx)⟩
      · exact ⟨w1, l1, by simpa using valsWF_getLastD v1⟩
    | err e => exact ⟨w1, l1, v1⟩
    | oof => exact ⟨w1, l1, trivial⟩

theorem letBinds_step {st env bs a1 d r s} (hw : StateWF st) (he : env < st.scopes.size)
    (hx : ValsWF st.scopes.size bs) (h : letBinds (F+1) st env bs a1 d = (r, s)) : Post st r s := by
  match bs, hx with
  | [], _ => rw [letBinds.eq_2] at h; cases h; exact post_refl hw (by simp)
  | [_], _ => rw [letBinds.eq_3] at h; cases h; exact post_refl hw (by simp)
  | b :: x :: rest, hx =>
    unfold letBinds at h
    simp only [valsWF_cons] at hx
    split at h
    · rcases h1 : LispModel.eval F st env x (d+1) with ⟨r1, s1⟩
      rw [h1] at h
      obtain ⟨w1, l1, v1⟩ := ih.eval hw he hx.2.1 h1
      cases r1 with
      | ok v =>
        dsimp only at h
        have w2 := stateWF_set w1 env ‹String› (v := v) v1
        obtain ⟨w3, l3, v3⟩ := ih.letBinds w2 (by rw [set_size]; omega)
          (by rw [set_size]; exact valsWF_mono l1 _ hx.2.2) h
        rw [set_size] at l3
        exact ⟨w3, by omega, v3⟩
      | err e => cases h; exact ⟨w1, l1, v1⟩
      | oof => cases h; exact ⟨w1, l1, trivial⟩
    · cases h; exact post_refl hw (by simpa using errWF_newLispError (e := .plain _) trivial _)

omit ih in
theorem newScope_size (st : State) (o : Nat) (data) :
    (st.newScope o data).1.scopes.size = st.scopes.size + 1 := by simp [State.newScope]

omit ih in
theorem newScope_snd (st : State) (o : Nat) (data) : (st.newScope o data).2 = st.scopes.size := rfl

omit ih in
/-- the scope of a call: well-formed, and the closure's body is well-formed in it -/
theorem call_scope_wf {st : State} {ps b : Val} {e : Nat} {mc : Bool} {p : Option Pos} {args : List Val}
    {data : List (String × Val)} (hw : StateWF st) (hf : ValWF st.scopes.size (.fn ps b e mc p))
    (ha : ValsWF st.scopes.size args) (hb : bindParams ps args = .ok data) :
    StateWF (st.newScope e data).1 ∧ (st.newScope e data).2 < (st.newScope e data).1.scopes.size ∧
    ValWF (st.newScope e data).1.scopes.size b ∧ st.scopes.size ≤ (st.newScope e data).1.scopes.size := by
  simp only [valWF_fn] at hf
  refine ⟨stateWF_newScope hw hf.2.2 (bindParams_ok ha hb), ?_, ?_, ?_⟩
  · rw [newScope_size, newScope_snd]; omega
  · rw [newScope_size]; exact valWF_mono (Nat.le_succ _) _ hf.2.1
  · rw [newScope_size]; omega

theorem macroexpand_step {st env ast d r s} (hw : StateWF st) (he : env < st.scopes.size)
    (hx : ValWF st.scopes.size ast) (h : macroexpand (F+1) st env ast d = (r, s)) : Post st r s := by
  unfold macroexpand at h
  split at h
  · rename_i nm _ args _
    simp only [valWF_list, valsWF_cons] at hx
    split at h
    · rename_i params body fenv _ hg
      have hf := stateWF_get hw hg
      split at h
      · rename_i e hb; cases h; exact post_refl hw (bindParams_err hx.2 hb)
      · rename_i data hb
        obtain ⟨w0, e0, b0, l0⟩ := call_scope_wf hw hf hx.2 hb
        dsimp only at h
        rcases h1 : LispModel.eval F (st.newScope fenv data).1 (st.newScope fenv data).2 body (d+1) with ⟨r1, s1⟩
        rw [h1] at h
        obtain ⟨w1, l1, v1⟩ := ih.eval w0 e0 b0 h1
        cases r1 with
        | ok v =>
          dsimp only at h
          obtain ⟨w2, l2, v2⟩ := ih.macroexpand w1 (by omega) v1 h
          exact ⟨w2, by omega, v2⟩
        | err e => cases h; exact ⟨w1, by omega, v1⟩
        | oof => cases h; exact ⟨w1, by omega, trivial⟩
    · cases h; exact post_refl hw (by simpa using hx)
  · cases h; exact post_refl hw (by simpa using hx)

theorem apply_step {st f args d r s} (hw : StateWF st) (hf : ValWF st.scopes.size f)
    (ha : ValsWF st.scopes.size args) (h : apply (F+1) st f args d = (r, s)) : Post st r s := by
  unfold apply at h
  split at h
  · rename_i params body fenv _ _
    split at h
    · rename_i e hb; cases h; exact post_refl hw (bindParams_err ha hb)
    · rename_i data hb
      obtain ⟨w0, e0, b0, l0⟩ := call_scope_wf hw hf ha hb
      dsimp only at h
      obtain ⟨w1, l1, v1⟩ := ih.eval w0 e0 b0 h
      exact ⟨w1, by omega, v1⟩
  · exact ih.callBuiltin hw ha h
  · cases h; exact post_refl hw (by simp)

theorem mapLoop_step {st f xs d r s} (hw : StateWF st) (hf : ValWF st.scopes.size f)
    (hx : ValsWF st.scopes.size xs) (h : mapLoop (F+1) st f xs d = (r, s)) : PostL st r s := by
  cases xs with
  | nil => rw [mapLoop.eq_2] at h; cases h; exact ⟨hw, Nat.le_refl _, by simp⟩
  | cons x xs =>
    rw [mapLoop.eq_3] at h
    simp only [valsWF_cons] at hx
    rcases h1 : LispModel.apply F st f [x] d with ⟨r1, s1⟩
    rw [h1] at h
    obtain ⟨w1, l1, v1⟩ := ih.apply hw hf (by simp [hx.1]) h1
    cases r1 with
    | ok v =>
      dsimp only at h
      rcases h2 : LispModel.mapLoop F s1 f xs d with ⟨r2, s2⟩
      rw [h2] at h
      obtain ⟨w2, l2, v2⟩ := ih.mapLoop w1 (valWF_mono l1 _ hf) (valsWF_mono l1 _ hx.2) h2
      cases r2 <;> cases h <;> refine ⟨w2, by omega, ?_⟩
      · exact (valsWF_cons _ _).mpr ⟨valWF_mono l2 _ v1, v2⟩
      · exact v2
      · trivial
    | err e => cases h; exact ⟨w1, l1, v1⟩
    | oof => cases h; exact ⟨w1, l1, trivial⟩

omit ih in
theorem assocRes_post {st s1 : State} {b : BRes} {r s} (w1 : StateWF s1) (l1 : st.scopes.size ≤ s1.scopes.size)
    (hb : BResWF s1.scopes.size b) (h : EvalErase.assocRes b s1 = (r, s)) : Post st r s := by
  cases b <;> simp only [EvalErase.assocRes] at h <;> cases h
  · exact ⟨w1, l1, hb⟩
  · exact ⟨w1, l1, hb⟩
  · exact ⟨w1, l1, by simp⟩

omit ih in
theorem curOf_wf {n : Nat} {v i c : Val} (hv : ValWF n v) (h : EvalErase.curOf v i = some c) : ValWF n c := by
  unfold EvalErase.curOf at h
  split at h
  · cases h; simp only [valWF_map] at hv; exact kvsWF_alookup hv _
  · simp only [valWF_vec] at hv
    split at h
    · cases h; exact valsWF_getD hv _
    · cases h
  · cases h

omit ih in
theorem updBranch_wf {n : Nat} {v i c : Val} (hv : ValWF n v) (h : EvalErase.updBranch v i = some c) : ValWF n c := by
  unfold EvalErase.updBranch at h
  split at h
  · cases h; simp only [valWF_map] at hv; exact nilOr_wf (kvsWF_alookup hv _) (by simp)
  · simp only [valWF_vec] at hv
    split at h
    · cases h; exact nilOr_wf (valsWF_getD hv _) (by simp)
    · cases h
  · cases h

theorem update1_step {st v i f d r s} (hw : StateWF st) (hv : ValWF st.scopes.size v)
    (hi : ValWF st.scopes.size i) (hf : ValWF st.scopes.size f)
    (h : update1 (F+1) st v i f d = (r, s)) : Post st r s := by
  rw [EvalErase.update1_eq] at h
  have main : ∀ {r s}, (match EvalErase.curOf v i with
         | none => ((.err (.lisp (.goerr "interface conversion or index out of range") none), st) : R)
         | some c =>
           match LispModel.apply F st f [c] d with
           | (.ok res, st) => EvalErase.assocRes (Core.assoc [v, i, res]) st
           | r => r) = (r, s) → Post st r s := by
    intro r s h
    split at h
    · cases h; exact post_refl hw (by simp)
    · rename_i c hc
      rcases h1 : LispModel.apply F st f [c] d with ⟨r1, s1⟩
      rw [h1] at h
      obtain ⟨w1, l1, v1⟩ := ih.apply hw hf (by simp [curOf_wf hv hc]) h1
      cases r1 with
      | ok res =>
        dsimp only at h
        refine assocRes_post w1 l1 (assoc_wf _ ?_) h
        simp only [valsWF_cons, valsWF_nil, and_true]
        exact ⟨valWF_mono l1 _ hv, valWF_mono l1 _ hi, v1⟩
      | err e => cases h; exact ⟨w1, l1, v1⟩
      | oof => cases h; exact ⟨w1, l1, trivial⟩
  split at h
  · exact main h
  · exact main h
  · cases h; exact post_refl hw (by simp)

theorem updateIn_step {st v p f d r s} (hw : StateWF st) (hv : ValWF st.scopes.size v)
    (hp : ValsWF st.scopes.size p) (hf : ValWF st.scopes.size f)
    (h : updateIn (F+1) st v p f d = (r, s)) : Post st r s := by
  match p, hp with
  | [], _ => rw [updateIn.eq_2] at h; cases h; exact post_refl hw hv
  | [i], hp => rw [updateIn.eq_3] at h; exact ih.update1 hw hv (by simpa using hp) hf h
  | i :: j :: rest, hp =>
    rw [EvalErase.updateIn_eq3] at h
    simp only [valsWF_cons] at hp
    split at h
    · cases h; exact post_refl hw (by simp)
    · rename_i b hb
      split at h
      · cases h; exact post_refl hw (by simp)
      · rcases h1 : LispModel.updateIn F st b (j :: rest) f d with ⟨r1, s1⟩
        rw [h1] at h
        obtain ⟨w1, l1, v1⟩ := ih.updateIn hw (updBranch_wf hv hb) (by simp [hp.2.1, hp.2.2]) hf h1
        cases r1 with
        | ok res =>
          dsimp only at h
          refine assocRes_post w1 l1 (assoc_wf _ ?_) h
          simp only [valsWF_cons, valsWF_nil, and_true]
          exact ⟨valWF_mono l1 _ hv, valWF_mono l1 _ hp.1, v1⟩
        | err e => cases h; exact ⟨w1, l1, v1⟩
        | oof => cases h; exact ⟨w1, l1, trivial⟩

theorem callBuiltin_step {st nm args d r s} (hw : StateWF st) (ha : ValsWF st.scopes.size args)
    (h : callBuiltin (F+1) st nm args d = (r, s)) : Post st r s := by
  unfold callBuiltin at h; dsimp only at h
  by_cases hn : nm = "trace!"
  · rw [if_pos hn] at h
    split at h <;> cases h
    · simp only [valsWF_cons] at ha; exact ⟨stateWF_trace hw ha.1, Nat.le_refl _, ha.1⟩
    · exact post_refl hw (by simp)
  rw [if_neg hn] at h; clear hn
  by_cases hn : nm = "depth!"
  · rw [if_pos hn] at h
    split at h <;> cases h
    · exact ⟨stateWF_congr hw rfl rfl rfl, Nat.le_refl _, by simp⟩
    · exact post_refl hw (by simp)
  rw [if_neg hn] at h; clear hn
  by_cases hn : nm = "eval"
  · rw [if_pos hn] at h
    split at h
    · simp only [valsWF_cons] at ha; exact ih.eval hw hw.root ha.1 h
    · cases h; exact post_refl hw (by simp)
  rw [if_neg hn] at h; clear hn
  by_cases hn : nm = "apply"
  · rw [if_pos hn] at h
    split at h
    · simp only [valsWF_cons] at ha
      split at h
      · cases h; exact post_refl hw (by simp)
      · rename_i rest _ last hl
        have hlast : ValWF st.scopes.size last := by
          have := valsWF_getLastD ha.2; rw [hl] at this; exact this
        split at h
        · cases h; exact post_refl hw (by simp)
        · rename_i tail ht
          exact ih.apply hw ha.1 (valsWF_append.mpr ⟨valsWF_dropLast ha.2, valsWF_seqOf hlast ht⟩) h
    · cases h; exact post_refl hw (by simp)
  rw [if_neg hn] at h; clear hn
  by_cases hn : nm = "map"
  · rw [if_pos hn] at h
    split at h
    · simp only [valsWF_cons] at ha
      split at h
      · cases h; exact post_refl hw (by simp)
      · rename_i f0 _ _ xs hs
        rcases h1 : LispModel.mapLoop F st f0 xs d with ⟨r1, s1⟩
        rw [h1] at h
        obtain ⟨w1, l1, v1⟩ := ih.mapLoop hw ha.1 (valsWF_seqOf ha.2.1 hs) h1
        cases r1 <;> cases h <;> exact ⟨w1, l1, by simpa using v1⟩
    · cases h; exact post_refl hw (by simp)
  rw [if_neg hn] at h; clear hn
  by_cases hn : nm = "atom"
  · rw [if_pos hn] at h
    split at h <;> cases h
    · simp only [valsWF_cons] at ha; exact ⟨stateWF_newAtom hw ha.1, Nat.le_refl _, by simp⟩
    · exact post_refl hw (by simp)
  rw [if_neg hn] at h; clear hn
  by_cases hn : nm = "deref"
  · rw [if_pos hn] at h
    split at h <;> cases h
    · exact post_refl hw (stateWF_atomGetD hw _)
    · exact post_refl hw (by simp)
    · exact post_refl hw (by simp)
  rw [if_neg hn] at h; clear hn
  by_cases hn : nm = "reset!"
  · rw [if_pos hn] at h
    split at h <;> cases h
    · simp only [valsWF_cons] at ha; exact ⟨stateWF_setAtom hw _ ha.2.1, Nat.le_refl _, ha.2.1⟩
    · exact post_refl hw (by simp)
    · exact post_refl hw (by simp)
  rw [if_neg hn] at h; clear hn
  by_cases hn : nm = "swap!"
  · rw [if_pos hn] at h
    split at h
    · rename_i id f extra
      simp only [valsWF_cons] at ha
      rcases h1 : LispModel.apply F st f (st.atoms.getD id .nil :: extra) d with ⟨r1, s1⟩
      rw [h1] at h
      obtain ⟨w1, l1, v1⟩ := ih.apply hw ha.2.1 ((valsWF_cons _ _).mpr ⟨stateWF_atomGetD hw _, ha.2.2⟩) h1
      cases r1 <;> cases h
      · exact ⟨stateWF_setAtom w1 _ v1, l1, v1⟩
      · exact ⟨w1, l1, v1⟩
      · exact ⟨w1, l1, trivial⟩
    · cases h; exact post_refl hw (by simp)
    · cases h; exact post_refl hw (by simp)
  rw [if_neg hn] at h; clear hn
  by_cases hn : nm = "update"
  · rw [if_pos hn] at h
    split at h
    · cases h; exact post_refl hw (by simp)
    · simp only [valsWF_cons] at ha; exact ih.update1 hw ha.1 ha.2.1 ha.2.2.1 h
    · cases h; exact post_refl hw (by simp)
  rw [if_neg hn] at h; clear hn
  by_cases hn : nm = "update-in"
  · rw [if_pos hn] at h
    split at h
    · simp only [valsWF_cons, valWF_vec] at ha
      split at h
      · cases h; exact post_refl hw (by simp)
      · exact ih.updateIn hw ha.1 ha.2.1 ha.2.2.1 h
    · cases h; exact post_refl hw (by simp)
    · cases h; exact post_refl hw (by simp)
  rw [if_neg hn] at h; clear hn
  split at h <;> cases h
  · rename_i v hc; exact post_refl hw (by simpa using call_wf ha hc)
  · rename_i v hc; exact post_refl hw (by simpa using call_wf ha hc)
  · exact post_refl hw (by simp)
  · exact post_refl hw (by simp)

omit ih in
theorem epilogue_wf {b1 b2 : Bool} {s : State} (h : StateWF s) : StateWF (EvalErase.epilogue b1 b2 s) := by
  unfold EvalErase.epilogue
  split
  · exact h
  · exact stateWF_congr h rfl rfl rfl

omit ih in
theorem epilogue_scopes (b1 b2 : Bool) (s : State) : (EvalErase.epilogue b1 b2 s).scopes = s.scopes := by
  unfold EvalErase.epilogue
  split <;> rfl

theorem eval_step {st env ast d r s} (hw : StateWF st) (he : env < st.scopes.size)
    (hx : ValWF st.scopes.size ast) (h : eval (F+1) st env ast d = (r, s)) : Post st r s := by
  cases hs : st.stepper with
  | none => rw [eval_stepper_none hs] at h; exact ih.evalLoop hw he hx h
  | some sp =>
    rw [EvalErase.eval_eq_some hs] at h
    rcases h1 : LispModel.evalLoop F { st with stepper := some (EvalErase.prologue sp ast).1 } env ast d with ⟨r1, s1⟩
    rw [h1] at h
    obtain ⟨w1, l1, v1⟩ := ih.evalLoop (st := { st with stepper := some (EvalErase.prologue sp ast).1 })
      (stateWF_congr hw rfl rfl rfl) he hx h1
    cases h
    exact ⟨epilogue_wf w1, by rw [epilogue_scopes]; exact l1, by rw [epilogue_scopes]; exact v1⟩

theorem continueWith_post {st env ast d r s} (hw : StateWF st) (he : env < st.scopes.size)
    (hx : ValWF st.scopes.size ast) (h : continueWith F st env ast d = (r, s)) : Post st r s := by
  unfold continueWith at h
  split at h
  · exact ih.evalLoop hw he hx h
  · exact ih.eval hw he hx h

omit ih in
theorem post_trans {a b c : State} {r : Res Val} (l : a.scopes.size ≤ b.scopes.size) (h : Post b r c) : Post a r c :=
  ⟨h.1, Nat.le_trans l h.2.1, h.2.2⟩

omit ih in
theorem partsWF_mono {n m : Nat} (h : n ≤ m) {parts : TryParts} (hp : PartsWF n parts) : PartsWF m parts :=
  ⟨valsWF_mono h _ hp.body, fun b hb => valWF_mono h _ (hp.bind b hb),
   fun x hx => valsWF_mono h _ (hp.handler x hx), fun x hx => valsWF_mono h _ (hp.fin x hx)⟩

theorem tryCatch_post {parts : TryParts} {env d : Nat} {rb : Res Val} {sb : State} {rc sc}
    (wb : StateWF sb) (eb : env < sb.scopes.size) (hp : PartsWF sb.scopes.size parts)
    (vb : ResWF sb.scopes.size rb) (h : tryCatch F parts env d rb sb = (rc, sc)) : Post sb rc sc := by
  unfold tryCatch at h
  split at h
  · cases h; exact post_refl wb vb
  · cases h; exact post_refl wb trivial
  · rename_i e
    split at h
    · rename_i handler bind hh hbd
      have hcv : ValWF sb.scopes.size (caughtValue e) := valWF_caughtValue vb
      split at h
      · rename_i be hbe; cases h
        exact post_refl wb (bindParams_err (args := [caughtValue e]) ((valsWF_cons _ _).mpr ⟨hcv, valsWF_nil⟩) hbe)
      · rename_i data hdata
        have hd := bindParams_ok (args := [caughtValue e]) ((valsWF_cons _ _).mpr ⟨hcv, valsWF_nil⟩) hdata
        have w2 := stateWF_newScope wb eb hd
        have z2 := newScope_size sb env data
        obtain ⟨w3, l3, v3⟩ := ih.doForms w2 (by rw [newScope_snd]; omega)
          (valsWF_mono (by omega) _ (hp.handler _ hh)) h
        exact ⟨w3, by omega, v3⟩
    · cases h; exact post_refl wb vb

theorem tryFinally_post {parts : TryParts} {env d : Nat} {rc : Res Val} {sc : State} {r s}
    (wc : StateWF sc) (ec : env < sc.scopes.size) (hp : PartsWF sc.scopes.size parts)
    (vc : ResWF sc.scopes.size rc) (h : tryFinally F parts env d rc sc = (r, s)) : Post sc r s := by
  unfold tryFinally at h
  split at h
  · cases h; exact post_refl wc trivial
  · split at h
    · cases h
      exact ⟨stateWF_outing1Defer wc, by rw [outing1Defer_scopes]; exact Nat.le_refl _,
        by rw [outing1Defer_scopes]; exact vc⟩
    · rename_i fin hfin
      rcases h2 : LispModel.doForms F sc env fin 0 false d with ⟨r2, s2⟩
      rw [h2] at h
      obtain ⟨w2, l2, v2⟩ := ih.doForms wc ec (hp.fin _ hfin) h2
      cases r2 <;> cases h
      · exact ⟨w2, l2, resWF_mono l2 vc⟩
      · exact ⟨w2, l2, resWF_mono l2 vc⟩
      · exact ⟨w2, l2, trivial⟩


section arms
variable {st s1 : State} {env d : Nat} {a0 : Val} {ops : List Val} {p' : Option Pos} {r : Res Val} {s : State}
  (w1 : StateWF s1) (e1 : env < s1.scopes.size) (hl : ValsWF s1.scopes.size (a0 :: ops))
include w1 e1 hl

theorem arm_def_post
    (h : (match LispModel.eval F s1 env (ops.getD 1 .nil) (d+1) with
      | (.ok res, s2) =>
        (match ops.getD 0 .nil with
         | .sym name _ => (.ok res, s2.set env name res)
         | _ => (.err (newLispError (.plain "cannot use value as identifier") (.list (a0 :: ops) p')), s2))
      | r => r) = (r, s)) : Post s1 r s := by
  simp only [valsWF_cons] at hl
  rcases h1 : LispModel.eval F s1 env (ops.getD 1 .nil) (d+1) with ⟨r1, s2⟩
  rw [h1] at h
  obtain ⟨w2, l2, v2⟩ := ih.eval w1 e1 (valsWF_getD hl.2 _) h1
  cases r1 with
  | ok v =>
    dsimp only at h
    split at h <;> cases h
    · exact ⟨stateWF_set w2 _ _ v2, by rw [set_size]; exact l2, by rw [set_size]; exact v2⟩
    · exact ⟨w2, l2, by simpa using errWF_newLispError (e := .plain _) trivial _⟩
  | err e => cases h; exact ⟨w2, l2, v2⟩
  | oof => cases h; exact ⟨w2, l2, trivial⟩

theorem arm_defmacro_post
    (h : (match LispModel.eval F s1 env (ops.getD 1 .nil) (d + 1) with
      | (.ok f, s2) =>
        (match f with
         | .fn ps b e _ fp =>
           (match ops.getD 0 .nil with
            | .sym name _ => (.ok (Val.fn ps b e true fp), s2.set env name (Val.fn ps b e true fp))
            | _ => (.err (newLispError (.plain "cannot use value as identifier") (.list (a0 :: ops) p')), s2))
         | _ => (.err (newLispError (.plain "defmacro requires a function") (.list (a0 :: ops) p')), s2))
      | r => r) = (r, s)) : Post s1 r s := by
  simp only [valsWF_cons] at hl
  rcases h1 : LispModel.eval F s1 env (ops.getD 1 .nil) (d+1) with ⟨r1, s2⟩
  rw [h1] at h
  obtain ⟨w2, l2, v2⟩ := ih.eval w1 e1 (valsWF_getD hl.2 _) h1
  cases r1 with
  | ok v =>
    dsimp only at h
    split at h
    · rename_i ps b e mc fp
      have v2' : ValWF s2.scopes.size (Val.fn ps b e true fp) := by
        simpa using v2
      split at h <;> cases h
      · exact ⟨stateWF_set w2 _ _ v2', by rw [set_size]; exact l2, by rw [set_size]; exact v2'⟩
      · exact ⟨w2, l2, by simpa using errWF_newLispError (e := .plain _) trivial _⟩
    · cases h; exact ⟨w2, l2, by simpa using errWF_newLispError (e := .plain _) trivial _⟩
  | err e => cases h; exact ⟨w2, l2, v2⟩
  | oof => cases h; exact ⟨w2, l2, trivial⟩

theorem arm_let_post
    (h : (match seqOf? (ops.getD 0 .nil) with
      | none => (.err (.plain "GetSlice called on non-sequence"), (s1.newScope env []).1)
      | some arr1 =>
        if arr1.length % 2 ≠ 0 then
          (.err (newLispError (.plain "let: odd elements on binding vector") (ops.getD 0 .nil)), (s1.newScope env []).1)
        else
          match letBinds F (s1.newScope env []).1 (s1.newScope env []).2 arr1 (ops.getD 0 .nil) d with
          | (.ok _, s2) =>
            (match doForms F s2 (s1.newScope env []).2 (a0 :: ops) 2 true d with
             | (.ok next, s3) => continueWith F s3 (s1.newScope env []).2 next d
             | r => r)
          | r => r) = (r, s)) : Post s1 r s := by
  have hops : ValsWF s1.scopes.size ops := ((valsWF_cons _ _).mp hl).2
  have w2 : StateWF (s1.newScope env []).1 := stateWF_newScope w1 e1 (by simp)
  have z2 := newScope_size s1 env []
  have l2 : s1.scopes.size ≤ (s1.newScope env []).1.scopes.size := by omega
  have e2 : (s1.newScope env []).2 < (s1.newScope env []).1.scopes.size := by rw [newScope_snd]; omega
  generalize (s1.newScope env []).1 = s2 at *
  generalize (s1.newScope env []).2 = letEnv at *
  split at h
  · cases h; exact ⟨w2, l2, by simp⟩
  · rename_i arr1 ha1
    split at h
    · cases h; exact ⟨w2, l2, by simpa using errWF_newLispError (e := .plain _) trivial _⟩
    · rcases h3 : LispModel.letBinds F s2 letEnv arr1 (ops.getD 0 .nil) d with ⟨r3, s3⟩
      rw [h3] at h
      obtain ⟨w3, l3, v3⟩ := ih.letBinds w2 e2 (valsWF_seqOf (valsWF_getD (valsWF_mono l2 _ hops) _) ha1) h3
      cases r3 with
      | ok v =>
        dsimp only at h
        rcases h4 : LispModel.doForms F s3 letEnv (a0 :: ops) 2 true d with ⟨r4, s4⟩
        rw [h4] at h
        obtain ⟨w4, l4, v4⟩ := ih.doForms w3 (by omega) (valsWF_mono (by omega) _ hl) h4
        cases r4 with
        | ok next =>
          dsimp only at h
          exact post_trans (by omega) (continueWith_post ih w4 (by omega) v4 h)
        | err e => cases h; exact ⟨w4, by omega, v4⟩
        | oof => cases h; exact ⟨w4, by omega, trivial⟩
      | err e => cases h; exact ⟨w3, by omega, v3⟩
      | oof => cases h; exact ⟨w3, by omega, trivial⟩

theorem arm_do_post
    (h : (match doForms F s1 env (a0 :: ops) 1 true d with
      | (.ok next, s2) => continueWith F s2 env next d
      | r => r) = (r, s)) : Post s1 r s := by
  rcases h4 : LispModel.doForms F s1 env (a0 :: ops) 1 true d with ⟨r4, s4⟩
  rw [h4] at h
  obtain ⟨w4, l4, v4⟩ := ih.doForms w1 e1 hl h4
  cases r4 with
  | ok next =>
    dsimp only at h
    exact post_trans (by omega) (continueWith_post ih w4 (by omega) v4 h)
  | err e => cases h; exact ⟨w4, by omega, v4⟩
  | oof => cases h; exact ⟨w4, by omega, trivial⟩

theorem arm_if_post
    (h : (match LispModel.eval F s1 env (ops.getD 0 .nil) (d+1) with
      | (.ok cond, s2) =>
         if truthy cond then continueWith F s2 env (ops.getD 1 .nil) d
         else if (a0 :: ops).length ≥ 4 then continueWith F s2 env ((a0 :: ops).getD 3 .nil) d
         else (.ok .nil, s2)
      | r => r) = (r, s)) : Post s1 r s := by
  have hops : ValsWF s1.scopes.size ops := ((valsWF_cons _ _).mp hl).2
  rcases h2 : LispModel.eval F s1 env (ops.getD 0 .nil) (d+1) with ⟨r2, s2⟩
  rw [h2] at h
  obtain ⟨w2, l2, v2⟩ := ih.eval w1 e1 (valsWF_getD hops _) h2
  cases r2 with
  | ok c =>
    dsimp only at h
    split at h
    · exact post_trans l2 (continueWith_post ih w2 (by omega) (valsWF_getD (valsWF_mono l2 _ hops) _) h)
    · split at h
      · exact post_trans l2 (continueWith_post ih w2 (by omega) (valsWF_getD (valsWF_mono l2 _ hl) _) h)
      · cases h; exact ⟨w2, l2, by simp⟩
  | err e => cases h; exact ⟨w2, l2, v2⟩
  | oof => cases h; exact ⟨w2, l2, trivial⟩

omit ih in
theorem arm_fn_post
    (h : (if (a0 :: ops).length < 2 then
        ((.err (newLispError (.plain "fn requires a parameter list") (.list (a0 :: ops) p')), s1) : R)
      else (.ok (.fn (ops.getD 0 .nil) (.list (.sym "do" none :: (a0 :: ops).drop 2) none) env false p'), s1)) = (r, s)) :
    Post s1 r s := by
  have hops : ValsWF s1.scopes.size ops := ((valsWF_cons _ _).mp hl).2
  split at h <;> cases h
  · exact post_refl w1 (by simpa using errWF_newLispError (e := .plain _) trivial _)
  · refine post_refl w1 ?_
    simp only [resWF_ok, valWF_fn, valWF_list, valsWF_cons, valWF_sym, true_and]
    exact ⟨valsWF_getD hops _, valsWF_drop _ hl, e1⟩

theorem arm_app_post
    (h : (match LispModel.evalList F s1 env (a0 :: ops) d with
      | (.ok el, st) =>
        (match el with
         | [] => (.err (.plain "empty application"), st)
         | f :: args =>
           match f with
           | .fn params body fenv _ _ =>
             (match bindParams params args with
              | .error e =>
                (match e with
                 | .lisp (.goerr m) _ => (.err (.lisp (.goerr (m ++ " (around do)")) none), st)
                 | e => (.err (newLispError e body), st))
              | .ok data => continueWith F (st.newScope fenv data).1 (st.newScope fenv data).2 body d)
           | .builtin name =>
             (match callBuiltin F st name args d with
              | (.ok v, st) => (.ok v, st)
              | (.err e, st) => (.err (newLispError e (.list (a0 :: ops) p')), st)
              | (.oof, st) => (.oof, st))
           | _ => (.err (.lisp (.goerr "attempt to call non-function") none), st))
      | (.err e, st) => (.err e, st)
      | (.oof, st) => (.oof, st)) = (r, s)) : Post s1 r s := by
  rcases h2 : LispModel.evalList F s1 env (a0 :: ops) d with ⟨r2, s2⟩
  rw [h2] at h
  obtain ⟨w2, l2, v2⟩ := ih.evalList w1 e1 hl h2
  cases r2 with
  | ok el =>
    dsimp only at h
    split at h
    · cases h; exact ⟨w2, l2, by simp⟩
    · rename_i f args
      simp only [resLWF_ok, valsWF_cons] at v2
      split at h
      · rename_i params body fenv _ _
        split at h
        · rename_i e hb
          have he := bindParams_err v2.2 hb
          split at h <;> cases h
          · exact ⟨w2, l2, by simp⟩
          · exact ⟨w2, l2, by simpa using errWF_newLispError he _⟩
        · rename_i data hb
          obtain ⟨w3, e3, b3, l3⟩ := call_scope_wf w2 v2.1 v2.2 hb
          exact post_trans (by omega) (continueWith_post ih w3 e3 b3 h)
      · rename_i name
        rcases h3 : LispModel.callBuiltin F s2 name args d with ⟨r3, s3⟩
        rw [h3] at h
        obtain ⟨w3, l3, v3⟩ := ih.callBuiltin w2 v2.2 h3
        cases r3 <;> cases h
        · exact ⟨w3, by omega, v3⟩
        · exact ⟨w3, by omega, by simpa using errWF_newLispError v3 _⟩
        · exact ⟨w3, by omega, trivial⟩
      · cases h; exact ⟨w2, l2, by simp⟩
  | err e => cases h; exact ⟨w2, l2, v2⟩
  | oof => cases h; exact ⟨w2, l2, trivial⟩

theorem arm_try_post
    (h : (if ops.isEmpty then ((.ok .nil, s1) : R) else
      match splitTry (a0 :: ops) with
      | .error msg => (.err (newLispError (.plain msg) (.list (a0 :: ops) p')), s1)
      | .ok parts =>
        tryFinally F parts env d
          (tryCatch F parts env d (LispModel.doForms F s1 env parts.body 0 false d).1 (LispModel.doForms F s1 env parts.body 0 false d).2).1
          (tryCatch F parts env d (LispModel.doForms F s1 env parts.body 0 false d).1 (LispModel.doForms F s1 env parts.body 0 false d).2).2) = (r, s)) :
    Post s1 r s := by
  split at h
  · cases h; exact post_refl w1 (by simp)
  split at h
  · cases h; exact post_refl w1 (by simpa using errWF_newLispError (e := .plain _) trivial _)
  rename_i parts hsp
  have hp := splitTry_wf hl hsp
  rcases hb : LispModel.doForms F s1 env parts.body 0 false d with ⟨rb, sb⟩
  rw [hb] at h; dsimp only at h
  obtain ⟨wb, lb, vb⟩ := ih.doForms w1 e1 hp.body hb
  rcases hc : tryCatch F parts env d rb sb with ⟨rc, sc⟩
  rw [hc] at h; dsimp only at h
  obtain ⟨wc, lc, vc⟩ := tryCatch_post ih wb (by omega) (partsWF_mono lb hp) vb hc
  obtain ⟨wf, lf, vf⟩ := tryFinally_post ih wc (by omega) (partsWF_mono (by omega) hp) vc h
  exact ⟨wf, by omega, vf⟩

end arms

theorem evalLoop_step {st env ast d r s} (hw : StateWF st) (he : env < st.scopes.size)
    (hx : ValWF st.scopes.size ast) (h : evalLoop (F+1) st env ast d = (r, s)) : Post st r s := by
  rcases hp : st.poll with ⟨dn, s0⟩
  have e0 : s0 = st.poll.2 := by rw [hp]
  have w0 : StateWF s0 := by rw [e0]; exact stateWF_poll hw
  have z0 : s0.scopes.size = st.scopes.size := by rw [e0]; rfl
  cases dn with
  | true => rw [evalLoop_timeout hp] at h; cases h; exact ⟨w0, by omega, by simpa using errWF_timeout _⟩
  | false =>
    by_cases hl : ∃ xs p, ast = .list xs p
    case neg =>
      rw [evalLoop_nonlist hp (fun xs p hc => hl ⟨xs, p, hc⟩)] at h
      exact post_trans (by omega) (ih.evalAst w0 (by omega) (by rw [z0]; exact hx) h)
    obtain ⟨xs, p, rfl⟩ := hl
    rcases hm : LispModel.macroexpand F s0 env (.list xs p) d with ⟨rm, s1⟩
    obtain ⟨w1, l1, v1⟩ := ih.macroexpand w0 (by omega) (by rw [z0]; exact hx) hm
    have e1 : env < s1.scopes.size := by omega
    have l01 : st.scopes.size ≤ s1.scopes.size := by omega
    cases rm with
    | err e => rw [evalLoop_mac_err hp hm] at h; cases h; exact ⟨w1, l01, v1⟩
    | oof => rw [evalLoop_mac_oof hp hm] at h; cases h; exact ⟨w1, l01, trivial⟩
    | ok ast' =>
      by_cases hl' : ∃ xs p, ast' = .list xs p
      case neg =>
        rw [evalLoop_mac_nonlist hp hm (fun xs p hc => hl' ⟨xs, p, hc⟩)] at h
        exact post_trans l01 (ih.evalAst w1 e1 v1 h)
      obtain ⟨ys, p', rfl⟩ := hl'
      cases ys with
      | nil => rw [evalLoop_mac_empty hp hm] at h; cases h; exact ⟨w1, l01, v1⟩
      | cons a0 ops =>
        have hlst : ValsWF s1.scopes.size (a0 :: ops) := by simpa using v1
        have hops : ValsWF s1.scopes.size ops := ((valsWF_cons _ _).mp hlst).2
        refine post_trans l01 ?_
        by_cases h_def : a0sym a0 = "def"
        · rw [evalLoop_def hp hm h_def] at h; exact arm_def_post ih w1 e1 hlst h
        by_cases h_let : a0sym a0 = "let"
        · rw [evalLoop_let hp hm h_let] at h; exact arm_let_post ih w1 e1 hlst h
        by_cases h_quote : a0sym a0 = "quote"
        · rw [evalLoop_quote hp hm h_quote] at h; cases h
          exact post_refl w1 (valsWF_getD hops _)
        by_cases h_qqe : a0sym a0 = "quasiquoteexpand"
        · rw [evalLoop_quasiquoteexpand hp hm h_qqe] at h; cases h
          exact post_refl w1 (quasiquote_wf _ (valsWF_getD hops _))
        by_cases h_qq : a0sym a0 = "quasiquote"
        · rw [evalLoop_quasiquote hp hm h_qq] at h
          exact continueWith_post ih w1 e1 (quasiquote_wf _ (valsWF_getD hops _)) h
        by_cases h_defmacro : a0sym a0 = "defmacro"
        · rw [evalLoop_defmacro hp hm h_defmacro] at h; exact arm_defmacro_post ih w1 e1 hlst h
        by_cases h_macroexpand : a0sym a0 = "macroexpand"
        · rw [evalLoop_macroexpand hp hm h_macroexpand] at h
          exact ih.macroexpand w1 e1 (valsWF_getD hops _) h
        by_cases h_try : a0sym a0 = "try"
        · rw [evalLoop_try hp hm h_try] at h; exact arm_try_post ih w1 e1 hlst h
        by_cases h_do : a0sym a0 = "do"
        · rw [evalLoop_do hp hm h_do] at h; exact arm_do_post ih w1 e1 hlst h
        by_cases h_if : a0sym a0 = "if"
        · rw [evalLoop_if hp hm h_if] at h; exact arm_if_post ih w1 e1 hlst h
        by_cases h_fn : a0sym a0 = "fn"
        · rw [evalLoop_fn hp hm h_fn] at h; exact arm_fn_post w1 e1 hlst h
        have ha : a0sym a0 ∉ specialForms := by
          simp only [specialForms, List.mem_cons, List.not_mem_nil, or_false, not_or]
          exact ⟨h_def, h_let, h_quote, h_qqe, h_qq, h_defmacro, h_macroexpand, h_try, h_do, h_if, h_fn⟩
        rw [evalLoop_app hp hm ha] at h
        exact arm_app_post ih w1 e1 hlst h

end steps

/-- **store well-formedness is an invariant of the whole evaluator block**: at every fuel, each of the
    13 functions started in a well-formed store (on well-formed inputs, in an existing scope) ends in a
    well-formed store that is at least as large, and its value / error payload is well-formed there -/
theorem inv : ∀ F, Inv F := by
  intro F
  induction F with
  | zero =>
    constructor <;> intros <;> rename_i h
    · rw [eval.eq_1] at h; cases h; exact post_refl ‹_› trivial
    · rw [evalLoop.eq_1] at h; cases h; exact post_refl ‹_› trivial
    · unfold evalAst at h; cases h; exact post_refl ‹_› trivial
    · rw [evalList.eq_1] at h; cases h; exact ⟨‹_›, Nat.le_refl _, trivial⟩
    · rw [evalMap.eq_1] at h; cases h; exact ⟨‹_›, Nat.le_refl _, trivial⟩
    · rw [doForms.eq_1] at h; cases h; exact post_refl ‹_› trivial
    · unfold letBinds at h; cases h; exact post_refl ‹_› trivial
    · unfold macroexpand at h; cases h; exact post_refl ‹_› trivial
    · unfold apply at h; cases h; exact post_refl ‹_› trivial
    · rw [mapLoop.eq_1] at h; cases h; exact ⟨‹_›, Nat.le_refl _, trivial⟩
    · unfold updateIn at h; cases h; exact post_refl ‹_› trivial
    · unfold update1 at h; cases h; exact post_refl ‹_› trivial
    · unfold callBuiltin at h; cases h; exact post_refl ‹_› trivial
  | succ F ih =>
    exact ⟨eval_step ih, evalLoop_step ih, evalAst_step ih, evalList_step ih, evalMap_step ih,
      doForms_step ih, letBinds_step ih, macroexpand_step ih, apply_step ih, mapLoop_step ih,
      updateIn_step ih, update1_step ih, callBuiltin_step ih⟩


/-! ### consequences: the scoping laws of C01 with `StateWF` of the start state as only hypothesis -/

theorem initState_stateWF : StateWF initState := by
  constructor
  · decide
  · intro i sc h o ho
    cases i with
    | zero => simp [initState] at h; subst h; cases ho
    | succ i => simp [initState] at h
  · intro i sc h
    cases i with
    | zero =>
      simp [initState] at h; subst h
      rw [kvsWF_iff]; intro kv hkv
      simp only [List.mem_map] at hkv
      obtain ⟨_, _, rfl⟩ := hkv; simp
    | succ i => simp [initState] at h
  · intro i v h; simp [initState] at h
  · simp [initState]

/-- `StateWF` contains the side condition `ScopesWF` of the C01 / C03 / C08 laws -/
theorem stateWF_scopesWF {st : State} (h : StateWF st) : ScopesWF st := h.outer

/-- … and the side condition `StoreWF` of the C12 laws (outer links refer to existing scopes) -/
theorem stateWF_outer_lt_size {st : State} (h : StateWF st) (i : Nat) (sc : Scope)
    (hsc : st.scopes[i]? = some sc) (o : Nat) (ho : sc.outer = some o) : o < st.scopes.size :=
  Nat.lt_trans (h.outer i sc hsc o ho) (lt_of_getElem? hsc)

/-- a form without closure objects (everything the reader produces) is well-formed in every store -/
theorem valWF_of_closureFree {v : Val} (h : ValWF 0 v) (n : Nat) : ValWF n v := valWF_mono (Nat.zero_le n) v h

theorem stateWF_tick {st : State} (h : StateWF st) : StateWF (tick st) := stateWF_congr h rfl rfl rfl

theorem eval_post {F st env ast d r s} (hw : StateWF st) (he : env < st.scopes.size)
    (hx : ValWF st.scopes.size ast) (h : eval F st env ast d = (r, s)) :
    StateWF s ∧ st.scopes.size ≤ s.scopes.size ∧ ResWF s.scopes.size r := (inv F).eval hw he hx h

/-- lookup from the scope of a call, without side condition on the store: the closure is a value of a
    well-formed store -/
theorem get_call_scope {st : State} (hw : StateWF st) {ps b : Val} {e : Nat} {mc : Bool} {p : Option Pos}
    (hf : ValWF st.scopes.size (.fn ps b e mc p)) (data : List (String × Val)) (k : String) :
    (st.newScope e data).1.get (st.newScope e data).2 k =
      match alookup k data with
      | some v => some v
      | none => st.get e k :=
  EvalLaws.get_newScope hw.outer ((valWF_fn ..).mp hf).2.2 data k

section laws
variable {F : Nat} {st : State} {env d : Nat} {pos : Option Pos}

/-- `eval_symbol_outer` with the invariant as hypothesis -/
theorem eval_symbol_outer_wf (hc : st.cancelAt = none) (hw : StateWF st) {sc : Scope} {k : String} {o : Nat}
    (p : Option Pos) (hsc : st.scopes[env]? = some sc) (hk : alookup k sc.data = none) (ho : sc.outer = some o) :
    evalLoop (F+2) st env (.sym k p) d = evalLoop (F+2) st o (.sym k p) d :=
  EvalLaws.eval_symbol_outer hc hw.outer p hsc hk ho

/-- … in any state a run from a well-formed store ends in -/
theorem eval_symbol_outer_after_run {F0 : Nat} {st0 : State} {env0 d0 : Nat} {ast0 : Val} {r0 : Res Val}
    (h0 : StateWF st0) (he0 : env0 < st0.scopes.size) (ha0 : ValWF st0.scopes.size ast0)
    (hrun : eval F0 st0 env0 ast0 d0 = (r0, st)) (hc : st.cancelAt = none)
    {sc : Scope} {k : String} {o : Nat}
    (p : Option Pos) (hsc : st.scopes[env]? = some sc) (hk : alookup k sc.data = none) (ho : sc.outer = some o) :
    evalLoop (F+2) st env (.sym k p) d = evalLoop (F+2) st o (.sym k p) d :=
  eval_symbol_outer_wf hc (eval_post h0 he0 ha0 hrun).1 p hsc hk ho

/-- … in particular after any program run on the harness environment: no hypothesis on the store left -/
theorem eval_symbol_outer_from_init {F0 d0 : Nat} {prog : Val} {r0 : Res Val}
    (hprog : ValWF 0 prog) (hrun : eval F0 initState 0 prog d0 = (r0, st))
    {sc : Scope} {k : String} {o : Nat}
    (p : Option Pos) (hsc : st.scopes[env]? = some sc) (hk : alookup k sc.data = none) (ho : sc.outer = some o) :
    evalLoop (F+2) st env (.sym k p) d = evalLoop (F+2) st o (.sym k p) d := by
  have hc : st.cancelAt = none := by
    have := (cancelAt_preserved F0).eval hrun
    unfold SameCancel at this; rw [this]; rfl
  exact eval_symbol_outer_after_run initState_stateWF (by decide) (valWF_of_closureFree hprog _) hrun hc p hsc hk ho

/-- a closure sees its DEFINING scope: when the head of a call evaluates to a closure — created anywhere,
    any time before, in scope `fenv` — the body runs in a fresh scope in which the parameters win and
    every other symbol is resolved through `fenv`'s chain (in the store of the call), not through the
    caller's scope `env`; and the invariant holds again where the body starts -/
theorem closure_sees_defining_scope (hw : StateWF st) (he : env < st.scopes.size)
    {f : Val} {args : List Val} (hast : ValsWF st.scopes.size (f :: args))
    (hc : st.cancelAt = none) (hs : st.stepper = none)
    (hm : HeadNotMacro st env f) (hsf : a0sym f ∉ specialForms)
    {params body : Val} {fenv : Nat} {m : Bool} {fp : Option Pos} {vs : List Val} {st1 : State}
    {data : List (String × Val)}
    (hargs : evalList (F+1) (tick st) env (f :: args) d = (.ok (.fn params body fenv m fp :: vs), st1))
    (hbind : bindParams params vs = .ok data) :
    evalLoop (F+2) st env (.list (f :: args) pos) d =
        evalLoop (F+1) (st1.newScope fenv data).1 (st1.newScope fenv data).2 body d ∧
    (∀ k, (st1.newScope fenv data).1.get (st1.newScope fenv data).2 k =
        match alookup k data with
        | some v => some v
        | none => st1.get fenv k) ∧
    StateWF (st1.newScope fenv data).1 ∧
    (st1.newScope fenv data).2 < (st1.newScope fenv data).1.scopes.size ∧
    ValWF (st1.newScope fenv data).1.scopes.size body := by
  obtain ⟨w1, _, v1⟩ := (inv (F+1)).evalList (stateWF_tick hw) he hast hargs
  simp only [resLWF_ok, valsWF_cons] at v1
  obtain ⟨w2, e2, b2, _⟩ := call_scope_wf w1 v1.1 v1.2 hbind
  exact ⟨EvalLaws.eval_apply_closure hc hs hm hsf hargs hbind, get_call_scope w1 v1.1 data, w2, e2, b2⟩

/-- after any program run on the harness environment, every closure bound anywhere in the store sees
    its defining scope when called: no hypothesis on the store -/
theorem get_call_scope_from_init {F0 d0 : Nat} {prog : Val} {r0 : Res Val}
    (hprog : ValWF 0 prog) (hrun : eval F0 initState 0 prog d0 = (r0, st))
    {name : String} {ps b : Val} {e : Nat} {mc : Bool} {p : Option Pos}
    (hg : st.get env name = some (.fn ps b e mc p)) (data : List (String × Val)) (k : String) :
    (st.newScope e data).1.get (st.newScope e data).2 k =
      match alookup k data with
      | some v => some v
      | none => st.get e k := by
  have hw := (eval_post initState_stateWF (by decide) (valWF_of_closureFree hprog _) hrun).1
  exact get_call_scope hw (stateWF_get hw hg) data k

/-- … and so does a closure the program returns -/
theorem get_call_scope_of_result {F0 d0 : Nat} {prog : Val} {ps b : Val} {e : Nat} {mc : Bool} {p : Option Pos}
    (hprog : ValWF 0 prog) (hrun : eval F0 initState 0 prog d0 = (.ok (.fn ps b e mc p), st))
    (data : List (String × Val)) (k : String) :
    (st.newScope e data).1.get (st.newScope e data).2 k =
      match alookup k data with
      | some v => some v
      | none => st.get e k := by
  obtain ⟨hw, _, hv⟩ := eval_post initState_stateWF (by decide) (valWF_of_closureFree hprog _) hrun
  exact get_call_scope (mc := mc) (p := p) hw hv data k

end laws


end Proofs.EvalStoreWF
end LispModel

/-
  Laws of the L-notation model (LispModel/LNot.lean): what `lnotation.S L LS V HM SET` build carries
  no source position, positions never take part in equality, and — the C19 statement for this
  delivery route — the reader, given the same term written as text, returns exactly the value
  L-notation builds, cursors aside.

  Proved in general (∀ terms / ∀ values):
    * `build_has_no_positions`, `stripPos_idempotent`, `stripPos_build`, `equalQ_ignores_positions`,
      `equalQ_stripPos_self`;
    * `HM_nested_maps_converted` (∀ entry lists, every depth), `buildHM_cons`;
    * `print_then_read_exact`: the C06 round trip sharpened from `structEqB` to equality after erasing
      cursors (re-proved over the reader lemmas of Proofs/PrintRead*.lean; scanner part reused as is);
    * `toText_eq_print`, `build_readable`, `build_data`: for well-formed terms the written text IS
      `PRINT (build t)` and `build t` is a readable data value — code terms included, symbols print as
      their names;
    * `read_text_eq_build` / `read_text_eq_build'` / `deliveries_equalQ` / `read_text_any_entry_order`:
      C19 for this route, ∀ well-formed terms, ∀ reader configurations without a placeholder table.
  By kernel evaluation only (`decide`): the three programs of lnotation_test.go (`test_programs_same`,
  `fib_read_eq_build`, `fib_text`), the data sample, the non-vacuity of `wf`, what happens outside `wf`
  (`not_wf_deliveries`), and the raw-map counterexamples (`V_keeps_raw_map`,
  `HM_keeps_raw_map_inside_slices` by unfolding, `raw_map_in_slice_deliveries_differ` by evaluation).
-/
import LispModel.LNot
import LispModel.Equal
import LispModel.Proofs.StructEq
import LispModel.Proofs.PrintRead
namespace LispModel.Proofs.LNotLaws
open LispModel LispModel.LNot

/-! ### 1. L-notation values carry no position -/

theorem noPosMap_ainsert (k : String) (v : Val) (hv : noPos v = true) :
    ∀ m : List (String × Val), noPosMap m = true → noPosMap (ainsert k v m) = true
  | [], _ => by simp [ainsert, noPosMap, hv]
  | (k', v') :: r, h => by
    have h' : noPos v' = true ∧ noPosMap r = true := by simpa [noPosMap] using h
    unfold ainsert
    split
    · simp [noPosMap, hv, h'.2]
    · simp [noPosMap, h'.1, noPosMap_ainsert k v hv r h'.2]

mutual
theorem noPos_build : (t : LTerm) → noPos (build t) = true
  | .S _ => rfl
  | .L args => by simp [build, noPos, noPos_buildList args]
  | .LS _ args => by simp [build, noPos, noPosList, noPos_buildList args]
  | .V args => by simp [build, noPos, noPos_buildList args]
  | .HM es => by simp [build, noPos, noPos_buildHM es [] rfl]
  | .rawMap _ => rfl
  | .SET _ => rfl
  | .int _ => rfl
  | .str _ => rfl
  | .nil => rfl
  | .bool _ => rfl
theorem noPos_buildList : (ts : List LTerm) → noPosList (buildList ts) = true
  | [] => rfl
  | t :: r => by simp [buildList, noPosList, noPos_build t, noPos_buildList r]
theorem noPos_buildHM : (es : List (String × LTerm)) → ∀ m, noPosMap m = true → noPosMap (buildHM es m) = true
  | [], _, h => h
  | (k, .rawMap es') :: r, m, h => by
    simp only [buildHM]
    exact noPos_buildHM r _ (noPosMap_ainsert k _ (by simp [noPos, noPos_buildHM es' [] rfl]) m h)
  | (k, .S n) :: r, m, h => noPos_buildHM r _ (noPosMap_ainsert k _ (noPos_build (.S n)) m h)
  | (k, .L a) :: r, m, h => noPos_buildHM r _ (noPosMap_ainsert k _ (noPos_build (.L a)) m h)
  | (k, .LS n a) :: r, m, h => noPos_buildHM r _ (noPosMap_ainsert k _ (noPos_build (.LS n a)) m h)
  | (k, .V a) :: r, m, h => noPos_buildHM r _ (noPosMap_ainsert k _ (noPos_build (.V a)) m h)
  | (k, .HM a) :: r, m, h => noPos_buildHM r _ (noPosMap_ainsert k _ (noPos_build (.HM a)) m h)
  | (k, .SET a) :: r, m, h => noPos_buildHM r _ (noPosMap_ainsert k _ (noPos_build (.SET a)) m h)
  | (k, .int a) :: r, m, h => noPos_buildHM r _ (noPosMap_ainsert k _ (noPos_build (.int a)) m h)
  | (k, .str a) :: r, m, h => noPos_buildHM r _ (noPosMap_ainsert k _ (noPos_build (.str a)) m h)
  | (k, .nil) :: r, m, h => noPos_buildHM r _ (noPosMap_ainsert k _ (noPos_build .nil) m h)
  | (k, .bool a) :: r, m, h => noPos_buildHM r _ (noPosMap_ainsert k _ (noPos_build (.bool a)) m h)
end

/-- **every node of `build t` has position `none`** -/
theorem build_has_no_positions (t : LTerm) : noPos (build t) = true := noPos_build t

/-! ### 2. `stripPos` -/

mutual
theorem stripPos_of_noPos : (v : Val) → noPos v = true → stripPos v = v
  | .nil, _ => rfl
  | .bool _, _ => rfl
  | .int _, _ => rfl
  | .str _, _ => rfl
  | .sym s p, h => by
    have : p = none := by simpa [noPos] using h
    subst this; rfl
  | .list xs p, h => by
    have h' : p = none ∧ noPosList xs = true := by simpa [noPos] using h
    obtain ⟨rfl, h2⟩ := h'
    simp [stripPos, stripList_of_noPos xs h2]
  | .vec xs p, h => by
    have h' : p = none ∧ noPosList xs = true := by simpa [noPos] using h
    obtain ⟨rfl, h2⟩ := h'
    simp [stripPos, stripList_of_noPos xs h2]
  | .map kvs, h => by
    have h' : noPosMap kvs = true := by simpa [noPos] using h
    simp [stripPos, stripMap_of_noPos kvs h']
  | .set _, _ => rfl
  | .fn p b e m c, h => by
    have h' : (c = none ∧ noPos p = true) ∧ noPos b = true := by simpa [noPos] using h
    obtain ⟨⟨rfl, h1⟩, h2⟩ := h'
    simp [stripPos, stripPos_of_noPos p h1, stripPos_of_noPos b h2]
  | .builtin _, _ => rfl
  | .atom _, _ => rfl
  | .future _, _ => rfl
  | .goerr _, _ => rfl
  | .opaque _, _ => rfl
theorem stripList_of_noPos : (xs : List Val) → noPosList xs = true → stripList xs = xs
  | [], _ => rfl
  | x :: r, h => by
    have h' : noPos x = true ∧ noPosList r = true := by simpa [noPosList] using h
    simp [stripList, stripPos_of_noPos x h'.1, stripList_of_noPos r h'.2]
theorem stripMap_of_noPos : (m : List (String × Val)) → noPosMap m = true → stripMap m = m
  | [], _ => rfl
  | (k, v) :: r, h => by
    have h' : noPos v = true ∧ noPosMap r = true := by simpa [noPosMap] using h
    simp [stripMap, stripPos_of_noPos v h'.1, stripMap_of_noPos r h'.2]
end

mutual
theorem noPos_stripPos : (v : Val) → noPos (stripPos v) = true
  | .nil => rfl
  | .bool _ => rfl
  | .int _ => rfl
  | .str _ => rfl
  | .sym _ _ => rfl
  | .list xs _ => by simp [stripPos, noPos, noPosList_stripList xs]
  | .vec xs _ => by simp [stripPos, noPos, noPosList_stripList xs]
  | .map kvs => by simp [stripPos, noPos, noPosMap_stripMap kvs]
  | .set _ => rfl
  | .fn p b _ _ _ => by simp [stripPos, noPos, noPos_stripPos p, noPos_stripPos b]
  | .builtin _ => rfl
  | .atom _ => rfl
  | .future _ => rfl
  | .goerr _ => rfl
  | .opaque _ => rfl
theorem noPosList_stripList : (xs : List Val) → noPosList (stripList xs) = true
  | [] => rfl
  | x :: r => by simp [stripList, noPosList, noPos_stripPos x, noPosList_stripList r]
theorem noPosMap_stripMap : (m : List (String × Val)) → noPosMap (stripMap m) = true
  | [] => rfl
  | (_, v) :: r => by simp [stripMap, noPosMap, noPos_stripPos v, noPosMap_stripMap r]
end

/-- erasing twice is erasing once -/
theorem stripPos_idempotent (v : Val) : stripPos (stripPos v) = stripPos v :=
  stripPos_of_noPos _ (noPos_stripPos v)

/-- there is nothing to erase in an L-notation value -/
theorem stripPos_build (t : LTerm) : stripPos (build t) = build t :=
  stripPos_of_noPos _ (build_has_no_positions t)

/-! ### 3. positions never take part in equality (`types.Equal_Q`) -/

theorem stripList_length : ∀ xs : List Val, (stripList xs).length = xs.length
  | [] => rfl
  | _ :: r => by simp [stripList, stripList_length r]

theorem stripMap_length : ∀ m : List (String × Val), (stripMap m).length = m.length
  | [] => rfl
  | (_, _) :: r => by simp [stripMap, stripMap_length r]

theorem alookup_stripMap (k : String) :
    ∀ m : List (String × Val), alookup k (stripMap m) = (alookup k m).map stripPos
  | [] => rfl
  | (k', v) :: r => by
    simp only [stripMap, alookup]
    split
    · rfl
    · exact alookup_stripMap k r

mutual
theorem equalQ_stripPos_right : (a b : Val) → equalQ a (stripPos b) = equalQ a b
  | .nil, b => by cases b <;> simp [equalQ, stripPos]
  | .bool _, b => by cases b <;> simp [equalQ, stripPos]
  | .int _, b => by cases b <;> simp [equalQ, stripPos]
  | .str _, b => by cases b <;> simp [equalQ, stripPos]
  | .sym _ _, b => by cases b <;> simp [equalQ, stripPos]
  | .list xs _, b => by cases b <;> simp [equalQ, stripPos, equalQList_strip_right xs]
  | .vec xs _, b => by cases b <;> simp [equalQ, stripPos, equalQList_strip_right xs]
  | .map m1, b => by cases b <;> simp [equalQ, stripPos, stripMap_length, equalQMap_strip_right m1]
  | .set _, b => by cases b <;> simp [equalQ, stripPos]
  | .fn .., b => by cases b <;> simp [equalQ]
  | .builtin _, b => by cases b <;> simp [equalQ]
  | .atom _, b => by cases b <;> simp [equalQ, stripPos]
  | .future _, b => by cases b <;> simp [equalQ, stripPos]
  | .goerr _, b => by cases b <;> simp [equalQ]
  | .opaque _, b => by cases b <;> simp [equalQ]
theorem equalQList_strip_right : (xs ys : List Val) → equalQList xs (stripList ys) = equalQList xs ys
  | [], ys => by cases ys <;> simp [equalQList, stripList]
  | x :: r, ys => by
    cases ys with
    | nil => simp [equalQList, stripList]
    | cons y ys => simp [equalQList, stripList, equalQ_stripPos_right x y, equalQList_strip_right r ys]
theorem equalQMap_strip_right : (m1 m2 : List (String × Val)) → equalQMap m1 (stripMap m2) = equalQMap m1 m2
  | [], _ => by simp [equalQMap]
  | (k, v) :: r, m2 => by
    simp only [equalQMap, alookup_stripMap]
    cases alookup k m2 with
    | none => simp
    | some w => simp [equalQ_stripPos_right v w, equalQMap_strip_right r m2]
end

mutual
theorem equalQ_stripPos_left : (a b : Val) → equalQ (stripPos a) b = equalQ a b
  | .nil, b => by cases b <;> simp [equalQ, stripPos]
  | .bool _, b => by cases b <;> simp [equalQ, stripPos]
  | .int _, b => by cases b <;> simp [equalQ, stripPos]
  | .str _, b => by cases b <;> simp [equalQ, stripPos]
  | .sym _ _, b => by cases b <;> simp [equalQ, stripPos]
  | .list xs _, b => by cases b <;> simp [equalQ, stripPos, equalQList_strip_left xs]
  | .vec xs _, b => by cases b <;> simp [equalQ, stripPos, equalQList_strip_left xs]
  | .map m1, b => by cases b <;> simp [equalQ, stripPos, stripMap_length, equalQMap_strip_left m1]
  | .set _, b => by cases b <;> simp [equalQ, stripPos]
  | .fn .., b => by cases b <;> simp [equalQ, stripPos]
  | .builtin _, b => by cases b <;> simp [equalQ, stripPos]
  | .atom _, b => by cases b <;> simp [equalQ, stripPos]
  | .future _, b => by cases b <;> simp [equalQ, stripPos]
  | .goerr _, b => by cases b <;> simp [equalQ, stripPos]
  | .opaque _, b => by cases b <;> simp [equalQ, stripPos]
theorem equalQList_strip_left : (xs ys : List Val) → equalQList (stripList xs) ys = equalQList xs ys
  | [], ys => by cases ys <;> simp [equalQList, stripList]
  | x :: r, ys => by
    cases ys with
    | nil => simp [equalQList, stripList]
    | cons y ys => simp [equalQList, stripList, equalQ_stripPos_left x y, equalQList_strip_left r ys]
theorem equalQMap_strip_left : (m1 m2 : List (String × Val)) → equalQMap (stripMap m1) m2 = equalQMap m1 m2
  | [], _ => by simp [equalQMap, stripMap]
  | (k, v) :: r, m2 => by
    simp only [equalQMap, stripMap]
    cases alookup k m2 with
    | none => simp
    | some w => simp [equalQ_stripPos_left v w, equalQMap_strip_left r m2]
end

/-- `Equal_Q` never looks at a cursor: erasing the cursors of either argument changes nothing -/
theorem equalQ_ignores_positions (a b : Val) :
    equalQ (stripPos a) b = equalQ a b ∧ equalQ a (stripPos b) = equalQ a b ∧
    equalQ (stripPos a) (stripPos b) = equalQ a b :=
  ⟨equalQ_stripPos_left a b, equalQ_stripPos_right a b,
    by rw [equalQ_stripPos_left, equalQ_stripPos_right]⟩

/-- a data value equals itself with its cursors erased -/
theorem equalQ_stripPos_self (v : Val) (hd : Data v) : equalQ (stripPos v) v = true := by
  rw [equalQ_stripPos_left]
  exact (Proofs.equalQ_iff_SEq v v hd hd).mpr (Proofs.SEq_refl v hd)

/-! ### 4. `HM`: which nested Go maps are converted -/

/-- one step of the loop of `HM` -/
theorem buildHM_cons (k : String) (t : LTerm) (r : List (String × LTerm)) (m : List (String × Val)) :
    buildHM ((k, t) :: r) m = buildHM r (ainsert k (buildEntry t) m) := by
  cases t <;> simp [buildHM, buildEntry]

/-- wrap a bare Go map into `HM(…)` by hand (one level) -/
def convertRaw : LTerm → LTerm
  | .rawMap es => .HM es
  | t => t

theorem buildEntry_convertRaw (t : LTerm) : buildEntry (convertRaw t) = buildEntry t := by
  cases t <;> simp [convertRaw, buildEntry, build]

theorem buildHM_convertRaw : ∀ (es : List (String × LTerm)) (m : List (String × Val)),
    buildHM (es.map (fun e => (e.1, convertRaw e.2))) m = buildHM es m
  | [], _ => rfl
  | (k, t) :: r, m => by
    rw [List.map_cons, buildHM_cons, buildHM_cons, buildEntry_convertRaw, buildHM_convertRaw r]

/-- **a `map[string]interface{}` that is directly an entry value is converted by `HM` itself**: writing
    `HM(…)` around such entries by hand makes no difference — at every depth, since the conversion
    recurses -/
theorem HM_nested_maps_converted (es : List (String × LTerm)) :
    build (.HM (es.map (fun e => (e.1, convertRaw e.2)))) = build (.HM es) := by
  simp only [build, buildHM_convertRaw]

/-- the entry value itself: a bare map becomes the `HashMap` of its (recursively converted) entries -/
theorem HM_entry_rawMap (k : String) (es : List (String × LTerm)) :
    build (.HM [(k, .rawMap es)]) = .map [(k, .map (buildHM es []))] := by
  simp [build, buildHM, ainsert]

/-- two levels, concretely: `HM({"a": {"b": {"c": 1}}})` is `{"a" {"b" {"c" 1}}}` -/
theorem HM_nested_example :
    build (.HM [("a", .rawMap [("b", .rawMap [("c", .int 1)])])]) =
      .map [("a", .map [("b", .map [("c", .int 1)])])] := by
  simp [build, buildHM, ainsert]

/-- **… but NOT a map nested inside a slice**: `V([]interface{}{map[string]interface{}{}})` is a vector
    whose element is still the raw Go map (no lisp value), unlike `V([]…{HM(…)})` -/
theorem V_keeps_raw_map :
    build (.V [.rawMap []]) = .vec [.opaque rawMapTag] none ∧
    build (.V [.HM []]) = .vec [.map []] none ∧
    build (.V [.rawMap []]) ≠ build (.V [.HM []]) := by
  refine ⟨by simp [build, buildList], by simp [build, buildList, buildHM], ?_⟩
  simp [build, buildList, buildHM]

/-- the same inside `HM`: an entry value that is a vector / list holding a bare map keeps it raw -/
theorem HM_keeps_raw_map_inside_slices :
    build (.HM [("k", .V [.rawMap [("a", .int 1)]])]) = .map [("k", .vec [.opaque rawMapTag] none)] ∧
    build (.HM [("k", .L [.rawMap [("a", .int 1)]])]) = .map [("k", .list [.opaque rawMapTag] none)] := by
  constructor <;> simp [build, buildList, buildHM, ainsert]

/-- such a value is outside the data domain (the printer writes the Go type name), while the text
    route reads a map: the two deliveries differ — by kernel evaluation -/
theorem raw_map_in_slice_deliveries_differ :
    sameB {} (.V [.rawMap []]) = false ∧ sameB {} (.V [.HM []]) = true := by decide +kernel

/-! ### 5. `exactB` decides equality (used by the kernel-evaluated examples) -/

mutual
theorem exactB_sound : (a b : Val) → exactB a b = true → a = b
  | .nil, b, h => by cases b <;> simp_all [exactB]
  | .bool _, b, h => by cases b <;> simp_all [exactB]
  | .int _, b, h => by cases b <;> simp_all [exactB]
  | .str _, b, h => by cases b <;> simp_all [exactB]
  | .sym _ _, b, h => by cases b <;> simp_all [exactB]
  | .list xs p, b, h => by
    cases b with
    | list ys q =>
      have h' : p = q ∧ exactBList xs ys = true := by simpa [exactB] using h
      rw [h'.1, exactBList_sound xs ys h'.2]
    | _ => simp [exactB] at h
  | .vec xs p, b, h => by
    cases b with
    | vec ys q =>
      have h' : p = q ∧ exactBList xs ys = true := by simpa [exactB] using h
      rw [h'.1, exactBList_sound xs ys h'.2]
    | _ => simp [exactB] at h
  | .map m1, b, h => by
    cases b with
    | map m2 => rw [exactBMap_sound m1 m2 (by simpa [exactB] using h)]
    | _ => simp [exactB] at h
  | .set _, b, h => by cases b <;> simp_all [exactB]
  | .fn p1 b1 e1 m1 c1, b, h => by
    cases b with
    | fn p2 b2 e2 m2 c2 =>
      have h' : (((exactB p1 p2 = true ∧ exactB b1 b2 = true) ∧ e1 = e2) ∧ m1 = m2) ∧ c1 = c2 := by
        simpa [exactB] using h
      obtain ⟨⟨⟨⟨h1, h2⟩, rfl⟩, rfl⟩, rfl⟩ := h'
      rw [exactB_sound p1 p2 h1, exactB_sound b1 b2 h2]
    | _ => simp [exactB] at h
  | .builtin _, b, h => by cases b <;> simp_all [exactB]
  | .atom _, b, h => by cases b <;> simp_all [exactB]
  | .future _, b, h => by cases b <;> simp_all [exactB]
  | .goerr _, b, h => by cases b <;> simp_all [exactB]
  | .opaque _, b, h => by cases b <;> simp_all [exactB]
theorem exactBList_sound : (xs ys : List Val) → exactBList xs ys = true → xs = ys
  | [], ys, h => by cases ys <;> simp_all [exactBList]
  | x :: r, ys, h => by
    cases ys with
    | nil => simp [exactBList] at h
    | cons y ys =>
      have h' : exactB x y = true ∧ exactBList r ys = true := by simpa [exactBList] using h
      rw [exactB_sound x y h'.1, exactBList_sound r ys h'.2]
theorem exactBMap_sound : (m1 m2 : List (String × Val)) → exactBMap m1 m2 = true → m1 = m2
  | [], m2, h => by cases m2 <;> simp_all [exactBMap]
  | (k, v) :: r, m2, h => by
    cases m2 with
    | nil => simp [exactBMap] at h
    | cons kv m2 =>
      obtain ⟨k', v'⟩ := kv
      have h' : (k = k' ∧ exactB v v' = true) ∧ exactBMap r m2 = true := by simpa [exactBMap] using h
      rw [h'.1.1, exactB_sound v v' h'.1.2, exactBMap_sound r m2 h'.2]
end

/-- what `sameB` computes: the text route succeeds with the L-notation value, cursors aside -/
theorem sameB_sound {cfg : Read.Cfg} {t : LTerm} (h : sameB cfg t = true) :
    ∃ v, readText cfg t = .ok v ∧ stripPos v = build t := by
  unfold sameB at h
  cases hr : readText cfg t with
  | error e => rw [hr] at h; cases h
  | ok v => rw [hr] at h; exact ⟨v, rfl, exactB_sound _ _ h⟩

/-! ### 6. the reader on printed text, exactly (the C06 round trip sharpened from `structEqB` — which
    identifies lists with vectors and looks maps up by key — to equality after erasing the cursors:
    same constructors, same entries in the same order) -/

section ReadExact
open LispModel.Scan LispModel.Read LispModel.Print LispModel.Proofs.PrintRead

theorem akeys_stripMap : ∀ m : List (String × Val), akeys (stripMap m) = akeys m
  | [] => rfl
  | (k, v) :: r => by
    have := akeys_stripMap r
    simp only [akeys] at this ⊢
    simp [stripMap, this]

mutual
theorem read_val_exact (cfg : Cfg) (hphs : cfg.phs = none) : (v : Val) → readableData v = true → Data v →
    ∀ ts : List Token, ts.map ktOf = toksOf v → ∃ v', Reads cfg ts v' ∧ FirstOk ts ∧ stripPos v' = stripPos v
  | .nil, _, _, ts, h => by
    obtain ⟨t, rfl, ht⟩ := List.map_eq_singleton_iff.mp h
    obtain ⟨a, b⟩ := reads_nil cfg hphs t ht
    exact ⟨.nil, a, b, rfl⟩
  | .bool true, _, _, ts, h => by
    obtain ⟨t, rfl, ht⟩ := List.map_eq_singleton_iff.mp h
    obtain ⟨a, b⟩ := reads_true cfg hphs t ht
    exact ⟨.bool true, a, b, rfl⟩
  | .bool false, _, _, ts, h => by
    obtain ⟨t, rfl, ht⟩ := List.map_eq_singleton_iff.mp h
    obtain ⟨a, b⟩ := reads_false cfg hphs t ht
    exact ⟨.bool false, a, b, rfl⟩
  | .int i, hr, _, ts, h => by
    obtain ⟨t, rfl, ht⟩ := List.map_eq_singleton_iff.mp h
    have hi : -9223372036854775808 ≤ i ∧ i ≤ 9223372036854775807 := of_decide_eq_true hr
    obtain ⟨a, b⟩ := reads_int cfg hphs i hi t ht
    exact ⟨.int i, a, b, rfl⟩
  | .str s, hr, _, ts, h => by
    obtain ⟨t, rfl, ht⟩ := List.map_eq_singleton_iff.mp h
    obtain ⟨a, b⟩ := reads_readableStr cfg hphs s hr t ht
    exact ⟨.str s, a, b, rfl⟩
  | .sym s _, hr, _, ts, h => by
    obtain ⟨t, rfl, ht⟩ := List.map_eq_singleton_iff.mp h
    obtain ⟨pos, a, b⟩ := reads_sym cfg hphs s hr t ht
    exact ⟨.sym s pos, a, b, rfl⟩
  | .list xs _, hr, hd, ts, h => by
    have hd' : ∀ x ∈ xs, Data x := by cases hd; assumption
    obtain ⟨tO, tsB, tC, rfl, hO, hB, hC⟩ := split_bracketed (a := (.char 40, [40])) (b := (.char 41, [41])) h
    have sO : tokStr tO = "(" := tokStr_char '(' hO
    have sC : tokStr tC = ")" := tokStr_char ')' hC
    obtain ⟨vs, hseq, heq⟩ := read_list_exact cfg hphs xs hr hd' ")" (Or.inl rfl) tsB hB
    exact ⟨_, reads_open (shape_paren sO) sC hseq rfl,
      firstOk_open sO (by decide) (by decide) (by decide), by simp only [stripPos, heq]⟩
  | .vec xs _, hr, hd, ts, h => by
    have hd' : ∀ x ∈ xs, Data x := by cases hd; assumption
    obtain ⟨tO, tsB, tC, rfl, hO, hB, hC⟩ := split_bracketed (a := (.char 91, [91])) (b := (.char 93, [93])) h
    have sO : tokStr tO = "[" := tokStr_char '[' hO
    have sC : tokStr tC = "]" := tokStr_char ']' hC
    obtain ⟨vs, hseq, heq⟩ := read_list_exact cfg hphs xs hr hd' "]" (Or.inr (Or.inl rfl)) tsB hB
    exact ⟨_, reads_open (shape_brack sO) sC hseq rfl,
      firstOk_open sO (by decide) (by decide) (by decide), by simp only [stripPos, heq]⟩
  | .map kvs, hr, hd, ts, h => by
    have hd' : (akeys kvs).Nodup ∧ ∀ kv ∈ kvs, Data kv.2 := by cases hd; exact ⟨by assumption, by assumption⟩
    obtain ⟨tO, tsB, tC, rfl, hO, hB, hC⟩ := split_bracketed (a := (.char 123, [123])) (b := (.char 125, [125])) h
    have sO : tokStr tO = "{" := tokStr_char '{' hO
    have sC : tokStr tC = "}" := tokStr_char '}' hC
    obtain ⟨kvs', hseq, hrel⟩ := read_map_exact cfg hphs kvs hr hd'.2 tsB hB
    have hnd' : (akeys kvs').Nodup := by
      rw [← akeys_stripMap kvs', hrel, akeys_stripMap]; exact hd'.1
    refine ⟨.map kvs', reads_open (shape_brace sO) sC hseq ?_,
      firstOk_open sO (by decide) (by decide) (by decide), by simp only [stripPos, hrel]⟩
    simp only [newHashMap_fresh kvs' hnd']
  | .set ks, hr, hd, ts, h => by
    have hd' : ks.Nodup := by cases hd; assumption
    obtain ⟨tO, tsB, tC, rfl, hO, hB, hC⟩ := split_bracketed (a := (.ident, [35, 123])) (b := (.char 125, [125])) h
    have sO : tokStr tO = "#{" := tokStr_of_text (l := ['#', '{']) (ktOf_eq hO).2
    have sC : tokStr tC = "}" := tokStr_char '}' hC
    have hseq := read_setKeys cfg hphs ks hr tsB hB
    refine ⟨.set ks, reads_open (shape_hashbrace sO) sC hseq ?_,
      firstOk_open sO (by decide) (by decide) (by decide), rfl⟩
    simp only [newSet_fresh ks [] hd' (by simp), List.nil_append]
  | .fn .., h, _, _, _ => by cases h
  | .builtin _, h, _, _, _ => by cases h
  | .atom _, h, _, _, _ => by cases h
  | .future _, h, _, _, _ => by cases h
  | .goerr _, h, _, _, _ => by cases h
  | .opaque _, h, _, _, _ => by cases h
theorem read_list_exact (cfg : Cfg) (hphs : cfg.phs = none) : (xs : List Val) → readableList xs = true →
    (∀ x ∈ xs, Data x) → ∀ closer, IsCloserStr closer → ∀ ts : List Token, ts.map ktOf = toksList xs →
    ∃ vs, ReadsSeq cfg closer ts vs ∧ stripList vs = stripList xs
  | [], _, _, closer, _, ts, h => by
    have : ts = [] := List.map_eq_nil_iff.mp h
    subst this
    exact ⟨[], readsSeq_nil cfg closer, rfl⟩
  | x :: xs, hr, hd, closer, hcl, ts, h => by
    have hr' : readableData x = true ∧ readableList xs = true := by
      have : (readableData x && readableList xs) = true := hr
      simpa using this
    have h' : ts.map ktOf = toksOf x ++ toksList xs := h
    obtain ⟨ts1, ts2, rfl, h1, h2⟩ := List.map_eq_append_iff.mp h'
    obtain ⟨v', hrd, hf, he⟩ := read_val_exact cfg hphs x hr'.1 (hd x (List.mem_cons_self ..)) ts1 h1
    obtain ⟨vs, hseq, hes⟩ := read_list_exact cfg hphs xs hr'.2 (fun y hy => hd y (List.mem_cons_of_mem _ hy))
      closer hcl ts2 h2
    exact ⟨v' :: vs, readsSeq_cons hcl hrd hf hseq, by simp only [stripList, he, hes]⟩
theorem read_map_exact (cfg : Cfg) (hphs : cfg.phs = none) : (kvs : List (String × Val)) → readableMap kvs = true →
    (∀ kv ∈ kvs, Data kv.2) → ∀ ts : List Token, ts.map ktOf = toksMap kvs →
    ∃ kvs', ReadsSeq cfg "}" ts (kvVals kvs') ∧ stripMap kvs' = stripMap kvs
  | [], _, _, ts, h => by
    have : ts = [] := List.map_eq_nil_iff.mp h
    subst this
    exact ⟨[], readsSeq_nil cfg "}", rfl⟩
  | (k, v) :: kvs, hr, hd, ts, h => by
    have hr' : (readableStr k = true ∧ readableData v = true) ∧ readableMap kvs = true := by
      have : (readableStr k && readableData v && readableMap kvs) = true := hr
      simpa using this
    have h' : ts.map ktOf = strTok k :: (toksOf v ++ toksMap kvs) := h
    obtain ⟨tk, r, rfl, hk, h2⟩ := List.map_eq_cons_iff.mp h'
    obtain ⟨ts1, ts2, rfl, h3, h4⟩ := List.map_eq_append_iff.mp h2
    obtain ⟨hrk, hfk⟩ := reads_readableStr cfg hphs k hr'.1.1 tk hk
    obtain ⟨v', hrd, hf, he⟩ := read_val_exact cfg hphs v hr'.1.2 (hd (k, v) (List.mem_cons_self ..)) ts1 h3
    obtain ⟨kvs', hseq, hrel⟩ := read_map_exact cfg hphs kvs hr'.2 (fun kv hkv => hd kv (List.mem_cons_of_mem _ hkv))
      ts2 h4
    refine ⟨(k, v') :: kvs', ?_, by simp only [stripMap, he, hrel]⟩
    have e : kvVals ((k, v') :: kvs') = .str k :: v' :: kvVals kvs' := by simp [kvVals]
    rw [e]
    have := readsSeq_cons (Or.inr (Or.inr rfl)) hrk hfk (readsSeq_cons (Or.inr (Or.inr rfl)) hrd hf hseq)
    simpa using this
end

end ReadExact

section EndToEnd
open LispModel.Scan LispModel.Read LispModel.Print LispModel.Proofs.PrintRead

/-- rune level: the tokens of the printed text are read back as the same value, cursors aside -/
theorem print_then_read_exact_runes (cfg : Cfg) (hphs : cfg.phs = none) (v : Val) (h : readableData v = true)
    (hd : Data v) :
    ∃ ts v', tokenizeRunes (runesOf (print v)) = .ok ts ∧ ts ≠ [] ∧
      readForm (2 * ts.length + 2) cfg ts = .ok (v', []) ∧ stripPos v' = stripPos v := by
  obtain ⟨ts, hts, hmap⟩ := tokenize_print v h
  obtain ⟨v', ⟨f, hf⟩, ⟨t, r, hne, _⟩, heq⟩ := read_val_exact cfg hphs v h hd ts hmap
  have := hf []
  rw [List.append_nil] at this
  exact ⟨ts, v', hts, by rw [hne]; simp, readForm_fuel this, heq⟩

/-- byte level, for every reader configuration without a placeholder table (any module name, with or
    without an environment): **`Read_str` of the printed text of a readable data value returns that
    value, cursors aside — constructor for constructor, entry for entry** -/
theorem print_then_read_exact (cfg : Cfg) (hphs : cfg.phs = none) (v : Val) (h : readableData v = true)
    (hd : Data v) :
    ∃ v', readStr cfg (LNot.utf8 (print v)) = .ok v' ∧ stripPos v' = stripPos v := by
  let cfg' : Cfg := if cfg.module.isNone then { cfg with module := modulePrefix (LNot.utf8 (print v)) } else cfg
  have hphs' : cfg'.phs = none := by
    show (if cfg.module.isNone then { cfg with module := modulePrefix (LNot.utf8 (print v)) } else cfg).phs = none
    split <;> exact hphs
  obtain ⟨ts, v', hts, hne, hrf, heq⟩ := print_then_read_exact_runes cfg' hphs' v h hd
  refine ⟨v', ?_, heq⟩
  unfold readStr
  have ht : tokenize (LNot.utf8 (print v)) = .ok ts := by
    show tokenizeRunes (decodeAll (PrintRead.utf8 (print v))) = _
    rw [decodeAll_utf8]; exact hts
  simp only [ht]
  cases ts with
  | nil => exact absurd rfl hne
  | cons t0 r =>
    show (match readForm (2 * (t0 :: r).length + 2) cfg' (t0 :: r) with
      | .error e => .error e
      | .ok (v, []) => .ok v
      | .ok (_, _ :: _) => .error .trailing : Except RErr Val) = .ok v'
    rw [hrf]

end EndToEnd

/-! ### 7. well-formed terms: the written text is the printed text of the built value -/

theorem nodupB_sound : ∀ l : List String, nodupB l = true → l.Nodup
  | [], _ => List.nodup_nil
  | k :: r, h => by
    have h' : k ∉ r ∧ nodupB r = true := by simpa [nodupB] using h
    exact List.nodup_cons.mpr ⟨h'.1, nodupB_sound r h'.2⟩

/-- the entries `HM` produces when no key repeats: one per entry of the Go map, in order -/
def entriesOf : List (String × LTerm) → List (String × Val)
  | [] => []
  | (k, t) :: r => (k, buildEntry t) :: entriesOf r

theorem akeys_entriesOf : ∀ es : List (String × LTerm), akeys (entriesOf es) = keysOf es
  | [] => rfl
  | (k, t) :: r => by
    have := akeys_entriesOf r
    simp only [akeys] at this ⊢
    simp [entriesOf, keysOf, this]

theorem buildHM_fresh : ∀ (es : List (String × LTerm)) (m : List (String × Val)), (keysOf es).Nodup →
    (∀ k ∈ keysOf es, k ∉ akeys m) → buildHM es m = m ++ entriesOf es
  | [], m, _, _ => by simp [buildHM, entriesOf]
  | (k, t) :: r, m, hnd, hdis => by
    simp only [keysOf, List.nodup_cons] at hnd
    have hk : k ∉ akeys m := hdis k (by simp [keysOf])
    rw [buildHM_cons, PrintRead.ainsert_fresh k _ m hk, buildHM_fresh r _ hnd.2]
    · simp [entriesOf]
    · intro k' hk' hin
      simp only [akeys, List.map_append, List.map_cons, List.map_nil, List.mem_append, List.mem_singleton] at hin
      rcases hin with hin | hin
      · exact hdis k' (by simp only [keysOf, List.mem_cons]; exact Or.inr hk') hin
      · subst hin; exact hnd.1 hk'

theorem buildHM_nodup (es : List (String × LTerm)) (h : nodupB (keysOf es) = true) :
    buildHM es [] = entriesOf es := by
  rw [buildHM_fresh es [] (nodupB_sound _ h) (by simp [akeys])]; rfl

theorem foldl_sinsert_fresh : ∀ (ms s : List String), ms.Nodup → (∀ k ∈ ms, k ∉ s) →
    ms.foldl (fun s k => sinsert k s) s = s ++ ms
  | [], s, _, _ => by simp
  | k :: r, s, hnd, hdis => by
    have hnd' := List.nodup_cons.mp hnd
    have hk : k ∉ s := hdis k (by simp)
    have e : sinsert k s = s ++ [k] := by simp [sinsert, hk]
    rw [List.foldl_cons, e, foldl_sinsert_fresh r _ hnd'.2]
    · simp
    · intro k' hk' hin
      rcases List.mem_append.mp hin with hin | hin
      · exact hdis k' (List.mem_cons_of_mem _ hk') hin
      · have : k' = k := by simpa using hin
        subst this; exact hnd'.1 hk'

/-- text `text` is the printed form of the readable data value `v` -/
def PVal (text : List Char) (v : Val) : Prop :=
  text = Print.prStr true v ∧ readableData v = true ∧ Data v

def PList (ts : List LTerm) : Prop :=
  textList ts = Print.prList true (buildList ts) ∧ readableList (buildList ts) = true ∧
    ∀ x ∈ buildList ts, Data x

def PMap (es : List (String × LTerm)) : Prop :=
  textMap es = Print.prMap true (entriesOf es) ∧ readableMap (entriesOf es) = true ∧
    ∀ kv ∈ entriesOf es, Data kv.2

def wfEntry : LTerm → Bool
  | .rawMap es => nodupB (keysOf es) && wfMap es
  | t => wf t

theorem wfMap_cons (k : String) (t : LTerm) (r : List (String × LTerm)) :
    wfMap ((k, t) :: r) = (readableStr k && wfEntry t && wfMap r) := by
  cases t <;> simp [wfMap, wfEntry]

theorem pmap_cons {k : String} {t : LTerm} {r : List (String × LTerm)} (hk : readableStr k = true)
    (ht : PVal (toText t) (buildEntry t)) (hr : PMap r) : PMap ((k, t) :: r) := by
  refine ⟨?_, ?_, ?_⟩
  · simp only [textMap, entriesOf, Print.prMap, ht.1, hr.1]
  · simp only [entriesOf, readableMap, hk, ht.2.1, hr.2.1, Bool.and_self]
  · intro kv hkv
    simp only [entriesOf, List.mem_cons] at hkv
    rcases hkv with rfl | h
    · exact ht.2.2
    · exact hr.2.2 kv h

theorem pval_map {es : List (String × LTerm)} (hnd : nodupB (keysOf es) = true) (h : PMap es) :
    PVal ('{' :: Print.intercalate [' '] (textMap es) ++ ['}']) (.map (entriesOf es)) := by
  obtain ⟨h1, h2, h3⟩ := h
  refine ⟨?_, ?_, ?_⟩
  · show _ = '{' :: Print.intercalate [' '] (Print.prMap true (entriesOf es)) ++ ['}']
    rw [h1]
  · exact h2
  · exact Data.map (by rw [akeys_entriesOf]; exact nodupB_sound _ hnd) h3

theorem pmap_plain {k : String} {t : LTerm} {r : List (String × LTerm)} (hnr : ∀ es, t ≠ .rawMap es)
    (h : wfMap ((k, t) :: r) = true) (iht : wf t = true → PVal (toText t) (build t))
    (ihr : wfMap r = true → PMap r) : PMap ((k, t) :: r) := by
  have e1 : wfEntry t = wf t := by
    cases t <;> first | rfl | exact absurd rfl (hnr _)
  have e2 : buildEntry t = build t := by
    cases t <;> first | rfl | exact absurd rfl (hnr _)
  rw [wfMap_cons, e1] at h
  have h' : (readableStr k = true ∧ wf t = true) ∧ wfMap r = true := by simpa using h
  exact pmap_cons h'.1.1 (e2 ▸ iht h'.1.2) (ihr h'.2)
theorem plist_nil : PList [] := ⟨rfl, rfl, by intro x h; cases h⟩

theorem plist_cons {t : LTerm} {r : List LTerm} (ht : PVal (toText t) (build t)) (hr : PList r) :
    PList (t :: r) := by
  obtain ⟨a1, a2, a3⟩ := ht
  obtain ⟨b1, b2, b3⟩ := hr
  refine ⟨?_, ?_, ?_⟩
  · show toText t :: textList r = Print.prStr true (build t) :: Print.prList true (buildList r)
    rw [← a1, ← b1]
  · show (readableData (build t) && readableList (buildList r)) = true
    rw [a2, b2]; rfl
  · intro x hx
    have hx' : x ∈ build t :: buildList r := hx
    rcases List.mem_cons.mp hx' with rfl | h
    · exact a3
    · exact b3 x h

theorem pval_list {ts : List LTerm} (h : PList ts) :
    PVal ('(' :: Print.intercalate [' '] (textList ts) ++ [')']) (.list (buildList ts) none) := by
  obtain ⟨h1, h2, h3⟩ := h
  refine ⟨?_, h2, Data.list h3⟩
  show _ = '(' :: Print.intercalate [' '] (Print.prList true (buildList ts)) ++ [')']
  rw [h1]

theorem pval_vec {ts : List LTerm} (h : PList ts) :
    PVal ('[' :: Print.intercalate [' '] (textList ts) ++ [']']) (.vec (buildList ts) none) := by
  obtain ⟨h1, h2, h3⟩ := h
  refine ⟨?_, h2, Data.vec h3⟩
  show _ = '[' :: Print.intercalate [' '] (Print.prList true (buildList ts)) ++ [']']
  rw [h1]

theorem pval_ls {n : String} {ts : List LTerm} (hn : readableSym n = true) (h : PList ts) :
    PVal ('(' :: Print.intercalate [' '] (n.toList :: textList ts) ++ [')'])
      (.list (.sym n none :: buildList ts) none) := by
  obtain ⟨h1, h2, h3⟩ := h
  refine ⟨?_, ?_, Data.list ?_⟩
  · show _ = '(' :: Print.intercalate [' '] (n.toList :: Print.prList true (buildList ts)) ++ [')']
    rw [h1]
  · show (readableSym n && readableList (buildList ts)) = true
    rw [hn, h2]; rfl
  · intro x hx
    rcases List.mem_cons.mp hx with rfl | h
    · exact Data.sym _ _
    · exact h3 x h

theorem pval_set {ms : List String} (hnd : nodupB ms = true) (hr : ms.all readableStr = true) :
    PVal ('#' :: '{' :: Print.intercalate [' '] (ms.map (Print.prString true)) ++ ['}'])
      (.set (ms.foldl (fun s k => sinsert k s) [])) := by
  have e : ms.foldl (fun s k => sinsert k s) [] = ms := by
    rw [foldl_sinsert_fresh ms [] (nodupB_sound _ hnd) (by simp)]; rfl
  rw [e]
  exact ⟨rfl, hr, Data.set (nodupB_sound _ hnd)⟩
mutual
theorem wf_build : (t : LTerm) → wf t = true → PVal (toText t) (build t)
  | .S n, h => ⟨rfl, h, Data.sym _ _⟩
  | .L args, h => pval_list (wf_buildList args h)
  | .LS n args, h => by
    have h' : readableSym n = true ∧ wfList args = true := by
      have : (readableSym n && wfList args) = true := h
      simpa using this
    exact pval_ls h'.1 (wf_buildList args h'.2)
  | .V args, h => pval_vec (wf_buildList args h)
  | .HM es, h => by
    have h' : nodupB (keysOf es) = true ∧ wfMap es = true := by
      have : (nodupB (keysOf es) && wfMap es) = true := h
      simpa using this
    have := pval_map h'.1 (wf_buildMap es h'.2)
    rw [← buildHM_nodup es h'.1] at this
    exact this
  | .rawMap _, h => by cases h
  | .SET ms, h => by
    have h' : nodupB ms = true ∧ ms.all readableStr = true := by
      have : (nodupB ms && ms.all readableStr) = true := h
      simpa using this
    exact pval_set h'.1 h'.2
  | .int i, h => ⟨rfl, h, Data.int i⟩
  | .str s, h => ⟨rfl, h, Data.str s⟩
  | .nil, _ => ⟨rfl, rfl, Data.nil⟩
  | .bool true, _ => ⟨rfl, rfl, Data.bool _⟩
  | .bool false, _ => ⟨rfl, rfl, Data.bool _⟩
theorem wf_buildList : (ts : List LTerm) → wfList ts = true → PList ts
  | [], _ => plist_nil
  | t :: r, h => by
    have h' : wf t = true ∧ wfList r = true := by
      have : (wf t && wfList r) = true := h
      simpa using this
    exact plist_cons (wf_build t h'.1) (wf_buildList r h'.2)
theorem wf_buildMap : (es : List (String × LTerm)) → wfMap es = true → PMap es
  | [], _ => ⟨rfl, rfl, by intro kv h; cases h⟩
  | (k, .rawMap es') :: r, h => by
    have h' : (readableStr k = true ∧ (nodupB (keysOf es') = true ∧ wfMap es' = true)) ∧ wfMap r = true := by
      have : (readableStr k && (nodupB (keysOf es') && wfMap es') && wfMap r) = true := h
      simpa using this
    have hv := pval_map h'.1.2.1 (wf_buildMap es' h'.1.2.2)
    rw [← buildHM_nodup es' h'.1.2.1] at hv
    exact pmap_cons h'.1.1 hv (wf_buildMap r h'.2)
  | (k, .S n) :: r, h => pmap_plain (by intro es e; cases e) h (wf_build (.S n)) (wf_buildMap r)
  | (k, .L a) :: r, h => pmap_plain (by intro es e; cases e) h (wf_build (.L a)) (wf_buildMap r)
  | (k, .LS n a) :: r, h => pmap_plain (by intro es e; cases e) h (wf_build (.LS n a)) (wf_buildMap r)
  | (k, .V a) :: r, h => pmap_plain (by intro es e; cases e) h (wf_build (.V a)) (wf_buildMap r)
  | (k, .HM a) :: r, h => pmap_plain (by intro es e; cases e) h (wf_build (.HM a)) (wf_buildMap r)
  | (k, .SET a) :: r, h => pmap_plain (by intro es e; cases e) h (wf_build (.SET a)) (wf_buildMap r)
  | (k, .int a) :: r, h => pmap_plain (by intro es e; cases e) h (wf_build (.int a)) (wf_buildMap r)
  | (k, .str a) :: r, h => pmap_plain (by intro es e; cases e) h (wf_build (.str a)) (wf_buildMap r)
  | (k, .nil) :: r, h => pmap_plain (by intro es e; cases e) h (wf_build .nil) (wf_buildMap r)
  | (k, .bool a) :: r, h => pmap_plain (by intro es e; cases e) h (wf_build (.bool a)) (wf_buildMap r)
end

/-- **the text written for a well-formed term is exactly what PRINT gives for the value L-notation
    builds** (so delivering the text is delivering `PRINT (build t)`) -/
theorem toText_eq_print (t : LTerm) (h : wf t = true) : toText t = Print.print (build t) :=
  (wf_build t h).1

/-- a well-formed term builds a readable data value … -/
theorem build_readable (t : LTerm) (h : wf t = true) : readableData (build t) = true := (wf_build t h).2.1

/-- … with pairwise different keys -/
theorem build_data (t : LTerm) (h : wf t = true) : Data (build t) := (wf_build t h).2.2
/-! ### 8. C19 for the L-notation route: text delivery and L-notation delivery give the same AST -/

/-- **for every well-formed term, `Read_str` of the term written as source text succeeds and returns —
    cursors aside — exactly the value L-notation builds**, whatever the module name and with or
    without an environment (no placeholder table) -/
theorem read_text_eq_build (cfg : Read.Cfg) (hphs : cfg.phs = none) (t : LTerm) (h : wf t = true) :
    ∃ v, readText cfg t = .ok v ∧ stripPos v = build t := by
  obtain ⟨v, hv, he⟩ := print_then_read_exact cfg hphs (build t) (build_readable t h) (build_data t h)
  refine ⟨v, ?_, by rw [he, stripPos_build]⟩
  unfold readText
  rw [toText_eq_print t h]
  exact hv

/-- the same in the form "whatever the reader returns" -/
theorem read_text_eq_build' (cfg : Read.Cfg) (hphs : cfg.phs = none) (t : LTerm) (h : wf t = true) (v : Val)
    (hv : Read.readStr cfg (utf8 (toText t)) = .ok v) : stripPos v = build t := by
  obtain ⟨v', hv', he⟩ := read_text_eq_build cfg hphs t h
  have : readText cfg t = .ok v := hv
  rw [this] at hv'
  cases hv'
  exact he

/-- `Equal_Q` (the `=` of the language) cannot tell the two deliveries apart, in either order -/
theorem deliveries_equalQ (cfg : Read.Cfg) (hphs : cfg.phs = none) (t : LTerm) (h : wf t = true) :
    ∃ v, readText cfg t = .ok v ∧ equalQ (build t) v = true ∧ equalQ v (build t) = true := by
  obtain ⟨v, hv, he⟩ := read_text_eq_build cfg hphs t h
  have hd := build_data t h
  have hrefl : equalQ (build t) (build t) = true :=
    (Proofs.equalQ_iff_SEq _ _ hd hd).mpr (Proofs.SEq_refl _ hd)
  refine ⟨v, hv, ?_, ?_⟩
  · rw [← equalQ_stripPos_right, he]; exact hrefl
  · rw [← equalQ_stripPos_left, he]; exact hrefl

theorem entriesOf_eq_map (es : List (String × LTerm)) :
    entriesOf es = es.map (fun e => (e.1, buildEntry e.2)) := by
  induction es with
  | nil => rfl
  | cons e r ih => obtain ⟨k, t⟩ := e; simp [entriesOf, ih]

/-- "up to entry order": Go iterates its maps in an arbitrary order, so a text written from the Go map
    lists the entries in some permutation `es'`; what the reader returns is still equal (`Equal_Q`) to
    what `HM` builds -/
theorem read_text_any_entry_order (cfg : Read.Cfg) (hphs : cfg.phs = none) (es es' : List (String × LTerm))
    (hp : es.Perm es') (h : wf (.HM es) = true) (h' : wf (.HM es') = true) :
    ∃ v, readText cfg (.HM es') = .ok v ∧ equalQ (build (.HM es)) v = true := by
  obtain ⟨v, hv, he⟩ := read_text_eq_build cfg hphs (.HM es') h'
  refine ⟨v, hv, ?_⟩
  have hn : nodupB (keysOf es) = true ∧ wfMap es = true := by
    have : (nodupB (keysOf es) && wfMap es) = true := h
    simpa using this
  have hn' : nodupB (keysOf es') = true ∧ wfMap es' = true := by
    have : (nodupB (keysOf es') && wfMap es') = true := h'
    simpa using this
  have e1 : build (.HM es) = .map (entriesOf es) := by
    show Val.map (buildHM es []) = _
    rw [buildHM_nodup es hn.1]
  have e2 : build (.HM es') = .map (entriesOf es') := by
    show Val.map (buildHM es' []) = _
    rw [buildHM_nodup es' hn'.1]
  rw [← equalQ_stripPos_right, he, e1, e2]
  have hd : Data (.map (entriesOf es)) := e1 ▸ build_data _ h
  refine Proofs.map_perm_equal _ _ hd ?_
  rw [entriesOf_eq_map, entriesOf_eq_map]
  exact hp.map _

/-! ### 9. the programs of `lnotation_test.go`, by kernel evaluation -/

/-- `LS("range", 0, 4)` -/
def rangeTerm : LTerm := .LS "range" [.int 0, .int 4]

/-- `LS("reduce", S("+"), 0, LS("range", 0, 10000))` -/
def reduceTerm : LTerm := .LS "reduce" [.S "+", .int 0, .LS "range" [.int 0, .int 10000]]

/-- the fibonacci program of `TestLNotationFibonacci` (a mix of `L`, `LS`, `V` and `S`) -/
def fibTerm : LTerm :=
  .L [.S "do",
    .L [.S "def", .S "fib", .L [.S "fn", .V [.S "n"],
      .L [.S "if", .LS "=" [.S "n", .int 0],
        .int 1,
        .L [.S "if", .LS "=" [.S "n", .int 1],
          .int 1,
          .LS "+" [.L [.S "fib", .LS "-" [.S "n", .int 1]],
            .L [.S "fib", .LS "-" [.S "n", .int 2]]]]]]],
    .L [.S "fib", .int 15]]

theorem fib_text : String.ofList (toText fibTerm) =
    "(do (def fib (fn [n] (if (= n 0) 1 (if (= n 1) 1 (+ (fib (- n 1)) (fib (- n 2))))))) (fib 15))" := by
  decide +kernel

set_option maxRecDepth 100000 in
/-- the three test programs: reading the written text gives exactly the L-notation AST, cursors aside -/
theorem test_programs_same :
    sameB {} rangeTerm = true ∧ sameB {} reduceTerm = true ∧ sameB {} fibTerm = true ∧
    sameB { module := some "fib.lisp", hasEnv := true } fibTerm = true := by decide +kernel

/-- … in the form of the statement -/
theorem fib_read_eq_build : ∃ v, readText {} fibTerm = .ok v ∧ stripPos v = build fibTerm :=
  sameB_sound test_programs_same.2.2.1

/-- the reader's AST does carry cursors (the two ASTs differ before erasing) -/
theorem fib_read_has_positions :
    (match readText {} fibTerm with | .ok v => noPos v | .error _ => true) = false := by decide +kernel

/-- data with every constructor: nested `HM` with a bare inner map, keywords, a set, hostile strings -/
def dataTerm : LTerm :=
  .V [.HM [("ʞa", .rawMap [("b", .V [.int (-1), .nil, .bool true])]), ("k 1", .SET ["x", "ʞy"])],
    .L [], .LS "quote" [.S "a-b?"], .str "a\\\"b\nc ʞ ¬", .str "{\"k\": \"¬\"}", .str ""]

set_option maxRecDepth 100000 in
theorem data_same : sameB {} dataTerm = true := by decide +kernel
set_option maxRecDepth 100000 in
/-- the hypotheses of the general theorem hold for the test programs and the data sample -/
theorem examples_wf : wf rangeTerm = true ∧ wf reduceTerm = true ∧ wf fibTerm = true ∧ wf dataTerm = true := by
  decide +kernel

/-- the general theorem applied (non-vacuity) -/
example : ∃ v, readText { module := some "fib.lisp" } fibTerm = .ok v ∧ stripPos v = build fibTerm :=
  read_text_eq_build _ rfl fibTerm examples_wf.2.2.1

/-- what `wf` excludes, and why: a name that is reader syntax or splits into several tokens, a duplicate
    key, a bare Go map in a slice, a NUL inside a string -/
theorem not_wf_examples :
    wf (.S "a b") = false ∧ wf (.S "nil") = false ∧ wf (.S "(") = false ∧ wf (.S "") = false ∧
    wf (.HM [("a", .int 1), ("a", .int 2)]) = false ∧ wf (.V [.rawMap []]) = false ∧
    wf (.str (String.ofList [Char.ofNat 0])) = false := by decide +kernel

set_option maxRecDepth 100000 in
/-- … and what the two deliveries do on them: a symbol spelled `a b` is two tokens for the reader, a
    symbol spelled `nil` is the constant; a duplicate key is harmless here (both routes keep the last
    entry, as Go's map assignment does) -/
theorem not_wf_deliveries :
    sameB {} (.L [.S "a b"]) = false ∧ sameB {} (.S "nil") = false ∧
    sameB {} (.HM [("a", .int 1), ("a", .int 2)]) = true ∧ sameB {} (.SET ["x", "x"]) = true := by
  decide +kernel

/-! ### 10. which constructor keeps the caller's slice -/

/-- only `L` with at least one argument returns a value whose backing array is the caller's slice -/
theorem sharesArgs_iff (t : LTerm) : sharesArgs t = true ↔ ∃ a r, t = .L (a :: r) := by
  constructor
  · intro h
    cases t with
    | L args =>
      cases args with
      | nil => cases h
      | cons a r => exact ⟨a, r, rfl⟩
    | _ => cases h
  · rintro ⟨a, r, rfl⟩; rfl

end LispModel.Proofs.LNotLaws

/-
  G6 — laws of the environment object (`LispModel/EnvAlg.lean`, mirroring /repo/env/env.go).
  Supports C01 (lexical scoping: innermost binding wins; arity errors exact), C04 (the binder never
  panics), C11 (locals of one call are invisible to every other scope).
-/
import LispModel.EnvAlg
set_option linter.unusedSimpArgs false
namespace LispModel.EnvAlg

/-! ### one scope's map -/

theorem dget_derase_same (k : String) (d : Data) : dget k (derase k d) = none := by
  induction d with
  | nil => rfl
  | cons p r ih =>
    obtain ⟨k', v⟩ := p
    by_cases h : k = k'
    · simp [derase, h]; rw [← h]; exact ih
    · simp [derase, dget, h, ih]

theorem dget_derase_other {k k' : String} (h : k' ≠ k) (d : Data) : dget k' (derase k d) = dget k' d := by
  induction d with
  | nil => rfl
  | cons p r ih =>
    obtain ⟨k2, v⟩ := p
    by_cases h1 : k = k2
    · have : k' ≠ k2 := h1 ▸ h
      simp [derase, dget, h1, this]; rw [← h1]; exact ih
    · by_cases h2 : k' = k2 <;> simp [derase, dget, h1, h2, ih]

theorem dget_dset_same (k : String) (v : V) (d : Data) : dget k (dset k v d) = some v := by
  simp [dset, dget]

theorem dget_dset_other {k k' : String} (h : k' ≠ k) (v : V) (d : Data) : dget k' (dset k v d) = dget k' d := by
  simp [dset, dget, h, dget_derase_other h]

/-! ### what a lookup of `k` sees of a store, and the frame lemma -/

/-- what `Get`/`Find` of key `k` can see of scope `i`: its own entry for `k` and its outer link -/
def view (k : String) (st : Store) (i : Nat) : Option (Option V × Option Nat) :=
  (st[i]?).map fun sc => (dget k sc.data, sc.outer)

theorem view_some {k : String} {st : Store} {i : Nat} {sc : Scope} (h : st[i]? = some sc) :
    view k st i = some (dget k sc.data, sc.outer) := by simp [view, h]

theorem view_none {k : String} {st : Store} {i : Nat} (h : st[i]? = none) : view k st i = none := by
  simp [view, h]

/-- two stores that look the same (for `k`) on a set of scopes closed under `outer` give the same `Get` -/
theorem getF_congr {k : String} {st st' : Store} (P : Nat → Prop)
    (hP : ∀ i, P i → view k st i = view k st' i)
    (hcl : ∀ i sc o, P i → st[i]? = some sc → sc.outer = some o → P o) :
    ∀ fuel j, P j → getF st k fuel j = getF st' k fuel j := by
  intro fuel
  induction fuel with
  | zero => intro j _; rfl
  | succ f ih =>
    intro j hj
    have hv := hP j hj
    unfold getF
    cases h1 : st[j]? with
    | none =>
      rw [view_none h1] at hv
      cases h2 : st'[j]? with
      | none => rfl
      | some sc' => rw [view_some h2] at hv; cases hv
    | some sc =>
      rw [view_some h1] at hv
      cases h2 : st'[j]? with
      | none => rw [view_none h2] at hv; cases hv
      | some sc' =>
        rw [view_some h2] at hv
        injection hv with hv
        injection hv with hd ho
        simp only [hd, ho]
        cases hg : dget k sc'.data with
        | some v => rfl
        | none =>
          cases ho' : sc'.outer with
          | none => rfl
          | some o => exact ih o (hcl j sc o hj h1 (ho ▸ ho'))

theorem findF_congr {k : String} {st st' : Store} (P : Nat → Prop)
    (hP : ∀ i, P i → view k st i = view k st' i)
    (hcl : ∀ i sc o, P i → st[i]? = some sc → sc.outer = some o → P o) :
    ∀ fuel j, P j → findF st k fuel j = findF st' k fuel j := by
  intro fuel
  induction fuel with
  | zero => intro j _; rfl
  | succ f ih =>
    intro j hj
    have hv := hP j hj
    unfold findF
    cases h1 : st[j]? with
    | none =>
      rw [view_none h1] at hv
      cases h2 : st'[j]? with
      | none => rfl
      | some sc' => rw [view_some h2] at hv; cases hv
    | some sc =>
      rw [view_some h1] at hv
      cases h2 : st'[j]? with
      | none => rw [view_none h2] at hv; cases hv
      | some sc' =>
        rw [view_some h2] at hv
        injection hv with hv
        injection hv with hd ho
        simp only [hd, ho]
        cases hg : dget k sc'.data with
        | some v => rfl
        | none =>
          cases ho' : sc'.outer with
          | none => rfl
          | some o => exact ih o (hcl j sc o hj h1 (ho ▸ ho'))

/-! ### well-formed stores: every `outer` link points to an OLDER scope (true of every store built through the API) -/

def WF (st : Store) : Prop := ∀ (i : Nat) (sc : Scope) (o : Nat), st[i]? = some sc → sc.outer = some o → o < i

theorem lt_length_of_getElem? {st : Store} {i : Nat} {sc : Scope} (h : st[i]? = some sc) : i < st.length := by
  have := List.getElem?_eq_some_iff.mp h
  exact this.1

theorem exists_scope {st : Store} {i : Nat} (h : i < st.length) : ∃ sc, st[i]? = some sc :=
  ⟨st[i], List.getElem?_eq_getElem h⟩

/-- replacing the map of scope `id` changes the view of `id` only -/
theorem view_setData {st : Store} {id : Nat} {sc : Scope} (h : st[id]? = some sc) (d' : Data) (k : String) (j : Nat) :
    view k (st.set id { sc with data := d' }) j = if j = id then some (dget k d', sc.outer) else view k st j := by
  have hl := lt_length_of_getElem? h
  by_cases hj : j = id
  · subst hj; simp [view, List.getElem?_set_self hl]
  · have : id ≠ j := fun e => hj e.symm
    simp [view, List.getElem?_set_ne this, hj]

theorem set_eq {st : Store} {id : Nat} {sc : Scope} (h : st[id]? = some sc) (k : String) (v : V) :
    set st id k v = (st.set id { sc with data := dset k v sc.data }, .ok v) := by
  simp [set, h]

/-! ### 1. `Set` / `Get` / `Find` (C01: lexical scoping, the innermost binding wins) -/

/-- `Set` returns its value and never fails on a live scope -/
theorem set_returns_value {st : Store} {id : Nat} (h : id < st.length) (k : String) (v : V) :
    (set st id k v).2 = .ok v := by
  obtain ⟨sc, hsc⟩ := exists_scope h
  rw [set_eq hsc]

/-- after `set c k v`, `get c k = v` — whatever the ancestors of `c` hold (`innermost_wins` below is the same fact) -/
theorem get_set_same {st : Store} {id : Nat} (h : id < st.length) (k : String) (v : V) :
    get (set st id k v).1 id k = .ok v := by
  obtain ⟨sc, hsc⟩ := exists_scope h
  rw [set_eq hsc]
  simp [get, getF, List.getElem?_set_self h, dget_dset_same]

theorem innermost_wins {st : Store} {child : Nat} (h : child < st.length) (k : String) (v : V) :
    get (set st child k v).1 child k = .ok v ∧ find (set st child k v).1 child k = .ok (some child) := by
  refine ⟨get_set_same h k v, ?_⟩
  obtain ⟨sc, hsc⟩ := exists_scope h
  rw [set_eq hsc]
  simp [find, findF, List.getElem?_set_self h, dget_dset_same]

/-- setting `k` changes no lookup of another key, from ANY scope -/
theorem get_set_other {st : Store} {id : Nat} {k k' : String} (hk : k' ≠ k) (v : V) (j : Nat) :
    get (set st id k v).1 j k' = get st j k' := by
  cases hsc : st[id]? with
  | none => simp [set, hsc]
  | some sc =>
    rw [set_eq hsc]
    refine (getF_congr (fun _ => True) ?_ (fun _ _ _ _ _ _ => trivial) (j + 1) j trivial).symm
    intro i _
    rw [view_setData hsc]
    by_cases hi : i = id
    · subst hi; simp [view_some hsc, dget_dset_other hk]
    · simp [hi]

theorem find_set_other {st : Store} {id : Nat} {k k' : String} (hk : k' ≠ k) (v : V) (j : Nat) :
    find (set st id k v).1 j k' = find st j k' := by
  cases hsc : st[id]? with
  | none => simp [set, hsc]
  | some sc =>
    rw [set_eq hsc]
    refine (findF_congr (fun _ => True) ?_ (fun _ _ _ _ _ _ => trivial) (j + 1) j trivial).symm
    intro i _
    rw [view_setData hsc]
    by_cases hi : i = id
    · subst hi; simp [view_some hsc, dget_dset_other hk]
    · simp [hi]

/-- a `Set` in a scope is invisible from every OLDER scope — in particular from its parent and all its
    ancestors (under `WF` the ancestors of `child` are older than `child`) — for every key -/
theorem set_child_does_not_touch_parent {st : Store} (hwf : WF st) {child j : Nat} (hj : j < child)
    (k : String) (v : V) (k' : String) :
    get (set st child k v).1 j k' = get st j k' ∧ find (set st child k v).1 j k' = find st j k' := by
  cases hsc : st[child]? with
  | none => simp [set, hsc]
  | some sc =>
    rw [set_eq hsc]
    have hP : ∀ i, i < child → view k' st i = view k' (st.set child { sc with data := dset k v sc.data }) i := by
      intro i hi
      rw [view_setData hsc]
      have : i ≠ child := Nat.ne_of_lt hi
      simp [this]
    have hcl : ∀ i sc o, i < child → st[i]? = some sc → sc.outer = some o → o < child :=
      fun i sc o hi h1 h2 => Nat.lt_trans (hwf i sc o h1 h2) hi
    exact ⟨(getF_congr (fun i => i < child) hP hcl (j + 1) j hj).symm,
           (findF_congr (fun i => i < child) hP hcl (j + 1) j hj).symm⟩

/-! step equations of the two climbing loops -/

theorem findF_nil {st : Store} {k : String} {f id : Nat} (h : st[id]? = none) :
    findF st k (f + 1) id = .panic "nil *Env" := by simp [findF, h]
theorem findF_hit {st : Store} {k : String} {f id : Nat} {sc : Scope} {v : V} (h : st[id]? = some sc)
    (hg : dget k sc.data = some v) : findF st k (f + 1) id = .ok (some id) := by simp [findF, h, hg]
theorem findF_root {st : Store} {k : String} {f id : Nat} {sc : Scope} (h : st[id]? = some sc)
    (hg : dget k sc.data = none) (ho : sc.outer = none) : findF st k (f + 1) id = .ok none := by
  simp [findF, h, hg, ho]
theorem findF_climb {st : Store} {k : String} {f id o : Nat} {sc : Scope} (h : st[id]? = some sc)
    (hg : dget k sc.data = none) (ho : sc.outer = some o) : findF st k (f + 1) id = findF st k f o := by
  simp [findF, h, hg, ho]

theorem getF_nil {st : Store} {k : String} {f id : Nat} (h : st[id]? = none) :
    getF st k (f + 1) id = .panic "nil *Env" := by simp [getF, h]
theorem getF_hit {st : Store} {k : String} {f id : Nat} {sc : Scope} {v : V} (h : st[id]? = some sc)
    (hg : dget k sc.data = some v) : getF st k (f + 1) id = .ok v := by simp [getF, h, hg]
theorem getF_root {st : Store} {k : String} {f id : Nat} {sc : Scope} (h : st[id]? = some sc)
    (hg : dget k sc.data = none) (ho : sc.outer = none) : getF st k (f + 1) id = .err (.notFound k) := by
  simp [getF, h, hg, ho]
theorem getF_climb {st : Store} {k : String} {f id o : Nat} {sc : Scope} (h : st[id]? = some sc)
    (hg : dget k sc.data = none) (ho : sc.outer = some o) : getF st k (f + 1) id = getF st k f o := by
  simp [getF, h, hg, ho]

/-! ### the chain of scopes a lookup walks, and `Find` / `Get` in terms of it -/

def chainF (st : Store) : Nat → Nat → List Nat
  | 0, _ => []
  | f + 1, id =>
    match st[id]? with
    | none => []
    | some sc =>
      id :: (match sc.outer with
        | none => []
        | some o => chainF st f o)

/-- `id`, its outer, the outer of that, … up to the root -/
def chain (st : Store) (id : Nat) : List Nat := chainF st (id + 1) id

/-- scope `i`'s OWN map has an entry for `k` -/
def holds (st : Store) (k : String) (i : Nat) : Bool :=
  match st[i]? with
  | some sc => (dget k sc.data).isSome
  | none => false

theorem findF_eq_chain {st : Store} (hwf : WF st) (k : String) :
    ∀ fuel id, id < st.length → id < fuel →
      findF st k fuel id = .ok ((chainF st fuel id).find? (holds st k)) := by
  intro fuel
  induction fuel with
  | zero => intro id _ h; exact absurd h (Nat.not_lt_zero _)
  | succ f ih =>
    intro id hid hf
    obtain ⟨sc, hsc⟩ := exists_scope hid
    unfold findF chainF
    simp only [hsc]
    cases hg : dget k sc.data with
    | some v => simp [List.find?, holds, hsc, hg]
    | none =>
      have hh : holds st k id = false := by simp [holds, hsc, hg]
      cases ho : sc.outer with
      | none => simp [List.find?, hh]
      | some o =>
        have hlt := hwf id sc o hsc ho
        have := ih o (Nat.lt_trans hlt hid) (Nat.lt_of_lt_of_le hlt (Nat.le_of_lt_succ hf))
        simp [List.find?, hh, this]

/-- `Get` is `Find` followed by a read of the holder's own map; no holder = the not-found error -/
theorem getF_of_findF (st : Store) (k : String) : ∀ fuel id,
    (∀ h, findF st k fuel id = .ok (some h) →
        ∃ sc v, st[h]? = some sc ∧ dget k sc.data = some v ∧ getF st k fuel id = .ok v) ∧
    (findF st k fuel id = .ok none → getF st k fuel id = .err (.notFound k)) := by
  intro fuel
  induction fuel with
  | zero =>
    intro id
    constructor
    · intro h hh; simp [findF] at hh
    · intro hh; simp [findF] at hh
  | succ f ih =>
    intro id
    cases hsc : st[id]? with
    | none =>
      rw [findF_nil hsc]
      constructor
      · intro h hh; simp at hh
      · intro hh; simp at hh
    | some sc =>
      cases hg : dget k sc.data with
      | some v =>
        rw [findF_hit hsc hg, getF_hit hsc hg]
        constructor
        · intro h hh
          injection hh with hh
          injection hh with hh
          subst hh
          exact ⟨sc, v, hsc, hg, rfl⟩
        · intro hh; simp at hh
      | none =>
        cases ho : sc.outer with
        | none =>
          rw [findF_root hsc hg ho, getF_root hsc hg ho]
          constructor
          · intro h hh; simp at hh
          · intro _; rfl
        | some o => rw [findF_climb hsc hg ho, getF_climb hsc hg ho]; exact ih o

theorem find_eq_chain {st : Store} (hwf : WF st) {id : Nat} (hid : id < st.length) (k : String) :
    find st id k = .ok ((chain st id).find? (holds st k)) :=
  findF_eq_chain hwf k (id + 1) id hid (Nat.lt_succ_self id)

/-- `Find` returns the INNERMOST holder: `h` is on the chain of `id`, holds `k`, and no scope before it does -/
theorem find_innermost {st : Store} (hwf : WF st) {id : Nat} (hid : id < st.length) (k : String) (h : Nat) :
    find st id k = .ok (some h) ↔
      holds st k h = true ∧ ∃ inner rest, chain st id = inner ++ h :: rest ∧ ∀ a ∈ inner, holds st k a = false := by
  rw [find_eq_chain hwf hid]
  constructor
  · intro e
    injection e with e
    have := List.find?_eq_some_iff_append.mp e
    obtain ⟨h1, as, bs, h2, h3⟩ := this
    exact ⟨h1, as, bs, h2, fun a ha => by simpa using h3 a ha⟩
  · intro ⟨h1, as, bs, h2, h3⟩
    congr 1
    exact List.find?_eq_some_iff_append.mpr ⟨h1, as, bs, h2, fun a ha => by simp [h3 a ha]⟩

/-- `Find` finds nothing exactly when no scope on the chain holds `k` -/
theorem find_none_iff {st : Store} (hwf : WF st) {id : Nat} (hid : id < st.length) (k : String) :
    find st id k = .ok none ↔ ∀ a ∈ chain st id, holds st k a = false := by
  rw [find_eq_chain hwf hid]
  constructor
  · intro e
    injection e with e
    intro a ha
    have := List.find?_eq_none.mp e a ha
    simpa using this
  · intro h
    congr 1
    exact List.find?_eq_none.mpr fun a ha => by simp [h a ha]

/-- `Get` climbs: it reads the innermost holder's own entry … -/
theorem get_of_find_some {st : Store} {id h : Nat} {k : String} (hf : find st id k = .ok (some h)) :
    ∃ sc v, st[h]? = some sc ∧ dget k sc.data = some v ∧ get st id k = .ok v :=
  (getF_of_findF st k (id + 1) id).1 h hf

/-- … and if no scope from `id` up holds `k` the result is the not-found error (with the key in it) -/
theorem get_not_found {st : Store} (hwf : WF st) {id : Nat} (hid : id < st.length) (k : String)
    (hno : ∀ a ∈ chain st id, holds st k a = false) : get st id k = .err (.notFound k) :=
  (getF_of_findF st k (id + 1) id).2 ((find_none_iff hwf hid k).mpr hno)

/-- on a well-formed store `Get` on a live scope is total: a value or the not-found error, never a panic -/
theorem get_total {st : Store} (hwf : WF st) {id : Nat} (hid : id < st.length) (k : String) :
    (∃ v, get st id k = .ok v) ∨ get st id k = .err (.notFound k) := by
  have hf := find_eq_chain hwf hid k
  cases hc : (chain st id).find? (holds st k) with
  | none => rw [hc] at hf; exact .inr ((getF_of_findF st k (id + 1) id).2 hf)
  | some h =>
    rw [hc] at hf
    obtain ⟨_, v, _, _, hv⟩ := get_of_find_some hf
    exact .inl ⟨v, hv⟩

/-- enough fuel is enough: on a well-formed store the climb from `id` needs at most `id + 1` steps -/
theorem getF_fuel {st : Store} (hwf : WF st) (k : String) :
    ∀ f f' id, id < f → id < f' → getF st k f id = getF st k f' id := by
  intro f
  induction f with
  | zero => intro f' id h; exact absurd h (Nat.not_lt_zero _)
  | succ f ih =>
    intro f' id h h'
    cases f' with
    | zero => exact absurd h' (Nat.not_lt_zero _)
    | succ f' =>
      cases hsc : st[id]? with
      | none => rw [getF_nil hsc, getF_nil hsc]
      | some sc =>
        cases hg : dget k sc.data with
        | some v => rw [getF_hit hsc hg, getF_hit hsc hg]
        | none =>
          cases ho : sc.outer with
          | none => rw [getF_root hsc hg ho, getF_root hsc hg ho]
          | some o =>
            rw [getF_climb hsc hg ho, getF_climb hsc hg ho]
            have hlt := hwf id sc o hsc ho
            exact ih f' o (Nat.lt_of_lt_of_le hlt (Nat.le_of_lt_succ h))
              (Nat.lt_of_lt_of_le hlt (Nat.le_of_lt_succ h'))

/-! ### 2. `Remove` and `Update` -/

/-- `Remove` looks at the scope's OWN map only: a key the scope does not hold itself is the not-found
    error and nothing changes — even when an ancestor holds the key (no climbing) -/
theorem remove_absent {st : Store} {id : Nat} {sc : Scope} {k : String} (hsc : st[id]? = some sc)
    (hg : dget k sc.data = none) : remove st id k = (st, .err (.notFound k)) := by
  simp [remove, hsc, hg]

theorem remove_present {st : Store} {id : Nat} {sc : Scope} {k : String} {v : V} (hsc : st[id]? = some sc)
    (hg : dget k sc.data = some v) :
    remove st id k = (st.set id { sc with data := derase k sc.data }, .ok ()) := by
  simp [remove, hsc, hg]

/-- after a successful `Remove` the scope sees what its outer scope sees (the shadowed binding reappears) -/
theorem get_remove_same {st : Store} (hwf : WF st) {id : Nat} {sc : Scope} {k : String} {v : V}
    (hsc : st[id]? = some sc) (hg : dget k sc.data = some v) :
    get (remove st id k).1 id k =
      match sc.outer with
      | none => .err (.notFound k)
      | some o => get st o k := by
  rw [remove_present hsc hg]
  have hl := lt_length_of_getElem? hsc
  obtain ⟨sc', hsc'⟩ : ∃ sc' : Scope, sc' = { sc with data := derase k sc.data } := ⟨_, rfl⟩
  rw [← hsc']
  show get (st.set id sc') id k = _
  obtain ⟨st', hst'⟩ : ∃ st' : Store, st' = st.set id sc' := ⟨_, rfl⟩
  rw [← hst']
  have hnew : st'[id]? = some sc' := by rw [hst']; exact List.getElem?_set_self hl
  have hd : dget k sc'.data = none := by rw [hsc']; exact dget_derase_same k sc.data
  have hoo : sc'.outer = sc.outer := by rw [hsc']
  cases ho : sc.outer with
  | none => exact getF_root hnew hd (hoo.trans ho)
  | some o =>
    have hlt := hwf id sc o hsc ho
    show getF st' k (id + 1) id = getF st k (o + 1) o
    rw [getF_climb hnew hd (hoo.trans ho), getF_fuel hwf k (o + 1) id o (Nat.lt_succ_self o) hlt]
    refine (getF_congr (fun i => i < id) ?_ ?_ id o hlt).symm
    · intro i hi
      rw [hst', hsc', view_setData hsc]
      simp [Nat.ne_of_lt hi]
    · exact fun i sc o hi h1 h2 => Nat.lt_trans (hwf i sc o h1 h2) hi

theorem get_remove_other {st : Store} {id : Nat} {k k' : String} (hk : k' ≠ k) (j : Nat) :
    get (remove st id k).1 j k' = get st j k' := by
  cases hsc : st[id]? with
  | none => simp [remove, hsc]
  | some sc =>
    cases hg : dget k sc.data with
    | none => rw [remove_absent hsc hg]
    | some v =>
      rw [remove_present hsc hg]
      refine (getF_congr (fun _ => True) ?_ (fun _ _ _ _ _ _ => trivial) (j + 1) j trivial).symm
      intro i _
      rw [view_setData hsc]
      by_cases hi : i = id
      · subst hi; simp [view_some hsc, dget_derase_other hk]
      · simp [hi]

/-- what `Update` hands to the callback: the value `Get` finds (climbing), and Go `nil` for a missing
    key — indistinguishable, for the callback, from a key bound to nil -/
theorem update_arg (st : Store) (id : Nat) (k : String) :
    (∀ v, get st id k = .ok v → argOf (get st id k) = v) ∧
    (∀ e, get st id k = .err e → argOf (get st id k) = .nil) := by
  constructor
  · intro v h; rw [h]; rfl
  · intro e h; rw [h]; rfl

/-- `Update` = `Get` (climbing to the holder), then the callback, then `Set` on the scope ITSELF (`e.SetNT`, not
    the holder's); a callback error is passed through and nothing is written -/
theorem update_eq {st : Store} (hwf : WF st) {id : Nat} (hid : id < st.length) (k : String)
    (f : V → Except String V) :
    update st id k f =
      match f (argOf (get st id k)) with
      | .error m => (st, .err (.cb m))
      | .ok nv => set st id k nv := by
  obtain ⟨sc, hsc⟩ := exists_scope hid
  unfold update
  simp only [hsc]
  rcases get_total hwf hid k with ⟨v, hv⟩ | hv <;> rw [hv] <;> rfl

theorem update_error_no_change {st : Store} (hwf : WF st) {id : Nat} (hid : id < st.length) (k : String)
    (f : V → Except String V) (m : String) (hf : f (argOf (get st id k)) = .error m) :
    update st id k f = (st, .err (.cb m)) := by
  rw [update_eq hwf hid, hf]

/-- the new value is visible from the scope itself; every older scope — the former holder included, when the
    value came from an ancestor — still sees what it saw (the update SHADOWS, it does not write through) -/
theorem update_shadows {st : Store} (hwf : WF st) {id : Nat} (hid : id < st.length) (k : String)
    (f : V → Except String V) (nv : V) (hf : f (argOf (get st id k)) = .ok nv) :
    (update st id k f).2 = .ok nv ∧ get (update st id k f).1 id k = .ok nv ∧
    ∀ j, j < id → ∀ k', get (update st id k f).1 j k' = get st j k' := by
  rw [update_eq hwf hid, hf]
  exact ⟨set_returns_value hid k nv, get_set_same hid k nv,
    fun j hj k' => (set_child_does_not_touch_parent hwf hj k nv k').1⟩

/-! ### 3. the parameter binder: a closed form of the loop -/

/-- an ordinary parameter name: a symbol other than `&` -/
def V.plain : V → Bool
  | .sym s => decide (s ≠ "&")
  | _ => false

def V.symName : V → String
  | .sym s => s
  | _ => ""

/-- the assignments of the loop in order (a repeated name: the later one wins) -/
def insertAll (d : Data) : List (String × V) → Data
  | [] => d
  | (k, v) :: r => insertAll (dset k v d) r

/-- what happens at the first element that is not an ordinary name (`j` = its index, `d` = bound so far) -/
def restOutcome (nb : Nat) (exprs : List V) (j : Nat) (d : Data) : List V → Res Data
  | [] => if exprs.length = j then .ok d else .err (.tooMany nb exprs.length)
  | .sym _ :: .sym r :: _ => .ok (dset r (.list (exprs.drop j)) d)
  | .sym _ :: _ => .err .danglingAmp
  | b :: _ => .err (.notSym b.goType)

/-- closed form of `bindLoop` started at index `i` with `rest = binds[i:]` -/
def bindSpecFrom (nb : Nat) (exprs : List V) (i : Nat) (rest : List V) (d : Data) : Res Data :=
  if exprs.length < i + (rest.takeWhile V.plain).length then .err (.tooFew nb exprs.length)
  else restOutcome nb exprs (i + (rest.takeWhile V.plain).length)
    (insertAll d (List.zip ((rest.takeWhile V.plain).map V.symName) (exprs.drop i))) (rest.dropWhile V.plain)

theorem bindLoop_eq_spec (nb : Nat) (exprs : List V) :
    ∀ (rest : List V) (i : Nat) (d : Data), i ≤ exprs.length →
      bindLoop nb exprs i rest d = bindSpecFrom nb exprs i rest d := by
  intro rest
  induction rest with
  | nil =>
    intro i d hi
    have h1 : ¬ exprs.length < i := Nat.not_lt.mpr hi
    by_cases h2 : exprs.length = i
    · simp [bindLoop, bindSpecFrom, restOutcome, insertAll, h2]
    · simp [bindLoop, bindSpecFrom, restOutcome, h1, h2]
  | cons b rest ih =>
    intro i d hi
    have h1 : ¬ exprs.length < i := Nat.not_lt.mpr hi
    cases b with
    | sym s =>
      by_cases hs : s = "&"
      · subst hs
        cases rest with
        | nil => simp [bindLoop, bindSpecFrom, restOutcome, V.plain, h1]
        | cons c rest' =>
          cases c <;> simp [bindLoop, bindSpecFrom, restOutcome, V.plain, h1, insertAll]
      · have hp : V.plain (.sym s) = true := by simp [V.plain, hs]
        by_cases he : i = exprs.length
        · simp [bindLoop, bindSpecFrom, hs, he, hp]
        · have hlt : i < exprs.length := Nat.lt_of_le_of_ne hi he
          have hget : exprs[i]? = some exprs[i] := List.getElem?_eq_getElem hlt
          have hdrop : exprs.drop i = exprs[i] :: exprs.drop (i + 1) := List.drop_eq_getElem_cons hlt
          have := ih (i + 1) (dset s exprs[i] d) hlt
          simp only [bindLoop, hs, he, if_false, hget, this]
          simp only [bindSpecFrom, List.takeWhile_cons, List.dropWhile_cons, hp, if_true, List.length_cons,
            List.map_cons, hdrop, List.zip_cons_cons, insertAll, V.symName]
          have e : i + 1 + (rest.takeWhile V.plain).length = i + ((rest.takeWhile V.plain).length + 1) := by omega
          rw [e]
    | nil => simp [bindLoop, bindSpecFrom, restOutcome, V.plain, h1]
    | int _ => simp [bindLoop, bindSpecFrom, restOutcome, V.plain, h1]
    | str _ => simp [bindLoop, bindSpecFrom, restOutcome, V.plain, h1]
    | list _ => simp [bindLoop, bindSpecFrom, restOutcome, V.plain, h1]
    | vec _ => simp [bindLoop, bindSpecFrom, restOutcome, V.plain, h1]

theorem dget_insertAll_not_mem {k : String} : ∀ (ps : List (String × V)) (d : Data),
    k ∉ ps.map (·.1) → dget k (insertAll d ps) = dget k d := by
  intro ps
  induction ps with
  | nil => intro d _; rfl
  | cons p r ih =>
    intro d h
    obtain ⟨k', v⟩ := p
    simp only [List.map_cons, List.mem_cons, not_or] at h
    rw [insertAll, ih _ h.2, dget_dset_other h.1]

/-- with distinct names every pair of the list is what the new scope holds for its name -/
theorem dget_insertAll_mem {k : String} {v : V} : ∀ (ps : List (String × V)) (d : Data),
    (ps.map (·.1)).Nodup → (k, v) ∈ ps → dget k (insertAll d ps) = some v := by
  intro ps
  induction ps with
  | nil => intro d _ h; cases h
  | cons p r ih =>
    intro d hn hm
    obtain ⟨k', v'⟩ := p
    simp only [List.map_cons, List.nodup_cons] at hn
    rcases List.mem_cons.mp hm with e | hm'
    · injection e with e1 e2
      subst e1; subst e2
      rw [insertAll, dget_insertAll_not_mem r _ hn.1, dget_dset_same]
    · exact ih _ hn.2 hm'

/-- a repeated name: the LATER assignment wins (Go map assignment in loop order) -/
theorem dget_insertAll_last (k : String) (v : V) : ∀ (ps : List (String × V)) (d : Data),
    dget k (insertAll d (ps ++ [(k, v)])) = some v := by
  intro ps
  induction ps with
  | nil => intro d; simp [insertAll, dget_dset_same]
  | cons p r ih => intro d; obtain ⟨k', v'⟩ := p; exact ih _

theorem takeWhile_plain_all : ∀ (l : List V), (∀ b ∈ l, V.plain b = true) →
    l.takeWhile V.plain = l ∧ l.dropWhile V.plain = [] := by
  intro l
  induction l with
  | nil => intro _; exact ⟨rfl, rfl⟩
  | cons b r ih =>
    intro h
    have hb := h b (List.mem_cons_self ..)
    have := ih fun x hx => h x (List.mem_cons_of_mem _ hx)
    simp [List.takeWhile_cons, List.dropWhile_cons, hb, this.1, this.2]

theorem takeWhile_plain_prefix : ∀ (pre : List V) (x : V) (tail : List V), (∀ b ∈ pre, V.plain b = true) →
    V.plain x = false →
    (pre ++ x :: tail).takeWhile V.plain = pre ∧ (pre ++ x :: tail).dropWhile V.plain = x :: tail := by
  intro pre x tail
  induction pre with
  | nil => intro _ hx; simp [List.takeWhile_cons, List.dropWhile_cons, hx]
  | cons b r ih =>
    intro h hx
    have hb := h b (List.mem_cons_self ..)
    have := ih (fun y hy => h y (List.mem_cons_of_mem _ hy)) hx
    simp [List.takeWhile_cons, List.dropWhile_cons, hb, this.1, this.2]

/-- the binder on two sequences: what `bindData` runs after the nil test and the two `GetSlice` -/
def bindSeq (binds exprs : List V) : Res Data := bindLoop binds.length exprs 0 binds []

/-- the loop in closed form: `i` = the number of leading ordinary names; too few arguments if there are fewer
    than `i`; otherwise the first element that is not an ordinary name decides (`restOutcome`) -/
theorem bindSeq_eq_spec (binds exprs : List V) :
    bindSeq binds exprs = bindSpecFrom binds.length exprs 0 binds [] :=
  bindLoop_eq_spec binds.length exprs binds 0 [] (Nat.zero_le _)

/-- `bind_positional`: with ordinary names only (no `&`) the binder succeeds iff the counts agree, and the errors
    carry both counts -/
theorem bind_positional (binds exprs : List V) (hp : ∀ b ∈ binds, V.plain b = true) :
    bindSeq binds exprs =
      if exprs.length < binds.length then .err (.tooFew binds.length exprs.length)
      else if exprs.length = binds.length then .ok (insertAll [] (List.zip (binds.map V.symName) exprs))
      else .err (.tooMany binds.length exprs.length) := by
  have ⟨h1, h2⟩ := takeWhile_plain_all binds hp
  rw [bindSeq_eq_spec]
  simp [bindSpecFrom, h1, h2, restOutcome]

theorem bind_positional_ok_iff (binds exprs : List V) (hp : ∀ b ∈ binds, V.plain b = true) :
    (∃ d, bindSeq binds exprs = .ok d) ↔ binds.length = exprs.length := by
  rw [bind_positional binds exprs hp]
  by_cases h1 : exprs.length < binds.length
  · simp [h1]; omega
  · by_cases h2 : exprs.length = binds.length
    · simp [h1, h2]
    · simp [h1, h2]; omega

/-- `bind_rest`: with `& r` after `pre.length` ordinary names the binder succeeds iff there are at least that
    many arguments, and `r` is bound to the list of the remaining ones (possibly empty); whatever follows `r`
    in the parameter list is never looked at -/
theorem bind_rest (pre : List V) (r : String) (tail exprs : List V) (hp : ∀ b ∈ pre, V.plain b = true) :
    bindSeq (pre ++ .sym "&" :: .sym r :: tail) exprs =
      if exprs.length < pre.length then .err (.tooFew (pre ++ V.sym "&" :: .sym r :: tail).length exprs.length)
      else .ok (dset r (.list (exprs.drop pre.length)) (insertAll [] (List.zip (pre.map V.symName) exprs))) := by
  have hx : V.plain (.sym "&") = false := by simp [V.plain]
  have ⟨h1, h2⟩ := takeWhile_plain_prefix pre (.sym "&") (.sym r :: tail) hp hx
  rw [bindSeq_eq_spec]
  simp [bindSpecFrom, h1, h2, restOutcome]

/-- the first element of the parameter list that is not an ordinary name, and what follows it -/
def firstOdd (binds : List V) : List V := binds.dropWhile V.plain

/-- number of leading ordinary names -/
def nPos (binds : List V) : Nat := (binds.takeWhile V.plain).length

theorem restOutcome_ne_panic (nb : Nat) (exprs : List V) (j : Nat) (d : Data) (l : List V) (s : String) :
    restOutcome nb exprs j d l ≠ .panic s := by
  unfold restOutcome
  split <;> (try split) <;> simp

/-- C04: the binder has no panic outcome, for ANY parameter list and ANY argument list (`exprs[i:]` and
    `exprs[i]` are always in range: position `i` is only reached after `i` arguments were consumed) -/
theorem bindSeq_no_panic (binds exprs : List V) (s : String) : bindSeq binds exprs ≠ .panic s := by
  rw [bindSeq_eq_spec]
  unfold bindSpecFrom
  split
  · simp
  · exact restOutcome_ne_panic _ _ _ _ _ _

/-- `bind_errors_exact`: each error class occurs exactly under its condition -/
theorem bind_errors_exact (binds exprs : List V) :
    (∀ a b, bindSeq binds exprs = .err (.tooFew a b) ↔
        exprs.length < nPos binds ∧ a = binds.length ∧ b = exprs.length) ∧
    (∀ a b, bindSeq binds exprs = .err (.tooMany a b) ↔
        firstOdd binds = [] ∧ nPos binds < exprs.length ∧ a = binds.length ∧ b = exprs.length) ∧
    (∀ t, bindSeq binds exprs = .err (.notSym t) ↔
        nPos binds ≤ exprs.length ∧ ∃ x tail, firstOdd binds = x :: tail ∧ (∀ n, x ≠ .sym n) ∧ t = x.goType) ∧
    (bindSeq binds exprs = .err .danglingAmp ↔
        nPos binds ≤ exprs.length ∧ ∃ n tail, firstOdd binds = .sym n :: tail ∧ ∀ r t', tail ≠ .sym r :: t') := by
  rw [bindSeq_eq_spec]
  unfold bindSpecFrom firstOdd nPos
  simp only [Nat.zero_add]
  by_cases hlt : exprs.length < (binds.takeWhile V.plain).length
  · simp only [hlt, if_true]
    have hle : ¬ (binds.takeWhile V.plain).length ≤ exprs.length := Nat.not_le.mpr hlt
    have hlt' : ¬ (binds.takeWhile V.plain).length < exprs.length := fun h => Nat.lt_asymm h hlt
    refine ⟨fun a b => ?_, fun a b => ?_, fun t => ?_, ?_⟩ <;> simp [hle, hlt']
    constructor
    · intro ⟨h1, h2⟩; exact ⟨h1.symm, h2.symm⟩
    · intro ⟨h1, h2⟩; exact ⟨h1.symm, h2.symm⟩
  · simp only [hlt, if_false]
    have hle : (binds.takeWhile V.plain).length ≤ exprs.length := Nat.not_lt.mp hlt
    cases hdw : binds.dropWhile V.plain with
    | nil =>
      by_cases he : exprs.length = (binds.takeWhile V.plain).length
      · simp [restOutcome, he]
      · have : (binds.takeWhile V.plain).length < exprs.length := Nat.lt_of_le_of_ne hle (Ne.symm he)
        simp [restOutcome, he, hlt, this]
        intro a b
        constructor
        · intro ⟨h1, h2⟩; exact ⟨h1.symm, h2.symm⟩
        · intro ⟨h1, h2⟩; exact ⟨h1.symm, h2.symm⟩
    | cons x tail =>
      cases x with
      | sym n =>
        cases tail with
        | nil => simp [restOutcome, hlt, hle]; exact ⟨n, _, ⟨rfl, rfl⟩, by intros; simp⟩
        | cons c t' =>
          cases c <;> simp [restOutcome, hlt, hle] <;> exact ⟨n, _, ⟨rfl, rfl⟩, by intros; simp⟩
      | nil => simp [restOutcome, hlt, hle, V.goType]; exact fun t => eq_comm
      | int _ => simp [restOutcome, hlt, hle, V.goType]; exact fun t => eq_comm
      | str _ => simp [restOutcome, hlt, hle, V.goType]; exact fun t => eq_comm
      | list _ => simp [restOutcome, hlt, hle, V.goType]; exact fun t => eq_comm
      | vec _ => simp [restOutcome, hlt, hle, V.goType]; exact fun t => eq_comm

/-! ### 3–5. the binder at the level of the store -/

theorem bindData_nil (bm em : V) (h : bm = .nil ∨ em = .nil) : bindData bm em = .ok [] := by
  rcases h with h | h <;> subst h <;> simp [bindData, V.isNil]

theorem bindData_seq {bm em : V} {binds exprs : List V} (hb : getSlice bm = some binds)
    (he : getSlice em = some exprs) : bindData bm em = bindSeq binds exprs := by
  cases bm <;> cases em <;> simp [getSlice] at hb he <;> subst hb <;> subst he <;>
    simp [bindData, V.isNil, getSlice, bindSeq]

theorem bindData_nonseq {bm em : V} (hb : bm ≠ .nil) (he : em ≠ .nil)
    (h : getSlice bm = none ∨ getSlice em = none) : bindData bm em = .err .nonSeq := by
  cases bm <;> cases em <;> simp [getSlice] at h <;> simp [bindData, V.isNil, getSlice] <;> contradiction

/-- C04 — `NewSubordinateEnvWithBinds` never panics, whatever the two values are: nil, non-sequences,
    sequences of anything (the only panic of the Go function is `outer.(*Env)` on a nil interface, i.e. a
    caller that passes no environment at all; see `step`) -/
theorem bindData_no_panic (bm em : V) (s : String) : bindData bm em ≠ .panic s := by
  by_cases hn : bm = .nil ∨ em = .nil
  · rw [bindData_nil bm em hn]; simp
  · have hb : bm ≠ .nil := fun h => hn (.inl h)
    have he : em ≠ .nil := fun h => hn (.inr h)
    cases h1 : getSlice bm with
    | none => rw [bindData_nonseq hb he (.inl h1)]; simp
    | some binds =>
      cases h2 : getSlice em with
      | none => rw [bindData_nonseq hb he (.inr h2)]; simp
      | some exprs => rw [bindData_seq h1 h2]; exact bindSeq_no_panic binds exprs s

theorem bind_no_panic (st : Store) (outer : Nat) (bm em : V) (s : String) :
    (bind st outer bm em).2 ≠ .panic s := by
  unfold bind
  cases h : bindData bm em with
  | ok d => simp
  | err e => simp
  | panic s' => exact absurd h (bindData_no_panic bm em s')

/-- `bind_nil_skips_checks`: with nil binds or nil exprs NOTHING is bound and NOTHING is checked — no arity
    error, no parameter-name error, no non-sequence error; the result is an empty child of `outer` -/
theorem bind_nil_skips_checks (st : Store) (outer : Nat) (bm em : V) (h : bm = .nil ∨ em = .nil) :
    bind st outer bm em = (st ++ [⟨[], some outer⟩], .ok st.length) := by
  simp [bind, bindData_nil bm em h]

/-- `bind_fresh_scope`: a successful call returns a NEW id, the new scope's outer is `outer`, and no existing
    scope changes; a failed call changes nothing at all -/
theorem bind_fresh_scope {st st' : Store} {outer id : Nat} {bm em : V}
    (h : bind st outer bm em = (st', .ok id)) :
    id = st.length ∧ (∃ d, bindData bm em = .ok d ∧ st' = st ++ [⟨d, some outer⟩]) ∧
    st'.length = st.length + 1 ∧ (∀ j, j < st.length → st'[j]? = st[j]?) ∧
    (∃ sc, st'[id]? = some sc ∧ sc.outer = some outer) := by
  unfold bind at h
  cases hd : bindData bm em with
  | ok d =>
    rw [hd] at h
    injection h with h1 h2
    injection h2 with h2
    subst h1; subst h2
    refine ⟨rfl, ⟨d, rfl, rfl⟩, by simp, fun j hj => List.getElem?_append_left hj, ⟨d, some outer⟩, ?_, rfl⟩
    exact List.getElem?_concat_length
  | err e => rw [hd] at h; injection h with _ h2; cases h2
  | panic s => rw [hd] at h; injection h with _ h2; cases h2

theorem bind_error_no_change {st : Store} {outer : Nat} {bm em : V} {e : Err}
    (h : (bind st outer bm em).2 = .err e) : (bind st outer bm em).1 = st := by
  unfold bind at h ⊢
  cases hd : bindData bm em with
  | ok d => rw [hd] at h; cases h
  | err e => rfl
  | panic s => rfl

/-! ### frames for stores that grow, and preservation of well-formedness -/

theorem view_append {st : Store} (ext : Store) {i : Nat} (hi : i < st.length) (k : String) :
    view k st i = view k (st ++ ext) i := by
  simp [view, List.getElem?_append_left hi]

/-- scopes created later are invisible from every existing scope (C11: the locals of one call are invisible to
    every other scope — callers, siblings, the closure's defining scope) -/
theorem get_append {st : Store} (hwf : WF st) (ext : Store) {j : Nat} (hj : j < st.length) (k : String) :
    get (st ++ ext) j k = get st j k ∧ find (st ++ ext) j k = find st j k := by
  have hP : ∀ i, i < st.length → view k st i = view k (st ++ ext) i := fun i hi => view_append ext hi k
  have hcl : ∀ i sc o, i < st.length → st[i]? = some sc → sc.outer = some o → o < st.length :=
    fun i sc o hi h1 h2 => Nat.lt_trans (hwf i sc o h1 h2) hi
  exact ⟨(getF_congr (fun i => i < st.length) hP hcl (j + 1) j hj).symm,
         (findF_congr (fun i => i < st.length) hP hcl (j + 1) j hj).symm⟩

theorem bind_locals_invisible {st st' : Store} (hwf : WF st) {outer id : Nat} {bm em : V}
    (h : bind st outer bm em = (st', .ok id)) {j : Nat} (hj : j < st.length) (k : String) :
    get st' j k = get st j k ∧ find st' j k = find st j k := by
  obtain ⟨_, ⟨d, _, hst'⟩, _⟩ := bind_fresh_scope h
  rw [hst']
  exact get_append hwf _ hj k

theorem WF_nil : WF [] := by
  intro i sc o h; simp at h

theorem WF_append {st : Store} (hwf : WF st) (d : Data) (o : Option Nat)
    (ho : ∀ x, o = some x → x < st.length) : WF (st ++ [⟨d, o⟩]) := by
  intro i sc x h hx
  by_cases hi : i < st.length
  · rw [List.getElem?_append_left hi] at h; exact hwf i sc x h hx
  · have hlen := lt_length_of_getElem? h
    simp at hlen
    have : i = st.length := by omega
    subst this
    rw [List.getElem?_concat_length] at h
    injection h with h
    subst h
    exact ho x hx

theorem WF_setData {st : Store} (hwf : WF st) {id : Nat} {sc : Scope} (hsc : st[id]? = some sc) (d' : Data) :
    WF (st.set id { sc with data := d' }) := by
  intro i sc' x h hx
  by_cases hi : id = i
  · subst hi
    rw [List.getElem?_set_self (lt_length_of_getElem? hsc)] at h
    injection h with h
    subst h
    exact hwf id sc x hsc hx
  · rw [List.getElem?_set_ne hi] at h; exact hwf i sc' x h hx

/-- a name the new scope does not bind is looked up in `outer` — the scope the function was closed over, not the
    caller's (C01: lexical scoping) -/
theorem get_fresh_miss {st : Store} (hwf : WF st) {outer : Nat} (ho : outer < st.length) {d : Data} {k : String}
    (h : dget k d = none) : get (st ++ [⟨d, some outer⟩]) st.length k = get st outer k := by
  have hnew : (st ++ [(⟨d, some outer⟩ : Scope)])[st.length]? = some ⟨d, some outer⟩ := List.getElem?_concat_length
  have hwf' : WF (st ++ [⟨d, some outer⟩]) := WF_append hwf d (some outer) (fun x hx => by injection hx with hx; omega)
  show getF _ k (st.length + 1) st.length = _
  rw [getF_climb hnew h rfl, getF_fuel hwf' k st.length (outer + 1) outer ho (Nat.lt_succ_self _)]
  exact (get_append hwf _ ho k).1

theorem get_fresh_hit (st : Store) (o : Option Nat) {d : Data} {k : String} {v : V} (h : dget k d = some v) :
    get (st ++ [⟨d, o⟩]) st.length k = .ok v := by
  have hnew : (st ++ [(⟨d, o⟩ : Scope)])[st.length]? = some ⟨d, o⟩ := List.getElem?_concat_length
  exact getF_hit hnew h

/-- `bind_positional`, at the store: distinct ordinary names and as many arguments — the call succeeds with a FRESH
    child of `outer` in which every parameter is bound to its argument -/
theorem bind_positional_binds_args (st : Store) (outer : Nat) (binds exprs : List V)
    (hp : ∀ b ∈ binds, V.plain b = true) (hnd : (binds.map V.symName).Nodup) (hlen : binds.length = exprs.length) :
    ∃ d, bind st outer (.list binds) (.list exprs) = (st ++ [⟨d, some outer⟩], .ok st.length) ∧
      ∀ j (h1 : j < binds.length) (h2 : j < exprs.length),
        get (st ++ [⟨d, some outer⟩]) st.length (binds[j]).symName = .ok exprs[j] := by
  have hd : bindData (.list binds) (.list exprs) = .ok (insertAll [] (List.zip (binds.map V.symName) exprs)) := by
    rw [bindData_seq (binds := binds) (exprs := exprs) rfl rfl, bind_positional binds exprs hp]
    simp [hlen]
  refine ⟨insertAll [] (List.zip (binds.map V.symName) exprs), by simp [bind, hd], ?_⟩
  intro j h1 h2
  apply get_fresh_hit
  apply dget_insertAll_mem
  · rw [List.map_fst_zip (by simp [hlen])]; exact hnd
  · have hz : j < (List.zip (binds.map V.symName) exprs).length := by simp; omega
    have := List.getElem_mem hz
    rw [List.getElem_zip] at this
    simpa using this

/-- `bind_rest`, at the store: the rest parameter holds the list of the remaining arguments (possibly empty) -/
theorem bind_rest_binds_list (st : Store) (outer : Nat) (pre : List V) (r : String) (tail exprs : List V)
    (hp : ∀ b ∈ pre, V.plain b = true) (hlen : pre.length ≤ exprs.length) :
    ∃ d, bind st outer (.list (pre ++ .sym "&" :: .sym r :: tail)) (.list exprs)
        = (st ++ [⟨d, some outer⟩], .ok st.length) ∧
      get (st ++ [⟨d, some outer⟩]) st.length r = .ok (.list (exprs.drop pre.length)) := by
  have hd := bindData_seq (bm := .list (pre ++ .sym "&" :: .sym r :: tail)) (em := .list exprs) rfl rfl
  rw [bind_rest pre r tail exprs hp, if_neg (Nat.not_lt.mpr hlen)] at hd
  refine ⟨dset r (.list (exprs.drop pre.length)) (insertAll [] (List.zip (pre.map V.symName) exprs)),
    by simp [bind, hd], ?_⟩
  exact get_fresh_hit _ _ (dget_dset_same _ _ _)

/-! ### C04 at the level of the API: on stores built through the API no call panics, except a call made
    through a nil handle (a nil `types.EnvType` as receiver or as `outer`) -/

theorem symbolsF_ok {st : Store} (hwf : WF st) (pre : String) :
    ∀ fuel id acc, id < st.length → id < fuel → ∃ l, symbolsF st pre fuel id acc = .ok l := by
  intro fuel
  induction fuel with
  | zero => intro id _ _ h; exact absurd h (Nat.not_lt_zero _)
  | succ f ih =>
    intro id acc hid hf
    obtain ⟨sc, hsc⟩ := exists_scope hid
    cases ho : sc.outer with
    | none => exact ⟨acc ++ localSyms pre sc.data, by simp [symbolsF, hsc, ho]⟩
    | some o =>
      have hlt := hwf id sc o hsc ho
      obtain ⟨l, hl⟩ := ih o (acc ++ localSyms pre sc.data) (Nat.lt_trans hlt hid)
        (Nat.lt_of_lt_of_le hlt (Nat.le_of_lt_succ hf))
      exact ⟨l, by simp [symbolsF, hsc, ho, hl]⟩

theorem find_ok {st : Store} (hwf : WF st) {id : Nat} (hid : id < st.length) (k : String) :
    ∃ r, find st id k = .ok r := ⟨_, find_eq_chain hwf hid k⟩

theorem set_store {st : Store} (hwf : WF st) {id : Nat} (hid : id < st.length) (k : String) (v : V) :
    WF (set st id k v).1 ∧ (set st id k v).1.length = st.length ∧ (set st id k v).2 = .ok v := by
  obtain ⟨sc, hsc⟩ := exists_scope hid
  rw [set_eq hsc]
  exact ⟨WF_setData hwf hsc _, List.length_set, rfl⟩

theorem remove_store {st : Store} (hwf : WF st) {id : Nat} (hid : id < st.length) (k : String) :
    WF (remove st id k).1 ∧ (remove st id k).1.length = st.length ∧ ∀ s, (remove st id k).2 ≠ .panic s := by
  obtain ⟨sc, hsc⟩ := exists_scope hid
  cases hg : dget k sc.data with
  | none => rw [remove_absent hsc hg]; exact ⟨hwf, rfl, fun s => by simp⟩
  | some v => rw [remove_present hsc hg]; exact ⟨WF_setData hwf hsc _, List.length_set, fun s => by simp⟩

theorem update_store {st : Store} (hwf : WF st) {id : Nat} (hid : id < st.length) (k : String)
    (f : V → Except String V) :
    WF (update st id k f).1 ∧ (update st id k f).1.length = st.length ∧ ∀ s, (update st id k f).2 ≠ .panic s := by
  rw [update_eq hwf hid]
  cases hf : f (argOf (get st id k)) with
  | error m => exact ⟨hwf, rfl, fun s => by simp⟩
  | ok nv =>
    have := set_store hwf hid k nv
    exact ⟨this.1, this.2.1, fun s => by rw [this.2.2]; simp⟩

/-- the invariant of a machine driven through `step`: a well-formed store, and every register that is set
    points to a live scope -/
def Inv (m : Machine) : Prop := WF m.store ∧ ∀ r id, m.reg r = some id → id < m.store.length

/-- the two panics a caller can provoke: a nil `types.EnvType` as `outer` or as receiver -/
def nilHandle (s : String) : Prop :=
  s = "outer.(*Env) on a nil interface" ∨ s = "method call on a nil interface"

theorem inv_init : Inv {} := ⟨WF_nil, fun r id h => by
  simp [Machine.reg] at h
  rcases r with _ | _ | _ | _ | _ | r <;> simp at h⟩

theorem reg_of_set {st st' : Store} {regs : List (Option Nat)} {r id r' x : Nat}
    (h : Machine.reg ⟨st', regs.set r (some id)⟩ r' = some x) : x = id ∨ Machine.reg ⟨st, regs⟩ r' = some x := by
  simp only [Machine.reg, List.getElem?_set] at h ⊢
  by_cases hr : r = r'
  · simp only [hr, if_true] at h
    by_cases hl : r' < regs.length
    · simp [hl] at h; exact .inl h.symm
    · simp [hl] at h
  · simp only [hr, if_false] at h; exact .inr h

theorem inv_grow {m : Machine} (hi : Inv m) (d : Data) (o : Option Nat)
    (ho : ∀ x, o = some x → x < m.store.length) (r : Nat) :
    Inv { store := m.store ++ [⟨d, o⟩], regs := m.regs.set r (some m.store.length) } := by
  refine ⟨WF_append hi.1 d o ho, fun r' x h => ?_⟩
  have hlen : (m.store ++ [(⟨d, o⟩ : Scope)]).length = m.store.length + 1 := by simp
  rw [hlen]
  rcases reg_of_set (st := m.store) h with e | e
  · omega
  · exact Nat.lt_succ_of_lt (hi.2 r' x e)

theorem inv_same {m : Machine} (hi : Inv m) {st' : Store} (hwf : WF st') (hl : st'.length = m.store.length) :
    Inv { m with store := st' } :=
  ⟨hwf, fun r x h => by rw [hl]; exact hi.2 r x h⟩

/-- every operation keeps the invariant, and the only panics are the two nil-handle ones -/
theorem step_inv_and_panics {m : Machine} (hi : Inv m) (op : Op) :
    Inv (step m op).1 ∧ ∀ s, (step m op).2 = .panic s → nilHandle s := by
  cases op with
  | new r =>
    exact ⟨inv_grow hi [] none (fun x hx => by cases hx) r, fun s h => by simp [step, newEnv] at h⟩
  | sub r p =>
    simp only [step]
    cases hp : m.reg p with
    | none => exact ⟨hi, fun s h => by injection h with h; exact .inl h.symm⟩
    | some o =>
      dsimp only
      exact ⟨inv_grow hi [] (some o) (fun x hx => by injection hx with hx; subst hx; exact hi.2 p _ hp) r,
        fun s h => by simp [newSub] at h⟩
  | bind r p b e =>
    simp only [step]
    cases hp : m.reg p with
    | none => exact ⟨hi, fun s h => by injection h with h; exact .inl h.symm⟩
    | some o =>
      dsimp only
      have hnp := bind_no_panic m.store o b e
      cases hb : bind m.store o b e with
      | mk st' res =>
        cases res with
        | ok id =>
          dsimp only
          obtain ⟨hid, ⟨d, _, hst'⟩, _⟩ := bind_fresh_scope hb
          subst hid; subst hst'
          exact ⟨inv_grow hi d (some o) (fun x hx => by injection hx with hx; subst hx; exact hi.2 p _ hp) r,
            fun s h => by simp at h⟩
        | err x =>
          dsimp only
          have h1 : (bind m.store o b e).2 = .err x := by rw [hb]
          have h2 := bind_error_no_change h1
          rw [hb] at h2
          simp only at h2
          subst h2
          exact ⟨hi, fun s h => by simp at h⟩
        | panic x => exact absurd (by rw [hb]) (hnp x)
  | set r k v =>
    simp only [step]
    cases hr : m.reg r with
    | none => exact ⟨hi, fun s h => by injection h with h; exact .inr h.symm⟩
    | some id =>
      have := set_store hi.1 (hi.2 r id hr) k v
      dsimp only
      exact ⟨inv_same hi this.1 this.2.1, fun s h => by simp [this.2.2, obsOfV] at h⟩
  | get r k =>
    simp only [step]
    cases hr : m.reg r with
    | none => exact ⟨hi, fun s h => by injection h with h; exact .inr h.symm⟩
    | some id =>
      dsimp only
      refine ⟨hi, fun s h => ?_⟩
      rcases get_total hi.1 (hi.2 r id hr) k with ⟨v, hv⟩ | hv <;> simp [hv, obsOfV] at h
  | find r k =>
    simp only [step]
    cases hr : m.reg r with
    | none => exact ⟨hi, fun s h => by injection h with h; exact .inr h.symm⟩
    | some id =>
      obtain ⟨res, hres⟩ := find_ok hi.1 (hi.2 r id hr) k
      dsimp only
      rw [hres]
      cases res <;> exact ⟨hi, fun s h => by simp at h⟩
  | remove r k =>
    simp only [step]
    cases hr : m.reg r with
    | none => exact ⟨hi, fun s h => by injection h with h; exact .inr h.symm⟩
    | some id =>
      dsimp only
      have := remove_store hi.1 (hi.2 r id hr) k
      cases hrm : remove m.store id k with
      | mk st' res =>
        rw [hrm] at this
        cases res with
        | ok _ => dsimp only; exact ⟨inv_same hi this.1 this.2.1, fun s h => by simp at h⟩
        | err x => dsimp only; exact ⟨inv_same hi this.1 this.2.1, fun s h => by simp at h⟩
        | panic x => exact absurd rfl (this.2.2 x)
  | update r k md =>
    simp only [step]
    cases hr : m.reg r with
    | none => exact ⟨hi, fun s h => by injection h with h; exact .inr h.symm⟩
    | some id =>
      have := update_store hi.1 (hi.2 r id hr) k (cbFun md)
      dsimp only
      refine ⟨inv_same hi this.1 this.2.1, fun s h => ?_⟩
      cases hres : (update m.store id k (cbFun md)).2 with
      | ok v => simp [hres, obsOfV] at h
      | err x => simp [hres, obsOfV] at h
      | panic x => exact absurd hres (this.2.2 x)
  | syms r pre =>
    simp only [step]
    cases hr : m.reg r with
    | none => exact ⟨hi, fun s h => by injection h with h; exact .inr h.symm⟩
    | some id =>
      obtain ⟨l, hl⟩ := symbolsF_ok hi.1 pre (id + 1) id [] (hi.2 r id hr) (Nat.lt_succ_self _)
      dsimp only
      simp only [symbols, hl]
      exact ⟨hi, fun s h => by simp at h⟩

theorem run_inv_and_panics : ∀ (ops : List Op) (m : Machine), Inv m →
    Inv (run m ops).1 ∧ ∀ ob ∈ (run m ops).2, ∀ s, ob = .panic s → nilHandle s := by
  intro ops
  induction ops with
  | nil => intro m hi; exact ⟨hi, fun ob h => by simp [run] at h⟩
  | cons o r ih =>
    intro m hi
    have h1 := step_inv_and_panics hi o
    have h2 := ih (step m o).1 h1.1
    refine ⟨h2.1, fun ob hob s hs => ?_⟩
    simp only [run, List.mem_cons] at hob
    rcases hob with e | hob
    · exact h1.2 s (e ▸ hs)
    · exact h2.2 ob hob s hs

/-- C04 for the package used sequentially: starting from nothing, whatever sequence of API calls is made
    (any binds / exprs values, any keys, any callbacks of `cbFun`), no call panics unless it was handed a nil
    environment -/
theorem api_never_panics (ops : List Op) :
    ∀ ob ∈ (run {} ops).2, ∀ s, ob = .panic s → nilHandle s :=
  (run_inv_and_panics ops {} inv_init).2

/-! ### non-vacuity (concrete instances, by `decide`) -/

section Examples

/-- global `a = 1`, a child of it, a grandchild -/
private def st0 : Store := [⟨[("a", .int 1)], none⟩, ⟨[], some 0⟩, ⟨[("b", .int 7)], some 1⟩]

example : get st0 2 "a" = .ok (.int 1) := by decide
example : find st0 2 "a" = .ok (some 0) := by decide
example : get st0 2 "zz" = .err (.notFound "zz") := by decide
example : chain st0 2 = [2, 1, 0] := by decide
-- shadowing: the child's own binding wins, the parent keeps its own
example : get (set st0 1 "a" (.int 2)).1 2 "a" = .ok (.int 2) := by decide
example : get (set st0 1 "a" (.int 2)).1 0 "a" = .ok (.int 1) := by decide
example : find (set st0 1 "a" (.int 2)).1 2 "a" = .ok (some 1) := by decide
-- `Remove` does not climb: `a` is visible from scope 1 but not removable there
example : get st0 1 "a" = .ok (.int 1) ∧ remove st0 1 "a" = (st0, .err (.notFound "a")) := by decide
-- `Update` reads through the chain and writes into the scope itself: the global is NOT incremented
example : (update st0 2 "a" (cbFun .inc)).2 = .ok (.int 2)
    ∧ get (update st0 2 "a" (cbFun .inc)).1 2 "a" = .ok (.int 2)
    ∧ get (update st0 2 "a" (cbFun .inc)).1 0 "a" = .ok (.int 1) := by decide
-- a missing key reaches the callback as nil; a failing callback writes nothing
example : (update st0 2 "q" (cbFun .wrap)).2 = .ok (.list [.nil]) := by decide
example : update st0 2 "a" (cbFun .fail) = (st0, .err (.cb "fail")) := by decide
-- `Symbols`: per scope sorted, innermost first, a shadowed name once per holder
example : symbols (set st0 2 "a" (.int 0)).1 2 [] "" = .ok ["a", "b", "a"] := by decide
example : symbols [⟨[("abc", .nil), ("ab", .nil), ("x", .nil)], none⟩] 0 [] "a" = .ok ["b", "bc"] := by decide

-- the binder
example : bind st0 0 (.list [.sym "x", .sym "y"]) (.vec [.int 1, .int 2])
    = (st0 ++ [⟨[("y", .int 2), ("x", .int 1)], some 0⟩], .ok 3) := by decide
example : (bind st0 0 (.list [.sym "x", .sym "y"]) (.list [.int 1])).2 = .err (.tooFew 2 1) := by decide
example : (bind st0 0 (.list [.sym "x"]) (.list [.int 1, .int 2])).2 = .err (.tooMany 1 2) := by decide
example : (bind st0 0 (.list [.sym "x", .sym "&", .sym "r"]) (.list [.int 1])).1
    = st0 ++ [⟨[("r", .list []), ("x", .int 1)], some 0⟩] := by decide
example : (bind st0 0 (.list [.sym "x", .sym "&", .sym "r"]) (.list [.int 1, .int 2, .int 3])).1
    = st0 ++ [⟨[("r", .list [.int 2, .int 3]), ("x", .int 1)], some 0⟩] := by decide
example : (bind st0 0 (.list [.sym "x", .sym "&", .sym "r"]) (.list [])).2 = .err (.tooFew 3 0) := by decide
example : (bind st0 0 (.list [.sym "x", .sym "&"]) (.list [.int 1])).2 = .err .danglingAmp := by decide
example : (bind st0 0 (.list [.sym "&", .int 3]) (.list [])).2 = .err .danglingAmp := by decide
example : (bind st0 0 (.list [.int 5, .sym "x"]) (.list [])).2 = .err (.notSym "int") := by decide
-- the name check of position i comes before its arity check, the arity check of position i before the name check of i+1
example : (bind st0 0 (.list [.sym "x", .nil]) (.list [])).2 = .err (.tooFew 2 0) := by decide
example : (bind st0 0 (.list [.sym "x", .nil]) (.list [.int 1])).2 = .err (.notSym "<nil>") := by decide
example : (bind st0 0 (.int 5) (.list [])).2 = .err .nonSeq ∧ (bind st0 0 (.list []) (.str "s")).2 = .err .nonSeq := by
  decide
-- `bind_nil_skips_checks`: two parameters, NO argument list at all — no arity error, nothing bound
example : bind st0 0 (.list [.sym "x", .sym "y"]) .nil = (st0 ++ [⟨[], some 0⟩], .ok 3) := by decide
example : bind st0 0 .nil (.int 5) = (st0 ++ [⟨[], some 0⟩], .ok 3) := by decide
example : bind st0 0 (.int 5) .nil = (st0 ++ [⟨[], some 0⟩], .ok 3) := by decide
-- a repeated name: the later argument wins
example : get (bind st0 0 (.list [.sym "x", .sym "x"]) (.list [.int 1, .int 2])).1 3 "x" = .ok (.int 2) := by decide

-- the register machine: a nil handle is the only way to a panic
example : (run {} [.new 0, .sub 1 2, .get 3 "a", .bind 1 0 (.list [.sym "a"]) (.list [.int 4]), .get 1 "a"]).2
    = [.env 0, .panic "outer.(*Env) on a nil interface", .panic "method call on a nil interface", .env 1,
       .val (.int 4)] := by decide

end Examples

end LispModel.EnvAlg

/-
  C09 proofs, part 8: `VerInv` is an invariant of every run of the fixed programs.
-/
import LispModel.Proofs.ConcAtomVerStep
namespace LispModel.Proofs.ConcAtom
open LispModel.Conc

theorem VerInv.step {s s' : State} {t : Nat} (hV : VerInv s) (hL : LockInv s)
    (hs : step prog s t = some s') : VerInv s' := by
  have hk := step_kind hs
  cases hk with
  | start op more hst htd =>
    have := VerInv.setTop_quiet (ev := []) (fr' := Frame.new op) (rest' := []) (A' := s.atoms (Frame.new op).op.atom)
      hV hL hst (by simp) ⟨rfl, rfl⟩ (by simp) (not_reader_new op).1 (fun h => absurd h (not_reader_new op).2)
    refine this.of_eq ?_ ?_
    · intro a; rw [setTop_noatom]
    · intro u; by_cases hu : u = t <;> simp [State.setTop, upd, hu]
  | mop fr rest m fr' A' hst hnr hm hcb hex => exact VerInv.mop hV hL hst hnr hm hex
  | defer fr rest d ds fr1 A' hst hr hd hex =>
    have hwf := hL.wf t
    rw [hst] at hwf
    obtain ⟨hds, hdd⟩ := returning_defers hwf.1 hr hd
    subst hds
    rcases hdd with hdd | hdd <;> subst hdd <;> simp [execM] at hex <;> obtain ⟨h1, h2⟩ := hex <;>
      subst h1 <;> subst h2
    all_goals
      refine VerInv.setTop_quiet hV hL hst (fun f hf => List.mem_cons_of_mem _ hf) ?_ ?_ ?_ ?_
      · exact ⟨rfl, rfl⟩
      · intro top rest' hc; cases hc; exact not_mid_returning hr
      · simp [HalfRead, hr]
      · intro h; simp [ReaderFrame, hr] at h
  | finish fr hst hr hd =>
    refine hV.clear hst hr (fun a => rfl) (by simp) ?_
    intro u hu; simp [upd, hu]
  | popOk fr par rest' v hst hr hd hv =>
    have hwf := hL.wf t
    rw [hst] at hwf
    obtain ⟨hn, hpc, hnr, -, -⟩ := hwf.2 par (by simp)
    refine VerInv.setTop_quiet hV hL hst (fun f hf => by simp [hf]) ⟨rfl, rfl⟩ ?_ ?_ ?_
    · intro top rest2 hc; cases hc; exact not_mid_returning hr
    · simp [HalfRead, hpc]
    · intro _
      exact ⟨par, by simp, ⟨hn, hnr, by omega, by omega⟩, rfl, rfl, rfl⟩
  | popFail fr par rest' hst hr hd hv =>
    refine VerInv.setTop_quiet hV hL hst (fun f hf => by simp [hf]) ⟨rfl, rfl⟩ ?_ ?_ ?_
    · intro top rest2 hc; cases hc; exact not_mid_returning hr
    · simp [HalfRead]
    · intro h; simp [ReaderFrame] at h
  | cbApp fr rest a f hst hnr hm hop =>
    obtain ⟨hn, hpc⟩ := callback_pc (name_mem fr.op) hm
    refine VerInv.setTop_quiet hV hL hst (fun f hf => List.mem_cons_of_mem _ hf) ⟨rfl, rfl⟩ ?_ ?_ ?_
    · intro top rest2 hc; cases hc; exact not_mid_pc4 hpc
    · simp [HalfRead, hpc]
    · intro _
      exact ⟨fr, by simp, ⟨hn, hnr, by omega, by omega⟩, rfl, rfl, rfl⟩
  | cbFail fr rest a hst hnr hm hop =>
    obtain ⟨hn, hpc⟩ := callback_pc (name_mem fr.op) hm
    refine VerInv.setTop_quiet hV hL hst (fun f hf => List.mem_cons_of_mem _ hf) ⟨rfl, rfl⟩ ?_ ?_ ?_
    · intro top rest2 hc; cases hc; exact not_mid_pc4 hpc
    · simp [HalfRead]
    · intro h; simp [ReaderFrame] at h
  | cbDeref fr rest a b hst hnr hm hop =>
    obtain ⟨hn, hpc⟩ := callback_pc (name_mem fr.op) hm
    refine VerInv.setTop_quiet hV hL hst (fun f hf => hf) ⟨rfl, rfl⟩ ?_ ?_ ?_
    · intro top rest2 hc; cases hc; exact not_mid_pc4 hpc
    · exact (not_reader_new _).1
    · intro h; exact absurd h (not_reader_new _).2
  | cbSwap fr rest a b g hst hnr hm hop =>
    obtain ⟨hn, hpc⟩ := callback_pc (name_mem fr.op) hm
    refine VerInv.setTop_quiet hV hL hst (fun f hf => hf) ⟨rfl, rfl⟩ ?_ ?_ ?_
    · intro top rest2 hc; cases hc; exact not_mid_pc4 hpc
    · exact (not_reader_new _).1
    · intro h; exact absurd h (not_reader_new _).2

theorem VerInv.init (progs : List (List AOp)) (vals : Nat → Nat) : VerInv (init progs vals) := by
  constructor
  · intro t top rest hst; simp [Conc.init] at hst
  · intro t fr hfr; simp [Conc.init] at hfr

theorem inv_run {sched : List Nat} {s s' : State} (hL : LockInv s) (hV : VerInv s)
    (hr : run prog sched s = some s') : LockInv s' ∧ VerInv s' := by
  induction sched generalizing s with
  | nil => simp [Conc.run] at hr; subst hr; exact ⟨hL, hV⟩
  | cons t ts ih =>
    simp only [Conc.run, Option.bind_eq_some_iff] at hr
    obtain ⟨s1, h1, h2⟩ := hr
    exact ih (hL.step h1) (hV.step hL h1) h2

theorem ver_invariant {progs vals s} (hr : Reachable progs vals s) : VerInv s := by
  obtain ⟨sched, h⟩ := hr
  exact (inv_run (LockInv.init progs vals) (VerInv.init progs vals) h).2

/-- the validated install: when a `swap!` is about to write `Val` (version check passed under the
    write lock), the value it read is still the current one, and nobody else can write before it -/
theorem install_sees_current {s : State} (hL : LockInv s) (hV : VerInv s) {t : Nat} {fr : Frame}
    {rest : List Frame} (hst : (s.threads t).stack = fr :: rest)
    (hn : fr.op.name = .swap) (hnr : fr.returning = false) (hpc : fr.pc = 7) :
    fr.sver ≤ (s.atoms fr.op.atom).ver ∧
    (fr.sver = (s.atoms fr.op.atom).ver → fr.old = (s.atoms fr.op.atom).val) ∧
    (s.atoms fr.op.atom).w = some t := by
  have hw : (s.atoms fr.op.atom).w = some t :=
    (hL.top_w hst _).mpr ⟨rfl, by simp [holdsW, hnr, hn, hpc, holdsWAt]⟩
  obtain ⟨h1, h2⟩ := hV.saved t fr (by rw [hst]; simp) ⟨hn, hnr, by omega, by omega⟩
  refine ⟨h1, fun heq => ?_, hw⟩
  rcases h2 heq with h3 | ⟨u, top, rest2, hstu, hat, hmi⟩
  · exact h3
  · exfalso
    have hwu := (hL.w_iff fr.op.atom u).mpr ⟨top, rest2, hstu, hat, midInstall_holdsW hmi⟩
    rw [hw] at hwu
    cases hwu
    rw [hst] at hstu
    cases hstu
    obtain ⟨-, h | h⟩ := hmi
    · omega
    · rw [hn] at h; cases h.1

end LispModel.Proofs.ConcAtom

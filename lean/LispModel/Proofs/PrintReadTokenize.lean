/-
  C06, scanner level, assembled: tokenizing the printed text of a readable data value gives exactly
  the expected tokens `toksOf v` (kinds and texts).  Core Lean only.
-/
import LispModel.Proofs.PrintReadValue
namespace LispModel.Proofs.PrintRead
open LispModel LispModel.Scan LispModel.Read LispModel.Print

/-- kind and text of a token -/
def ktOf (t : Token) : KT := (t.kind, t.text)

theorem scan_eof_pair (F : Nat) (q : PState) : ∃ st, scan F [] EOF q = (none, st) := by
  have := scan_eof F q
  generalize scan F [] EOF q = o at this
  obtain ⟨o1, st⟩ := o
  simp only [] at this
  subst this
  exact ⟨st, rfl⟩

theorem tokLoop_of_toks {s s' : St} {l : List KT} (h : Toks s l s') (h1 : s'.1 = EOF) (h2 : s'.2.1 = []) :
    ∀ (n : Nat) (acc : List Token), l.length + 1 ≤ n →
      ∃ ts, tokLoop n s.2.1 s.1 s.2.2 acc = .ok (acc.reverse ++ ts) ∧ ts.map ktOf = l := by
  induction h with
  | nil s =>
    intro n acc hn
    obtain ⟨m, rfl⟩ : ∃ m, n = m + 1 := ⟨n - 1, by omega⟩
    obtain ⟨c, r, q⟩ := s
    simp only [] at h1 h2
    subst h1 h2
    obtain ⟨st, hst⟩ := scan_eof_pair (([] : List Rune).length + 2) q
    refine ⟨[], ?_, rfl⟩
    simp only [tokLoop, hst, List.append_nil]
  | @cons s s1 s' k text l hs he hp _ ih =>
    intro n acc hn
    obtain ⟨m, rfl⟩ : ∃ m, n = m + 1 := ⟨n - 1, by omega⟩
    obtain ⟨ts, hts, hmap⟩ := ih h1 h2 m
      (Token.mk k text (posOf s1.2.2).1 (posOf s1.2.2).2.1 (posOf s1.2.2).2.2 :: acc)
      (by simp only [List.length_cons] at hn; omega)
    refine ⟨Token.mk k text (posOf s1.2.2).1 (posOf s1.2.2).2.1 (posOf s1.2.2).2.2 :: ts, ?_,
      by simp [ktOf, hmap]⟩
    rw [tokLoop, hs (s.2.1.length + 1)]
    obtain ⟨c1, r1, q1⟩ := s1
    simp only [] at he hts ⊢
    have : ¬ (q1.errs ≠ 0) := by simp [he]
    rw [if_neg this, hts]
    simp

/-- from a run of tokens that ends at the end of the input to `tokenizeRunes` -/
theorem tokenizeRunes_of_toks (c : Char) (cs : List Char) (hc : c.toNat ≠ 0xFEFF) (l : List KT) (q : PState)
    (h : Toks (next (runesOf (c :: cs)) {}) l (EOF, [], q)) :
    ∃ ts, tokenizeRunes (runesOf (c :: cs)) = .ok ts ∧ ts.map ktOf = l := by
  obtain ⟨p0, hp0, _⟩ := next_cons_eq (runeOf c) (runesOf cs) {}
  have hp0' : next (runesOf (c :: cs)) {} = ((c.toNat : Int), runesOf cs, p0) := hp0
  have hs : start (runesOf (c :: cs)) = next (runesOf (c :: cs)) {} := by
    unfold start
    rw [hp0']
    simp only []
    rw [if_neg (by omega)]
  unfold tokenizeRunes
  rw [hs]
  have hlen := h.length_le
  have hpot := pot_next_le (runesOf (c :: cs)) {}
  have hpe : pot ((EOF, [], q) : St) = 0 := by simp [pot]
  obtain ⟨ts, hts, hmap⟩ := tokLoop_of_toks h rfl rfl ((runesOf (c :: cs)).length + 2) [] (by omega)
  exact ⟨ts, by simpa using hts, hmap⟩

/-- a single token that spells the whole input -/
theorem top_single {c : Char} {cs : List Char} {k : Kind} {t : List Nat}
    (h : ∃ q, (∀ F : Nat, scan (F + 1) (next (runesOf (c :: cs) ++ []) {}).2.1 (next (runesOf (c :: cs) ++ []) {}).1
        (next (runesOf (c :: cs) ++ []) {}).2.2 = (some (k, t), next [] q)) ∧ q.errs = 0) :
    ∃ q', Toks (next (runesOf (c :: cs)) {}) [(k, t)] (EOF, [], q') := by
  obtain ⟨q, hq, he⟩ := h
  rw [List.append_nil] at hq
  obtain ⟨q', hq', he'⟩ := next_nil_eq q
  rw [hq'] at hq
  refine ⟨q', Toks.cons hq (by rw [he', he]) ?_ (Toks.nil _)⟩
  have := pot_next_text c cs [] {}
  rw [List.append_nil] at this
  rw [this]
  simp [pot]

theorem top_toks_tail {text : List Char} {l : List KT}
    (h : ∃ q, q.errs = 0 ∧ Toks (next (runesOf text ++ []) {}) l (next [] q)) :
    ∃ q', Toks (next (runesOf text) {}) l (EOF, [], q') := by
  obtain ⟨q, _, hT⟩ := h
  rw [List.append_nil] at hT
  obtain ⟨q', hq', _⟩ := next_nil_eq q
  rw [hq'] at hT
  exact ⟨q', hT⟩

/-- tokenizing the printed text of a readable data value gives the expected tokens -/
theorem tokenize_print (v : Val) (h : readableData v = true) :
    ∃ ts, tokenizeRunes (runesOf (prStr true v)) = .ok ts ∧ ts.map ktOf = toksOf v := by
  cases v with
  | nil => exact ⟨[⟨.ident, [110, 105, 108], 1, 4, 3⟩], by decide, rfl⟩
  | bool b =>
    cases b with
    | true => exact ⟨[⟨.ident, [116, 114, 117, 101], 1, 5, 4⟩], by decide, rfl⟩
    | false => exact ⟨[⟨.ident, [102, 97, 108, 115, 101], 1, 6, 5⟩], by decide, rfl⟩
  | int i =>
    show ∃ ts, tokenizeRunes (runesOf (intStr i)) = .ok ts ∧ ts.map ktOf = [(.int, (intStr i).map Char.toNat)]
    have hsc := scan_int i (tail := []) (Or.inl rfl) {} rfl
    have hhead : ∃ c cs, intStr i = c :: cs ∧ c.toNat ≠ 0xFEFF := by
      cases i with
      | ofNat n =>
        obtain ⟨c, r, hcr, hc, _⟩ := natDigits_spec (n + 1) n (by omega)
        exact ⟨c, r, by simp [intStr, hcr], by obtain ⟨a, b⟩ := hc; omega⟩
      | negSucc n => exact ⟨'-', _, rfl, by decide⟩
    obtain ⟨c, cs, hcs, hc⟩ := hhead
    rw [hcs] at hsc ⊢
    obtain ⟨q', hT⟩ := top_single hsc
    exact tokenizeRunes_of_toks c cs hc _ q' hT
  | str s =>
    show ∃ ts, tokenizeRunes (runesOf (prString true s)) = .ok ts ∧ ts.map ktOf = [strTok s]
    have hr : readableStr s = true := h
    unfold readableStr at hr
    by_cases hkw : Val.isKwStr s = true
    · rw [if_pos hkw] at hr
      obtain ⟨name, t, hs, ht, hk, htx⟩ := readableKw_spec hr
      rw [prString_kw true hs]
      rw [tokensOfString_eq, String.toList_ofList] at ht
      refine ⟨[t], ht, ?_⟩
      have e : strTok s = (t.kind, t.text) := by
        simp only [strTok, hkw, if_true]
        exact kwTok_eq hs (by rw [tokensOfString_eq, String.toList_ofList]; exact ht)
      rw [e]; rfl
    · rw [if_neg hkw] at hr
      have hkw' : Val.isKwStr s = false := by simpa using hkw
      obtain ⟨⟨c, cs, hcs, _⟩, hbom, hsc⟩ := scan_str hkw' (by simpa using hr) (tail := [])
        (fun _ _ h => by cases h) {} rfl
      rw [hcs] at hsc hbom ⊢
      obtain ⟨q', hT⟩ := top_single hsc
      refine tokenizeRunes_of_toks c cs ?_ _ q' hT
      intro hc
      apply hbom
      simp only [List.head?_cons, Option.some.injEq]
      rw [← Char.ofNat_toNat c, hc]
  | sym s pos =>
    show ∃ ts, tokenizeRunes (runesOf s.toList) = .ok ts ∧ ts.map ktOf = [symTok s]
    obtain ⟨t, ht, _, _⟩ := readableSym_spec (s := s) h
    rw [symTok_eq ht]
    rw [tokensOfString_eq] at ht
    exact ⟨[t], ht, rfl⟩
  | list xs pos =>
    have hall := el_list xs h
    obtain ⟨q', hT⟩ := top_toks_tail (toks_bracketed '(' (Or.inl rfl) (listItems xs) hall ')' (Or.inl rfl)
      (tail := []) (Or.inl rfl) {} rfl)
    have := tokenizeRunes_of_toks '(' _ (by decide) _ q' hT
    show ∃ ts, tokenizeRunes (runesOf ('(' :: intercalate [' '] (prList true xs) ++ [')'])) = .ok ts ∧
      ts.map ktOf = (.char 40, [40]) :: toksList xs ++ [(.char 41, [41])]
    rw [prList_eq, toksList_eq]
    exact this
  | vec xs pos =>
    have hall := el_list xs h
    obtain ⟨q', hT⟩ := top_toks_tail (toks_bracketed '[' (Or.inr (Or.inr (Or.inl rfl))) (listItems xs) hall ']'
      (Or.inr (Or.inl rfl)) (tail := []) (Or.inl rfl) {} rfl)
    have := tokenizeRunes_of_toks '[' _ (by decide) _ q' hT
    show ∃ ts, tokenizeRunes (runesOf ('[' :: intercalate [' '] (prList true xs) ++ [']'])) = .ok ts ∧
      ts.map ktOf = (.char 91, [91]) :: toksList xs ++ [(.char 93, [93])]
    rw [prList_eq, toksList_eq]
    exact this
  | map kvs =>
    have hall := el_map kvs h
    obtain ⟨q', hT⟩ := top_toks_tail (toks_bracketed '{' (Or.inr (Or.inr (Or.inr (Or.inr (Or.inl rfl)))))
      (mapItems kvs) hall '}' (Or.inr (Or.inr rfl)) (tail := []) (Or.inl rfl) {} rfl)
    have := tokenizeRunes_of_toks '{' _ (by decide) _ q' hT
    show ∃ ts, tokenizeRunes (runesOf ('{' :: intercalate [' '] (prMap true kvs) ++ ['}'])) = .ok ts ∧
      ts.map ktOf = (.char 123, [123]) :: toksMap kvs ++ [(.char 125, [125])]
    rw [prMap_eq, toksMap_eq]
    exact this
  | set ks =>
    have hall := el_setItems ks h
    obtain ⟨q', hT⟩ := top_toks_tail (toks_set_bracketed (setItems ks) hall (tail := []) (Or.inl rfl) {} rfl)
    have := tokenizeRunes_of_toks '#' _ (by decide) _ q' hT
    show ∃ ts, tokenizeRunes (runesOf ('#' :: '{' :: intercalate [' '] (ks.map (prString true)) ++ ['}'])) = .ok ts ∧
      ts.map ktOf = (.ident, [35, 123]) :: ks.map strTok ++ [(.char 125, [125])]
    have e1 : ks.map (prString true) = (setItems ks).map (·.1) := by simp [setItems]
    rw [e1, setItems_toks]
    exact this
  | fn _ _ _ _ _ => cases h
  | builtin _ => cases h
  | atom _ => cases h
  | future _ => cases h
  | goerr _ => cases h
  | «opaque» _ => cases h

end LispModel.Proofs.PrintRead

/-
  C09 proofs, part 9: writes happen only under the writer's own lock; the version check of `swap!`
  stays valid until the install; the linearization log is a legal sequential history.
-/
import LispModel.Proofs.ConcAtomVerInv
import LispModel.Proofs.ConcAtomRace
namespace LispModel.Proofs.ConcAtom
open LispModel.Conc

theorem setTop_atoms_eq (s : State) (t fr' rest A' ev) {a : Nat} (h : fr'.op.atom = a) :
    (s.setTop t fr' rest A' ev).atoms a = A' := by subst h; exact setTop_atoms_same _ _ _ _ _ _

theorem setTop_atoms_ne (s : State) (t fr' rest A' ev) {a b : Nat} (h : fr'.op.atom = a) (hb : b ≠ a) :
    (s.setTop t fr' rest A' ev).atoms b = s.atoms b := by
  subst h; exact setTop_atoms_other _ _ _ _ _ _ hb

theorem step_other_thread {code : OpName → Program} {s s' : State} {u t : Nat}
    (hs : step code s u = some s') (htu : t ≠ u) : s'.threads t = s.threads t := by
  have hk := step_kind hs
  cases hk <;> simp [State.setTop, upd, htu]

/-- `Val` and `version` of an atom change only by a step of the thread holding its write lock -/
theorem step_writes_locked {s s' : State} {u : Nat} (hL : LockInv s) (hs : step prog s u = some s') (a : Nat)
    (hne : (s'.atoms a).val ≠ (s.atoms a).val ∨ (s'.atoms a).ver ≠ (s.atoms a).ver) :
    (s.atoms a).w = some u := by
  have hk := step_kind hs
  cases hk with
  | start op more hst htd => simp at hne
  | finish fr hst hr hd => simp at hne
  | popOk fr par rest' v hst hr hd hv => rw [setTop_noatom] at hne; simp at hne
  | popFail fr par rest' hst hr hd hv => rw [setTop_noatom] at hne; simp at hne
  | cbApp fr rest a' f hst hnr hm hop => rw [setTop_noatom] at hne; simp at hne
  | cbFail fr rest a' hst hnr hm hop => rw [setTop_noatom] at hne; simp at hne
  | cbDeref fr rest a' b hst hnr hm hop =>
    have e : (s.setTop u (Frame.new (AOp.deref b)) (fr :: rest) (s.atoms b) []).atoms a = s.atoms a :=
      setTop_noatom s u (Frame.new (.deref b)) (fr :: rest) [] a
    rw [e] at hne; simp at hne
  | cbSwap fr rest a' b g hst hnr hm hop =>
    have e : (s.setTop u (Frame.new (AOp.swap b g)) (fr :: rest) (s.atoms b) []).atoms a = s.atoms a :=
      setTop_noatom s u (Frame.new (.swap b g)) (fr :: rest) [] a
    rw [e] at hne; simp at hne
  | defer fr rest d ds fr1 A' hst hr hd hex =>
    exfalso
    have hop : ({ fr1 with pc := fr.pc } : Frame).op.atom = fr.op.atom := by
      have := (execM_eff hex).1; simp at this; simp [this]
    obtain ⟨-, d2, -, d4, -⟩ := execM_data hex
    have hwf := hL.wf u
    rw [hst] at hwf
    obtain ⟨-, hdd⟩ := returning_defers hwf.1 hr hd
    have n1 : d ≠ .write .val := by rcases hdd with h | h <;> rw [h] <;> simp
    have n2 : d ≠ .write .ver := by rcases hdd with h | h <;> rw [h] <;> simp
    by_cases ha : a = fr.op.atom
    · subst ha
      rw [setTop_atoms_eq _ _ _ _ _ _ hop, d2 n1, d4 n2] at hne
      simp at hne
    · rw [setTop_atoms_ne _ _ _ _ _ _ hop ha] at hne
      simp at hne
  | mop fr rest m fr' A' hst hnr hm hcb hex =>
    have hop : fr'.op.atom = fr.op.atom := by rw [(execM_eff hex).1]
    obtain ⟨-, d2, -, d4, -⟩ := execM_data hex
    by_cases ha : a = fr.op.atom
    · subst ha
      rw [setTop_atoms_eq _ _ _ _ _ _ hop] at hne
      have hwr : m = .write .val ∨ m = .write .ver := by
        by_cases h1 : m = .write .val
        · exact Or.inl h1
        · by_cases h2 : m = .write .ver
          · exact Or.inr h2
          · rw [d2 h1, d4 h2] at hne; simp at hne
      have hacc : nextAccess prog s u = some (fr.op.atom, (if m = .write .val then Loc.val else Loc.ver), true) := by
        unfold nextAccess
        rw [hst]
        simp only [hnr, hm]
        rcases hwr with h | h <;> subst h <;> simp
      exact (hL.access_guarded hacc).1 rfl
    · rw [setTop_atoms_ne _ _ _ _ _ _ hop ha] at hne
      simp at hne

/-- a `swap!` about to install has a saved version equal to the current one -/
def Checked (s : State) : Prop :=
  ∀ t top rest, (s.threads t).stack = top :: rest → top.op.name = .swap → top.returning = false →
    top.pc = 7 → top.sver = (s.atoms top.op.atom).ver

def chkEntry (n : OpName) (pc : Nat) (m : MOp) : Bool :=
  (ctl m pc (defersAt n pc)).all fun (pc', _, ret') =>
    (!ret' && n == .swap && pc' == 7) → (pc == 6 && m == .brNe .ver 11)

theorem chkTable_true : forAllOps chkEntry = true := by decide

theorem Checked.mop {s : State} {t : Nat} {fr fr' : Frame} {rest : List Frame} {m : MOp} {A' : AtomS}
    (hL : LockInv s) (hst : (s.threads t).stack = fr :: rest) (hnr : fr.returning = false)
    (hm : (prog fr.op.name)[fr.pc]? = some m)
    (hex : execM t m fr (s.atoms fr.op.atom) = some (fr', A'))
    (hn : fr'.op.name = .swap) (hnr' : fr'.returning = false) (hpc' : fr'.pc = 7) :
    fr'.sver = A'.ver := by
  have hwfs := hL.wf t
  rw [hst] at hwfs
  have hwf := hwfs.1
  unfold FrameWF at hwf
  simp only [hnr] at hwf
  obtain ⟨-, hds, -⟩ := hwf
  obtain ⟨hctl, -⟩ := execM_ctl hex hnr
  rw [hds] at hctl
  have hop := (execM_eff hex).1
  have tab := forAllOps_spec chkTable_true (name_mem fr.op) hm
  unfold chkEntry at tab
  rw [List.all_eq_true] at tab
  have tab := tab _ hctl
  rw [hop] at hn
  simp only [hnr', hn, hpc', Bool.not_false, beq_self_eq_true, Bool.and_self, decide_eq_true_eq,
    Bool.and_eq_true, beq_iff_eq, forall_const] at tab
  obtain ⟨-, hmm⟩ := tab
  subst hmm
  simp only [execM] at hex
  split at hex
  · simp at hex; obtain ⟨h1, h2⟩ := hex; subst h1; simp at hpc'
  · rename_i heq
    simp at hex; obtain ⟨h1, h2⟩ := hex; subst h1; subst h2
    simp at heq; exact heq.symm

theorem Checked.step {s s' : State} {u : Nat} (hC : Checked s) (hL : LockInv s)
    (hs : step prog s u = some s') : Checked s' := by
  intro t top rest hst' hn hnr hpc
  by_cases htu : t = u
  · subst htu
    have hk := step_kind hs
    cases hk with
    | start op more hst htd =>
      simp at hst'; obtain ⟨h1, -⟩ := hst'; subst h1
      cases op <;> simp [Frame.new] at hpc
    | finish fr hst hr hd => simp at hst'
    | popOk fr par rest' v hst hr hd hv =>
      rw [setTop_stack_same] at hst'; cases hst'
      have hwf := hL.wf t; rw [hst] at hwf
      obtain ⟨-, hp, -⟩ := hwf.2 par (by simp)
      simp [hp] at hpc
    | popFail fr par rest' hst hr hd hv => rw [setTop_stack_same] at hst'; cases hst'; simp at hnr
    | cbApp fr rest' a f hst hnr0 hm hop =>
      rw [setTop_stack_same] at hst'; cases hst'
      obtain ⟨-, hp⟩ := callback_pc (name_mem fr.op) hm
      simp [hp] at hpc
    | cbFail fr rest' a hst hnr0 hm hop => rw [setTop_stack_same] at hst'; cases hst'; simp at hnr
    | cbDeref fr rest' a b hst hnr0 hm hop => rw [setTop_stack_same] at hst'; cases hst'; simp [Frame.new] at hpc
    | cbSwap fr rest' a b g hst hnr0 hm hop => rw [setTop_stack_same] at hst'; cases hst'; simp [Frame.new] at hpc
    | defer fr rest' d ds fr1 A' hst hr hd hex =>
      rw [setTop_stack_same] at hst'; cases hst'
      have hwf := hL.wf t; rw [hst] at hwf
      obtain ⟨hds, hdd⟩ := returning_defers hwf.1 hr hd
      rcases hdd with hdd | hdd <;> subst hdd <;> simp [execM] at hex <;> obtain ⟨h1, -⟩ := hex <;> subst h1 <;>
        simp [hr] at hnr
    | mop fr rest' m fr' A' hst hnr0 hm hcb hex =>
      rw [setTop_stack_same] at hst'; cases hst'
      rw [setTop_atoms_same]
      exact Checked.mop hL hst hnr0 hm hex hn hnr hpc
  · have hth := step_other_thread hs htu
    rw [hth] at hst'
    have h0 := hC t top rest hst' hn hnr hpc
    rw [h0]
    by_cases hv : (s'.atoms top.op.atom).ver = (s.atoms top.op.atom).ver
    · exact hv.symm
    · have hw := step_writes_locked hL hs top.op.atom (Or.inr hv)
      have hwt := (hL.top_w hst' top.op.atom).mpr ⟨rfl, by simp [holdsW, hnr, hn, hpc, holdsWAt]⟩
      rw [hw] at hwt; cases hwt; exact absurd rfl htu

end LispModel.Proofs.ConcAtom

/-
  C06, scanner level: one call of `Scan.scan` as "skip white space, then either a comment and
  again, or one token (`scanTok`) whose text is what was consumed".  Core Lean only.
-/
import LispModel.Scan
import LispModel.Proofs.Scanner
namespace LispModel.Proofs.PrintRead
open LispModel LispModel.Scan

/-- the token branches of `Scan.scan` (everything but white space, comments and the token text) -/
def scanTok (ch : Int) (rest : List Rune) (p : PState) : Option (Kind × St) :=
  if isIdentRune ch 0 then some (.ident, scanIdentifier rest p)
  else if isDecimal ch then some (scanNumber [] rest ch p false false)
  else if ch = 45 then
    let (c, r, q) := next rest p
    if isIdentRune c 0 then some (.ident, scanIdentifier r q)
    else if isDecimal c then some (scanNumber [45] r c q false true)
    else some (.ident, (c, r, q))
  else if ch < 0 then none
  else if ch = 34 then
    let (_, r, q) := scanString rest p
    some (.string, next r q)
  else if ch = 58 then some (.keyword, scanIdentifier rest p)
  else if ch = 46 then
    let (c, r, q) := next rest p
    if isDecimal c then some (scanNumber [46] r c q true false)
    else some (.char 46, (c, r, q))
  else if ch = 172 then some (.rawString, scanRawString rest p)
  else if ch = 126 then
    let (c, r, q) := next rest p
    if c = 64 then some (.ident, next r q) else some (.char 126, (c, r, q))
  else if ch = 35 then
    let (c, r, q) := next rest p
    if c = 123 then some (.ident, next r q) else some (.char 35, (c, r, q))
  else some (.char ch.toNat, next rest p)

/-- the result of `scan` from a token -/
def finTok (ch0 : Int) (restStart : List Rune) (s0 : St) : Option (Kind × St) → Option (Kind × List Nat) × St
  | none => (none, s0)
  | some (k, s) => (some (k, consumed ch0 restStart s.2.1 s.1), s)

theorem scan_succ (F : Nat) (r : List Rune) (ch : Int) (p : PState) :
    scan (F + 1) r ch p =
      (let s0 := skipWhite r ch p
       if s0.1 = 59 then
         (let n := next s0.2.1 s0.2.2
          let c := scanComment n.2.1 n.1 n.2.2
          scan F c.2.1 c.1 c.2.2)
       else finTok s0.1 s0.2.1 s0 (scanTok s0.1 s0.2.1 s0.2.2)) := by
  rw [scan]
  generalize skipWhite r ch p = s0
  obtain ⟨ch1, r1, p1⟩ := s0
  simp only []
  by_cases h59 : ch1 = 59
  · subst h59
    simp only [if_true]
    rfl
  · simp only [h59, if_false]
    unfold scanTok
    by_cases c1 : isIdentRune ch1 0 = true
    · simp only [c1, if_true]; rfl
    simp only [c1, if_false, Bool.false_eq_true]
    by_cases c2 : isDecimal ch1 = true
    · simp only [c2, if_true]; rfl
    simp only [c2, if_false, Bool.false_eq_true]
    by_cases c3 : ch1 = 45
    · simp only [c3, if_true]
      by_cases c31 : isIdentRune (next r1 p1).1 0 = true
      · simp only [c31, if_true]; rfl
      simp only [c31, if_false, Bool.false_eq_true]
      by_cases c32 : isDecimal (next r1 p1).1 = true
      · simp only [c32, if_true]; rfl
      simp only [c32, if_false, Bool.false_eq_true]; rfl
    simp only [c3, if_false]
    by_cases c4 : ch1 < 0
    · simp only [c4, if_true]; rfl
    simp only [c4, if_false]
    by_cases c5 : ch1 = 34
    · simp only [c5, if_true]; rfl
    simp only [c5, if_false]
    by_cases c6 : ch1 = 58
    · simp only [c6, if_true]; rfl
    simp only [c6, if_false]
    by_cases c7 : ch1 = 46
    · simp only [c7, if_true]
      by_cases c71 : isDecimal (next r1 p1).1 = true
      · simp only [c71, if_true]; rfl
      simp only [c71, if_false, Bool.false_eq_true]; rfl
    simp only [c7, if_false]
    by_cases c9 : ch1 = 172
    · simp only [c9, if_true]; rfl
    simp only [c9, if_false]
    by_cases c10 : ch1 = 126
    · simp only [c10, if_true]
      by_cases c101 : (next r1 p1).1 = 64
      · simp only [c101, if_true]; rfl
      simp only [c101, if_false]; rfl
    simp only [c10, if_false]
    by_cases c11 : ch1 = 35
    · simp only [c11, if_true]
      by_cases c111 : (next r1 p1).1 = 123
      · simp only [c111, if_true]; rfl
      simp only [c111, if_false]; rfl
    simp only [c11, if_false]
    rfl

/-! ### white space and comments -/

theorem skipWhite_stop (r : List Rune) (ch : Int) (p : PState) (h : isWhite ch = false) :
    skipWhite r ch p = (ch, r, p) := by
  cases r <;> simp [skipWhite, h]

theorem skipWhite_step (x : Rune) (xs : List Rune) (ch : Int) (p : PState) (h : isWhite ch = true) :
    skipWhite (x :: xs) ch p = skipWhite xs (next (x :: xs) p).1 (next (x :: xs) p).2.2 := by
  rw [skipWhite]; simp only [h, if_true]

theorem skipWhite_nil (ch : Int) (p : PState) (h : isWhite ch = true) :
    skipWhite [] ch p = next [] p := by
  rw [skipWhite]; simp only [h, if_true]

theorem skipWhite_length : ∀ (r : List Rune) (ch : Int) (p : PState), (skipWhite r ch p).2.1.length ≤ r.length := by
  intro r
  induction r with
  | nil => intro ch p; unfold skipWhite; split <;> simp [next]
  | cons x xs ih =>
    intro ch p
    by_cases h : isWhite ch = true
    · rw [skipWhite_step _ _ _ _ h]
      exact Nat.le_trans (ih _ _) (by simp)
    · rw [skipWhite_stop _ _ _ (by simpa using h)]; simp

theorem commentLoop_length : ∀ (r : List Rune) (ch : Int) (p : PState),
    (commentLoop r ch p).2.1.length ≤ r.length := by
  intro r
  induction r with
  | nil => intro ch p; unfold commentLoop; split <;> simp [next]
  | cons x xs ih =>
    intro ch p
    unfold commentLoop
    split
    · exact Nat.le_trans (ih _ _) (by simp)
    · simp

theorem scanComment_length (r : List Rune) (ch : Int) (p : PState) :
    (scanComment r ch p).2.1.length ≤ r.length := by
  unfold scanComment
  split
  · have h1 := Scanner.next_length r p
    generalize next r p = n at h1
    obtain ⟨c, r', q⟩ := n
    exact Nat.le_trans (commentLoop_length _ _ _) h1
  · simp

theorem consumed_le (c0 : Int) (rs re : List Rune) (ce : Int) : (consumed c0 rs re ce).length ≤ rs.length + 1 := by
  rw [Scanner.consumed_length]
  split <;> split <;> omega

/-- the text of a token is no longer than the unread input plus the look-ahead -/
theorem scan_text_le : ∀ (F : Nat) (r : List Rune) (ch : Int) (p : PState) (k : Kind) (text : List Nat) (s : St),
    scan F r ch p = (some (k, text), s) → text.length ≤ r.length + 1 := by
  intro F
  induction F with
  | zero => intro r ch p k text s h; simp [scan] at h
  | succ F ih =>
    intro r ch p k text s h
    rw [scan_succ] at h
    have hsw := skipWhite_length r ch p
    generalize skipWhite r ch p = s0 at h hsw
    obtain ⟨ch1, r1, p1⟩ := s0
    simp only [] at h hsw
    split at h
    · have h1 := Scanner.next_length r1 p1
      have h2 := scanComment_length (next r1 p1).2.1 (next r1 p1).1 (next r1 p1).2.2
      have := ih _ _ _ _ _ _ h
      omega
    · cases ht : scanTok ch1 r1 p1 with
      | none => rw [ht] at h; simp [finTok] at h
      | some ks =>
        obtain ⟨k', s'⟩ := ks
        rw [ht] at h
        simp only [finTok, Prod.mk.injEq, Option.some.injEq] at h
        obtain ⟨⟨_, h2⟩, _⟩ := h
        rw [← h2]
        exact Nat.le_trans (consumed_le _ _ _ _) (by omega)

theorem scan_of_scanTok (F : Nat) (r : List Rune) (ch : Int) (p : PState) (k : Kind) (s : St)
    (hw : isWhite ch = false) (h59 : ¬ ch = 59) (h : scanTok ch r p = some (k, s)) :
    scan (F + 1) r ch p = (some (k, consumed ch r s.2.1 s.1), s) := by
  rw [scan_succ, skipWhite_stop _ _ _ hw]
  simp only [if_neg h59, h, finTok]

end LispModel.Proofs.PrintRead

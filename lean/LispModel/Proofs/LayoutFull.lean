/-
  Full layout invariance of the tokenizer (C19 / C17).

  §1  `SRel`: every scanning function only moves forward — a preorder on scanner states `(look-ahead, unread
      runes, bookkeeping)` that `next` and `err` respect is respected by every function of Scan.lean;
  §2  the number scanner cut into stages;
  §3  the simulation: two runs over `u ++ xA` / `u ++ xB` (a common part `u`, then different texts) stay in
      lockstep — same look-aheads, same kinds and texts, related bookkeeping — as long as run A does not read
      beyond the first rune of `xA`, provided the first rune of `xB` is one that ends every token (white
      space, `;`, or the end of the input);
  §4  the token loop; §5 gaps; §6 the theorems for Props/C19.lean and Props/C17.lean.
  Core Lean only.
-/
import LispModel.Scan
import LispModel.Proofs.Layout
import LispModel.Proofs.Scanner
namespace LispModel.Proofs.LayoutFull
open LispModel LispModel.Scan LispModel.Proofs.Layout

/-! ## §1 every scanning function only moves forward -/

/-- a preorder on scanner states that `next` and `err` (possibly with a replaced look-ahead) respect -/
structure SRel (R : St → St → Prop) : Prop where
  refl : ∀ s, R s s
  trans : ∀ {a b c}, R a b → R b c → R a c
  next : ∀ ch rest p, R (ch, rest, p) (next rest p)
  err : ∀ ch ch' rest p, R (ch, rest, p) (ch', rest, Scan.err p)

section srel
variable {R : St → St → Prop} (hR : SRel R)
include hR

theorem s_next_cons (ch : Int) (r : Rune) (rs : List Rune) (p : PState) :
    R (ch, r :: rs, p) (Int.ofNat r.ch, rs, step r p) := by
  have := hR.next ch (r :: rs) p; rwa [next_cons_eq] at this

theorem identLoop_s : ∀ rest ch p, R (ch, rest, p) (identLoop rest ch p) := by
  intro rest
  induction rest with
  | nil => intro ch p; unfold identLoop; split; exact hR.next _ _ _; exact hR.refl _
  | cons r rs ih =>
    intro ch p; unfold identLoop; split
    · rw [next_cons_eq]; exact hR.trans (s_next_cons hR ch r rs p) (ih _ _)
    · exact hR.refl _

theorem scanIdentifier_s (ch : Int) (rest : List Rune) (p : PState) : R (ch, rest, p) (scanIdentifier rest p) := by
  unfold scanIdentifier
  have h := hR.next ch rest p
  generalize next rest p = x at h ⊢
  obtain ⟨c, r, q⟩ := x
  exact hR.trans h (identLoop_s hR _ _ _)

theorem skipWhite_s : ∀ rest ch p, R (ch, rest, p) (skipWhite rest ch p) := by
  intro rest
  induction rest with
  | nil => intro ch p; unfold skipWhite; split; exact hR.next _ _ _; exact hR.refl _
  | cons r rs ih =>
    intro ch p; unfold skipWhite; split
    · rw [next_cons_eq]; exact hR.trans (s_next_cons hR ch r rs p) (ih _ _)
    · exact hR.refl _

theorem commentLoop_s : ∀ rest ch p, R (ch, rest, p) (commentLoop rest ch p) := by
  intro rest
  induction rest with
  | nil => intro ch p; unfold commentLoop; split; exact hR.next _ _ _; exact hR.refl _
  | cons r rs ih =>
    intro ch p; unfold commentLoop; split
    · rw [next_cons_eq]; exact hR.trans (s_next_cons hR ch r rs p) (ih _ _)
    · exact hR.refl _

theorem scanComment_s (rest : List Rune) (ch : Int) (p : PState) : R (ch, rest, p) (scanComment rest ch p) := by
  unfold scanComment; split
  · have h := hR.next ch rest p
    generalize next rest p = x at h ⊢
    obtain ⟨c, r, q⟩ := x
    exact hR.trans h (commentLoop_s hR _ _ _)
  · exact hR.refl _

theorem digitsLoop_s (base : Nat) : ∀ rest ch p ds inv, R (ch, rest, p) (digitsLoop base rest ch p ds inv).1 := by
  intro rest
  induction rest with
  | nil =>
    intro ch p ds inv; unfold digitsLoop; simp only []
    split <;> split <;> first | exact hR.next _ _ _ | exact hR.refl _
  | cons r rs ih =>
    intro ch p ds inv; unfold digitsLoop; simp only []
    split <;> split <;>
      first | (rw [next_cons_eq]; exact hR.trans (s_next_cons hR ch r rs p) (ih _ _ _ _)) | exact hR.refl _

theorem scanDigits_s (base : Nat) : ∀ n rest ch p, R (ch, rest, p) (scanDigits base n rest ch p) := by
  intro n
  induction n with
  | zero => intro rest ch p; exact hR.refl _
  | succ n ih =>
    intro rest ch p; unfold scanDigits; split
    · have h := hR.next ch rest p
      generalize next rest p = x at h ⊢
      obtain ⟨c, r, q⟩ := x
      exact hR.trans h (ih _ _ _)
    · exact hR.err _ _ _ _

theorem scanEscape_s (ch : Int) (rest : List Rune) (p : PState) : R (ch, rest, p) (scanEscape rest p) := by
  unfold scanEscape
  simp only []
  have h1 := hR.next ch rest p
  generalize next rest p = x at h1 ⊢
  obtain ⟨c, r, q⟩ := x
  simp only [] at h1 ⊢
  have h2 := hR.next c r q
  generalize next r q = y at h2 ⊢
  obtain ⟨c2, r2, q2⟩ := y
  split
  · exact hR.trans h1 h2
  split
  · exact hR.trans h1 (scanDigits_s hR _ _ _ _ _)
  split
  · exact hR.trans h1 (hR.trans h2 (scanDigits_s hR _ _ _ _ _))
  split
  · exact hR.trans h1 (hR.trans h2 (scanDigits_s hR _ _ _ _ _))
  split
  · exact hR.trans h1 (hR.trans h2 (scanDigits_s hR _ _ _ _ _))
  · exact hR.trans h1 (hR.err _ _ _ _)

theorem stringLoop_s : ∀ fuel rest ch p, R (ch, rest, p) (stringLoop fuel rest ch p) := by
  intro fuel
  induction fuel with
  | zero => intro rest ch p; exact hR.refl _
  | succ n ih =>
    intro rest ch p; unfold stringLoop
    split
    · exact hR.refl _
    split
    · exact hR.err _ _ _ _
    split
    · have h := scanEscape_s hR ch rest p
      generalize scanEscape rest p = x at h ⊢
      obtain ⟨c, r, q⟩ := x
      exact hR.trans h (ih _ _ _)
    · have h := hR.next ch rest p
      generalize next rest p = x at h ⊢
      obtain ⟨c, r, q⟩ := x
      exact hR.trans h (ih _ _ _)

theorem scanString_s (ch : Int) (rest : List Rune) (p : PState) : R (ch, rest, p) (scanString rest p) := by
  unfold scanString
  have h := hR.next ch rest p
  generalize next rest p = x at h ⊢
  obtain ⟨c, r, q⟩ := x
  exact hR.trans h (stringLoop_s hR _ _ _ _)

theorem rawLoop_s : ∀ rest b ch p, R (ch, rest, p) (rawLoop b rest ch p) := by
  intro rest
  induction rest with
  | nil =>
    intro b ch p
    cases b <;> unfold rawLoop <;> simp only []
    · split
      · exact hR.next _ _ _
      split
      · exact hR.err _ _ _ _
      · exact hR.trans (hR.next ch [] p) (hR.err _ _ _ _)
    · split
      · exact hR.refl _
      · exact hR.trans (hR.next ch [] p) (hR.err _ _ _ _)
  | cons r rs ih =>
    intro b ch p
    cases b <;> unfold rawLoop <;> simp only []
    · split
      · rw [next_cons_eq]; exact hR.trans (s_next_cons hR ch r rs p) (ih _ _ _)
      split
      · exact hR.err _ _ _ _
      · rw [next_cons_eq]; exact hR.trans (s_next_cons hR ch r rs p) (ih _ _ _)
    · split
      · exact hR.refl _
      · rw [next_cons_eq]; exact hR.trans (s_next_cons hR ch r rs p) (ih _ _ _)

theorem scanRawString_s (ch : Int) (rest : List Rune) (p : PState) : R (ch, rest, p) (scanRawString rest p) := by
  unfold scanRawString
  have h := hR.next ch rest p
  generalize next rest p = x at h ⊢
  obtain ⟨c, r, q⟩ := x
  exact hR.trans h (rawLoop_s hR _ _ _ _)

end srel

/-! ## §2 the number scanner, stage by stage (literal pieces of `scanNumber`) -/

/-- base prefix: `0x` / `0o` / `0b` / leading `0`, or a minus sign -/
def nPrefix (rest : List Rune) (ch : Int) (p : PState) : Nat × Int × Nat × Int × List Rune × PState :=
  if ch = 48 then
    let (c, r, q) := next rest p
    if lower c = 120 then let (c2, r2, q2) := next r q; (16, (120 : Int), 0, c2, r2, q2)
    else if lower c = 111 then let (c2, r2, q2) := next r q; (8, (111 : Int), 0, c2, r2, q2)
    else if lower c = 98 then let (c2, r2, q2) := next r q; (2, (98 : Int), 0, c2, r2, q2)
    else (8, (48 : Int), 1, c, r, q)
  else if ch = 45 then
    let (c, r, q) := next rest p
    (10, (0 : Int), 0, c, r, q)
  else (10, (0 : Int), 0, ch, rest, p)

/-- the integer part -/
def nInt (rest : List Rune) (ch : Int) (p : PState) (seenDot : Bool) :
    Kind × Nat × Int × Nat × Int × List Rune × PState × Bool × Int :=
  if !seenDot then
    let (base, prefx, digsep, ch, rest, p) := nPrefix rest ch p
    let ((ch, rest, p), ds, inv) := digitsLoop base rest ch p 0 0
    let digsep := digsep ||| ds
    if ch = 46 then
      let (c, r, q) := next rest p
      (Kind.int, base, prefx, digsep, c, r, q, true, inv)
    else (Kind.int, base, prefx, digsep, ch, rest, p, false, inv)
  else (Kind.float, 10, (0 : Int), 0, ch, rest, p, true, (0 : Int))

/-- the fractional part -/
def nFrac (tok0 : Kind) (base : Nat) (prefx : Int) (digsep0 : Nat) (ch : Int) (rest : List Rune) (p : PState)
    (seenDot : Bool) (inv : Int) : Kind × Nat × Int × List Rune × PState × Int :=
  if seenDot then
    let p := if prefx = 111 || prefx = 98 then err p else p
    let ((ch, rest, p), ds, inv) := digitsLoop base rest ch p 0 inv
    (Kind.float, digsep0 ||| ds, ch, rest, p, inv)
  else (tok0, digsep0, ch, rest, p, inv)

/-- "no digits": a lone minus sign, or an error -/
def nSep (tok1 : Kind) (digsep1 : Nat) (negative : Bool) (p : PState) : Kind × PState :=
  if digsep1 % 2 = 0 then
    if negative then (Kind.char 45, p) else (tok1, err p)
  else (tok1, p)

/-- the exponent -/
def nExp (tok2 : Kind) (prefx : Int) (digsep1 : Nat) (ch : Int) (rest : List Rune) (p : PState) :
    Kind × Nat × Int × List Rune × PState :=
  let e := lower ch
  if e = 101 || e = 112 then
    let p := if e = 101 && prefx ≠ 0 && prefx ≠ 48 then err p
             else if e = 112 && prefx ≠ 120 then err p else p
    let (c, r, q) := next rest p
    let (c, r, q) := if c = 43 || c = 45 then next r q else (c, r, q)
    let ((c, r, q), ds, _) := digitsLoop 10 r c q 0 1
    let q := if ds % 2 = 0 then err q else q
    (Kind.float, digsep1 ||| ds, c, r, q)
  else if prefx = 120 && tok2 = Kind.float then (tok2, digsep1, ch, rest, err p)
  else (tok2, digsep1, ch, rest, p)

/-- the final checks: invalid digit, misplaced `_` -/
def nFin (pre : List Int) (chFirst : Int) (restStart : List Rune) (tok3 : Kind) (inv : Int) (digsep2 : Nat)
    (ch : Int) (rest : List Rune) (p : PState) : Kind × St :=
  let p := if tok3 = Kind.int && inv ≠ 0 then err p else p
  let p :=
    if (digsep2 / 2) % 2 = 1 then
      let text := pre ++ (consumed chFirst restStart rest ch).map Int.ofNat
      if invalidSep text then err p else p
    else p
  (tok3, (ch, rest, p))

theorem scanNumber_eq (pre : List Int) (rest : List Rune) (ch : Int) (p : PState) (seenDot negative : Bool) :
    scanNumber pre rest ch p seenDot negative =
      (let (tok0, base, prefx, digsep0, ch1, rest1, p1, sd, inv) := nInt rest ch p seenDot
       let (tok1, digsep1, ch2, rest2, p2, inv1) := nFrac tok0 base prefx digsep0 ch1 rest1 p1 sd inv
       let (tok2, p3) := nSep tok1 digsep1 negative p2
       let (tok3, digsep2, ch4, rest4, p4) := nExp tok2 prefx digsep1 ch2 rest2 p3
       nFin pre ch rest tok3 inv1 digsep2 ch4 rest4 p4) := by
  unfold scanNumber nInt nFrac nSep nExp nFin nPrefix
  rfl

/-- what follows the fractional part -/
def nTail3 (pre : List Int) (ch0 : Int) (rest0 : List Rune) (prefx : Int) (negative : Bool)
    (o1 : Kind × Nat × Int × List Rune × PState × Int) : Kind × St :=
  let (tok2, p3) := nSep o1.1 o1.2.1 negative o1.2.2.2.2.1
  let (tok3, digsep2, ch4, rest4, p4) := nExp tok2 prefx o1.2.1 o1.2.2.1 o1.2.2.2.1 p3
  nFin pre ch0 rest0 tok3 o1.2.2.2.2.2 digsep2 ch4 rest4 p4

/-- what follows the integer part -/
def nTail2 (pre : List Int) (ch0 : Int) (rest0 : List Rune) (negative : Bool)
    (o0 : Kind × Nat × Int × Nat × Int × List Rune × PState × Bool × Int) : Kind × St :=
  nTail3 pre ch0 rest0 o0.2.2.1 negative
    (nFrac o0.1 o0.2.1 o0.2.2.1 o0.2.2.2.1 o0.2.2.2.2.1 o0.2.2.2.2.2.1 o0.2.2.2.2.2.2.1 o0.2.2.2.2.2.2.2.1
      o0.2.2.2.2.2.2.2.2)

theorem scanNumber_eq' (pre : List Int) (rest : List Rune) (ch : Int) (p : PState) (seenDot negative : Bool) :
    scanNumber pre rest ch p seenDot negative = nTail2 pre ch rest negative (nInt rest ch p seenDot) := by
  rw [scanNumber_eq]; rfl

/-- the scanner state inside the results of the stages -/
def nIntSt (o : Kind × Nat × Int × Nat × Int × List Rune × PState × Bool × Int) : St :=
  (o.2.2.2.2.1, o.2.2.2.2.2.1, o.2.2.2.2.2.2.1)
def nFracSt (o : Kind × Nat × Int × List Rune × PState × Int) : St := (o.2.2.1, o.2.2.2.1, o.2.2.2.2.1)

section srel2
variable {R : St → St → Prop} (hR : SRel R)
include hR

theorem s_next (ch : Int) (rest : List Rune) (p : PState) : R (ch, rest, p) (next rest p) := hR.next ch rest p

theorem s_ite_err (c : Prop) [Decidable c] (ch : Int) (rest : List Rune) (p : PState) :
    R (ch, rest, p) (ch, rest, if c then Scan.err p else p) := by
  split
  · exact hR.err _ _ _ _
  · exact hR.refl _

theorem nPrefix_s (rest : List Rune) (ch : Int) (p : PState) : R (ch, rest, p) (nPrefix rest ch p).2.2.2 := by
  unfold nPrefix
  have h1 := hR.next ch rest p
  generalize next rest p = x at h1 ⊢
  obtain ⟨c, r, q⟩ := x
  dsimp only
  have h2 := hR.next c r q
  generalize next r q = y at h2 ⊢
  obtain ⟨c2, r2, q2⟩ := y
  dsimp only
  split
  · split
    · exact hR.trans h1 h2
    split
    · exact hR.trans h1 h2
    split
    · exact hR.trans h1 h2
    · exact h1
  split
  · exact h1
  · exact hR.refl _

theorem nInt_s (rest : List Rune) (ch : Int) (p : PState) (sd : Bool) :
    R (ch, rest, p) (nIntSt (nInt rest ch p sd)) := by
  unfold nInt nIntSt
  split
  · have h1 := nPrefix_s hR rest ch p
    generalize nPrefix rest ch p = x at h1 ⊢
    obtain ⟨base, prefx, digsep, c, r, q⟩ := x
    dsimp only at h1 ⊢
    have h2 := digitsLoop_s hR base r c q 0 0
    generalize digitsLoop base r c q 0 0 = y at h2 ⊢
    obtain ⟨⟨c2, r2, q2⟩, ds, inv⟩ := y
    dsimp only at h2 ⊢
    have h3 := hR.next c2 r2 q2
    generalize next r2 q2 = z at h3 ⊢
    obtain ⟨c3, r3, q3⟩ := z
    split
    · exact hR.trans h1 (hR.trans h2 h3)
    · exact hR.trans h1 h2
  · exact hR.refl _

theorem nFrac_s (tok0 base prefx digsep0 ch rest p sd inv) :
    R (ch, rest, p) (nFracSt (nFrac tok0 base prefx digsep0 ch rest p sd inv)) := by
  unfold nFrac nFracSt
  split
  · dsimp only
    have h1 := s_ite_err hR ((prefx = 111 || prefx = 98) = true) ch rest p
    have h2 := digitsLoop_s hR base rest ch (if (prefx = 111 || prefx = 98) = true then Scan.err p else p) 0 inv
    generalize digitsLoop base rest ch (if (prefx = 111 || prefx = 98) = true then Scan.err p else p) 0 inv = y at h2 ⊢
    obtain ⟨⟨c2, r2, q2⟩, ds, inv2⟩ := y
    exact hR.trans h1 h2
  · exact hR.refl _

theorem nSep_s (tok1 digsep1 neg) (ch : Int) (rest : List Rune) (p : PState) :
    R (ch, rest, p) (ch, rest, (nSep tok1 digsep1 neg p).2) := by
  unfold nSep
  split
  · split
    · exact hR.refl _
    · exact hR.err _ _ _ _
  · exact hR.refl _

theorem nExp_s (tok2 prefx digsep1 ch rest p) : R (ch, rest, p) (nExp tok2 prefx digsep1 ch rest p).2.2 := by
  unfold nExp
  dsimp only
  split
  · generalize hp : (if (lower ch = 101 && prefx ≠ 0 && prefx ≠ 48) = true then Scan.err p
      else if (lower ch = 112 && prefx ≠ 120) = true then Scan.err p else p) = p'
    have h0 : R (ch, rest, p) (ch, rest, p') := by
      rw [← hp]; split
      · exact hR.err _ _ _ _
      · exact s_ite_err hR _ ch rest p
    have h1 := hR.next ch rest p'
    generalize next rest p' = x at h1 ⊢
    obtain ⟨c, r, q⟩ := x
    dsimp only
    have h2 : R (c, r, q) (if (c = 43 || c = 45) = true then next r q else (c, r, q)) := by
      split
      · exact hR.next _ _ _
      · exact hR.refl _
    generalize (if (c = 43 || c = 45) = true then next r q else (c, r, q)) = y at h2 ⊢
    obtain ⟨c2, r2, q2⟩ := y
    dsimp only
    have h3 := digitsLoop_s hR 10 r2 c2 q2 0 1
    generalize digitsLoop 10 r2 c2 q2 0 1 = z at h3 ⊢
    obtain ⟨⟨c3, r3, q3⟩, ds, iv⟩ := z
    dsimp only at h3 ⊢
    exact hR.trans h0 (hR.trans h1 (hR.trans h2 (hR.trans h3 (s_ite_err hR _ _ _ _))))
  · split
    · exact hR.err _ _ _ _
    · exact hR.refl _

theorem nFin_s (pre chFirst restStart tok3 inv digsep2 ch rest p) :
    R (ch, rest, p) (nFin pre chFirst restStart tok3 inv digsep2 ch rest p).2 := by
  unfold nFin
  dsimp only
  refine hR.trans (s_ite_err hR ((tok3 = Kind.int && inv ≠ 0) = true) ch rest p) ?_
  generalize (if (tok3 = Kind.int && inv ≠ 0) = true then Scan.err p else p) = p5
  split
  · exact s_ite_err hR _ _ _ _
  · exact hR.refl _

theorem scanNumber_s (pre : List Int) (rest : List Rune) (ch : Int) (p : PState) (sd neg : Bool) :
    R (ch, rest, p) (scanNumber pre rest ch p sd neg).2 := by
  rw [scanNumber_eq]
  have h0 := nInt_s hR rest ch p sd
  generalize nInt rest ch p sd = o0 at h0 ⊢
  obtain ⟨tok0, base, prefx, digsep0, ch1, rest1, p1, sd1, inv⟩ := o0
  dsimp only [nIntSt] at h0 ⊢
  have h1 := nFrac_s hR tok0 base prefx digsep0 ch1 rest1 p1 sd1 inv
  generalize nFrac tok0 base prefx digsep0 ch1 rest1 p1 sd1 inv = o1 at h1 ⊢
  obtain ⟨tok1, digsep1, ch2, rest2, p2, inv1⟩ := o1
  dsimp only [nFracSt] at h1 ⊢
  have h2 := nSep_s hR tok1 digsep1 neg ch2 rest2 p2
  generalize nSep tok1 digsep1 neg p2 = o2 at h2 ⊢
  obtain ⟨tok2, p3⟩ := o2
  dsimp only at h2 ⊢
  have h3 := nExp_s hR tok2 prefx digsep1 ch2 rest2 p3
  generalize nExp tok2 prefx digsep1 ch2 rest2 p3 = o3 at h3 ⊢
  obtain ⟨tok3, digsep2, ch4, rest4, p4⟩ := o3
  dsimp only at h3 ⊢
  exact hR.trans h0 (hR.trans h1 (hR.trans h2 (hR.trans h3 (nFin_s hR pre ch rest tok3 inv1 digsep2 ch4 rest4 p4))))

theorem nTail3_s (pre ch0 rest0 prefx neg) (o1 : Kind × Nat × Int × List Rune × PState × Int) :
    R (nFracSt o1) (nTail3 pre ch0 rest0 prefx neg o1).2 := by
  obtain ⟨tok1, digsep1, ch2, rest2, p2, inv1⟩ := o1
  unfold nTail3 nFracSt
  dsimp only
  have h2 := nSep_s hR tok1 digsep1 neg ch2 rest2 p2
  generalize nSep tok1 digsep1 neg p2 = o2 at h2 ⊢
  obtain ⟨tok2, p3⟩ := o2
  dsimp only at h2 ⊢
  have h3 := nExp_s hR tok2 prefx digsep1 ch2 rest2 p3
  generalize nExp tok2 prefx digsep1 ch2 rest2 p3 = o3 at h3 ⊢
  obtain ⟨tok3, digsep2, ch4, rest4, p4⟩ := o3
  dsimp only at h3 ⊢
  exact hR.trans h2 (hR.trans h3 (nFin_s hR pre ch0 rest0 tok3 inv1 digsep2 ch4 rest4 p4))

theorem nTail2_s (pre ch0 rest0 neg) (o0 : Kind × Nat × Int × Nat × Int × List Rune × PState × Bool × Int) :
    R (nIntSt o0) (nTail2 pre ch0 rest0 neg o0).2 := by
  obtain ⟨tok0, base, prefx, digsep0, ch1, rest1, p1, sd1, inv⟩ := o0
  unfold nTail2 nIntSt
  dsimp only
  exact hR.trans (nFrac_s hR tok0 base prefx digsep0 ch1 rest1 p1 sd1 inv) (nTail3_s hR pre ch0 rest0 prefx neg _)

theorem scan_s : ∀ fuel rest ch p, R (ch, rest, p) (scan fuel rest ch p).2 := by
  intro fuel
  induction fuel with
  | zero => intro rest ch p; exact hR.refl _
  | succ n ih =>
    intro rest ch p
    unfold scan
    have hw := skipWhite_s hR rest ch p
    generalize skipWhite rest ch p = sw at hw ⊢
    obtain ⟨ch1, rest1, p1⟩ := sw
    dsimp only
    have hn := hR.next ch1 rest1 p1
    generalize next rest1 p1 = nx at hn ⊢
    obtain ⟨c, r, q⟩ := nx
    dsimp only
    refine hR.trans hw ?_
    by_cases c1 : isIdentRune ch1 0 = true
    · rw [if_pos c1]; exact scanIdentifier_s hR _ _ _
    rw [if_neg c1]
    by_cases c2 : isDecimal ch1 = true
    · rw [if_pos c2]; exact scanNumber_s hR [] rest1 ch1 p1 false false
    rw [if_neg c2]
    by_cases c3 : ch1 = 45
    · rw [if_pos c3]
      by_cases c31 : isIdentRune c 0 = true
      · rw [if_pos c31]; exact hR.trans hn (scanIdentifier_s hR _ _ _)
      rw [if_neg c31]
      by_cases c32 : isDecimal c = true
      · rw [if_pos c32]; exact hR.trans hn (scanNumber_s hR [45] r c q false true)
      rw [if_neg c32]; exact hn
    rw [if_neg c3]
    by_cases c4 : ch1 < 0
    · rw [if_pos c4]; exact hR.refl _
    rw [if_neg c4]
    by_cases c5 : ch1 = 34
    · rw [if_pos c5]
      have h1 := scanString_s hR ch1 rest1 p1
      generalize scanString rest1 p1 = ss at h1 ⊢
      obtain ⟨c', r', q'⟩ := ss
      exact hR.trans h1 (hR.next _ _ _)
    rw [if_neg c5]
    by_cases c6 : ch1 = 58
    · rw [if_pos c6]; exact scanIdentifier_s hR _ _ _
    rw [if_neg c6]
    by_cases c7 : ch1 = 46
    · rw [if_pos c7]
      by_cases c71 : isDecimal c = true
      · rw [if_pos c71]; exact hR.trans hn (scanNumber_s hR [46] r c q true false)
      rw [if_neg c71]; exact hn
    rw [if_neg c7]
    by_cases c8 : ch1 = 59
    · rw [if_pos c8]
      have h1 := scanComment_s hR r c q
      generalize scanComment r c q = sc at h1 ⊢
      obtain ⟨c', r', q'⟩ := sc
      exact hR.trans hn (hR.trans h1 (ih _ _ _))
    rw [if_neg c8]
    by_cases c9 : ch1 = 172
    · rw [if_pos c9]; exact scanRawString_s hR _ _ _
    rw [if_neg c9]
    by_cases c10 : ch1 = 126
    · rw [if_pos c10]
      by_cases c101 : c = 64
      · rw [if_pos c101]; exact hR.trans hn (hR.next _ _ _)
      rw [if_neg c101]; exact hn
    rw [if_neg c10]
    by_cases c11 : ch1 = 35
    · rw [if_pos c11]
      by_cases c111 : c = 123
      · rw [if_pos c111]; exact hR.trans hn (hR.next _ _ _)
      rw [if_neg c111]; exact hn
    rw [if_neg c11]
    exact hn

end srel2

/-! ## §3 the simulation -/

/-- the look-ahead `next` produces from the unread runes -/
def hdCh : List Rune → Int
  | [] => EOF
  | r :: _ => Int.ofNat r.ch

theorem next_eq_hd (rest : List Rune) (p : PState) : next rest p = (hdCh rest, rest.tail, (next rest p).2.2) := by
  cases rest with
  | nil => rfl
  | cons r rs => rw [next_cons_eq]; rfl

/-- the characters that end every token: end of input, white space, `;` -/
def StopCh (c : Int) : Prop := c = -1 ∨ c = 9 ∨ c = 10 ∨ c = 13 ∨ c = 32 ∨ c = 59

instance (c : Int) : Decidable (StopCh c) := by unfold StopCh; infer_instance

theorem stop_cases {P : Int → Prop} {c : Int} (h : StopCh c)
    (h0 : P (-1)) (h1 : P 9) (h2 : P 10) (h3 : P 13) (h4 : P 32) (h5 : P 59) : P c := by
  rcases h with rfl | rfl | rfl | rfl | rfl | rfl <;> assumption

theorem stop_ident {c : Int} (h : StopCh c) (i : Nat) : isIdentRune c i = false := by
  refine stop_cases (P := fun c => isIdentRune c i = false) h ?_ ?_ ?_ ?_ ?_ ?_ <;>
    simp [isIdentRune, isLetter, isDigit]
theorem stop_decimal {c : Int} (h : StopCh c) : isDecimal c = false := by
  refine stop_cases (P := fun c => isDecimal c = false) h ?_ ?_ ?_ ?_ ?_ ?_ <;> decide
theorem stop_hex {c : Int} (h : StopCh c) : isHex c = false := by
  refine stop_cases (P := fun c => isHex c = false) h ?_ ?_ ?_ ?_ ?_ ?_ <;> decide
theorem stop_lower {c : Int} (h : StopCh c) :
    lower c ≠ 120 ∧ lower c ≠ 111 ∧ lower c ≠ 98 ∧ lower c ≠ 101 ∧ lower c ≠ 112 := by
  refine stop_cases (P := fun c => lower c ≠ 120 ∧ lower c ≠ 111 ∧ lower c ≠ 98 ∧ lower c ≠ 101 ∧ lower c ≠ 112)
    h ?_ ?_ ?_ ?_ ?_ ?_ <;> decide
theorem stop_digitVal {c : Int} (h : StopCh c) (b : Nat) : digitValLt c b = false := by
  refine stop_cases (P := fun c => digitValLt c b = false) h ?_ ?_ ?_ ?_ ?_ ?_ <;>
    simp [digitValLt, isDecimal, lower]
/-- a stop character is none of the characters the scanner tests a look-ahead for -/
theorem stop_ne {c : Int} (h : StopCh c) :
    c ≠ 95 ∧ c ≠ 46 ∧ c ≠ 48 ∧ c ≠ 45 ∧ c ≠ 43 ∧ c ≠ 34 ∧ c ≠ 92 ∧ c ≠ 172 ∧ c ≠ 64 ∧ c ≠ 123 := by
  refine stop_cases (P := fun c => c ≠ 95 ∧ c ≠ 46 ∧ c ≠ 48 ∧ c ≠ 45 ∧ c ≠ 43 ∧ c ≠ 34 ∧ c ≠ 92 ∧ c ≠ 172 ∧
    c ≠ 64 ∧ c ≠ 123) h ?_ ?_ ?_ ?_ ?_ ?_ <;> decide

theorem stop_hd_nil : StopCh (hdCh []) := Or.inl rfl

theorem hdCh_nonneg {x : List Rune} (h : x ≠ []) : 0 ≤ hdCh x := by
  cases x with
  | nil => exact absurd rfl h
  | cons r rs => exact Int.natCast_nonneg _

/-- if the first rune of `x` is not a stop character, there is one -/
theorem ne_nil_of_not_stop {x : List Rune} (h : ¬ StopCh (hdCh x)) : x ≠ [] := by
  intro e; subst e; exact h stop_hd_nil

/-- the two texts `xA`, `xB` that follow the common part, and how the bookkeeping of the two runs is related
    while they read the common part (`PR`) and after both have read their first different rune (`PRat`) -/
structure Ctx (xA xB : List Rune) (PR PRat : PState → PState → Prop) : Prop where
  stopB : StopCh (hdCh xB)
  pr_step : ∀ r p q, PR p q → PR (step r p) (step r q)
  pr_err : ∀ p q, PR p q → PR (Scan.err p) (Scan.err q)
  pr_eof : xA = [] → xB = [] → ∀ p q, PR p q → PR (next [] p).2.2 (next [] q).2.2
  cross : ∀ p q, PR p q → PRat (next xA p).2.2 (next xB q).2.2
  at_err : ∀ p q, PRat p q → PRat (Scan.err p) (Scan.err q)

section sim
variable {xA xB : List Rune} {PR PRat : PState → PState → Prop}

/-- both texts end right after the common part: the runs stay in lockstep for ever -/
def Same (xA xB : List Rune) : Prop := xA = [] ∧ xB = []

/-- both runs are inside the common part, with the same look-ahead -/
def Before (xA xB : List Rune) (PR : PState → PState → Prop) (a b : St) : Prop :=
  a.1 = b.1 ∧ PR a.2.2 b.2.2 ∧ (a.1 < 0 → Same xA xB) ∧ ∃ u, a.2.1 = u ++ xA ∧ b.2.1 = u ++ xB

/-- both runs have just read the first rune after the common part -/
def At (xA xB : List Rune) (PRat : PState → PState → Prop) (a b : St) : Prop :=
  ¬ Same xA xB ∧ a.1 = hdCh xA ∧ a.2.1 = xA.tail ∧ b.1 = hdCh xB ∧ b.2.1 = xB.tail ∧ PRat a.2.2 b.2.2

/-- run A has read beyond the first rune of `xA`, or has recorded an error -/
def Dead (xA xB : List Rune) (a : St) : Prop :=
  ¬ Same xA xB ∧ (a.2.2.errs ≠ 0 ∨ a.2.1.length < xA.tail.length ∨ (xA ≠ [] ∧ a.2.1 = [] ∧ a.1 = EOF))

def Live (xA xB : List Rune) (PR PRat : PState → PState → Prop) (a b : St) : Prop :=
  Before xA xB PR a b ∨ At xA xB PRat a b

def Rel (xA xB : List Rune) (PR PRat : PState → PState → Prop) (a b : St) : Prop :=
  Live xA xB PR PRat a b ∨ Dead xA xB a

theorem err_errs_ne (p : PState) : (Scan.err p).errs ≠ 0 := Nat.succ_ne_zero _

theorem next_errs_ne (rest : List Rune) (p : PState) (h : p.errs ≠ 0) : (next rest p).2.2.errs ≠ 0 := by
  cases rest with
  | nil => exact h
  | cons r rs =>
    unfold next; simp only []
    split
    · exact Nat.succ_ne_zero _
    · split
      · exact Nat.succ_ne_zero _
      · split <;> exact h

/-- being dead is for ever -/
theorem dead_srel (xA xB : List Rune) : SRel (fun a b => Dead xA xB a → Dead xA xB b) where
  refl _ := id
  trans h1 h2 := fun h => h2 (h1 h)
  next ch rest p := by
    rintro ⟨hs, h⟩
    refine ⟨hs, ?_⟩
    rcases h with h | h | ⟨h1, h2, h3⟩
    · exact Or.inl (next_errs_ne rest p h)
    · exact Or.inr (Or.inl (Nat.lt_of_le_of_lt (Scanner.next_length rest p) h))
    · dsimp only at h2 h3; subst h2
      exact Or.inr (Or.inr ⟨h1, rfl, rfl⟩)
  err ch ch' rest p := fun ⟨hs, _⟩ => ⟨hs, Or.inl (err_errs_ne p)⟩

end sim

section sim2
variable {xA xB : List Rune} {PR PRat : PState → PState → Prop} (C : Ctx xA xB PR PRat)
include C

/-- one `next` in both runs, from inside the common part -/
theorem before_next {a b : St} (h : Before xA xB PR a b) :
    Live xA xB PR PRat (next a.2.1 a.2.2) (next b.2.1 b.2.2) := by
  obtain ⟨ca, ra, pa⟩ := a
  obtain ⟨cb, rb, pb⟩ := b
  obtain ⟨hc, hp, _, u, ha, hb⟩ := h
  dsimp only at hc hp ha hb ⊢
  subst ha hb
  cases u with
  | cons r u =>
    simp only [List.cons_append, next_cons_eq]
    refine Or.inl ⟨rfl, C.pr_step r _ _ hp, fun h => ?_, u, rfl, rfl⟩
    have : (0 : Int) ≤ Int.ofNat r.ch := Int.natCast_nonneg _
    dsimp only at h; omega
  | nil =>
    simp only [List.nil_append]
    by_cases hs : Same xA xB
    · obtain ⟨rfl, rfl⟩ := hs
      exact Or.inl ⟨rfl, C.pr_eof rfl rfl _ _ hp, fun _ => ⟨rfl, rfl⟩, [], rfl, rfl⟩
    · rw [next_eq_hd xA, next_eq_hd xB]
      exact Or.inr ⟨hs, rfl, rfl, rfl, rfl, C.cross _ _ hp⟩

omit C in
/-- run A reads on after the first different rune (which therefore exists) -/
theorem at_next_dead {a b : St} (h : At xA xB PRat a b) (hx : xA ≠ []) : Dead xA xB (next a.2.1 a.2.2) := by
  obtain ⟨ca, ra, pa⟩ := a
  obtain ⟨hs, h1, h2, _⟩ := h
  dsimp only at h1 h2 ⊢
  subst h2
  refine ⟨hs, ?_⟩
  cases ht : xA.tail with
  | nil => exact Or.inr (Or.inr ⟨hx, rfl, rfl⟩)
  | cons r t => rw [next_cons_eq]; exact Or.inr (Or.inl (by simp))

theorem live_err {a b : St} (h : Live xA xB PR PRat a b) :
    Live xA xB PR PRat (a.1, a.2.1, Scan.err a.2.2) (b.1, b.2.1, Scan.err b.2.2) := by
  rcases h with ⟨hc, hp, hu⟩ | ⟨hs, h1, h2, h3, h4, hp⟩
  · exact Or.inl ⟨hc, C.pr_err _ _ hp, hu⟩
  · exact Or.inr ⟨hs, h1, h2, h3, h4, C.at_err _ _ hp⟩

omit C in
theorem dead_of {R : St → St → Prop} {a b : St} (h : R a b) (hR : R = fun a b => Dead xA xB a → Dead xA xB b)
    (hd : Dead xA xB a) : Dead xA xB b := by subst hR; exact h hd

/-- in the state `At`, the look-ahead of run B is a stop character -/
theorem at_stopB {a b : St} (h : At xA xB PRat a b) : StopCh b.1 := by
  obtain ⟨_, _, _, h3, _⟩ := h; rw [h3]; exact C.stopB

omit C in
/-- in the state `At`, a look-ahead of run A that is not a stop character is a rune of `xA` -/
theorem at_ne_nil {a b : St} (h : At xA xB PRat a b) (hn : ¬ StopCh a.1) : xA ≠ [] := by
  obtain ⟨_, h1, _⟩ := h; rw [h1] at hn; exact ne_nil_of_not_stop hn

end sim2

/-! ### the three simple loops are one loop -/

/-- `for cond(ch) { ch = next() }` -/
def loopWhile (cond : Int → Bool) : List Rune → Int → PState → St
  | [], ch, p => if cond ch then next [] p else (ch, [], p)
  | r :: rs, ch, p => if cond ch then loopWhile cond rs (Int.ofNat r.ch) (step r p) else (ch, r :: rs, p)

theorem identLoop_eq : ∀ rest ch p, identLoop rest ch p = loopWhile (fun c => isIdentRune c 1) rest ch p := by
  intro rest
  induction rest with
  | nil => intro ch p; rfl
  | cons r rs ih => intro ch p; unfold identLoop loopWhile; rw [next_cons_eq]; simp only [ih]

theorem skipWhite_eq : ∀ rest ch p, skipWhite rest ch p = loopWhile isWhite rest ch p := by
  intro rest
  induction rest with
  | nil => intro ch p; rfl
  | cons r rs ih => intro ch p; unfold skipWhite loopWhile; rw [next_cons_eq]; simp only [ih]

theorem commentLoop_eq : ∀ rest ch p,
    commentLoop rest ch p = loopWhile (fun c => decide (c ≠ 10 ∧ c ≥ 0)) rest ch p := by
  intro rest
  induction rest with
  | nil => intro ch p; unfold commentLoop loopWhile; simp
  | cons r rs ih => intro ch p; unfold commentLoop loopWhile; rw [next_cons_eq]; simp [ih]

theorem loopWhile_stop (cond : Int → Bool) (rest : List Rune) (ch : Int) (p : PState) (h : cond ch = false) :
    loopWhile cond rest ch p = (ch, rest, p) := by
  cases rest <;> simp [loopWhile, h]

/-- one turn of the loop (when the condition rejects the end of the input) -/
theorem loopWhile_step (cond : Int → Bool) (hE : cond EOF = false) (rest : List Rune) (ch : Int) (p : PState)
    (h : cond ch = true) :
    loopWhile cond rest ch p = loopWhile cond (next rest p).2.1 (next rest p).1 (next rest p).2.2 := by
  cases rest with
  | nil =>
    simp only [loopWhile, h, ↓reduceIte]
    have : next [] p = (EOF, [], (next [] p).2.2) := rfl
    rw [this]; simp [loopWhile, hE]
  | cons r rs => simp only [loopWhile, h, ↓reduceIte, next_cons_eq]

theorem loopWhile_s {R : St → St → Prop} (hR : SRel R) (cond : Int → Bool) :
    ∀ rest ch p, R (ch, rest, p) (loopWhile cond rest ch p) := by
  intro rest
  induction rest with
  | nil => intro ch p; unfold loopWhile; split; exact hR.next _ _ _; exact hR.refl _
  | cons r rs ih =>
    intro ch p; unfold loopWhile; split
    · exact hR.trans (s_next_cons hR ch r rs p) (ih _ _)
    · exact hR.refl _

section sim3
variable {xA xB : List Rune} {PR PRat : PState → PState → Prop} (C : Ctx xA xB PR PRat)
include C

/-- a loop that stops at every stop character: the runs stay related -/
theorem loopWhile_sim (cond : Int → Bool) (hneg : ∀ c, cond c = true → ¬ StopCh c) :
    ∀ ra ca pa rb cb pb, Rel xA xB PR PRat (ca, ra, pa) (cb, rb, pb) →
      Rel xA xB PR PRat (loopWhile cond ra ca pa) (loopWhile cond rb cb pb) := by
  have hE : cond EOF = false := by
    cases h : cond EOF with
    | false => rfl
    | true => exact absurd stop_hd_nil (hneg _ h)
  have hstop : ∀ c, StopCh c → cond c = false := by
    intro c hc
    cases h : cond c with
    | false => rfl
    | true => exact absurd hc (hneg _ h)
  intro ra
  induction ra with
  | nil =>
    intro ca pa rb cb pb h
    rcases h with (hb | ha) | hd
    · -- inside the common part, which is used up
      have hc : ca = cb := hb.1
      subst hc
      cases hcond : cond ca with
      | false => rw [loopWhile_stop _ _ _ _ hcond, loopWhile_stop _ _ _ _ hcond]; exact Or.inl (Or.inl hb)
      | true =>
        rw [loopWhile_step cond hE rb ca pb hcond]
        have hl := before_next C hb
        have e1 : loopWhile cond [] ca pa = next [] pa := by simp [loopWhile, hcond]
        rw [e1]
        dsimp only at hl
        have hsB : StopCh (next rb pb).1 := by
          rcases hl with hb' | ha'
          · rw [← hb'.1]; exact stop_hd_nil
          · exact at_stopB C ha'
        rw [loopWhile_stop _ _ _ _ (hstop _ hsB)]
        exact Or.inl hl
    · have hsB := at_stopB C ha
      rw [loopWhile_stop _ _ _ _ (hstop _ hsB)]
      cases hcond : cond ca with
      | false => rw [loopWhile_stop _ _ _ _ hcond]; exact Or.inl (Or.inr ha)
      | true =>
        rw [loopWhile_step cond hE [] ca pa hcond]
        exact Or.inr (loopWhile_s (dead_srel xA xB) cond _ _ _
          (at_next_dead ha (at_ne_nil ha (hneg _ hcond))))
    · exact Or.inr (loopWhile_s (dead_srel xA xB) cond _ _ _ hd)
  | cons r rs ih =>
    intro ca pa rb cb pb h
    rcases h with (hb | ha) | hd
    · have hc : ca = cb := hb.1
      subst hc
      cases hcond : cond ca with
      | false => rw [loopWhile_stop _ _ _ _ hcond, loopWhile_stop _ _ _ _ hcond]; exact Or.inl (Or.inl hb)
      | true =>
        rw [loopWhile_step cond hE rb ca pb hcond, loopWhile_step cond hE (r :: rs) ca pa hcond]
        have hl := before_next C hb
        dsimp only at hl
        rw [next_cons_eq] at hl ⊢
        exact ih _ _ _ _ _ (Or.inl hl)
    · have hsB := at_stopB C ha
      rw [loopWhile_stop _ _ _ _ (hstop _ hsB)]
      cases hcond : cond ca with
      | false => rw [loopWhile_stop _ _ _ _ hcond]; exact Or.inl (Or.inr ha)
      | true =>
        rw [loopWhile_step cond hE (r :: rs) ca pa hcond]
        exact Or.inr (loopWhile_s (dead_srel xA xB) cond _ _ _
          (at_next_dead ha (at_ne_nil ha (hneg _ hcond))))
    · exact Or.inr (loopWhile_s (dead_srel xA xB) cond _ _ _ hd)

end sim3

/-! ### identifiers and digit runs -/

/-- the loop condition of `digits` -/
def dcond (base : Nat) (ch : Int) : Bool := (if base ≤ 10 then isDecimal ch else isHex ch) || ch = 95

theorem dcond_stop (base : Nat) {c : Int} (h : StopCh c) : dcond base c = false := by
  unfold dcond
  rw [stop_decimal h, stop_hex h]
  have := (stop_ne h).1
  simp [this]

theorem digitsLoop_stop (base : Nat) (rest : List Rune) (ch : Int) (p : PState) (ds : Nat) (inv : Int)
    (h : dcond base ch = false) : digitsLoop base rest ch p ds inv = ((ch, rest, p), ds, inv) := by
  unfold dcond at h
  cases rest <;> (unfold digitsLoop; simp only []; rw [if_neg (by rw [h]; simp)])

theorem digitsLoop_step (base : Nat) (rest : List Rune) (ch : Int) (p : PState) (ds : Nat) (inv : Int)
    (h : dcond base ch = true) :
    digitsLoop base rest ch p ds inv =
      digitsLoop base (next rest p).2.1 (next rest p).1 (next rest p).2.2 (ds ||| (if ch = 95 then 2 else 1))
        (if base ≤ 10 ∧ ch ≠ 95 ∧ ch ≥ 48 + base ∧ inv = 0 then ch else inv) := by
  unfold dcond at h
  cases rest with
  | nil =>
    have hE : dcond base EOF = false := dcond_stop base stop_hd_nil
    have e : next [] p = (EOF, [], (next [] p).2.2) := rfl
    rw [e, digitsLoop_stop base [] EOF _ _ _ hE]
    unfold digitsLoop; simp only []; rw [if_pos h]
    rfl
  | cons r rs =>
    rw [next_cons_eq]
    conv => lhs; unfold digitsLoop
    simp only []; rw [if_pos h, next_cons_eq]

section sim4
variable {xA xB : List Rune} {PR PRat : PState → PState → Prop} (C : Ctx xA xB PR PRat)
include C

theorem identLoop_sim (ra ca pa rb cb pb) (h : Rel xA xB PR PRat (ca, ra, pa) (cb, rb, pb)) :
    Rel xA xB PR PRat (identLoop ra ca pa) (identLoop rb cb pb) := by
  rw [identLoop_eq, identLoop_eq]
  exact loopWhile_sim C _ (fun c hc hs => by rw [stop_ident hs] at hc; cases hc) _ _ _ _ _ _ h

/-- `scanIdentifier` from inside the common part -/
theorem scanIdentifier_sim {a b : St} (h : Before xA xB PR a b) :
    Rel xA xB PR PRat (scanIdentifier a.2.1 a.2.2) (scanIdentifier b.2.1 b.2.2) := by
  unfold scanIdentifier
  have hl := before_next C h
  generalize next a.2.1 a.2.2 = x at hl ⊢
  generalize next b.2.1 b.2.2 = y at hl ⊢
  obtain ⟨c, r, q⟩ := x
  obtain ⟨c', r', q'⟩ := y
  exact identLoop_sim C _ _ _ _ _ _ (Or.inl hl)

/-- a run of digits: same separator bits and first invalid digit -/
theorem digitsLoop_sim (base : Nat) : ∀ ra ca pa rb cb pb ds inv,
    Rel xA xB PR PRat (ca, ra, pa) (cb, rb, pb) →
      Dead xA xB (digitsLoop base ra ca pa ds inv).1 ∨
      (Live xA xB PR PRat (digitsLoop base ra ca pa ds inv).1 (digitsLoop base rb cb pb ds inv).1 ∧
        (digitsLoop base ra ca pa ds inv).2 = (digitsLoop base rb cb pb ds inv).2) := by
  intro ra
  induction ra with
  | nil =>
    intro ca pa rb cb pb ds inv h
    rcases h with (hb | ha) | hd
    · have hc : ca = cb := hb.1
      subst hc
      cases hcond : dcond base ca with
      | false =>
        rw [digitsLoop_stop _ _ _ _ _ _ hcond, digitsLoop_stop _ _ _ _ _ _ hcond]
        exact Or.inr ⟨Or.inl hb, rfl⟩
      | true =>
        rw [digitsLoop_step base rb ca pb ds inv hcond, digitsLoop_step base [] ca pa ds inv hcond]
        have hl := before_next C hb
        dsimp only at hl
        have hsB : StopCh (next rb pb).1 := by
          rcases hl with hb' | ha'
          · rw [← hb'.1]; exact stop_hd_nil
          · exact at_stopB C ha'
        have e2 := digitsLoop_stop base (next [] pa).2.1 (next [] pa).1 (next [] pa).2.2
          (ds ||| (if ca = 95 then 2 else 1)) (if base ≤ 10 ∧ ca ≠ 95 ∧ ca ≥ 48 + base ∧ inv = 0 then ca else inv)
          (dcond_stop base stop_hd_nil)
        rw [digitsLoop_stop _ _ _ _ _ _ (dcond_stop base hsB), e2]
        exact Or.inr ⟨hl, rfl⟩
    · have hsB := at_stopB C ha
      rw [digitsLoop_stop _ _ _ _ _ _ (dcond_stop base hsB)]
      cases hcond : dcond base ca with
      | false => rw [digitsLoop_stop _ _ _ _ _ _ hcond]; exact Or.inr ⟨Or.inr ha, rfl⟩
      | true =>
        rw [digitsLoop_step base [] ca pa ds inv hcond]
        exact Or.inl (digitsLoop_s (dead_srel xA xB) base _ _ _ _ _
          (at_next_dead ha (at_ne_nil ha (fun hs => by rw [dcond_stop base hs] at hcond; cases hcond))))
    · exact Or.inl (digitsLoop_s (dead_srel xA xB) base _ _ _ _ _ hd)
  | cons r rs ih =>
    intro ca pa rb cb pb ds inv h
    rcases h with (hb | ha) | hd
    · have hc : ca = cb := hb.1
      subst hc
      cases hcond : dcond base ca with
      | false =>
        rw [digitsLoop_stop _ _ _ _ _ _ hcond, digitsLoop_stop _ _ _ _ _ _ hcond]
        exact Or.inr ⟨Or.inl hb, rfl⟩
      | true =>
        rw [digitsLoop_step base rb ca pb ds inv hcond, digitsLoop_step base (r :: rs) ca pa ds inv hcond]
        have hl := before_next C hb
        dsimp only at hl
        rw [next_cons_eq] at hl ⊢
        exact ih _ _ _ _ _ _ _ (Or.inl hl)
    · have hsB := at_stopB C ha
      rw [digitsLoop_stop _ _ _ _ _ _ (dcond_stop base hsB)]
      cases hcond : dcond base ca with
      | false => rw [digitsLoop_stop _ _ _ _ _ _ hcond]; exact Or.inr ⟨Or.inr ha, rfl⟩
      | true =>
        rw [digitsLoop_step base (r :: rs) ca pa ds inv hcond]
        exact Or.inl (digitsLoop_s (dead_srel xA xB) base _ _ _ _ _
          (at_next_dead ha (at_ne_nil ha (fun hs => by rw [dcond_stop base hs] at hcond; cases hcond))))
    · exact Or.inl (digitsLoop_s (dead_srel xA xB) base _ _ _ _ _ hd)

end sim4

/-! ### numbers -/

/-! ### a number token reads at least one rune beyond its first digit -/

theorem dcond_decimal (ch : Int) (h : isDecimal ch = true) : dcond 10 ch = true := by
  unfold dcond; simp [h]

theorem digitsLoop_first_pop {P : St → Prop} (hP : SRel (fun a b => P a → P b)) (rest : List Rune) (ch : Int)
    (p : PState) (ds : Nat) (inv : Int) (hdec : isDecimal ch = true) (h : P (next rest p)) :
    P (digitsLoop 10 rest ch p ds inv).1 := by
  rw [digitsLoop_step 10 rest ch p ds inv (dcond_decimal ch hdec)]
  exact digitsLoop_s hP 10 _ _ _ _ _ h

theorem scanNumber_first_pop {P : St → Prop} (hP : SRel (fun a b => P a → P b)) (pre : List Int)
    (rest : List Rune) (ch : Int) (p : PState) (sd neg : Bool) (hdec : isDecimal ch = true)
    (h : P (next rest p)) : P (scanNumber pre rest ch p sd neg).2 := by
  rw [scanNumber_eq']
  cases sd with
  | true =>
    show P (nTail3 pre ch rest 0 neg (nFrac Kind.float 10 0 0 ch rest p true 0)).2
    refine nTail3_s hP pre ch rest 0 neg _ ?_
    unfold nFrac nFracSt
    simp only [↓reduceIte]
    have h2 := digitsLoop_first_pop hP rest ch p 0 0 hdec h
    have e : (if ((0 : Int) = 111 || (0 : Int) = 98) = true then Scan.err p else p) = p := by simp
    rw [e]
    generalize digitsLoop 10 rest ch p 0 0 = y at h2 ⊢
    obtain ⟨⟨c2, r2, q2⟩, ds, iv⟩ := y
    exact h2
  | false =>
    refine nTail2_s hP pre ch rest neg _ ?_
    unfold nInt nIntSt
    simp only [Bool.not_false, ↓reduceIte]
    by_cases h48 : ch = 48
    · -- leading zero: the prefix stage reads on
      have hpre : P (nPrefix rest ch p).2.2.2 := by
        unfold nPrefix; rw [if_pos h48]
        generalize next rest p = x at h ⊢
        obtain ⟨c, r, q⟩ := x
        dsimp only
        have h2 : P (next r q) := hP.next c r q h
        split
        · exact h2
        split
        · exact h2
        split
        · exact h2
        · exact h
      generalize nPrefix rest ch p = xa at hpre ⊢
      obtain ⟨base, prefx, digsep, c, r, q⟩ := xa
      dsimp only at hpre ⊢
      have h2 := digitsLoop_s hP base r c q 0 0 hpre
      generalize digitsLoop base r c q 0 0 = y at h2 ⊢
      obtain ⟨⟨c2, r2, q2⟩, ds, iv⟩ := y
      dsimp only at h2 ⊢
      split
      · exact hP.next c2 r2 q2 h2
      · exact h2
    · have h45 : ch ≠ 45 := by intro e; rw [e] at hdec; revert hdec; decide
      have e : nPrefix rest ch p = (10, (0 : Int), 0, ch, rest, p) := by
        unfold nPrefix; rw [if_neg h48, if_neg h45]
      rw [e]
      dsimp only
      have h2 := digitsLoop_first_pop hP rest ch p 0 0 hdec h
      generalize digitsLoop 10 rest ch p 0 0 = y at h2 ⊢
      obtain ⟨⟨c2, r2, q2⟩, ds, iv⟩ := y
      dsimp only at h2 ⊢
      split
      · exact hP.next c2 r2 q2 h2
      · exact h2

section sim5
variable {xA xB : List Rune} {PR PRat : PState → PState → Prop} (C : Ctx xA xB PR PRat)
include C

/-- a test of the look-ahead that no stop character passes: both runs fail it; or both pass it inside the
    common part; or run A passes it on the first rune of `xA` and is dead after the next `next` -/
theorem live_test {a b : St} (hl : Live xA xB PR PRat a b) (t : Int → Bool)
    (ht : ∀ c, t c = true → ¬ StopCh c) :
    (t a.1 = false ∧ t b.1 = false) ∨ (t a.1 = true ∧ t b.1 = true ∧ Before xA xB PR a b) ∨
    (t a.1 = true ∧ t b.1 = false ∧ Dead xA xB (next a.2.1 a.2.2)) := by
  rcases hl with hb | ha
  · have e : a.1 = b.1 := hb.1
    cases h : t a.1 with
    | false => exact Or.inl ⟨rfl, by rw [← e]; exact h⟩
    | true => exact Or.inr (Or.inl ⟨rfl, by rw [← e]; exact h, hb⟩)
  · have hsB := at_stopB C ha
    have hfb : t b.1 = false := by
      cases h : t b.1 with
      | false => rfl
      | true => exact absurd hsB (ht _ h)
    cases h : t a.1 with
    | false => exact Or.inl ⟨rfl, hfb⟩
    | true => exact Or.inr (Or.inr ⟨rfl, hfb, at_next_dead ha (at_ne_nil ha (ht _ h))⟩)

/-- variant of `live_test` that keeps the state `At` in the third case -/
theorem live_test' {a b : St} (hl : Live xA xB PR PRat a b) (t : Int → Bool)
    (ht : ∀ c, t c = true → ¬ StopCh c) :
    (t a.1 = false ∧ t b.1 = false) ∨ (t a.1 = true ∧ t b.1 = true ∧ Before xA xB PR a b) ∨
    (t a.1 = true ∧ t b.1 = false ∧ At xA xB PRat a b ∧ xA ≠ []) := by
  rcases hl with hb | ha
  · have e : a.1 = b.1 := hb.1
    cases h : t a.1 with
    | false => exact Or.inl ⟨rfl, by rw [← e]; exact h⟩
    | true => exact Or.inr (Or.inl ⟨rfl, by rw [← e]; exact h, hb⟩)
  · have hsB := at_stopB C ha
    have hfb : t b.1 = false := by
      cases h : t b.1 with
      | false => rfl
      | true => exact absurd hsB (ht _ h)
    cases h : t a.1 with
    | false => exact Or.inl ⟨rfl, hfb⟩
    | true => exact Or.inr (Or.inr ⟨rfl, hfb, ha, at_ne_nil ha (ht _ h)⟩)

theorem before_err {a b : St} (h : Before xA xB PR a b) :
    Before xA xB PR (a.1, a.2.1, Scan.err a.2.2) (b.1, b.2.1, Scan.err b.2.2) :=
  ⟨h.1, C.pr_err _ _ h.2.1, h.2.2⟩

theorem before_ite_err {a b : St} (h : Before xA xB PR a b) (c : Prop) [Decidable c] :
    Before xA xB PR (a.1, a.2.1, if c then Scan.err a.2.2 else a.2.2)
      (b.1, b.2.1, if c then Scan.err b.2.2 else b.2.2) := by
  split
  · exact before_err C h
  · exact h

omit C in
/-- in the state `At` run A may do anything to its bookkeeping: one more `next` and it is dead -/
theorem at_any_next_dead {a b : St} (h : At xA xB PRat a b) (hx : xA ≠ []) (p' : PState) :
    Dead xA xB (next a.2.1 p') := by
  obtain ⟨ca, ra, pa⟩ := a
  obtain ⟨hs, h1, h2, _⟩ := h
  dsimp only at h1 h2 ⊢
  subst h2
  refine ⟨hs, ?_⟩
  cases ht : xA.tail with
  | nil => exact Or.inr (Or.inr ⟨hx, rfl, rfl⟩)
  | cons r t => rw [next_cons_eq]; exact Or.inr (Or.inl (by simp))

omit C in
theorem eq_stop_false (k : Int) (hk : ¬ StopCh k) : ∀ c, decide (c = k) = true → ¬ StopCh c := by
  intro c h hs; rw [of_decide_eq_true h] at hs; exact hk hs

theorem nPrefix_sim {a b : St} (h : Rel xA xB PR PRat a b) :
    Dead xA xB (nPrefix a.2.1 a.1 a.2.2).2.2.2 ∨
    (Live xA xB PR PRat (nPrefix a.2.1 a.1 a.2.2).2.2.2 (nPrefix b.2.1 b.1 b.2.2).2.2.2 ∧
      (nPrefix a.2.1 a.1 a.2.2).1 = (nPrefix b.2.1 b.1 b.2.2).1 ∧
      (nPrefix a.2.1 a.1 a.2.2).2.1 = (nPrefix b.2.1 b.1 b.2.2).2.1 ∧
      (nPrefix a.2.1 a.1 a.2.2).2.2.1 = (nPrefix b.2.1 b.1 b.2.2).2.2.1) := by
  obtain ⟨ca, ra, pa⟩ := a
  obtain ⟨cb, rb, pb⟩ := b
  dsimp only
  cases h with
  | inr hd => exact Or.inl (nPrefix_s (dead_srel xA xB) ra ca pa hd)
  | inl hl =>
    rcases live_test C hl (fun c => decide (c = 48)) (eq_stop_false 48 (by decide)) with
      ⟨h1, h2⟩ | ⟨h1, h2, hbef⟩ | ⟨h1, h2, hdn⟩
    · -- not `0`
      have e1 : ca ≠ 48 := of_decide_eq_false h1
      have e2 : cb ≠ 48 := of_decide_eq_false h2
      rcases live_test C hl (fun c => decide (c = 45)) (eq_stop_false 45 (by decide)) with
        ⟨h3, h4⟩ | ⟨h3, h4, hbef⟩ | ⟨h3, h4, hdn⟩
      · have e3 : ca ≠ 45 := of_decide_eq_false h3
        have e4 : cb ≠ 45 := of_decide_eq_false h4
        unfold nPrefix; rw [if_neg e1, if_neg e2, if_neg e3, if_neg e4]
        exact Or.inr ⟨hl, rfl, rfl, rfl⟩
      · have e3 : ca = 45 := of_decide_eq_true h3
        have e4 : cb = 45 := of_decide_eq_true h4
        unfold nPrefix; rw [if_neg e1, if_neg e2, if_pos e3, if_pos e4]
        exact Or.inr ⟨before_next C hbef, rfl, rfl, rfl⟩
      · have e3 : ca = 45 := of_decide_eq_true h3
        unfold nPrefix; rw [if_neg e1, if_pos e3]
        exact Or.inl hdn
    · -- `0` in both runs, inside the common part
      have e1 : ca = 48 := of_decide_eq_true h1
      have e2 : cb = 48 := of_decide_eq_true h2
      have hl1 := before_next C hbef
      dsimp only at hl1
      unfold nPrefix; rw [if_pos e1, if_pos e2]
      generalize next ra pa = x at hl1 ⊢
      generalize next rb pb = y at hl1 ⊢
      obtain ⟨c, r, q⟩ := x
      obtain ⟨c', r', q'⟩ := y
      dsimp only
      have hlow : ∀ k : Int, (k = 120 ∨ k = 111 ∨ k = 98) → ∀ c, decide (lower c = k) = true → ¬ StopCh c := by
        intro k hk c hc hs
        have := stop_lower hs
        have e := of_decide_eq_true hc
        rcases hk with rfl | rfl | rfl
        · exact this.1 e
        · exact this.2.1 e
        · exact this.2.2.1 e
      rcases live_test C hl1 (fun c => decide (lower c = 120)) (hlow 120 (Or.inl rfl)) with
        ⟨h3, h4⟩ | ⟨h3, h4, hbef⟩ | ⟨h3, h4, hdn⟩
      · have e3 : lower c ≠ 120 := of_decide_eq_false h3
        have e4 : lower c' ≠ 120 := of_decide_eq_false h4
        rw [if_neg e3, if_neg e4]
        rcases live_test C hl1 (fun c => decide (lower c = 111)) (hlow 111 (Or.inr (Or.inl rfl))) with
          ⟨h5, h6⟩ | ⟨h5, h6, hbef⟩ | ⟨h5, h6, hdn⟩
        · have e5 : lower c ≠ 111 := of_decide_eq_false h5
          have e6 : lower c' ≠ 111 := of_decide_eq_false h6
          rw [if_neg e5, if_neg e6]
          rcases live_test C hl1 (fun c => decide (lower c = 98)) (hlow 98 (Or.inr (Or.inr rfl))) with
            ⟨h7, h8⟩ | ⟨h7, h8, hbef⟩ | ⟨h7, h8, hdn⟩
          · have e7 : lower c ≠ 98 := of_decide_eq_false h7
            have e8 : lower c' ≠ 98 := of_decide_eq_false h8
            rw [if_neg e7, if_neg e8]
            exact Or.inr ⟨hl1, rfl, rfl, rfl⟩
          · rw [if_pos (of_decide_eq_true h7), if_pos (of_decide_eq_true h8)]
            exact Or.inr ⟨before_next C hbef, rfl, rfl, rfl⟩
          · rw [if_pos (of_decide_eq_true h7)]; exact Or.inl hdn
        · rw [if_pos (of_decide_eq_true h5), if_pos (of_decide_eq_true h6)]
          exact Or.inr ⟨before_next C hbef, rfl, rfl, rfl⟩
        · rw [if_pos (of_decide_eq_true h5)]; exact Or.inl hdn
      · rw [if_pos (of_decide_eq_true h3), if_pos (of_decide_eq_true h4)]
        exact Or.inr ⟨before_next C hbef, rfl, rfl, rfl⟩
      · rw [if_pos (of_decide_eq_true h3)]; exact Or.inl hdn
    · -- `0` as the first rune of `xA`: run A reads on
      have e1 : ca = 48 := of_decide_eq_true h1
      refine Or.inl ?_
      unfold nPrefix; rw [if_pos e1]
      dsimp only at hdn
      generalize next ra pa = x at hdn ⊢
      obtain ⟨c, r, q⟩ := x
      dsimp only
      have hdn2 : Dead xA xB (next r q) := (dead_srel xA xB).next c r q hdn
      split
      · exact hdn2
      split
      · exact hdn2
      split
      · exact hdn2
      · exact hdn

/-- everything in the result of the integer stage but the scanner state -/
def nIntData (o : Kind × Nat × Int × Nat × Int × List Rune × PState × Bool × Int) : Kind × Nat × Int × Nat × Bool × Int :=
  (o.1, o.2.1, o.2.2.1, o.2.2.2.1, o.2.2.2.2.2.2.2.1, o.2.2.2.2.2.2.2.2)

theorem nInt_sim {a b : St} (h : Rel xA xB PR PRat a b) (sd : Bool) :
    Dead xA xB (nIntSt (nInt a.2.1 a.1 a.2.2 sd)) ∨
    (Live xA xB PR PRat (nIntSt (nInt a.2.1 a.1 a.2.2 sd)) (nIntSt (nInt b.2.1 b.1 b.2.2 sd)) ∧
      nIntData (nInt a.2.1 a.1 a.2.2 sd) = nIntData (nInt b.2.1 b.1 b.2.2 sd)) := by
  cases h with
  | inr hd => exact Or.inl (nInt_s (dead_srel xA xB) _ _ _ sd hd)
  | inl hl =>
    cases sd with
    | true => exact Or.inr ⟨hl, rfl⟩
    | false =>
      unfold nInt nIntSt nIntData
      simp only [Bool.not_false, ↓reduceIte]
      have h1 := nPrefix_sim C (Or.inl hl)
      generalize nPrefix a.2.1 a.1 a.2.2 = xa at h1 ⊢
      generalize nPrefix b.2.1 b.1 b.2.2 = xb at h1 ⊢
      obtain ⟨base, prefx, digsep, c, r, q⟩ := xa
      obtain ⟨base', prefx', digsep', c', r', q'⟩ := xb
      dsimp only at h1 ⊢
      have hdead : Dead xA xB (c, r, q) →
          Dead xA xB ((match digitsLoop base r c q 0 0 with
            | ((ch, rest, p), ds, inv) =>
              if ch = 46 then
                match next rest p with
                | (c, r, q) => (Kind.int, base, prefx, digsep ||| ds, c, r, q, true, inv)
              else (Kind.int, base, prefx, digsep ||| ds, ch, rest, p, false, inv)).2.2.2.2.1,
            (match digitsLoop base r c q 0 0 with
            | ((ch, rest, p), ds, inv) =>
              if ch = 46 then
                match next rest p with
                | (c, r, q) => (Kind.int, base, prefx, digsep ||| ds, c, r, q, true, inv)
              else (Kind.int, base, prefx, digsep ||| ds, ch, rest, p, false, inv)).2.2.2.2.2.1,
            (match digitsLoop base r c q 0 0 with
            | ((ch, rest, p), ds, inv) =>
              if ch = 46 then
                match next rest p with
                | (c, r, q) => (Kind.int, base, prefx, digsep ||| ds, c, r, q, true, inv)
              else (Kind.int, base, prefx, digsep ||| ds, ch, rest, p, false, inv)).2.2.2.2.2.2.1) := by
        intro hd
        have h2 := digitsLoop_s (dead_srel xA xB) base r c q 0 0 hd
        generalize digitsLoop base r c q 0 0 = y at h2 ⊢
        obtain ⟨⟨c2, r2, q2⟩, ds, inv⟩ := y
        dsimp only at h2 ⊢
        split
        · exact (dead_srel xA xB).next c2 r2 q2 h2
        · exact h2
      rcases h1 with hd | ⟨hl1, e1, e2, e3⟩
      · exact Or.inl (hdead hd)
      · subst e1 e2 e3
        have h2 := digitsLoop_sim C base r c q r' c' q' 0 0 (Or.inl hl1)
        rcases h2 with hd2 | ⟨hl2, e4⟩
        · refine Or.inl ?_
          generalize digitsLoop base r c q 0 0 = y at hd2 ⊢
          obtain ⟨⟨c2, r2, q2⟩, ds, inv⟩ := y
          dsimp only at hd2 ⊢
          split
          · exact (dead_srel xA xB).next c2 r2 q2 hd2
          · exact hd2
        · generalize digitsLoop base r c q 0 0 = y at hl2 e4 ⊢
          generalize digitsLoop base r' c' q' 0 0 = y' at hl2 e4 ⊢
          obtain ⟨⟨c2, r2, q2⟩, ds, inv⟩ := y
          obtain ⟨⟨c2', r2', q2'⟩, ds', inv'⟩ := y'
          dsimp only at hl2 e4 ⊢
          obtain ⟨rfl, rfl⟩ := Prod.mk.inj e4
          rcases live_test C hl2 (fun c => decide (c = 46)) (eq_stop_false 46 (by decide)) with
            ⟨h3, h4⟩ | ⟨h3, h4, hbef⟩ | ⟨h3, h4, hdn⟩
          · rw [if_neg (of_decide_eq_false h3), if_neg (of_decide_eq_false h4)]
            exact Or.inr ⟨hl2, rfl⟩
          · rw [if_pos (of_decide_eq_true h3), if_pos (of_decide_eq_true h4)]
            exact Or.inr ⟨before_next C hbef, rfl⟩
          · rw [if_pos (of_decide_eq_true h3)]
            exact Or.inl hdn

def nFracData (o : Kind × Nat × Int × List Rune × PState × Int) : Kind × Nat × Int := (o.1, o.2.1, o.2.2.2.2.2)

theorem live_ite_err {a b : St} (h : Live xA xB PR PRat a b) (c : Prop) [Decidable c] :
    Live xA xB PR PRat (a.1, a.2.1, if c then Scan.err a.2.2 else a.2.2)
      (b.1, b.2.1, if c then Scan.err b.2.2 else b.2.2) := by
  split
  · exact live_err C h
  · exact h

theorem nFrac_sim (tok0 base prefx digsep0) {a b : St} (h : Rel xA xB PR PRat a b) (sd : Bool) (inv : Int) :
    Dead xA xB (nFracSt (nFrac tok0 base prefx digsep0 a.1 a.2.1 a.2.2 sd inv)) ∨
    (Live xA xB PR PRat (nFracSt (nFrac tok0 base prefx digsep0 a.1 a.2.1 a.2.2 sd inv))
        (nFracSt (nFrac tok0 base prefx digsep0 b.1 b.2.1 b.2.2 sd inv)) ∧
      nFracData (nFrac tok0 base prefx digsep0 a.1 a.2.1 a.2.2 sd inv) =
        nFracData (nFrac tok0 base prefx digsep0 b.1 b.2.1 b.2.2 sd inv)) := by
  cases h with
  | inr hd => exact Or.inl (nFrac_s (dead_srel xA xB) _ _ _ _ _ _ _ sd inv hd)
  | inl hl =>
    cases sd with
    | false => exact Or.inr ⟨hl, rfl⟩
    | true =>
      unfold nFrac nFracSt nFracData
      simp only [↓reduceIte]
      have hl' := live_ite_err C hl ((prefx = 111 || prefx = 98) = true)
      have h2 := digitsLoop_sim C base _ _ _ _ _ _ 0 inv (Or.inl hl')
      generalize digitsLoop base a.2.1 a.1 (if (prefx = 111 || prefx = 98) = true then Scan.err a.2.2 else a.2.2) 0 inv = y at h2 ⊢
      generalize digitsLoop base b.2.1 b.1 (if (prefx = 111 || prefx = 98) = true then Scan.err b.2.2 else b.2.2) 0 inv = y' at h2 ⊢
      obtain ⟨⟨c2, r2, q2⟩, ds, iv⟩ := y
      obtain ⟨⟨c2', r2', q2'⟩, ds', iv'⟩ := y'
      dsimp only at h2 ⊢
      rcases h2 with hd | ⟨hl2, e⟩
      · exact Or.inl hd
      · obtain ⟨rfl, rfl⟩ := Prod.mk.inj e
        exact Or.inr ⟨hl2, rfl⟩

omit C in
theorem nExp_no (tok2 prefx digsep1 ch rest p)
    (h : (decide (lower ch = 101) || decide (lower ch = 112)) = false) :
    nExp tok2 prefx digsep1 ch rest p =
      if (prefx = 120 && tok2 = Kind.float) = true then (tok2, digsep1, ch, rest, Scan.err p)
      else (tok2, digsep1, ch, rest, p) := by
  unfold nExp; dsimp only; rw [if_neg (by rw [h]; simp)]

omit C in
theorem nExp_yes (tok2 prefx digsep1 ch rest p)
    (h : (decide (lower ch = 101) || decide (lower ch = 112)) = true) :
    nExp tok2 prefx digsep1 ch rest p =
      (let p := if lower ch = 101 && prefx ≠ 0 && prefx ≠ 48 then Scan.err p
                else if lower ch = 112 && prefx ≠ 120 then Scan.err p else p
       let (c, r, q) := next rest p
       let (c, r, q) := if c = 43 || c = 45 then next r q else (c, r, q)
       let ((c, r, q), ds, _) := digitsLoop 10 r c q 0 1
       let q := if ds % 2 = 0 then Scan.err q else q
       (Kind.float, digsep1 ||| ds, c, r, q)) := by
  unfold nExp; dsimp only; rw [if_pos h]

theorem nExp_sim (tok2 prefx digsep1) {a b : St} (h : Rel xA xB PR PRat a b) :
    Dead xA xB (nExp tok2 prefx digsep1 a.1 a.2.1 a.2.2).2.2 ∨
    (Live xA xB PR PRat (nExp tok2 prefx digsep1 a.1 a.2.1 a.2.2).2.2 (nExp tok2 prefx digsep1 b.1 b.2.1 b.2.2).2.2 ∧
      (nExp tok2 prefx digsep1 a.1 a.2.1 a.2.2).1 = (nExp tok2 prefx digsep1 b.1 b.2.1 b.2.2).1 ∧
      (nExp tok2 prefx digsep1 a.1 a.2.1 a.2.2).2.1 = (nExp tok2 prefx digsep1 b.1 b.2.1 b.2.2).2.1) := by
  cases h with
  | inr hd => exact Or.inl (nExp_s (dead_srel xA xB) _ _ _ _ _ _ hd)
  | inl hl =>
    obtain ⟨ca, ra, pa⟩ := a
    obtain ⟨cb, rb, pb⟩ := b
    dsimp only
    have ht : ∀ c, (decide (lower c = 101) || decide (lower c = 112)) = true → ¬ StopCh c := by
      intro c hc hs
      have := stop_lower hs
      simp only [Bool.or_eq_true, decide_eq_true_eq] at hc
      rcases hc with e | e
      · exact this.2.2.2.1 e
      · exact this.2.2.2.2 e
    rcases live_test' C hl (fun c => decide (lower c = 101) || decide (lower c = 112)) ht with
      ⟨h1, h2⟩ | ⟨h1, h2, hbef⟩ | ⟨h1, h2, hat, hx⟩
    · -- no exponent
      rw [nExp_no _ _ _ _ _ _ h1, nExp_no _ _ _ _ _ _ h2]
      split
      · exact Or.inr ⟨live_err C hl, rfl, rfl⟩
      · exact Or.inr ⟨hl, rfl, rfl⟩
    · -- exponent in both runs
      have ec : ca = cb := hbef.1
      subst ec
      rw [nExp_yes _ _ _ _ _ _ h1, nExp_yes _ _ _ _ _ _ h1]
      dsimp only
      have hb1 : Before xA xB PR
          (ca, ra, if (lower ca = 101 && prefx ≠ 0 && prefx ≠ 48) = true then Scan.err pa
            else if (lower ca = 112 && prefx ≠ 120) = true then Scan.err pa else pa)
          (ca, rb, if (lower ca = 101 && prefx ≠ 0 && prefx ≠ 48) = true then Scan.err pb
            else if (lower ca = 112 && prefx ≠ 120) = true then Scan.err pb else pb) := by
        split
        · exact before_err C hbef
        · exact before_ite_err C hbef _
      have hl1 := before_next C hb1
      dsimp only at hl1
      generalize next ra _ = x at hl1 ⊢
      generalize next rb _ = y at hl1 ⊢
      obtain ⟨c, r, q⟩ := x
      obtain ⟨c', r', q'⟩ := y
      dsimp only
      -- the sign
      have hl2 : Dead xA xB (if (c = 43 || c = 45) = true then next r q else (c, r, q)) ∨
          Live xA xB PR PRat (if (c = 43 || c = 45) = true then next r q else (c, r, q))
            (if (c' = 43 || c' = 45) = true then next r' q' else (c', r', q')) := by
        have hts : ∀ c : Int, (decide (c = 43) || decide (c = 45)) = true → ¬ StopCh c := by
          intro c hc hs
          have := stop_ne hs
          simp only [Bool.or_eq_true, decide_eq_true_eq] at hc
          rcases hc with e | e
          · exact this.2.2.2.2.1 e
          · exact this.2.2.2.1 e
        rcases live_test C hl1 (fun c => decide (c = 43) || decide (c = 45)) hts with
          ⟨h3, h4⟩ | ⟨h3, h4, hbef2⟩ | ⟨h3, h4, hdn⟩
        · dsimp only at h3 h4; rw [if_neg (by rw [h3]; simp), if_neg (by rw [h4]; simp)]; exact Or.inr hl1
        · dsimp only at h3 h4; rw [if_pos h3, if_pos h4]; exact Or.inr (before_next C hbef2)
        · dsimp only at h3; rw [if_pos h3]; exact Or.inl hdn
      generalize (if (c = 43 || c = 45) = true then next r q else (c, r, q)) = x2 at hl2 ⊢
      generalize (if (c' = 43 || c' = 45) = true then next r' q' else (c', r', q')) = y2 at hl2 ⊢
      obtain ⟨c2, r2, q2⟩ := x2
      obtain ⟨c2', r2', q2'⟩ := y2
      dsimp only
      have h3 := digitsLoop_sim C 10 r2 c2 q2 r2' c2' q2' 0 1
        (hl2.elim (fun hd => Or.inr hd) (fun hl => Or.inl hl))
      generalize digitsLoop 10 r2 c2 q2 0 1 = z at h3 ⊢
      generalize digitsLoop 10 r2' c2' q2' 0 1 = z' at h3 ⊢
      obtain ⟨⟨c3, r3, q3⟩, ds, iv⟩ := z
      obtain ⟨⟨c3', r3', q3'⟩, ds', iv'⟩ := z'
      dsimp only at h3 ⊢
      rcases h3 with hd | ⟨hl3, e⟩
      · exact Or.inl (s_ite_err (dead_srel xA xB) _ c3 r3 q3 hd)
      · obtain ⟨rfl, rfl⟩ := Prod.mk.inj e
        exact Or.inr ⟨live_ite_err C hl3 _, rfl, rfl⟩
    · -- exponent letter as the first rune of `xA`
      refine Or.inl ?_
      rw [nExp_yes _ _ _ _ _ _ h1]
      dsimp only
      have hdn := at_any_next_dead hat hx
        (if (lower ca = 101 && prefx ≠ 0 && prefx ≠ 48) = true then Scan.err pa
            else if (lower ca = 112 && prefx ≠ 120) = true then Scan.err pa else pa)
      dsimp only at hdn
      generalize next ra _ = x at hdn ⊢
      obtain ⟨c, r, q⟩ := x
      dsimp only
      have hd2 : Dead xA xB (if (c = 43 || c = 45) = true then next r q else (c, r, q)) := by
        split
        · exact (dead_srel xA xB).next c r q hdn
        · exact hdn
      generalize (if (c = 43 || c = 45) = true then next r q else (c, r, q)) = x2 at hd2 ⊢
      obtain ⟨c2, r2, q2⟩ := x2
      dsimp only
      have h3 := digitsLoop_s (dead_srel xA xB) 10 r2 c2 q2 0 1 hd2
      generalize digitsLoop 10 r2 c2 q2 0 1 = z at h3 ⊢
      obtain ⟨⟨c3, r3, q3⟩, ds, iv⟩ := z
      exact s_ite_err (dead_srel xA xB) _ c3 r3 q3 h3

omit C in
theorem consumed_at (c0 : Int) (u0 x : List Rune) :
    consumed c0 (u0 ++ x) x.tail (hdCh x) = (if c0 < 0 then [] else [c0.toNat]) ++ u0.map (·.ch) := by
  unfold consumed
  cases x with
  | nil => simp [hdCh]
  | cons r t =>
    have h1 : (u0 ++ r :: t).length - (r :: t).tail.length = u0.length + 1 := by simp; omega
    have h2 : List.take (u0.length + 1) (u0 ++ r :: t) = u0 ++ [r] := by
      rw [List.take_append]; simp [List.take_of_length_le]
    have h3 : ¬ hdCh (r :: t) < 0 := by
      have : (0 : Int) ≤ hdCh (r :: t) := Int.natCast_nonneg _
      omega
    simp only [h1, h2, h3, ↓reduceIte, List.dropLast_concat]

omit C in
theorem consumed_before (c0 : Int) (u0 u1 x : List Rune) (ch : Int) :
    consumed c0 (u0 ++ x) (u1 ++ x) ch =
      (if c0 < 0 then [] else [c0.toNat]) ++
        (if ch < 0 then u0.take (u0.length - u1.length) else (u0.take (u0.length - u1.length)).dropLast).map (·.ch) := by
  unfold consumed
  have h1 : (u0 ++ x).length - (u1 ++ x).length = u0.length - u1.length := by simp; omega
  have h2 : List.take (u0.length - u1.length) (u0 ++ x) = u0.take (u0.length - u1.length) := by
    rw [List.take_append_of_le_length (by omega)]
  simp only [h1, h2]

omit C in
/-- the token text computed from two live end states is the same -/
theorem consumed_live (c0 : Int) (u0 : List Rune) {a b : St} (h : Live xA xB PR PRat a b) :
    consumed c0 (u0 ++ xA) a.2.1 a.1 = consumed c0 (u0 ++ xB) b.2.1 b.1 := by
  rcases h with ⟨hc, _, _, u1, ha, hb⟩ | ⟨_, h1, h2, h3, h4, _⟩
  · rw [ha, hb, hc, consumed_before, consumed_before]
  · rw [h1, h2, h3, h4, consumed_at, consumed_at]

theorem nFin_sim (pre : List Int) (chFirst : Int) (u0 : List Rune) (tok3 : Kind) (inv : Int) (digsep2 : Nat)
    {a b : St} (h : Live xA xB PR PRat a b) :
    Live xA xB PR PRat (nFin pre chFirst (u0 ++ xA) tok3 inv digsep2 a.1 a.2.1 a.2.2).2
      (nFin pre chFirst (u0 ++ xB) tok3 inv digsep2 b.1 b.2.1 b.2.2).2 ∧
    (nFin pre chFirst (u0 ++ xA) tok3 inv digsep2 a.1 a.2.1 a.2.2).1 =
      (nFin pre chFirst (u0 ++ xB) tok3 inv digsep2 b.1 b.2.1 b.2.2).1 := by
  unfold nFin
  dsimp only
  refine ⟨?_, rfl⟩
  have h1 := live_ite_err C h ((tok3 = Kind.int && inv ≠ 0) = true)
  rw [consumed_live chFirst u0 h]
  split
  · exact live_ite_err C h1 _
  · exact h1

theorem nSep_live (tok1 digsep1 neg) {a b : St} (h : Live xA xB PR PRat a b) :
    Live xA xB PR PRat (a.1, a.2.1, (nSep tok1 digsep1 neg a.2.2).2) (b.1, b.2.1, (nSep tok1 digsep1 neg b.2.2).2) ∧
      (nSep tok1 digsep1 neg a.2.2).1 = (nSep tok1 digsep1 neg b.2.2).1 := by
  unfold nSep
  split
  · split
    · exact ⟨h, rfl⟩
    · exact ⟨live_err C h, rfl⟩
  · exact ⟨h, rfl⟩

theorem nTail3_sim (pre ch0 u0 prefx neg) (oa ob : Kind × Nat × Int × List Rune × PState × Int)
    (hl : Live xA xB PR PRat (nFracSt oa) (nFracSt ob)) (hd : nFracData oa = nFracData ob) :
    Dead xA xB (nTail3 pre ch0 (u0 ++ xA) prefx neg oa).2 ∨
    (Live xA xB PR PRat (nTail3 pre ch0 (u0 ++ xA) prefx neg oa).2 (nTail3 pre ch0 (u0 ++ xB) prefx neg ob).2 ∧
      (nTail3 pre ch0 (u0 ++ xA) prefx neg oa).1 = (nTail3 pre ch0 (u0 ++ xB) prefx neg ob).1) := by
  obtain ⟨tok1, digsep1, ch2, rest2, p2, inv1⟩ := oa
  obtain ⟨tok1', digsep1', ch2', rest2', p2', inv1'⟩ := ob
  unfold nFracData at hd
  dsimp only at hd
  simp only [Prod.mk.injEq] at hd
  obtain ⟨rfl, rfl, rfl⟩ := hd
  unfold nFracSt at hl
  dsimp only at hl
  unfold nTail3
  dsimp only
  obtain ⟨hl2, e2⟩ := nSep_live C tok1 digsep1 neg hl
  dsimp only at hl2 e2
  generalize nSep tok1 digsep1 neg p2 = o2 at hl2 e2 ⊢
  generalize nSep tok1 digsep1 neg p2' = o2' at hl2 e2 ⊢
  obtain ⟨tok2, p3⟩ := o2
  obtain ⟨tok2', p3'⟩ := o2'
  dsimp only at hl2 e2 ⊢
  subst e2
  have h3 := nExp_sim C tok2 prefx digsep1 (Or.inl hl2)
  dsimp only at h3
  generalize nExp tok2 prefx digsep1 ch2 rest2 p3 = o3 at h3 ⊢
  generalize nExp tok2 prefx digsep1 ch2' rest2' p3' = o3' at h3 ⊢
  obtain ⟨tok3, digsep2, ch4, rest4, p4⟩ := o3
  obtain ⟨tok3', digsep2', ch4', rest4', p4'⟩ := o3'
  dsimp only at h3 ⊢
  rcases h3 with hdd | ⟨hl3, e3, e4⟩
  · exact Or.inl (nFin_s (dead_srel xA xB) pre ch0 _ tok3 inv1 digsep2 ch4 rest4 p4 hdd)
  · subst e3 e4
    exact Or.inr (nFin_sim C pre ch0 u0 tok3 inv1 digsep2 hl3)

theorem nTail2_sim (pre ch0 u0 neg) (oa ob : Kind × Nat × Int × Nat × Int × List Rune × PState × Bool × Int)
    (hl : Live xA xB PR PRat (nIntSt oa) (nIntSt ob)) (hd : nIntData oa = nIntData ob) :
    Dead xA xB (nTail2 pre ch0 (u0 ++ xA) neg oa).2 ∨
    (Live xA xB PR PRat (nTail2 pre ch0 (u0 ++ xA) neg oa).2 (nTail2 pre ch0 (u0 ++ xB) neg ob).2 ∧
      (nTail2 pre ch0 (u0 ++ xA) neg oa).1 = (nTail2 pre ch0 (u0 ++ xB) neg ob).1) := by
  obtain ⟨tok0, base, prefx, digsep0, ch1, rest1, p1, sd1, inv⟩ := oa
  obtain ⟨tok0', base', prefx', digsep0', ch1', rest1', p1', sd1', inv'⟩ := ob
  unfold nIntData at hd
  dsimp only at hd
  simp only [Prod.mk.injEq] at hd
  obtain ⟨rfl, rfl, rfl, rfl, rfl, rfl⟩ := hd
  unfold nIntSt at hl
  dsimp only at hl
  unfold nTail2
  dsimp only
  have h1 := nFrac_sim C tok0 base prefx digsep0 (Or.inl hl) sd1 inv
  dsimp only at h1
  rcases h1 with hdd | ⟨hl1, e1⟩
  · exact Or.inl (nTail3_s (dead_srel xA xB) pre ch0 _ prefx neg _ hdd)
  · exact nTail3_sim C pre ch0 u0 prefx neg _ _ hl1 e1

/-- the number scanner started inside the common part -/
theorem scanNumber_sim (pre : List Int) (sd neg : Bool) (u0 : List Rune) {a b : St}
    (h : Before xA xB PR a b) (ha : a.2.1 = u0 ++ xA) (hb : b.2.1 = u0 ++ xB) :
    Dead xA xB (scanNumber pre a.2.1 a.1 a.2.2 sd neg).2 ∨
    (Live xA xB PR PRat (scanNumber pre a.2.1 a.1 a.2.2 sd neg).2 (scanNumber pre b.2.1 b.1 b.2.2 sd neg).2 ∧
      (scanNumber pre a.2.1 a.1 a.2.2 sd neg).1 = (scanNumber pre b.2.1 b.1 b.2.2 sd neg).1) := by
  have hc : a.1 = b.1 := h.1
  rw [scanNumber_eq', scanNumber_eq', ← hc]
  have h0 := nInt_sim C (Or.inl (Or.inl h)) sd
  rw [← hc] at h0
  rcases h0 with hdd | ⟨hl0, e0⟩
  · exact Or.inl (nTail2_s (dead_srel xA xB) pre _ _ neg _ hdd)
  · have := nTail2_sim C pre a.1 u0 neg _ _ hl0 e0
    rw [ha, hb] at *
    exact this

end sim5

/-! ### strings -/


section sim6
variable {xA xB : List Rune} {PR PRat : PState → PState → Prop} (C : Ctx xA xB PR PRat)
include C

theorem scanDigits_sim (base : Nat) : ∀ n (a b : St), Rel xA xB PR PRat a b →
    Rel xA xB PR PRat (scanDigits base n a.2.1 a.1 a.2.2) (scanDigits base n b.2.1 b.1 b.2.2) := by
  intro n
  induction n with
  | zero => intro a b h; exact h
  | succ n ih =>
    intro a b h
    cases h with
    | inr hd => exact Or.inr (scanDigits_s (dead_srel xA xB) base _ _ _ _ hd)
    | inl hl =>
      rcases live_test C hl (fun c => digitValLt c base) (fun c hc hs => by rw [stop_digitVal hs] at hc; cases hc) with
        ⟨h1, h2⟩ | ⟨h1, h2, hbef⟩ | ⟨h1, h2, hdn⟩
      · unfold scanDigits
        rw [if_neg (by rw [h1]; simp), if_neg (by rw [h2]; simp)]
        exact Or.inl (live_err C hl)
      · unfold scanDigits
        rw [if_pos h1, if_pos h2]
        have hl1 := before_next C hbef
        generalize next a.2.1 a.2.2 = x at hl1 ⊢
        generalize next b.2.1 b.2.2 = y at hl1 ⊢
        exact ih x y (Or.inl hl1)
      · unfold scanDigits
        rw [if_pos h1]
        generalize next a.2.1 a.2.2 = x at hdn ⊢
        exact Or.inr (scanDigits_s (dead_srel xA xB) base n _ _ _ hdn)

/-- `scanEscape` after its first `next` -/
def escBody (s : St) : St :=
  if s.1 = 97 || s.1 = 98 || s.1 = 102 || s.1 = 110 || s.1 = 114 || s.1 = 116 || s.1 = 118 || s.1 = 92 || s.1 = 34 then
    next s.2.1 s.2.2
  else if 48 ≤ s.1 && s.1 ≤ 55 then scanDigits 8 3 s.2.1 s.1 s.2.2
  else if s.1 = 120 then scanDigits 16 2 (next s.2.1 s.2.2).2.1 (next s.2.1 s.2.2).1 (next s.2.1 s.2.2).2.2
  else if s.1 = 117 then scanDigits 16 4 (next s.2.1 s.2.2).2.1 (next s.2.1 s.2.2).1 (next s.2.1 s.2.2).2.2
  else if s.1 = 85 then scanDigits 16 8 (next s.2.1 s.2.2).2.1 (next s.2.1 s.2.2).1 (next s.2.1 s.2.2).2.2
  else (s.1, s.2.1, Scan.err s.2.2)

omit C in
theorem scanEscape_eq (rest : List Rune) (p : PState) : scanEscape rest p = escBody (next rest p) := rfl

omit C in
theorem escBody_s {R : St → St → Prop} (hR : SRel R) (s : St) : R s (escBody s) := by
  obtain ⟨c, r, q⟩ := s
  unfold escBody
  dsimp only
  have h2 := hR.next c r q
  generalize next r q = y at h2 ⊢
  obtain ⟨c2, r2, q2⟩ := y
  split
  · exact h2
  split
  · exact scanDigits_s hR _ _ _ _ _
  split
  · exact hR.trans h2 (scanDigits_s hR _ _ _ _ _)
  split
  · exact hR.trans h2 (scanDigits_s hR _ _ _ _ _)
  split
  · exact hR.trans h2 (scanDigits_s hR _ _ _ _ _)
  · exact hR.err _ _ _ _

omit C in
/-- the tests of `escBody` all fail on a stop character -/
theorem escBody_stop (s : St) (h : StopCh s.1) : escBody s = (s.1, s.2.1, Scan.err s.2.2) := by
  obtain ⟨c, r, q⟩ := s
  dsimp only at h
  unfold escBody
  dsimp only
  refine stop_cases (P := fun c => (if (c = 97 || c = 98 || c = 102 || c = 110 || c = 114 || c = 116 || c = 118 ||
      c = 92 || c = 34) = true then next r q
    else if (48 ≤ c && c ≤ 55) = true then scanDigits 8 3 r c q
    else if c = 120 then scanDigits 16 2 (next r q).2.1 (next r q).1 (next r q).2.2
    else if c = 117 then scanDigits 16 4 (next r q).2.1 (next r q).1 (next r q).2.2
    else if c = 85 then scanDigits 16 8 (next r q).2.1 (next r q).1 (next r q).2.2
    else (c, r, Scan.err q)) = (c, r, Scan.err q)) h ?_ ?_ ?_ ?_ ?_ ?_ <;> rfl

theorem escBody_sim {a b : St} (hl : Live xA xB PR PRat a b) : Rel xA xB PR PRat (escBody a) (escBody b) := by
  rcases hl with hb | ha
  · -- inside the common part: the same branch
    obtain ⟨ca, ra, pa⟩ := a
    obtain ⟨cb, rb, pb⟩ := b
    have hc : ca = cb := hb.1
    subst hc
    have hl1 := before_next C hb
    unfold escBody
    dsimp only at hl1 ⊢
    split
    · exact Or.inl hl1
    split
    · exact scanDigits_sim C 8 3 _ _ (Or.inl (Or.inl hb))
    split
    · exact scanDigits_sim C 16 2 _ _ (Or.inl hl1)
    split
    · exact scanDigits_sim C 16 4 _ _ (Or.inl hl1)
    split
    · exact scanDigits_sim C 16 8 _ _ (Or.inl hl1)
    · exact Or.inl (live_err C (Or.inl hb))
  · -- at the first different rune: run B records an error; so does run A, or it reads on
    have hsB := at_stopB C ha
    rw [escBody_stop b hsB]
    by_cases hsA : StopCh a.1
    · rw [escBody_stop a hsA]
      exact Or.inl (live_err C (Or.inr ha))
    · have hx := at_ne_nil ha hsA
      have hdn := at_next_dead ha hx
      refine Or.inr ?_
      unfold escBody
      split
      · exact hdn
      split
      · -- an octal digit: `scanDigits` reads on
        rename_i h1 h2
        have hd8 : digitValLt a.1 8 = true := by
          simp only [Bool.and_eq_true, decide_eq_true_eq] at h2
          unfold digitValLt isDecimal
          have : (decide (48 ≤ a.1) && decide (a.1 ≤ 57)) = true := by
            simp only [Bool.and_eq_true, decide_eq_true_eq]; omega
          rw [if_pos this]
          simp only [decide_eq_true_eq]
          omega
        have e : scanDigits 8 3 a.2.1 a.1 a.2.2 =
            scanDigits 8 2 (next a.2.1 a.2.2).2.1 (next a.2.1 a.2.2).1 (next a.2.1 a.2.2).2.2 := by
          conv => lhs; unfold scanDigits
          rw [if_pos hd8]
        rw [e]
        exact scanDigits_s (dead_srel xA xB) 8 2 _ _ _ hdn
      split
      · exact scanDigits_s (dead_srel xA xB) 16 2 _ _ _ hdn
      split
      · exact scanDigits_s (dead_srel xA xB) 16 4 _ _ _ hdn
      split
      · exact scanDigits_s (dead_srel xA xB) 16 8 _ _ _ hdn
      · exact ⟨ha.1, Or.inl (err_errs_ne _)⟩

end sim6

/-! #### fuel of the string loop -/

/-- the turns the string loop still needs from a state -/
def need (s : St) : Nat := if s.1 < 0 then 1 else s.2.1.length + 2

theorem len_srel : SRel (fun a b : St => b.2.1.length ≤ a.2.1.length) where
  refl _ := Nat.le_refl _
  trans h1 h2 := Nat.le_trans h2 h1
  next _ rest p := Scanner.next_length rest p
  err _ _ _ _ := Nat.le_refl _

theorem need_next (s : St) (h : 0 ≤ s.1) : need (next s.2.1 s.2.2) + 1 ≤ need s := by
  obtain ⟨c, r, q⟩ := s
  dsimp only at h
  have hc : ¬ c < 0 := by omega
  cases r with
  | nil =>
    have e : next [] q = (EOF, [], (next [] q).2.2) := rfl
    rw [e]
    simp [need, hc]
  | cons x xs =>
    rw [next_cons_eq]
    have hx : ¬ Int.ofNat x.ch < 0 := by
      have : (0 : Int) ≤ Int.ofNat x.ch := Int.natCast_nonneg _
      omega
    simp only [need, hc, ↓reduceIte, List.length_cons]
    split <;> omega

theorem need_escape (rest : List Rune) (p : PState) : need (scanEscape rest p) ≤ rest.length + 1 := by
  rw [scanEscape_eq]
  cases rest with
  | nil =>
    have e : next [] p = (EOF, [], (next [] p).2.2) := rfl
    rw [e, escBody_stop _ stop_hd_nil]
    simp [need]
  | cons x xs =>
    rw [next_cons_eq]
    have := escBody_s len_srel (Int.ofNat x.ch, xs, step x p)
    dsimp only at this
    unfold need
    split
    · simp
    · simp; omega

theorem stringLoop_fuel : ∀ f (s : St), need s ≤ f →
    stringLoop (f + 1) s.2.1 s.1 s.2.2 = stringLoop f s.2.1 s.1 s.2.2 := by
  intro f
  induction f with
  | zero => intro s h; unfold need at h; split at h <;> omega
  | succ f ih =>
    intro s h
    obtain ⟨c, r, q⟩ := s
    dsimp only
    rw [stringLoop, stringLoop]
    by_cases h1 : c = 34
    · rw [if_pos h1, if_pos h1]
    rw [if_neg h1, if_neg h1]
    by_cases h2 : (c = 10 || c < 0) = true
    · rw [if_pos h2, if_pos h2]
    rw [if_neg h2, if_neg h2]
    have hc : 0 ≤ c := by
      simp only [Bool.or_eq_true, decide_eq_true_eq, not_or] at h2; omega
    have hn : r.length + 2 ≤ f + 1 := by
      unfold need at h; dsimp only at h; rw [if_neg (by omega)] at h; exact h
    by_cases h3 : c = 92
    · rw [if_pos h3, if_pos h3]
      have := need_escape r q
      exact ih (scanEscape r q) (by omega)
    · rw [if_neg h3, if_neg h3]
      have := need_next (c, r, q) hc
      dsimp only at this
      exact ih (next r q) (by omega)

theorem stringLoop_fuel_ge (s : St) (f : Nat) (h : need s ≤ f) : ∀ k,
    stringLoop (f + k) s.2.1 s.1 s.2.2 = stringLoop f s.2.1 s.1 s.2.2 := by
  intro k
  induction k with
  | zero => rfl
  | succ k ih => rw [← Nat.add_assoc, stringLoop_fuel (f + k) s (by omega), ih]

/-- the string loop followed by the `next` that reads the look-ahead behind the closing quote -/
def strLoopTok (f : Nat) (s : St) : St :=
  next (stringLoop f s.2.1 s.1 s.2.2).2.1 (stringLoop f s.2.1 s.1 s.2.2).2.2

theorem strLoopTok_zero (s : St) : strLoopTok 0 s = next s.2.1 s.2.2 := rfl

theorem strLoopTok_succ (f : Nat) (s : St) :
    strLoopTok (f + 1) s =
      if s.1 = 34 then next s.2.1 s.2.2
      else if (s.1 = 10 || s.1 < 0) = true then next s.2.1 (Scan.err s.2.2)
      else if s.1 = 92 then strLoopTok f (scanEscape s.2.1 s.2.2)
      else strLoopTok f (next s.2.1 s.2.2) := by
  obtain ⟨c, r, q⟩ := s
  unfold strLoopTok
  dsimp only
  rw [stringLoop]
  split
  · rfl
  split
  · rfl
  split
  · rfl
  · rfl

theorem strLoopTok_s {R : St → St → Prop} (hR : SRel R) (f : Nat) (s : St) : R s (strLoopTok f s) := by
  obtain ⟨c, r, q⟩ := s
  unfold strLoopTok
  dsimp only
  have h := stringLoop_s hR f r c q
  generalize stringLoop f r c q = x at h ⊢
  obtain ⟨c', r', q'⟩ := x
  exact hR.trans h (hR.next _ _ _)

section sim7
variable {xA xB : List Rune} {PR PRat : PState → PState → Prop} (C : Ctx xA xB PR PRat)
include C

theorem scanEscape_sim {a b : St} (h : Before xA xB PR a b) :
    Rel xA xB PR PRat (scanEscape a.2.1 a.2.2) (scanEscape b.2.1 b.2.2) := by
  rw [scanEscape_eq, scanEscape_eq]
  exact escBody_sim C (before_next C h)

theorem strLoopTok_sim : ∀ f (a b : St), need a ≤ f → Rel xA xB PR PRat a b →
    Rel xA xB PR PRat (strLoopTok f a) (strLoopTok f b) := by
  intro f
  induction f with
  | zero => intro a b hn; unfold need at hn; split at hn <;> omega
  | succ f ih =>
    intro a b hn h
    cases h with
    | inr hd => exact Or.inr (strLoopTok_s (dead_srel xA xB) _ a hd)
    | inl hl =>
      rcases hl with hb | ha
      · -- inside the common part: the same turn of the loop
        have hc : a.1 = b.1 := hb.1
        rw [strLoopTok_succ, strLoopTok_succ, ← hc]
        by_cases h1 : a.1 = 34
        · rw [if_pos h1, if_pos h1]; exact Or.inl (before_next C hb)
        rw [if_neg h1, if_neg h1]
        by_cases h2 : (a.1 = 10 || a.1 < 0) = true
        · rw [if_pos h2, if_pos h2]; exact Or.inl (before_next C (before_err C hb))
        rw [if_neg h2, if_neg h2]
        have hc0 : 0 ≤ a.1 := by
          simp only [Bool.or_eq_true, decide_eq_true_eq, not_or] at h2; omega
        have hnn : a.2.1.length + 2 ≤ f + 1 := by
          unfold need at hn; rw [if_neg (by omega)] at hn; exact hn
        by_cases h3 : a.1 = 92
        · rw [if_pos h3, if_pos h3]
          have := need_escape a.2.1 a.2.2
          exact ih _ _ (by omega) (scanEscape_sim C hb)
        · rw [if_neg h3, if_neg h3]
          have := need_next a hc0
          exact ih _ _ (by omega) (Or.inl (before_next C hb))
      · -- at the first different rune: run A reads on or records an error
        refine Or.inr ?_
        rw [strLoopTok_succ]
        by_cases h2 : (a.1 = 10 || a.1 < 0) = true
        · have h1 : a.1 ≠ 34 := by
            intro e; rw [e] at h2; revert h2; decide
          rw [if_neg h1, if_pos h2]
          exact (dead_srel xA xB).next a.1 a.2.1 (Scan.err a.2.2) ⟨ha.1, Or.inl (err_errs_ne _)⟩
        · have hc0 : 0 ≤ a.1 := by
            simp only [Bool.or_eq_true, decide_eq_true_eq, not_or] at h2; omega
          have hx : xA ≠ [] := by
            intro e
            have := ha.2.1
            rw [e] at this
            have e2 : a.1 = -1 := this
            omega
          have hdn := at_next_dead ha hx
          by_cases h1 : a.1 = 34
          · rw [if_pos h1]; exact hdn
          rw [if_neg h1, if_neg h2]
          by_cases h3 : a.1 = 92
          · rw [if_pos h3, scanEscape_eq]
            exact strLoopTok_s (dead_srel xA xB) f _ (escBody_s (dead_srel xA xB) _ hdn)
          · rw [if_neg h3]
            exact strLoopTok_s (dead_srel xA xB) f _ hdn

/-- the string token (opening quote is the look-ahead of a state inside the common part): `scanString`
    followed by the `next` behind the closing quote -/
theorem strTok_sim {a b : St} (h : Before xA xB PR a b) :
    Rel xA xB PR PRat (next (scanString a.2.1 a.2.2).2.1 (scanString a.2.1 a.2.2).2.2)
      (next (scanString b.2.1 b.2.2).2.1 (scanString b.2.1 b.2.2).2.2) := by
  unfold scanString
  have hl := before_next C h
  generalize next a.2.1 a.2.2 = x at hl ⊢
  generalize next b.2.1 b.2.2 = y at hl ⊢
  obtain ⟨c, r, q⟩ := x
  obtain ⟨c', r', q'⟩ := y
  dsimp only
  have hna : need (c, r, q) ≤ r.length + 2 := by unfold need; dsimp only; split <;> omega
  have hnb : need (c', r', q') ≤ r'.length + 2 := by unfold need; dsimp only; split <;> omega
  have ea := stringLoop_fuel_ge (c, r, q) (r.length + 2) hna (r'.length + 2)
  have eb := stringLoop_fuel_ge (c', r', q') (r'.length + 2) hnb (r.length + 2)
  dsimp only at ea eb
  rw [← ea, ← eb, Nat.add_comm (r'.length + 2) (r.length + 2)]
  exact strLoopTok_sim C (r.length + 2 + (r'.length + 2)) (c, r, q) (c', r', q') (by omega) (Or.inl hl)

end sim7

/-! ### raw strings -/

theorem rawLoop_false_step (rest : List Rune) (ch : Int) (p : PState) :
    rawLoop false rest ch p =
      if ch = 172 then rawLoop true (next rest p).2.1 (next rest p).1 (next rest p).2.2
      else if ch < 0 then (0, rest, Scan.err p)
      else rawLoop false (next rest p).2.1 (next rest p).1 (next rest p).2.2 := by
  cases rest with
  | nil =>
    have e1 : ∀ q, rawLoop true [] EOF q = (EOF, [], q) := by intro q; rw [rawLoop]; rfl
    have e2 : ∀ q, rawLoop false [] EOF q = (0, [], Scan.err q) := by intro q; rw [rawLoop]; rfl
    have e : next [] p = (EOF, [], (next [] p).2.2) := rfl
    rw [rawLoop]
    by_cases h1 : ch = 172
    · rw [if_pos h1, if_pos h1, e, e1]
    · rw [if_neg h1, if_neg h1]
      by_cases h2 : ch < 0
      · rw [if_pos h2, if_pos h2]
      · rw [if_neg h2, if_neg h2, e, e2]
  | cons r rs =>
    rw [next_cons_eq]
    conv => lhs; unfold rawLoop
    simp only [next_cons_eq]

theorem rawLoop_true_step (rest : List Rune) (ch : Int) (p : PState) :
    rawLoop true rest ch p =
      if ch ≠ 172 then (ch, rest, p)
      else rawLoop false (next rest p).2.1 (next rest p).1 (next rest p).2.2 := by
  cases rest with
  | nil =>
    have e2 : ∀ q, rawLoop false [] EOF q = (0, [], Scan.err q) := by intro q; rw [rawLoop]; rfl
    have e : next [] p = (EOF, [], (next [] p).2.2) := rfl
    rw [rawLoop]
    by_cases h1 : ch ≠ 172
    · rw [if_pos h1, if_pos h1]
    · rw [if_neg h1, if_neg h1, e, e2]
  | cons r rs =>
    rw [next_cons_eq]
    conv => lhs; unfold rawLoop
    simp only [next_cons_eq]

/-- the runes the raw-string loop may still read -/
def rawMeasure (s : St) : Nat := s.2.1.length + (if s.1 < 0 then 0 else 1)

theorem rawMeasure_next (s : St) (h : 0 ≤ s.1) : rawMeasure (next s.2.1 s.2.2) < rawMeasure s := by
  obtain ⟨c, r, q⟩ := s
  dsimp only at h
  have hc : ¬ c < 0 := by omega
  cases r with
  | nil =>
    have e : next [] q = (EOF, [], (next [] q).2.2) := rfl
    rw [e]; simp [rawMeasure, hc]
  | cons x xs =>
    rw [next_cons_eq]
    simp only [rawMeasure, hc, ↓reduceIte, List.length_cons]
    split <;> omega

section sim8
variable {xA xB : List Rune} {PR PRat : PState → PState → Prop} (C : Ctx xA xB PR PRat)
include C

theorem rawLoop_sim : ∀ n (flag : Bool) (ca : Int) (ra : List Rune) (pa : PState) (cb : Int) (rb : List Rune)
    (pb : PState), rawMeasure (ca, ra, pa) ≤ n → Rel xA xB PR PRat (ca, ra, pa) (cb, rb, pb) →
    Rel xA xB PR PRat (rawLoop flag ra ca pa) (rawLoop flag rb cb pb) := by
  intro n
  induction n with
  | zero =>
    intro flag ca ra pa cb rb pb hm h
    have hneg : ca < 0 := by
      unfold rawMeasure at hm; dsimp only at hm; split at hm
      · assumption
      · omega
    cases h with
    | inr hd => exact Or.inr (rawLoop_s (dead_srel xA xB) _ _ _ _ hd)
    | inl hl =>
      have h172 : ca ≠ 172 := by omega
      rcases hl with hb | ha
      · have hc : ca = cb := hb.1
        subst hc
        cases flag with
        | false =>
          rw [rawLoop_false_step ra, rawLoop_false_step rb, if_neg h172, if_neg h172, if_pos hneg, if_pos hneg]
          exact Or.inl (Or.inl ⟨rfl, C.pr_err _ _ hb.2.1, fun h => absurd (show (0 : Int) < 0 from h) (by decide), hb.2.2.2⟩)
        | true =>
          rw [rawLoop_true_step ra, rawLoop_true_step rb, if_pos h172, if_pos h172]
          exact Or.inl (Or.inl hb)
      · cases flag with
        | false =>
          rw [rawLoop_false_step ra, if_neg h172, if_pos hneg]
          exact Or.inr ⟨ha.1, Or.inl (err_errs_ne _)⟩
        | true =>
          have hsB := at_stopB C ha
          rw [rawLoop_true_step ra, rawLoop_true_step rb, if_pos h172, if_pos (stop_ne hsB).2.2.2.2.2.2.2.1]
          exact Or.inl (Or.inr ha)
  | succ n ih =>
    intro flag ca ra pa cb rb pb hm h
    cases h with
    | inr hd => exact Or.inr (rawLoop_s (dead_srel xA xB) _ _ _ _ hd)
    | inl hl =>
      rcases hl with hb | ha
      · have hc : ca = cb := hb.1
        subst hc
        have hl1 := before_next C hb
        dsimp only at hl1
        have hmn : 0 ≤ ca → rawMeasure (next ra pa) ≤ n := by
          intro h0
          have := rawMeasure_next (ca, ra, pa) h0
          dsimp only at this
          omega
        cases flag with
        | false =>
          rw [rawLoop_false_step ra, rawLoop_false_step rb]
          by_cases h1 : ca = 172
          · rw [if_pos h1, if_pos h1]
            exact ih true _ _ _ _ _ _ (hmn (by omega)) (Or.inl hl1)
          rw [if_neg h1, if_neg h1]
          by_cases h2 : ca < 0
          · rw [if_pos h2, if_pos h2]
            exact Or.inl (Or.inl ⟨rfl, C.pr_err _ _ hb.2.1, fun h => absurd (show (0 : Int) < 0 from h) (by decide), hb.2.2.2⟩)
          · rw [if_neg h2, if_neg h2]
            exact ih false _ _ _ _ _ _ (hmn (by omega)) (Or.inl hl1)
        | true =>
          rw [rawLoop_true_step ra, rawLoop_true_step rb]
          by_cases h1 : ca ≠ 172
          · rw [if_pos h1, if_pos h1]; exact Or.inl (Or.inl hb)
          · rw [if_neg h1, if_neg h1]
            exact ih false _ _ _ _ _ _ (hmn (by omega)) (Or.inl hl1)
      · have hsB := at_stopB C ha
        have hdead : 0 ≤ ca → Dead xA xB (next ra pa) := by
          intro h0
          refine at_next_dead ha ?_
          intro e
          have := ha.2.1
          rw [e] at this
          have e2 : ca = -1 := this
          omega
        cases flag with
        | false =>
          refine Or.inr ?_
          rw [rawLoop_false_step ra]
          by_cases h1 : ca = 172
          · rw [if_pos h1]; exact rawLoop_s (dead_srel xA xB) _ _ _ _ (hdead (by omega))
          rw [if_neg h1]
          by_cases h2 : ca < 0
          · rw [if_pos h2]; exact ⟨ha.1, Or.inl (err_errs_ne _)⟩
          · rw [if_neg h2]; exact rawLoop_s (dead_srel xA xB) _ _ _ _ (hdead (by omega))
        | true =>
          rw [rawLoop_true_step ra, rawLoop_true_step rb, if_pos (stop_ne hsB).2.2.2.2.2.2.2.1]
          by_cases h1 : ca ≠ 172
          · rw [if_pos h1]; exact Or.inl (Or.inr ha)
          · rw [if_neg h1]
            exact Or.inr (rawLoop_s (dead_srel xA xB) _ _ _ _ (hdead (by omega)))

theorem scanRawString_sim {a b : St} (h : Before xA xB PR a b) :
    Rel xA xB PR PRat (scanRawString a.2.1 a.2.2) (scanRawString b.2.1 b.2.2) := by
  unfold scanRawString
  have hl := before_next C h
  generalize next a.2.1 a.2.2 = x at hl ⊢
  generalize next b.2.1 b.2.2 = y at hl ⊢
  obtain ⟨c, r, q⟩ := x
  obtain ⟨c', r', q'⟩ := y
  exact rawLoop_sim C (rawMeasure (c, r, q)) false c r q c' r' q' (Nat.le_refl _) (Or.inl hl)

end sim8

/-! ### a token read by a run that has already crossed into `xA` ends beyond its first rune -/

theorem scanIdentifier_pop {P : St → Prop} (hP : SRel (fun a b => P a → P b)) (rest : List Rune) (p : PState)
    (h : P (next rest p)) : P (scanIdentifier rest p) := by
  unfold scanIdentifier
  generalize next rest p = x at h ⊢
  obtain ⟨c, r, q⟩ := x
  exact identLoop_s hP _ _ _ h

theorem scanString_pop {P : St → Prop} (hP : SRel (fun a b => P a → P b)) (rest : List Rune) (p : PState)
    (h : P (next rest p)) : P (scanString rest p) := by
  unfold scanString
  generalize next rest p = x at h ⊢
  obtain ⟨c, r, q⟩ := x
  exact stringLoop_s hP _ _ _ _ h

theorem scanRawString_pop {P : St → Prop} (hP : SRel (fun a b => P a → P b)) (rest : List Rune) (p : PState)
    (h : P (next rest p)) : P (scanRawString rest p) := by
  unfold scanRawString
  generalize next rest p = x at h ⊢
  obtain ⟨c, r, q⟩ := x
  exact rawLoop_s hP _ _ _ _ h

section later
variable {xA xB : List Rune}

theorem later_next_dead (hs : ¬ Same xA xB) (hx : xA ≠ []) (_ch : Int) (rest : List Rune) (p : PState)
    (h : rest.length ≤ xA.tail.length) : Dead xA xB (next rest p) := by
  refine ⟨hs, ?_⟩
  cases rest with
  | nil => exact Or.inr (Or.inr ⟨hx, rfl, rfl⟩)
  | cons r rs =>
    rw [next_cons_eq]
    simp only [List.length_cons] at h
    exact Or.inr (Or.inl (by dsimp only; omega))

omit xA xB in
/-- a token is read by at least one `next` from the state in which the white space has been skipped: what
    holds after that `next` (and is kept by every later step) holds in the end -/
theorem scan_pop {P Q : St → Prop} (hP : SRel (fun a b => P a → P b)) (hQ : SRel (fun a b => Q a → Q b))
    (hpop : ∀ ch rest p, 0 ≤ ch → Q (ch, rest, p) → P (next rest p)) : ∀ fuel rest ch p,
    Q (ch, rest, p) → (scan fuel rest ch p).1 ≠ none → P (scan fuel rest ch p).2 := by
  intro fuel
  induction fuel with
  | zero => intro rest ch p _ h; exact absurd rfl h
  | succ n ih =>
    intro rest ch p hq
    unfold scan
    have hl1 := skipWhite_s hQ rest ch p hq
    generalize skipWhite rest ch p = sw at hl1 ⊢
    obtain ⟨ch1, rest1, p1⟩ := sw
    dsimp only at hl1 ⊢
    by_cases c4 : ch1 < 0
    · have e1 : isIdentRune ch1 0 = false := by unfold isIdentRune; rw [if_pos c4]
      have e2 : isDecimal ch1 = false := by unfold isDecimal; simp; omega
      have e3 : ch1 ≠ 45 := by omega
      simp only [e1, e2, e3, c4, Bool.false_eq_true, ↓reduceIte]
      intro h; exact absurd rfl h
    have hdn := hpop ch1 rest1 p1 (by omega) hl1
    have hdn0 := hdn
    have hq2 := hQ.next ch1 rest1 p1 hl1
    generalize next rest1 p1 = nx at hdn hq2 ⊢
    obtain ⟨c, r, q⟩ := nx
    dsimp only at hq2 ⊢
    have D := hP
    by_cases c1 : isIdentRune ch1 0 = true
    · rw [if_pos c1]; intro _
      exact scanIdentifier_pop D _ _ hdn0
    rw [if_neg c1]
    by_cases c2 : isDecimal ch1 = true
    · rw [if_pos c2]; intro _
      exact scanNumber_first_pop D [] rest1 ch1 p1 false false c2 hdn0
    rw [if_neg c2]
    by_cases c3 : ch1 = 45
    · rw [if_pos c3]
      by_cases c31 : isIdentRune c 0 = true
      · rw [if_pos c31]; intro _; exact scanIdentifier_s D _ _ _ hdn
      rw [if_neg c31]
      by_cases c32 : isDecimal c = true
      · rw [if_pos c32]; intro _; exact scanNumber_s D [45] r c q false true hdn
      rw [if_neg c32]; intro _; exact hdn
    rw [if_neg c3]
    rw [if_neg c4]
    by_cases c5 : ch1 = 34
    · rw [if_pos c5]; intro _
      have h1 : P (scanString rest1 p1) := scanString_pop D _ _ hdn0
      generalize scanString rest1 p1 = ss at h1 ⊢
      obtain ⟨c', r', q'⟩ := ss
      exact D.next _ _ _ h1
    rw [if_neg c5]
    by_cases c6 : ch1 = 58
    · rw [if_pos c6]; intro _; exact scanIdentifier_pop D _ _ hdn0
    rw [if_neg c6]
    by_cases c7 : ch1 = 46
    · rw [if_pos c7]
      by_cases c71 : isDecimal c = true
      · rw [if_pos c71]; intro _; exact scanNumber_s D [46] r c q true false hdn
      rw [if_neg c71]; intro _; exact hdn
    rw [if_neg c7]
    by_cases c8 : ch1 = 59
    · rw [if_pos c8]
      have h1 := scanComment_s hQ r c q hq2
      generalize scanComment r c q = sc at h1 ⊢
      obtain ⟨c', r', q'⟩ := sc
      exact ih r' c' q' h1
    rw [if_neg c8]
    by_cases c9 : ch1 = 172
    · rw [if_pos c9]; intro _
      exact scanRawString_pop D _ _ hdn0
    rw [if_neg c9]
    by_cases c10 : ch1 = 126
    · rw [if_pos c10]
      by_cases c101 : c = 64
      · rw [if_pos c101]; intro _; exact D.next _ _ _ hdn
      rw [if_neg c101]; intro _; exact hdn
    rw [if_neg c10]
    by_cases c11 : ch1 = 35
    · rw [if_pos c11]
      by_cases c111 : c = 123
      · rw [if_pos c111]; intro _; exact D.next _ _ _ hdn
      rw [if_neg c111]; intro _; exact hdn
    rw [if_neg c11]
    intro _; exact hdn


theorem scan_later (hs : ¬ Same xA xB) (hx : xA ≠ []) (fuel : Nat) (rest : List Rune) (ch : Int) (p : PState)
    (hlen : rest.length ≤ xA.tail.length) (hn : (scan fuel rest ch p).1 ≠ none) :
    Dead xA xB (scan fuel rest ch p).2 := by
  have hQ : SRel (fun a b : St => a.2.1.length ≤ xA.tail.length → b.2.1.length ≤ xA.tail.length) :=
    { refl := fun _ => id
      trans := fun h1 h2 h => h2 (h1 h)
      next := fun _ rest p h => Nat.le_trans (Scanner.next_length rest p) h
      err := fun _ _ _ _ h => h }
  exact scan_pop (dead_srel xA xB) hQ (fun ch rest p _ h => later_next_dead hs hx ch rest p h) fuel rest ch p hlen hn

end later

/-! ### fuel of `scan` (the `goto redo` after a comment) -/

theorem scan_at_eof (f : Nat) (p : PState) : scan f [] EOF p = (none, (EOF, [], p)) := by
  cases f with
  | zero => rfl
  | succ f => rw [scan, skipWhite_stop _ _ _ (by decide)]; rfl

theorem scanComment_nil_eof (q : PState) : ∃ q', scanComment [] EOF q = (EOF, [], q') := by
  refine ⟨(next [] q).2.2, ?_⟩
  unfold scanComment
  rw [if_pos (by decide)]
  show commentLoop [] EOF _ = _
  rw [commentLoop, if_neg (by decide)]
  rfl

/-- the part of `scan` that does not depend on the fuel: everything but the recursion after a comment.
    `none` = "a comment was skipped, scan again from this state" -/
theorem scan_succ_comment (f : Nat) (rest : List Rune) (ch : Int) (p : PState)
    (h : (skipWhite rest ch p).1 = 59) :
    scan (f + 1) rest ch p =
      scan f (scanComment (next (skipWhite rest ch p).2.1 (skipWhite rest ch p).2.2).2.1
          (next (skipWhite rest ch p).2.1 (skipWhite rest ch p).2.2).1
          (next (skipWhite rest ch p).2.1 (skipWhite rest ch p).2.2).2.2).2.1
        (scanComment (next (skipWhite rest ch p).2.1 (skipWhite rest ch p).2.2).2.1
          (next (skipWhite rest ch p).2.1 (skipWhite rest ch p).2.2).1
          (next (skipWhite rest ch p).2.1 (skipWhite rest ch p).2.2).2.2).1
        (scanComment (next (skipWhite rest ch p).2.1 (skipWhite rest ch p).2.2).2.1
          (next (skipWhite rest ch p).2.1 (skipWhite rest ch p).2.2).1
          (next (skipWhite rest ch p).2.1 (skipWhite rest ch p).2.2).2.2).2.2 := by
  rw [scan]
  generalize skipWhite rest ch p = sw at h ⊢
  obtain ⟨ch1, rest1, p1⟩ := sw
  dsimp only at h ⊢
  subst h
  rw [if_neg (by decide), if_neg (by decide), if_neg (by decide), if_neg (by decide), if_neg (by decide),
    if_neg (by decide), if_neg (by decide), if_pos rfl]

theorem scan_succ_other (f g : Nat) (rest : List Rune) (ch : Int) (p : PState)
    (h : (skipWhite rest ch p).1 ≠ 59) : scan (f + 1) rest ch p = scan (g + 1) rest ch p := by
  rw [scan, scan]
  generalize skipWhite rest ch p = sw at h ⊢
  obtain ⟨ch1, rest1, p1⟩ := sw
  dsimp only at h ⊢
  simp only [if_neg h]

theorem scan_fuel : ∀ f rest ch p, rest.length + 2 ≤ f → scan (f + 1) rest ch p = scan f rest ch p := by
  intro f
  induction f with
  | zero => intro rest ch p h; omega
  | succ f ih =>
    intro rest ch p h
    by_cases h59 : (skipWhite rest ch p).1 = 59
    · rw [scan_succ_comment (f + 1) rest ch p h59, scan_succ_comment f rest ch p h59]
      have hw := skipWhite_s len_srel rest ch p
      generalize skipWhite rest ch p = sw at hw ⊢
      obtain ⟨ch1, rest1, p1⟩ := sw
      dsimp only at hw ⊢
      cases rest1 with
      | nil =>
        have e : next [] p1 = (EOF, [], (next [] p1).2.2) := rfl
        rw [e]
        obtain ⟨q', hq⟩ := scanComment_nil_eof (next [] p1).2.2
        dsimp only
        rw [hq]
        dsimp only
        rw [scan_at_eof, scan_at_eof]
      | cons r rs =>
        rw [next_cons_eq]
        dsimp only
        have h1 := scanComment_s len_srel rs (Int.ofNat r.ch) (step r p1)
        generalize scanComment rs (Int.ofNat r.ch) (step r p1) = sc at h1 ⊢
        obtain ⟨c', r', q'⟩ := sc
        dsimp only at h1 ⊢
        simp only [List.length_cons] at hw
        exact ih r' c' q' (by omega)
    · exact scan_succ_other _ _ rest ch p h59

theorem scan_fuel_ge (rest : List Rune) (ch : Int) (p : PState) (f : Nat) (h : rest.length + 2 ≤ f) : ∀ k,
    scan (f + k) rest ch p = scan f rest ch p := by
  intro k
  induction k with
  | zero => rfl
  | succ k ih => rw [← Nat.add_assoc, scan_fuel (f + k) rest ch p (by omega), ih]

/-! ### `scan` -/

/-- `Scan` after the white space has been skipped; `rec` = what to do after a comment -/
def dispatch (rec : List Rune → Int → PState → Option (Kind × List Nat) × St) (ch : Int) (rest : List Rune)
    (p : PState) : Option (Kind × List Nat) × St :=
  let fin (k : Kind) (ch0 : Int) (restStart : List Rune) (s : St) : Option (Kind × List Nat) × St :=
    (some (k, consumed ch0 restStart s.2.1 s.1), s)
  if isIdentRune ch 0 then
    fin .ident ch rest (scanIdentifier rest p)
  else if isDecimal ch then
    let (k, s) := scanNumber [] rest ch p false false
    fin k ch rest s
  else if ch = 45 then
    let (c, r, q) := next rest p
    if isIdentRune c 0 then fin .ident ch rest (scanIdentifier r q)
    else if isDecimal c then
      let (k, s) := scanNumber [45] r c q false true
      fin k ch rest s
    else fin .ident ch rest (c, r, q)
  else if ch < 0 then (none, (ch, rest, p))
  else if ch = 34 then
    let (_, r, q) := scanString rest p
    fin .string ch rest (next r q)
  else if ch = 58 then fin .keyword ch rest (scanIdentifier rest p)
  else if ch = 46 then
    let (c, r, q) := next rest p
    if isDecimal c then
      let (k, s) := scanNumber [46] r c q true false
      fin k ch rest s
    else fin (.char 46) ch rest (c, r, q)
  else if ch = 59 then
    let (c, r, q) := next rest p
    let (c, r, q) := scanComment r c q
    rec r c q
  else if ch = 172 then fin .rawString ch rest (scanRawString rest p)
  else if ch = 126 then
    let (c, r, q) := next rest p
    if c = 64 then fin .ident ch rest (next r q) else fin (.char 126) ch rest (c, r, q)
  else if ch = 35 then
    let (c, r, q) := next rest p
    if c = 123 then fin .ident ch rest (next r q) else fin (.char 35) ch rest (c, r, q)
  else fin (.char ch.toNat) ch rest (next rest p)

theorem scan_succ (f : Nat) (rest : List Rune) (ch : Int) (p : PState) :
    scan (f + 1) rest ch p =
      dispatch (scan f) (skipWhite rest ch p).1 (skipWhite rest ch p).2.1 (skipWhite rest ch p).2.2 := by
  rw [scan]
  generalize skipWhite rest ch p = sw
  obtain ⟨ch1, rest1, p1⟩ := sw
  unfold dispatch
  dsimp only

theorem skipWhite_idem (rest : List Rune) (ch : Int) (p : PState) :
    skipWhite (skipWhite rest ch p).2.1 (skipWhite rest ch p).1 (skipWhite rest ch p).2.2 = skipWhite rest ch p := by
  induction rest generalizing ch p with
  | nil =>
    by_cases h : isWhite ch = true
    · have e : skipWhite [] ch p = (EOF, [], (next [] p).2.2) := by rw [skipWhite, if_pos h]; rfl
      rw [e]; exact skipWhite_stop _ _ _ (show isWhite EOF = false by decide)
    · have h' : isWhite ch = false := by simpa using h
      rw [skipWhite_stop _ _ _ h', skipWhite_stop _ _ _ h']
  | cons r rs ih =>
    by_cases h : isWhite ch = true
    · rw [skipWhite_cons _ _ _ _ h]; exact ih _ _
    · have h' : isWhite ch = false := by simpa using h
      rw [skipWhite_stop _ _ _ h', skipWhite_stop _ _ _ h']

theorem scan_skip (f : Nat) (rest : List Rune) (ch : Int) (p : PState) :
    scan (f + 1) rest ch p =
      scan (f + 1) (skipWhite rest ch p).2.1 (skipWhite rest ch p).1 (skipWhite rest ch p).2.2 := by
  rw [scan_succ, scan_succ (rest := (skipWhite rest ch p).2.1), skipWhite_idem]

/-- run A has read the first rune after the common part (or more) while white space / a comment was skipped -/
def Crossed (xA xB : List Rune) (a : St) : Prop :=
  ¬ Same xA xB ∧ ((xA ≠ [] ∧ a.2.1.length ≤ xA.tail.length) ∨ (xA = [] ∧ a.2.1 = [] ∧ a.1 = EOF))

section crossed
variable {xA xB : List Rune}

theorem crossed_of_at {PRat : PState → PState → Prop} {a b : St} (h : At xA xB PRat a b) : Crossed xA xB a := by
  obtain ⟨hs, h1, h2, _⟩ := h
  refine ⟨hs, ?_⟩
  by_cases hx : xA = []
  · subst hx; exact Or.inr ⟨rfl, h2, h1⟩
  · exact Or.inl ⟨hx, by rw [h2]; exact Nat.le_refl _⟩

theorem crossed_loopWhile (cond : Int → Bool) (hE : cond EOF = false) {a : St} (h : Crossed xA xB a) :
    Crossed xA xB (loopWhile cond a.2.1 a.1 a.2.2) := by
  obtain ⟨hs, h | ⟨hx, h1, h2⟩⟩ := h
  · exact ⟨hs, Or.inl ⟨h.1, Nat.le_trans (loopWhile_s len_srel cond _ _ _) h.2⟩⟩
  · obtain ⟨c, r, q⟩ := a
    dsimp only at h1 h2 ⊢
    subst h1 h2
    rw [loopWhile_stop _ _ _ _ hE]
    exact ⟨hs, Or.inr ⟨hx, rfl, rfl⟩⟩

theorem crossed_next {a : St} (h : Crossed xA xB a) : Crossed xA xB (next a.2.1 a.2.2) := by
  obtain ⟨hs, h | ⟨hx, h1, h2⟩⟩ := h
  · exact ⟨hs, Or.inl ⟨h.1, Nat.le_trans (Scanner.next_length _ _) h.2⟩⟩
  · rw [h1]; exact ⟨hs, Or.inr ⟨hx, rfl, rfl⟩⟩

theorem crossed_scanComment {a : St} (h : Crossed xA xB a) : Crossed xA xB (scanComment a.2.1 a.1 a.2.2) := by
  obtain ⟨hs, h | ⟨hx, h1, h2⟩⟩ := h
  · exact ⟨hs, Or.inl ⟨h.1, Nat.le_trans (scanComment_s len_srel _ _ _) h.2⟩⟩
  · obtain ⟨c, r, q⟩ := a
    dsimp only at h1 h2 ⊢
    subst h1 h2
    obtain ⟨q', hq⟩ := scanComment_nil_eof q
    rw [hq]
    exact ⟨hs, Or.inr ⟨hx, rfl, rfl⟩⟩

/-- after crossing, `Scan` yields no token, or run A ends dead -/
theorem crossed_scan {a : St} (h : Crossed xA xB a) (f : Nat) :
    (scan f a.2.1 a.1 a.2.2).1 = none ∨ Dead xA xB (scan f a.2.1 a.1 a.2.2).2 := by
  obtain ⟨hs, h | ⟨hx, h1, h2⟩⟩ := h
  · by_cases hn : (scan f a.2.1 a.1 a.2.2).1 = none
    · exact Or.inl hn
    · exact Or.inr (scan_later hs h.1 f _ _ _ h.2 hn)
  · left; rw [h1, h2, scan_at_eof]

end crossed

section sim9
variable {xA xB : List Rune} {PR PRat : PState → PState → Prop} (C : Ctx xA xB PR PRat)
include C

/-- a loop that skips (white space, a comment body): lockstep inside the common part, else run A crosses -/
theorem loopWhile_gap (cond : Int → Bool) (hE : cond EOF = false) :
    ∀ ra ca pa rb cb pb, Before xA xB PR (ca, ra, pa) (cb, rb, pb) →
      Before xA xB PR (loopWhile cond ra ca pa) (loopWhile cond rb cb pb) ∨
      Crossed xA xB (loopWhile cond ra ca pa) := by
  intro ra
  induction ra with
  | nil =>
    intro ca pa rb cb pb hb
    have hc : ca = cb := hb.1
    subst hc
    cases hcond : cond ca with
    | false => rw [loopWhile_stop _ _ _ _ hcond, loopWhile_stop _ _ _ _ hcond]; exact Or.inl hb
    | true =>
      rw [loopWhile_step cond hE rb ca pb hcond, loopWhile_step cond hE [] ca pa hcond]
      have hl := before_next C hb
      dsimp only at hl
      rcases hl with hb' | ha'
      · have e1 : (next [] pa).1 = EOF := rfl
        have e2 : (next rb pb).1 = EOF := by rw [← hb'.1]; rfl
        rw [loopWhile_stop cond _ _ _ (by rw [e1]; exact hE), loopWhile_stop cond _ _ _ (by rw [e2]; exact hE)]
        exact Or.inl hb'
      · exact Or.inr (crossed_loopWhile cond hE (crossed_of_at ha'))
  | cons r rs ih =>
    intro ca pa rb cb pb hb
    have hc : ca = cb := hb.1
    subst hc
    cases hcond : cond ca with
    | false => rw [loopWhile_stop _ _ _ _ hcond, loopWhile_stop _ _ _ _ hcond]; exact Or.inl hb
    | true =>
      rw [loopWhile_step cond hE rb ca pb hcond, loopWhile_step cond hE (r :: rs) ca pa hcond]
      have hl := before_next C hb
      dsimp only at hl
      rcases hl with hb' | ha'
      · rw [next_cons_eq] at hb' ⊢
        exact ih _ _ _ _ _ hb'
      · exact Or.inr (crossed_loopWhile cond hE (crossed_of_at ha'))

theorem skipWhite_gap {a b : St} (h : Before xA xB PR a b) :
    Before xA xB PR (skipWhite a.2.1 a.1 a.2.2) (skipWhite b.2.1 b.1 b.2.2) ∨
      Crossed xA xB (skipWhite a.2.1 a.1 a.2.2) := by
  rw [skipWhite_eq, skipWhite_eq]
  exact loopWhile_gap C isWhite (by decide) _ _ _ _ _ _ h

/-- the comment behind a `;` (the states are those after the `next` that read the rune behind the `;`) -/
theorem scanComment_gap {a b : St} (h : Live xA xB PR PRat a b) :
    Before xA xB PR (scanComment a.2.1 a.1 a.2.2) (scanComment b.2.1 b.1 b.2.2) ∨
      Crossed xA xB (scanComment a.2.1 a.1 a.2.2) := by
  rcases h with hb | ha
  · have hc : a.1 = b.1 := hb.1
    unfold scanComment
    rw [← hc]
    by_cases h10 : a.1 ≠ 10
    · rw [if_pos h10, if_pos h10]
      have hl := before_next C hb
      generalize next a.2.1 a.2.2 = x at hl ⊢
      generalize next b.2.1 b.2.2 = y at hl ⊢
      obtain ⟨c, r, q⟩ := x
      obtain ⟨c', r', q'⟩ := y
      dsimp only
      rw [commentLoop_eq, commentLoop_eq]
      rcases hl with hb' | ha'
      · exact loopWhile_gap C _ (by decide) _ _ _ _ _ _ hb'
      · exact Or.inr (crossed_loopWhile _ (by decide) (crossed_of_at ha'))
    · rw [if_neg h10, if_neg h10]
      exact Or.inl ⟨rfl, hb.2.1, hb.2.2⟩
  · exact Or.inr (crossed_scanComment (crossed_of_at ha))

end sim9

/-- the outcome of one `Scan` in both runs: run A yielded no token or went beyond the first rune of `xA`
    (only when the texts differ); or both yield the same token (or both none) and are still related -/
def ScanOut (xA xB : List Rune) (PR PRat : PState → PState → Prop) (oa ob : Option (Kind × List Nat) × St) : Prop :=
  (¬ Same xA xB ∧ (oa.1 = none ∨ Dead xA xB oa.2)) ∨ (oa.1 = ob.1 ∧ Live xA xB PR PRat oa.2 ob.2)

section sim10
variable {xA xB : List Rune} {PR PRat : PState → PState → Prop} (C : Ctx xA xB PR PRat)
include C

omit C in
theorem fin_out (k : Kind) (ch0 : Int) (u : List Rune) {sa sb : St} (h : Rel xA xB PR PRat sa sb) :
    ScanOut xA xB PR PRat (some (k, consumed ch0 (u ++ xA) sa.2.1 sa.1), sa)
      (some (k, consumed ch0 (u ++ xB) sb.2.1 sb.1), sb) := by
  rcases h with hl | hd
  · exact Or.inr ⟨by rw [consumed_live ch0 u hl], hl⟩
  · exact Or.inl ⟨hd.1, Or.inr hd⟩

theorem dispatch_sim (recA recB : List Rune → Int → PState → Option (Kind × List Nat) × St)
    (hrec : ∀ a b : St, Before xA xB PR a b → ScanOut xA xB PR PRat (recA a.2.1 a.1 a.2.2) (recB b.2.1 b.1 b.2.2))
    (hcr : ∀ a : St, Crossed xA xB a → (recA a.2.1 a.1 a.2.2).1 = none ∨ Dead xA xB (recA a.2.1 a.1 a.2.2).2)
    {a b : St} (h : Before xA xB PR a b) :
    ScanOut xA xB PR PRat (dispatch recA a.1 a.2.1 a.2.2) (dispatch recB b.1 b.2.1 b.2.2) := by
  obtain ⟨ca, ra, pa⟩ := a
  obtain ⟨cb, rb, pb⟩ := b
  have hc : ca = cb := h.1
  subst hc
  obtain ⟨u, hra, hrb⟩ := h.2.2.2
  dsimp only at hra hrb ⊢
  have hl1 := before_next C h
  dsimp only at hl1
  unfold dispatch
  dsimp only
  by_cases c1 : isIdentRune ca 0 = true
  · simp only [c1, ↓reduceIte]
    subst hra hrb
    exact fin_out .ident ca u (scanIdentifier_sim C h)
  simp only [c1, Bool.false_eq_true, ↓reduceIte]
  by_cases c2 : isDecimal ca = true
  · simp only [c2, ↓reduceIte]
    have hn := scanNumber_sim C [] false false u h hra hrb
    dsimp only at hn
    generalize scanNumber [] ra ca pa false false = oa at hn ⊢
    generalize scanNumber [] rb ca pb false false = ob at hn ⊢
    obtain ⟨ka, sa⟩ := oa
    obtain ⟨kb, sb⟩ := ob
    dsimp only at hn ⊢
    subst hra hrb
    rcases hn with hd | ⟨hl, hk⟩
    · exact Or.inl ⟨hd.1, Or.inr hd⟩
    · subst hk; exact fin_out ka ca u (Or.inl hl)
  simp only [c2, Bool.false_eq_true, ↓reduceIte]
  have D := dead_srel xA xB
  have hident : ∀ c, isIdentRune c 0 = true → ¬ StopCh c := fun c hc hs => by rw [stop_ident hs] at hc; cases hc
  have hdec : ∀ c, isDecimal c = true → ¬ StopCh c := fun c hc hs => by rw [stop_decimal hs] at hc; cases hc
  subst hra hrb
  by_cases c3 : ca = 45
  · subst c3
    simp only [↓reduceIte]
    generalize next (u ++ xA) pa = x at hl1 ⊢
    generalize next (u ++ xB) pb = y at hl1 ⊢
    obtain ⟨c, r, q⟩ := x
    obtain ⟨c', r', q'⟩ := y
    dsimp only
    rcases live_test' C hl1 (fun c => isIdentRune c 0) hident with ⟨h3, h4⟩ | ⟨h3, h4, hbef⟩ | ⟨h3, h4, hat, hx⟩
    · dsimp only at h3 h4
      simp only [h3, h4, Bool.false_eq_true, ↓reduceIte]
      rcases live_test' C hl1 (fun c => isDecimal c) hdec with ⟨h5, h6⟩ | ⟨h5, h6, hbef⟩ | ⟨h5, h6, hat, hx⟩
      · dsimp only at h5 h6
        simp only [h5, h6, Bool.false_eq_true, ↓reduceIte]
        exact fin_out .ident 45 u (Or.inl hl1)
      · dsimp only at h5 h6
        simp only [h5, h6, ↓reduceIte]
        obtain ⟨u', hr, hr'⟩ := hbef.2.2.2
        have hn := scanNumber_sim C [45] false true u' hbef hr hr'
        dsimp only at hn
        generalize scanNumber [45] r c q false true = oa at hn ⊢
        generalize scanNumber [45] r' c' q' false true = ob at hn ⊢
        obtain ⟨ka, sa⟩ := oa
        obtain ⟨kb, sb⟩ := ob
        dsimp only at hn ⊢
        rcases hn with hd | ⟨hl, hk⟩
        · exact Or.inl ⟨hd.1, Or.inr hd⟩
        · subst hk; exact fin_out ka 45 u (Or.inl hl)
      · dsimp only at h5
        simp only [h5, ↓reduceIte]
        have hd := scanNumber_first_pop D [45] r c q false true h5 (at_next_dead hat hx)
        generalize scanNumber [45] r c q false true = oa at hd ⊢
        obtain ⟨ka, sa⟩ := oa
        exact Or.inl ⟨hd.1, Or.inr hd⟩
    · dsimp only at h3 h4
      simp only [h3, h4, ↓reduceIte]
      exact fin_out .ident 45 u (scanIdentifier_sim C hbef)
    · dsimp only at h3
      simp only [h3, ↓reduceIte]
      have hd := scanIdentifier_pop D r q (at_next_dead hat hx)
      exact Or.inl ⟨hd.1, Or.inr hd⟩
  simp only [c3, ↓reduceIte]
  by_cases c4 : ca < 0
  · simp only [c4, ↓reduceIte]
    exact Or.inr ⟨rfl, Or.inl h⟩
  simp only [c4, ↓reduceIte]
  by_cases c5 : ca = 34
  · subst c5
    simp only [↓reduceIte]
    exact fin_out .string 34 u (strTok_sim C h)
  simp only [c5, ↓reduceIte]
  by_cases c6 : ca = 58
  · subst c6
    simp only [↓reduceIte]
    exact fin_out .keyword 58 u (scanIdentifier_sim C h)
  simp only [c6, ↓reduceIte]
  by_cases c7 : ca = 46
  · subst c7
    simp only [↓reduceIte]
    generalize next (u ++ xA) pa = x at hl1 ⊢
    generalize next (u ++ xB) pb = y at hl1 ⊢
    obtain ⟨c, r, q⟩ := x
    obtain ⟨c', r', q'⟩ := y
    dsimp only
    rcases live_test' C hl1 (fun c => isDecimal c) hdec with ⟨h5, h6⟩ | ⟨h5, h6, hbef⟩ | ⟨h5, h6, hat, hx⟩
    · dsimp only at h5 h6
      simp only [h5, h6, Bool.false_eq_true, ↓reduceIte]
      exact fin_out (.char 46) 46 u (Or.inl hl1)
    · dsimp only at h5 h6
      simp only [h5, h6, ↓reduceIte]
      obtain ⟨u', hr, hr'⟩ := hbef.2.2.2
      have hn := scanNumber_sim C [46] true false u' hbef hr hr'
      dsimp only at hn
      generalize scanNumber [46] r c q true false = oa at hn ⊢
      generalize scanNumber [46] r' c' q' true false = ob at hn ⊢
      obtain ⟨ka, sa⟩ := oa
      obtain ⟨kb, sb⟩ := ob
      dsimp only at hn ⊢
      rcases hn with hd | ⟨hl, hk⟩
      · exact Or.inl ⟨hd.1, Or.inr hd⟩
      · subst hk; exact fin_out ka 46 u (Or.inl hl)
    · dsimp only at h5
      simp only [h5, ↓reduceIte]
      have hd := scanNumber_first_pop D [46] r c q true false h5 (at_next_dead hat hx)
      generalize scanNumber [46] r c q true false = oa at hd ⊢
      obtain ⟨ka, sa⟩ := oa
      exact Or.inl ⟨hd.1, Or.inr hd⟩
  simp only [c7, ↓reduceIte]
  by_cases c8 : ca = 59
  · subst c8
    simp only [↓reduceIte]
    have hg := scanComment_gap C hl1
    generalize next (u ++ xA) pa = x at hg ⊢
    generalize next (u ++ xB) pb = y at hg ⊢
    obtain ⟨c, r, q⟩ := x
    obtain ⟨c', r', q'⟩ := y
    dsimp only at hg ⊢
    generalize scanComment r c q = x2 at hg ⊢
    generalize scanComment r' c' q' = y2 at hg ⊢
    obtain ⟨c2, r2, q2⟩ := x2
    obtain ⟨c2', r2', q2'⟩ := y2
    dsimp only
    rcases hg with hb2 | hcx
    · exact hrec _ _ hb2
    · exact Or.inl ⟨hcx.1, hcr _ hcx⟩
  simp only [c8, ↓reduceIte]
  by_cases c9 : ca = 172
  · subst c9
    simp only [↓reduceIte]
    exact fin_out .rawString 172 u (scanRawString_sim C h)
  simp only [c9, ↓reduceIte]
  have hpop2 : ∀ (k1 k2 : Kind) (ch0 : Int) (t : Int) (ht : ¬ StopCh t),
      ScanOut xA xB PR PRat
        (match next (u ++ xA) pa with
          | (c, r, q) =>
            if c = t then (some (k1, consumed ch0 (u ++ xA) (next r q).2.1 (next r q).1), next r q)
            else (some (k2, consumed ch0 (u ++ xA) r c), c, r, q))
        (match next (u ++ xB) pb with
          | (c, r, q) =>
            if c = t then (some (k1, consumed ch0 (u ++ xB) (next r q).2.1 (next r q).1), next r q)
            else (some (k2, consumed ch0 (u ++ xB) r c), c, r, q)) := by
    intro k1 k2 ch0 t ht
    generalize next (u ++ xA) pa = x at hl1 ⊢
    generalize next (u ++ xB) pb = y at hl1 ⊢
    obtain ⟨c, r, q⟩ := x
    obtain ⟨c', r', q'⟩ := y
    dsimp only
    rcases live_test' C hl1 (fun c => decide (c = t)) (eq_stop_false t ht) with
      ⟨h5, h6⟩ | ⟨h5, h6, hbef⟩ | ⟨h5, h6, hat, hx⟩
    · rw [if_neg (of_decide_eq_false h5), if_neg (of_decide_eq_false h6)]
      exact fin_out k2 ch0 u (Or.inl hl1)
    · rw [if_pos (of_decide_eq_true h5), if_pos (of_decide_eq_true h6)]
      exact fin_out k1 ch0 u (Or.inl (before_next C hbef))
    · rw [if_pos (of_decide_eq_true h5)]
      have hd := at_next_dead hat hx
      exact Or.inl ⟨hd.1, Or.inr hd⟩
  by_cases c10 : ca = 126
  · subst c10
    simp only [↓reduceIte]
    exact hpop2 .ident (.char 126) 126 64 (by decide)
  simp only [c10, ↓reduceIte]
  by_cases c11 : ca = 35
  · subst c11
    simp only [↓reduceIte]
    exact hpop2 .ident (.char 35) 35 123 (by decide)
  simp only [c11, ↓reduceIte]
  exact fin_out (.char ca.toNat) ca u (Or.inl hl1)

end sim10

section sim11
variable {xA xB : List Rune} {PR PRat : PState → PState → Prop} (C : Ctx xA xB PR PRat)
include C

/-- one `Scan` in both runs, with the same fuel -/
theorem scan_sim_eq : ∀ F (a b : St), Before xA xB PR a b →
    ScanOut xA xB PR PRat (scan F a.2.1 a.1 a.2.2) (scan F b.2.1 b.1 b.2.2) := by
  intro F
  induction F with
  | zero => intro a b h; exact Or.inr ⟨rfl, Or.inl ⟨h.1, h.2.1, h.2.2⟩⟩
  | succ F ih =>
    intro a b h
    rcases skipWhite_gap C h with hb | hcx
    · rw [scan_succ, scan_succ]
      exact dispatch_sim C (scan F) (scan F) ih (fun a hc => crossed_scan hc F) hb
    · rw [scan_skip]
      exact Or.inl ⟨hcx.1, crossed_scan hcx (F + 1)⟩

/-- one `Scan` in both runs, each with the fuel the token loop gives it -/
theorem scan_sim {a b : St} (h : Before xA xB PR a b) :
    ScanOut xA xB PR PRat (scan (a.2.1.length + 2) a.2.1 a.1 a.2.2) (scan (b.2.1.length + 2) b.2.1 b.1 b.2.2) := by
  have ea := scan_fuel_ge a.2.1 a.1 a.2.2 (a.2.1.length + 2) (Nat.le_refl _) (b.2.1.length + 2)
  have eb := scan_fuel_ge b.2.1 b.1 b.2.2 (b.2.1.length + 2) (Nat.le_refl _) (a.2.1.length + 2)
  rw [← ea, ← eb, Nat.add_comm (b.2.1.length + 2)]
  exact scan_sim_eq C _ a b h

end sim11

/-! ## §4 the token loop -/

theorem rawMeasure_next_le (ch : Int) (rest : List Rune) (p : PState) :
    rawMeasure (next rest p) ≤ rawMeasure (ch, rest, p) := by
  cases rest with
  | nil =>
    have e : next [] p = (EOF, [], (next [] p).2.2) := rfl
    rw [e]; simp [rawMeasure]
  | cons x xs =>
    rw [next_cons_eq]
    simp only [rawMeasure, List.length_cons]
    split <;> split <;> omega

/-- a `Scan` that yields a token (without error) strictly decreases the measure
    "unread runes + 1 if the look-ahead is not the end of the input" -/
theorem scan_measure (f : Nat) (rest : List Rune) (ch : Int) (p : PState)
    (h : (scan f rest ch p).1 ≠ none) :
    (scan f rest ch p).2.2.2.errs ≠ 0 ∨ rawMeasure (scan f rest ch p).2 < rawMeasure (ch, rest, p) := by
  have hP : SRel (fun a b : St => (a.2.2.errs ≠ 0 ∨ rawMeasure a < rawMeasure (ch, rest, p)) →
      (b.2.2.errs ≠ 0 ∨ rawMeasure b < rawMeasure (ch, rest, p))) :=
    { refl := fun _ => id
      trans := fun h1 h2 h => h2 (h1 h)
      next := fun c r q h => by
        rcases h with h | h
        · exact Or.inl (next_errs_ne r q h)
        · exact Or.inr (Nat.lt_of_le_of_lt (rawMeasure_next_le c r q) h)
      err := fun _ _ _ q _ => Or.inl (err_errs_ne q) }
  have hQ : SRel (fun a b : St => (a.2.2.errs ≠ 0 ∨ rawMeasure a ≤ rawMeasure (ch, rest, p)) →
      (b.2.2.errs ≠ 0 ∨ rawMeasure b ≤ rawMeasure (ch, rest, p))) :=
    { refl := fun _ => id
      trans := fun h1 h2 h => h2 (h1 h)
      next := fun c r q h => by
        rcases h with h | h
        · exact Or.inl (next_errs_ne r q h)
        · exact Or.inr (Nat.le_trans (rawMeasure_next_le c r q) h)
      err := fun _ _ _ q _ => Or.inl (err_errs_ne q) }
  refine scan_pop hP hQ ?_ f rest ch p (Or.inr (Nat.le_refl _)) h
  intro c r q hc hq
  rcases hq with hq | hq
  · exact Or.inl (next_errs_ne r q hq)
  · exact Or.inr (Nat.lt_of_lt_of_le (rawMeasure_next (c, r, q) hc) hq)

/-- the token `tokLoop` records: kind, text, and `Scanner.Pos()` right behind it -/
def tokOf (k : Kind) (text : List Nat) (p' : PState) : Token :=
  { kind := k, text := text, line := (posOf p').1, column := (posOf p').2.1, offset := (posOf p').2.2 }

theorem tokLoop_succ (fuel : Nat) (rest : List Rune) (ch : Int) (p : PState) (acc : List Token) :
    tokLoop (fuel + 1) rest ch p acc =
      match scan (rest.length + 2) rest ch p with
      | (none, _) => .ok acc.reverse
      | (some (k, text), s') =>
        if s'.2.2.errs ≠ 0 then .error (posOf s'.2.2).1 ((posOf s'.2.2).2.1 - 1)
        else tokLoop fuel s'.2.1 s'.1 s'.2.2 (tokOf k text s'.2.2 :: acc) := by
  rw [tokLoop]
  generalize scan (rest.length + 2) rest ch p = x
  obtain ⟨o, c', r', p'⟩ := x
  cases o with
  | none => rfl
  | some kt => obtain ⟨k, text⟩ := kt; rfl

/-- with more fuel than the measure of the state, the token loop does not depend on its fuel -/
theorem tokLoop_fuel : ∀ fuel rest ch p acc, rawMeasure (ch, rest, p) < fuel →
    tokLoop (fuel + 1) rest ch p acc = tokLoop fuel rest ch p acc := by
  intro fuel
  induction fuel with
  | zero => intro rest ch p acc h; omega
  | succ fuel ih =>
    intro rest ch p acc h
    rw [tokLoop_succ (fuel + 1), tokLoop_succ fuel]
    have hm := scan_measure (rest.length + 2) rest ch p
    generalize scan (rest.length + 2) rest ch p = x at hm ⊢
    obtain ⟨o, c', r', q'⟩ := x
    cases o with
    | none => rfl
    | some kt =>
      obtain ⟨k, text⟩ := kt
      dsimp only at hm ⊢
      by_cases he : q'.errs ≠ 0
      · rw [if_pos he, if_pos he]
      · rw [if_neg he, if_neg he]
        rcases hm (by simp) with h1 | h1
        · exact absurd h1 he
        · exact ih _ _ _ _ (by omega)

theorem tokLoop_fuel_ge (rest : List Rune) (ch : Int) (p : PState) (acc : List Token) (f : Nat)
    (h : rawMeasure (ch, rest, p) < f) : ∀ k, tokLoop (f + k) rest ch p acc = tokLoop f rest ch p acc := by
  intro k
  induction k with
  | zero => rfl
  | succ k ih => rw [← Nat.add_assoc, tokLoop_fuel (f + k) rest ch p acc (by omega), ih]

/-- the token loop goes from one state to another, recording these tokens (none of them with an error) -/
inductive Steps : St → List Token → St → Prop
  | refl (s : St) : Steps s [] s
  | step {s s' s'' : St} {k : Kind} {text : List Nat} {toks : List Token} :
      scan (s.2.1.length + 2) s.2.1 s.1 s.2.2 = (some (k, text), s') → s'.2.2.errs = 0 → Steps s' toks s'' →
      Steps s (tokOf k text s'.2.2 :: toks) s''

theorem tokLoop_steps {s s' : St} {ts : List Token} (h : Steps s ts s') : ∀ (F : Nat) (acc : List Token),
    rawMeasure s < F →
      tokLoop F s.2.1 s.1 s.2.2 acc = tokLoop F s'.2.1 s'.1 s'.2.2 (ts.reverse ++ acc) ∧ rawMeasure s' < F := by
  induction h with
  | refl s => intro F acc hF; exact ⟨rfl, hF⟩
  | @step s s1 s2 k text toks hs he _ ih =>
    intro F acc hF
    obtain ⟨c, r, q⟩ := s
    obtain ⟨c1, r1, q1⟩ := s1
    dsimp only at hs he hF ih ⊢
    have hm := scan_measure (r.length + 2) r c q (by rw [hs]; simp)
    rw [hs] at hm
    dsimp only at hm
    have hm1 : rawMeasure (c1, r1, q1) < rawMeasure (c, r, q) := by
      rcases hm with h1 | h1
      · exact absurd he h1
      · exact h1
    cases F with
    | zero => omega
    | succ F =>
      rw [tokLoop_succ, hs]
      dsimp only
      rw [if_neg (by rw [he]; simp), ← tokLoop_fuel F _ _ _ _ (by omega)]
      obtain ⟨e, hlt⟩ := ih (F + 1) (tokOf k text q1 :: acc) (by omega)
      rw [e]
      refine ⟨?_, hlt⟩
      simp

theorem steps_len {s s' : St} {ts : List Token} (h : Steps s ts s') : s'.2.1.length ≤ s.2.1.length := by
  induction h with
  | refl s => exact Nat.le_refl _
  | @step s s1 s2 k text toks hs _ _ ih =>
    have := scan_s len_srel (s.2.1.length + 2) s.2.1 s.1 s.2.2
    rw [hs] at this
    exact Nat.le_trans ih this

theorem steps_measure {s s' : St} {ts : List Token} (h : Steps s ts s') :
    rawMeasure s' ≤ rawMeasure s ∧ (ts ≠ [] → rawMeasure s' < rawMeasure s) := by
  induction h with
  | refl s => exact ⟨Nat.le_refl _, fun h => absurd rfl h⟩
  | @step s s1 s2 k text toks hs he _ ih =>
    have hm := scan_measure (s.2.1.length + 2) s.2.1 s.1 s.2.2 (by rw [hs]; simp)
    rw [hs] at hm
    have hm1 : rawMeasure s1 < rawMeasure s := by
      rcases hm with h1 | h1
      · exact absurd he h1
      · exact h1
    exact ⟨by omega, fun _ => by omega⟩

theorem steps_eof {p : PState} {s' : St} {ts : List Token} (h : Steps (EOF, [], p) ts s') :
    ts = [] ∧ s' = (EOF, [], p) := by
  cases h with
  | refl => exact ⟨rfl, rfl⟩
  | step hs _ _ => dsimp only at hs; rw [scan_at_eof] at hs; cases hs

/-- two lists of the same length, related element by element -/
inductive AllRel {α β : Type} (T : α → β → Prop) : List α → List β → Prop
  | nil : AllRel T [] []
  | cons {a b as bs} : T a b → AllRel T as bs → AllRel T (a :: as) (b :: bs)

section phase1
variable {xA xB : List Rune} {PR PRat : PState → PState → Prop} (C : Ctx xA xB PR PRat)
include C

/-- **Phase 1**: while run A's token loop goes from a state inside the common part to the state in which
    it has just read the first rune of `xA`, run B's token loop (if it ends without error) records related
    tokens and arrives in the state in which it has just read the first rune of `xB`. -/
theorem phase1 (hns : ¬ Same xA xB) (T : Token → Token → Prop)
    (hT1 : ∀ k text p q, PR p q → T (tokOf k text p) (tokOf k text q))
    (hT2 : ∀ k text p q, PRat p q → T (tokOf k text p) (tokOf k text q))
    {a fin : St} {ts : List Token} (hst : Steps a ts fin) :
    ∀ b : St, Live xA xB PR PRat a b → fin.1 = hdCh xA → fin.2.1 = xA.tail →
      ∀ (F : Nat) (acc tB : List Token), rawMeasure b < F → tokLoop F b.2.1 b.1 b.2.2 acc = .ok tB →
        ∃ ts' finB, tokLoop F finB.2.1 finB.1 finB.2.2 (ts'.reverse ++ acc) = .ok tB ∧ rawMeasure finB < F ∧
          At xA xB PRat fin finB ∧ AllRel T ts ts' := by
  induction hst with
  | refl a =>
    intro b hl h1 h2 F acc tB hF hB
    rcases hl with hb | ha
    · exfalso
      obtain ⟨_, _, hneg, u, hu, _⟩ := hb
      by_cases hx : xA = []
      · subst hx
        exact hns (hneg (by rw [h1]; decide))
      · rw [h2] at hu
        have := congrArg List.length hu
        simp only [List.length_append, List.length_tail] at this
        have : 0 < xA.length := List.length_pos_iff.mpr hx
        omega
    · exact ⟨[], b, hB, hF, ha, AllRel.nil⟩
  | @step s s1 s2 k text toks hs he hrest ih =>
    intro b hl h1 h2 F acc tB hF hB
    rcases hl with hb | ha
    · have hso := scan_sim C hb
      rw [hs] at hso
      rcases hso with ⟨_, hno | hd⟩ | ⟨heq, hl1⟩
      · cases hno
      · exfalso
        obtain ⟨_, hd | hd | ⟨hx, hr, hc⟩⟩ := hd
        · exact hd he
        · have := steps_len hrest
          rw [h2] at this
          dsimp only at hd; omega
        · obtain ⟨c1, r1, q1⟩ := s1
          dsimp only at hr hc
          subst hr hc
          obtain ⟨_, e⟩ := steps_eof hrest
          rw [e] at h1
          have := hdCh_nonneg hx
          have h1' : (-1 : Int) = hdCh xA := h1
          omega
      · cases F with
        | zero => omega
        | succ F =>
          rw [tokLoop_succ] at hB
          have hmB := scan_measure (b.2.1.length + 2) b.2.1 b.1 b.2.2
          generalize scan (b.2.1.length + 2) b.2.1 b.1 b.2.2 = y at heq hl1 hB hmB
          obtain ⟨ob, cB, rB, qB⟩ := y
          dsimp only at heq hl1 hmB
          subst heq
          dsimp only at hB
          by_cases heB : qB.errs ≠ 0
          · rw [if_pos heB] at hB; cases hB
          · rw [if_neg heB] at hB
            have hmB1 : rawMeasure (cB, rB, qB) < rawMeasure b := by
              rcases hmB (by simp) with h | h
              · exact absurd h heB
              · exact h
            rw [← tokLoop_fuel F _ _ _ _ (by omega)] at hB
            obtain ⟨ts', finB, e1, e2, e3, e4⟩ :=
              ih (cB, rB, qB) hl1 h1 h2 (F + 1) (tokOf k text qB :: acc) tB (by omega) hB
            refine ⟨tokOf k text qB :: ts', finB, ?_, e2, e3, AllRel.cons ?_ e4⟩
            · simpa using e1
            · rcases hl1 with hb1 | ha1
              · exact hT1 k text _ _ hb1.2.1
              · exact hT2 k text _ _ ha1.2.2.2.2.2
    · exfalso
      have := (steps_measure (Steps.step hs he hrest)).2 (by simp)
      obtain ⟨_, e1, e2, _⟩ := ha
      obtain ⟨c, r, q⟩ := s
      obtain ⟨c2, r2, q2⟩ := s2
      dsimp only at e1 e2 h1 h2
      subst e1 e2 h1 h2
      simp [rawMeasure] at this

end phase1

/-- **Phase 3**: two token loops over the same unread runes with the same look-ahead, bookkeeping related by
    `PR`: if both end without error they record related tokens -/
theorem phase3 {PR PRat : PState → PState → Prop} (C : Ctx [] [] PR PRat) (T : Token → Token → Prop)
    (hT : ∀ k text p q, PR p q → T (tokOf k text p) (tokOf k text q)) :
    ∀ (F : Nat) (a b : St) (accA accB tA tB : List Token), Before [] [] PR a b →
      tokLoop F a.2.1 a.1 a.2.2 accA = .ok tA → tokLoop F b.2.1 b.1 b.2.2 accB = .ok tB →
      ∃ nA nB, tA = accA.reverse ++ nA ∧ tB = accB.reverse ++ nB ∧ AllRel T nA nB := by
  intro F
  induction F with
  | zero =>
    intro a b accA accB tA tB _ hA hB
    simp only [tokLoop, TokResult.ok.injEq] at hA hB
    exact ⟨[], [], by simp [hA], by simp [hB], AllRel.nil⟩
  | succ F ih =>
    intro a b accA accB tA tB h hA hB
    rw [tokLoop_succ] at hA hB
    have hso := scan_sim C h
    generalize scan (a.2.1.length + 2) a.2.1 a.1 a.2.2 = x at hso hA
    generalize scan (b.2.1.length + 2) b.2.1 b.1 b.2.2 = y at hso hB
    obtain ⟨oa, sa⟩ := x
    obtain ⟨ob, sb⟩ := y
    rcases hso with ⟨hns, _⟩ | ⟨heq, hl⟩
    · exact absurd ⟨rfl, rfl⟩ hns
    · dsimp only at heq hl
      subst heq
      have hb1 : Before [] [] PR sa sb := by
        rcases hl with hb | ha
        · exact hb
        · exact absurd ⟨rfl, rfl⟩ ha.1
      cases oa with
      | none =>
        simp only [TokResult.ok.injEq] at hA hB
        exact ⟨[], [], by simp [hA], by simp [hB], AllRel.nil⟩
      | some kt =>
        obtain ⟨k, text⟩ := kt
        dsimp only at hA hB
        by_cases heA : sa.2.2.errs ≠ 0
        · rw [if_pos heA] at hA; cases hA
        rw [if_neg heA] at hA
        by_cases heB : sb.2.2.errs ≠ 0
        · rw [if_pos heB] at hB; cases hB
        rw [if_neg heB] at hB
        obtain ⟨nA, nB, e1, e2, e3⟩ := ih sa sb _ _ tA tB hb1 hA hB
        refine ⟨tokOf k text sa.2.2 :: nA, tokOf k text sb.2.2 :: nB, ?_, ?_, AllRel.cons (hT k text _ _ hb1.2.1) e3⟩
        · rw [e1]; simp
        · rw [e2]; simp

/-! ## §5 gaps -/

/-- the state of the scanner right after it has read the first rune of `x` with bookkeeping `p0` -/
def atSt (x : List Rune) (p0 : PState) : St := (hdCh x, x.tail, (next x p0).2.2)

theorem next_eq_atSt (x : List Rune) (p0 : PState) : next x p0 = atSt x p0 := next_eq_hd x p0

/-- entering a gap: the scanner that has just read the first rune of a gap is the scanner in front of the gap
    with a white-space look-ahead -/
theorem scan_enter_gap {g : List Rune} (hg : Gap g) (hne : g ≠ []) (post : List Rune) (p0 : PState) (n : Nat) :
    scan (n + 1) (atSt (g ++ post) p0).2.1 (atSt (g ++ post) p0).1 (atSt (g ++ post) p0).2.2 =
      scan (n + 1) (g ++ post) 32 p0 := by
  cases hg with
  | nil => exact absurd rfl hne
  | @white r g' hr _ =>
    have e := scan_white n [r] (g' ++ post) 32 p0 (by decide) (by simpa using hr)
    simp only [List.cons_append, List.nil_append] at e ⊢
    rw [e]
    unfold atSt
    rw [next_cons_eq]
    rfl
  | @comment s body nl g' hs hb hnl _ =>
    have e := scan_white_semi n s ((body ++ nl :: g') ++ post) 32 p0 (by decide) hs
    simp only [List.cons_append] at e ⊢
    rw [e]
    unfold atSt
    rw [next_cons_eq]
    have : Int.ofNat s.ch = 59 := by rw [hs]; rfl
    simp only [hdCh, List.tail_cons, this]

/-- leaving a gap: with a white-space look-ahead, `Scan` first reads the next rune -/
theorem scan_leave_gap (f : Nat) (post : List Rune) (w : Int) (p : PState) (hw : isWhite w = true) :
    scan (f + 1) post w p = scan (f + 1) (atSt post p).2.1 (atSt post p).1 (atSt post p).2.2 := by
  cases post with
  | nil =>
    rw [scan_succ, scan_succ]
    have e1 : skipWhite [] w p = next [] p := by rw [skipWhite, if_pos hw]
    have e2 : skipWhite (atSt [] p).2.1 (atSt [] p).1 (atSt [] p).2.2 = next [] p := by
      unfold atSt; exact skipWhite_stop _ _ _ (show isWhite EOF = false by decide)
    rw [e1, e2]
  | cons r rs =>
    have ea : atSt (r :: rs) p = (Int.ofNat r.ch, rs, step r p) := by unfold atSt; rw [next_cons_eq]; rfl
    rw [ea, scan_succ, scan_succ, skipWhite_cons _ _ _ _ hw]

/-- across a gap: `Scan` from the state that has just read the first rune of the gap is `Scan` from the state
    that has just read the first rune behind the gap, the bookkeeping having been fed the gap -/
theorem scan_across_gap {g : List Rune} (hg : Gap g) (hne : g ≠ []) (post : List Rune) (p0 : PState) :
    scan ((atSt (g ++ post) p0).2.1.length + 2) (atSt (g ++ post) p0).2.1 (atSt (g ++ post) p0).1
        (atSt (g ++ post) p0).2.2 =
      scan ((atSt post (feed g p0)).2.1.length + 2) (atSt post (feed g p0)).2.1 (atSt post (feed g p0)).1
        (atSt post (feed g p0)).2.2 := by
  obtain ⟨k, hk, hgap⟩ := scan_gap hg
  obtain ⟨hw, e⟩ := hgap (g.length + post.length + 1) post 32 p0 (by decide)
  have l1 : (atSt (g ++ post) p0).2.1.length + 2 ≤ g.length + post.length + 1 + 1 + k := by
    unfold atSt; simp only [List.length_tail, List.length_append]; omega
  have l2 : (atSt post (feed g p0)).2.1.length + 2 ≤ g.length + post.length + 1 + 1 := by
    unfold atSt; simp only [List.length_tail]; omega
  obtain ⟨j1, hj1⟩ := Nat.exists_eq_add_of_le l1
  obtain ⟨j2, hj2⟩ := Nat.exists_eq_add_of_le l2
  have e0 : g.length + post.length + 1 + 1 + k = (g.length + post.length + 1 + k) + 1 := by omega
  rw [← scan_fuel_ge _ _ _ _ (Nat.le_refl _) j1, ← hj1, e0, scan_enter_gap hg hne, ← e0, e,
    scan_leave_gap _ _ _ _ hw, hj2, scan_fuel_ge _ _ _ _ (Nat.le_refl _) j2]

theorem tokLoop_across_gap {g : List Rune} (hg : Gap g) (hne : g ≠ []) (post : List Rune) (p0 : PState)
    (F : Nat) (acc : List Token) :
    tokLoop (F + 1) (atSt (g ++ post) p0).2.1 (atSt (g ++ post) p0).1 (atSt (g ++ post) p0).2.2 acc =
      tokLoop (F + 1) (atSt post (feed g p0)).2.1 (atSt post (feed g p0)).1 (atSt post (feed g p0)).2.2 acc := by
  rw [tokLoop_succ, tokLoop_succ, scan_across_gap hg hne]

/-! ## §6 the two contexts and the theorems -/

theorem next_err_comm (x : List Rune) (p : PState) : Scan.err (next x p).2.2 = (next x (Scan.err p)).2.2 := by
  cases x with
  | nil => rfl
  | cons r rs =>
    unfold next Scan.err
    simp only []
    split
    · rfl
    · split
      · rfl
      · split <;> rfl

theorem step_line_ge (r : Rune) (p : PState) : p.line ≤ (step r p).line := by
  rw [step_line]; omega

/-- the bookkeeping of the two runs while they read the common part: identical (and on a line ≥ 1) -/
def PR1 (p q : PState) : Prop := p = q ∧ 1 ≤ p.line

/-- … and right after each has read its first different rune -/
def PRat1 (xA xB : List Rune) (pA pB : PState) : Prop :=
  ∃ p0, 1 ≤ p0.line ∧ pA = (next xA p0).2.2 ∧ pB = (next xB p0).2.2

theorem ctx1 (xA xB : List Rune) (hstop : StopCh (hdCh xB)) : Ctx xA xB PR1 (PRat1 xA xB) where
  stopB := hstop
  pr_step r p q h := by
    obtain ⟨rfl, h1⟩ := h
    exact ⟨rfl, Nat.le_trans h1 (step_line_ge r p)⟩
  pr_err p q h := by obtain ⟨rfl, h1⟩ := h; exact ⟨rfl, h1⟩
  pr_eof _ _ p q h := by obtain ⟨rfl, h1⟩ := h; exact ⟨rfl, h1⟩
  cross p q h := by obtain ⟨rfl, h1⟩ := h; exact ⟨p, h1, rfl, rfl⟩
  at_err p q h := by
    obtain ⟨p0, h1, rfl, rfl⟩ := h
    exact ⟨Scan.err p0, h1, next_err_comm _ _, next_err_comm _ _⟩

/-- the first rune of a non-empty gap is a stop character -/
theorem gap_hd_stop {g : List Rune} (hg : Gap g) (hne : g ≠ []) (post : List Rune) : StopCh (hdCh (g ++ post)) := by
  cases hg with
  | nil => exact absurd rfl hne
  | @white r g' hr _ =>
    have h : isWhite (Int.ofNat r.ch) = true := hr
    show StopCh (Int.ofNat r.ch)
    generalize Int.ofNat r.ch = c at h
    unfold isWhite at h
    simp only [Bool.or_eq_true, decide_eq_true_eq] at h
    unfold StopCh
    omega
  | @comment s body nl g' hs _ _ _ =>
    show StopCh (Int.ofNat s.ch)
    rw [hs]; exact Or.inr (Or.inr (Or.inr (Or.inr (Or.inr rfl))))

/-- the line `Scanner.Pos()` reports right after a rune has been read is the line it was read on -/
theorem effLine_step (x : Rune) (p0 : PState) : effLine (step x p0) = p0.line := by
  rw [effLine_eq]
  rcases step_cases x p0 with ⟨h1, h2⟩ | ⟨h1, h2, h3⟩
  · rw [if_pos (by omega), h1]
  · rw [if_neg (by omega), if_pos (by omega), h1]; omega

/-- the bookkeeping of two runs that read the same runes after gaps with `nA` resp. `nB` newlines: lines
    shifted, the same "just read a newline" status -/
def Sh (nA nB : Nat) (p q : PState) : Prop :=
  q.line + nA = p.line + nB ∧ q.lastCharLen = p.lastCharLen ∧ 1 ≤ p.line ∧ 1 ≤ q.line ∧
    ((0 < p.column ∧ 0 < q.column) ∨ (p.column = 0 ∧ q.column = 0 ∧ 0 < p.lastLineLen ∧ 0 < q.lastLineLen))

theorem step_fields (r : Rune) (p : PState) :
    (step r p).lastCharLen = r.width ∧
    ((isNl r = true ∧ (step r p).line = p.line + 1 ∧ (step r p).column = 0 ∧ (step r p).lastLineLen = p.column + 1) ∨
     (isNl r = false ∧ (step r p).line = p.line ∧ (step r p).column = p.column + 1 ∧
        (step r p).lastLineLen = p.lastLineLen)) := by
  unfold step next isNl
  simp only []
  split
  · rename_i h; simp [h]
  · rename_i hb
    split
    · rename_i h; simp [h, hb]
    · split
      · rename_i h; simp [h, hb]
      · rename_i h0 h; simp [h, hb]

theorem sh_step (nA nB : Nat) (r : Rune) (p q : PState) (h : Sh nA nB p q) : Sh nA nB (step r p) (step r q) := by
  obtain ⟨h1, h2, h3, h4, h5⟩ := h
  obtain ⟨wp, fp⟩ := step_fields r p
  obtain ⟨wq, fq⟩ := step_fields r q
  rcases fp with ⟨n1, a1, a2, a3⟩ | ⟨n1, a1, a2, a3⟩ <;> rcases fq with ⟨n2, b1, b2, b3⟩ | ⟨n2, b1, b2, b3⟩
  · exact ⟨by omega, by rw [wp, wq], by omega, by omega, Or.inr ⟨a2, b2, by omega, by omega⟩⟩
  · rw [n1] at n2; cases n2
  · rw [n1] at n2; cases n2
  · exact ⟨by omega, by rw [wp, wq], by omega, by omega, Or.inl ⟨by omega, by omega⟩⟩

theorem sh_eof (nA nB : Nat) (p q : PState) (h : Sh nA nB p q) : Sh nA nB (next [] p).2.2 (next [] q).2.2 := by
  obtain ⟨h1, h2, h3, h4, h5⟩ := h
  have ep : (next [] p).2.2 = { p with column := if p.lastCharLen > 0 then p.column + 1 else p.column, lastCharLen := 0 } := rfl
  have eq : (next [] q).2.2 = { q with column := if q.lastCharLen > 0 then q.column + 1 else q.column, lastCharLen := 0 } := rfl
  rw [ep, eq]
  refine ⟨h1, rfl, h3, h4, ?_⟩
  dsimp only
  rw [h2]
  split
  · exact Or.inl ⟨by omega, by omega⟩
  · exact h5

theorem ctxSh (nA nB : Nat) : Ctx [] [] (Sh nA nB) (Sh nA nB) where
  stopB := stop_hd_nil
  pr_step r p q h := sh_step nA nB r p q h
  pr_err _ _ h := h
  pr_eof _ _ p q h := sh_eof nA nB p q h
  cross p q h := sh_eof nA nB p q h
  at_err _ _ h := h

/-- under `Sh` the reported lines are shifted -/
theorem sh_effLine (nA nB : Nat) (p q : PState) (h : Sh nA nB p q) : effLine q + nA = effLine p + nB := by
  obtain ⟨h1, h2, h3, h4, h5⟩ := h
  rw [effLine_eq, effLine_eq]
  rcases h5 with ⟨a, b⟩ | ⟨a, b, c, d⟩
  · have a' : p.column > 0 := a
    have b' : q.column > 0 := b
    rw [if_pos a', if_pos b']; exact h1
  · have a' : ¬ p.column > 0 := by omega
    have b' : ¬ q.column > 0 := by omega
    have c' : p.lastLineLen > 0 := c
    have d' : q.lastLineLen > 0 := d
    rw [if_neg b', if_pos d', if_neg a', if_pos c']; omega

/-- the bookkeeping after the first rune behind two gaps read from the same bookkeeping -/
theorem sh_after_gaps (g g' : List Rune) (r : Rune) (p0 : PState) (h0 : 1 ≤ p0.line) :
    Sh (newlines g) (newlines g') (step r (feed g p0)) (step r (feed g' p0)) := by
  have l1 := feed_line g p0
  have l2 := feed_line g' p0
  obtain ⟨wp, fp⟩ := step_fields r (feed g p0)
  obtain ⟨wq, fq⟩ := step_fields r (feed g' p0)
  rcases fp with ⟨n1, a1, a2, a3⟩ | ⟨n1, a1, a2, a3⟩ <;> rcases fq with ⟨n2, b1, b2, b3⟩ | ⟨n2, b1, b2, b3⟩
  · exact ⟨by omega, by rw [wp, wq], by omega, by omega, Or.inr ⟨a2, b2, by omega, by omega⟩⟩
  · rw [n1] at n2; cases n2
  · rw [n1] at n2; cases n2
  · exact ⟨by omega, by rw [wp, wq], by omega, by omega, Or.inl ⟨by omega, by omega⟩⟩

theorem start_measure (runes : List Rune) : rawMeasure (start runes) < runes.length + 2 := by
  unfold start
  have h1 := rawMeasure_next_le 0 runes {}
  have h0 : rawMeasure ((0 : Int), runes, ({} : PState)) = runes.length + 1 := by simp [rawMeasure]
  generalize next runes {} = x at h1 ⊢
  obtain ⟨c, r, q⟩ := x
  dsimp only
  split
  · have := rawMeasure_next_le c r q; omega
  · omega

/-- the start states of the two token loops are related -/
theorem start_live {xA xB : List Rune} (C : Ctx xA xB PR1 (PRat1 xA xB)) (pre : List Rune)
    (hbom : pre ≠ [] ∨ hdCh xA ≠ 0xFEFF) :
    Live xA xB PR1 (PRat1 xA xB) (start (pre ++ xA)) (start (pre ++ xB)) := by
  cases pre with
  | cons r0 pre' =>
    have hb1 : Before xA xB PR1 (Int.ofNat r0.ch, pre' ++ xA, step r0 {}) (Int.ofNat r0.ch, pre' ++ xB, step r0 {}) := by
      refine ⟨rfl, ⟨rfl, Nat.le_trans (Nat.le_refl 1) (step_line_ge r0 {})⟩, fun h => ?_, pre', rfl, rfl⟩
      have : (0 : Int) ≤ Int.ofNat r0.ch := Int.natCast_nonneg _
      dsimp only at h; omega
    unfold start
    simp only [List.cons_append, next_cons_eq]
    split
    · exact before_next C hb1
    · exact Or.inl hb1
  | nil =>
    have hb0 : Before xA xB PR1 ((0 : Int), [] ++ xA, ({} : PState)) ((0 : Int), [] ++ xB, ({} : PState)) :=
      ⟨rfl, ⟨rfl, Nat.le_refl _⟩, fun h => absurd (show (0 : Int) < 0 from h) (by decide), [], rfl, rfl⟩
    have hl1 := before_next C hb0
    dsimp only at hl1
    unfold start
    generalize next ([] ++ xA) {} = x at hl1 ⊢
    generalize next ([] ++ xB) {} = y at hl1 ⊢
    obtain ⟨c, r, q⟩ := x
    obtain ⟨c', r', q'⟩ := y
    dsimp only
    rcases live_test' C hl1 (fun c => decide (c = 0xFEFF)) (eq_stop_false 0xFEFF (by decide)) with
      ⟨h1, h2⟩ | ⟨h1, h2, hbef⟩ | ⟨h1, h2, hat, hx⟩
    · rw [if_neg (of_decide_eq_false h1), if_neg (of_decide_eq_false h2)]; exact hl1
    · rw [if_pos (of_decide_eq_true h1), if_pos (of_decide_eq_true h2)]; exact before_next C hbef
    · exfalso
      have e1 : c = 0xFEFF := of_decide_eq_true h1
      obtain ⟨_, e2, _⟩ := hat
      dsimp only at e2
      rcases hbom with hp | hb
      · exact hp rfl
      · exact hb (by rw [← e2, e1])

theorem tokenizeRunes_eq (runes : List Rune) :
    tokenizeRunes runes =
      tokLoop (runes.length + 2) (start runes).2.1 (start runes).1 (start runes).2.2 [] := rfl

/-- tokens recorded before the point where the texts differ: same kind and text, and the same line (when the
    first text does not end at that point) -/
def TokSame (xA : List Rune) (t t' : Token) : Prop :=
  t.kind = t'.kind ∧ t.text = t'.text ∧ (xA ≠ [] → t.line = t'.line)

/-- tokens recorded behind gaps with `nA` resp. `nB` newlines: same kind and text, lines shifted -/
def TokSh (nA nB : Nat) (t t' : Token) : Prop :=
  t.kind = t'.kind ∧ t.text = t'.text ∧ t'.line + nA = t.line + nB

theorem atSt_measure (x : List Rune) (p : PState) : rawMeasure (atSt x p) ≤ x.length := by
  cases x with
  | nil => simp [atSt, rawMeasure, hdCh]
  | cons r rs =>
    have hnn : ¬ Int.ofNat r.ch < 0 := by
      have : (0 : Int) ≤ Int.ofNat r.ch := Int.natCast_nonneg _
      omega
    have e : atSt (r :: rs) p = (Int.ofNat r.ch, rs, (next (r :: rs) p).2.2) := rfl
    rw [e]
    unfold rawMeasure
    dsimp only
    rw [if_neg hnn]
    simp

/-- the token loop started right behind the last rune of the text -/
theorem tokLoop_at_end (F : Nat) (p : PState) (acc : List Token) :
    tokLoop (F + 1) (atSt [] p).2.1 (atSt [] p).1 (atSt [] p).2.2 acc = .ok acc.reverse := by
  rw [tokLoop_succ]
  have e : scan ((atSt [] p).2.1.length + 2) (atSt [] p).2.1 (atSt [] p).1 (atSt [] p).2.2 =
      (none, (EOF, [], (atSt [] p).2.2)) := scan_at_eof _ _
  rw [e]

/-- **Main theorem.**  Text A = `pre ++ g ++ post`, text B = `pre ++ g' ++ post` with gaps `g` (possibly empty)
    and `g'` (not empty); the token loop on A passes through the state in which it has just read the first rune
    behind `pre` (so `pre` ends where a token ends, or is empty).  If both texts tokenize without error, the
    tokens are pairwise related: those recorded up to that point have the same kind, text (and line), those
    behind have the same kind and text, their lines shifted by the newlines of the gaps. -/
theorem layout_main (pre g g' post : List Rune) (hg : Gap g) (hg' : Gap g') (hne' : g' ≠ [])
    (hbom : pre ≠ [] ∨ hdCh (g ++ post) ≠ 0xFEFF) {tsPre : List Token} {fin : St}
    (H : Steps (start (pre ++ (g ++ post))) tsPre fin) (hf1 : fin.1 = hdCh (g ++ post))
    (hf2 : fin.2.1 = (g ++ post).tail) {tA tB : List Token}
    (hA : tokenizeRunes (pre ++ (g ++ post)) = .ok tA) (hB : tokenizeRunes (pre ++ (g' ++ post)) = .ok tB) :
    ∃ tsPre' nA nB, tA = tsPre ++ nA ∧ tB = tsPre' ++ nB ∧ AllRel (TokSame (g ++ post)) tsPre tsPre' ∧
      AllRel (TokSh (newlines g) (newlines g')) nA nB := by
  have hxB : g' ++ post ≠ [] := by simp [hne']
  have hns : ¬ Same (g ++ post) (g' ++ post) := fun h => hxB h.2
  have C := ctx1 (g ++ post) (g' ++ post) (gap_hd_stop hg' hne' post)
  have hl0 := start_live C pre hbom
  rw [tokenizeRunes_eq] at hA hB
  -- run A up to the point
  obtain ⟨eA, mA⟩ := tokLoop_steps H ((pre ++ (g ++ post)).length + 2) [] (start_measure _)
  rw [eA] at hA
  -- run B up to the point
  have hT1 : ∀ k text p q, PR1 p q → TokSame (g ++ post) (tokOf k text p) (tokOf k text q) := by
    intro k text p q h; obtain ⟨rfl, _⟩ := h; exact ⟨rfl, rfl, fun _ => rfl⟩
  have hT2 : ∀ k text p q, PRat1 (g ++ post) (g' ++ post) p q →
      TokSame (g ++ post) (tokOf k text p) (tokOf k text q) := by
    intro k text p q h
    obtain ⟨p0, _, rfl, rfl⟩ := h
    refine ⟨rfl, rfl, fun hx => ?_⟩
    obtain ⟨x, xs, ex⟩ := List.exists_cons_of_ne_nil hx
    obtain ⟨y, ys, ey⟩ := List.exists_cons_of_ne_nil hxB
    rw [ex, ey, next_cons_eq, next_cons_eq]
    show effLine (step x p0) = effLine (step y p0)
    rw [effLine_step, effLine_step]
  obtain ⟨tsPre', finB, eB, mB, hat, hrel⟩ :=
    phase1 C hns (TokSame (g ++ post)) hT1 hT2 H _ hl0 hf1 hf2 _ [] tB (start_measure _) hB
  refine ⟨tsPre', ?_⟩
  obtain ⟨_, a1, a2, b1, b2, p0, hp0, epA, epB⟩ := hat
  have efin : fin = atSt (g ++ post) p0 := by
    obtain ⟨c, r, q⟩ := fin
    dsimp only at a1 a2 epA
    subst a1 a2 epA; rfl
  have efinB : finB = atSt (g' ++ post) p0 := by
    obtain ⟨c, r, q⟩ := finB
    dsimp only at b1 b2 epB
    subst b1 b2 epB; rfl
  rw [efin] at hA mA
  rw [efinB] at eB mB
  simp only [List.append_nil] at hA eB
  -- across the gaps
  have hA2 : tokLoop ((pre ++ (g ++ post)).length + 2) (atSt post (feed g p0)).2.1 (atSt post (feed g p0)).1
      (atSt post (feed g p0)).2.2 tsPre.reverse = .ok tA := by
    by_cases hne : g = []
    · subst hne; exact hA
    · rw [← tokLoop_across_gap hg hne]; exact hA
  have hB2 : tokLoop ((pre ++ (g' ++ post)).length + 2) (atSt post (feed g' p0)).2.1 (atSt post (feed g' p0)).1
      (atSt post (feed g' p0)).2.2 tsPre'.reverse = .ok tB := by
    rw [← tokLoop_across_gap hg' hne']; exact eB
  -- behind the gaps
  cases post with
  | nil =>
    rw [tokLoop_at_end] at hA2 hB2
    simp only [TokResult.ok.injEq, List.reverse_reverse] at hA2 hB2
    exact ⟨[], [], by simp [hA2], by simp [hB2], hrel, AllRel.nil⟩
  | cons r rs =>
    have eaA : atSt (r :: rs) (feed g p0) = (Int.ofNat r.ch, rs, step r (feed g p0)) := by
      unfold atSt; rw [next_cons_eq]; rfl
    have eaB : atSt (r :: rs) (feed g' p0) = (Int.ofNat r.ch, rs, step r (feed g' p0)) := by
      unfold atSt; rw [next_cons_eq]; rfl
    rw [eaA] at hA2
    rw [eaB] at hB2
    dsimp only at hA2 hB2
    have hbef : Before [] [] (Sh (newlines g) (newlines g')) (Int.ofNat r.ch, rs, step r (feed g p0))
        (Int.ofNat r.ch, rs, step r (feed g' p0)) :=
      ⟨rfl, sh_after_gaps g g' r p0 hp0, fun _ => ⟨rfl, rfl⟩, rs, by simp, by simp⟩
    -- the same fuel for both loops
    have mA' : rawMeasure (Int.ofNat r.ch, rs, step r (feed g p0)) < (pre ++ (g ++ r :: rs)).length + 2 := by
      have := atSt_measure (r :: rs) (feed g p0); rw [eaA] at this
      simp only [List.length_append, List.length_cons] at this ⊢; omega
    have mB' : rawMeasure (Int.ofNat r.ch, rs, step r (feed g' p0)) < (pre ++ (g' ++ r :: rs)).length + 2 := by
      have := atSt_measure (r :: rs) (feed g' p0); rw [eaB] at this
      simp only [List.length_append, List.length_cons] at this ⊢; omega
    rw [← tokLoop_fuel_ge _ _ _ _ _ mA' ((pre ++ (g' ++ r :: rs)).length + 2)] at hA2
    rw [← tokLoop_fuel_ge _ _ _ _ _ mB' ((pre ++ (g ++ r :: rs)).length + 2), Nat.add_comm] at hB2
    have hT3 : ∀ k text p q, Sh (newlines g) (newlines g') p q →
        TokSh (newlines g) (newlines g') (tokOf k text p) (tokOf k text q) :=
      fun k text p q h => ⟨rfl, rfl, sh_effLine _ _ p q h⟩
    obtain ⟨nA, nB, e1, e2, e3⟩ := phase3 (ctxSh _ _) _ hT3 _ _ _ _ _ _ _ hbef hA2 hB2
    exact ⟨nA, nB, by simpa using e1, by simpa using e2, hrel, e3⟩

/-! ### corollaries -/

theorem allRel_map {α β γ : Type} {T : α → β → Prop} (f : α → γ) (f' : β → γ) (h : ∀ a b, T a b → f a = f' b) :
    ∀ {l : List α} {l' : List β}, AllRel T l l' → l.map f = l'.map f'
  | _, _, .nil => rfl
  | _, _, .cons hab hrest => by
    simp only [List.map_cons]
    rw [h _ _ hab, allRel_map f f' h hrest]

theorem allRel_length {α β : Type} {T : α → β → Prop} : ∀ {l : List α} {l' : List β}, AllRel T l l' →
    l.length = l'.length
  | _, _, .nil => rfl
  | _, _, .cons _ hrest => by simp only [List.length_cons]; rw [allRel_length hrest]

/-- a text that does not begin with a byte-order mark: the start state is the state after its first rune -/
theorem start_atSt (x : List Rune) (h : hdCh x ≠ 0xFEFF) : start x = atSt x {} := by
  unfold start
  rw [next_eq_atSt]
  have h' : ¬ (atSt x {}).1 = 0xFEFF := h
  show (if (atSt x {}).1 = 0xFEFF then _ else _) = _
  rw [if_neg h']
  rfl

/-- **Kinds and texts** (C19): same hypotheses as `layout_main`; the `(kind, text)` lists are equal. -/
theorem layout_kinds_texts (pre g g' post : List Rune) (hg : Gap g) (hg' : Gap g') (hne' : g' ≠ [])
    (hbom : pre ≠ [] ∨ hdCh (g ++ post) ≠ 0xFEFF) {tsPre : List Token} {fin : St}
    (H : Steps (start (pre ++ (g ++ post))) tsPre fin) (hf1 : fin.1 = hdCh (g ++ post))
    (hf2 : fin.2.1 = (g ++ post).tail) {tA tB : List Token}
    (hA : tokenizeRunes (pre ++ (g ++ post)) = .ok tA) (hB : tokenizeRunes (pre ++ (g' ++ post)) = .ok tB) :
    tA.map (fun t => (t.kind, t.text)) = tB.map (fun t => (t.kind, t.text)) := by
  obtain ⟨tsPre', nA, nB, e1, e2, r1, r2⟩ := layout_main pre g g' post hg hg' hne' hbom H hf1 hf2 hA hB
  rw [e1, e2, List.map_append, List.map_append,
    allRel_map _ _ (fun a b (h : TokSame (g ++ post) a b) => by rw [h.1, h.2.1]) r1,
    allRel_map _ _ (fun a b (h : TokSh (newlines g) (newlines g') a b) => by rw [h.1, h.2.1]) r2]

/-- **A gap in front of the text** (no hypothesis about token boundaries is needed): replacing a leading gap
    by another one keeps kinds and texts and shifts every line by the difference of the newline counts. -/
theorem layout_leading_gap (g g' post : List Rune) (hg : Gap g) (hg' : Gap g') (hne : g ≠ []) (hne' : g' ≠ [])
    {tA tB : List Token} (hA : tokenizeRunes (g ++ post) = .ok tA) (hB : tokenizeRunes (g' ++ post) = .ok tB) :
    AllRel (TokSh (newlines g) (newlines g')) tA tB := by
  have hb : hdCh (g ++ post) ≠ 0xFEFF := by
    intro e
    have hs := gap_hd_stop hg hne post
    rw [e] at hs
    revert hs; decide
  have H : Steps (start ([] ++ (g ++ post))) [] (atSt (g ++ post) {}) := by
    rw [List.nil_append, start_atSt _ hb]; exact Steps.refl _
  obtain ⟨tsPre', nA, nB, e1, e2, r1, r2⟩ :=
    layout_main [] g g' post hg hg' hne' (Or.inr hb) H rfl rfl hA hB
  cases r1
  simp only [List.nil_append] at e1 e2
  rw [e1, e2]; exact r2

/-! ### kinds, texts and errors do not depend on the position bookkeeping -/

theorem step_errs (r : Rune) (p q : PState) (h : p.errs = q.errs) : (step r p).errs = (step r q).errs := by
  unfold step next
  simp only []
  split
  · simp [h]
  · split
    · simp [h]
    · split <;> exact h

theorem ctxErrs : Ctx [] [] (fun p q => p.errs = q.errs) (fun p q => p.errs = q.errs) where
  stopB := stop_hd_nil
  pr_step r p q h := step_errs r p q h
  pr_err p q h := by show p.errs + 1 = q.errs + 1; rw [h]
  pr_eof _ _ p q h := h
  cross p q h := h
  at_err p q h := by show p.errs + 1 = q.errs + 1; rw [h]

/-- two `Scan`s from states that differ only in line / column / offset bookkeeping (same look-ahead, same
    unread runes, same error count): the same token (kind and text), the same look-ahead and unread runes
    afterwards, the same error count -/
theorem scan_bookkeeping_independent (f : Nat) (rest : List Rune) (ch : Int) (p q : PState)
    (he : p.errs = q.errs) :
    (scan f rest ch p).1 = (scan f rest ch q).1 ∧ (scan f rest ch p).2.1 = (scan f rest ch q).2.1 ∧
    (scan f rest ch p).2.2.1 = (scan f rest ch q).2.2.1 ∧
    (scan f rest ch p).2.2.2.errs = (scan f rest ch q).2.2.2.errs := by
  have hb : Before [] [] (fun p q : PState => p.errs = q.errs) (ch, rest, p) (ch, rest, q) :=
    ⟨rfl, he, fun _ => ⟨rfl, rfl⟩, rest, by simp, by simp⟩
  rcases scan_sim_eq ctxErrs f _ _ hb with ⟨hns, _⟩ | ⟨h1, hl⟩
  · exact absurd ⟨rfl, rfl⟩ hns
  · rcases hl with hb' | ha
    · obtain ⟨e1, e2, _, u, e3, e4⟩ := hb'
      simp only [List.append_nil] at e3 e4
      exact ⟨h1, e1, by rw [e3, e4], e2⟩
    · exact absurd ⟨rfl, rfl⟩ ha.1

/-- the statement without a hypothesis on `pre` is false: a "gap" inside a string literal is part of the token -/
theorem gap_inside_string_counterexample :
    ∃ pre g g' post : List Rune, Gap g ∧ Gap g' ∧ g ≠ [] ∧ g' ≠ [] ∧
      ∃ toks toks', tokenizeRunes (pre ++ g ++ post) = .ok toks ∧ tokenizeRunes (pre ++ g' ++ post) = .ok toks' ∧
        toks.map (fun t => (t.kind, t.text)) ≠ toks'.map (fun t => (t.kind, t.text)) := by
  refine ⟨[⟨34, 1, false⟩, ⟨97, 1, false⟩], [⟨32, 1, false⟩], [⟨32, 1, false⟩, ⟨32, 1, false⟩], [⟨34, 1, false⟩],
    Gap.white (show isWhite 32 = true by decide) Gap.nil,
    Gap.white (show isWhite 32 = true by decide) (Gap.white (show isWhite 32 = true by decide) Gap.nil),
    by simp, by simp, ?_⟩
  refine ⟨_, _, rfl, rfl, ?_⟩
  decide

end LispModel.Proofs.LayoutFull

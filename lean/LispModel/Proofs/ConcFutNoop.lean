/-
  C10 proofs, part 14: a future that completed without having been cancelled stays that way
  (`future-cancel` on it is a no-op), and what the responses of `future-cancel` tell.
-/
import LispModel.Proofs.ConcFutCancel
namespace LispModel.Proofs.ConcFut
open LispModel.Conc LispModel.Conc.Fut

theorem execF_cancelled_same {o arm ce m fr F fr' F'} (h : execF o arm ce m fr F = some (fr', F')) :
    (m ≠ .write .cancelled → F'.cancelled = F.cancelled) ∧ (m ≠ .cancelCtx → F'.ctxCancelled = F.ctxCancelled) := by
  by_cases hq : isFlagWrite m = true
  · cases m with
    | write l => cases l <;> simp [execF] at h <;> (obtain ⟨-, h3⟩ := h; subst h3; simp)
    | cancelCtx => simp [execF] at h; obtain ⟨-, h3⟩ := h; subst h3; simp
    | _ => simp [isFlagWrite] at hq
  · obtain ⟨-, h2, h3⟩ := execF_flags_same h (by simpa using hq)
    exact ⟨fun _ => h2, fun _ => h3⟩

def cwEntry (n : OpName) (pc : Nat) (m : MOp) : Bool :=
  ((m == .write .cancelled) → (n == .cancel && pc == 3)) && ((m == .cancelCtx) → (n == .cancel && pc == 5))

theorem cwTable_true : forAllFOps cwEntry = true := by decide

/-- a frame step that changes `Cancelled` or the context is `future-cancel` in its write section -/
theorem frameStep_cancelled {o arm ce fr F r F'} (hwf : FFrameWF fr) (hn : fr.name ∈ futNames)
    (hk : FrameStep prog o arm ce fr F (r, F')) :
    (F'.cancelled = F.cancelled ∧ F'.ctxCancelled = F.ctxCancelled) ∨
    (fr.name = .cancel ∧ fr.returning = false ∧ (fr.pc = 3 ∨ fr.pc = 5)) := by
  cases hk with
  | mop m fr' F' hnr hm hex =>
    obtain ⟨e1, e2⟩ := execF_cancelled_same hex
    unfold FFrameWF at hwf
    simp only [hnr] at hwf
    obtain ⟨m', hm', htab⟩ := forAllFOps_spec cwTable_true hn hwf.1
    rw [hm] at hm'; cases hm'
    simp only [cwEntry, Bool.and_eq_true, decide_eq_true_eq, beq_iff_eq] at htab
    by_cases h1 : m = .write .cancelled
    · exact Or.inr ⟨(htab.1 h1).1, hnr, Or.inl (htab.1 h1).2⟩
    · by_cases h2 : m = .cancelCtx
      · exact Or.inr ⟨(htab.2 h2).1, hnr, Or.inr (htab.2 h2).2⟩
      · exact Or.inl ⟨e1 h1, e2 h2⟩
  | defer d ds fr1 F' hr hd hex =>
    left
    unfold FFrameWF at hwf
    simp only [hr, if_true] at hwf
    rcases hwf with h | ⟨h, -⟩
    · rw [hd] at h; cases h
    · rw [hd] at h
      simp only [futNames, clientNames, List.mem_cons, List.not_mem_nil, or_false] at hn
      rcases hn with hn | hn | hn | hn | hn <;> rw [hn] at h <;> simp only [defersAtF] at h <;>
        first
        | (cases h; done)
        | (split at h
           · cases h; simp [execF] at hex; obtain ⟨-, h3⟩ := hex; subst h3; exact ⟨rfl, rfl⟩
           · cases h)
  | ret hr hd => exact Or.inl ⟨rfl, rfl⟩

/-- a future that is done and not cancelled stays done and not cancelled, and its context is left
    alone, whatever anybody does (in particular `future-cancel`) -/
theorem completed_uncancelled_stable {s s' : FState} {l : Label} {f : Nat} (hM : MuInv s) (hC : CancelInv s)
    (hd : (s.futs f).done = true) (hnc : (s.futs f).cancelled = false)
    (hs : fstep prog s l = some s') :
    (s'.futs f).done = true ∧ (s'.futs f).cancelled = false ∧
    (s'.futs f).ctxCancelled = (s.futs f).ctxCancelled := by
  refine ⟨(flags_monotone_step hs f).1 hd, ?_⟩
  have hk := fstep_kind hs
  -- only a `future-cancel` frame in its write section changes these; there Done would be false
  have key : ∀ (t : Nat) (fr : FFrame), (s.threads t).cur = some fr → fr.fut = f →
      (fr.name = .cancel ∧ fr.returning = false ∧ (fr.pc = 3 ∨ fr.pc = 5)) → False := by
    rintro t fr hc hf ⟨hn, hnr, hp⟩
    have := hC t fr hc hn
    unfold CancelOK at this
    simp only [hnr, Bool.false_eq_true, if_false] at this
    obtain ⟨-, b, -, d, -⟩ := this
    rw [hf] at b d
    rcases hp with hp | hp
    · rw [b hp] at hd; cases hd
    · rw [(d hp).1] at hnc; cases hnc
  cases hk with
  | endCtx t => exact ⟨hnc, by first | rfl | trivial⟩
  | start t arm op more hc htd => exact ⟨hnc, by first | rfl | trivial⟩
  | bodyStep g fr fr' F' hb hk =>
    by_cases hg : f = g
    · subst hg
      obtain ⟨hwf, hok⟩ := hM.wf (.body f) fr hb
      rcases frameStep_cancelled hwf hok.names hk with ⟨h1, h2⟩ | ⟨h1, -⟩
      · simp only [upd, if_true]; rw [h1, h2]; exact ⟨hnc, by first | rfl | trivial⟩
      · rw [hok.1] at h1; cases h1
    · simp only [upd, hg, if_false]; exact ⟨hnc, by first | rfl | trivial⟩
  | bodyRet g fr fr' F' hb hk =>
    by_cases hg : f = g
    · subst hg
      cases hk with
      | ret hr hd' => simp only [upd, if_true]; exact ⟨hnc, by first | rfl | trivial⟩
    · simp only [upd, hg, if_false]; exact ⟨hnc, by first | rfl | trivial⟩
  | thrStep t arm fr fr' F' hc hk =>
    by_cases hg : f = fr.fut
    · obtain ⟨hwf, hok⟩ := hM.wf (.thr t) fr hc
      rcases frameStep_cancelled hwf hok.names hk with ⟨h1, h2⟩ | h1
      · subst hg; simp only [upd, if_true]; rw [h1, h2]; exact ⟨hnc, by first | rfl | trivial⟩
      · exact absurd h1 (key t fr hc hg.symm)
    · simp only [upd, hg, if_false]; exact ⟨hnc, by first | rfl | trivial⟩
  | thrRet t arm fr fr' F' hc hk =>
    by_cases hg : f = fr.fut
    · subst hg
      cases hk with
      | ret hr hd' => simp only [upd, if_true]; exact ⟨hnc, by first | rfl | trivial⟩
    · simp only [upd, hg, if_false]; exact ⟨hnc, by first | rfl | trivial⟩

/-- what a returned `future-cancel` tells: the future is done; if it answered true the future is cancelled -/
def RespInv (s : FState) : Prop :=
  ∀ t f b, (OpName.cancel, f, Resp.flag b) ∈ (s.threads t).out →
    (s.futs f).done = true ∧ (b = true → (s.futs f).cancelled = true)

theorem RespInv.step {s s' : FState} {l : Label} (h : RespInv s) (hC : CancelInv s)
    (hs : fstep prog s l = some s') : RespInv s' := by
  intro t f b hm
  have hle := flags_monotone_step hs f
  have old : (OpName.cancel, f, Resp.flag b) ∈ (s.threads t).out →
      (s'.futs f).done = true ∧ (b = true → (s'.futs f).cancelled = true) := by
    intro hm0
    obtain ⟨a, c⟩ := h t f b hm0
    exact ⟨hle.1 a, fun hb => hle.2.1 (c hb)⟩
  have hk := fstep_kind hs
  cases hk with
  | endCtx u =>
    apply old
    by_cases ht : t = u
    · subst ht; simpa [upd] using hm
    · simpa [upd, ht] using hm
  | start u arm op more hc htd =>
    apply old
    by_cases ht : t = u
    · subst ht; simpa [upd] using hm
    · simpa [upd, ht] using hm
  | bodyStep g fr fr' F' hb hk => exact old hm
  | bodyRet g fr fr' F' hb hk => exact old hm
  | thrStep u arm fr fr' F' hc hk =>
    apply old
    by_cases ht : t = u
    · subst ht; simpa [upd] using hm
    · simpa [upd, ht] using hm
  | thrRet u arm fr fr' F' hc hk =>
    by_cases ht : t = u
    · subst ht
      simp only [upd, if_true, List.mem_append, List.mem_singleton, Prod.mk.injEq] at hm
      rcases hm with hm | ⟨h1, h2, h3⟩
      · exact old hm
      · cases hk with
        | ret hr hd =>
          have hok := hC t fr hc h1.symm
          unfold CancelOK at hok
          simp only [hr, if_true] at hok
          obtain ⟨-, o2, o3⟩ := hok
          have hb : fr.flag = b := by
            unfold FFrame.resp at h3
            rw [← h1] at h3
            simp at h3
            exact h3.symm
          subst h2
          simp only [upd, if_true]
          exact ⟨o3, fun hbt => o2 (by rw [hb]; exact hbt)⟩
    · apply old; simpa [upd, ht] using hm

theorem RespInv.init (kinds : List BodyKind) (progs : List (List FOp)) : RespInv (finit kinds progs) := by
  intro t f b hm; simp [finit] at hm

end LispModel.Proofs.ConcFut

/-
  Helper lemmas for C15 (placeholders and the preamble transport): the `$name` branch of
  `readForm`, `strings.Cut` + `strings.Trim` on a well-formed line, the preamble regular expression
  on `;; $name <value>`, and the loop of `READWithPreamble`.
  Core Lean only; every proof is kernel-checked (no `sorry`, no `native_decide`).
-/
import LispModel.Preamble
namespace LispModel.Proofs.Preamble
open LispModel LispModel.Read LispModel.Scan LispModel.Preamble

theorem ofList_cons_ne (c : Char) (l : List Char) (s : String)
    (h : s.toList.head? ≠ some c) : String.ofList (c :: l) ≠ s := by
  intro e
  subst e
  simp at h

theorem tokStr_of_head (t : Token) (b : Nat) (h : t.text.head? = some b) :
    ∃ l, tokStr t = String.ofList (Char.ofNat b :: l) := by
  cases ht : t.text with
  | nil => simp [ht] at h
  | cons a tl =>
    simp [ht] at h
    subst h
    exact ⟨tl.map Char.ofNat, by simp [tokStr, strOf, ht]⟩

/-- a spelling whose first character is neither a bracket nor a reader-macro character goes through
    all the string comparisons of `readForm` -/
theorem readForm_plain (fuel : Nat) (cfg : Cfg) (t : Token) (rest : List Token) (c : Char)
    (l : List Char) (hs : tokStr t = String.ofList (c :: l))
    (hc : c ≠ '\'' ∧ c ≠ '`' ∧ c ≠ '~' ∧ c ≠ '@' ∧ c ≠ '^' ∧ c ≠ ')' ∧ c ≠ ']' ∧ c ≠ '}' ∧
          c ≠ '(' ∧ c ≠ '[' ∧ c ≠ '{' ∧ c ≠ '#' ∧ c ≠ '«') :
    readForm (fuel + 1) cfg (t :: rest) =
      if t.text.head? = some 36 then
        match cfg.phs with
        | none => .ok (.sym (tokStr t) (some (tokPos cfg t)), rest)
        | some m => .ok ((alookup (tokStr t) m).getD .nil, rest)
      else
        match readAtom cfg t with
        | .error e => .error e
        | .ok v => .ok (v, rest) := by
  obtain ⟨h1, h2, h3, h4, h5, h6, h7, h8, h9, h10, h11, h12, h13⟩ := hc
  have ne : ∀ s : String, s.toList.head? ≠ some c → tokStr t ≠ s := by
    intro s h; rw [hs]; exact ofList_cons_ne c l s h
  have e1 : tokStr t ≠ "'" := ne _ (by simpa using Ne.symm h1)
  have e2 : tokStr t ≠ "`" := ne _ (by simpa using Ne.symm h2)
  have e3 : tokStr t ≠ "~" := ne _ (by simpa using Ne.symm h3)
  have e3' : tokStr t ≠ "~@" := ne _ (by simpa using Ne.symm h3)
  have e4 : tokStr t ≠ "@" := ne _ (by simpa using Ne.symm h4)
  have e5 : tokStr t ≠ "^" := ne _ (by simpa using Ne.symm h5)
  have e6 : tokStr t ≠ ")" := ne _ (by simpa using Ne.symm h6)
  have e7 : tokStr t ≠ "]" := ne _ (by simpa using Ne.symm h7)
  have e8 : tokStr t ≠ "}" := ne _ (by simpa using Ne.symm h8)
  have e9 : tokStr t ≠ "(" := ne _ (by simpa using Ne.symm h9)
  have e10 : tokStr t ≠ "[" := ne _ (by simpa using Ne.symm h10)
  have e11 : tokStr t ≠ "{" := ne _ (by simpa using Ne.symm h11)
  have e12 : tokStr t ≠ "#{" := ne _ (by simpa using Ne.symm h12)
  have e13 : tokStr t ≠ "«" := ne _ (by simpa using Ne.symm h13)
  have hl : List.lookup (tokStr t) readerMacros = none := by
    have b1 := beq_eq_false_iff_ne.mpr e1
    have b2 := beq_eq_false_iff_ne.mpr e2
    have b3 := beq_eq_false_iff_ne.mpr e3
    have b3' := beq_eq_false_iff_ne.mpr e3'
    have b4 := beq_eq_false_iff_ne.mpr e4
    simp only [readerMacros, List.lookup, b1, b2, b3, b3', b4]
  rw [readForm.eq_3, hl]
  simp only [e5, e6, e7, e8, e9, e10, e11, e12, e13, if_false]
  rfl

theorem placeholder_inserted_as_data (cfg : Cfg) (fuel : Nat) (t : Token) (rest : List Token)
    (m : List (String × Val)) (v : Val)
    (ht : t.text.head? = some 36) (hm : cfg.phs = some m) (hv : alookup (tokStr t) m = some v) :
    readForm (fuel + 1) cfg (t :: rest) = .ok (v, rest) := by
  obtain ⟨l, hl⟩ := tokStr_of_head t 36 ht
  rw [readForm_plain fuel cfg t rest (Char.ofNat 36) l hl (by decide)]
  simp [ht, hm, hv]

theorem missing_placeholder_is_nil (cfg : Cfg) (fuel : Nat) (t : Token) (rest : List Token)
    (m : List (String × Val))
    (ht : t.text.head? = some 36) (hm : cfg.phs = some m) (hv : alookup (tokStr t) m = none) :
    readForm (fuel + 1) cfg (t :: rest) = .ok (.nil, rest) := by
  obtain ⟨l, hl⟩ := tokStr_of_head t 36 ht
  rw [readForm_plain fuel cfg t rest (Char.ofNat 36) l hl (by decide)]
  simp [ht, hm, hv]

theorem placeholder_in_string_untouched (cfg : Cfg) (fuel : Nat) (t : Token) (rest : List Token)
    (_hk : t.kind = .string) (hq : t.text.head? = some 34) :
    readForm (fuel + 1) cfg (t :: rest) = (readAtom cfg t).map (fun v => (v, rest)) := by
  obtain ⟨l, hl⟩ := tokStr_of_head t 34 hq
  rw [readForm_plain fuel cfg t rest (Char.ofNat 34) l hl (by decide)]
  simp only [hq, Option.some.injEq, Nat.reduceEqDiff, if_false]
  cases readAtom cfg t <;> rfl

/-! ### line splitting -/

theorem cutLine_append (line rest : List UInt8) (hnl : (10 : UInt8) ∉ line) :
    cutLine (line ++ 10 :: rest) = (line, rest) := by
  induction line with
  | nil => simp [cutLine]
  | cons b l ih =>
    have hb : b ≠ 10 := fun h => hnl (by simp [h])
    have hl : (10 : UInt8) ∉ l := fun h => hnl (by simp [h])
    simp [cutLine, hb, ih hl]

theorem dropWhile_of_head {α} (p : α → Bool) (l : List α)
    (h : ∀ b, l.head? = some b → p b = false) : l.dropWhile p = l := by
  cases l with
  | nil => rfl
  | cons a r => simp [List.dropWhile, h a rfl]

theorem getLast?_append_ne {α} (l₁ l₂ : List α) (h : l₂ ≠ []) :
    (l₁ ++ l₂).getLast? = l₂.getLast? := by
  rw [List.getLast?_append]
  cases h' : l₂.getLast? with
  | none => exact absurd (List.getLast?_eq_none_iff.mp h') h
  | some a => rfl

theorem trim_id (line : List UInt8)
    (hf : ∀ b, line.head? = some b → isTrimByte b = false)
    (hl : ∀ b, line.getLast? = some b → isTrimByte b = false) : trim line = line := by
  unfold trim
  rw [dropWhile_of_head _ _ hf, dropWhile_of_head _ line.reverse (by simpa using hl)]
  simp

theorem cut_trim_line (line rest : List UInt8) (hnl : (10 : UInt8) ∉ line)
    (hf : ∀ b, line.head? = some b → isTrimByte b = false)
    (hl : ∀ b, line.getLast? = some b → isTrimByte b = false) :
    cutLine (line ++ 10 :: rest) = (line, rest) ∧ trim line = line :=
  ⟨cutLine_append line rest hnl, trim_id line hf hl⟩

/-! ### the regular expression -/

theorem takeWhile_name (name value : List UInt8) (hn : ∀ b ∈ name, isNameByte b = true) :
    (name ++ 32 :: value).takeWhile isNameByte = name ∧
    (name ++ 32 :: value).dropWhile isNameByte = 32 :: value := by
  induction name with
  | nil => exact ⟨by simp [isNameByte], by simp [isNameByte]⟩
  | cons b l ih =>
    have hb := hn b (by simp)
    have := ih (fun x hx => hn x (by simp [hx]))
    simp [hb, this]

theorem matchGroups_line (fuel : Nat) (name value : List UInt8) (hne : name ≠ [])
    (hn : ∀ b ∈ name, isNameByte b = true) :
    matchGroups (fuel + 2) (prefixBytes ++ name ++ [32] ++ value) = some (name, 32 :: value) := by
  obtain ⟨h1, h2⟩ := takeWhile_name name value hn
  have e : prefixBytes ++ name ++ [32] ++ value = 59 :: 59 :: 32 :: 36 :: (name ++ 32 :: value) := by
    simp [prefixBytes]
  have hp : prefixBytes.isPrefixOf (59 :: 59 :: 32 :: 36 :: (name ++ 32 :: value)) = true := by
    simp [prefixBytes, List.isPrefixOf]
  have hq : prefixBytes.isPrefixOf (32 :: value) = false := by
    simp [prefixBytes, List.isPrefixOf]
  have hemp : name.isEmpty = false := by
    cases name with
    | nil => exact absurd rfl hne
    | cons _ _ => rfl
  rw [e, matchGroups, if_pos hp]
  simp only [List.drop_succ_cons, List.drop_zero, h1, h2, hemp]
  simp [matchGroups, hq]

theorem preamble_line_parses (name value : List UInt8)
    (hn : name ≠ [] ∧ ∀ b ∈ name, isNameByte b = true) (hv : value ≠ []) :
    matchLine (prefixBytes ++ name ++ [32] ++ value) = some (name, value) := by
  have hlen : (prefixBytes ++ name ++ [32] ++ value).length + 1 = (name.length + value.length + 4) + 2 := by
    simp [prefixBytes]; omega
  unfold matchLine
  rw [hlen, matchGroups_line _ name value hn.1 hn.2]
  cases value with
  | nil => exact absurd rfl hv
  | cons v vs => simp [isReSpace]

/-! ### the loop of `READWithPreamble` -/

/-- the blank line ends the preamble: the rest is read with the table collected so far -/
theorem aux_blank (cfg : Cfg) (fuel : Nat) (src : List UInt8) (phs : List (String × Val)) :
    readWithPreambleAux cfg (fuel + 1) (10 :: src) phs =
      (match readStr { cfg with phs := some phs } src with
       | .ok r => .ok r
       | .error e => .err e) := by
  simp only [readWithPreambleAux, cutLine, trim, if_pos, List.dropWhile_nil, List.reverse_nil,
    List.isEmpty_nil]
  rfl

/-- one well-formed preamble line adds one entry to the table -/
theorem aux_step (cfg : Cfg) (fuel : Nat) (name text rest : List UInt8) (v' : Val)
    (phs : List (String × Val))
    (hn : name ≠ [] ∧ ∀ b ∈ name, isNameByte b = true)
    (hne : text ≠ []) (hnl : (10 : UInt8) ∉ text)
    (hl : ∀ b, text.getLast? = some b → isTrimByte b = false)
    (hread : readStr { cfg with phs := none, module := none } text = .ok v') :
    readWithPreambleAux cfg (fuel + 1) (prefixBytes ++ name ++ [32] ++ text ++ [10] ++ rest) phs =
      readWithPreambleAux cfg fuel rest (ainsert ("$" ++ bytesToString name) v' phs) := by
  have hnl' : (10 : UInt8) ∉ prefixBytes ++ name ++ [32] ++ text := by
    simp only [List.mem_append, not_or]
    refine ⟨⟨⟨by decide, ?_⟩, by decide⟩, hnl⟩
    intro h
    have := hn.2 _ h
    simp [isNameByte] at this
  have hcut := cutLine_append _ rest hnl'
  have htrim : trim (prefixBytes ++ name ++ [32] ++ text) = prefixBytes ++ name ++ [32] ++ text := by
    apply trim_id
    · intro b hb
      simp [prefixBytes] at hb
      subst hb
      decide
    · intro b hb
      rw [getLast?_append_ne _ _ hne] at hb
      exact hl b hb
  have hpre : prefixBytes.isPrefixOf (prefixBytes ++ name ++ [32] ++ text) = true := by
    simp [prefixBytes, List.isPrefixOf]
  have hemp : (prefixBytes ++ name ++ [32] ++ text).isEmpty = false := by
    simp [prefixBytes]
  have hcut' : cutLine (prefixBytes ++ name ++ [32] ++ text ++ [10] ++ rest) =
      (prefixBytes ++ name ++ [32] ++ text, rest) := by
    rw [← hcut]; simp
  rw [readWithPreambleAux, hcut']
  simp only [htrim, hemp, hpre, preamble_line_parses name text hn hne, hread]
  simp

theorem transport_one (cfg : Cfg) (name : List UInt8) (v v' : Val) (src : List UInt8)
    (hn : name ≠ [] ∧ ∀ b ∈ name, isNameByte b = true)
    (text : List UInt8) (_htext : text = (String.ofList (Print.print v)).toUTF8.toList)
    (hne : text ≠ []) (hnl : (10 : UInt8) ∉ text)
    (_hf : ∀ b, text.head? = some b → isTrimByte b = false)
    (hl : ∀ b, text.getLast? = some b → isTrimByte b = false)
    (hread : readStr { cfg with phs := none, module := none } text = .ok v') :
    readWithPreamble cfg (prefixBytes ++ name ++ [32] ++ text ++ [10] ++ [10] ++ src) =
      (match readStr { cfg with phs := some [("$" ++ bytesToString name, v')] } src with
       | .ok r => .ok r
       | .error e => .err e) := by
  unfold readWithPreamble
  have e : prefixBytes ++ name ++ [32] ++ text ++ [10] ++ [10] ++ src =
      prefixBytes ++ name ++ [32] ++ text ++ [10] ++ (10 :: src) := by simp
  rw [e, aux_step cfg _ name text (10 :: src) v' [] hn hne hnl hl hread]
  have hlen : (prefixBytes ++ name ++ [32] ++ text ++ [10] ++ (10 :: src)).length + 1 =
      (name.length + text.length + src.length + 7) + 1 := by
    simp [prefixBytes]; omega
  rw [hlen, aux_blank]
  rfl

/-! ### several placeholders -/

/-- one entry of a preamble: name (without the `$`), value, the value as re-read, the printed text -/
abbrev Entry := List UInt8 × Val × Val × List UInt8

/-- the line `;; $name <text>\n` -/
def entryLine (e : Entry) : List UInt8 := prefixBytes ++ e.1 ++ [32] ++ e.2.2.2 ++ [10]

def preambleLines (phs : List Entry) : List UInt8 := (phs.map entryLine).flatten

/-- the table `READWithPreamble` builds, entry after entry, starting from `acc` -/
def tableFrom (acc : List (String × Val)) (phs : List Entry) : List (String × Val) :=
  phs.foldl (fun m e => ainsert ("$" ++ bytesToString e.1) e.2.2.1 m) acc

def tableOf (phs : List Entry) : List (String × Val) := tableFrom [] phs

/-- the hypotheses of `transport_one` on one entry -/
def EntryOK (cfg : Cfg) (e : Entry) : Prop :=
  (e.1 ≠ [] ∧ ∀ b ∈ e.1, isNameByte b = true) ∧
  e.2.2.2 = (String.ofList (Print.print e.2.1)).toUTF8.toList ∧
  e.2.2.2 ≠ [] ∧ (10 : UInt8) ∉ e.2.2.2 ∧
  (∀ b, e.2.2.2.head? = some b → isTrimByte b = false) ∧
  (∀ b, e.2.2.2.getLast? = some b → isTrimByte b = false) ∧
  readStr { cfg with phs := none, module := none } e.2.2.2 = .ok e.2.2.1

theorem aux_many (cfg : Cfg) (phs : List Entry) (k : Nat) (rest : List UInt8)
    (acc : List (String × Val)) (hok : ∀ e ∈ phs, EntryOK cfg e) :
    readWithPreambleAux cfg (phs.length + k) (preambleLines phs ++ rest) acc =
      readWithPreambleAux cfg k rest (tableFrom acc phs) := by
  induction phs generalizing acc with
  | nil => simp [preambleLines, tableFrom]
  | cons e es ih =>
    obtain ⟨hn, _, hne, hnl, _, hl, hread⟩ := hok e (by simp)
    have e1 : preambleLines (e :: es) ++ rest =
        prefixBytes ++ e.1 ++ [32] ++ e.2.2.2 ++ [10] ++ (preambleLines es ++ rest) := by
      simp [preambleLines, entryLine]
    have e2 : (e :: es).length + k = (es.length + k) + 1 := by simp; omega
    rw [e1, e2, aux_step cfg _ e.1 e.2.2.2 _ e.2.2.1 acc hn hne hnl hl hread,
      ih _ (fun x hx => hok x (by simp [hx]))]
    rfl

theorem length_le_preambleLines (phs : List Entry) : phs.length ≤ (preambleLines phs).length := by
  induction phs with
  | nil => simp
  | cons e es ih =>
    have : preambleLines (e :: es) = entryLine e ++ preambleLines es := by simp [preambleLines]
    rw [this]
    simp [entryLine]
    omega

theorem transport_many (cfg : Cfg) (phs : List Entry) (src : List UInt8)
    (hok : ∀ e ∈ phs, EntryOK cfg e) :
    readWithPreamble cfg (preambleLines phs ++ [10] ++ src) =
      (match readStr { cfg with phs := some (tableOf phs) } src with
       | .ok r => .ok r
       | .error e => .err e) := by
  unfold readWithPreamble
  have hlen := length_le_preambleLines phs
  obtain ⟨k, hk⟩ : ∃ k, (preambleLines phs ++ [10] ++ src).length + 2 = phs.length + (k + 1) :=
    ⟨(preambleLines phs ++ [10] ++ src).length + 1 - phs.length, by simp; omega⟩
  rw [hk, List.append_assoc, aux_many cfg phs (k + 1) _ [] hok]
  exact aux_blank cfg k src _

/-! ### pairwise different names: the table is the list of entries -/

theorem nameByte_ascii (b : UInt8) (h : isNameByte b = true) : b.toNat < 128 := by
  simp only [isNameByte, Bool.or_eq_true, Bool.and_eq_true, decide_eq_true_eq,
    UInt8.le_iff_toNat_le, ← UInt8.toNat_inj] at h
  simp at h
  omega

theorem toNat_ofNat_small (n : Nat) (h : n < 256) : (Char.ofNat n).toNat = n := by
  have hv : n.isValidChar := by simp [Nat.isValidChar]; omega
  simp [Char.ofNat, hv, Char.ofNatAux, Char.toNat]

theorem decodeAllAux_ascii (l : List UInt8) (h : ∀ b ∈ l, b.toNat < 128) (fuel : Nat)
    (hf : l.length ≤ fuel) :
    decodeAllAux fuel l = l.map (fun b => ⟨b.toNat, 1, false⟩) := by
  induction l generalizing fuel with
  | nil => cases fuel <;> simp [decodeAllAux, decodeRune]
  | cons b r ih =>
    cases fuel with
    | zero => simp at hf
    | succ f =>
      have hb := h b (by simp)
      simp only [decodeAllAux, decodeRune, hb, if_true, List.map_cons]
      rw [ih (fun x hx => h x (by simp [hx])) f (by simpa using hf)]

theorem bytesToString_ascii (l : List UInt8) (h : ∀ b ∈ l, b.toNat < 128) :
    bytesToString l = String.ofList (l.map (fun b => Char.ofNat b.toNat)) := by
  simp [bytesToString, strOf, decodeAll, decodeAllAux_ascii l h l.length (Nat.le_refl _),
    Function.comp_def]

theorem map_ofNat_inj (l₁ l₂ : List UInt8)
    (h : l₁.map (fun b => Char.ofNat b.toNat) = l₂.map (fun b => Char.ofNat b.toNat)) : l₁ = l₂ := by
  induction l₁ generalizing l₂ with
  | nil => cases l₂ <;> simp_all
  | cons a r ih =>
    cases l₂ with
    | nil => simp at h
    | cons b s =>
      simp only [List.map_cons, List.cons.injEq] at h
      have := congrArg Char.toNat h.1
      rw [toNat_ofNat_small _ a.toNat_lt, toNat_ofNat_small _ b.toNat_lt] at this
      rw [UInt8.toNat_inj.mp this, ih s h.2]

/-- different names give different table keys -/
theorem key_inj (n₁ n₂ : List UInt8) (h₁ : ∀ b ∈ n₁, isNameByte b = true)
    (h₂ : ∀ b ∈ n₂, isNameByte b = true)
    (h : "$" ++ bytesToString n₁ = "$" ++ bytesToString n₂) : n₁ = n₂ := by
  rw [bytesToString_ascii n₁ (fun b hb => nameByte_ascii b (h₁ b hb)),
    bytesToString_ascii n₂ (fun b hb => nameByte_ascii b (h₂ b hb))] at h
  have := congrArg String.toList h
  simp only [String.toList_append, String.toList_ofList, List.append_cancel_left_eq] at this
  exact map_ofNat_inj _ _ this

theorem ainsert_fresh {α} (k : String) (v : α) (m : List (String × α)) (h : ∀ p ∈ m, p.1 ≠ k) :
    ainsert k v m = m ++ [(k, v)] := by
  induction m with
  | nil => rfl
  | cons p r ih =>
    obtain ⟨k', v'⟩ := p
    have hk : k' ≠ k := h (k', v') (by simp)
    simp [ainsert, hk, ih (fun q hq => h q (by simp [hq]))]

theorem foldl_ainsert_distinct {β} (key : β → String) (val : β → Val) (acc : List (String × Val))
    (l : List β) (hacc : ∀ p ∈ acc, ∀ e ∈ l, p.1 ≠ key e)
    (hpw : l.Pairwise (fun a b => key a ≠ key b)) :
    l.foldl (fun m e => ainsert (key e) (val e) m) acc = acc ++ l.map (fun e => (key e, val e)) := by
  induction l generalizing acc with
  | nil => simp
  | cons e es ih =>
    rw [List.pairwise_cons] at hpw
    rw [List.foldl_cons, ainsert_fresh _ _ _ (fun p hp => hacc p hp e (by simp)), ih]
    · simp
    · intro p hp x hx
      rcases List.mem_append.mp hp with hp | hp
      · exact hacc p hp x (by simp [hx])
      · simp at hp; subst hp; exact hpw.1 x hx
    · exact hpw.2

theorem tableOf_distinct (phs : List Entry) (hn : ∀ e ∈ phs, ∀ b ∈ e.1, isNameByte b = true)
    (hpw : phs.Pairwise (fun a b => a.1 ≠ b.1)) :
    tableOf phs = phs.map (fun e => ("$" ++ bytesToString e.1, e.2.2.1)) := by
  unfold tableOf tableFrom
  rw [foldl_ainsert_distinct (fun e : Entry => "$" ++ bytesToString e.1) (fun e => e.2.2.1) [] phs
    (by simp)]
  · simp
  · refine List.Pairwise.imp_of_mem ?_ hpw
    intro a b ha hb hab h
    exact hab (key_inj a.1 b.1 (hn a ha) (hn b hb) h)

/-! ### concrete texts: `String.toUTF8` of a character list, for `decide`-checked examples -/

theorem byteArray_toList_loop (bs : ByteArray) (i : Nat) (r : List UInt8) :
    ByteArray.toList.loop bs i r = r.reverse ++ bs.data.toList.drop i := by
  have hs : bs.size = bs.data.toList.length := by cases bs; exact (Array.length_toList).symm
  fun_induction ByteArray.toList.loop bs i r with
  | case1 i r h ih =>
    rw [ih]
    have h' : i < bs.data.toList.length := by omega
    rw [List.drop_eq_getElem_cons h']
    have : bs.get! i = bs.data.toList[i] := by
      cases bs with
      | mk d =>
        simp only [ByteArray.get!]
        simp at h'
        simp [h']
    simp [this]
  | case2 i r h =>
    have h' : bs.data.toList.length ≤ i := by omega
    simp [List.drop_eq_nil_of_le h']

theorem byteArray_toList (bs : ByteArray) : bs.toList = bs.data.toList := by
  simp [ByteArray.toList, byteArray_toList_loop]

/-- the UTF-8 bytes of a string given by its characters, in a form the kernel can evaluate -/
theorem toUTF8_ofList (l : List Char) :
    (String.ofList l).toUTF8.toList = l.flatMap String.utf8EncodeChar := by
  simp [String.toUTF8, String.toByteArray_ofList, List.utf8Encode, byteArray_toList]

end LispModel.Proofs.Preamble

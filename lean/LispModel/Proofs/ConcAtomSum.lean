/-
  C09 proofs, part 14: adding up the installs of all threads.
-/
import LispModel.Proofs.ConcAtomCount
namespace LispModel.Proofs.ConcAtom
open LispModel.Conc

def sumTo (n : Nat) (f : Nat → Nat) : Nat := ((List.range n).map f).sum

theorem sumTo_succ (n : Nat) (f : Nat → Nat) : sumTo (n + 1) f = sumTo n f + f n := by
  simp [sumTo, List.range_succ]

theorem sumTo_add (n : Nat) (f g : Nat → Nat) : sumTo n (fun t => f t + g t) = sumTo n f + sumTo n g := by
  induction n with
  | zero => simp [sumTo]
  | succ n ih => simp only [sumTo_succ, ih]; omega

theorem sumTo_congr {n : Nat} {f g : Nat → Nat} (h : ∀ t, t < n → f t = g t) : sumTo n f = sumTo n g := by
  induction n with
  | zero => simp [sumTo]
  | succ n ih =>
    simp only [sumTo_succ]
    rw [ih (fun t ht => h t (by omega)), h n (by omega)]

theorem sumTo_indicator (n u : Nat) (hu : u < n) (P : Prop) [Decidable P] :
    sumTo n (fun t => if u = t ∧ P then 1 else 0) = if P then 1 else 0 := by
  induction n with
  | zero => omega
  | succ n ih =>
    simp only [sumTo_succ]
    by_cases hun : u = n
    · subst hun
      have : sumTo u (fun t => if u = t ∧ P then 1 else 0) = 0 := by
        rw [sumTo_congr (g := fun _ => 0)]
        · clear ih; induction u with
          | zero => simp [sumTo]
          | succ k ihk => simp only [sumTo_succ]; simpa [sumTo] using ihk (by omega)
        · intro t ht; simp; intro h; omega
      rw [this]; simp
    · rw [ih (by omega)]
      simp [hun]

theorem sumTo_zero (n : Nat) : sumTo n (fun _ => 0) = 0 := by
  induction n with
  | zero => simp [sumTo]
  | succ n ih => simp [sumTo_succ, ih]

/-- the installs on `a` are the installs of the `n` threads together -/
theorem casCount_eq_sum (n a : Nat) (l : List LinEv) (h : ∀ e ∈ l, evTid e < n) :
    casCount a l = sumTo n (fun t => casBy t a l) := by
  induction l with
  | nil => simp [casCount, casBy, sumTo_zero]
  | cons e es ih =>
    have ih' := ih (fun e he => h e (by simp [he]))
    have he := h e (by simp)
    cases e with
    | cas u b o o' =>
      simp only [casCount, casBy]
      rw [sumTo_add, ← ih', sumTo_indicator n u he]
    | read u b v => simpa [casCount, casBy] using ih'
    | set u b v => simpa [casCount, casBy] using ih'
    | failed u b => simpa [casCount, casBy] using ih'

/-- threads beyond the first `n` never do anything, and every event is by one of the first `n` -/
def IdleInv (n : Nat) (s : State) : Prop :=
  (∀ t, n ≤ t → (s.threads t).stack = [] ∧ (s.threads t).todo = []) ∧ (∀ e ∈ s.lin, evTid e < n)

theorem IdleInv.step {n : Nat} {s s' : State} {u : Nat} (h : IdleInv n s) (hs : step prog s u = some s') :
    IdleInv n s' := by
  have hu : u < n := by
    apply Classical.byContradiction
    intro hge
    obtain ⟨h1, h2⟩ := h.1 u (by omega)
    simp [Conc.step, h1, h2] at hs
  constructor
  · intro t ht
    rw [step_other_thread hs (by omega : t ≠ u)]
    exact h.1 t ht
  · obtain ⟨ev, hlin, htid⟩ := step_lin hs
    intro e he
    rw [hlin, List.mem_append] at he
    rcases he with he | he
    · exact h.2 e he
    · rw [htid e he]; exact hu

theorem IdleInv.init (progs : List (List AOp)) (vals : Nat → Nat) : IdleInv progs.length (init progs vals) := by
  constructor
  · intro t ht
    simp only [Conc.init, true_and]
    rw [List.getD_eq_getElem?_getD, List.getElem?_eq_none_iff.mpr ht]; rfl
  · intro e he; simp [Conc.init] at he

theorem MatchInv.init (progs : List (List AOp)) (vals : Nat → Nat) : MatchInv (init progs vals) := by
  intro t a; simp [Conc.init, casBy, okOn, installedOn]

/-- no lost update: when every operation is `swap! inc`, in every reachable state the value of atom `a`
    is its initial value plus the number of successful `swap! inc` responses on `a` of all threads, plus
    the swap!s that have installed but not yet returned -/
theorem no_lost_update {progs vals s} (hr : Reachable progs vals s)
    (hall : ∀ ops ∈ progs, ∀ op ∈ ops, isInc op) (a : Nat) :
    (s.atoms a).val = vals a +
      sumTo progs.length (fun t => okOn a (s.threads t).out + installedOn a (s.threads t).stack) := by
  obtain ⟨sched, hrun⟩ := hr
  have key : ∀ (sched : List Nat) (s0 : State), AtomInv vals s0 → IncInv s0 → MatchInv s0 →
      IdleInv progs.length s0 → run prog sched s0 = some s → MatchInv s ∧ IdleInv progs.length s := by
    intro sched
    induction sched with
    | nil => intro s0 _ _ hM hD h0; simp [Conc.run] at h0; subst h0; exact ⟨hM, hD⟩
    | cons t ts ih =>
      intro s0 hA hI hM hD h0
      simp only [Conc.run, Option.bind_eq_some_iff] at h0
      obtain ⟨s1, h1, h2⟩ := h0
      exact ih s1 (hA.step h1) (hI.step hA.lock h1) (hM.step hI hA.lock h1) (hD.step h1) h2
  obtain ⟨hM, hD⟩ := key sched _ (AtomInv.init progs vals) (IncInv.init progs vals hall)
    (MatchInv.init progs vals) (IdleInv.init progs vals) hrun
  rw [val_eq_init_plus_installs ⟨sched, hrun⟩ hall a, casCount_eq_sum progs.length a s.lin hD.2]
  congr 1
  exact sumTo_congr (fun t _ => hM t a)

/-- … and once every thread is done: initial value + number of successful `swap! inc` on that atom -/
theorem no_lost_update_quiescent {progs vals s} (hr : Reachable progs vals s)
    (hall : ∀ ops ∈ progs, ∀ op ∈ ops, isInc op) (hq : ∀ t, (s.threads t).stack = []) (a : Nat) :
    (s.atoms a).val = vals a + sumTo progs.length (fun t => okOn a (s.threads t).out) := by
  rw [no_lost_update hr hall a]
  congr 1
  exact sumTo_congr (fun t _ => by rw [hq t]; simp [installedOn])

end LispModel.Proofs.ConcAtom

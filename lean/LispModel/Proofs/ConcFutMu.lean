/-
  C10 proofs, part 2: frames of the fixed future programs are well-formed and the mutex `mu` of a
  future is held exactly by the frame whose control point lies in a critical section.
-/
import LispModel.Proofs.ConcFutMono
namespace LispModel.Proofs.ConcFut
open LispModel.Conc LispModel.Conc.Fut

def holdsMuAt : OpName → Nat → Bool
  | .body, pc => pc == 2 || pc == 3
  | .cancel, pc => decide (1 ≤ pc)
  | .isDone, pc => decide (1 ≤ pc)
  | .isCancelled, pc => decide (1 ≤ pc)
  | _, _ => false

def defersAtF : OpName → Nat → List MOp
  | .cancel, pc => if 2 ≤ pc then [.unlock .futMu] else []
  | .isDone, pc => if 2 ≤ pc then [.unlock .futMu] else []
  | .isCancelled, pc => if 2 ≤ pc then [.unlock .futMu] else []
  | _, _ => []

def holdsMu (fr : FFrame) : Bool :=
  if fr.returning then fr.defers.contains (.unlock .futMu) else holdsMuAt fr.name fr.pc

def FFrameWF (fr : FFrame) : Prop :=
  if fr.returning then
    fr.defers = [] ∨ (fr.defers = defersAtF fr.name fr.pc ∧ fr.pc < (prog fr.name).length)
  else
    fr.pc < (prog fr.name).length ∧ fr.defers = defersAtF fr.name fr.pc

def clientNames : List OpName := [.cancel, .derefF, .isDone, .isCancelled]
def futNames : List OpName := .body :: clientNames

/-- possible (pc, defers, returning) after executing `m` -/
def ctlF (m : MOp) (pc : Nat) (ds : List MOp) : List (Nat × List MOp × Bool) :=
  match m with
  | .deferUnlock mu => [(pc + 1, .unlock mu :: ds, false)]
  | .deferWrite l => [(pc + 1, .write l :: ds, false)]
  | .brTrue _ k => [(k, ds, false), (pc + 1, ds, false)]
  | .ret => [(pc, ds, true)]
  | .selectRecv => [(pc, ds, true), (pc + 1, ds, false)]
  | _ => [(pc + 1, ds, false)]

inductive EffF | none | acq | rel deriving DecidableEq
def effF : MOp → EffF
  | .lock .futMu => .acq | .unlock .futMu => .rel | _ => .none

def frameOf (s : FState) : Owner → Option FFrame
  | .thr t => (s.threads t).cur
  | .body f => (s.futs f).body

/-- the frames an owner may run -/
def OwnerOK : Owner → FFrame → Prop
  | .thr _, fr => fr.name ∈ clientNames
  | .body f, fr => fr.name = .body ∧ fr.fut = f

structure MuInv (s : FState) : Prop where
  wf : ∀ o fr, frameOf s o = some fr → FFrameWF fr ∧ OwnerOK o fr
  mu_iff : ∀ f o, (s.futs f).mu = some o ↔
    ∃ fr, frameOf s o = some fr ∧ fr.fut = f ∧ holdsMu fr = true

def MuSpec (o : Owner) (e : EffF) (F F' : FutS) : Prop :=
  match e with
  | .acq => F.mu = none ∧ F'.mu = some o
  | .rel => F'.mu = none
  | .none => F'.mu = F.mu

/-- control flow and mutex effect of one micro-op -/
theorem execF_ctl {o arm ce m fr F fr' F'} (h : execF o arm ce m fr F = some (fr', F'))
    (hnr : fr.returning = false) :
    (fr'.pc, fr'.defers, fr'.returning) ∈ ctlF m fr.pc fr.defers ∧ fr'.name = fr.name ∧ fr'.fut = fr.fut ∧
    MuSpec o (effF m) F F' ∧ F'.body = F.body := by
  cases m with
  | lock mu => cases mu <;> simp [execF] at h; obtain ⟨h1, h2, h3⟩ := h; subst h2; subst h3
               simp [ctlF, hnr, effF, MuSpec, h1]
  | unlock mu => cases mu <;> simp [execF] at h; obtain ⟨h2, h3⟩ := h; subst h2; subst h3
                 simp [ctlF, hnr, effF, MuSpec]
  | deferUnlock mu => simp [execF] at h; obtain ⟨h2, h3⟩ := h; subst h2; subst h3; simp [ctlF, hnr, effF, MuSpec]
  | deferWrite l => simp [execF] at h; obtain ⟨h2, h3⟩ := h; subst h2; subst h3; simp [ctlF, hnr, effF, MuSpec]
  | read l => cases l <;> simp [execF] at h <;> (obtain ⟨h2, h3⟩ := h; subst h2; subst h3; simp [ctlF, hnr, effF, MuSpec])
  | write l => cases l <;> simp [execF] at h <;> (obtain ⟨h2, h3⟩ := h; subst h2; subst h3; simp [ctlF, hnr, effF, MuSpec])
  | brTrue l k => cases l <;> simp [execF] at h; obtain ⟨h2, h3⟩ := h; subst h2; subst h3
                  split <;> simp [ctlF, hnr, effF, MuSpec]
  | cancelCtx => simp [execF] at h; obtain ⟨h2, h3⟩ := h; subst h2; subst h3; simp [ctlF, hnr, effF, MuSpec]
  | callBody => simp [execF] at h; obtain ⟨h2, h3⟩ := h; subst h2; subst h3; simp [ctlF, hnr, effF, MuSpec]
  | send =>
    simp only [execF] at h
    split at h
    · simp only [Option.map_eq_some_iff] at h
      obtain ⟨F1, hp, h⟩ := h
      cases h
      obtain ⟨-, -, -, h4, -, -, h7, -⟩ := putBack_flags hp
      simp [ctlF, hnr, effF, MuSpec, h4, h7]
    · cases h
  | resend =>
    simp only [execF] at h
    split at h
    · simp only [Option.map_eq_some_iff] at h
      obtain ⟨F1, hp, h⟩ := h
      cases h
      obtain ⟨-, -, -, h4, -, -, h7, -⟩ := putBack_flags hp
      simp [ctlF, hnr, effF, MuSpec, h4, h7]
    · cases h
  | selectRecv =>
    simp only [execF] at h
    split at h
    · split at h
      · cases h; simp [ctlF, effF, MuSpec]
      · cases h
    · simp only [Option.map_eq_some_iff] at h; obtain ⟨e, -, h⟩ := h; cases h; simp [ctlF, hnr, effF, MuSpec]
    · simp only [Option.map_eq_some_iff] at h; obtain ⟨e, -, h⟩ := h; cases h; simp [ctlF, hnr, effF, MuSpec]
    · cases h
  | ret => simp [execF] at h; obtain ⟨h2, h3⟩ := h; subst h2; subst h3; simp [ctlF, effF, MuSpec]
  | _ => simp [execF] at h

def hMt (n : OpName) (pc : Nat) (ds : List MOp) (ret : Bool) : Bool :=
  if ret then ds.contains (.unlock .futMu) else holdsMuAt n pc
def wfFB (n : OpName) (pc : Nat) (ds : List MOp) (ret : Bool) : Bool :=
  if ret then ds == [] || (ds == defersAtF n pc && decide (pc < (prog n).length))
  else decide (pc < (prog n).length) && ds == defersAtF n pc
def newMu (e : EffF) (h : Bool) : Bool := match e with | .acq => true | .rel => false | .none => h
def preMuB (e : EffF) (h : Bool) : Bool := match e with | .acq => !h | .rel => h | .none => true

def forAllFOps (P : OpName → Nat → MOp → Bool) : Bool :=
  futNames.all fun n => (List.range (prog n).length).all fun pc =>
    match (prog n)[pc]? with
    | none => false
    | some m => P n pc m

theorem forAllFOps_spec {P : OpName → Nat → MOp → Bool} (h : forAllFOps P = true) {n : OpName} {pc : Nat}
    (hn : n ∈ futNames) (hpc : pc < (prog n).length) : ∃ m, (prog n)[pc]? = some m ∧ P n pc m = true := by
  unfold forAllFOps at h
  rw [List.all_eq_true] at h
  have h1 := h n hn
  rw [List.all_eq_true] at h1
  have h2 := h1 pc (List.mem_range.mpr hpc)
  split at h2
  · cases h2
  · rename_i m hm; exact ⟨m, hm, h2⟩

def muEntry (n : OpName) (pc : Nat) (m : MOp) : Bool :=
  let ds := defersAtF n pc
  (ctlF m pc ds).all fun (pc', ds', ret') =>
    wfFB n pc' ds' ret' && preMuB (effF m) (hMt n pc ds false) &&
    (hMt n pc' ds' ret' == newMu (effF m) (hMt n pc ds false))

theorem muTable_true : forAllFOps muEntry = true := by decide

theorem wfFB_spec {fr : FFrame} (h : wfFB fr.name fr.pc fr.defers fr.returning = true) : FFrameWF fr := by
  unfold FFrameWF
  unfold wfFB at h
  cases hr : fr.returning <;> simp [hr] at h ⊢
  · exact h
  · exact h

/-- what one step of a well-formed frame of the fixed programs does to the frame and to `mu` -/
def StepFacts (o : Owner) (fr : FFrame) (F : FutS) : (FFrame ⊕ FFrame) × FutS → Prop
  | (.inl fr', F') => FFrameWF fr' ∧ fr'.name = fr.name ∧ fr'.fut = fr.fut ∧ F'.body = F.body ∧
      ∃ e, MuSpec o e F F' ∧ preMuB e (holdsMu fr) = true ∧ holdsMu fr' = newMu e (holdsMu fr)
  | (.inr fr', F') => fr' = fr ∧ F' = F ∧ holdsMu fr = false

theorem fframe_step {o arm ce fr F r} (hwf : FFrameWF fr) (hn : fr.name ∈ futNames)
    (hk : FrameStep prog o arm ce fr F r) : StepFacts o fr F r := by
  cases hk with
  | mop m fr' F' hnr hm hex =>
    unfold FFrameWF at hwf
    simp only [hnr] at hwf
    obtain ⟨hpc, hds⟩ := hwf
    obtain ⟨hmem, hname, hfut, hmu, hbody⟩ := execF_ctl hex hnr
    obtain ⟨m', hm', htab⟩ := forAllFOps_spec muTable_true hn hpc
    rw [hm] at hm'; cases hm'
    unfold muEntry at htab
    rw [List.all_eq_true] at htab
    rw [hds] at hmem
    have h3 := htab _ hmem
    simp only [Bool.and_eq_true, beq_iff_eq] at h3
    obtain ⟨⟨h3a, h3b⟩, h3c⟩ := h3
    have hM : holdsMu fr = hMt fr.name fr.pc (defersAtF fr.name fr.pc) false := by simp [holdsMu, hMt, hnr]
    refine ⟨wfFB_spec (by rw [hname]; exact h3a), hname, hfut, hbody, effF m, hmu, ?_, ?_⟩
    · rw [hM]; exact h3b
    · rw [hM, ← h3c]; simp [holdsMu, hMt, hname]
  | defer d ds fr1 F' hr hd hex =>
    have hdd : d = .unlock .futMu ∧ ds = [] := by
      unfold FFrameWF at hwf
      simp only [hr, if_true] at hwf
      rcases hwf with h | ⟨h, -⟩
      · rw [hd] at h; cases h
      · rw [hd] at h
        simp only [futNames, clientNames, List.mem_cons, List.not_mem_nil, or_false] at hn
        rcases hn with hn | hn | hn | hn | hn <;> rw [hn] at h <;> simp only [defersAtF] at h <;>
          first
          | (cases h; done)
          | (split at h
             · cases h; exact ⟨rfl, rfl⟩
             · cases h)
    obtain ⟨h1, h2⟩ := hdd
    subst h1; subst h2
    simp [execF] at hex
    obtain ⟨h1, h2⟩ := hex
    subst h1; subst h2
    refine ⟨?_, rfl, rfl, rfl, .rel, ?_, ?_, ?_⟩
    · simp [FFrameWF, hr]
    · simp [MuSpec]
    · simp [preMuB, holdsMu, hr, hd]
    · simp [newMu, holdsMu, hr]
  | ret hr hd => exact ⟨rfl, rfl, by simp [holdsMu, hr, hd]⟩

end LispModel.Proofs.ConcFut

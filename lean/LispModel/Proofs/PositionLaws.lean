/-
  Laws of the position algebra (`LispModel/Position.lean`, mirroring `types/positiontype.go`).
  General statements, for all positions; `decide` only in the non-vacuity examples.
-/
import LispModel.Position
namespace LispModel.Position
open LispModel

/-! ### 1. the lexicographic order on (row, col) and `Includes` -/

/-- lexicographic `≤` on (row, col) -/
def le2 (r c r' c' : Int) : Prop := r < r' ∨ (r = r' ∧ c ≤ c')

instance (r c r' c' : Int) : Decidable (le2 r c r' c') := by unfold le2; infer_instance

theorem le2_refl (r c : Int) : le2 r c r c := by unfold le2; omega

theorem le2_trans {r₁ c₁ r₂ c₂ r₃ c₃ : Int} (h₁ : le2 r₁ c₁ r₂ c₂) (h₂ : le2 r₂ c₂ r₃ c₃) : le2 r₁ c₁ r₃ c₃ := by
  unfold le2 at *; omega

theorem le2_antisymm {r c r' c' : Int} (h₁ : le2 r c r' c') (h₂ : le2 r' c' r c) : r = r' ∧ c = c' := by
  unfold le2 at *; omega

theorem le2_total (r c r' c' : Int) : le2 r c r' c' ∨ le2 r' c' r c := by unfold le2; omega

/-- `le2` on the first coordinate -/
theorem le2_row {r c r' c' : Int} (h : le2 r c r' c') : r ≤ r' := by unfold le2 at h; omega

/-- `Includes` says what it should: the begin of `p` is at or before the begin of `q`, and the end of `q`
    at or before the end of `p`, both lexicographically on (row, col) -/
theorem includes_iff (p q : Pos) :
    includes (some p) q = true ↔
      le2 p.beginRow p.beginCol q.beginRow q.beginCol ∧ le2 q.row q.col p.row p.col := by
  simp only [includes, decide_eq_true_eq, le2]; omega

/-- a nil receiver includes nothing (the method guards `cursor == nil`) -/
theorem includes_nil (q : Pos) : includes none q = false := rfl

theorem includes_refl (p : Pos) : includes (some p) p = true :=
  (includes_iff p p).2 ⟨le2_refl _ _, le2_refl _ _⟩

theorem includes_trans {p q r : Pos} (h₁ : includes (some p) q = true) (h₂ : includes (some q) r = true) :
    includes (some p) r = true := by
  rw [includes_iff] at *
  exact ⟨le2_trans h₁.1 h₂.1, le2_trans h₂.2 h₁.2⟩

/-- antisymmetric up to the four coordinates (the modules may differ) -/
theorem includes_antisymm {p q : Pos} (h₁ : includes (some p) q = true) (h₂ : includes (some q) p = true) :
    p.beginRow = q.beginRow ∧ p.beginCol = q.beginCol ∧ p.row = q.row ∧ p.col = q.col := by
  rw [includes_iff] at *
  have a := le2_antisymm h₁.1 h₂.1
  have b := le2_antisymm h₁.2 h₂.2
  exact ⟨a.1, a.2, b.1.symm, b.2.symm⟩

/-- `Includes` never looks at the modules: positions of different files "include" one another -/
theorem includes_ignores_module (p q : Pos) (m m' : Option String) :
    includes (some { p with module := m }) { q with module := m' } = includes (some p) q := rfl

/-! ### 2. the row statement -/

theorem includes_rows {p q : Pos} (h : includes (some p) q = true) : p.beginRow ≤ q.beginRow ∧ q.row ≤ p.row := by
  rw [includes_iff] at h
  exact ⟨le2_row h.1, le2_row h.2⟩

theorem includes_rowsInside {p q : Pos} (h : includes (some p) q = true) : rowsInside p q = true := by
  simpa [rowsInside] using includes_rows h

/-! ### 3. `Close` -/

theorem close_keeps_begin_and_module (c h : Pos) :
    ∃ r, close (some c) (some h) = .ok r ∧
      r.module = c.module ∧ r.beginRow = c.beginRow ∧ r.beginCol = c.beginCol :=
  ⟨_, rfl, rfl, rfl, rfl⟩

theorem close_end_is_here (c h : Pos) :
    ∃ r, close (some c) (some h) = .ok r ∧ r.row = h.row ∧ r.col = h.col :=
  ⟨_, rfl, rfl, rfl⟩

/-- the cursor `read_list` builds (`open.Close(closer)`) includes everything that begins at or after the
    opening token's begin and ends at or before the closing token's end -/
theorem close_includes (opn closer x r : Pos) (hc : close (some opn) (some closer) = .ok r)
    (hb : le2 opn.beginRow opn.beginCol x.beginRow x.beginCol) (he : le2 x.row x.col closer.row closer.col) :
    includes (some r) x = true := by
  simp only [close, Res.ok.injEq] at hc
  subst hc
  exact (includes_iff _ _).2 ⟨hb, he⟩

/-- in particular the closed cursor includes the opening token itself as soon as the opening token ends
    at or before the closer's end -/
theorem close_includes_open (opn closer r : Pos) (hc : close (some opn) (some closer) = .ok r)
    (he : le2 opn.row opn.col closer.row closer.col) : includes (some r) opn = true :=
  close_includes opn closer opn r hc (le2_refl _ _) he

/-- the reader macros build `tok.Copy().Close(&tok)`: that is the macro token's own cursor, so it does NOT
    extend over the form that follows -/
theorem close_self (c : Pos) : close (copy (some c)) (some c) = .ok c := by
  cases c with
  | mk m br bc r cl => cases m <;> rfl

/-! ### 4. `Here` -/

/-- module of `h` when it has one, else the receiver's; the coordinates always come from `h` -/
theorem here_module_inheritance (p h : Pos) :
    ∃ r, here (some p) (some h) = .ok r ∧
      r.module = (match h.module with | some m => some m | none => p.module) ∧
      r.beginRow = h.beginRow ∧ r.beginCol = h.beginCol ∧ r.row = h.row ∧ r.col = h.col := by
  cases h with
  | mk hm br bc r c => cases hm <;> exact ⟨_, rfl, rfl, rfl, rfl, rfl, rfl⟩

/-- with a module on `h` the receiver is irrelevant — even a nil receiver -/
theorem here_with_module (p : Cur) (h : Pos) (m : String) (hm : h.module = some m) :
    here p (some h) = .ok h := by
  cases h with
  | mk hm' br bc r c => simp only at hm; subst hm; rfl

/-! ### 5. `Copy` -/

theorem copy_eq (p : Cur) : copy p = p := by
  cases p with
  | none => rfl
  | some p => cases p with
    | mk m br bc r c => cases m <;> rfl

theorem copy_none : copy none = none := rfl

/-- `SetPos` forgets the module of its receiver (and never reads it) -/
theorem setPos_forgets (p : Cur) (row : Int) :
    setPos p row = { module := none, beginRow := row, beginCol := 1, row := row, col := 1 } := rfl

theorem setPos_receiver_irrelevant (p q : Cur) (row : Int) : setPos p row = setPos q row := rfl

/-! ### 7. which calls can panic -/

/-- `Here` panics exactly on a nil argument, or on a nil receiver when the argument has no module -/
theorem here_panics_iff (p h : Cur) :
    here p h = .panic ↔ h = none ∨ (p = none ∧ ∃ h', h = some h' ∧ h'.module = none) := by
  cases h with
  | none => simp [here]
  | some h' =>
    cases hm : h'.module with
    | some m => simp [here, hm]
    | none => cases p <;> simp [here, hm]

/-- `Close` panics exactly when the receiver or the argument is nil -/
theorem close_panics_iff (c h : Cur) : close c h = .panic ↔ c = none ∨ h = none := by
  cases c <;> cases h <;> simp [close]

/-- the call `p.Includes(*q)` panics exactly on a nil `q` (a nil receiver is guarded) -/
theorem includesArg_panics_iff (p q : Cur) : includesArg p q = .panic ↔ q = none := by
  cases q <;> simp [includesArg]

/-- the guarded methods on a nil receiver -/
theorem nil_receiver_guarded :
    copy none = none ∧ Position.toString none = "" ∧ stringModule none = "" ∧ stringPosition none = "" ∧
    stringPositionRow none = "" ∧ (∀ q, includes none q = false) ∧
    (∀ row, setPos none row = { module := none, beginRow := row, beginCol := 1, row := row, col := 1 }) :=
  ⟨rfl, rfl, rfl, rfl, rfl, fun _ => rfl, fun _ => rfl⟩

/-- with non-nil pointers nothing panics -/
theorem no_panic_of_nonnil (p h : Pos) :
    (∃ r, here (some p) (some h) = .ok r) ∧ (∃ r, close (some p) (some h) = .ok r) ∧
    (∃ b, includesArg (some p) (some h) = .ok b) := by
  refine ⟨?_, ⟨_, rfl⟩, ⟨_, rfl⟩⟩
  obtain ⟨r, hr, _⟩ := here_module_inheritance p h
  exact ⟨r, hr⟩

/-! non-vacuity: each panic is reachable, and the unguarded-looking calls that do NOT panic -/
example : here (some newCursor) none = .panic := by decide
example : here none (some newCursor) = .panic := by decide
example : here none (some (newCursorFile "m")) = .ok (newCursorFile "m") := by decide
example : close none (some newCursor) = .panic := by decide
example : close (some newCursor) none = .panic := by decide
example : includesArg none none = .panic := by decide
example : includesArg none (some newCursor) = .ok false := by decide
example : setPos none 7 = newAnonymousCursorHere 7 1 := by decide
example : setPos (some (newCursorFile "m")) 7 = newAnonymousCursorHere 7 1 := by decide

/-! ### 6. the renderings: `%d` first -/

theorem natDigitsAux_fuel : ∀ (f g n : Nat), n < f → n < g → natDigitsAux f n = natDigitsAux g n := by
  intro f
  induction f with
  | zero => intro g n h; omega
  | succ f ih =>
    intro g n hf hg
    cases g with
    | zero => omega
    | succ g =>
      simp only [natDigitsAux]
      by_cases h : n < 10
      · simp [h]
      · simp only [h, if_false]
        rw [ih g (n / 10) (by omega) (by omega)]

/-- the defining equation of the decimal digits -/
theorem natDigits_eq (n : Nat) :
    natDigits n = if n < 10 then [digitChar n] else natDigits (n / 10) ++ [digitChar (n % 10)] := by
  have step : natDigitsAux (n + 1) n =
      if n < 10 then [digitChar n] else natDigitsAux n (n / 10) ++ [digitChar (n % 10)] := rfl
  show natDigitsAux (n + 1) n =
      if n < 10 then [digitChar n] else natDigitsAux (n / 10 + 1) (n / 10) ++ [digitChar (n % 10)]
  rw [step]
  by_cases h : n < 10
  · simp [h]
  · simp only [h, if_false]
    rw [natDigitsAux_fuel n (n / 10 + 1) (n / 10) (by omega) (by omega)]

theorem natDigits_ne_nil (n : Nat) : natDigits n ≠ [] := by
  rw [natDigits_eq]; split <;> simp

theorem digitChar_inj : ∀ a, a < 10 → ∀ b, b < 10 → digitChar a = digitChar b → a = b := by decide

/-- a digit is none of the characters the formats put between numbers, nor the sign -/
theorem digitChar_plain (d : Nat) : digitChar d ≠ '…' ∧ digitChar d ≠ ',' ∧ digitChar d ≠ '-' := by
  unfold digitChar; split <;> decide

theorem natDigits_plain : ∀ (n : Nat) (c : Char), c ∈ natDigits n → c ≠ '…' ∧ c ≠ ',' ∧ c ≠ '-' := by
  intro n
  induction n using Nat.strongRecOn with
  | ind n ih =>
    intro c hc
    rw [natDigits_eq] at hc
    by_cases h : n < 10
    · simp only [h, if_true, List.mem_singleton] at hc
      subst hc; exact digitChar_plain n
    · simp only [h, if_false, List.mem_append, List.mem_singleton] at hc
      cases hc with
      | inl hc => exact ih (n / 10) (by omega) c hc
      | inr hc => subst hc; exact digitChar_plain _

theorem natDigits_inj : ∀ (n m : Nat), natDigits n = natDigits m → n = m := by
  intro n
  induction n using Nat.strongRecOn with
  | ind n ih =>
    intro m h
    rw [natDigits_eq n, natDigits_eq m] at h
    by_cases hn : n < 10 <;> by_cases hm : m < 10
    · simp only [hn, hm, if_true, List.cons.injEq, and_true] at h
      exact digitChar_inj n hn m hm h
    · simp only [hn, hm, if_true, if_false] at h
      have hl := congrArg List.length h
      have := natDigits_ne_nil (m / 10)
      cases hd : natDigits (m / 10) with
      | nil => exact absurd hd this
      | cons x xs => rw [hd] at hl; simp at hl
    · simp only [hn, hm, if_true, if_false] at h
      have hl := congrArg List.length h
      have := natDigits_ne_nil (n / 10)
      cases hd : natDigits (n / 10) with
      | nil => exact absurd hd this
      | cons x xs => rw [hd] at hl; simp at hl
    · simp only [hn, hm, if_false] at h
      have ⟨h₁, h₂⟩ := List.append_inj' h rfl
      have e₁ := ih (n / 10) (by omega) (m / 10) h₁
      simp only [List.cons.injEq, and_true] at h₂
      have e₂ := digitChar_inj (n % 10) (Nat.mod_lt _ (by omega)) (m % 10) (Nat.mod_lt _ (by omega)) h₂
      omega

/-- the characters of `%d` are never one of the separators of the formats -/
theorem dec_plain (i : Int) (c : Char) (hc : c ∈ dec i) : c ≠ '…' ∧ c ≠ ',' := by
  cases i with
  | ofNat n => exact ⟨(natDigits_plain n c hc).1, (natDigits_plain n c hc).2.1⟩
  | negSucc n =>
    simp only [dec, List.mem_cons] at hc
    cases hc with
    | inl h => subst h; decide
    | inr h => exact ⟨(natDigits_plain _ c h).1, (natDigits_plain _ c h).2.1⟩

theorem dec_ne_nil (i : Int) : dec i ≠ [] := by
  cases i with
  | ofNat n => exact natDigits_ne_nil n
  | negSucc n => simp [dec]

/-- `%d` is injective (negative numbers included) -/
theorem dec_inj (i j : Int) (h : dec i = dec j) : i = j := by
  cases i with
  | ofNat n =>
    cases j with
    | ofNat m => exact congrArg Int.ofNat (natDigits_inj n m h)
    | negSucc m =>
      have : '-' ∈ natDigits n := by
        show '-' ∈ dec (Int.ofNat n); rw [h]; simp [dec]
      exact absurd rfl (natDigits_plain n _ this).2.2
  | negSucc n =>
    cases j with
    | ofNat m =>
      have : '-' ∈ natDigits m := by
        show '-' ∈ dec (Int.ofNat m); rw [← h]; simp [dec]
      exact absurd rfl (natDigits_plain m _ this).2.2
    | negSucc m =>
      simp only [dec, List.cons.injEq, true_and] at h
      have := natDigits_inj _ _ h
      exact congrArg Int.negSucc (by omega)

/-- a text is split uniquely at the first occurrence of a separator -/
theorem split_at_sep {s : Char} : ∀ {a a' b b' : List Char}, s ∉ a → s ∉ a' →
    a ++ s :: b = a' ++ s :: b' → a = a' ∧ b = b' := by
  intro a
  induction a with
  | nil =>
    intro a' b b' _ ha' h
    cases a' with
    | nil => simpa using h
    | cons x xs =>
      simp only [List.nil_append, List.cons_append, List.cons.injEq] at h
      exact absurd (h.1 ▸ List.mem_cons_self) ha'
  | cons y ys ih =>
    intro a' b b' ha ha' h
    cases a' with
    | nil =>
      simp only [List.nil_append, List.cons_append, List.cons.injEq] at h
      exact absurd (h.1 ▸ List.mem_cons_self) ha
    | cons x xs =>
      simp only [List.cons_append, List.cons.injEq] at h
      have := ih (fun m => ha (List.mem_cons_of_mem _ m)) (fun m => ha' (List.mem_cons_of_mem _ m)) h.2
      exact ⟨by rw [h.1, this.1], this.2⟩

/-! ### 6. the renderings -/

/-- `String()` = module, `§`, position text -/
theorem toString_shape (p : Pos) :
    Position.toString (some p) = stringModule (some p) ++ "§" ++ stringPosition (some p) := rfl

theorem stringModule_eq (p : Pos) : stringModule (some p) = p.module.getD "" := by
  cases h : p.module <;> simp [stringModule, h]

theorem positionText_eq (p : Pos) :
    positionText p = dec p.beginRow ++ '…' :: (dec p.row ++ ',' :: (dec p.beginCol ++ '…' :: dec p.col)) := by
  simp [positionText]

theorem positionText_ne_nil (p : Pos) : positionText p ≠ [] := by
  rw [positionText_eq]
  cases h : dec p.beginRow with
  | nil => exact absurd h (dec_ne_nil _)
  | cons x xs => simp

/-- the position text is empty exactly for `Row < 0` (the `load-file` cursors of command.go use row −3) -/
theorem stringPosition_empty_iff (p : Pos) : stringPosition (some p) = "" ↔ p.row < 0 := by
  by_cases h : p.row < 0
  · simp [stringPosition, h]
  · simp only [stringPosition, h, if_false, iff_false, String.ofList_eq_empty_iff]
    exact positionText_ne_nil p

theorem rowText_ne_nil (p : Pos) : rowText p ≠ [] := by
  unfold rowText
  split
  · cases h : dec p.beginRow with
    | nil => exact absurd h (dec_ne_nil _)
    | cons x xs => simp
  · exact dec_ne_nil _

theorem stringPositionRow_empty_iff (p : Pos) : stringPositionRow (some p) = "" ↔ p.row < 0 := by
  by_cases h : p.row < 0
  · simp [stringPositionRow, h]
  · simp only [stringPositionRow, h, if_false, iff_false, String.ofList_eq_empty_iff]
    exact rowText_ne_nil p

/-- `StringPositionRow` collapses to the single row number exactly when `BeginRow = Row` -/
theorem stringPositionRow_collapses_iff (p : Pos) (h : 0 ≤ p.row) :
    stringPositionRow (some p) = String.ofList (dec p.row) ↔ p.beginRow = p.row := by
  have hr : ¬ p.row < 0 := by omega
  simp only [stringPositionRow, hr, if_false]
  constructor
  · intro e
    have e := String.ofList_injective e
    by_cases hb : p.beginRow = p.row
    · exact hb
    · exfalso
      simp only [rowText, ne_eq, hb, not_false_eq_true, if_true] at e
      have : '…' ∈ dec p.row := by rw [← e]; simp
      exact (dec_plain _ _ this).1 rfl
  · intro e
    simp [rowText, e]

/-- the position text determines the four coordinates (any integers, negative ones included) -/
theorem positionText_inj (p q : Pos) (h : positionText p = positionText q) :
    p.beginRow = q.beginRow ∧ p.row = q.row ∧ p.beginCol = q.beginCol ∧ p.col = q.col := by
  rw [positionText_eq, positionText_eq] at h
  have s₁ := split_at_sep (fun m => (dec_plain _ _ m).1 rfl) (fun m => (dec_plain _ _ m).1 rfl) h
  have s₂ := split_at_sep (fun m => (dec_plain _ _ m).2 rfl) (fun m => (dec_plain _ _ m).2 rfl) s₁.2
  have s₃ := split_at_sep (fun m => (dec_plain _ _ m).1 rfl) (fun m => (dec_plain _ _ m).1 rfl) s₂.2
  exact ⟨dec_inj _ _ s₁.1, dec_inj _ _ s₂.1, dec_inj _ _ s₃.1, dec_inj _ _ s₃.2⟩

/-- `StringPosition` is injective on positions whose `Row` is not negative -/
theorem stringPosition_inj (p q : Pos) (hp : 0 ≤ p.row) (hq : 0 ≤ q.row)
    (h : stringPosition (some p) = stringPosition (some q)) :
    p.beginRow = q.beginRow ∧ p.row = q.row ∧ p.beginCol = q.beginCol ∧ p.col = q.col := by
  have hp' : ¬ p.row < 0 := by omega
  have hq' : ¬ q.row < 0 := by omega
  simp only [stringPosition, hp', hq', if_false] at h
  exact positionText_inj p q (String.ofList_injective h)

/-- … and NOT injective without that condition: every position with a negative `Row` renders alike -/
theorem stringPosition_negative_rows_collide (p q : Pos) (hp : p.row < 0) (hq : q.row < 0) :
    stringPosition (some p) = stringPosition (some q) := by
  simp [stringPosition, hp, hq]

/-! ### non-vacuity -/

/-- the cursor of `(a\n b)` as the reader builds it, and of its second element -/
example : includes (some { beginRow := 1, beginCol := 2, row := 2, col := 12 })
    { beginRow := 2, beginCol := 3, row := 2, col := 9 } = true := by decide
/-- begin after end (not a well-formed span): reflexivity holds all the same -/
example : includes (some { beginRow := 5, beginCol := 1, row := 2, col := 1 })
    { beginRow := 5, beginCol := 1, row := 2, col := 1 } = true := by decide
/-- same rows, columns decide -/
example : includes (some { beginRow := 1, beginCol := 2, row := 1, col := 3 })
    { beginRow := 1, beginCol := 3, row := 1, col := 5 } = false := by decide
/-- modules are ignored -/
example : includes (some (newCursorHere "a.lisp" 1 1)) (newCursorHere "b.lisp" 1 1) = true := by decide
example : close (some (newCursorHere "m" 1 2)) (some (newAnonymousCursorHere 3 9)) =
    .ok { module := some "m", beginRow := 1, beginCol := 2, row := 3, col := 9 } := by decide
example : here (some (newCursorFile "m")) (some (newAnonymousCursorHere 3 9)) =
    .ok { module := some "m", beginRow := 3, beginCol := 9, row := 3, col := 9 } := by decide
example : here (some (newCursorFile "m")) (some (newCursorHere "n" 3 9)) = .ok (newCursorHere "n" 3 9) := by decide
example : positionText (newCursorFile "m") = ['1', '…', '0', ',', '1', '…', '0'] := by decide
example : positionText { beginRow := -3, beginCol := 10, row := 12, col := 205 } =
    ['-', '3', '…', '1', '2', ',', '1', '0', '…', '2', '0', '5'] := by decide
example : rowText { beginRow := 4, row := 4 } = ['4'] := by decide
example : rowText { beginRow := 4, row := 6 } = ['4', '…', '6'] := by decide
example : stringPosition (some (newCursorHere "f.lisp" (-3) 1)) = "" := by decide
example : Position.toString (some (newCursorHere "f.lisp" (-3) 1)) = "f.lisp§" := by decide

end LispModel.Position

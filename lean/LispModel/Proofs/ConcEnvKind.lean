/-
  C11 proofs: the shapes a step of the environment system can take.
-/
import LispModel.ConcEnv
namespace LispModel.Proofs.ConcEnv
open LispModel.ConcEnv
open LispModel.Conc (upd)

inductive EKind (s : EState) (t : Nat) : EState → Prop
  | start (op : EOp) (hc : (s.threads t).cur = none)
      (hs : (s.threads t).strat (s.threads t).results = some op) (hl : (s.scopes op.scope).live = true) :
      EKind s t { s with threads := upd s.threads t { s.threads t with cur := some op.frame } }
  | defer (fr : EFrame) (d : EMOp) (sc : Sid) (ds : List (EMOp × Sid)) (hc : (s.threads t).cur = some fr)
      (hr : fr.returning = true) (hd : fr.defers = (d, sc) :: ds) :
      EKind s t { s with scopes := updS s.scopes sc (execDefer t d (s.scopes sc)),
                         threads := upd s.threads t { s.threads t with cur := some { fr with defers := ds } } }
  | finish (fr : EFrame) (hc : (s.threads t).cur = some fr) (hr : fr.returning = true) (hd : fr.defers = [])
      (hm : fr.m ≠ .newScope) :
      EKind s t { s with threads := upd s.threads t { s.threads t with cur := none, results := (s.threads t).results ++ [fr.res] } }
  | install (fr : EFrame) (hc : (s.threads t).cur = some fr) (hr : fr.returning = true) (hd : fr.defers = [])
      (hm : fr.m = .newScope) :
      EKind s t { s with scopes := updS s.scopes fr.newId { s.scopes fr.newId with live := true, data := fr.fresh, outer := some fr.cur, rank := s.clock }, threads := upd s.threads t { s.threads t with cur := none, results := (s.threads t).results ++ [fr.res] }, clock := s.clock + 1, writes := s.writes ++ fr.binds.map fun kv => (fr.newId, kv.1, kv.2) }
  | alloc (fr : EFrame) (hc : (s.threads t).cur = some fr) (hnr : fr.returning = false)
      (hm : (prog fr.m)[fr.pc]? = some .alloc) :
      EKind s t { s with threads := upd s.threads t { s.threads t with nextLocal := (s.threads t).nextLocal + 1, cur := some { fr with pc := fr.pc + 1, newId := some (t, (s.threads t).nextLocal), res := .scope (some (t, (s.threads t).nextLocal)) } } }
  | mop (fr : EFrame) (m : EMOp) (fr' : EFrame) (A' : ScopeS) (hc : (s.threads t).cur = some fr)
      (hnr : fr.returning = false) (hm : (prog fr.m)[fr.pc]? = some m) (hna : m ≠ .alloc)
      (hex : exec t m fr (s.scopes fr.cur) = some (fr', A')) :
      EKind s t { s with scopes := updS s.scopes fr.cur A',
                         threads := upd s.threads t { s.threads t with cur := some fr' },
                         writes := if m = .writeData then s.writes ++ [(fr.cur, fr.key, fr.val)] else s.writes }

theorem step_kind {s s' : EState} {t : Nat} (h : step s t = some s') : EKind s t s' := by
  unfold ConcEnv.step at h
  simp only at h
  split at h
  · rename_i hc
    split at h
    · cases h
    · rename_i op hs
      split at h
      · rename_i hl; cases h; exact .start op hc hs hl
      · cases h
  · rename_i fr hc
    split at h
    · rename_i hr
      split at h
      · rename_i d sc ds hd; cases h; exact .defer fr d sc ds hc hr hd
      · rename_i hd
        split at h
        · rename_i hm; cases h; exact .install fr hc hr hd hm
        · rename_i hm; cases h; exact .finish fr hc hr hd hm
    · rename_i hnr
      have hnr : fr.returning = false := by simpa using hnr
      split at h
      · cases h
      · rename_i hm; cases h; exact .alloc fr hc hnr hm
      · rename_i m hna hm
        simp only [Option.map_eq_some_iff] at h
        obtain ⟨⟨fr', A'⟩, hex, h⟩ := h
        cases h
        exact .mop fr m fr' A' hc hnr hm (fun hh => hna hh) hex

theorem step_other_thread {s s' : EState} {t u : Nat} (h : step s t = some s') (hu : u ≠ t) :
    s'.threads u = s.threads u := by
  have hk := step_kind h
  cases hk <;> simp [upd, hu]

/-! ### computing a step from its premises (used to replay a step in another state) -/

theorem step_start {s : EState} {t : Nat} {op : EOp} (hc : (s.threads t).cur = none)
    (hs : (s.threads t).strat (s.threads t).results = some op) (hl : (s.scopes op.scope).live = true) :
    step s t = some { s with threads := upd s.threads t { s.threads t with cur := some op.frame } } := by
  unfold ConcEnv.step; simp only [hc, hs, hl, if_true]

theorem step_defer {s : EState} {t : Nat} {fr : EFrame} {d : EMOp} {sc : Sid} {ds : List (EMOp × Sid)}
    (hc : (s.threads t).cur = some fr) (hr : fr.returning = true) (hd : fr.defers = (d, sc) :: ds) :
    step s t = some { s with scopes := updS s.scopes sc (execDefer t d (s.scopes sc)),
                             threads := upd s.threads t { s.threads t with cur := some { fr with defers := ds } } } := by
  unfold ConcEnv.step; simp only [hc, hr, hd, if_true]

theorem step_finish {s : EState} {t : Nat} {fr : EFrame} (hc : (s.threads t).cur = some fr)
    (hr : fr.returning = true) (hd : fr.defers = []) (hm : fr.m ≠ .newScope) :
    step s t = some { s with threads := upd s.threads t { s.threads t with cur := none, results := (s.threads t).results ++ [fr.res] } } := by
  unfold ConcEnv.step; simp only [hc, hr, hd, hm, if_true, if_false]

theorem step_install {s : EState} {t : Nat} {fr : EFrame} (hc : (s.threads t).cur = some fr)
    (hr : fr.returning = true) (hd : fr.defers = []) (hm : fr.m = .newScope) :
    step s t = some { s with scopes := updS s.scopes fr.newId { s.scopes fr.newId with live := true, data := fr.fresh, outer := some fr.cur, rank := s.clock }, threads := upd s.threads t { s.threads t with cur := none, results := (s.threads t).results ++ [fr.res] }, clock := s.clock + 1, writes := s.writes ++ fr.binds.map fun kv => (fr.newId, kv.1, kv.2) } := by
  unfold ConcEnv.step; simp only [hc, hr, hd, hm, if_true]

theorem step_alloc {s : EState} {t : Nat} {fr : EFrame} (hc : (s.threads t).cur = some fr)
    (hnr : fr.returning = false) (hm : (prog fr.m)[fr.pc]? = some .alloc) :
    step s t = some { s with threads := upd s.threads t { s.threads t with nextLocal := (s.threads t).nextLocal + 1, cur := some { fr with pc := fr.pc + 1, newId := some (t, (s.threads t).nextLocal), res := .scope (some (t, (s.threads t).nextLocal)) } } } := by
  unfold ConcEnv.step; simp only [hc, hnr, hm, Bool.false_eq_true, if_false]

theorem step_mop {s : EState} {t : Nat} {fr : EFrame} {m : EMOp} (hc : (s.threads t).cur = some fr)
    (hnr : fr.returning = false) (hm : (prog fr.m)[fr.pc]? = some m) (hna : m ≠ .alloc) :
    step s t = (exec t m fr (s.scopes fr.cur)).map fun (fr', A') =>
      { s with scopes := updS s.scopes fr.cur A', threads := upd s.threads t { s.threads t with cur := some fr' },
               writes := if m = .writeData then s.writes ++ [(fr.cur, fr.key, fr.val)] else s.writes } := by
  unfold ConcEnv.step; simp only [hc, hnr, hm, Bool.false_eq_true, if_false]

end LispModel.Proofs.ConcEnv

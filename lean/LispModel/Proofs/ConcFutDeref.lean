/-
  C10 proofs, part 8: steps of a `deref` of a future preserve the outcome invariant.
-/
import LispModel.Proofs.ConcFutBodyStep
namespace LispModel.Proofs.ConcFut
open LispModel.Conc LispModel.Conc.Fut

/-- the new frame of `t` is a reader holding the outcome of `f` -/
def isHand (f : Nat) : Option FFrame → Prop
  | some fr => fr.name = .derefF ∧ fr.fut = f ∧ fr.pc = 1 ∧ fr.returning = false
  | none => False

theorem inflight_upd_same {s : FState} {t f : Nat} {Fn : FutS} {thn : FThread} :
    inflight { futs := upd s.futs f Fn, threads := upd s.threads t thn } t f ↔ isHand f thn.cur := by
  unfold inflight isHand
  simp only [upd, if_true]
  cases thn.cur with
  | none => simp
  | some fr => simp

theorem inflight_upd_other {s : FState} {t t' f g : Nat} {Fn : FutS} {thn : FThread} (h : t' ≠ t) :
    inflight { futs := upd s.futs f Fn, threads := upd s.threads t thn } t' g ↔ inflight s t' g := by
  unfold inflight
  simp [upd, h]

theorem OutInv.derefUpdate {s : FState} {t f : Nat} {Fn : FutS} {thn : FThread} {fr : FFrame} (h : OutInv s)
    (hc : (s.threads t).cur = some fr) (hf : fr.fut = f)
    (hcur : ∀ fr', thn.cur = some fr' → fr'.name = .derefF ∧ fr'.fut = f)
    (hru : Fn.runs = (s.futs f).runs) (hre : Fn.res = (s.futs f).res) (hbo : Fn.body = (s.futs f).body)
    (hdo : Fn.done = (s.futs f).done)
    (hns : ¬ sent (s.futs f) → Fn.valCh = none ∧ Fn.errCh = none ∧ ¬ isHand f thn.cur)
    (hval : ∀ v, Fn.valCh = some v →
      Fn.res = some (false, v) ∧ Fn.errCh = none ∧ ¬ isHand f thn.cur ∧ ∀ t', t' ≠ t → ¬ inflight s t' f)
    (herr : ∀ e, Fn.errCh = some e →
      Fn.res = some (true, e) ∧ Fn.valCh = none ∧ ¬ isHand f thn.cur ∧ ∀ t', t' ≠ t → ¬ inflight s t' f)
    (hhand : isHand f thn.cur → Fn.valCh = none ∧ Fn.errCh = none ∧ (∀ t', t' ≠ t → ¬ inflight s t' f) ∧
      ∀ fr', thn.cur = some fr' → fr'.got ≠ none)
    (hoth : ∀ t', t' ≠ t → inflight s t' f → Fn.valCh = none ∧ Fn.errCh = none ∧ ¬ isHand f thn.cur)
    (hgot : ∀ fr' o, thn.cur = some fr' → fr'.got = some o → (s.futs f).res = some o ∧ sent (s.futs f))
    (hout : ∀ n g o, (n, g, Resp.out o) ∈ thn.out →
      (n, g, Resp.out o) ∈ (s.threads t).out ∨ (g = f ∧ (s.futs f).res = some o ∧ sent (s.futs f))) :
    OutInv { futs := upd s.futs f Fn, threads := upd s.threads t thn } := by
  have hsent : sent Fn ↔ sent (s.futs f) := by unfold sent; rw [hbo, hre]
  have hpd : pastDone Fn ↔ pastDone (s.futs f) := by unfold pastDone; rw [hbo, hre]
  -- inflight in the new state, by thread and future
  have hI : ∀ t' g, inflight { futs := upd s.futs f Fn, threads := upd s.threads t thn } t' g ↔
      (if t' = t then (g = f ∧ isHand f thn.cur) else inflight s t' g) := by
    intro t' g
    by_cases ht : t' = t
    · subst ht
      simp only [if_true]
      by_cases hg : g = f
      · subst hg; simp [inflight_upd_same]
      · constructor
        · rintro ⟨fr', h1, -, h3, -⟩
          simp [upd] at h1
          exact absurd ((hcur fr' h1).2.symm.trans h3).symm hg
        · rintro ⟨h1, -⟩; exact absurd h1 hg
    · simp only [ht, if_false]; exact inflight_upd_other ht
  have hIold : ∀ g, g ≠ f → ¬ inflight s t g := by
    rintro g hg ⟨fr', h1, -, h3, -⟩
    rw [hc] at h1; cases h1
    exact hg (h3.symm.trans hf)
  constructor
  · intro g; by_cases hg : g = f
    · subst hg; simp only [upd, if_true]; rw [hru, hre]; exact h.runs g
    · simpa [upd, hg] using h.runs g
  · intro g b hb; by_cases hg : g = f
    · subst hg; simp only [upd, if_true] at hb ⊢; rw [hbo] at hb; rw [hre]; exact h.fresh g b hb
    · simp only [upd, hg, if_false] at hb ⊢; exact h.fresh g b hb
  · intro g hp; by_cases hg : g = f
    · subst hg; simp only [upd, if_true] at hp ⊢; rw [hdo]; exact h.done g (hpd.mp hp)
    · simp only [upd, hg, if_false] at hp ⊢; exact h.done g hp
  · intro g hns'; by_cases hg : g = f
    · subst hg
      simp only [upd, if_true] at hns' ⊢
      have hns0 : ¬ sent (s.futs g) := fun hs => hns' (hsent.mpr hs)
      obtain ⟨a, b, c⟩ := hns hns0
      refine ⟨a, b, fun t' ht' => ?_⟩
      rw [hI] at ht'
      by_cases ht : t' = t
      · simp only [ht, if_true] at ht'; exact c ht'.2
      · simp only [ht, if_false] at ht'; exact (h.unsent g hns0).2.2 t' ht'
    · simp only [upd, hg, if_false] at hns' ⊢
      obtain ⟨a, b, c⟩ := h.unsent g hns'
      refine ⟨a, b, fun t' ht' => ?_⟩
      rw [hI] at ht'
      by_cases ht : t' = t
      · simp only [ht, if_true] at ht'; exact hg ht'.1
      · simp only [ht, if_false] at ht'; exact c t' ht'
  · intro g v hv; by_cases hg : g = f
    · subst hg
      simp only [upd, if_true] at hv ⊢
      obtain ⟨a, b, c, d⟩ := hval v hv
      refine ⟨a, b, fun t' ht' => ?_⟩
      rw [hI] at ht'
      by_cases ht : t' = t
      · simp only [ht, if_true] at ht'; exact c ht'.2
      · simp only [ht, if_false] at ht'; exact d t' ht ht'
    · simp only [upd, hg, if_false] at hv ⊢
      obtain ⟨a, b, c⟩ := h.inVal g v hv
      refine ⟨a, b, fun t' ht' => ?_⟩
      rw [hI] at ht'
      by_cases ht : t' = t
      · simp only [ht, if_true] at ht'; exact hg ht'.1
      · simp only [ht, if_false] at ht'; exact c t' ht'
  · intro g e he; by_cases hg : g = f
    · subst hg
      simp only [upd, if_true] at he ⊢
      obtain ⟨a, b, c, d⟩ := herr e he
      refine ⟨a, b, fun t' ht' => ?_⟩
      rw [hI] at ht'
      by_cases ht : t' = t
      · simp only [ht, if_true] at ht'; exact c ht'.2
      · simp only [ht, if_false] at ht'; exact d t' ht ht'
    · simp only [upd, hg, if_false] at he ⊢
      obtain ⟨a, b, c⟩ := h.inErr g e he
      refine ⟨a, b, fun t' ht' => ?_⟩
      rw [hI] at ht'
      by_cases ht : t' = t
      · simp only [ht, if_true] at ht'; exact hg ht'.1
      · simp only [ht, if_false] at ht'; exact c t' ht'
  · intro t' g ht'
    rw [hI] at ht'
    by_cases ht : t' = t
    · subst ht
      simp only [if_true] at ht'
      obtain ⟨hg, hh⟩ := ht'
      subst hg
      obtain ⟨a, b, c, -⟩ := hhand hh
      simp only [upd, if_true]
      refine ⟨a, b, fun t'' hne ht'' => ?_⟩
      rw [hI] at ht''
      simp only [hne, if_false] at ht''
      exact c t'' hne ht''
    · simp only [ht, if_false] at ht'
      by_cases hg : g = f
      · subst hg
        obtain ⟨a, b, c⟩ := hoth t' ht ht'
        simp only [upd, if_true]
        refine ⟨a, b, fun t'' hne ht'' => ?_⟩
        rw [hI] at ht''
        by_cases ht2 : t'' = t
        · simp only [ht2, if_true] at ht''; exact c ht''.2
        · simp only [ht2, if_false] at ht''; exact (h.inHand t' g ht').2.2 t'' hne ht''
      · obtain ⟨a, b, c⟩ := h.inHand t' g ht'
        simp only [upd, hg, if_false]
        refine ⟨a, b, fun t'' hne ht'' => ?_⟩
        rw [hI] at ht''
        by_cases ht2 : t'' = t
        · simp only [ht2, if_true] at ht''; exact hg ht''.1
        · simp only [ht2, if_false] at ht''; exact c t'' hne ht''
  · intro t' fr' h1 h2 h3 h4
    by_cases ht : t' = t
    · subst ht
      simp only [upd, if_true] at h1
      have hh : isHand f thn.cur := by rw [h1]; exact ⟨h2, (hcur fr' h1).2, h3, h4⟩
      exact (hhand hh).2.2.2 fr' h1
    · simp only [upd, ht, if_false] at h1
      exact h.handGot t' fr' h1 h2 h3 h4
  · intro t' fr' o h1 h2 h3
    by_cases ht : t' = t
    · subst ht
      simp only [upd, if_true] at h1
      obtain ⟨a, b⟩ := hgot fr' o h1 h3
      rw [(hcur fr' h1).2]
      simp only [upd, if_true]
      exact ⟨by rw [hre]; exact a, hsent.mpr b⟩
    · simp only [upd, ht, if_false] at h1
      obtain ⟨a, b⟩ := h.got t' fr' o h1 h2 h3
      by_cases hg : fr'.fut = f
      · simp only [upd, hg, if_true]; rw [hg] at a b; exact ⟨by rw [hre]; exact a, hsent.mpr b⟩
      · simp only [upd, hg, if_false]; exact ⟨a, b⟩
  · intro t' n g o hm
    have key : (s.futs g).res = some o ∧ sent (s.futs g) := by
      by_cases ht : t' = t
      · subst ht
        simp only [upd, if_true] at hm
        rcases hout n g o hm with h1 | ⟨h1, h2, h3⟩
        · exact h.outs t' n g o h1
        · subst h1; exact ⟨h2, h3⟩
      · simp only [upd, ht, if_false] at hm
        exact h.outs t' n g o hm
    by_cases hg : g = f
    · subst hg; simp only [upd, if_true]; exact ⟨by rw [hre]; exact key.1, hsent.mpr key.2⟩
    · simp only [upd, hg, if_false]; exact key

end LispModel.Proofs.ConcFut

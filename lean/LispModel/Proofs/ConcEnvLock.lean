/-
  C11 proofs, part 1: lock discipline of the scopes.  The locks a frame holds are counted from its
  deferred unlocks (plus the lock just taken and not yet deferred); these counts never exceed what the
  mutex state says, a writer excludes all readers.
-/
import LispModel.Proofs.ConcEnvKind
namespace LispModel.Proofs.ConcEnv
open LispModel.ConcEnv
open LispModel.Conc (upd)

def readMethod : EName → Bool | .find | .get | .symbols => true | _ => false
def writeMethod : EName → Bool | .set | .remove | .update => true | _ => false
def unlockOf (n : EName) : EMOp := if readMethod n then .runlock else .unlock

def justLocked (fr : EFrame) (sc : Sid) : Bool := !fr.returning && fr.pc == 1 && decide (fr.cur = sc)

def heldRc : Option EFrame → Sid → Nat
  | none, _ => 0
  | some fr, sc => fr.defers.count (.runlock, sc) + (if justLocked fr sc && readMethod fr.m then 1 else 0)

def heldWc : Option EFrame → Sid → Nat
  | none, _ => 0
  | some fr, sc => fr.defers.count (.unlock, sc) + (if justLocked fr sc && writeMethod fr.m then 1 else 0)

/-- a frame in the body of a method (past `lock; defer unlock`) has the unlock of the scope it is at on
    top of its deferred calls -/
def FW (fr : EFrame) : Prop :=
  fr.returning = false → fr.pc < (prog fr.m).length ∧
    (fr.m ≠ .newScope → 2 ≤ fr.pc → fr.defers.head? = some (unlockOf fr.m, fr.cur))

structure LockInv (s : EState) : Prop where
  fw : ∀ t fr, (s.threads t).cur = some fr → FW fr
  rd : ∀ t sc, heldRc (s.threads t).cur sc ≤ (s.scopes sc).r.count t
  wr : ∀ t sc, heldWc (s.threads t).cur sc ≤ (if (s.scopes sc).w = some t then 1 else 0)
  excl : ∀ sc, (s.scopes sc).w ≠ none → (s.scopes sc).r = []

/-- what a micro-op does to the mutex of the scope and to the control part of the frame -/
structure ExecShape (t : Nat) (m : EMOp) (fr : EFrame) (A : ScopeS) (fr' : EFrame) (A' : ScopeS) : Prop where
  name : fr'.m = fr.m
  same : A'.live = A.live ∧ A'.outer = A.outer ∧ A'.rank = A.rank
  lockR : m = .rlock → A.w = none ∧ A'.r = t :: A.r ∧ A'.w = A.w
  lockW : m = .lock → A.w = none ∧ A.r = [] ∧ A'.w = some t ∧ A'.r = A.r
  lockN : m ≠ .rlock → m ≠ .lock → A'.w = A.w ∧ A'.r = A.r
  ctl : (fr'.returning = true ∧ fr'.defers = fr.defers ∧ fr'.cur = fr.cur ∧ fr'.pc = fr.pc) ∨
        (fr'.returning = false ∧ fr'.pc = fr.pc + 1 ∧ fr'.cur = fr.cur ∧
          fr'.defers = (if m = .deferRUnlock then (.runlock, fr.cur) :: fr.defers
                        else if m = .deferUnlock then (.unlock, fr.cur) :: fr.defers else fr.defers)) ∨
        ((∃ n, m = .callOuter n) ∧ fr'.returning = false ∧ fr'.pc = 0 ∧ fr'.defers = fr.defers ∧
          A.outer = some fr'.cur)

theorem exec_shape {t m fr A fr' A'} (hnr : fr.returning = false) (h : exec t m fr A = some (fr', A')) :
    ExecShape t m fr A fr' A' := by
  cases m with
  | rlock =>
    simp [exec] at h; obtain ⟨h1, h2, h3⟩ := h; subst h2; subst h3
    exact ⟨rfl, ⟨rfl, rfl, rfl⟩, fun _ => ⟨h1, rfl, rfl⟩, by simp, by simp, Or.inr (Or.inl ⟨hnr, rfl, rfl, by simp⟩)⟩
  | lock =>
    simp [exec] at h; obtain ⟨⟨h1, h1'⟩, h2, h3⟩ := h; subst h2; subst h3
    exact ⟨rfl, ⟨rfl, rfl, rfl⟩, by simp, fun _ => ⟨h1, h1', rfl, rfl⟩, by simp, Or.inr (Or.inl ⟨hnr, rfl, rfl, by simp⟩)⟩
  | deferRUnlock =>
    simp [exec] at h; obtain ⟨h2, h3⟩ := h; subst h2; subst h3
    exact ⟨rfl, ⟨rfl, rfl, rfl⟩, by simp, by simp, fun _ _ => ⟨rfl, rfl⟩, Or.inr (Or.inl ⟨hnr, rfl, rfl, by simp⟩)⟩
  | deferUnlock =>
    simp [exec] at h; obtain ⟨h2, h3⟩ := h; subst h2; subst h3
    exact ⟨rfl, ⟨rfl, rfl, rfl⟩, by simp, by simp, fun _ _ => ⟨rfl, rfl⟩, Or.inr (Or.inl ⟨hnr, rfl, rfl, by simp⟩)⟩
  | readHit =>
    simp only [exec] at h
    split at h <;> (simp at h; obtain ⟨h2, h3⟩ := h; subst h2; subst h3)
    · exact ⟨rfl, ⟨rfl, rfl, rfl⟩, by simp, by simp, fun _ _ => ⟨rfl, rfl⟩, Or.inl ⟨rfl, rfl, rfl, rfl⟩⟩
    · exact ⟨rfl, ⟨rfl, rfl, rfl⟩, by simp, by simp, fun _ _ => ⟨rfl, rfl⟩, Or.inr (Or.inl ⟨hnr, rfl, rfl, by simp⟩)⟩
  | readMiss =>
    simp only [exec] at h
    split at h <;> (simp at h; obtain ⟨h2, h3⟩ := h; subst h2; subst h3)
    · exact ⟨rfl, ⟨rfl, rfl, rfl⟩, by simp, by simp, fun _ _ => ⟨rfl, rfl⟩, Or.inr (Or.inl ⟨hnr, rfl, rfl, by simp⟩)⟩
    · exact ⟨rfl, ⟨rfl, rfl, rfl⟩, by simp, by simp, fun _ _ => ⟨rfl, rfl⟩, Or.inl ⟨rfl, rfl, rfl, rfl⟩⟩
  | callOuter n =>
    simp only [exec] at h
    split at h <;> (simp at h; obtain ⟨h2, h3⟩ := h; subst h2; subst h3)
    · rename_i p hp
      exact ⟨rfl, ⟨rfl, rfl, rfl⟩, by simp, by simp, fun _ _ => ⟨rfl, rfl⟩, Or.inr (Or.inr ⟨⟨n, rfl⟩, hnr, rfl, rfl, hp⟩)⟩
    · exact ⟨rfl, ⟨rfl, rfl, rfl⟩, by simp, by simp, fun _ _ => ⟨rfl, rfl⟩, Or.inr (Or.inl ⟨hnr, rfl, rfl, by simp⟩)⟩
  | ret =>
    simp [exec] at h; obtain ⟨h2, h3⟩ := h; subst h2; subst h3
    exact ⟨rfl, ⟨rfl, rfl, rfl⟩, by simp, by simp, fun _ _ => ⟨rfl, rfl⟩, Or.inl ⟨rfl, rfl, rfl, rfl⟩⟩
  | readVal | callback | writeData | deleteData | setOuter | bindLoop =>
    simp [exec] at h; obtain ⟨h2, h3⟩ := h; subst h2; subst h3
    exact ⟨rfl, ⟨rfl, rfl, rfl⟩, by simp, by simp, fun _ _ => ⟨rfl, rfl⟩, Or.inr (Or.inl ⟨hnr, rfl, rfl, by simp⟩)⟩
  | _ => simp [exec] at h

def isLockOp : EMOp → Bool
  | .rlock | .lock | .deferRUnlock | .deferUnlock => true
  | _ => false

/-- the four lock micro-ops just advance the frame -/
theorem exec_lockctl {t m fr A fr' A'} (hl : isLockOp m = true) (h : exec t m fr A = some (fr', A')) :
    fr'.returning = fr.returning ∧ fr'.pc = fr.pc + 1 ∧ fr'.cur = fr.cur ∧ fr'.m = fr.m ∧
    fr'.defers = (if m = .deferRUnlock then (.runlock, fr.cur) :: fr.defers
                  else if m = .deferUnlock then (.unlock, fr.cur) :: fr.defers else fr.defers) := by
  cases m with
  | rlock => simp [exec] at h; obtain ⟨-, h2, -⟩ := h; subst h2; simp
  | lock => simp [exec] at h; obtain ⟨-, h2, -⟩ := h; subst h2; simp
  | deferRUnlock => simp [exec] at h; obtain ⟨h2, -⟩ := h; subst h2; simp
  | deferUnlock => simp [exec] at h; obtain ⟨h2, -⟩ := h; subst h2; simp
  | _ => simp [isLockOp] at hl

def allNames : List EName := [.find, .get, .set, .remove, .update, .symbols, .newScope]

theorem mem_allNames (n : EName) : n ∈ allNames := by cases n <;> simp [allNames]

def forAllE (P : EName → Nat → EMOp → Bool) : Bool :=
  allNames.all fun n => (List.range (prog n).length).all fun pc =>
    match (prog n)[pc]? with
    | none => true
    | some m => P n pc m

theorem forAllE_spec {P : EName → Nat → EMOp → Bool} (h : forAllE P = true) {n : EName} {pc : Nat} {m : EMOp}
    (hm : (prog n)[pc]? = some m) : P n pc m = true := by
  have hpc : pc < (prog n).length := by
    rcases Nat.lt_or_ge pc (prog n).length with hlt | hge
    · exact hlt
    · rw [List.getElem?_eq_none_iff.mpr hge] at hm; cases hm
  unfold forAllE at h
  rw [List.all_eq_true] at h
  have h1 := h n (mem_allNames n)
  rw [List.all_eq_true] at h1
  have h2 := h1 pc (List.mem_range.mpr hpc)
  rw [hm] at h2
  exact h2

def lockEntry (n : EName) (pc : Nat) (m : EMOp) : Bool :=
  ((m == .rlock) → (pc == 0 && readMethod n)) && ((m == .lock) → (pc == 0 && writeMethod n)) &&
  ((m == .deferRUnlock) → (pc == 1 && readMethod n)) && ((m == .deferUnlock) → (pc == 1 && writeMethod n)) &&
  ((!isLockOp m) → (decide (2 ≤ pc) || n == .newScope)) &&
  ((m != .ret) → decide (pc + 1 < (prog n).length)) &&
  ((n == .newScope) → !isLockOp m) &&
  ((m == .alloc) → (n == .newScope && pc == 0))

theorem lockTable_true : forAllE lockEntry = true := by decide

end LispModel.Proofs.ConcEnv

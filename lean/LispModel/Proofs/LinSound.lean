/-
  Soundness of the executable linearizability checker: `linCheck … = true → Linearizable …`.
-/
import LispModel.Spec.Lin
namespace LispModel.Proofs.LinSound
open LispModel.Spec.Lin

variable {σ ι : Type}

theorem perm_cons_eraseIdx {α : Type} : ∀ (l : List α) (i : Nat) (x : α), l[i]? = some x →
    l.Perm (x :: l.eraseIdx i)
  | [], i, x, h => by simp at h
  | a :: l, 0, x, h => by simp at h; subst h; simp
  | a :: l, i + 1, x, h => by
    simp at h
    have ih := perm_cons_eraseIdx l i x h
    simp only [List.eraseIdx_cons_succ]
    exact (List.Perm.cons a ih).trans (List.Perm.swap x a _)

theorem mem_of_mem_eraseIdx {α : Type} {l : List α} {i : Nat} {y : α} (h : y ∈ l.eraseIdx i) : y ∈ l :=
  List.mem_of_mem_eraseIdx h

theorem linSearch_sound (obj : Obj σ ι) (final : σ → Bool) :
    ∀ (fuel : Nat) (s : σ) (h : List (HOp ι)), linSearch obj final fuel s h = true →
      Linearizable obj final s h
  | 0, s, h, hs => by
    simp only [linSearch, Bool.and_eq_true, List.all_eq_true] at hs
    exact ⟨[], h, s, by simp, fun x hx => hs.1 x hx, trivial, rfl, hs.2⟩
  | fuel + 1, s, h, hs => by
    simp only [linSearch, Bool.or_eq_true, Bool.and_eq_true, List.all_eq_true, List.any_eq_true] at hs
    rcases hs with hs | ⟨i, -, hi⟩
    · exact ⟨[], h, s, by simp, fun x hx => hs.1 x hx, trivial, rfl, hs.2⟩
    · split at hi
      · cases hi
      · rename_i x hx
        simp only [Bool.and_eq_true] at hi
        obtain ⟨hfirst, hrest⟩ := hi
        split at hrest
        · cases hrest
        · rename_i s' happ
          obtain ⟨l, rest, sf, hperm, hopt, hrt, hrun, hfin⟩ :=
            linSearch_sound obj final fuel s' (h.eraseIdx i) hrest
          refine ⟨x :: l, rest, sf, ?_, hopt, ⟨?_, hrt⟩, ?_, hfin⟩
          · exact (List.Perm.cons x hperm).trans (perm_cons_eraseIdx h i x hx).symm
          · intro y hy
            have hy' : y ∈ h := mem_of_mem_eraseIdx (hperm.subset (List.mem_append_left _ hy))
            unfold canBeFirst at hfirst
            rw [List.all_eq_true] at hfirst
            simpa using hfirst y hy'
          · simp [runSeq, happ, hrun]

/-- a history accepted by `linCheck` is linearizable -/
theorem linCheck_sound (obj : Obj σ ι) (final : σ → Bool) (s0 : σ) (h : List (HOp ι))
    (hc : linCheck obj final s0 h = true) : Linearizable obj final s0 h :=
  linSearch_sound obj final h.length s0 h hc

end LispModel.Proofs.LinSound

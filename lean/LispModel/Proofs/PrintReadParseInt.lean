/-
  C06, reader level: `parseInt` inverts `intStr` on the int64 range.  Core Lean only.
-/
import LispModel.Read
import LispModel.Print
namespace LispModel.Proofs.PrintRead
open LispModel LispModel.Read LispModel.Print

/-- the value of a digit string, as `parseInt` computes it in base 10 -/
def decValue (ds : List Char) : Nat := ds.foldl (fun acc c => acc * 10 + digitOf c) 0

theorem digitOf_dig : ∀ k, k < 10 → digitOf (Char.ofNat (48 + k)) = k := by decide

theorem decValue_append (a : List Char) (c : Char) : decValue (a ++ [c]) = decValue a * 10 + digitOf c := by
  simp [decValue, List.foldl_append]

theorem natDigits_value : ∀ (f n : Nat), n < f → decValue (natDigits f n) = n := by
  intro f
  induction f with
  | zero => intro n h; omega
  | succ f ih =>
    intro n hlt
    unfold natDigits
    by_cases h10 : n < 10
    · rw [if_pos h10]
      simp [decValue, digitOf_dig n h10]
    · rw [if_neg h10, decValue_append, ih (n / 10) (by omega), digitOf_dig (n % 10) (by omega)]
      omega

/-- a decimal digit character -/
def IsDig (c : Char) : Prop := ∃ k, k < 10 ∧ c = Char.ofNat (48 + k)

theorem dig_ne : ∀ k, k < 10 → Char.ofNat (48 + k) ≠ '-' ∧ Char.ofNat (48 + k) ≠ '+' ∧ Char.ofNat (48 + k) ≠ '_' ∧
    (Char.ofNat (48 + k) = '0' → k = 0) := by decide

theorem natDigits_shape : ∀ (f n : Nat), n < f → ∃ c r, natDigits f n = c :: r ∧ IsDig c ∧ (∀ x ∈ r, IsDig x) ∧
    (c = '0' → r = []) := by
  intro f
  induction f with
  | zero => intro n h; omega
  | succ f ih =>
    intro n hlt
    unfold natDigits
    by_cases h10 : n < 10
    · rw [if_pos h10]
      exact ⟨_, [], rfl, ⟨n, h10, rfl⟩, by simp, fun _ => rfl⟩
    · rw [if_neg h10]
      obtain ⟨c, r, hcr, hc, hr, h0⟩ := ih (n / 10) (by omega)
      refine ⟨c, r ++ [Char.ofNat (48 + n % 10)], by rw [hcr]; rfl, hc, ?_, ?_⟩
      · intro x hx
        rcases List.mem_append.mp hx with hx | hx
        · exact hr x hx
        · simp only [List.mem_singleton] at hx
          exact ⟨n % 10, by omega, hx⟩
      · intro hc0
        exfalso
        obtain ⟨k, hk, rfl⟩ := hc
        have hk0 := (dig_ne k hk).2.2.2 hc0
        subst hk0
        have hr0 := h0 hc0
        subst hr0
        have hv := natDigits_value f (n / 10) (by omega)
        rw [hcr] at hv
        simp [decValue, digitOf_dig 0 (by omega)] at hv
        omega

theorem filter_digits (ds : List Char) (h : ∀ x ∈ ds, IsDig x) : ds.filter (· ≠ '_') = ds := by
  apply List.filter_eq_self.mpr
  intro x hx
  obtain ⟨k, hk, rfl⟩ := h x hx
  simpa using (dig_ne k hk).2.2.1

/-- the sign detection of `parseInt` -/
def signSplit (s : List Char) : Bool × List Char :=
  match s with
  | '-' :: r => (true, r)
  | '+' :: r => (false, r)
  | _ => (false, s)

/-- the base detection of `parseInt` -/
def baseSplit (s : List Char) : Nat × List Char :=
  match s with
  | '0' :: c :: r =>
    if c = 'x' ∨ c = 'X' then (16, r)
    else if c = 'b' ∨ c = 'B' then (2, r)
    else if c = 'o' ∨ c = 'O' then (8, r)
    else (8, c :: r)
  | _ => (10, s)

theorem parseInt_eq (s : List Char) :
    parseInt s =
      (let a := signSplit s
       let b := baseSplit a.2
       let n := (b.2.filter (· ≠ '_')).foldl (fun acc c => acc * b.1 + digitOf c) 0
       if a.1 then (if n ≤ 9223372036854775808 then some (-(Int.ofNat n)) else none)
       else (if n ≤ 9223372036854775807 then some (Int.ofNat n) else none)) := rfl

theorem baseSplit_digits (c : Char) (r : List Char) (h0 : c = '0' → r = []) : baseSplit (c :: r) = (10, c :: r) := by
  unfold baseSplit
  split
  · rename_i c' r' heq
    injection heq with h1 h2
    have := h0 h1
    rw [this] at h2
    cases h2
  · rfl

theorem signSplit_dig (c : Char) (r : List Char) (n1 : c ≠ '-') (n2 : c ≠ '+') : signSplit (c :: r) = (false, c :: r) := by
  unfold signSplit
  split
  · rename_i r' heq; injection heq with h1 _; exact absurd h1 n1
  · rename_i r' heq; injection heq with h1 _; exact absurd h1 n2
  · rfl

theorem parseInt_pos (c : Char) (r : List Char) (hc : IsDig c) (hr : ∀ x ∈ r, IsDig x) (h0 : c = '0' → r = []) :
    parseInt (c :: r) =
      if decValue (c :: r) ≤ 9223372036854775807 then some (Int.ofNat (decValue (c :: r))) else none := by
  have hall : ∀ x ∈ c :: r, IsDig x := by
    intro x hx
    rcases List.mem_cons.mp hx with rfl | hx
    · exact hc
    · exact hr x hx
  obtain ⟨k, hk, rfl⟩ := hc
  obtain ⟨n1, n2, _, _⟩ := dig_ne k hk
  rw [parseInt_eq, signSplit_dig _ _ n1 n2]
  simp only [baseSplit_digits _ _ h0, filter_digits _ hall]
  rfl

theorem parseInt_neg (c : Char) (r : List Char) (hc : IsDig c) (hr : ∀ x ∈ r, IsDig x) (h0 : c = '0' → r = []) :
    parseInt ('-' :: c :: r) =
      if decValue (c :: r) ≤ 9223372036854775808 then some (-(Int.ofNat (decValue (c :: r)))) else none := by
  have hall : ∀ x ∈ c :: r, IsDig x := by
    intro x hx
    rcases List.mem_cons.mp hx with rfl | hx
    · exact hc
    · exact hr x hx
  have e1 : signSplit ('-' :: c :: r) = (true, c :: r) := rfl
  rw [parseInt_eq, e1]
  simp only [baseSplit_digits _ _ h0, filter_digits _ hall]
  rfl

/-- `parseInt` inverts `intStr` on the int64 range -/
theorem parseInt_intStr (i : Int) (h : -9223372036854775808 ≤ i ∧ i ≤ 9223372036854775807) :
    parseInt (intStr i) = some i := by
  cases i with
  | ofNat n =>
    obtain ⟨c, r, hcr, hc, hr, h0⟩ := natDigits_shape (n + 1) n (by omega)
    have hv := natDigits_value (n + 1) n (by omega)
    simp only [intStr]
    rw [hcr] at hv ⊢
    rw [parseInt_pos c r hc hr h0, hv]
    have : n ≤ 9223372036854775807 := by
      have := h.2
      simp only [Int.ofNat_eq_natCast] at this
      omega
    rw [if_pos this]
  | negSucc n =>
    obtain ⟨c, r, hcr, hc, hr, h0⟩ := natDigits_shape (n + 2) (n + 1) (by omega)
    have hv := natDigits_value (n + 2) (n + 1) (by omega)
    simp only [intStr]
    rw [hcr] at hv ⊢
    rw [parseInt_neg c r hc hr h0, hv]
    have : n + 1 ≤ 9223372036854775808 := by
      have := h.1
      omega
    rw [if_pos this]
    rfl

end LispModel.Proofs.PrintRead
